---------------------------- MODULE KeysetCatalog ----------------------------
(* Representative concrete keys for keyset-level experiments (C12 KeysetIO, C13 Secrets). *)
(* A catalog name stands for a key type of the inventory KeyParams.tla with fixed          *)
(* parameters; the conformance driver has the same table (harness/cmd/c12/catalog.go).     *)
(* Per name: kt/kind (inventory), variant (=> output prefix type and id requirement),      *)
(* primitive family, and the key material class of KeysetIO.tla.                           *)
EXTENDS KeyParams

KmsAeadUrl == "type.googleapis.com/google.crypto.tink.KmsAeadKey"
KmsEnvelopeUrl == "type.googleapis.com/google.crypto.tink.KmsEnvelopeAeadKey"
UnknownUrl == "type.googleapis.com/verif.UnregisteredKey"

E(kt, kind, variant, fam) == [kt |-> kt, kind |-> kind, variant |-> variant, fam |-> fam]
Catalog ==
  [ aesgcm128_tink     |-> E("AesGcm", "symmetric", "TINK", "aead"),
    aesgcm256_raw      |-> E("AesGcm", "symmetric", "NO_PREFIX", "aead"),
    xchacha_crunchy    |-> E("XChaCha20Poly1305", "symmetric", "CRUNCHY", "aead"),
    aesctrhmac_tink    |-> E("AesCtrHmac", "symmetric", "TINK", "aead"),
    hmac_tink          |-> E("Hmac", "symmetric", "TINK", "mac"),
    hmac_legacy        |-> E("Hmac", "symmetric", "LEGACY", "mac"),
    aescmac_raw        |-> E("AesCmac", "symmetric", "NO_PREFIX", "mac"),
    aessiv_tink        |-> E("AesSiv", "symmetric", "TINK", "daead"),
    aessiv_raw         |-> E("AesSiv", "symmetric", "NO_PREFIX", "daead"),
    hkdfprf            |-> E("HkdfPrf", "symmetric", "NO_PREFIX", "prf"),
    jwthmac_kid        |-> E("JwtHmac", "symmetric", "BASE64_KEY_ID", "jwtmac"),
    ecdsa_p256_tink    |-> E("Ecdsa", "private", "TINK", "sig"),
    ecdsa_p256_tink_pub |-> E("Ecdsa", "public", "TINK", "sig"),
    ed25519_raw        |-> E("Ed25519", "private", "NO_PREFIX", "sig"),
    ed25519_raw_pub    |-> E("Ed25519", "public", "NO_PREFIX", "sig"),
    ed25519_legacy     |-> E("Ed25519", "private", "LEGACY", "sig"),
    mldsa65_tink       |-> E("MlDsa", "private", "TINK", "sig"),
    mldsa65_tink_pub   |-> E("MlDsa", "public", "TINK", "sig"),
    hpke_x25519_tink   |-> E("Hpke", "private", "TINK", "hybrid"),
    hpke_x25519_tink_pub |-> E("Hpke", "public", "TINK", "hybrid"),
    ecies_p256_raw     |-> E("Ecies", "private", "NO_PREFIX", "hybrid"),
    ecies_p256_raw_pub |-> E("Ecies", "public", "NO_PREFIX", "hybrid"),
    kmsaead            |-> E("KmsAead", "remote", "TINK", "none"),
    kmsenvelope_raw    |-> E("KmsEnvelopeAead", "remote", "NO_PREFIX", "none"),
    unknown_tink       |-> E("Unregistered", "unknown", "TINK", "none"),
    unknown_raw        |-> E("Unregistered", "unknown", "NO_PREFIX", "none") ]
Names == DOMAIN Catalog

MatOf(name) == LET k == Catalog[name].kind IN
  CASE k = "symmetric" -> "SYMMETRIC" [] k = "private" -> "PRIVATE" [] k = "public" -> "PUBLIC"
    [] k = "remote" -> "REMOTE" [] k = "unknown" -> "UNKNOWN"
UrlOf(name) == LET c == Catalog[name] IN
  CASE c.kt = "KmsAead" -> KmsAeadUrl [] c.kt = "KmsEnvelopeAead" -> KmsEnvelopeUrl [] c.kt = "Unregistered" -> UnknownUrl
    [] OTHER -> TypeURL(c.kt, c.kind)
PrefixOfName(name) == PrefixOf(Catalog[name].variant)
FamOf(name) == Catalog[name].fam
\* proto KeyMaterialType spelling
ProtoMat(name) == LET m == MatOf(name) IN
  CASE m = "PRIVATE" -> "ASYMMETRIC_PRIVATE" [] m = "PUBLIC" -> "ASYMMETRIC_PUBLIC" [] m = "UNKNOWN" -> "UNKNOWN_KEYMATERIAL"
    [] OTHER -> m
NamesOfMat(m) == {n \in Names : MatOf(n) = m}
\* the public counterpart of a private catalog key
PublicName(name) == name \o "_pub"
================================================================================
