----------------------------- MODULE KeysetManager -----------------------------
(* keyset.Manager and the handles it produces, one action per public method, written *)
(* like the code (keyset/manager.go): an ordered list of entries, the set of key ids  *)
(* that will never be handed out again, and immutable handle snapshots.               *)
(*                                                                                    *)
(* Used three ways: exhaustive model checking (mc/MC_KeysetManager), as the source of *)
(* replay plans (every edge of the bounded state graph is executed by the real        *)
(* Manager), and as the step relation of trace validation (trace/Trace_KeysetManager).*)
EXTENDS Integers, Sequences, FiniteSets, SequencesExt

CONSTANTS ID,          \* key ids (model values or strings; in traces: 8-hex-digit strings)
          Mgr,         \* manager identities
          NoReq        \* "the key has no ID requirement"

Status == {"ENABLED", "DISABLED", "DESTROYED"}

(* One manager entry (manager.go `entry`): req is the key's own ID requirement. *)
Entry == [id : ID, status : Status, primary : BOOLEAN, req : ID \cup {NoReq}]

VARIABLES mgr,        \* [Mgr -> [entries : Seq(Entry), unavail : SUBSET ID]]
          handles,    \* sequence of snapshots (Seq(Entry)) returned by Handle() or given from outside
          res         \* result of the last call (output only)

vars == <<mgr, handles, res>>

Ids(es)        == {es[i].id : i \in DOMAIN es}
Find(es, id)   == {i \in DOMAIN es : es[i].id = id}            \* findEntry: first match; ids are unique (invariant)
Idx(es, id)    == CHOOSE i \in Find(es, id) : \A j \in Find(es, id) : i <= j
HasPrimary(es) == \E i \in DOMAIN es : es[i].primary
Ok(op, m, id)  == [op |-> op, m |-> m, err |-> FALSE, id |-> id, h |-> 0]
Err(op, m, id) == [op |-> op, m |-> m, err |-> TRUE,  id |-> id, h |-> 0]

NewEntry(id, req) == [id |-> id, status |-> "ENABLED", primary |-> FALSE, req |-> req]

(***** Add(template) / AddNewKeyFromParameters(params) / AddKey(key without ID requirement) *****)
(* newRandomKeyID loops until it draws an id not in unavail; the id is marked unavailable.      *)
(* withReq: a non-RAW template gives the new key the drawn id as its ID requirement.            *)
AddRandom(m, id, withReq) ==
  /\ id \in ID \ mgr[m].unavail
  /\ mgr' = [mgr EXCEPT ![m].entries = Append(@, NewEntry(id, IF withReq THEN id ELSE NoReq)),
                        ![m].unavail = @ \cup {id}]
  /\ res' = Ok("AddRandom", m, id)
  /\ UNCHANGED handles

(* Add with a template that is refused (nil, unknown prefix type, key creation fails). The code  *)
(* may already have drawn an id (it draws before creating the key): entries stay unchanged.      *)
AddFail(m, burn) ==
  /\ burn \subseteq ID \ mgr[m].unavail /\ Cardinality(burn) <= 1
  /\ mgr' = [mgr EXCEPT ![m].unavail = @ \cup burn]
  /\ res' = Err("AddFail", m, NoReq)
  /\ UNCHANGED handles

(***** AddKey(key with ID requirement r) *****)
AddKeyReq(m, r) ==
  /\ r \in ID
  /\ IF r \in mgr[m].unavail
       THEN /\ res' = Err("AddKeyReq", m, r)
            /\ UNCHANGED mgr
       ELSE /\ mgr' = [mgr EXCEPT ![m].entries = Append(@, NewEntry(r, r)), ![m].unavail = @ \cup {r}]
            /\ res' = Ok("AddKeyReq", m, r)
  /\ UNCHANGED handles

(***** SetPrimary(id) *****)
SetPrimary(m, id) ==
  LET es == mgr[m].entries IN
  /\ IF Find(es, id) = {} \/ es[Idx(es, id)].status # "ENABLED"
       THEN /\ res' = Err("SetPrimary", m, id)
            /\ UNCHANGED mgr
       ELSE /\ mgr' = [mgr EXCEPT ![m].entries = [i \in DOMAIN es |-> [es[i] EXCEPT !.primary = (es[i].id = id)]]]
            /\ res' = Ok("SetPrimary", m, id)
  /\ UNCHANGED handles

(***** Enable(id) / Disable(id) *****)
Enable(m, id) ==
  LET es == mgr[m].entries IN
  /\ IF Find(es, id) = {} \/ es[Idx(es, id)].status \notin {"ENABLED", "DISABLED"}
       THEN /\ res' = Err("Enable", m, id)
            /\ UNCHANGED mgr
       ELSE /\ mgr' = [mgr EXCEPT ![m].entries[Idx(es, id)].status = "ENABLED"]
            /\ res' = Ok("Enable", m, id)
  /\ UNCHANGED handles

Disable(m, id) ==
  LET es == mgr[m].entries IN
  /\ IF \/ Find(es, id) = {}
        \/ es[Idx(es, id)].primary
        \/ es[Idx(es, id)].status \notin {"ENABLED", "DISABLED"}
       THEN /\ res' = Err("Disable", m, id)
            /\ UNCHANGED mgr
       ELSE /\ mgr' = [mgr EXCEPT ![m].entries[Idx(es, id)].status = "DISABLED"]
            /\ res' = Ok("Disable", m, id)
  /\ UNCHANGED handles

(***** Delete(id): the id stays unavailable *****)
Delete(m, id) ==
  LET es == mgr[m].entries IN
  /\ IF Find(es, id) = {} \/ es[Idx(es, id)].primary
       THEN /\ res' = Err("Delete", m, id)
            /\ UNCHANGED mgr
       ELSE /\ mgr' = [mgr EXCEPT ![m].entries = RemoveAt(es, Idx(es, id))]
            /\ res' = Ok("Delete", m, id)
  /\ UNCHANGED handles

(***** Handle(): a snapshot; fails iff there is no primary *****)
Handle(m) ==
  LET es == mgr[m].entries IN
  /\ IF HasPrimary(es)
       THEN /\ handles' = Append(handles, es)
            /\ res' = Ok("Handle", m, NoReq)
       ELSE /\ res' = Err("Handle", m, NoReq)
            /\ UNCHANGED handles
  /\ UNCHANGED mgr

(***** NewManagerFromHandle(h): manager m starts over from snapshot h *****)
FromHandle(m, h) ==
  /\ h \in DOMAIN handles
  /\ mgr' = [mgr EXCEPT ![m] = [entries |-> handles[h], unavail |-> Ids(handles[h])]]
  /\ res' = [Ok("FromHandle", m, NoReq) EXCEPT !.h = h]
  /\ UNCHANGED handles

(***** Initial states: empty managers; optionally one handle given from outside *****)
WellFormedKeyset(es) ==
  /\ \A i, j \in DOMAIN es : i # j => es[i].id # es[j].id
  /\ Cardinality({i \in DOMAIN es : es[i].primary}) = 1
  /\ \A i \in DOMAIN es : es[i].primary => es[i].status = "ENABLED"
  /\ \A i \in DOMAIN es : es[i].req \in {NoReq, es[i].id}

EmptyMgr == [entries |-> <<>>, unavail |-> {}]

Init(external) ==                 \* external: set of snapshots that may be present initially
  /\ mgr = [m \in Mgr |-> EmptyMgr]
  /\ handles \in {<<>>} \cup {<<h>> : h \in external}
  /\ res = Ok("Init", CHOOSE m \in Mgr : TRUE, NoReq)

Next ==
  \E m \in Mgr :
    \/ \E id \in ID, w \in BOOLEAN : AddRandom(m, id, w)
    \/ \E b \in SUBSET ID : AddFail(m, b)
    \/ \E id \in ID : AddKeyReq(m, id) \/ SetPrimary(m, id) \/ Enable(m, id) \/ Disable(m, id) \/ Delete(m, id)
    \/ Handle(m)
    \/ \E h \in DOMAIN handles : FromHandle(m, h)

(************************************ properties ************************************)
UniqueIds(es)       == \A i, j \in DOMAIN es : i # j => es[i].id # es[j].id
AtMostOnePrimary(es) == Cardinality({i \in DOMAIN es : es[i].primary}) <= 1
PrimaryEnabled(es)  == \A i \in DOMAIN es : es[i].primary => es[i].status = "ENABLED"
ReqKept(es)         == \A i \in DOMAIN es : es[i].req \in {NoReq, es[i].id}

TypeOK ==
  /\ \A m \in Mgr : mgr[m].entries \in Seq(Entry) /\ mgr[m].unavail \subseteq ID
  /\ \A h \in DOMAIN handles : handles[h] \in Seq(Entry)

(* C11: Handle() fails or returns distinct ids and exactly one primary, which is ENABLED. *)
HandleWellFormed == \A h \in DOMAIN handles : WellFormedKeyset(handles[h])

(* Manager-side inductive core (what makes HandleWellFormed true at every Handle()). *)
ManagerInv ==
  \A m \in Mgr : LET es == mgr[m].entries IN
    /\ UniqueIds(es) /\ AtMostOnePrimary(es) /\ PrimaryEnabled(es) /\ ReqKept(es)
    /\ Ids(es) \subseteq mgr[m].unavail

(* C11: an operation that returns an error leaves the keyset unchanged. *)
ErrLeavesUnchanged == [][res'.err => \A m \in Mgr : mgr'[m].entries = mgr[m].entries]_vars

(* C11: the primary cannot be disabled or deleted (by any manager operation other than starting over). *)
PrimaryProtected ==
  [][\A m \in Mgr : (res'.op = "FromHandle" /\ res'.m = m) \/
       \A i \in DOMAIN mgr[m].entries : mgr[m].entries[i].primary =>
         \/ \E j \in DOMAIN mgr'[m].entries : /\ mgr'[m].entries[j].id = mgr[m].entries[i].id
                                              /\ mgr'[m].entries[j].status = "ENABLED"]_vars

(* C11: handles obtained earlier are unaffected by later operations (of any manager). *)
HandlesImmutable == [][IsPrefix(handles, handles')]_vars

(* A call on one manager never changes another manager. *)
ManagersIsolated == [][\A m \in Mgr : m # res'.m => mgr'[m] = mgr[m]]_vars

(* Ids ever used by a manager are never handed out again by it. *)
IdsStayUnavailable ==
  [][\A m \in Mgr : (res'.op = "FromHandle" /\ res'.m = m) \/ mgr[m].unavail \subseteq mgr'[m].unavail]_vars

Spec(external) == Init(external) /\ [][Next]_vars
================================================================================
