-------------------------------- MODULE Streaming --------------------------------
(* C07: one encryption and one decryption through tink-go's streaming AEAD, as a   *)
(* state machine whose actions are the public calls                                *)
(*   NewEncryptingWriter, Write(p), Close, NewDecryptingReader, Read(p)            *)
(* plus the environment: the underlying io.Writer that may fail from some call on, *)
(* the manipulation applied to the finished ciphertext, the underlying io.Reader   *)
(* with short reads / data-with-EOF / failure from some call on.  The objects are  *)
(* the operators of StreamOps (written like noncebased.go).                        *)
(*                                                                                 *)
(* The plaintext is the byte string written so far (wpos bytes of the one          *)
(* plaintext source), so a behaviour fixes a partition of the plaintext into       *)
(* Write calls and of the decrypted stream into Read calls.                        *)
(*                                                                                 *)
(* Properties (all checked by TLC over every reachable state, spec/mc/MC_Streaming)*)
(*   WriterCanonical  chunking independence of the writer + documented format      *)
(*   RoundTrip        exactly the plaintext, then EOF, never an error              *)
(*   TamperDetected   a manipulated stream never ends cleanly; data returned       *)
(*                    before the error is a prefix of the plaintext                *)
(*   FaultSurfaces    a persistent I/O error is never overall success              *)
(*   ReadProgress     a non-empty Read never spins                                 *)
(* What the objects do AFTER their first error is modelled (it is what the code    *)
(* does) and is not constrained by the property.                                   *)
EXTENDS StreamOps

WAad == 0                      \* associated data of the writer; the reader's may differ (manipulation "aad")

VARIABLES
  pp,        \* the parameter record [P, T, Off, Hdr, mk] (StreamOps) of this encryption; never changes
  phase,     \* "start", "writing", "wfail" (constructor failed), "closed", "stream", "reading", "rfail"
  wpos,      \* plaintext bytes accepted by the writer so far
  w, sink,   \* noncebased.Writer, the underlying io.Writer
  werr,      \* some call of the encrypting side returned an error
  manip,     \* the manipulations applied to the ciphertext (a sequence; <<>> = untouched)
  raad,      \* associated data given to the reader
  src, r,    \* the underlying io.Reader, noncebased.Reader
  got,       \* plaintext returned by Read calls while every result was nil
  outcome,   \* first non-nil result of the decrypting side: "none", "EOF", "ERR"
  res        \* the last call and its result (output only)

vars == <<pp, phase, wpos, w, sink, werr, manip, raad, src, r, got, outcome, res>>

Res(op, n, ret, err, data, log) == [op |-> op, n |-> n, ret |-> ret, err |-> err, data |-> data, log |-> log]
ErrStr(b) == IF b THEN "ERR" ELSE "nil"

Init(params, sinkFails) ==
  /\ ParamsOK(params) /\ pp = params
  /\ phase = "start" /\ wpos = 0 /\ w = NewW(NoSession) /\ werr = FALSE
  /\ sink \in {NewSink(k) : k \in sinkFails}
  /\ manip = <<>> /\ raad = WAad /\ src = NewSource(<<>>, 0, "free") /\ r = NewR(NoSession)
  /\ got = <<>> /\ outcome = "none"
  /\ res = Res("Init", 0, 0, "nil", <<>>, <<>>)

(***** the encrypting side *****)
NewWriter ==
  /\ phase = "start"
  /\ LET x == WriterNew(pp, sink, WAad) IN
       /\ w' = x.w /\ sink' = x.sink /\ werr' = x.err
       /\ phase' = IF x.err THEN "wfail" ELSE "writing"
       /\ res' = Res("NewWriter", 0, 0, ErrStr(x.err), <<>>, x.log)
  /\ UNCHANGED <<pp, wpos, manip, raad, src, r, got, outcome>>

\* the application writes the next n bytes of the plaintext (n = 0 allowed); on a short count it goes on behind it
Write(n) ==
  /\ phase \in {"writing", "closed"}
  /\ LET x == WriterWrite(pp, w, sink, RSlice(PlainText(wpos + n), wpos, n)) IN
       /\ w' = x.w /\ sink' = x.sink /\ wpos' = wpos + x.n /\ werr' = (werr \/ x.err)
       /\ res' = Res("Write", n, x.n, ErrStr(x.err), <<>>, x.log)
  /\ UNCHANGED <<pp, phase, manip, raad, src, r, got, outcome>>

Close ==
  /\ phase \in {"writing", "closed"}
  /\ LET x == WriterClose(pp, w, sink) IN
       /\ w' = x.w /\ sink' = x.sink /\ werr' = (werr \/ x.err)
       /\ phase' = IF x.w.closed THEN "closed" ELSE phase
       /\ res' = Res("Close", 0, 0, ErrStr(x.err), <<>>, x.log)
  /\ UNCHANGED <<pp, wpos, manip, raad, src, r, got, outcome>>

(***** the ciphertext travels: manipulations ms, a source of the given mode that fails from call srcFail on *****)
Tamper(ms, srcFail, mode) ==
  /\ phase = "closed" /\ ~werr
  /\ manip' = ms /\ raad' = IF HasAad(ms) THEN 1 ELSE WAad
  /\ src' = NewSource(ApplyAll(pp, ms, sink.out), srcFail, mode)
  /\ phase' = "stream"
  /\ res' = Res("Tamper", 0, 0, "nil", <<>>, <<>>)
  /\ UNCHANGED <<pp, wpos, w, sink, werr, r, got, outcome>>

(***** the decrypting side *****)
NewReader(sc) ==
  /\ phase = "stream"
  /\ \E x \in ReaderNew(pp, src, raad, sc) :
       /\ r' = x.r /\ src' = x.src
       /\ phase' = IF x.err THEN "rfail" ELSE "reading"
       /\ outcome' = IF x.err THEN "ERR" ELSE "none"
       /\ res' = Res("NewReader", 0, 0, ErrStr(x.err), <<>>, x.log)
  /\ UNCHANGED <<pp, wpos, w, sink, werr, manip, raad, got>>

Read(n, sc) ==
  /\ phase = "reading"
  /\ \E x \in ReaderRead(pp, r, src, n, sc) :
       /\ r' = x.r /\ src' = x.src
       /\ got' = IF outcome = "none" /\ x.err = "nil" THEN RCat(got, x.data) ELSE got
       /\ outcome' = IF outcome = "none" THEN (IF x.err = "nil" THEN "none" ELSE x.err) ELSE outcome
       /\ res' = Res("Read", n, RLen(x.data), x.err, x.data, x.log)
  /\ UNCHANGED <<pp, phase, wpos, w, sink, werr, manip, raad>>

(***** properties *****)
Plain     == PlainText(wpos)
Authentic == Canon(pp, Session(pp, WAad), Plain)
Decrypting == phase \in {"stream", "reading", "rfail"}
\* While no call failed: closing NOW would complete the canonical ciphertext of what was written so far;
\* after a successful Close the sink holds exactly that ciphertext - for every partition into Write calls.
WriterCanonical ==
  /\ (phase = "writing" /\ ~werr) => RCat(sink.out, IdealEnc(w.s, w.cnt, TRUE, w.buf, pp.T)) = Authentic
  /\ (phase = "closed" /\ ~werr)  => sink.out = Authentic /\ w.buf = <<>>

\* the manipulation changes what the reader is given (a permutation may be the identity)
Effective(ms) == HasAad(ms) \/ ApplyAll(pp, ms, Authentic) # Authentic

RoundTrip ==
  (Decrypting /\ ~Effective(manip) /\ src.failFrom = 0) =>
     /\ outcome # "ERR"
     /\ RIsPrefix(got, Plain)
     /\ (outcome = "EOF" => got = Plain)

TamperDetected ==
  (Decrypting /\ Effective(manip)) =>
     /\ outcome # "EOF"
     /\ RIsPrefix(got, Plain)

FaultSurfaces ==
  /\ SinkFaulted(sink) => werr                         \* the failing call's error is returned at once ...
  /\ (phase = "closed" /\ w.closed /\ ~werr) => ~SinkFaulted(sink)    \* ... so overall success is impossible
  /\ (Decrypting /\ SrcFaulted(src)) => outcome # "EOF"
  /\ (Decrypting /\ src.failFrom # 0) => RIsPrefix(got, Plain)

\* a Read for at least one byte that returns (0, nil) has consumed ciphertext, so it cannot repeat for ever
Measure == RLen(src.rest) + RLen(r.avail) + (IF r.last THEN 0 ELSE 1)
ReadProgress ==
  [][(phase = "reading" /\ res'.op = "Read" /\ res'.n > 0 /\ res'.err = "nil" /\ outcome = "none")
       => (res'.ret > 0 \/ Measure' < Measure)]_vars
================================================================================
