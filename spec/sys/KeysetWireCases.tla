------------------------------ MODULE KeysetWireCases ------------------------------
(* X06.  The cases: abstract keysets (what the real writers are given) and, per keyset,    *)
(* the octet strings and JSON values the real readers are given - every way the two         *)
(* formats let the same keyset be spelled, every way a parser has to be lenient, and what    *)
(* lies just outside.  The same generators feed the model checker (MC_KeysetWire proves what  *)
(* each variant decodes to) and the plan (Plan_KeysetWire writes them out for the driver).    *)
EXTENDS KeysetWire, SequencesExt

S(s) == StrToBytes(s)
Perms(n) == {p \in [1..n -> 1..n] : \A i, j \in 1..n : i # j => p[i] # p[j]}
ApplyPerm(fs, p) == [i \in 1..Len(fs) |-> fs[p[i]]]
\* InsertAt(s, j, e) (e becomes element j), ReplaceAt(s, j, e): SequencesExt

\* ================================================================== abstract keysets
IdList == <<U32Zero, U32(1), U32(127), U32(128), U32(16384), HexToBytes("7fffffff"), HexToBytes("80000000"), U32Max>>
K0 == Key(KeyData(S("t"), <<1>>, 1), 1, U32(5), 1)                       \* an ordinary key (fallback key type "t")
\* keys with real, registered key types (the value is the canonical encoding of the key message)
UrlAesGcm  == S("type.googleapis.com/google.crypto.tink.AesGcmKey")
UrlEd25519 == S("type.googleapis.com/google.crypto.tink.Ed25519PublicKey")
UrlHmac    == S("type.googleapis.com/google.crypto.tink.HmacKey")
KAes == Key(KeyData(UrlAesGcm, <<26, 16>> \o [i \in 1..16 |-> (i * 37) % 256], 1), 1, HexToBytes("a1b2c3d4"), 1)
KEd  == Key(KeyData(UrlEd25519, <<18, 32>> \o [i \in 1..32 |-> (i * 11 + 3) % 256], 3), 1, HexToBytes("0badcafe"), 3)
\* the keyset of the godoc example of package mac ("created with tinkey"): HMAC-SHA256, 16-octet tags, id 1892702217
HmacExampleValue == HexToBytes("1204080310101a20342d08e8bdcc9d5a155057793c5bd65246477b122e18fd345602913c82ec15e1")
KHmac == Key(KeyData(UrlHmac, HmacExampleValue, 1), 1, HexToBytes("70d05809"), 1)

\* a keyset a handle can be made of (keyset.Validate, C14): used to decide which cases go through a handle - an
\* expectation about the instantiation, never a verdict
HandleOK(ks) ==
  /\ Len(ks.keys) >= 1
  /\ \A i \in 1..Len(ks.keys) : LET k == ks.keys[i] IN k.kd.has /\ k.status \in {1, 2, 3} /\ k.prefix \in {1, 2, 3, 4}
  /\ \A i, j \in 1..Len(ks.keys) : i # j => ks.keys[i].id # ks.keys[j].id
  /\ \E i \in 1..Len(ks.keys) : ks.keys[i].id = ks.primary /\ ks.keys[i].status = 1
HasSecrets(ks) == \E i \in 1..Len(ks.keys) : ks.keys[i].kd.kmt \in {0, 1, 2}

WCase(lab, ks) == [lab |-> lab, ks |-> ks]
WIds == UNION {{WCase("ids", Keyset(p, <<Key(KeyData(S("t"), <<1>>, 1), 1, IdList[i], 1)>>)) : p \in {IdList[i], U32Zero, U32(77)}} : i \in 1..Len(IdList)}
WEnums == {WCase("enums", Keyset(U32(5), <<Key(KeyData(S("t"), <<1>>, kmt), st, U32(5), pf)>>)) :
             st \in {0, 1, 2, 3, 7, -1}, pf \in {0, 1, 2, 3, 4, 5, 9}, kmt \in {0, 1, 2, 3, 4, 6}}
UrlList == <<<<>>, S("t"), S("a/b.C"), <<116, 195, 169>>>>
ValueList == <<<<>>, <<0>>, <<251, 255>>, <<251, 255, 254>>, <<1, 2, 3, 4>>, [i \in 1..20 |-> 250 - i]>>
WKeyData == {WCase("keydata", Keyset(U32(5), <<Key(KeyData(UrlList[u], ValueList[v], 3), 1, U32(5), 3)>>)) : u \in 1..Len(UrlList), v \in 1..Len(ValueList)}
            \cup {WCase("keydata", Keyset(U32(5), <<Key(NoKeyData, 1, U32(5), 1)>>)), WCase("keydata", Keyset(U32Zero, <<Key(NoKeyData, 0, U32Zero, 0)>>))}
K5 == <<K0, Key(KeyData(S("u"), <<>>, 4), 3, U32(7), 3), Key(KeyData(S("t"), <<251, 255>>, 3), 2, U32Max, 2),
        Key(KeyData(S("v"), <<9, 9, 9>>, 2), 1, U32Zero, 4), KEd>>
WMulti(len) == UNION {{WCase("multi", Keyset(p, ks)) : p \in {ks[1].id, ks[Len(ks)].id, U32(99)}} : ks \in [1..len -> {K5[i] : i \in 1..5}]}
WEmpty == {WCase("empty", Keyset(U32Zero, <<>>)), WCase("empty", Keyset(U32(7), <<>>))}
WReal == {WCase("real", Keyset(KAes.id, <<KAes>>)), WCase("real", Keyset(KEd.id, <<KEd>>)), WCase("real", Keyset(KHmac.id, <<KHmac>>)),
          WCase("real", Keyset(KHmac.id, <<KAes, KHmac>>)), WCase("real", Keyset(KEd.id, <<KEd, Key(KEd.kd, 2, U32(1), 1)>>))}
WriteCases(thorough) == WIds \cup WEnums \cup WKeyData \cup WMulti(2) \cup (IF thorough THEN WMulti(3) ELSE {}) \cup WEmpty \cup WReal

\* the keysets whose spellings the readers are given
ReadKeysetsQuick ==
  <<Keyset(U32(5), <<K0>>),
    Keyset(U32Max, <<Key(KeyData(S("a/b.C"), <<251, 255, 254>>, 3), 2, U32Max, 4), Key(KeyData(S("u"), <<1, 2, 3, 4>>, 4), 1, U32(128), 3)>>),
    Keyset(U32Zero, <<Key(KeyData(<<>>, <<>>, 0), 0, U32Zero, 0)>>),
    Keyset(U32(300), <<Key(NoKeyData, 3, U32(300), 2), K0, Key(KeyData(<<116, 195, 169>>, <<251, 255>>, 2), 7, HexToBytes("80000000"), 5)>>),
    Keyset(U32(7), <<>>),
    Keyset(KHmac.id, <<KHmac>>)>>
ReadKeysetsMore ==
  <<Keyset(U32Zero, <<>>),
    Keyset(U32(1), <<Key(KeyData(S("t"), <<0>>, 1), -1, U32(1), 9)>>),
    Keyset(HexToBytes("7fffffff"), <<KEd, KAes>>),
    Keyset(U32(16384), <<Key(KeyData(S("t"), [i \in 1..20 |-> 250 - i], 6), 1, U32(16384), 1), Key(KeyData(S("t"), <<>>, 1), 1, U32(16384), 1)>>),
    Keyset(U32(127), <<Key(KeyData(S("x"), <<255>>, 1), 1, U32(127), 1)>>),
    Keyset(U32(1), <<Key(KeyData(S("t"), <<1>>, 1), 1, U32(1), 1), Key(KeyData(S("t"), <<1>>, 1), 1, U32(1), 1)>>),
    Keyset(HexToBytes("80000000"), <<Key(NoKeyData, 0, U32Zero, 0), Key(NoKeyData, 0, U32Zero, 0), Key(KeyData(<<>>, <<0>>, 0), 0, HexToBytes("80000000"), 0)>>),
    Keyset(U32(300), <<K5[2], K5[3], K5[4], K0>>)>>
ReadKeysets(thorough) == IF thorough THEN ReadKeysetsQuick \o ReadKeysetsMore ELSE ReadKeysetsQuick

\* ================================================================== binary spellings
IdT(fs) == fs
IdT2(i, fs) == fs
\* the octets of ks with the defaults written or not, every varint padded by pad zero groups, and the field lists of the three
\* levels handed to Top, KeyT (key i) and KdT (key data of key i) before they are encoded
BinBuild(ks, explicit, pad, Top(_), KeyT(_, _), KdT(_, _)) ==
  LET kdB(i) == WEncP(KdT(i, KeyDataFields(ks.keys[i].kd, explicit)), pad)
      keyB(i) == WEncP(KeyT(i, KeyFieldsWith(ks.keys[i], kdB(i), explicit)), pad)
  IN WEncP(Top(KeysetFieldsWith(ks, [i \in 1..Len(ks.keys) |-> keyB(i)], explicit)), pad)

\* fields no schema of tink.proto has (numbers 5 .. 2^29 - 1), one of every wire type, a group with content, a nested group
UnknownFields ==
  <<WVar(5, <<1>>), WVar(16, <<127, 127, 1>>), WVar(MaxFieldNumber, <<127, 127, 127, 127, 127, 127, 127, 127, 127, 1>>),
    WF(5, 1, <<1, 2, 3, 4, 5, 6, 7, 8>>), WF(6, 5, <<255, 254, 253, 252>>), WLen(7, <<8, 1>>), WLen(2047, <<>>), WLen(9, <<255, 255>>),
    WF(8, 3, WEnc(<<WVar(1, <<5>>), WLen(2, <<1, 2>>)>>)), WF(8, 3, WEnc(<<WF(9, 3, <<>>)>>))>>

BV(lab, b) == [lab |-> lab, b |-> b]
\* top-level field list position of key i / whether the primary field is written
BinVariants(ks) ==
  LET n == Len(ks.keys)
      canon == EncodeBin(ks)
      topN == Len(KeysetFieldsWith(ks, [i \in 1..n |-> <<>>], FALSE))
      keyN == IF n = 0 THEN 0 ELSE Len(KeyFieldsWith(ks.keys[1], <<>>, TRUE))
      kdN == IF n = 0 \/ ~ks.keys[1].kd.has THEN 0 ELSE 3
      On1(i, fs, F(_)) == IF i = 1 THEN F(fs) ELSE fs
  IN {BV("canon", canon), BV("explicit", BinBuild(ks, TRUE, 0, IdT, IdT2, IdT2))}
     \cup {BV("pad", BinBuild(ks, FALSE, k, IdT, IdT2, IdT2)) : k \in {1, 3, 9}}
     \cup {BV("padExplicit", BinBuild(ks, TRUE, 2, IdT, IdT2, IdT2))}
     \* every order of the fields, one level at a time (the defaults written, so that there is something to permute)
     \cup {BV("permTop", BinBuild(ks, FALSE, 0, LAMBDA fs : ApplyPerm(fs, p), IdT2, IdT2)) : p \in Perms(topN)}
     \cup {BV("permKey", BinBuild(ks, TRUE, 0, IdT, LAMBDA i, fs : On1(i, fs, LAMBDA x : ApplyPerm(x, p)), IdT2)) : p \in Perms(keyN)}
     \cup {BV("permKeyData", BinBuild(ks, TRUE, 0, IdT, IdT2, LAMBDA i, fs : On1(i, fs, LAMBDA x : ApplyPerm(x, p)))) : p \in Perms(kdN)}
     \cup {BV("permAll", BinBuild(ks, TRUE, 0, LAMBDA fs : ApplyPerm(fs, [i \in 1..Len(fs) |-> Len(fs) + 1 - i]),
                                  LAMBDA i, fs : ApplyPerm(fs, [j \in 1..Len(fs) |-> Len(fs) + 1 - j]),
                                  LAMBDA i, fs : ApplyPerm(fs, [j \in 1..Len(fs) |-> Len(fs) + 1 - j])))}
     \* unknown fields, first or last at each level
     \cup UNION {{BV("unknownTop", BinBuild(ks, FALSE, 0, LAMBDA fs : InsertAt(fs, IF first THEN 1 ELSE Len(fs) + 1, UnknownFields[u]), IdT2, IdT2)),
                  BV("unknownKey", BinBuild(ks, FALSE, 0, IdT, LAMBDA i, fs : InsertAt(fs, IF first THEN 1 ELSE Len(fs) + 1, UnknownFields[u]), IdT2)),
                  BV("unknownKeyData", BinBuild(ks, FALSE, 0, IdT, IdT2, LAMBDA i, fs : InsertAt(fs, IF first THEN 1 ELSE Len(fs) + 1, UnknownFields[u])))}
                 : u \in 1..Len(UnknownFields), first \in BOOLEAN}
     \* a scalar twice (the last one counts), a message field in two pieces (they are merged)
     \cup UNION {{BV("twice", BinBuild(ks, FALSE, 0, LAMBDA fs : IF first THEN <<f>> \o fs ELSE fs \o <<f>>, IdT2, IdT2))}
                 : f \in {WVar(1, <<9>>), WVar(1, <<0>>)}, first \in BOOLEAN}
     \cup UNION {{BV("twice", BinBuild(ks, FALSE, 0, IdT, LAMBDA i, fs : IF first THEN <<f>> \o fs ELSE fs \o <<f>>, IdT2))}
                 : f \in {WVar(2, <<2>>), WVar(3, <<9>>), WVar(3, <<0>>), WVar(4, <<3>>), WLen(1, <<>>), WLen(1, KeyDataBytes(KeyData(S("zz"), <<7>>, 4)))},
                   first \in BOOLEAN}
     \cup UNION {{BV("twice", BinBuild(ks, FALSE, 0, IdT, IdT2, LAMBDA i, fs : IF first THEN <<f>> \o fs ELSE fs \o <<f>>))}
                 : f \in {WLen(1, S("q")), WLen(1, <<>>), WLen(2, <<7, 7>>), WVar(3, <<2>>)}, first \in BOOLEAN}
     \cup {BV("split", BinBuild(ks, TRUE, 0, IdT,
                                LAMBDA i, fs : LET kd == KeyDataFields(ks.keys[i].kd, TRUE) IN
                                               IF ~ks.keys[i].kd.has THEN fs
                                               ELSE <<WLen(1, WEnc(SubSeq(kd, 1, s)))>> \o Tail(fs) \o <<WLen(1, WEnc(SubSeq(kd, s + 1, 3)))>>, IdT2)) : s \in 0..3}
     \* more than 32 bits in the varint of a 32-bit field: the low 32 bits count
     \cup {BV("wide", BinBuild(ks, TRUE, 0, LAMBDA fs : ReplaceAt(fs, 1, WVar(1, <<fs[1].v[1], 0, 0, 0, 16 + 32>>)), IdT2, IdT2))}
     \cup {BV("wide", BinBuild(ks, TRUE, 0, IdT, LAMBDA i, fs : fs \o <<WVar(3, <<127, 127, 127, 127, 127, 127, 127, 127, 127, 1>>), WVar(2, <<1, 0, 0, 0, 16>>),
                                                                     WVar(4, <<3, 0, 0, 0, 0, 0, 0, 0, 64>>)>>, IdT2))}
     \* a known field number with another wire type
     \cup {BV("wireType", BinBuild(ks, FALSE, 0, LAMBDA fs : fs \o <<f>>, IdT2, IdT2)) : f \in {WF(1, 1, <<1, 0, 0, 0, 0, 0, 0, 0>>), WF(1, 5, <<1, 0, 0, 0>>), WLen(1, <<1>>), WVar(2, <<1>>)}}
     \cup {BV("wireType", BinBuild(ks, FALSE, 0, IdT, LAMBDA i, fs : fs \o <<f>>, IdT2)) : f \in {WF(3, 5, <<1, 0, 0, 0>>), WLen(2, <<1>>), WVar(1, <<1>>), WF(4, 1, <<1, 0, 0, 0, 0, 0, 0, 0>>)}}
     \cup {BV("wireType", BinBuild(ks, FALSE, 0, IdT, IdT2, LAMBDA i, fs : fs \o <<f>>)) : f \in {WVar(1, <<65>>), WVar(2, <<65>>), WLen(3, <<1>>), WF(2, 5, <<1, 2, 3, 4>>)}}
     \* not UTF-8 in a string field
     \cup {BV("utf8", BinBuild(ks, FALSE, 0, IdT, IdT2, LAMBDA i, fs : fs \o <<WLen(1, u)>>)) : u \in {<<255>>, <<192, 128>>, <<237, 160, 128>>, <<244, 144, 128, 128>>, <<226, 130>>,
                                                                                                         <<240, 159, 152, 128>>, <<226, 130, 172>>}}
     \cup {BV("utf8", BinBuild(ks, FALSE, 0, IdT, IdT2, LAMBDA i, fs : <<WLen(1, <<255>>)>> \o fs))}
     \* not a protobuf message: cut anywhere, and the malformed pieces below put in front, behind and inside
     \cup {BV("cut", SubSeq(canon, 1, c)) : c \in 0..(Len(canon) - 1)}
     \cup UNION {{BV("malformed", m \o canon), BV("malformed", canon \o m), BV("malformed", BinBuild(ks, FALSE, 0, IdT, LAMBDA i, fs : fs \o <<WLen(1, m)>>, IdT2)),
                  BV("malformed", canon \o WEnc(<<WLen(2, m)>>))}
                 : m \in {<<0>>, <<0, 0>>, <<14, 0>>, <<15, 0>>, <<18, 5, 1>>, <<18, 255, 255, 255, 255, 15>>, <<8>> \o Rep(128, 10) \o <<1>>, <<8>> \o Rep(255, 9) \o <<2>>,
                          <<8>> \o Rep(255, 9) \o <<1>>, <<12>>, <<11>>, <<11, 20>>, <<11, 11, 12>>, <<128, 128, 128, 128, 16, 0>>, <<248, 255, 255, 255, 15, 0>>,
                          <<128, 128, 128, 128, 128, 128, 128, 128, 128, 1, 0>>, <<136, 128, 0, 1>>, <<9, 1, 2, 3>>, <<13, 1>>, <<128>>}}

\* every octet string of length 0 .. n over an alphabet of octets that mean something to a protobuf parser
SmallAlphabet == {0, 1, 2, 8, 10, 11, 12, 13, 18, 24, 128, 255}
SmallStrings(n) == UNION {[1..k -> SmallAlphabet] : k \in 0..n}

\* EncryptedKeyset values: what WriteEncrypted is given and ReadEncrypted has to give back
EncValues(ks) ==
  LET ct == ToySeal(EncodeBin(ks), <<>>)
      other == [has |-> TRUE, primary |-> U32(9), infos |-> <<[url |-> S("zz"), status |-> 2, id |-> U32Max, prefix |-> 4]>>]
  IN {[enc |-> e, info |-> i] : e \in {<<>>, <<0, 1>>, ct}, i \in {NoInfo, InfoOf(ks), other, [has |-> TRUE, primary |-> U32Zero, infos |-> <<>>]}}
EncBinVariants(e) ==
  LET canon == EncodeBinEnc(e)
      fs == EncFields(e, FALSE)
  IN {BV("canon", canon), BV("explicit", WEnc(EncFields(e, TRUE))), BV("pad", WEncP(EncFields(e, TRUE), 2))}
     \cup {BV("permTop", WEnc(ApplyPerm(fs, p))) : p \in Perms(Len(fs))}
     \cup {BV("unknownTop", WEnc(InsertAt(fs, j, UnknownFields[u]))) : j \in {1, Len(fs) + 1}, u \in 1..Len(UnknownFields)}
     \cup {BV("unknownTop", WEnc(<<WVar(1, <<3>>), WLen(1, <<1>>)>> \o fs))}                      \* field 1 is not defined in EncryptedKeyset
     \cup {BV("twice", WEnc(<<WLen(2, <<5, 5>>)>> \o fs)), BV("twice", WEnc(fs \o <<WLen(2, <<5, 5>>)>>)),
           BV("twice", WEnc(fs \o <<WLen(3, EncodeBinInfo([has |-> TRUE, primary |-> U32(3), infos |-> <<>>]))>>)),
           BV("wireType", WEnc(fs \o <<WVar(2, <<1>>), WVar(3, <<1>>)>>))}
     \cup {BV("cut", SubSeq(canon, 1, c)) : c \in 0..(Len(canon) - 1)}
     \cup {BV("malformed", canon \o WEnc(<<WLen(3, m)>>)) : m \in {<<0>>, <<18, 1, 0>>, <<18, 3, 10, 1, 255>>, <<8>>}}

\* ================================================================== JSON spellings
\* o: [orig, enumNum, b64, idStr, omit] - which of the alternatives a ProtoJSON parser accepts are used, everywhere
Canonical == [orig |-> FALSE, enumNum |-> FALSE, b64 |-> "std", idStr |-> FALSE, omit |-> FALSE]
JName(names, f, o) == names[f][IF o.orig THEN 2 ELSE 1]
JEnumO(n, names, o) == IF o.enumNum THEN JLit("num", ToString(n)) ELSE JEnum(n, names)
JU32O(b, o) == IF o.idStr THEN JStr(DecimalOfU32(b)) ELSE JU32(b)
JBytesO(b, o) == JStr(CASE o.b64 = "std" -> B64Std(b) [] o.b64 = "stdnopad" -> B64StdNoPad(b) [] o.b64 = "url" -> B64Url(b) [] o.b64 = "urlnopad" -> B64UrlNoPad(b))
\* members whose value is the default are left out when o.omit
JKeep(ms, o, isDefault) == SelectSeq([i \in 1..Len(ms) |-> IF o.omit /\ isDefault[i] THEN JMem("", JAbsent) ELSE ms[i]], LAMBDA x : x.v.k # "absent")
JsonKeyDataO(kd, o) ==
  JObj(JKeep(<<JMem(JName(NamesKeyData, 1, o), JStr(kd.url)), JMem(JName(NamesKeyData, 2, o), JBytesO(kd.value, o)),
               JMem(JName(NamesKeyData, 3, o), JEnumO(kd.kmt, KmtNames, o))>>, o, <<kd.url = <<>>, kd.value = <<>>, kd.kmt = 0>>))
JsonKeyO(k, o) ==
  JObj(JKeep(<<JMem(JName(NamesKey, 1, o), IF k.kd.has THEN JsonKeyDataO(k.kd, o) ELSE JNull), JMem(JName(NamesKey, 2, o), JEnumO(k.status, StatusNames, o)),
               JMem(JName(NamesKey, 3, o), JU32O(k.id, o)), JMem(JName(NamesKey, 4, o), JEnumO(k.prefix, PrefixNames, o))>>,
             o, <<~k.kd.has, k.status = 0, k.id = U32Zero, k.prefix = 0>>))
JsonBuild(ks, o) ==
  JObj(JKeep(<<JMem(JName(NamesKeyset, 1, o), JU32O(ks.primary, o)), JMem(JName(NamesKeyset, 2, o), JList([i \in 1..Len(ks.keys) |-> JsonKeyO(ks.keys[i], o)]))>>,
             o, <<ks.primary = U32Zero, ks.keys = <<>>>>))

\* surgery on a value in canonical spelling
JIndex(o, name) == CHOOSE i \in 1..Len(o.m) : o.m[i].n = name
JSet(o, name, v) == IF JHas(o, name) THEN JObj(ReplaceAt(o.m, JIndex(o, name), JMem(name, v))) ELSE JObj(o.m \o <<JMem(name, v)>>)
JDel(o, name) == JObj(SelectSeq(o.m, LAMBDA x : x.n # name))
JAdd(o, name, v) == JObj(o.m \o <<JMem(name, v)>>)
JAddFront(o, name, v) == JObj(<<JMem(name, v)>> \o o.m)
JPermute(o, p) == JObj(ApplyPerm(o.m, p))
OnKey(top, i, F(_)) == LET ks == JGet(top, "key") IN JSet(top, "key", JList(ReplaceAt(ks.l, i, F(ks.l[i]))))
OnKeyData(top, i, F(_)) == OnKey(top, i, LAMBDA k : JSet(k, "keyData", F(JGet(k, "keyData"))))

KeyIdValues ==
  <<JNum("-1"), JNum("-0"), JNum("4294967296"), JNum("4294967295"), JNum("99999999999999999999"), JNum("1.5"), JNum("1.0"), JNum("1e2"), JNum("1E+2"), JNum("100e-2"),
    JNum("0.0"), JNum("5e-1"), JNum("42949672950e-1"), JNum("01"), JNum("1."), JNum(".5"), JNum("+1"), JNum("1e+"), JNum("0x10"),
    JS("1"), JS("0"), JS("-1"), JS("1.0"), JS("1e2"), JS(" 1"), JS("1 "), JS(""), JS("0x1"), JS("+1"), JS("01"), JS("4294967295"), JS("4294967296"),
    JTrue, JList(<<>>), JList(<<JNum("1")>>), JObj(<<>>), JNull>>
EnumValues ==
  <<JS("enabled"), JS("ENABLED "), JS(""), JS("TINK"), JS("ENABLED"), JS("DESTROYED"), JS("UNKNOWN_STATUS"), JS("RAW"), JS("1"), JNum("7"), JNum("-1"), JNum("1"), JNum("0"),
    JNum("1.0"), JNum("1e0"), JNum("2147483647"), JNum("2147483648"), JNum("-2147483648"), JNum("-2147483649"), JTrue, JNull, JList(<<>>), JObj(<<>>)>>
BytesValues ==
  <<JS("+/8="), JS("+/8"), JS("-_8"), JS("-_8="), JS("+_8="), JS("+/9="), JS("+/9"), JS("+ /8="), JS("+/8=="), JStr(S("+/8=") \o <<10>>), JS("="), JS("=="), JS("===="), JS("A"), JS("AA"),
    JS("AAA"), JS("AAAA"), JS("AAAAA"), JS("AA=A"), JS("AA="), JS("AA=="), JS("AB=="), JS("A==="), JS("AAA=="), JS("AAAA="), JS(""), JS("!!!!"), JS("AQID.A"), JStr(<<65, 81, 195, 169>>),
    JNum("5"), JNull, JTrue, JList(<<>>), JObj(<<>>)>>
StringValues == <<JS(""), JS("t"), JStr(<<116, 195, 169>>), JStr(<<240, 159, 152, 128>>), JStr(<<34, 92, 9, 47>>), JNum("5"), JNull, JTrue, JList(<<>>), JObj(<<>>)>>
MessageValues == <<JNull, JObj(<<>>), JS("x"), JList(<<>>), JNum("1"), JTrue>>
ListValues == <<JNull, JList(<<>>), JObj(<<>>), JList(<<JNull>>), JS("x"), JList(<<JObj(<<>>)>>), JList(<<JObj(<<>>), JObj(<<>>)>>), JList(<<JList(<<>>)>>), JList(<<JNum("1")>>)>>
TopValues == <<JNull, JList(<<>>), JS("x"), JNum("5"), JObj(<<>>), JTrue, JList(<<JObj(<<>>)>>)>>
UnknownNames == <<"foo", "KeyId", "keyid", "key_Id", "keysetInfo", "encryptedKeyset", "keyInfo", "", "primaryKeyID", "Key", "type_Url", "typeURL">>

JV(lab, shape, v) == [lab |-> lab, shape |-> shape, v |-> v]
\* number tokens with an exponent marker and no digits behind it: not JSON (RFC 8259 section 6); kept apart, in few cases, because the
\* real reader accepts them (known finding: every occurrence is a reported mismatch)
EmptyExponentCases(ks) ==
  {JV("emptyExponent", "object", OnKey(EncodeJson(ks), 1, LAMBDA k : JSet(k, "keyId", v))) : v \in {JNum("1e"), JNum("12E"), JNum("1.0e")}}
  \cup {JV("emptyExponent", "ws", OnKey(EncodeJson(ks), 1, LAMBDA k : JSet(k, "status", JNum("1e")))), JV("emptyExponent", "object", JSet(EncodeJson(ks), "primaryKeyId", JNum("0e")))}
JsonVariants(ks) ==
  LET n == Len(ks.keys)
      canon == EncodeJson(ks)
      hasKd == n > 0 /\ ks.keys[1].kd.has
      Alt(orig, enumNum, b64, idStr, omit) == JsonBuild(ks, [orig |-> orig, enumNum |-> enumNum, b64 |-> b64, idStr |-> idStr, omit |-> omit])
  IN {JV("canon", s, canon) : s \in JShapes}
     \cup {JV("omitDefaults", s, JsonBuild(ks, [Canonical EXCEPT !.omit = TRUE])) : s \in {"object", "ws"}}
     \cup {JV("alternatives", "object", Alt(orig, enumNum, b64, idStr, omit)) :
             orig \in BOOLEAN, enumNum \in BOOLEAN, b64 \in {"std", "stdnopad", "url", "urlnopad"}, idStr \in BOOLEAN, omit \in BOOLEAN}
     \* every order of the members, one level at a time
     \cup {JV("permTop", "object", JPermute(canon, p)) : p \in Perms(2)}
     \cup (IF n = 0 THEN {} ELSE
           {JV("permKey", "object", OnKey(canon, 1, LAMBDA k : JPermute(k, p))) : p \in Perms(4)}
           \cup (IF ~hasKd THEN {} ELSE {JV("permKeyData", "ws", OnKeyData(canon, 1, LAMBDA d : JPermute(d, p))) : p \in Perms(3)})
           \* one member with another value
           \cup {JV("keyId", "object", OnKey(canon, 1, LAMBDA k : JSet(k, "keyId", KeyIdValues[i]))) : i \in 1..Len(KeyIdValues)}
           \cup {JV("status", "object", OnKey(canon, 1, LAMBDA k : JSet(k, "status", EnumValues[i]))) : i \in 1..Len(EnumValues)}
           \cup {JV("outputPrefixType", "object", OnKey(canon, 1, LAMBDA k : JSet(k, "outputPrefixType", EnumValues[i]))) : i \in 1..Len(EnumValues)}
           \cup {JV("keyData", "object", OnKey(canon, 1, LAMBDA k : JSet(k, "keyData", MessageValues[i]))) : i \in 1..Len(MessageValues)}
           \cup {JV("unknownKey", "object", OnKey(canon, 1, LAMBDA k : IF first THEN JAddFront(k, UnknownNames[u], v) ELSE JAdd(k, UnknownNames[u], v))) :
                   u \in 1..Len(UnknownNames), v \in {JNum("1"), JNull, JObj(<<>>)}, first \in BOOLEAN}
           \cup {JV("duplicateKey", "object", OnKey(canon, 1, LAMBDA k : JAdd(k, nm, v))) :
                   nm \in {"keyId", "key_id", "status", "keyData", "key_data"}, v \in {JNum("5"), JNull, JS("ENABLED"), JObj(<<>>)}}
           \cup (IF ~hasKd THEN {} ELSE
                 {JV("value", "object", OnKeyData(canon, 1, LAMBDA d : JSet(d, "value", BytesValues[i]))) : i \in 1..Len(BytesValues)}
                 \cup {JV("typeUrl", "object", OnKeyData(canon, 1, LAMBDA d : JSet(d, "typeUrl", StringValues[i]))) : i \in 1..Len(StringValues)}
                 \cup {JV("keyMaterialType", "object", OnKeyData(canon, 1, LAMBDA d : JSet(d, "keyMaterialType", EnumValues[i]))) : i \in 1..Len(EnumValues)}
                 \cup {JV("unknownKeyData", "object", OnKeyData(canon, 1, LAMBDA d : JAdd(d, UnknownNames[u], JNum("1")))) : u \in 1..Len(UnknownNames)}
                 \cup {JV("duplicateKeyData", "object", OnKeyData(canon, 1, LAMBDA d : JAdd(d, nm, v))) :
                         nm \in {"value", "typeUrl", "type_url", "keyMaterialType"}, v \in {JS("AA=="), JNull, JS("t")}}))
     \cup {JV("primaryKeyId", "object", JSet(canon, "primaryKeyId", KeyIdValues[i])) : i \in 1..Len(KeyIdValues)}
     \cup {JV("key", "object", JSet(canon, "key", ListValues[i])) : i \in 1..Len(ListValues)}
     \cup {JV("top", s, TopValues[i]) : i \in 1..Len(TopValues), s \in {"object", "ws"}}
     \cup {JV("unknownTop", "object", IF first THEN JAddFront(canon, UnknownNames[u], v) ELSE JAdd(canon, UnknownNames[u], v)) :
             u \in 1..Len(UnknownNames), v \in {JNum("1"), JNull, JList(<<>>)}, first \in BOOLEAN}
     \cup {JV("duplicateTop", "object", JAdd(canon, nm, v)) : nm \in {"primaryKeyId", "primary_key_id", "key"}, v \in {JNum("5"), JNull, JList(<<>>)}}

\* EncryptedKeyset as JSON
JsonEncBuild(e, o) ==
  JObj(JKeep(<<JMem(JName(NamesEnc, 1, o), JBytesO(e.enc, o)),
               JMem(JName(NamesEnc, 2, o),
                    IF ~e.info.has THEN JNull
                    ELSE JObj(JKeep(<<JMem(JName(NamesInfo, 1, o), JU32O(e.info.primary, o)),
                                      JMem(JName(NamesInfo, 2, o),
                                           JList([i \in 1..Len(e.info.infos) |->
                                                   LET ki == e.info.infos[i] IN
                                                   JObj(JKeep(<<JMem(JName(NamesKeyInfo, 1, o), JStr(ki.url)), JMem(JName(NamesKeyInfo, 2, o), JEnumO(ki.status, StatusNames, o)),
                                                                JMem(JName(NamesKeyInfo, 3, o), JU32O(ki.id, o)), JMem(JName(NamesKeyInfo, 4, o), JEnumO(ki.prefix, PrefixNames, o))>>,
                                                              o, <<ki.url = <<>>, ki.status = 0, ki.id = U32Zero, ki.prefix = 0>>))]))>>,
                                    o, <<e.info.primary = U32Zero, e.info.infos = <<>>>>)))>>,
             o, <<e.enc = <<>>, ~e.info.has>>))
EncJsonVariants(e) ==
  LET canon == EncodeJsonEnc(e) IN
  {JV("canon", s, canon) : s \in JShapes}
  \cup {JV("alternatives", "object", JsonEncBuild(e, [orig |-> orig, enumNum |-> enumNum, b64 |-> b64, idStr |-> idStr, omit |-> omit])) :
          orig \in BOOLEAN, enumNum \in BOOLEAN, b64 \in {"std", "urlnopad"}, idStr \in BOOLEAN, omit \in BOOLEAN}
  \cup {JV("permTop", "ws", JPermute(canon, p)) : p \in Perms(2)}
  \cup {JV("encryptedKeyset", "object", JSet(canon, "encryptedKeyset", BytesValues[i])) : i \in 1..Len(BytesValues)}
  \cup {JV("keysetInfo", "object", JSet(canon, "keysetInfo", MessageValues[i])) : i \in 1..Len(MessageValues)}
  \cup {JV("unknownTop", "object", JAdd(canon, UnknownNames[u], JNum("1"))) : u \in 1..Len(UnknownNames)}
  \cup {JV("unknownTop", "object", JAdd(canon, nm, JNum("1"))) : nm \in {"primaryKeyId", "key"}}
  \cup {JV("duplicateTop", "object", JAdd(canon, nm, v)) : nm \in {"encryptedKeyset", "encrypted_keyset", "keysetInfo"}, v \in {JS("AA=="), JNull}}
  \cup (IF ~e.info.has THEN {} ELSE
        {JV("infoPrimaryKeyId", "object", JSet(canon, "keysetInfo", JSet(JGet(canon, "keysetInfo"), "primaryKeyId", KeyIdValues[i]))) : i \in 1..Len(KeyIdValues)}
        \cup {JV("keyInfo", "object", JSet(canon, "keysetInfo", JSet(JGet(canon, "keysetInfo"), "keyInfo", ListValues[i]))) : i \in 1..Len(ListValues)}
        \cup {JV("unknownInfo", "object", JSet(canon, "keysetInfo", JAdd(JGet(canon, "keysetInfo"), nm, JNum("1")))) : nm \in {"foo", "key", "key_info "}})

\* ================================================================== handle-level reading (keyset.Read / insecurecleartextkeyset.Read)
\* only keysets a handle can be made of: the answer is then decided by the format alone
HandleKeysets == <<Keyset(U32(5), <<K0>>), Keyset(U32Max, <<K5[2], K5[3], Key(KeyData(S("w"), <<1>>, 1), 1, U32Max, 1)>>), Keyset(KHmac.id, <<KAes, KHmac>>), Keyset(KEd.id, <<KEd>>)>>
HandleBinInputs(ks) ==
  {BV("canon", EncodeBin(ks)), BV("explicit", BinBuild(ks, TRUE, 1, IdT, IdT2, IdT2)),
   BV("permAll", BinBuild(ks, TRUE, 0, IdT, LAMBDA i, fs : ApplyPerm(fs, [j \in 1..Len(fs) |-> Len(fs) + 1 - j]), LAMBDA i, fs : ApplyPerm(fs, [j \in 1..Len(fs) |-> Len(fs) + 1 - j]))),
   BV("unknown", BinBuild(ks, FALSE, 0, LAMBDA fs : <<UnknownFields[2]>> \o fs, LAMBDA i, fs : fs \o <<UnknownFields[4]>>, LAMBDA i, fs : <<UnknownFields[6]>> \o fs))}
HandleInfos(ks) == {NoInfo, InfoOf(ks), [has |-> TRUE, primary |-> U32(9), infos |-> <<[url |-> S("zz"), status |-> 2, id |-> U32Max, prefix |-> 4]>>]}
\* ================================================================== seeded random mixes (TLC's RandomElement, seeded by the run's seed):
\* a random keyset, spelled with a random choice AT EVERY LEVEL AT ONCE (the blocks above vary one level at a time).
\* The operators take a dummy argument: TLC evaluates a definition without parameters only once.
MixIds == {IdList[i] : i \in 1..Len(IdList)} \cup {U32(5), U32(300)}
\* TLC evaluates a LET definition again at every use, so a random choice that is used twice is bound by a set constructor:
\* Pick({F(x) : x \in {RandomElement(S)}})
Pick(set) == CHOOSE x \in set : TRUE
MixKey(q) == Key(IF RandomElement(1..8) = 1 THEN NoKeyData
                 ELSE KeyData(RandomElement({UrlList[i] : i \in 1..Len(UrlList)}), RandomElement({ValueList[i] : i \in 1..Len(ValueList)}), RandomElement(-1..6)),
                 RandomElement({-1, 0, 1, 2, 3, 7}), RandomElement(MixIds), RandomElement(0..6))
MixKeyset(q) == Pick({Keyset(IF Len(keys) > 0 /\ RandomElement(1..4) > 1 THEN keys[RandomElement(1..Len(keys))].id ELSE RandomElement(MixIds), keys)
                      : keys \in {[i \in 1..RandomElement(0..3) |-> MixKey(i)]}})
RECURSIVE Shuffle(_)
Shuffle(s) == IF Len(s) <= 1 THEN s ELSE Pick({<<s[i]>> \o Shuffle(RemoveAt(s, i)) : i \in {RandomElement(1..Len(s))}})
MixFields(fs) ==
  Pick({Pick({IF RandomElement(1..6) = 1 /\ Len(b) > 0 THEN b \o <<b[RandomElement(1..Len(b))]>> ELSE b                    \* a field once more
              : b \in {IF RandomElement(1..3) = 1 THEN InsertAt(a, RandomElement(1..(Len(a) + 1)), UnknownFields[RandomElement(1..Len(UnknownFields))]) ELSE a}})
        : a \in {IF RandomElement(1..2) = 1 THEN Shuffle(fs) ELSE fs}})
MixBin(i) == BV("mix", BinBuild(MixKeyset(i), RandomElement(BOOLEAN), RandomElement(0..2), LAMBDA fs : MixFields(fs), LAMBDA j, fs : MixFields(fs), LAMBDA j, fs : MixFields(fs)))
RECURSIVE JShuffle(_)
JShuffle(v) == CASE v.k = "obj" -> JObj(Shuffle([i \in 1..Len(v.m) |-> JMem(v.m[i].n, JShuffle(v.m[i].v))]))
                 [] v.k = "list" -> JList([i \in 1..Len(v.l) |-> JShuffle(v.l[i])])
                 [] OTHER -> v
MixMemberValue(name) ==
  CASE name \in {"keyId", "primaryKeyId"} -> KeyIdValues[RandomElement(1..Len(KeyIdValues))]
    [] name \in {"status", "outputPrefixType", "keyMaterialType"} -> EnumValues[RandomElement(1..Len(EnumValues))]
    [] name = "value" -> BytesValues[RandomElement(1..Len(BytesValues))]
    [] name = "typeUrl" -> StringValues[RandomElement(1..Len(StringValues))]
    [] name = "keyData" -> MessageValues[RandomElement(1..Len(MessageValues))]
    [] OTHER -> ListValues[RandomElement(1..Len(ListValues))]
\* r: the random choices of one case
MixJsonOf(ks, r) ==
  LET c == EncodeJson(ks)
      u == IF r.what = 1 /\ Len(ks.keys) > 0 THEN OnKey(c, 1, LAMBDA k : JSet(k, r.nm, r.vm))
           ELSE IF r.what = 2 /\ Len(ks.keys) > 0 /\ ks.keys[1].kd.has THEN OnKeyData(c, 1, LAMBDA d : JSet(d, r.nd, r.vd))
           ELSE IF r.what = 3 THEN JSet(c, "primaryKeyId", r.vp)
           ELSE JsonBuild(ks, r.o)
  IN JV("mix", r.shape, JShuffle(u))
MixJson(i) ==
  Pick({MixJsonOf(ks, [what |-> RandomElement(1..6), nm |-> nm, vm |-> MixMemberValue(nm), nd |-> nd, vd |-> MixMemberValue(nd), vp |-> MixMemberValue("primaryKeyId"),
                       shape |-> IF RandomElement(1..10) = 1 THEN RandomElement(JShapes) ELSE RandomElement({"object", "ws"}),
                       o |-> [orig |-> RandomElement(BOOLEAN), enumNum |-> RandomElement(BOOLEAN), b64 |-> RandomElement({"std", "stdnopad", "url", "urlnopad"}),
                              idStr |-> RandomElement(BOOLEAN), omit |-> RandomElement(BOOLEAN)]])
        : ks \in {MixKeyset(i)}, nm \in {RandomElement({"keyId", "status", "outputPrefixType", "keyData"})}, nd \in {RandomElement({"value", "typeUrl", "keyMaterialType"})}})

\* ================================================================== ndjson forms (octets as hex, key ids as 8 hex digits)
KeyOut(k) == [has |-> k.kd.has, url |-> BytesToHex(k.kd.url), value |-> BytesToHex(k.kd.value), kmt |-> k.kd.kmt, status |-> k.status,
              id |-> BytesToHex(k.id), prefix |-> k.prefix]
KsOut(ks) == [primary |-> BytesToHex(ks.primary), keys |-> [i \in 1..Len(ks.keys) |-> KeyOut(ks.keys[i])]]
KeyIn(k) == Key([has |-> k.has, url |-> HexToBytes(k.url), value |-> HexToBytes(k.value), kmt |-> k.kmt], k.status, HexToBytes(k.id), k.prefix)
KsIn(x) == Keyset(HexToBytes(x.primary), [i \in 1..Len(x.keys) |-> KeyIn(x.keys[i])])
InfoOut(info) == [has |-> info.has, primary |-> BytesToHex(info.primary),
                  infos |-> [i \in 1..Len(info.infos) |-> [url |-> BytesToHex(info.infos[i].url), status |-> info.infos[i].status,
                                                            id |-> BytesToHex(info.infos[i].id), prefix |-> info.infos[i].prefix]]]
InfoIn(x) == [has |-> x.has, primary |-> HexToBytes(x.primary),
              infos |-> [i \in 1..Len(x.infos) |-> [url |-> HexToBytes(x.infos[i].url), status |-> x.infos[i].status, id |-> HexToBytes(x.infos[i].id),
                                                     prefix |-> x.infos[i].prefix]]]
EncOut(e) == [enc |-> BytesToHex(e.enc), info |-> InfoOut(e.info)]
EncIn(x) == [enc |-> HexToBytes(x.enc), info |-> InfoIn(x.info)]
================================================================================
