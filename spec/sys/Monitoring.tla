------------------------------- MODULE Monitoring -------------------------------
(* X02: usage monitoring and key-export logging of tink-go as a state machine.        *)
(*                                                                                    *)
(* What the library documents (package monitoring, keyset/option.go, keyset/handle.go, *)
(* internal/factoryutil, the */*_factory.go wrappers and their tests):                 *)
(*   - a keyset.Handle either carries monitoring annotations or it does not            *)
(*     (keyset.WithAnnotations, Manager.SetAnnotations); "no annotations, so no         *)
(*     monitoring info": only annotated handles ever reach the monitoring.Client;       *)
(*   - a primitive built from an annotated handle obtains one monitoring.Logger per     *)
(*     API function from Client.NewLogger(Context{Primitive, APIFunction, KeysetInfo});  *)
(*   - Logger.Log(keyID, numBytes): "a successful use of keyID on an input of numBytes"  *)
(*     -- once per successful call; Logger.LogFailure(): "a cryptographic operation      *)
(*     failed ... not associated with a specific key" -- once per failed call;           *)
(*   - Logger.LogKeyExport(keyID): "a successful export of keyID": Entry.Key() of an     *)
(*     annotated handle logs it, internal accesses use ToUnmonitoredEntry ("make sure    *)
(*     this access doesn't get logged as key export"), Public() "purposely" does not,    *)
(*     Write* do not (shouldLogKeyExport = false), KeysetMaterial does.                  *)
(* The module has four parts: (1) data, (2) the table of what each factory passes to     *)
(* the client, (3) the mechanism: the client calls every public step causes, and the     *)
(* state machine over handles, managers, primitives and the client, written like the     *)
(* code, (4) the CONTRACT: invariants over the client's records and a ghost history of   *)
(* the user's calls (every call accounted exactly once, successes name ENABLED keys of   *)
(* the snapshot, failures name no key, nothing without annotations, exports accounted).  *)
(* MC_Monitoring checks (3) against (4) exhaustively on small configurations, with       *)
(* fault classes that must break (4); Trace_Monitoring replays recorded executions of    *)
(* the real library through the actions of (3) and demands the same client calls.        *)
(*                                                                                    *)
(* Clauses marked OBSERVATION are not stated by any godoc comment; they are what the     *)
(* code does today and are kept as coverage expectations (checks/X02.py reports a        *)
(* deviation from them as "model out of date", never as a violation).                    *)
EXTENDS Integers, Sequences, FiniteSets

CONSTANT Fault      \* "none": the library as documented.  Other values: fault classes for MC_Monitoring.

(************************************ 1. data ************************************)
(* A keyset is a sequence of entries [id, status, primary, pt, kt]:                   *)
(*   pt = output prefix type name ("TINK", "RAW", ...), kt = key type (type URL         *)
(*   without "type.googleapis.com/google.crypto.").  Well-formedness is C11/C14's.       *)
(* An annotations VALUE is what a caller can pass: the nil map, or a map given as the    *)
(* sequence of its <<key, value>> pairs sorted by key (possibly empty).                  *)
NilAnn      == [nil |-> TRUE,  pairs |-> <<>>]
AnnOf(ps)   == [nil |-> FALSE, pairs |-> ps]
(* keyset/handle.go setEntryMonitoringIfNeeded, factoryutil.keysetInfo: len(annotations) == 0 => nothing *)
Annotated(a) == Len(a.pairs) > 0

SelectBy(s, Test(_)) ==
  LET RECURSIVE F(_)
      F(i) == IF i > Len(s) THEN <<>> ELSE (IF Test(s[i]) THEN <<s[i]>> ELSE <<>>) \o F(i + 1)
  IN F(1)
RECURSIVE Flatten(_)
Flatten(ss) == IF ss = <<>> THEN <<>> ELSE Head(ss) \o Flatten(Tail(ss))

Enabled(ks)     == SelectBy(ks, LAMBDA e : e.status = "ENABLED")
EnabledIds(ks)  == {ks[i].id : i \in {j \in DOMAIN ks : ks[j].status = "ENABLED"}}
PrimaryIdx(ks)  == LET P == {i \in DOMAIN ks : ks[i].primary} IN CHOOSE i \in P : \A j \in P : j <= i   \* newFromEntries: last flagged
PrimaryId(ks)   == ks[PrimaryIdx(ks)].id
(* what Public() keeps of a keyset: everything but the key type *)
Shape(ks)       == [i \in DOMAIN ks |-> [id |-> ks[i].id, status |-> ks[i].status, primary |-> ks[i].primary, pt |-> ks[i].pt]]

(********************** 2. what each factory passes to the client **********************)
(* One row per factory: Context.Primitive and, in the order the factory creates them,    *)
(* the Context.APIFunction of each logger (createLoggers / create*Logger in               *)
(* */*_factory.go).  An operation is named like the API function it is logged under.      *)
(* OBSERVATION (names and order; the godoc only says that the client gets "the primitive  *)
(* and API used").  streamingaead.New and keyderivation.New create no logger at all.      *)
ClassTable ==
  [AEAD        |-> [prim |-> "aead",              fns |-> <<"encrypt", "decrypt">>],   \* aead.New
   DAEAD       |-> [prim |-> "daead",             fns |-> <<"encrypt", "decrypt">>],   \* daead.New
   MAC         |-> [prim |-> "mac",               fns |-> <<"compute", "verify">>],    \* mac.New
   SIGN        |-> [prim |-> "public_key_sign",   fns |-> <<"sign">>],                 \* signature.NewSigner
   VERIFY      |-> [prim |-> "public_key_verify", fns |-> <<"verify">>],               \* signature.NewVerifier
   HENC        |-> [prim |-> "hybrid_encrypt",    fns |-> <<"encrypt">>],              \* hybrid.NewHybridEncrypt
   HDEC        |-> [prim |-> "hybrid_decrypt",    fns |-> <<"decrypt">>],              \* hybrid.NewHybridDecrypt
   PRF         |-> [prim |-> "prf",               fns |-> <<"compute">>],              \* prf.NewPRFSet (one logger for the whole set)
   JWTMAC      |-> [prim |-> "jwtmac",            fns |-> <<"compute", "verify">>],    \* jwt.NewMAC
   JWTSIGN     |-> [prim |-> "jwtsign",           fns |-> <<"sign">>],                 \* jwt.NewSigner
   JWTVERIFY   |-> [prim |-> "jwtverify",         fns |-> <<"verify">>],               \* jwt.NewVerifier
   PREHASH     |-> [prim |-> "prehash",           fns |-> <<"compute">>],              \* signprehash.NewPrehash
   PREHASHSIGN |-> [prim |-> "prehash_signer",    fns |-> <<"sign">>],                 \* signprehash.NewPrehashSigner
   STREAM      |-> [prim |-> "",                  fns |-> <<>>],                       \* streamingaead.New: unmonitored
   KEYDERIV    |-> [prim |-> "",                  fns |-> <<>>]]                       \* keyderivation.New: unmonitored
Classes == DOMAIN ClassTable
(* the operations a user can call on a primitive of class c (unmonitored classes have operations too) *)
ClassOps(c) ==
  CASE c = "STREAM"   -> <<"encrypt", "decrypt">>
    [] c = "KEYDERIV" -> <<"derive">>
    [] OTHER          -> ClassTable[c].fns
OpSet(c)     == {ClassOps(c)[i] : i \in DOMAIN ClassOps(c)}
Monitored(c) == ClassTable[c].fns # <<>>
FnIndex(c, op) == CHOOSE i \in DOMAIN ClassTable[c].fns : ClassTable[c].fns[i] = op
IsJWT(c)     == c \in {"JWTMAC", "JWTSIGN", "JWTVERIFY"}
(* producing operations use the primary key; accepting operations any ENABLED key (C05);  *)
(* prf.Set.PRFs[id].ComputePRF uses the key the caller picked.                            *)
Produces(c, op) == op \in {"encrypt", "compute", "sign"} /\ c # "PRF"
Accepts(c, op)  == op \in {"decrypt", "verify"}

(* numBytes of a successful call.  The arguments of a call, as far as monitoring cares:   *)
(*   dlen = length of the data argument (plaintext / data / PRF input / prehash),         *)
(*   tlen = length of the token argument (ciphertext / MAC / signature); 0 when absent.   *)
(* DOCUMENTED: "on an input of numBytes" -- the plaintext of encrypt, the data of         *)
(* compute / sign, the PRF input, the ciphertext given to decrypt (prefix included).      *)
(* OBSERVATION: verify logs len(data) (not the tag/signature); every JWT call logs 1.     *)
NumBytes(c, op, dlen, tlen) ==
  IF IsJWT(c) THEN 1
  ELSE IF op = "decrypt" THEN (IF Fault = "decrypt-logs-plaintext-size" THEN dlen ELSE tlen)
  ELSE dlen
NumBytesDocumented(c, op) == ~IsJWT(c) /\ op # "verify"
InputSize(c, op, dlen, tlen) == IF op = "decrypt" THEN tlen ELSE dlen      \* the contract's reading of "an input of numBytes"

(* monitoring.KeysetInfo as the client sees it: annotations, primary key id, entries      *)
(* (id, status, key type, prefix type name).                                              *)
InfoEntry(e) == [id |-> e.id, status |-> e.status, kt |-> e.kt, pfx |-> e.pt]
(* keyset/handle.go: MonitoringKeysetInfoFromKeysetInfo(h.KeysetInfo(), annotations): EVERY entry *)
HandleInfo(ks, a)  == [ann |-> a.pairs, primary |-> PrimaryId(ks), entries |-> [i \in DOMAIN ks |-> InfoEntry(ks[i])]]
(* internal/factoryutil keysetInfo: the ENABLED entries only (OBSERVATION: the two contexts differ) *)
FactoryInfo(ks, a) == LET en == Enabled(ks)
                      IN [ann |-> a.pairs, primary |-> PrimaryId(ks), entries |-> [i \in DOMAIN en |-> InfoEntry(en[i])]]

(************* 3a. mechanism: the client calls each public step causes *************)
(* A client call is one of                                                            *)
(*   [k |-> "NewLogger", lg, prim, api, info]   lg = number of the logger it returns    *)
(*   [k |-> "Log", lg, id, n]   [k |-> "Fail", lg]   [k |-> "Export", lg, id]           *)
NewLoggerCall(lg, p, f, info) == [k |-> "NewLogger", lg |-> lg, prim |-> p, api |-> f, info |-> info]
LogCall(lg, id, n)            == [k |-> "Log", lg |-> lg, id |-> id, n |-> n]
FailCall(lg)                  == [k |-> "Fail", lg |-> lg]
ExportCall(lg, id)            == [k |-> "Export", lg |-> lg, id |-> id]

MonitoredHandle(a) == Annotated(a) \/ Fault = "logs-without-annotations"

(* newFromEntries -> setEntryMonitoringIfNeeded: one "keyset_handle"/"get_key" logger PER ENTRY *)
(* (OBSERVATION), numbered n0+1.. in keyset order.                                            *)
HandleCalls(ks, a, n0) ==
  IF ~MonitoredHandle(a) THEN <<>>
  ELSE [i \in DOMAIN ks |-> NewLoggerCall(n0 + i, "keyset_handle", "get_key", HandleInfo(ks, a))]

(* a factory applied to handle (ks, a): one NewLogger per API function, at construction *)
PrimCalls(c, ks, a, n0) ==
  IF ~MonitoredHandle(a) THEN <<>>
  ELSE [i \in DOMAIN ClassTable[c].fns |-> NewLoggerCall(n0 + i, ClassTable[c].prim, ClassTable[c].fns[i], FactoryInfo(ks, a))]

(* one call of operation op on primitive p = [h, cls, lgs]: lgs are its logger numbers (<<>>: none).   *)
(* ok: the call returned without error; by: the id of the key that did the work; ks: p's snapshot.   *)
OpCalls(p, ks, op, ok, by, dlen, tlen) ==
  IF p.lgs = <<>> THEN <<>>
  ELSE LET lg == p.lgs[FnIndex(p.cls, op)]
       IN IF ok THEN <<LogCall(lg, by, NumBytes(p.cls, op, dlen, tlen))>>
          ELSE CASE Fault = "failure-logs-both"  -> <<LogCall(lg, PrimaryId(ks), NumBytes(p.cls, op, dlen, tlen)), FailCall(lg)>>
                 [] Fault = "forgets-failure"    -> <<>>
                 [] OTHER                        -> <<FailCall(lg)>>

(* accessors of a handle hd = [ks, ann, lgs] and whether they export key material to the caller  *)
ExportingAccessors == {"entryKey",        \* Handle.Entry(i).Key()
                       "primaryKey",      \* Handle.Primary().Key()   (the same *Entry)
                       "material",        \* insecurecleartextkeyset.KeysetMaterial(h): every entry, in keyset order
                       "testMaterial",    \* testkeyset.KeysetMaterial(h): the same function
                       "cleartextWrite",  \* insecurecleartextkeyset.Write(h, w) = w.Write(KeysetMaterial(h))
                       "testWrite"}       \* testkeyset.Write(h, w): likewise
SilentAccessors    == {"entryMeta",       \* Entry(i).KeyID() / KeyStatus() / IsPrimary()
                       "keysetInfo", "string", "len",
                       "write", "writeAD", "writeCtx",    \* Handle.Write / WriteWithAssociatedData / WriteWithContext (encrypted)
                       "writeNoSecrets"}  \* Handle.WriteWithNoSecrets
Accessors == ExportingAccessors \cup SilentAccessors
AccessCalls(hd, acc, i) ==
  IF hd.lgs = <<>> \/ acc \in SilentAccessors \/ Fault = "export-not-logged" THEN <<>>
  ELSE CASE acc = "entryKey"   -> <<ExportCall(hd.lgs[i], hd.ks[i].id)>>
         [] acc = "primaryKey" -> <<ExportCall(hd.lgs[PrimaryIdx(hd.ks)], PrimaryId(hd.ks))>>
         [] OTHER              -> [j \in DOMAIN hd.ks |-> ExportCall(hd.lgs[j], hd.ks[j].id)]

(* insecurecleartextkeyset.Read(r, WithAnnotations(o1), WithAnnotations(o2), ...): an option fails *)
(* ("keyset already contains annotations") when an earlier one set a non-nil map.                  *)
OptionsFail(opts) == \E i, j \in DOMAIN opts : i < j /\ ~opts[i].nil
OptionsAnn(opts)  == IF opts = <<>> THEN NilAnn ELSE opts[Len(opts)]

(****************************** 3b. the state machine ******************************)
VARIABLES handles,   \* Seq [ks, ann, lgs, via]     immutable snapshots; lgs: one get_key logger per entry or <<>>
          mgrs,      \* Seq [ann]                   keyset.Manager as far as monitoring goes (its entries are C11's)
          prims,     \* Seq [h, cls, lgs]           primitives; lgs: one logger per API function or <<>>
          client,    \* the registered monitoring.Client (shaped like testing/fakemonitoring.Client):
                     \*   [loggers : Seq of contexts, events : Seq [lg,id,n], failures : Seq [lg], exports : Seq [lg,id]]
          did,       \* ghost: what the user did -- Seq of [a |-> "call", p, op, ok, by, dlen, tlen] / [a |-> "access", h, acc, i]
          last       \* output only: the client calls delivered by the last step
vars == <<handles, mgrs, prims, client, did, last>>

EmptyClient == [loggers |-> <<>>, events |-> <<>>, failures |-> <<>>, exports |-> <<>>]
NLoggers    == Len(client.loggers)

Deliver1(cl, c) ==
  CASE c.k = "NewLogger" -> [cl EXCEPT !.loggers  = Append(@, [prim |-> c.prim, api |-> c.api, info |-> c.info])]
    [] c.k = "Log"       -> [cl EXCEPT !.events   = Append(@, [lg |-> c.lg, id |-> c.id, n |-> c.n])]
    [] c.k = "Fail"      -> [cl EXCEPT !.failures = Append(@, [lg |-> c.lg])]
    [] c.k = "Export"    -> [cl EXCEPT !.exports  = Append(@, [lg |-> c.lg, id |-> c.id])]
RECURSIVE Deliver(_, _)
Deliver(cl, cs) == IF cs = <<>> THEN cl ELSE Deliver(Deliver1(cl, Head(cs)), Tail(cs))
Numbers(cs) == [i \in DOMAIN cs |-> cs[i].lg]

Init ==
  /\ handles = <<>> /\ mgrs = <<>> /\ prims = <<>>
  /\ client = EmptyClient /\ did = <<>> /\ last = <<>>

MkHandle(ks, a, via, cs) == [ks |-> ks, ann |-> a, lgs |-> Numbers(cs), via |-> via]
AddHandle(ks, a, via) ==
  LET cs == HandleCalls(ks, a, NLoggers)
  IN /\ handles' = Append(handles, MkHandle(ks, a, via, cs))
     /\ client' = Deliver(client, cs)
     /\ last' = cs

(* insecurecleartextkeyset.Read(reader over ks, WithAnnotations(opts[1]), ...) *)
ReadHandle(ks, opts) ==
  /\ IF OptionsFail(opts) THEN UNCHANGED <<handles, client>> /\ last' = <<>>
     ELSE AddHandle(ks, OptionsAnn(opts), "read")
  /\ UNCHANGED <<mgrs, prims, did>>

(* keyset.NewManager() *)
NewManager ==
  /\ mgrs' = Append(mgrs, [ann |-> NilAnn])
  /\ last' = <<>> /\ UNCHANGED <<handles, prims, client, did>>

(* keyset.NewManagerFromHandle(h).  OBSERVATION: the handle's annotations are NOT inherited, *)
(* and copying the entries is not a key export.                                               *)
ManagerFromHandle(h) ==
  /\ h \in DOMAIN handles
  /\ mgrs' = Append(mgrs, [ann |-> NilAnn])
  /\ last' = <<>> /\ UNCHANGED <<handles, prims, client, did>>

(* Manager.SetAnnotations(a): "makes a copy of the annotations map" *)
SetAnnotations(m, a) ==
  /\ m \in DOMAIN mgrs
  /\ mgrs' = [mgrs EXCEPT ![m].ann = a]
  /\ last' = <<>> /\ UNCHANGED <<handles, prims, client, did>>

(* Add / AddKey / SetPrimary / Enable / Disable / Delete: no client call (which keyset results is C11's) *)
ManagerOp(m) ==
  /\ m \in DOMAIN mgrs
  /\ last' = <<>> /\ UNCHANGED <<handles, mgrs, prims, client, did>>

(* Manager.Handle() on a manager whose entries are ks: newFromEntries(entries, WithAnnotations(km.annotations)) *)
ManagerHandle(m, ks) ==
  /\ m \in DOMAIN mgrs
  /\ AddHandle(ks, mgrs[m].ann, "manager")
  /\ UNCHANGED <<mgrs, prims, did>>

(* Handle.Public(): newFromEntries(public entries) WITHOUT options.  OBSERVATION: annotations are *)
(* dropped.  DOCUMENTED ("purposely not using entry.Key() here"): no key export is logged.         *)
Public(h, pks) ==
  /\ h \in DOMAIN handles
  /\ Shape(pks) = Shape(handles[h].ks)
  /\ AddHandle(pks, NilAnn, "public")
  /\ UNCHANGED <<mgrs, prims, did>>

(* a factory: aead.New(h), mac.New(h), signature.NewSigner(h), ...  The entries are read through  *)
(* factoryutil.EnabledUnmonitoredEntries: no key export.                                          *)
NewPrimitive(h, c) ==
  /\ h \in DOMAIN handles /\ c \in Classes
  /\ LET cs == PrimCalls(c, handles[h].ks, handles[h].ann, NLoggers)
     IN /\ prims' = Append(prims, [h |-> h, cls |-> c, lgs |-> Numbers(cs)])
        /\ client' = Deliver(client, cs)
        /\ last' = cs
  /\ UNCHANGED <<handles, mgrs, did>>

(* which key can have done the work of a successful call (C05 decides WHICH; here: what may be named) *)
MayWork(p, op, by) ==
  LET ks == handles[p.h].ks
  IN IF Produces(p.cls, op) THEN by = PrimaryId(ks) ELSE by \in EnabledIds(ks)

(* one call of an operation; ok / by / sizes are what happened *)
Call(pi, op, ok, by, dlen, tlen) ==
  /\ pi \in DOMAIN prims
  /\ LET p == prims[pi] IN
     /\ op \in OpSet(p.cls)
     /\ ok => MayWork(p, op, by)
     /\ LET cs == OpCalls(p, handles[p.h].ks, op, ok, by, dlen, tlen)
        IN client' = Deliver(client, cs) /\ last' = cs
  /\ did' = Append(did, [a |-> "call", p |-> pi, op |-> op, ok |-> ok, by |-> by, dlen |-> dlen, tlen |-> tlen])
  /\ UNCHANGED <<handles, mgrs, prims>>

Access(h, acc, i) ==
  /\ h \in DOMAIN handles /\ acc \in Accessors
  /\ i \in DOMAIN handles[h].ks
  /\ LET cs == AccessCalls(handles[h], acc, i)
     IN client' = Deliver(client, cs) /\ last' = cs
  /\ did' = Append(did, [a |-> "access", h |-> h, acc |-> acc, i |-> i])
  /\ UNCHANGED <<handles, mgrs, prims>>

(********************************* 4. the contract *********************************)
(* Stated over the client's records and the ghost history only; the mechanism above is   *)
(* not consulted (except the documented tables of part 2).                               *)
HandleOfLogger(n) == {h \in DOMAIN handles : \E i \in DOMAIN handles[h].lgs : handles[h].lgs[i] = n}
PrimOfLogger(n)   == {p \in DOMAIN prims : \E i \in DOMAIN prims[p].lgs : prims[p].lgs[i] = n}

CallsOf(pi, op, ok) == SelectBy(did, LAMBDA d : d.a = "call" /\ d.p = pi /\ d.op = op /\ d.ok = ok)
EventsOf(n)   == SelectBy(client.events,   LAMBDA e : e.lg = n)
FailuresOf(n) == SelectBy(client.failures, LAMBDA e : e.lg = n)
ExportsOf(n)  == SelectBy(client.exports,  LAMBDA e : e.lg = n)
AnnotatedPrim(pi) == Annotated(handles[prims[pi].h].ann) /\ Monitored(prims[pi].cls)

(* "No annotations, so no monitoring info": every logger belongs to exactly one annotated handle or   *)
(* to exactly one primitive of an annotated handle, and carries that handle's annotations.            *)
NoAnnotationsNoMonitoring ==
  /\ \A h \in DOMAIN handles : ~Annotated(handles[h].ann) => handles[h].lgs = <<>>
  /\ \A p \in DOMAIN prims : ~Annotated(handles[prims[p].h].ann) => prims[p].lgs = <<>>
  /\ \A n \in DOMAIN client.loggers :
       /\ client.loggers[n].info.ann # <<>>
       /\ Cardinality(HandleOfLogger(n)) + Cardinality(PrimOfLogger(n)) = 1
       /\ \A h \in HandleOfLogger(n) : client.loggers[n].info.ann = handles[h].ann.pairs
       /\ \A p \in PrimOfLogger(n) : client.loggers[n].info.ann = handles[prims[p].h].ann.pairs

(* a primitive of an annotated handle has exactly one logger per API function, created with the       *)
(* documented names and a KeysetInfo that describes its handle: annotations, primary id, and entries   *)
(* that are entries of the snapshot (handles are immutable, so the context stays true).                *)
LoggerPerFunction ==
  \A pi \in DOMAIN prims :
    AnnotatedPrim(pi) =>
      LET p == prims[pi]  ks == handles[p.h].ks  fns == ClassTable[p.cls].fns
      IN /\ Len(p.lgs) = Len(fns)
         /\ \A i, j \in DOMAIN p.lgs : i # j => p.lgs[i] # p.lgs[j]
         /\ \A i \in DOMAIN fns :
              LET ctx == client.loggers[p.lgs[i]]
              IN /\ ctx.prim = ClassTable[p.cls].prim /\ ctx.api = fns[i]
                 /\ ctx.info.primary = PrimaryId(ks)
                 /\ \A k \in DOMAIN ctx.info.entries : \E e \in DOMAIN ks : ctx.info.entries[k] = InfoEntry(ks[e])

(* every call is accounted exactly once: a successful call as ONE Log on the logger of its primitive   *)
(* and API function, naming the key that did the work and the size of the input; a failed call as ONE  *)
(* LogFailure on that logger; never both, never more, and nothing else reaches the client.             *)
EveryCallAccountedOnce ==
  /\ \A pi \in DOMAIN prims : \A op \in OpSet(prims[pi].cls) :
       AnnotatedPrim(pi) =>
         LET p == prims[pi]
             lg == p.lgs[FnIndex(p.cls, op)]
             succ == CallsOf(pi, op, TRUE)
         IN /\ Len(EventsOf(lg)) = Len(succ)
            /\ \A k \in DOMAIN succ :
                 /\ EventsOf(lg)[k].id = succ[k].by
                 /\ NumBytesDocumented(p.cls, op) => EventsOf(lg)[k].n = InputSize(p.cls, op, succ[k].dlen, succ[k].tlen)
            /\ Len(FailuresOf(lg)) = Len(CallsOf(pi, op, FALSE))
  /\ Len(client.events) + Len(client.failures)
       = Len(SelectBy(did, LAMBDA d : d.a = "call" /\ AnnotatedPrim(d.p)))

(* a logged success names an ENABLED key that the logger's own context lists; a producing function    *)
(* names the context's primary key                                                                    *)
LogsNameEnabledKeys ==
  \A k \in DOMAIN client.events :
    LET e == client.events[k]  ctx == client.loggers[e.lg]
    IN /\ \E i \in DOMAIN ctx.info.entries : ctx.info.entries[i].id = e.id /\ ctx.info.entries[i].status = "ENABLED"
       /\ \A pi \in PrimOfLogger(e.lg) : Produces(prims[pi].cls, ctx.api) => e.id = ctx.info.primary
       /\ PrimOfLogger(e.lg) # {}

(* "the failure is not associated with a specific key": a failure record carries a logger and nothing else *)
FailureNamesNoKey == \A k \in DOMAIN client.failures : DOMAIN client.failures[k] = {"lg"} /\ PrimOfLogger(client.failures[k].lg) # {}

(* key exports: Entry(i).Key() / Primary().Key() of an annotated handle log ONE export naming that key,   *)
(* KeysetMaterial (and the cleartext Write) one per entry; nothing else logs an export.                   *)
ExportsExpected(d) ==
  LET ks == handles[d.h].ks
  IN IF ~Annotated(handles[d.h].ann) \/ d.acc \notin ExportingAccessors THEN <<>>
     ELSE CASE d.acc = "entryKey"   -> <<[h |-> d.h, id |-> ks[d.i].id]>>
            [] d.acc = "primaryKey" -> <<[h |-> d.h, id |-> PrimaryId(ks)]>>
            [] OTHER                -> [j \in DOMAIN ks |-> [h |-> d.h, id |-> ks[j].id]]
KeyExportsAccounted ==
  LET acc  == SelectBy(did, LAMBDA d : d.a = "access")
      want == Flatten([k \in DOMAIN acc |-> ExportsExpected(acc[k])])
  IN /\ Len(client.exports) = Len(want)
     /\ \A k \in DOMAIN want :
          /\ client.exports[k].id = want[k].id
          /\ HandleOfLogger(client.exports[k].lg) = {want[k].h}
          /\ client.loggers[client.exports[k].lg].prim = "keyset_handle"
          /\ client.loggers[client.exports[k].lg].api = "get_key"

(* OBSERVATIONS about how annotations travel *)
PublicDropsAnnotations == \A h \in DOMAIN handles : handles[h].via = "public" => ~Annotated(handles[h].ann)

TypeOK ==
  /\ \A h \in DOMAIN handles : handles[h].via \in {"read", "manager", "public"} /\ Len(handles[h].lgs) \in {0, Len(handles[h].ks)}
  /\ \A p \in DOMAIN prims : prims[p].h \in DOMAIN handles /\ prims[p].cls \in Classes
  /\ \A k \in DOMAIN client.events : client.events[k].lg \in DOMAIN client.loggers
  /\ \A k \in DOMAIN client.failures : client.failures[k].lg \in DOMAIN client.loggers
  /\ \A k \in DOMAIN client.exports : client.exports[k].lg \in DOMAIN client.loggers
================================================================================
