------------------------------- MODULE StreamRuns -------------------------------
(* Abstract byte strings for the streaming-AEAD state machines (C07).              *)
(*                                                                                 *)
(* A string is a sequence of RUNS [src, a, b]: the bytes a .. b-1 of the source    *)
(* string `src`.  Sources are the plaintext, a stream header, the ciphertext of    *)
(* one segment under an IDEAL segment AEAD, or junk (bytes the attacker invented). *)
(* Strings are kept normalised (no empty run, adjacent runs of one source that     *)
(* continue each other are merged), so equality of strings is equality of bytes.   *)
(* The representation is independent of the sizes involved: a 1 MiB segment is one *)
(* run, exactly like a 3-byte segment of the small model-checking configurations.  *)
EXTENDS Integers, Sequences

RMin(a, b) == IF a < b THEN a ELSE b

Run(src, a, b) == [src |-> src, a |-> a, b |-> b]

\* ---- sources (one record shape, so that any two compare) ----
\* k: kind; i: segment index / header length byte / junk id; last: last-segment flag;
\* of: the plaintext string a ciphertext run encrypts; key: session <<main key, aad, nonce prefix/salt id>>
PtSrc         == [k |-> "pt",   i |-> 0, last |-> FALSE, of |-> <<>>, key |-> <<>>]
HdrSrc(h, s)  == [k |-> "hdr",  i |-> h, last |-> FALSE, of |-> <<>>, key |-> s]
JunkSrc(j)    == [k |-> "junk", i |-> j, last |-> FALSE, of |-> <<>>, key |-> <<>>]
CtSrc(s, i, last, pt) == [k |-> "ct", i |-> i, last |-> last, of |-> pt, key |-> s]

RECURSIVE RLen(_)
RLen(s) == IF s = <<>> THEN 0 ELSE (s[1].b - s[1].a) + RLen(Tail(s))

\* concatenation of two normalised strings
RCat(s, t) ==
  IF s = <<>> THEN t
  ELSE IF t = <<>> THEN s
  ELSE LET x == s[Len(s)]  y == t[1] IN
       IF x.src = y.src /\ x.b = y.a
         THEN SubSeq(s, 1, Len(s) - 1) \o <<Run(x.src, x.a, y.b)>> \o Tail(t)
         ELSE s \o t

RECURSIVE RTake(_, _)
RTake(s, n) ==
  IF n <= 0 \/ s = <<>> THEN <<>>
  ELSE LET h == s[1]  len == h.b - h.a IN
       IF n >= len THEN <<h>> \o RTake(Tail(s), n - len)
       ELSE <<Run(h.src, h.a, h.a + n)>>

RECURSIVE RDrop(_, _)
RDrop(s, n) ==
  IF n <= 0 \/ s = <<>> THEN s
  ELSE LET h == s[1]  len == h.b - h.a IN
       IF n >= len THEN RDrop(Tail(s), n - len)
       ELSE <<Run(h.src, h.a + n, h.b)>> \o Tail(s)

RSlice(s, off, n) == RTake(RDrop(s, off), n)          \* n bytes from 0-based offset off

RECURSIVE RCatAll(_)
RCatAll(ss) == IF ss = <<>> THEN <<>> ELSE RCat(ss[1], RCatAll(Tail(ss)))

RIsPrefix(p, s) == RTake(s, RLen(p)) = p

\* the whole plaintext of length n; n junk bytes with id j
PlainText(n) == IF n = 0 THEN <<>> ELSE <<Run(PtSrc, 0, n)>>
Junk(j, n)   == IF n = 0 THEN <<>> ELSE <<Run(JunkSrc(j), 0, n)>>

\* ---- the ideal segment AEAD with tag length t ----
\* Encryption of the plaintext string pt under session s and nonce (i, last): Len(pt) + t fresh bytes.
IdealEnc(s, i, last, pt, t) == <<Run(CtSrc(s, i, last, pt), 0, RLen(pt) + t)>>
\* A string decrypts under (s, i, last) iff it is EXACTLY one such encryption: <<ok, plaintext>>
IdealDec(s, i, last, ct, t) ==
  IF /\ Len(ct) = 1
     /\ ct[1].src.k = "ct" /\ ct[1].src.key = s /\ ct[1].src.i = i /\ ct[1].src.last = last
     /\ ct[1].a = 0 /\ ct[1].b = RLen(ct[1].src.of) + t
  THEN <<TRUE, ct[1].src.of>>
  ELSE <<FALSE, <<>>>>
================================================================================
