------------------------------- MODULE Concurrency -------------------------------
(* C18, result-equivalence clause: a primitive (or a handle) shared by any number of   *)
(* goroutines behaves, for every one of them, like the same object used alone.          *)
(*                                                                                    *)
(* The shared object is IMMUTABLE after construction: its behaviour is a constant of    *)
(* the model.  A call is a record [op, in].  For a deterministic operation              *)
(*     Alone[c]  is the value the same call returns when executed alone;                *)
(* for a randomized operation (Encrypt, Sign, NewEncryptingWriter ...) no single value   *)
(* exists; the acceptable results are those the ALONE inverse operation maps back to     *)
(* the input: Decrypt(ct) = pt, Verify(sig, msg) = ok:                                  *)
(*     Inverts(c, out)  holds iff the inverse, executed alone on out, returns c.in.     *)
(*                                                                                    *)
(* Each goroutine g runs   idle --Call(g,c)--> called(c) --Return(g)--> returned(c,out)  *)
(*                         --Next(g)--> idle.                                           *)
(* The specification allows Return(g) to deliver ONLY Acceptable results, whatever the   *)
(* other goroutines are doing: there is no shared variable through which one call could  *)
(* influence another.  An implementation that keeps a scratch buffer, a hash state, a    *)
(* cipher stream or a lazily initialised field in the shared object has behaviours       *)
(* (results that depend on the interleaving) that this specification does not have.     *)
(* The no-data-race clause of C18 is a memory-model property of Go code; it is decided   *)
(* by the Go race detector attached to the same runs, not by this specification.         *)
EXTENDS Integers, Sequences, FiniteSets

CONSTANTS G,            \* goroutines
          Calls,        \* the calls [op, in] issued on the shared object
          Randomized,   \* the operations whose results are judged through the inverse
          Alone,        \* [deterministic calls -> result alone]
          Results,      \* all values a Return may deliver in the model (finite universe)
          Inverts(_, _) \* Inverts(c, out): the alone inverse maps out back to c.in

VARIABLES pc            \* [G -> [st : {"idle","called","returned"}, c, out]]

Idle == [st |-> "idle"]
IsRandomized(c) == c.op \in Randomized
Acceptable(c, out) == IF IsRandomized(c) THEN Inverts(c, out) ELSE out = Alone[c]

Init == pc = [g \in G |-> Idle]

Call(g, c) == /\ pc[g].st = "idle"
              /\ pc' = [pc EXCEPT ![g] = [st |-> "called", c |-> c]]

Return(g) == /\ pc[g].st = "called"
             /\ \E out \in Results :
                  /\ Acceptable(pc[g].c, out)
                  /\ pc' = [pc EXCEPT ![g] = [st |-> "returned", c |-> pc[g].c, out |-> out]]

Done(g) == /\ pc[g].st = "returned"
           /\ pc' = [pc EXCEPT ![g] = Idle]

Next == \E g \in G : (\E c \in Calls : Call(g, c)) \/ Return(g) \/ Done(g)
Spec == Init /\ [][Next]_pc

(* -------------------------------------------------------------------- properties *)
\* every delivered result is the alone result (or inverts alone to the input)
ConcurrentEqualsAlone == \A g \in G : pc[g].st = "returned" => Acceptable(pc[g].c, pc[g].out)

\* two goroutines that issued the same deterministic call hold the same result
SameCallSameResult ==
  \A g, h \in G : (pc[g].st = "returned" /\ pc[h].st = "returned" /\ pc[g].c = pc[h].c /\ ~IsRandomized(pc[g].c))
                    => pc[g].out = pc[h].out

\* non-interference: what g may be handed does not depend on the other goroutines' states
\* (the set of results enabled for g is a function of g's call alone)
EnabledResults(g) == IF pc[g].st = "called" THEN {out \in Results : Acceptable(pc[g].c, out)} ELSE {}
NonInterference == [][\A g \in G : pc'[g] = pc[g] => EnabledResults(g)' = EnabledResults(g)]_pc

(* ---------------------------------------------------------- judging one recorded return *)
\* used verbatim by trace validation: alone is the table recorded from the alone executions
JudgeDeterministic(alone, key, out) ==
  IF key \notin DOMAIN alone THEN <<"coverage: no alone execution of this call was recorded", key>>
  ELSE IF out # alone[key] THEN <<"a concurrent call returned a value different from the same call executed alone", alone[key]>>
  ELSE <<>>
================================================================================
