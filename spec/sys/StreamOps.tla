-------------------------------- MODULE StreamOps --------------------------------
(* The streaming-AEAD objects of tink-go, written like the code, as operators over *)
(* explicit state records (C07).                                                   *)
(*                                                                                 *)
(*   streamingaead/subtle/noncebased/noncebased.go   Writer.Write/Close, Reader.Read *)
(*   streamingaead/subtle/aes_gcm_hkdf.go, aes_ctr_hmac.go   NewEncryptingWriter    *)
(*       (writes the header), NewDecryptingReader (reads len || salt || prefix)     *)
(*   io.ReadFull over an arbitrary io.Reader (short reads, data-with-EOF, failure)  *)
(*   streamingaead/decrypt_reader.go   unreader (the re-reading buffer)             *)
(*                                                                                 *)
(* A parameter record pp = [P, T, Off, Hdr, mk]:                                    *)
(*   P    plaintext segment size (= ciphertextSegmentSize - T)                      *)
(*   T    tag size (ciphertext segment = plaintext segment + T)                     *)
(*   Off  firstCiphertextSegmentOffset as handed to noncebased (user offset + header*)
(*        length): the first segment holds P - Off plaintext bytes                  *)
(*   Hdr  lengths of the header parts read by NewDecryptingReader (<<1, salt, 7>>), *)
(*        <<>> when the noncebased objects are used without a header                *)
(*   mk   identity of the main key                                                  *)
(* The segment AEAD is ideal (StreamRuns): a session is <<main key, aad>>.          *)
(* Every operator that touches the underlying io.Writer / io.Reader also returns    *)
(* the log of the underlying calls it made.                                         *)
EXTENDS StreamRuns, FiniteSets

RECURSIVE SumSeq(_)
SumSeq(s) == IF s = <<>> THEN 0 ELSE s[1] + SumSeq(Tail(s))

HLen(pp)    == SumSeq(pp.Hdr)                 \* header length
CLen(pp)    == pp.P + pp.T                    \* ciphertext segment size
FirstPt(pp) == pp.P - pp.Off                  \* plaintext capacity of the first segment
ParamsOK(pp) == pp.T >= 1 /\ FirstPt(pp) >= 1 /\ pp.Off >= HLen(pp)

Session(pp, aad) == <<pp.mk, aad>>
NoSession        == <<-1, -1>>
Header(pp, s)    == IF HLen(pp) = 0 THEN <<>> ELSE <<Run(HdrSrc(HLen(pp), s), 0, HLen(pp))>>

(***************************************************************************)
(* The documented format: header || segment_0 || ... || segment_k.  Every  *)
(* segment but the last is full (the first holds P - Off plaintext bytes,  *)
(* the others P); the last one is marked in its nonce and holds the rest   *)
(* (1 .. capacity bytes, or nothing when the whole plaintext is empty).    *)
(***************************************************************************)
RECURSIVE CanonFrom(_, _, _, _)
CanonFrom(pp, s, i, rest) ==
  LET cap == IF i = 0 THEN FirstPt(pp) ELSE pp.P IN
  IF RLen(rest) <= cap THEN IdealEnc(s, i, TRUE, rest, pp.T)
  ELSE RCat(IdealEnc(s, i, FALSE, RTake(rest, cap), pp.T), CanonFrom(pp, s, i + 1, RDrop(rest, cap)))
Canon(pp, s, pt) == RCat(Header(pp, s), CanonFrom(pp, s, 0, pt))

(***************************************************************************)
(* The underlying io.Writer: accepts whole buffers; from call number       *)
(* failFrom on (0 = never) every call fails.  calls saturates at failFrom, *)
(* so  calls = failFrom # 0  says "a call has failed".                     *)
(***************************************************************************)
NewSink(failFrom) == [out |-> <<>>, calls |-> 0, failFrom |-> failFrom]
SinkFaulted(sink) == sink.failFrom # 0 /\ sink.calls = sink.failFrom
SinkWrite(sink, data) ==
  LET fails == sink.failFrom # 0 /\ sink.calls + 1 >= sink.failFrom
      c     == IF sink.failFrom = 0 THEN 0 ELSE RMin(sink.calls + 1, sink.failFrom)
  IN [sink |-> [sink EXCEPT !.calls = c, !.out = IF fails THEN @ ELSE RCat(@, data)],
      err  |-> fails,
      log  |-> <<[n |-> RLen(data), err |-> fails, data |-> data]>>]

(***************************************************************************)
(* noncebased.Writer                                                       *)
(***************************************************************************)
NewW(s) == [buf |-> <<>>, cnt |-> 0, closed |-> FALSE, s |-> s]

\* NewEncryptingWriter: derive the session, write the header with ONE call, wrap a noncebased.Writer
WriterNew(pp, sink, aad) ==
  LET s == Session(pp, aad) IN
  IF HLen(pp) = 0 THEN [w |-> NewW(s), sink |-> sink, err |-> FALSE, log |-> <<>>]
  ELSE LET sw == SinkWrite(sink, Header(pp, s)) IN
       [w |-> NewW(s), sink |-> sw.sink, err |-> sw.err, log |-> sw.log]

\* Write(p): the loop of Writer.Write.  A full buffer is encrypted (not last) and flushed only when
\* more data follows; a failing flush returns with the buffer still full and the counter unchanged.
RECURSIVE WriteLoop(_, _, _, _, _, _)
WriteLoop(pp, w, sink, data, pos, log) ==
  LET ptLim == IF w.cnt = 0 THEN FirstPt(pp) ELSE pp.P
      n     == RMin(ptLim - RLen(w.buf), RLen(data) - pos)          \* copy(w.plaintext[pos:ptLim], p[pos:])
      w1    == [w EXCEPT !.buf = RCat(@, RSlice(data, pos, n))]
      pos1  == pos + n
  IN IF pos1 = RLen(data) THEN [w |-> w1, sink |-> sink, n |-> pos1, err |-> FALSE, log |-> log]
     ELSE LET sw == SinkWrite(sink, IdealEnc(w.s, w.cnt, FALSE, w1.buf, pp.T)) IN
          IF sw.err THEN [w |-> w1, sink |-> sw.sink, n |-> pos1, err |-> TRUE, log |-> log \o sw.log]
          ELSE WriteLoop(pp, [w1 EXCEPT !.buf = <<>>, !.cnt = @ + 1], sw.sink, data, pos1, log \o sw.log)

WriterWrite(pp, w, sink, data) ==
  IF w.closed THEN [w |-> w, sink |-> sink, n |-> 0, err |-> TRUE, log |-> <<>>]
  ELSE WriteLoop(pp, w, sink, data, 0, <<>>)

\* Close: the remainder (possibly a full or an empty buffer) is the last segment
WriterClose(pp, w, sink) ==
  IF w.closed THEN [w |-> w, sink |-> sink, err |-> FALSE, log |-> <<>>]
  ELSE LET sw == SinkWrite(sink, IdealEnc(w.s, w.cnt, TRUE, w.buf, pp.T)) IN
       IF sw.err THEN [w |-> w, sink |-> sw.sink, err |-> TRUE, log |-> sw.log]
       ELSE [w |-> [w EXCEPT !.buf = <<>>, !.cnt = @ + 1, !.closed = TRUE], sink |-> sw.sink, err |-> FALSE, log |-> sw.log]

(***************************************************************************)
(* The underlying io.Reader, optionally below decrypt_reader.go's unreader. *)
(*   rest      bytes not yet delivered                                     *)
(*   failFrom  every call from this number on fails (0 = never); the       *)
(*             failing call may still deliver some bytes (n, err)          *)
(*   ur        the unreader: on, buf (everything read so far), pos,        *)
(*             dis(abled)                                                  *)
(* A call for `want` > 0 bytes on a source with bytes left returns 1..want *)
(* of them with nil, or all remaining ones together with EOF; an exhausted *)
(* source returns (0, EOF).  How a call is resolved is a script sc:        *)
(*   mode "free"    every possibility (model checking)                     *)
(*   mode "follow"  the recorded outcomes sc.s = <<[n, err], ...>> in turn  *)
(*   mode "greedy"  as much as possible, EOF only when nothing is left     *)
(*   mode "one"     one byte per call      mode "half"  half of what fits  *)
(*   mode "eager"   as much as possible, the last bytes together with EOF  *)
(* (the fixed policies deliver nothing with a failure).  A source carries  *)
(* the mode it was created with (src.mode); ScOf(src) is its script.       *)
(***************************************************************************)
NoUnreader == [on |-> FALSE, buf |-> <<>>, pos |-> 0, dis |-> FALSE]
NewSource(stream, failFrom, mode) == [rest |-> stream, calls |-> 0, failFrom |-> failFrom, mode |-> mode, ur |-> NoUnreader]
SrcFaulted(src) == src.failFrom # 0 /\ src.calls = src.failFrom
Free   == [mode |-> "free", s |-> <<>>]
Greedy == [mode |-> "greedy", s |-> <<>>]
Follow(s) == [mode |-> "follow", s |-> s]
ScOf(src) == [mode |-> src.mode, s |-> <<>>]

UnderCall(src, want, sc) ==
  LET failing == src.failFrom # 0 /\ src.calls + 1 >= src.failFrom
      avail   == RLen(src.rest)
      m       == RMin(want, avail)
      cand    == IF failing THEN {<<k, "ERR">> : k \in 0..m}
                 ELSE IF avail = 0 THEN {<<0, "EOF">>}
                 ELSE {<<k, "nil">> : k \in 1..m} \cup (IF m = avail THEN {<<m, "EOF">>} ELSE {})
      legal(k, e) == IF failing THEN e = "ERR" /\ k \in 0..m                       \* membership in cand, without building it
                     ELSE IF avail = 0 THEN k = 0 /\ e = "EOF"
                     ELSE (e = "nil" /\ k \in 1..m) \/ (e = "EOF" /\ k = m /\ m = avail)
      pick    == CASE sc.mode = "free"   -> cand
                   [] sc.mode \in {"greedy", "one", "half", "eager"} ->
                        IF failing THEN {<<0, "ERR">>} ELSE IF avail = 0 THEN {<<0, "EOF">>}
                        ELSE (CASE sc.mode = "greedy" -> {<<m, "nil">>}
                                [] sc.mode = "one"    -> {<<1, "nil">>}
                                [] sc.mode = "half"   -> {<<(m + 1) \div 2, "nil">>}
                                [] sc.mode = "eager"  -> {<<m, IF m = avail THEN "EOF" ELSE "nil">>})
                   [] sc.mode = "follow" -> IF sc.s # <<>> /\ legal(sc.s[1].n, sc.s[1].err) THEN {<<sc.s[1].n, sc.s[1].err>>} ELSE {}
      c1      == IF src.failFrom = 0 THEN 0 ELSE RMin(src.calls + 1, src.failFrom)
  IN {[data |-> RTake(src.rest, c[1]), err |-> c[2],
       src  |-> [src EXCEPT !.rest = RDrop(@, c[1]), !.calls = c1],
       sc   |-> IF sc.mode = "follow" THEN [sc EXCEPT !.s = Tail(@)] ELSE sc,
       log  |-> <<[want |-> want, n |-> c[1], err |-> c[2]]>>] : c \in pick}

\* unreader.Read: replay buffered bytes first (no underlying call); else read through and remember
SrcCall(src, want, sc) ==
  IF src.ur.on /\ src.ur.pos # RLen(src.ur.buf)
  THEN LET n == RMin(want, RLen(src.ur.buf) - src.ur.pos) IN
       {[data |-> RSlice(src.ur.buf, src.ur.pos, n), err |-> "nil", src |-> [src EXCEPT !.ur.pos = @ + n], sc |-> sc, log |-> <<>>]}
  ELSE IF ~src.ur.on THEN UnderCall(src, want, sc)
  ELSE {[o EXCEPT !.src.ur = IF @.dis THEN [@ EXCEPT !.buf = <<>>, !.pos = 0]
                             ELSE [@ EXCEPT !.buf = RCat(@, o.data), !.pos = RLen(RCat(src.ur.buf, o.data))]]
        : o \in UnderCall(src, want, sc)}

(***************************************************************************)
(* io.ReadFull(r, buf[:want]) = io.ReadAtLeast(r, buf, want):              *)
(*   for n < min && err == nil { nn, err = r.Read(buf[n:]); n += nn }      *)
(*   if n >= min { err = nil } else if n > 0 && err == EOF { err = ErrUnexpectedEOF } *)
(* err is one of "nil", "EOF", "UEOF", "ERR".                              *)
(***************************************************************************)
RECURSIVE RFLoop(_, _, _, _, _)
RFLoop(src, got, want, sc, log) ==
  IF RLen(got) >= want THEN {[data |-> got, err |-> "nil", src |-> src, sc |-> sc, log |-> log]}
  ELSE UNION {
         LET got1 == RCat(got, o.data)  lg == log \o o.log IN
         IF o.err = "nil" THEN RFLoop(o.src, got1, want, o.sc, lg)
         ELSE {[data |-> got1,
                err  |-> IF RLen(got1) >= want THEN "nil"
                         ELSE IF o.err = "EOF" THEN (IF RLen(got1) > 0 THEN "UEOF" ELSE "EOF")
                         ELSE "ERR",
                src |-> o.src, sc |-> o.sc, log |-> lg]}
       : o \in SrcCall(src, want - RLen(got), sc)}
ReadFull(src, want, sc) == RFLoop(src, <<>>, want, sc, <<>>)

(***************************************************************************)
(* noncebased.Reader                                                       *)
(*   avail  decrypted plaintext not yet handed out (plaintext[plaintextPos:]) *)
(*   carry  the look-ahead byte kept at ciphertext[0] (ciphertextPos)      *)
(*   cnt    decryptedSegmentCnt        last  lastSegmentDecrypted          *)
(***************************************************************************)
NewR(s) == [avail |-> <<>>, carry |-> <<>>, cnt |-> 0, last |-> FALSE, s |-> s]

\* NewDecryptingReader: ReadFull the header parts in turn; the first part is the length byte and must
\* equal HeaderLength(); the remaining parts (salt, nonce prefix) and the aad fix the session.
LenByteOK(pp, d) == d = <<Run(d[1].src, 0, 1)>> /\ d[1].src.k = "hdr" /\ d[1].src.i = HLen(pp)
RECURSIVE HdrLoop(_, _, _, _, _, _)
HdrLoop(pp, k, src, sc, acc, log) ==
  IF k > Len(pp.Hdr) THEN {[ok |-> TRUE, rest |-> acc, src |-> src, sc |-> sc, log |-> log]}
  ELSE UNION {
         IF f.err # "nil" \/ (k = 1 /\ ~LenByteOK(pp, f.data))
           THEN {[ok |-> FALSE, rest |-> acc, src |-> f.src, sc |-> f.sc, log |-> log \o f.log]}
           ELSE HdrLoop(pp, k + 1, f.src, f.sc, IF k = 1 THEN acc ELSE RCat(acc, f.data), log \o f.log)
       : f \in ReadFull(src, pp.Hdr[k], sc)}
ReaderNew(pp, src, aad, sc) ==
  IF HLen(pp) = 0 THEN {[r |-> NewR(Session(pp, aad)), src |-> src, err |-> FALSE, sc |-> sc, log |-> <<>>]}
  ELSE {[r   |-> NewR(IF h.ok /\ h.rest = RDrop(Header(pp, Session(pp, aad)), 1) THEN Session(pp, aad) ELSE NoSession),
         src |-> h.src, err |-> ~h.ok, sc |-> h.sc, log |-> h.log] : h \in HdrLoop(pp, 1, src, sc, <<>>, <<>>)}

\* Read(p), len(p) = n.  Results: [r, src, data, err in {"nil","EOF","ERR"}, sc, log]
ReaderRead(pp, r, src, n, sc) ==
  IF r.avail # <<>>                                   \* serve buffered plaintext
    THEN LET k == RMin(n, RLen(r.avail)) IN
         {[r |-> [r EXCEPT !.avail = RDrop(@, k)], src |-> src, data |-> RTake(r.avail, k), err |-> "nil", sc |-> sc, log |-> <<>>]}
  ELSE IF r.last                                      \* the last segment was seen: clean end
    THEN {[r |-> r, src |-> src, data |-> <<>>, err |-> "EOF", sc |-> sc, log |-> <<>>]}
  ELSE
    LET ctLim == (CLen(pp) + 1) - (IF r.cnt = 0 THEN pp.Off ELSE 0)
    IN {
      IF f.err = "ERR"                                \* a read error other than (Unexpected)EOF: returned as is
        THEN [r |-> r, src |-> f.src, data |-> <<>>, err |-> "ERR", sc |-> f.sc, log |-> f.log]
      ELSE
        LET last   == f.err # "nil"                   \* the buffer was not filled: this is the last segment
            full   == RCat(r.carry, f.data)
            segLen == IF last THEN RLen(full) ELSE RLen(full) - 1
            r1     == [r EXCEPT !.last = last]
            d      == IdealDec(r.s, r.cnt, last, RTake(full, segLen), pp.T)
        IN IF segLen < 0 \/ ~d[1]
             THEN [r |-> r1, src |-> f.src, data |-> <<>>, err |-> "ERR", sc |-> f.sc, log |-> f.log]
             ELSE LET k == RMin(n, RLen(d[2])) IN
                  [r    |-> [r1 EXCEPT !.carry = IF last THEN @ ELSE RDrop(full, segLen),   \* keep the look-ahead byte
                                       !.cnt = @ + 1, !.avail = RDrop(d[2], k)],
                   src  |-> f.src, data |-> RTake(d[2], k), err |-> "nil", sc |-> f.sc, log |-> f.log]
      : f \in ReadFull(src, ctLim - RLen(r.carry), sc)}

(***************************************************************************)
(* Stream manipulations.  Segments are taken positionally (header, first   *)
(* segment, full segments, rest), so manipulations compose.  Segment       *)
(* numbers are 0-based as in the nonce.                                    *)
(***************************************************************************)
Manip(kind, at, n, i, j, perm) == [kind |-> kind, at |-> at, n |-> n, i |-> i, j |-> j, perm |-> perm]
NoManip == Manip("none", 0, 0, 0, 0, <<>>)

RECURSIVE PiecesFrom(_, _, _)
PiecesFrom(pp, x, first) ==
  IF x = <<>> THEN <<>>
  ELSE LET c == IF first THEN CLen(pp) - pp.Off ELSE CLen(pp) IN <<RTake(x, c)>> \o PiecesFrom(pp, RDrop(x, c), FALSE)
Pieces(pp, st) == PiecesFrom(pp, RDrop(st, HLen(pp)), TRUE)
NSegs(pp, st)  == Len(Pieces(pp, st))

Apply(pp, m, st) ==
  LET hd == RTake(st, HLen(pp))
      ps == Pieces(pp, st)
      k  == Len(ps)
  IN CASE m.kind = "none"   -> st
       [] m.kind = "aad"    -> st                                            \* the reader is given other associated data
       [] m.kind = "trunc"  -> RTake(st, m.at)                               \* keep the first `at` bytes
       [] m.kind = "alter"  -> RCat(RCat(RTake(st, m.at), Junk(m.at + 1, 1)), RDrop(st, m.at + 1))
       [] m.kind = "append" -> RCat(st, Junk(0, m.n))
       [] m.kind = "drop"   -> RCat(hd, RCatAll([x \in 1..(k - 1) |-> ps[IF x <= m.i THEN x ELSE x + 1]]))
       [] m.kind = "dup"    -> RCat(hd, RCatAll([x \in 1..(k + 1) |->         \* a copy of segment i before segment j
                                      IF x <= m.j THEN ps[x] ELSE IF x = m.j + 1 THEN ps[m.i + 1] ELSE ps[x - 1]]))
       [] m.kind = "perm"   -> RCat(hd, RCatAll([x \in 1..k |-> ps[m.perm[x] + 1]]))

\* a sequence of manipulations, applied left to right
RECURSIVE ApplyAll(_, _, _)
ApplyAll(pp, ms, st) == IF ms = <<>> THEN st ELSE ApplyAll(pp, Tail(ms), Apply(pp, ms[1], st))
HasAad(ms) == \E x \in DOMAIN ms : ms[x].kind = "aad"

\* every single manipulation of the stream st in the classes named by the property
Manips(pp, st, maxAppend, maxPermSegs) ==
  LET L == RLen(st)  k == NSegs(pp, st) IN
       {Manip("trunc", p, 0, 0, 0, <<>>) : p \in 0..(L - 1)}
  \cup {Manip("alter", p, 0, 0, 0, <<>>) : p \in 0..(L - 1)}
  \cup {Manip("append", 0, n, 0, 0, <<>>) : n \in 1..maxAppend}
  \cup {Manip("drop", 0, 0, i, 0, <<>>) : i \in 0..(k - 1)}
  \cup {Manip("dup", 0, 0, i, j, <<>>) : i \in 0..(k - 1), j \in 0..k}
  \cup (IF k > maxPermSegs THEN {Manip("perm", 0, 0, 0, 0, [x \in 1..k |-> IF x = i + 1 THEN j ELSE IF x = j + 1 THEN i ELSE x - 1])
                                   : i \in 0..(k - 1), j \in 0..(k - 1)}
        ELSE {Manip("perm", 0, 0, 0, 0, [x \in 1..k |-> f[x] - 1]) : f \in {g \in [1..k -> 1..k] : \A y \in 1..k : \E x \in 1..k : g[x] = y}})
  \cup {Manip("aad", 0, 0, 0, 0, <<>>)}
================================================================================
