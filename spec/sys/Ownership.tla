------------------------------- MODULE Ownership -------------------------------
(* C19 - who owns which bytes.                                                        *)
(*                                                                                    *)
(* Memory is a set of cells.  A byte slice handed across the API is a REGION of three *)
(* cells: d (the bytes inside len), s (the spare capacity between len and cap) and g   *)
(* (the bytes of the caller's array outside the slice: guard zones on both sides).    *)
(* Every region is owned by the caller: inputs because the caller allocated them,      *)
(* results because a returned slice belongs to whoever receives it.  The library       *)
(* object under test (key, parameters, handle, primitive) is a list of cells it        *)
(* REFERENCES; its observable value (key.Equal against a pristine deep copy, accessor  *)
(* bytes, outputs of primitives built from it before or afterwards) is a function of   *)
(* the contents of exactly those cells.                                                *)
(*                                                                                    *)
(* Actions: New (construct from caller buffers), Use (a primitive call / a function:   *)
(* fresh caller inputs, returned slices), Acc (accessors: returned slices), Scribble   *)
(* (the caller overwrites a group of its regions: data AND spare capacity).            *)
(*                                                                                    *)
(* The library the property demands copies on the way in, copies on the way out and    *)
(* builds results in fresh memory.  Faults names the ways a library can deviate; with  *)
(* Faults = {} the two properties below are theorems of the model (checked by TLC),    *)
(* with any single fault TLC finds a schedule that exposes it - which is what makes    *)
(* the enumerated schedules (plan/Plan_Ownership) an adequate test plan.               *)
(* Trace validation (trace/Trace_Ownership) steps this model with Faults = {} next to  *)
(* the real code and compares every region and the object's value after every step.    *)
EXTENDS Integers, Sequences, FiniteSets

CONSTANTS Faults       \* subset of FaultClasses

FaultClasses == {"stores-input",            \* constructor keeps the caller's slice
                 "returns-internal",        \* accessor hands out the object's own array
                 "writes-caller-capacity",  \* a call appends into the spare capacity of an input
                 "writes-caller-data",      \* a call writes inside len of an input
                 "returns-input"}           \* a returned slice is (part of) an input

ASSUME Faults \subseteq FaultClasses

Parts == {"d", "s", "g"}
NoObj == [fields |-> <<>>, live |-> FALSE]

VARIABLES mem,       \* [1..n -> value]: contents of the allocated cells
          regs,      \* Seq([role : {"in","out"}, step : Nat, cells : [Parts -> cell]])  caller-owned regions, in order of creation
          given,     \* Seq([Parts -> value]): what the caller last put into / was handed in region i
          obj,       \* [fields : Seq(cell), live : BOOLEAN]: the library object under test
          pristine,  \* the object's observable value when it was constructed
          nsteps     \* calls and scribbles so far (a region remembers the step that created it)

vars == <<mem, regs, given, obj, pristine, nsteps>>

(* ------------------------------------------------------------------ allocation *)
Alloc(m, vals) == m \o vals                               \* new cells get the next indices
CellsAfter(m, k) == Len(m) + k                            \* index of the k-th cell allocated next

(* a value record for a region: [d |-> .., s |-> .., g |-> ..] *)
RegionOf(m, base, role, step) == [role |-> role, step |-> step,
                                  cells |-> [p \in Parts |-> base + (CASE p = "d" -> 1 [] p = "s" -> 2 [] p = "g" -> 3)]]
RegionVal(m, r) == [p \in Parts |-> m[r.cells[p]]]

ObsVal == [i \in DOMAIN obj.fields |-> mem[obj.fields[i]]]

(* Allocate one caller region per element of vals (records over Parts) on top of memory m;      *)
(* returns the new memory and the new regions.                                                 *)
RECURSIVE AllocRegions(_, _, _, _)
AllocRegions(m, vals, role, step) ==
  IF vals = <<>> THEN [mem |-> m, regs |-> <<>>]
  ELSE LET v    == Head(vals)
           m1   == Alloc(m, <<v.d, v.s, v.g>>)
           r    == RegionOf(m, Len(m), role, step)
           rest == AllocRegions(m1, Tail(vals), role, step)
       IN [mem |-> rest.mem, regs |-> <<r>> \o rest.regs]

(* ------------------------------------------------------------------ New *)
(* The caller places invals in fresh regions; the library builds the object.  Field 1 is the   *)
(* object's own state (a generated id, a derived table); one more field per byte input.        *)
New(invals, own) ==
  /\ ~obj.live
  /\ LET a     == AllocRegions(mem, invals, "in", nsteps + 1)
         m1    == Alloc(a.mem, <<own>>)
         ownc  == Len(a.mem) + 1
         \* copies of the inputs, one fresh cell each (allocated even when the fault makes them unused)
         m2    == Alloc(m1, [i \in DOMAIN invals |-> invals[i].d])
         flds  == <<ownc>> \o [i \in DOMAIN invals |->
                                 IF "stores-input" \in Faults THEN a.regs[i].cells["d"] ELSE Len(m1) + i]
     IN /\ mem' = m2
        /\ regs' = regs \o a.regs
        /\ given' = given \o invals
        /\ obj' = [fields |-> flds, live |-> TRUE]
        /\ pristine' = [i \in DOMAIN flds |-> m2[flds[i]]]
  /\ nsteps' = nsteps + 1

(* ------------------------------------------------------------------ Acc *)
(* Accessors: result j shows field 1 + ((j-1) mod #fields).  outvals[j] is what the caller     *)
(* receives: for the library of the property a copy, in a fresh cell, of something the object  *)
(* holds (MC_Ownership hands in exactly the field's content; a trace hands in what was seen).  *)
AccField(j) == 1 + ((j - 1) % Len(obj.fields))
Acc(outvals) ==
  /\ obj.live /\ outvals # <<>>
  /\ LET a  == AllocRegions(mem, outvals, "out", nsteps + 1)
         rs == [j \in DOMAIN outvals |->
                  IF "returns-internal" \in Faults
                    THEN [a.regs[j] EXCEPT !.cells["d"] = obj.fields[AccField(j)]]
                    ELSE a.regs[j]]
     IN /\ mem' = a.mem
        /\ regs' = regs \o rs
        /\ given' = given \o outvals
  /\ UNCHANGED <<obj, pristine>>
  /\ nsteps' = nsteps + 1

(* ------------------------------------------------------------------ Use *)
(* A primitive call (or a plain function when there is no object): the caller passes fresh     *)
(* regions, the library returns results built in fresh memory.  clobber is the value a faulty  *)
(* library leaves behind.                                                                      *)
Use(invals, outvals, clobber) ==
  /\ ~(invals = <<>> /\ outvals = <<>>)
  /\ LET a  == AllocRegions(mem, invals, "in", nsteps + 1)
         b  == AllocRegions(a.mem, outvals, "out", nsteps + 1)
         outs == [j \in DOMAIN outvals |->
                    IF "returns-input" \in Faults /\ invals # <<>>
                      THEN [b.regs[j] EXCEPT !.cells["d"] = a.regs[1].cells["d"]]
                      ELSE b.regs[j]]
         m1 == IF "writes-caller-capacity" \in Faults /\ invals # <<>>
                 THEN [b.mem EXCEPT ![a.regs[1].cells["s"]] = clobber] ELSE b.mem
         m2 == IF "writes-caller-data" \in Faults /\ invals # <<>>
                 THEN [m1 EXCEPT ![a.regs[1].cells["d"]] = clobber] ELSE m1
     IN /\ mem' = m2
        /\ regs' = regs \o a.regs \o outs
        /\ given' = given \o invals \o [j \in DOMAIN outvals |-> RegionVal(m2, outs[j])]
  /\ UNCHANGED <<obj, pristine>>
  /\ nsteps' = nsteps + 1

(* ------------------------------------------------------------------ Scribble *)
(* The caller overwrites the regions in R (indices into regs) - data and spare capacity; its   *)
(* guard bytes stay.  newvals[i] is what it writes into region i.                              *)
Scribble(R, newvals) ==
  /\ R # {} /\ R \subseteq DOMAIN regs
  /\ \A i \in R : newvals[i] # given[i] /\ newvals[i].g = given[i].g
  /\ LET cellsD == {regs[i].cells["d"] : i \in R}
         cellsS == {regs[i].cells["s"] : i \in R}
         Writer(c, p) == CHOOSE i \in R : regs[i].cells[p] = c     \* last writer wins; R's cells are distinct in practice
     IN mem' = [c \in DOMAIN mem |->
                  IF c \in cellsD THEN newvals[Writer(c, "d")].d
                  ELSE IF c \in cellsS THEN newvals[Writer(c, "s")].s
                  ELSE mem[c]]
  /\ given' = [i \in DOMAIN given |-> IF i \in R THEN newvals[i] ELSE given[i]]
  /\ UNCHANGED <<regs, obj, pristine>>
  /\ nsteps' = nsteps + 1

Init ==
  /\ mem = <<>> /\ regs = <<>> /\ given = <<>> /\ obj = NoObj /\ pristine = <<>> /\ nsteps = 0

(* regions created by step k with the given role: the unit the caller scribbles *)
Group(k, role) == {i \in DOMAIN regs : regs[i].step = k /\ regs[i].role = role}

(************************************ properties ************************************)
(* C19, first half: only the caller's own writes change caller-owned memory - inside len,     *)
(* in the spare capacity, or in the guard zones: every region holds what its owner last put   *)
(* there (inputs) or was handed (results).                                                    *)
NoForeignWrite == \A i \in DOMAIN regs : RegionVal(mem, regs[i]) = given[i]

(* C19, second half: nothing the caller does to its own memory changes a library object.      *)
LibraryValuesStable == obj.live => ObsVal = pristine

(* What makes both true: no cell is shared between two regions or between a region and the     *)
(* object (the object may be reached only through the library).                                *)
RegionCells(i) == {regs[i].cells[p] : p \in Parts}
NoSharing ==
  /\ \A i, j \in DOMAIN regs : i # j => RegionCells(i) \cap RegionCells(j) = {}
  /\ \A i \in DOMAIN regs : RegionCells(i) \cap {obj.fields[k] : k \in DOMAIN obj.fields} = {}

(* the same two halves as step properties, the form in which the trace spec applies them *)
CallLeavesCallerMemory ==
  [][\A i \in DOMAIN regs : RegionVal(mem', regs[i]) # RegionVal(mem, regs[i]) => given'[i] # given[i]]_vars
ScribbleLeavesLibrary ==
  [][(obj.live /\ obj' = obj) => ObsVal' = ObsVal]_vars
================================================================================
