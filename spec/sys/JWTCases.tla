-------------------------------- MODULE JWTCases --------------------------------
(* C09: the verification cases, enumerated by TLC (written out by Plan_JWT, model-   *)
(* checked by MC_JWT): the FULL product within each block                          *)
(*   time       clock (with / without sub-second part) x skew {0, 1 s, 10 min} x     *)
(*              exp x nbf x iat (absent, the whole seconds around each rule's own    *)
(*              boundary now -/+ skew) x AllowMissingExpiration x                    *)
(*              ExpectIssuedInThePast                                                *)
(*   timefrac   exp / nbf / iat with a fractional part around the boundaries, just   *)
(*              below 0 and just above the maximum, one claim at a time              *)
(*   timetype   exp / nbf / iat of the wrong JSON type or out of range               *)
(*   presence   typ x iss x aud (absent / expected / other / mistyped; aud as string, *)
(*              list, empty list, list with a non-string) x validator expectation     *)
(*              (none / expected / ignore) for each                                  *)
(*   strings    sub, jti, iss, typ typing; custom claims of every JSON kind           *)
(*   header     key algorithm x kid strategies of two enabled keys (+ a disabled key  *)
(*              that would accept any kid) x who signed (each key, the disabled key,  *)
(*              a foreign key, the right material under the other algorithm, a        *)
(*              flipped / garbage / empty signature, HMAC under the public key) x     *)
(*              alg header (own, other, none, lower case, other family, absent,       *)
(*              non-string) x kid header x crit                                      *)
(*   keyid      two TINK keys with key ids from the boundary set x signer x kid        *)
(*   struct     number and place of dots, white space x base64 variant of each part   *)
(*   json       shape of the header text and of the claims-set text                   *)
(* with the other blocks at a passing value (ctx "pass") and at a failing one (a      *)
(* forged signature, an expired token, a crit header).  A case is abstract (module    *)
(* JWT); its JSON text is JWTText's.  Sign cases (RawJWTOptions combinations for the   *)
(* direction Tink -> specification) are at the end.                                   *)
EXTENDS JWTText, JWS, Json, IOUtils, SequencesExt

Tier == IF "VERIF_TIER" \in DOMAIN IOEnv THEN IOEnv.VERIF_TIER ELSE "quick"
Full == Tier = "thorough"

\* ------------------------------------------------------------------ keys
\* base64url(big-endian key id) of the model's two key ids (checked against JWS below)
\* the kid of a TINK key: base64url of the 4-octet big-endian key id (jwt_encoding.go keyID)
TinkKid(id) == B64UrlText(HexToBytes(id))
\* key ids at the boundaries of that encoding: leading zero octets (0, 1, 0xab, 0xabcd, 0xabcdef, 2^24 - 1, 2^24),
\* the sign bit, all ones, and an id whose base64url text has the two URL characters '-' and '_'
BoundaryIds == {"00000000", "00000001", "000000ab", "0000abcd", "00abcdef", "00ffffff", "01000000", "7fffffff",
                "80000000", "fbefbeff", "ffffffff"}
ASSUME \A id \in BoundaryIds \cup {"01020304", "fffffffe"} :
         Txt(TinkKid(id)) = B64UrlEncode(HexToBytes(id)) /\ Len(TinkKid(id)) = 6
ASSUME TinkKid("01020304") = "AQIDBA" /\ TinkKid("fffffffe") = "_____g" /\ TinkKid("00000000") = "AAAAAA"
       /\ TinkKid("fbefbeff") = "----_w"

\* n = 1, 2: the two enabled keys; their ids / custom kids
KeyId(n)     == IF n = 1 THEN "01020304" ELSE "fffffffe"
CustomKid(n) == IF n = 1 THEN "kidA" ELSE "kidB"
Key(n, alg, strat, mat, status) ==
  [alg |-> alg, strat |-> strat, status |-> status, mat |-> mat,
   id  |-> IF strat = "TINK" THEN KeyId(n) ELSE "",
   kid |-> CASE strat = "TINK" -> TinkKid(KeyId(n)) [] strat = "CUSTOM" -> CustomKid(n) [] OTHER -> ""]

\* a TINK key with a chosen key id
TinkKey(id, alg, mat) == [alg |-> alg, strat |-> "TINK", status |-> "ENABLED", mat |-> mat, id |-> id, kid |-> TinkKid(id)]

Strats == {"TINK", "CUSTOM", "IGNORED"}

\* a second algorithm that may live in the same keyset (MAC keysets hold MAC keys only)
Alg2(a) == CASE a = "HS256" -> "HS384" [] a = "HS384" -> "HS512" [] a = "HS512" -> "HS256"
             [] a = "ES256" -> "ES384" [] a = "ES384" -> "PS256" [] a = "ES512" -> "RS256"
             [] a = "RS256" -> "PS256" [] a = "RS384" -> "ES256" [] a = "RS512" -> "RS384"
             [] a = "PS256" -> "RS256" [] a = "PS384" -> "PS512" [] a = "PS512" -> "ES512"
LowerAlg(a) == CASE a = "HS256" -> "hs256" [] a = "HS384" -> "hs384" [] a = "HS512" -> "hs512"
                 [] a = "ES256" -> "es256" [] a = "ES384" -> "es384" [] a = "ES512" -> "es512"
                 [] a = "RS256" -> "rs256" [] a = "RS384" -> "rs384" [] a = "RS512" -> "rs512"
                 [] a = "PS256" -> "ps256" [] a = "PS384" -> "ps384" [] a = "PS512" -> "ps512"
CrossAlg(a) == IF a \in JWSMacAlgs THEN "RS256" ELSE "HS256"     \* the classic HS-vs-RS confusion

\* ------------------------------------------------------------------ defaults (everything passes)
Now0 == 2000000000                       \* ticks: 1 000 000 000 s, a whole second
DefKs(a)  == <<Key(1, a, "TINK", "m1", "ENABLED")>>
DefSigner(a) == [mat |-> "m1", alg |-> a, mode |-> "good"]
DefEnc == [h |-> "ok", p |-> "ok", s |-> "ok"]
DefHdr(a) == [json |-> "object", alg |-> Str(a), kid |-> Str(TinkKid(KeyId(1))), typ |-> Absent,
              crit |-> "absent", extra |-> FALSE]
DefPl == [json |-> "object", iss |-> Absent, sub |-> Absent, jti |-> Absent, aud |-> Absent,
          exp |-> Num(Now0 + 200), nbf |-> Absent, iat |-> Absent, custom |-> <<>>]
DefTok(a) == [struct |-> "ok", enc |-> DefEnc, signer |-> DefSigner(a), hdr |-> DefHdr(a), pl |-> DefPl]
DefV == [typ |-> None, iss |-> None, aud |-> None, allowMissingExp |-> FALSE, expectIat |-> FALSE, skew |-> 0]

Case(blk, a, ks, t, v, now) == [blk |-> blk, ctx |-> "pass", fam |-> a, ks |-> ks, t |-> t, v |-> v, now |-> now]

\* "the other blocks at one failing value"
WithCtx(c, ctx) ==
  CASE ctx = "pass"    -> c
    [] ctx = "badsig"  -> [c EXCEPT !.ctx = ctx, !.t.signer.mode = "flipped"]
    [] ctx = "expired" -> [c EXCEPT !.ctx = ctx, !.t.pl.exp = Num(c.now - 1000), !.v.allowMissingExp = FALSE]
    [] ctx = "crit"    -> [c EXCEPT !.ctx = ctx, !.t.hdr.crit = "list"]

\* Every block is a set of small parameter tuples (cheap for TLC to enumerate and order) and an
\* operator that makes the case of a tuple.  a: the key algorithm of the case's first key.
BlockNames == {"keyid", "time", "timefrac", "timetype", "presence", "strings", "header", "struct", "json"}

\* the code has two verification paths: jwt.MAC (HS*) and jwt.Verifier (ES*, RS*, PS*)
BlockAlgs(blk) ==
  CASE blk = "header"   -> IF Full THEN JWSAlgs ELSE {"HS256", "ES256", "RS256", "PS256"}
    [] blk = "presence" -> IF Full THEN {"HS256", "ES256", "RS256", "PS256"} ELSE {"HS256"}
    [] OTHER            -> IF Full THEN {"HS256", "ES256", "RS256", "PS256"} ELSE {"HS256", "ES256"}
Ctxs(blk) ==
  CASE blk = "time"     -> IF Full THEN {"pass", "badsig", "crit"} ELSE {"pass"}
    [] blk = "header"   -> {"pass"}
    [] blk = "presence" -> IF Full THEN {"pass", "badsig"} ELSE {"pass"}
    [] blk = "timefrac" -> {"pass"}
    [] blk = "keyid"    -> {"pass"}
    [] OTHER            -> {"pass", "badsig", "expired"}

\* ------------------------------------------------------------------ block: time
\* NumericDate claims that are whole seconds, around the boundary of each rule, against a clock
\* with and without a sub-second part.
Nows   == {Now0, Now0 + 1}                               \* ... .0 s and ... .5 s
Skews  == {0, 1 * TicksPerSecond, MaxSkew}
Reach  == IF Full THEN 4 ELSE 2                           \* ticks around the boundary
Whole(b) == {Num(c) : c \in {x \in (b - Reach)..(b + Reach) : (x % TicksPerSecond) = 0}}
\* exp is compared with now - skew, nbf and iat with now + skew
ExpVals(now, skew) == {Absent} \cup Whole(now - skew)
NbfVals(now, skew) == {Absent} \cup Whole(now + skew)
TimeParams ==
  UNION {{<<now, s, am, ei, e, n, i>> : am \in BOOLEAN, ei \in BOOLEAN, e \in ExpVals(now, s),
                                        n \in NbfVals(now, s), i \in NbfVals(now, s)} : now \in Nows, s \in Skews}
TimeMake(a, p) ==
  Case("time", a, DefKs(a), [DefTok(a) EXCEPT !.pl.exp = p[5], !.pl.nbf = p[6], !.pl.iat = p[7]],
       [DefV EXCEPT !.skew = p[2], !.allowMissingExp = p[3], !.expectIat = p[4]], p[1])

\* ------------------------------------------------------------------ block: timefrac
\* NumericDate claims with a fractional part (RFC 7519 section 2 allows them), one claim at a time:
\* half a second around each rule's boundary, just below 0 and just above the maximum.
Halves(b) == {Num(c) : c \in {x \in (b - 3)..(b + 3) : (x % TicksPerSecond) = 1}}
TimeFracParams ==
  UNION {{<<now, s, "exp", e, FALSE>> : e \in Halves(now - s)} \cup {<<now, s, "nbf", n, FALSE>> : n \in Halves(now + s)}
         \cup {<<now, s, "iat", i, ei>> : i \in Halves(now + s), ei \in BOOLEAN}
         : now \in Nows, s \in IF Full THEN Skews ELSE {1 * TicksPerSecond}}
  \cup {<<Now0, 0, w, x, TRUE>> : w \in {"exp", "nbf", "iat"}, x \in {Num(0 - 1), Big("253402300799.5")}}
TimeFracMake(a, p) ==
  Case("timefrac", a, DefKs(a),
       CASE p[3] = "exp" -> [DefTok(a) EXCEPT !.pl.exp = p[4]]
         [] p[3] = "nbf" -> [DefTok(a) EXCEPT !.pl.nbf = p[4]]
         [] p[3] = "iat" -> [DefTok(a) EXCEPT !.pl.iat = p[4]],
       [DefV EXCEPT !.skew = p[2], !.expectIat = p[5]], p[1])

\* ------------------------------------------------------------------ block: timetype
BadTimes == {Other("\"1000000000\""), Other("null"), Other("true"), Other("[7]"), Num(0 - 2),
             Big("253402300800"), Big("1e30")}
OddTimes == {MaxTime, Num(0), NumF(Now0 + 200, "dot0"), NumF(Now0 - 200, "dot0")}
TimeTypeParams == {<<w, x, am, ei>> : w \in {"exp", "nbf", "iat"}, x \in BadTimes \cup OddTimes, am \in BOOLEAN, ei \in BOOLEAN}
TimeTypeMake(a, p) ==
  Case("timetype", a, DefKs(a),
       CASE p[1] = "exp" -> [DefTok(a) EXCEPT !.pl.exp = p[2]]
         [] p[1] = "nbf" -> [DefTok(a) EXCEPT !.pl.nbf = p[2]]
         [] p[1] = "iat" -> [DefTok(a) EXCEPT !.pl.iat = p[2]],
       [DefV EXCEPT !.allowMissingExp = p[3], !.expectIat = p[4]], Now0)

\* ------------------------------------------------------------------ block: presence x expectation
StrVals == {Absent, Str("a"), Str("b"), Other("7")}
AudVals == {Absent, Str("a"), Str("b"), List(<<Str("a")>>), List(<<Str("b"), Str("a")>>), List(<<Str("b"), Str("c")>>),
            List(<<>>), List(<<Other("7")>>), List(<<Str("a"), Other("null")>>), Other("7"), Other("{}")}
Exps == {None, Expect("a"), Ignore}
PresenceParams == {<<ty, is, au, vt, vi, va>> : ty \in StrVals, is \in StrVals, au \in AudVals,
                                                vt \in Exps, vi \in Exps, va \in Exps}
PresenceMake(a, p) ==
  Case("presence", a, DefKs(a), [DefTok(a) EXCEPT !.hdr.typ = p[1], !.pl.iss = p[2], !.pl.aud = p[3]],
       [DefV EXCEPT !.typ = p[4], !.iss = p[5], !.aud = p[6]], Now0)

\* ------------------------------------------------------------------ block: string claims, custom claims
BadStrs == {Str("s"), Str(""), Other("7"), Other("null"), Other("true"), Other("[\"a\"]"), Other("{}"), Other("BADUTF8")}
CustomKinds ==
  << [n |-> "cs", kind |-> "string", j |-> "\"x y\""], [n |-> "cn", kind |-> "number", j |-> "1.5"],
     [n |-> "cb", kind |-> "bool", j |-> "true"],      [n |-> "cz", kind |-> "null", j |-> "null"],
     [n |-> "ca", kind |-> "array", j |-> "[1,\"a\",[2],{\"k\":null}]"],
     [n |-> "co", kind |-> "object", j |-> "{\"a\":{\"b\":[1,2]},\"c\":false}"] >>
CustomNames == {"cs", "cn", "cb", "cz", "ca", "co"}
StringsParams == {<<w, x, {}>> : w \in {"iss", "sub", "jti", "typ"}, x \in BadStrs}
                 \cup {<<"custom", Absent, S>> : S \in SUBSET CustomNames}
StringsMake(a, p) ==
  Case("strings", a, DefKs(a),
       CASE p[1] = "iss" -> [DefTok(a) EXCEPT !.pl.iss = p[2]]
         [] p[1] = "sub" -> [DefTok(a) EXCEPT !.pl.sub = p[2]]
         [] p[1] = "jti" -> [DefTok(a) EXCEPT !.pl.jti = p[2]]
         [] p[1] = "typ" -> [DefTok(a) EXCEPT !.hdr.typ = p[2]]
         [] p[1] = "custom" -> [DefTok(a) EXCEPT !.pl.custom = SelectSeq(CustomKinds, LAMBDA c : c.n \in p[3]),
                                                 !.pl.sub = Str("subj"), !.pl.jti = Str("id1")],
       IF p[1] = "custom" THEN DefV ELSE [DefV EXCEPT !.iss = Ignore, !.typ = Ignore], Now0)

\* ------------------------------------------------------------------ block: header x kid strategy
Strats2 == IF Full THEN Strats ELSE {"CUSTOM"}
\* <<strategy of key 1, strategy of key 2, material of key 2, order>>
KeysetShapes == {<<s1, s2, m2, "fwd">> : s1 \in Strats, s2 \in Strats2, m2 \in IF Full THEN {"m2", "m1"} ELSE {"m2"}}
                \cup (IF Full THEN {<<s1, "TINK", "m2", "rev">> : s1 \in Strats} ELSE {})
HdrKeyset(a, sh) ==
  LET k1 == Key(1, a, sh[1], "m1", "ENABLED")
      k2 == Key(2, Alg2(a), sh[2], sh[3], "ENABLED")
      k3 == Key(1, a, "IGNORED", "m3", "DISABLED")        \* would accept any kid - if it were enabled
  IN IF sh[4] = "fwd" THEN <<k1, k2, k3>> ELSE <<k3, k2, k1>>
\* <<whose material, which algorithm ("own" = key 1's, "other" = key 2's), mode>>
SignerShapes ==
  {<<"m1", "own", "good">>, <<"m2", "other", "good">>,
   <<"m3", "own", "good">>,           \* the disabled key
   <<"mX", "own", "good">>,           \* a key that is not in the keyset
   <<"m1", "other", "good">>,         \* key 1's material, the other algorithm
   <<"m1", "own", "flipped">>, <<"m1", "own", "garbage">>, <<"m1", "own", "empty">>,
   <<"m1", "own", "confusion">>}      \* HMAC under the public key octets (signature keysets only)
AlgShapes == IF Full THEN {"own", "other", "none", "lower", "cross", "absent", "number", "null"}
             ELSE {"own", "other", "none", "lower", "cross", "absent"}
AlgHdr(a, x) == CASE x = "own" -> Str(a) [] x = "other" -> Str(Alg2(a)) [] x = "none" -> Str("none")
                  [] x = "lower" -> Str(LowerAlg(a)) [] x = "cross" -> Str(CrossAlg(a))
                  [] x = "absent" -> Absent [] x = "number" -> Other("7") [] x = "null" -> Other("null")
KidHdrs == IF Full THEN {Absent, Str("AQIDBA"), Str("_____g"), Str("kidA"), Str("kidB"), Str("zzz"), Other("7"), Other("null")}
           ELSE {Absent, Str("AQIDBA"), Str("kidA"), Str("zzz"), Other("7")}
Crits == IF Full THEN {"list", "empty", "null"} ELSE {"list", "null"}
\* the full product without crit, plus crit in its three JSON shapes where everything else varies less
HeaderParams(a) ==
  LET sgs == {x \in SignerShapes : x[3] = "confusion" => a \notin JWSMacAlgs} IN
  {<<sh, sg, al, kd, "absent">> : sh \in KeysetShapes, sg \in sgs, al \in AlgShapes, kd \in KidHdrs}
  \cup {<<sh, sg, "own", kd, cr>> : sh \in KeysetShapes, sg \in {<<"m1", "own", "good">>, <<"m1", "own", "flipped">>},
                                    kd \in KidHdrs, cr \in Crits}
HeaderMake(a, p) ==
  Case("header", a, HdrKeyset(a, p[1]),
       [DefTok(a) EXCEPT !.signer = [mat |-> p[2][1], alg |-> IF p[2][2] = "own" THEN a ELSE Alg2(a), mode |-> p[2][3]],
                         !.hdr.alg = AlgHdr(a, p[3]), !.hdr.kid = p[4], !.hdr.crit = p[5]], DefV, Now0)

\* ------------------------------------------------------------------ block: key ids
\* Two TINK keys with key ids from the boundary set (id and its successor in the set): who signed x
\* which kid the header carries.  The kid a key stands for is base64url of exactly four octets.
IdSeq == SetToSeq(BoundaryIds)
NextId(id) == LET i == CHOOSE j \in 1..Len(IdSeq) : IdSeq[j] = id IN IdSeq[(i % Len(IdSeq)) + 1]
KeyIdParams == {<<id, m, kd>> : id \in BoundaryIds, m \in {"m1", "m2"}, kd \in {"own", "other", "absent"}}
KeyIdMake(a, p) ==
  LET id2 == NextId(p[1])
      kid == CASE p[3] = "own" -> Str(TinkKid(IF p[2] = "m1" THEN p[1] ELSE id2))
               [] p[3] = "other" -> Str(TinkKid(IF p[2] = "m1" THEN id2 ELSE p[1]))
               [] p[3] = "absent" -> Absent
  IN Case("keyid", a, <<TinkKey(p[1], a, "m1"), TinkKey(id2, a, "m2")>>,
          [DefTok(a) EXCEPT !.signer.mat = p[2], !.hdr.kid = kid], DefV, Now0)

\* ------------------------------------------------------------------ block: structure and base64
Structs == {"ok", "nodot", "onedot", "threedots", "fourparts", "leadingdot", "trailingdot", "space", "newline"}
EncVals == {"ok", "padded", "std", "badchar"}
\* a '~~~' member makes the base64url text of a part contain '-' (so that "std" really differs)
Tilde(t) == [t EXCEPT !.hdr.extra = TRUE, !.pl.custom = <<[n |-> "t", kind |-> "string", j |-> "\"~~~\""]>>]
StructParams == {<<st, eh, ep, es>> : st \in Structs, eh \in EncVals, ep \in EncVals, es \in EncVals}
StructMake(a, p) ==
  Case("struct", a, DefKs(a), [Tilde(DefTok(a)) EXCEPT !.struct = p[1], !.enc = [h |-> p[2], p |-> p[3], s |-> p[4]]],
       DefV, Now0)

\* ------------------------------------------------------------------ block: JSON shape
Jsons == {"object", "objectws", "array", "malformed", "trailing", "empty"}
JsonParams == {<<hj, pj, ex>> : hj \in Jsons, pj \in Jsons, ex \in BOOLEAN}
JsonMake(a, p) ==
  Case("json", a, DefKs(a), [DefTok(a) EXCEPT !.hdr.json = p[1], !.pl.json = p[2], !.hdr.extra = p[3]], DefV, Now0)

\* ------------------------------------------------------------------ sign cases (direction Tink -> specification)
\* Every RawJWTOptions combination: which registered claims are set, the two ways of giving an
\* audience, with / without expiration, the type header, custom claims of every JSON kind.  The
\* full product is signed with one MAC key; every algorithm x kid strategy signs a few of them.
SignNow == Now0
SignCustoms == IF Full THEN SUBSET CustomNames ELSE {{}, CustomNames, {"cs", "co"}}
SignOpts ==
  {[typ |-> ty, iss |-> is, sub |-> su, jti |-> jt, aud |-> au, exp |-> ex, nbf |-> nb, iat |-> ia,
    custom |-> SelectSeq(CustomKinds, LAMBDA c : c.n \in cs)] :
     ty \in {Absent, Str("JWT")}, is \in {Absent, Str("issuer")}, su \in {Absent, Str("subject")},
     jt \in {Absent, Str("id-1")}, au \in {Absent, Str("a"), List(<<Str("a")>>), List(<<Str("b"), Str("a")>>)},
     ex \in {Absent, Num(SignNow + 200)}, nb \in {Absent, Num(SignNow - 200)}, ia \in {Absent, Num(SignNow - 100)},
     cs \in SignCustoms}
FewOpts == {o \in SignOpts : /\ o.custom \in {<<>>, CustomKinds}
                             /\ \/ {o.typ.k, o.iss.k, o.sub.k, o.jti.k, o.aud.k, o.exp.k, o.nbf.k, o.iat.k} = {"absent"}
                                \/ "absent" \notin {o.typ.k, o.iss.k, o.sub.k, o.jti.k, o.aud.k, o.exp.k, o.nbf.k, o.iat.k}}
\* the validator under which the signed token must verify: it expects what the options set
SignValidator(o) ==
  [typ |-> IF o.typ.k = "str" THEN Expect(o.typ.v) ELSE None,
   iss |-> IF o.iss.k = "str" THEN Expect(o.iss.v) ELSE None,
   aud |-> IF o.aud.k = "absent" THEN None ELSE Expect("a"),
   allowMissingExp |-> o.exp.k = "absent", expectIat |-> o.iat.k # "absent", skew |-> 0]
SignKeysets(a) ==
  {<<Key(1, a, s, "m1", "ENABLED")>> : s \in Strats}
  \cup {<<Key(1, a, s, "m1", "ENABLED"), Key(2, Alg2(a), "TINK", "m2", "ENABLED"), Key(1, a, "IGNORED", "m3", "DISABLED")>> : s \in Strats}
\* one and two TINK keys with key ids from the boundary set (also the keysets of the JWK pipeline)
IdKeysets(a) == {<<TinkKey(id, a, "m1")>> : id \in BoundaryIds}
                \cup {<<TinkKey(id, a, "m1"), TinkKey(NextId(id), Alg2(a), "m2")>> : id \in {"00000001", "00abcdef", "fbefbeff"}}
IdOpts == {o \in FewOpts : o.custom = <<>> /\ o.aud.k \in {"absent", "list"}}
SignCase(a, ks, o) == [blk |-> "sign", fam |-> a, ks |-> ks, o |-> o, v |-> SignValidator(o), now |-> SignNow]
SignCases ==
  LET full == SetToSeq(SignOpts)
      few  == SetToSeq({<<a, ks, o>> : a \in JWSAlgs, ks \in UNION {SignKeysets(b) : b \in JWSAlgs}, o \in FewOpts})
      fewOk == SelectSeq(few, LAMBDA x : x[2] \in SignKeysets(x[1]))
      ids  == SetToSeq({<<a, ks, o>> : a \in JWSAlgs, ks \in UNION {IdKeysets(b) : b \in JWSAlgs}, o \in IdOpts})
      idsOk == SelectSeq(ids, LAMBDA x : x[2] \in IdKeysets(x[1]))
  IN [i \in 1..Len(full) |-> SignCase("HS256", DefKs("HS256"), full[i])]
     \o [i \in 1..Len(fewOk) |-> SignCase(fewOk[i][1], fewOk[i][2], fewOk[i][3])]
     \o [i \in 1..Len(idsOk) |-> SignCase(idsOk[i][1], idsOk[i][2], idsOk[i][3])]

\* ------------------------------------------------------------------ all cases
Params(blk, a) ==
  CASE blk = "time" -> TimeParams [] blk = "timefrac" -> TimeFracParams [] blk = "timetype" -> TimeTypeParams [] blk = "presence" -> PresenceParams
    [] blk = "strings" -> StringsParams [] blk = "header" -> HeaderParams(a) [] blk = "struct" -> StructParams
    [] blk = "json" -> JsonParams [] blk = "keyid" -> KeyIdParams
Make(blk, a, p, ctx) ==
  WithCtx(CASE blk = "time" -> TimeMake(a, p) [] blk = "timefrac" -> TimeFracMake(a, p)
            [] blk = "timetype" -> TimeTypeMake(a, p)
            [] blk = "presence" -> PresenceMake(a, p) [] blk = "strings" -> StringsMake(a, p)
            [] blk = "header" -> HeaderMake(a, p) [] blk = "struct" -> StructMake(a, p)
            [] blk = "json" -> JsonMake(a, p) [] blk = "keyid" -> KeyIdMake(a, p), ctx)

\* the cases of one (block, algorithm) as a sequence, in the order of the parameter tuples
PartCases(blk, a) ==
  LET ps == SetToSeq(Params(blk, a))
      xs == SetToSeq(Ctxs(blk))
  IN [i \in 1..(Len(ps) * Len(xs)) |-> Make(blk, a, ps[((i - 1) \div Len(xs)) + 1], xs[((i - 1) % Len(xs)) + 1])]

================================================================================
