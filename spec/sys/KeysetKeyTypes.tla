---------------------------- MODULE KeysetKeyTypes ----------------------------
(* C14, key level: the inventory of key types a keyset can carry, written as the    *)
(* proto messages are (path = field names from the .proto files; "a.value>b" looks   *)
(* into the serialized KeyData / KeyTemplate held in a; "@x" is a field of the       *)
(* enclosing KeyData), with                                                          *)
(*   - for every field its CLASS, which fixes the boundary values tried on it,       *)
(*   - the named base keys of each type (valid ones, and consistent keys of          *)
(*     below-minimum parameters the driver crafts itself),                           *)
(*   - KTSem: which fields carry the quantities the minimum-strength table of the    *)
(*     property talks about, and KTDescribe: from the field values OBSERVED in the   *)
(*     submitted message to the description KVBelowMinimum (KeysetValidate) judges.  *)
EXTENDS Integers, Sequences, FiniteSets

\* common.proto numbering
HashOfNumber(n)  == CASE n = 1 -> "SHA1" [] n = 2 -> "SHA384" [] n = 3 -> "SHA256" [] n = 4 -> "SHA512" [] n = 5 -> "SHA224"
                      [] n = 0 -> "UNKNOWN_HASH" [] OTHER -> "OOR"
CurveOfNumber(n) == CASE n = 2 -> "NIST_P256" [] n = 3 -> "NIST_P384" [] n = 4 -> "NIST_P521" [] n = 5 -> "CURVE25519"
                      [] n = 0 -> "UNKNOWN_CURVE" [] OTHER -> "OOR"

-----------------------------------------------------------------------------
(* Edits.  An edit is [path, op, v]; ops on integers: uint v / uintmax; on enums: enum v; on byte strings:   *)
(* len v (resize to v random-extended bytes), trunc v, cut v (drop leading), extend v, lead0 v (prepend      *)
(* zeros), inc (last bit flipped), zero, allff, garbage, empty, flip v (bit), sibling (the same field of an   *)
(* independent key of the same configuration: mismatched parts); on strings: str v; on anything: absent.      *)
Ed(op, v) == [op |-> op, v |-> v]
Lens(S) == {Ed("len", n) : n \in S}
Uints(S) == {Ed("uint", n) : n \in S}
Enums(S) == {Ed("enum", n) : n \in S}
BigInt == 2147483647

ClassEdits(c) ==
  CASE c = "version"  -> Uints({1, 2, BigInt}) \cup {Ed("uintmax", 0)}
    [] c = "aeskey"   -> Lens({0, 1, 15, 16, 17, 24, 31, 32, 33, 64})          \* key size -1 / +1 / 0, AES-192
    [] c = "key32"    -> Lens({0, 16, 31, 32, 33, 64})
    [] c = "sivkey"   -> Lens({0, 16, 31, 32, 33, 48, 63, 64, 65, 128})
    [] c = "hmackey"  -> Lens({0, 1, 15, 16, 17, 31, 32, 33, 47, 48, 63, 64, 65, 128})
    [] c = "hkdfkey"  -> Lens({0, 15, 16, 17, 31, 32, 33, 64})
    [] c = "ikm"      -> Lens({0, 15, 16, 17, 31, 32, 33})
    [] c = "tag"      -> Uints({0, 1, 9, 10, 11, 16, 20, 21, 28, 29, 32, 33, 48, 49, 64, 65, BigInt})
    [] c = "cmactag"  -> Uints({0, 9, 10, 16, 17, BigInt})
    [] c = "iv"       -> Uints({0, 11, 12, 13, 16, 17, BigInt})
    [] c = "xsalt"    -> Uints({0, 7, 8, 12, 13, BigInt})
    [] c = "keysize"  -> Uints({0, 15, 16, 17, 24, 32, 33, 64, BigInt})          \* a key SIZE field (formats, derived keys)
    [] c = "segment"  -> Uints({0, 1, 24, 40, 41, 56, 57, 4096, BigInt}) \cup {Ed("uintmax", 0)}
    [] c = "saltlen"  -> Uints({0 - 1, 0, 1, 20, 32, 33, 64, 222, 223, BigInt})
    [] c = "slhsize"  -> Uints({0 - 1, 0, 32, 64, 96, 128, 129})
    [] c = "hash"     -> Enums(0..6) \cup Enums({99})
    [] c = "curve"    -> Enums(0..6) \cup Enums({99})
    [] c = "enum2"    -> Enums(0..3) \cup Enums({99})
    [] c = "enum3"    -> Enums(0..4) \cup Enums({99})
    [] c = "enum4"    -> Enums(0..5) \cup Enums({99})
    [] c = "enum7"    -> Enums(0..8) \cup Enums({99})
    [] c = "enum8"    -> Enums(0..9) \cup Enums({99})
    [] c = "msg"      -> {Ed("absent", 0)}
    [] c = "saltbytes" -> Lens({0, 1, 32, 200}) \cup {Ed("absent", 0)}
    [] c = "point"    -> {Ed("trunc", 1), Ed("extend", 1), Ed("lead0", 1), Ed("lead0", 40), Ed("cut", 1), Ed("inc", 0), Ed("zero", 0),
                          Ed("allff", 0), Ed("garbage", 0), Ed("empty", 0), Ed("sibling", 0)}
    [] c = "scalar"   -> {Ed("trunc", 1), Ed("extend", 1), Ed("lead0", 1), Ed("cut", 1), Ed("inc", 0), Ed("zero", 0), Ed("allff", 0),
                          Ed("garbage", 0), Ed("empty", 0), Ed("sibling", 0)}
    [] c = "bigint"   -> {Ed("trunc", 1), Ed("lead0", 1), Ed("cut", 1), Ed("inc", 0), Ed("zero", 0), Ed("empty", 0), Ed("sibling", 0), Ed("garbage", 0)}
    \* an RSA public exponent: the bigint damage, and chosen values - small, even, just around and far above F4 = 65537
    [] c = "rsaexp"   -> {Ed("trunc", 1), Ed("lead0", 1), Ed("cut", 1), Ed("inc", 0), Ed("zero", 0), Ed("empty", 0), Ed("garbage", 0)}
                          \cup {Ed("setint", n) : n \in {1, 2, 3, 17, 257, 65535, 65536, 65539, 65541, BigInt}}
    [] c = "opaque"   -> {Ed("trunc", 1), Ed("extend", 1), Ed("flip", 0), Ed("flip", 77), Ed("garbage", 0), Ed("zero", 0), Ed("empty", 0), Ed("sibling", 0)}
    [] c = "string"   -> {Ed("str", 0), Ed("str", 1), Ed("str", 2), Ed("absent", 0)}
    [] c = "url"      -> {Ed("str", 0), Ed("str", 3), Ed("str", 4), Ed("str", 5)}
\* classes of the fields the minimum-strength table talks about: their edits are tried on EVERY base key in both tiers
\* (each such edit leaves the rest of the key as it was: a declaration below the minimum over material that would work)
StrengthClasses == {"aeskey", "sivkey", "hmackey", "hkdfkey", "tag", "keysize", "hash", "curve", "rsaexp"}
\* classes whose values interact in the minimum-strength table: combined pairwise in the thorough tier
SizeClasses == {"aeskey", "sivkey", "hmackey", "hkdfkey", "ikm", "tag", "cmactag", "iv", "keysize", "hash", "curve", "enum2"}

\* edits of the enclosing KeyData, for every type: wrong material type, another / unknown type URL, damaged value
KeyDataEdits ==
  {[path |-> "@key_material_type", op |-> "enum", v |-> n] : n \in {0, 1, 2, 3, 4, 5, 99}}
  \cup {[path |-> "@type_url", op |-> "str", v |-> n] : n \in {0, 3, 4, 5}}
  \cup {[path |-> "@value", op |-> o.op, v |-> o.v] : o \in {Ed("trunc", 1), Ed("trunc", 2), Ed("cut", 1), Ed("extend", 1), Ed("extend", 9),
                                                            Ed("flip", 0), Ed("flip", 3), Ed("flip", 13), Ed("flip", 100), Ed("garbage", 0),
                                                            Ed("zero", 0), Ed("allff", 0), Ed("empty", 0)}}

-----------------------------------------------------------------------------
(* The inventory.  F(path, class) applies to every base of the type; FB to the named bases only. *)
F(p, c) == <<p, c, {}>>
FB(p, c, bases) == <<p, c, bases>>

\* fields of the public part, relative to prefix pre ("" for the public key type, "public_key." inside the private key)
EcdsaPub(pre)  == {F(pre \o "version", "version"), F(pre \o "params", "msg"), F(pre \o "params.hash_type", "hash"),
                   F(pre \o "params.curve", "curve"), F(pre \o "params.encoding", "enum2"), F(pre \o "x", "point"), F(pre \o "y", "point")}
EdPub(pre)     == {F(pre \o "version", "version"), F(pre \o "key_value", "opaque")}
RsaPkcs1Pub(pre) == {F(pre \o "version", "version"), F(pre \o "params", "msg"), F(pre \o "params.hash_type", "hash"),
                     F(pre \o "n", "bigint"), F(pre \o "e", "rsaexp")}
RsaPssPub(pre) == {F(pre \o "version", "version"), F(pre \o "params", "msg"), F(pre \o "params.sig_hash", "hash"),
                   F(pre \o "params.mgf1_hash", "hash"), F(pre \o "params.salt_length", "saltlen"), F(pre \o "n", "bigint"), F(pre \o "e", "rsaexp")}
RsaPriv        == {F("version", "version"), F("public_key", "msg"), F("d", "bigint"), F("p", "bigint"), F("q", "bigint"),
                   F("dp", "bigint"), F("dq", "bigint"), F("crt", "bigint")}
MlDsaPub(pre)  == {F(pre \o "version", "version"), F(pre \o "key_value", "opaque"), F(pre \o "params", "msg"), F(pre \o "params.ml_dsa_instance", "enum3")}
SlhDsaPub(pre) == {F(pre \o "version", "version"), F(pre \o "key_value", "opaque"), F(pre \o "params", "msg"), F(pre \o "params.key_size", "slhsize"),
                   F(pre \o "params.hash_type", "enum2"), F(pre \o "params.sig_type", "enum2")}
HpkePub(pre)   == {F(pre \o "version", "version"), F(pre \o "params", "msg"), F(pre \o "params.kem", "enum7"), F(pre \o "params.kdf", "enum3"),
                   F(pre \o "params.aead", "enum3"), F(pre \o "public_key", "point")}
EciesGcm == {"ECIES_P256_AES128_GCM", "ECIES_P384_AES256_GCM", "ECIES_P521_AES256_GCM", "ECIES_X25519_AES256_GCM"}
EciesCtr == {"ECIES_P256_AES128_CTR_HMAC_SHA256"}
EciesPub(pre)  == {F(pre \o "version", "version"), F(pre \o "params", "msg"), F(pre \o "params.kem_params", "msg"),
                   F(pre \o "params.kem_params.curve_type", "curve"), F(pre \o "params.kem_params.hkdf_hash_type", "hash"),
                   F(pre \o "params.kem_params.hkdf_salt", "saltbytes"), F(pre \o "params.dem_params", "msg"),
                   F(pre \o "params.dem_params.aead_dem", "msg"), F(pre \o "params.dem_params.aead_dem.type_url", "url"),
                   F(pre \o "params.dem_params.aead_dem.value", "opaque"), F(pre \o "params.dem_params.aead_dem.output_prefix_type", "enum4"),
                   FB(pre \o "params.dem_params.aead_dem.value>key_size", "keysize", EciesGcm),
                   FB(pre \o "params.dem_params.aead_dem.value>aes_ctr_key_format.key_size", "keysize", EciesCtr),
                   FB(pre \o "params.dem_params.aead_dem.value>aes_ctr_key_format.params.iv_size", "iv", EciesCtr),
                   FB(pre \o "params.dem_params.aead_dem.value>hmac_key_format.key_size", "keysize", EciesCtr),
                   FB(pre \o "params.dem_params.aead_dem.value>hmac_key_format.params.tag_size", "tag", EciesCtr),
                   FB(pre \o "params.dem_params.aead_dem.value>hmac_key_format.params.hash", "hash", EciesCtr),
                   F(pre \o "params.ec_point_format", "enum3"), F(pre \o "x", "point"), F(pre \o "y", "point")}
CompEd == {"COMPOSITE_MLDSA65_ED25519"}
CompEc == {"COMPOSITE_MLDSA65_ECDSA_P256", "COMPOSITE_MLDSA87_ECDSA_P384", "COMPOSITE_MLDSA87_ECDSA_P521"}
\* composite ML-DSA: two nested KeyData (ML-DSA part, classical part); h = "private" / "public"
Composite(h) ==
  LET ml == "ml_dsa_" \o h \o "_key"   cl == "classical_" \o h \o "_key"
      pk == IF h = "private" THEN "public_key." ELSE "" IN
  {F("version", "version"), F("params", "msg"), F("params.ml_dsa_instance", "enum3"), F("params.classical_algorithm", "enum8"),
   F(ml, "msg"), F(ml \o ".type_url", "url"), F(ml \o ".key_material_type", "enum4"), F(ml \o ".value", "opaque"),
   F(ml \o ".value>version", "version"), F(ml \o ".value>key_value", "opaque"), F(ml \o ".value>" \o pk \o "params.ml_dsa_instance", "enum3"),
   F(cl, "msg"), F(cl \o ".type_url", "url"), F(cl \o ".key_material_type", "enum4"), F(cl \o ".value", "opaque"),
   F(cl \o ".value>version", "version"),
   FB(cl \o ".value>key_value", "opaque", IF h = "private" THEN CompEd \cup CompEc ELSE CompEd),
   FB(cl \o ".value>" \o pk \o "params.curve", "curve", CompEc), FB(cl \o ".value>" \o pk \o "params.hash_type", "hash", CompEc),
   FB(cl \o ".value>" \o pk \o "x", "point", CompEc)}
  \cup (IF h = "private" THEN {F(ml \o ".value>public_key.key_value", "opaque"), F(cl \o ".value>public_key", "msg")} ELSE {})
JwtEcdsaPub(pre) == {F(pre \o "version", "version"), F(pre \o "algorithm", "enum3"), F(pre \o "x", "point"), F(pre \o "y", "point"),
                     F(pre \o "custom_kid.value", "string")}
JwtRsaPub(pre) == {F(pre \o "version", "version"), F(pre \o "algorithm", "enum3"), F(pre \o "n", "bigint"), F(pre \o "e", "rsaexp"),
                   F(pre \o "custom_kid.value", "string")}
JwtMlDsaPub(pre) == {F(pre \o "version", "version"), F(pre \o "algorithm", "enum3"), F(pre \o "key_value", "opaque"), F(pre \o "custom_kid.value", "string")}

KTFields(t) ==
  CASE t = "AesGcmKey"    -> {F("version", "version"), F("key_value", "aeskey")}
    [] t = "AesGcmSivKey" -> {F("version", "version"), F("key_value", "aeskey")}
    [] t = "AesCtrHmacAeadKey" ->
         {F("version", "version"), F("aes_ctr_key", "msg"), F("aes_ctr_key.version", "version"), F("aes_ctr_key.params", "msg"),
          F("aes_ctr_key.params.iv_size", "iv"), F("aes_ctr_key.key_value", "aeskey"), F("hmac_key", "msg"), F("hmac_key.version", "version"),
          F("hmac_key.params", "msg"), F("hmac_key.params.hash", "hash"), F("hmac_key.params.tag_size", "tag"), F("hmac_key.key_value", "hmackey")}
    [] t = "ChaCha20Poly1305Key"  -> {F("version", "version"), F("key_value", "key32")}
    [] t = "XChaCha20Poly1305Key" -> {F("version", "version"), F("key_value", "key32")}
    [] t = "XAesGcmKey" -> {F("version", "version"), F("params", "msg"), F("params.salt_size", "xsalt"), F("key_value", "key32")}
    [] t = "AesSivKey"  -> {F("version", "version"), F("key_value", "sivkey")}
    [] t = "HmacKey"    -> {F("version", "version"), F("params", "msg"), F("params.hash", "hash"), F("params.tag_size", "tag"), F("key_value", "hmackey")}
    [] t = "AesCmacKey" -> {F("version", "version"), F("params", "msg"), F("params.tag_size", "cmactag"), F("key_value", "aeskey")}
    [] t = "HmacPrfKey" -> {F("version", "version"), F("params", "msg"), F("params.hash", "hash"), F("key_value", "hmackey")}
    [] t = "HkdfPrfKey" -> {F("version", "version"), F("params", "msg"), F("params.hash", "hash"), F("params.salt", "saltbytes"), F("key_value", "hkdfkey")}
    [] t = "AesCmacPrfKey" -> {F("version", "version"), F("key_value", "aeskey")}
    [] t = "AesGcmHkdfStreamingKey" ->
         {F("version", "version"), F("params", "msg"), F("params.ciphertext_segment_size", "segment"), F("params.derived_key_size", "keysize"),
          F("params.hkdf_hash_type", "hash"), F("key_value", "ikm")}
    [] t = "AesCtrHmacStreamingKey" ->
         {F("version", "version"), F("params", "msg"), F("params.ciphertext_segment_size", "segment"), F("params.derived_key_size", "keysize"),
          F("params.hkdf_hash_type", "hash"), F("params.hmac_params", "msg"), F("params.hmac_params.hash", "hash"),
          F("params.hmac_params.tag_size", "tag"), F("key_value", "ikm")}
    [] t = "JwtHmacKey" -> {F("version", "version"), F("algorithm", "enum3"), F("key_value", "hmackey"), F("custom_kid.value", "string")}
    [] t = "PrfBasedDeriverKey" ->
         {F("version", "version"), F("prf_key", "msg"), F("prf_key.type_url", "url"), F("prf_key.key_material_type", "enum4"),
          F("prf_key.value", "opaque"), F("prf_key.value>version", "version"), F("prf_key.value>key_value", "hkdfkey"),
          F("prf_key.value>params.hash", "hash"), F("params", "msg"), F("params.derived_key_template", "msg"),
          F("params.derived_key_template.type_url", "url"), F("params.derived_key_template.output_prefix_type", "enum4"),
          F("params.derived_key_template.value", "opaque"),
          FB("params.derived_key_template.value>key_size", "keysize", {"HKDF_SHA256_DERIVES_AES128_GCM"}),
          FB("params.derived_key_template.value>params.tag_size", "tag", {"HKDF_SHA256_DERIVES_HMAC_SHA256"})}
    [] t = "EcdsaPublicKey"  -> EcdsaPub("")
    [] t = "EcdsaPrivateKey" -> {F("version", "version"), F("public_key", "msg"), F("key_value", "scalar")} \cup EcdsaPub("public_key.")
    [] t = "Ed25519PublicKey"  -> EdPub("")
    [] t = "Ed25519PrivateKey" -> {F("version", "version"), F("public_key", "msg"), F("key_value", "opaque")} \cup EdPub("public_key.")
    [] t = "RsaSsaPkcs1PublicKey"  -> RsaPkcs1Pub("")
    [] t = "RsaSsaPkcs1PrivateKey" -> RsaPriv \cup RsaPkcs1Pub("public_key.")
    [] t = "RsaSsaPssPublicKey"  -> RsaPssPub("")
    [] t = "RsaSsaPssPrivateKey" -> RsaPriv \cup RsaPssPub("public_key.")
    [] t = "MlDsaPublicKey"  -> MlDsaPub("")
    [] t = "MlDsaPrivateKey" -> {F("version", "version"), F("public_key", "msg"), F("key_value", "opaque")} \cup MlDsaPub("public_key.")
    [] t = "SlhDsaPublicKey"  -> SlhDsaPub("")
    [] t = "SlhDsaPrivateKey" -> {F("version", "version"), F("public_key", "msg"), F("key_value", "opaque")} \cup SlhDsaPub("public_key.")
    [] t = "CompositeMlDsaPublicKey"  -> Composite("public")
    [] t = "CompositeMlDsaPrivateKey" -> Composite("private")
    [] t = "HpkePublicKey"  -> HpkePub("")
    [] t = "HpkePrivateKey" -> {F("version", "version"), F("public_key", "msg"), F("private_key", "scalar")} \cup HpkePub("public_key.")
    [] t = "EciesAeadHkdfPublicKey"  -> EciesPub("")
    [] t = "EciesAeadHkdfPrivateKey" -> {F("version", "version"), F("public_key", "msg"), F("key_value", "scalar")} \cup EciesPub("public_key.")
    [] t = "JwtEcdsaPublicKey"  -> JwtEcdsaPub("")
    [] t = "JwtEcdsaPrivateKey" -> {F("version", "version"), F("public_key", "msg"), F("key_value", "scalar")} \cup JwtEcdsaPub("public_key.")
    [] t = "JwtRsaSsaPkcs1PublicKey"  -> JwtRsaPub("")
    [] t = "JwtRsaSsaPkcs1PrivateKey" -> RsaPriv \cup JwtRsaPub("public_key.")
    [] t = "JwtRsaSsaPssPublicKey"  -> JwtRsaPub("")
    [] t = "JwtRsaSsaPssPrivateKey" -> RsaPriv \cup JwtRsaPub("public_key.")
    [] t = "JwtMlDsaPublicKey"  -> JwtMlDsaPub("")
    [] t = "JwtMlDsaPrivateKey" -> {F("version", "version"), F("public_key", "msg"), F("key_value", "opaque")} \cup JwtMlDsaPub("public_key.")

\* named base keys: the first is the representative used by the quick tier for field edits
EcdsaBases == <<"P256_SHA256_DER", "P384_SHA512_P1363", "P384_SHA384_DER", "P521_SHA512_DER", "P256_SHA512_P1363",
                "P384_SHA256_DER", "P521_SHA256_P1363", "P521_SHA384_DER", "P256_SHA1_DER", "P256_SHA224_DER">>      \* last five: hash weaker than curve / SHA-1 / SHA-224
\* after the first: consistent keys GENERATED with a small modulus / with another exponent (they work if the declaration is honoured);
\* the rsaexp edits on RSA2048_F4 give the other kind: a declared exponent over material that matches 65537
RsaBases == <<"RSA2048_F4", "RSA1024_F4", "RSA2047_F4", "RSA2048_E3", "RSA2048_E17", "RSA2048_E65539", "RSA2048_EMAX">>
HpkeBases == <<"HPKE_X25519_SHA256_AES128GCM", "HPKE_P256_SHA256_AES256GCM", "HPKE_X25519_SHA256_CHACHA20", "HPKE_P384_SHA384_AES256GCM",
               "HPKE_P521_SHA512_AES256GCM", "HPKE_XWING_SHA256_AES256GCM", "HPKE_MLKEM768_SHA256_AES256GCM",
               "HPKE_MLKEM1024_SHA384_AES256GCM">>      \* all seven KEMs: each has its own private/public validation path
KTBases(t) ==
  CASE t = "AesGcmKey" -> <<"AES128_GCM", "AES256_GCM">>
    [] t = "AesGcmSivKey" -> <<"AES128_GCM_SIV", "AES256_GCM_SIV">>
    [] t = "AesCtrHmacAeadKey" -> <<"AES128_CTR_HMAC_SHA256", "AES256_CTR_HMAC_SHA256">>
    [] t = "ChaCha20Poly1305Key" -> <<"CHACHA20_POLY1305">>
    [] t = "XChaCha20Poly1305Key" -> <<"XCHACHA20_POLY1305">>
    [] t = "XAesGcmKey" -> <<"XAES_256_GCM_192_BIT_NONCE", "XAES_256_GCM_160_BIT_NONCE">>
    [] t = "AesSivKey" -> <<"AES256_SIV">>
    [] t = "HmacKey" -> <<"HMAC_SHA256_128BITTAG", "HMAC_SHA512_512BITTAG">>
    [] t = "AesCmacKey" -> <<"AES_CMAC">>
    [] t = "HmacPrfKey" -> <<"HMAC_SHA256_PRF", "HMAC_SHA512_PRF">>
    [] t = "HkdfPrfKey" -> <<"HKDF_SHA256">>
    [] t = "AesCmacPrfKey" -> <<"AES_CMAC_PRF">>
    [] t = "AesGcmHkdfStreamingKey" -> <<"AES128_GCM_HKDF_4KB", "AES256_GCM_HKDF_4KB">>
    [] t = "AesCtrHmacStreamingKey" -> <<"AES128_CTR_HMAC_SHA256_4KB", "AES256_CTR_HMAC_SHA256_4KB">>
    [] t = "JwtHmacKey" -> <<"JWT_HS256", "JWT_HS512">>
    [] t = "PrfBasedDeriverKey" -> <<"HKDF_SHA256_DERIVES_AES128_GCM", "HKDF_SHA256_DERIVES_HMAC_SHA256">>
    [] t \in {"EcdsaPublicKey", "EcdsaPrivateKey"} -> EcdsaBases
    [] t \in {"Ed25519PublicKey", "Ed25519PrivateKey"} -> <<"ED25519">>
    [] t \in {"RsaSsaPkcs1PublicKey", "RsaSsaPkcs1PrivateKey", "RsaSsaPssPublicKey", "RsaSsaPssPrivateKey",
              "JwtRsaSsaPkcs1PublicKey", "JwtRsaSsaPkcs1PrivateKey", "JwtRsaSsaPssPublicKey", "JwtRsaSsaPssPrivateKey"} -> RsaBases
    [] t \in {"MlDsaPublicKey", "MlDsaPrivateKey"} -> <<"ML_DSA_65", "ML_DSA_87", "ML_DSA_44">>
    [] t \in {"SlhDsaPublicKey", "SlhDsaPrivateKey"} -> <<"SLH_DSA_SHA2_128F", "SLH_DSA_SHA2_128S", "SLH_DSA_SHAKE_192F">>
    [] t \in {"CompositeMlDsaPublicKey", "CompositeMlDsaPrivateKey"} -> <<"COMPOSITE_MLDSA65_ED25519", "COMPOSITE_MLDSA65_ECDSA_P256", "COMPOSITE_MLDSA87_ECDSA_P384",
                                                                          "COMPOSITE_MLDSA87_ECDSA_P521">>
    [] t \in {"HpkePublicKey", "HpkePrivateKey"} -> HpkeBases
    [] t \in {"EciesAeadHkdfPublicKey", "EciesAeadHkdfPrivateKey"} -> <<"ECIES_P256_AES128_GCM", "ECIES_P256_AES128_CTR_HMAC_SHA256", "ECIES_P384_AES256_GCM",
                                                                       "ECIES_P521_AES256_GCM", "ECIES_X25519_AES256_GCM">>
    [] t \in {"JwtEcdsaPublicKey", "JwtEcdsaPrivateKey"} -> <<"JWT_ES256", "JWT_ES384", "JWT_ES512">>
    [] t \in {"JwtMlDsaPublicKey", "JwtMlDsaPrivateKey"} -> <<"JWT_ML_DSA_65", "JWT_ML_DSA_44", "JWT_ML_DSA_87">>

KTTypes == {"AesGcmKey", "AesGcmSivKey", "AesCtrHmacAeadKey", "ChaCha20Poly1305Key", "XChaCha20Poly1305Key", "XAesGcmKey", "AesSivKey",
            "HmacKey", "AesCmacKey", "HmacPrfKey", "HkdfPrfKey", "AesCmacPrfKey", "AesGcmHkdfStreamingKey", "AesCtrHmacStreamingKey",
            "JwtHmacKey", "PrfBasedDeriverKey",
            "EcdsaPublicKey", "EcdsaPrivateKey", "Ed25519PublicKey", "Ed25519PrivateKey", "RsaSsaPkcs1PublicKey", "RsaSsaPkcs1PrivateKey",
            "RsaSsaPssPublicKey", "RsaSsaPssPrivateKey", "MlDsaPublicKey", "MlDsaPrivateKey", "SlhDsaPublicKey", "SlhDsaPrivateKey",
            "CompositeMlDsaPublicKey", "CompositeMlDsaPrivateKey", "HpkePublicKey", "HpkePrivateKey", "EciesAeadHkdfPublicKey", "EciesAeadHkdfPrivateKey",
            "JwtEcdsaPublicKey", "JwtEcdsaPrivateKey", "JwtRsaSsaPkcs1PublicKey", "JwtRsaSsaPkcs1PrivateKey",
            "JwtRsaSsaPssPublicKey", "JwtRsaSsaPssPrivateKey", "JwtMlDsaPublicKey", "JwtMlDsaPrivateKey"}

(* Mismatched halves.  For every asymmetric PRIVATE key type: the fields that make up its public part and the  *)
(* fields that make up its private part (base-dependent where the nested key differs).  Replacing ALL fields   *)
(* of one part by those of ANOTHER valid key of the same configuration gives a key whose halves are each valid *)
(* but do not belong together; every base (KEM, curve, instance, modulus) has its own validation path.         *)
RsaSecret == {"d", "p", "q", "dp", "dq", "crt"}
KTParts(t, b) ==
  CASE t \in {"EcdsaPrivateKey", "EciesAeadHkdfPrivateKey", "JwtEcdsaPrivateKey"} ->
         [pub |-> {{"public_key.x", "public_key.y"}, {"public_key.x"}, {"public_key.y"}}, priv |-> {{"key_value"}}]
    [] t \in {"Ed25519PrivateKey", "MlDsaPrivateKey", "SlhDsaPrivateKey", "JwtMlDsaPrivateKey"} ->
         [pub |-> {{"public_key.key_value"}}, priv |-> {{"key_value"}}]
    [] t \in {"RsaSsaPkcs1PrivateKey", "RsaSsaPssPrivateKey", "JwtRsaSsaPkcs1PrivateKey", "JwtRsaSsaPssPrivateKey"} ->
         [pub |-> {{"public_key.n"}, {"public_key.n", "public_key.e"}}, priv |-> {RsaSecret, {"d"}, {"p", "q"}, {"dp", "dq", "crt"}}]
    [] t = "HpkePrivateKey" -> [pub |-> {{"public_key.public_key"}}, priv |-> {{"private_key"}}]
    [] t = "CompositeMlDsaPrivateKey" ->
         [pub |-> {{"ml_dsa_private_key.value>public_key.key_value"}}
                  \cup (IF b \in CompEd THEN {{"classical_private_key.value>public_key.key_value"}}
                        ELSE {{"classical_private_key.value>public_key.x", "classical_private_key.value>public_key.y"}}),
          priv |-> {{"ml_dsa_private_key.value>key_value"}, {"classical_private_key.value>key_value"}}]
    [] OTHER -> [pub |-> {}, priv |-> {}]
KTPrivateTypes == {t \in KTTypes : KTParts(t, KTBases(t)[1]).pub # {}}

\* PRF keys exist only without output prefix; JWT public keys are tried RAW so that a token without "kid" is genuine
KTPrefix(t) == IF t \in {"HmacPrfKey", "HkdfPrfKey", "AesCmacPrfKey", "JwtRsaSsaPkcs1PublicKey", "JwtRsaSsaPssPublicKey"} THEN "RAW" ELSE "TINK"

-----------------------------------------------------------------------------
(* Meaning of the observed field values.  A row <<quantity, path, conversion, guardPath, guardValue>> says:    *)
(* the quantity is the value at path (bytes fields: their LENGTH; "#bits": bit length of the big-endian         *)
(* integer; "#hex": hex of the integer).  Rows about a serialized inner message (holder.value>field) apply      *)
(* when the holder's type URL is guardValue and its value parses as that message.                               *)
S(q, p, conv) == <<q, p, conv, "", "">>
SG(q, holder, field, conv, gv) == <<q, holder \o ".value>" \o field, conv, holder, gv>>
RsaSem(pre) == {S("modulusBits", pre \o "n#bits", "int"), S("e", pre \o "e#hex", "hex")}
EciesSem(pre) ==
  LET dem == pre \o "params.dem_params.aead_dem" IN
  {SG("aesKeySize", dem, "key_size", "int", "AesGcmKey"),
   SG("sivKeySize", dem, "key_size", "int", "AesSivKey"),
   SG("aesKeySize", dem, "aes_ctr_key_format.key_size", "int", "AesCtrHmacAeadKey"),
   SG("hmacKeySize", dem, "hmac_key_format.key_size", "int", "AesCtrHmacAeadKey"),
   SG("hmacTagSize", dem, "hmac_key_format.params.tag_size", "int", "AesCtrHmacAeadKey")}
KTSem(t) ==
  CASE t \in {"AesGcmKey", "AesGcmSivKey", "AesCmacKey", "AesCmacPrfKey"} -> {S("aesKeySize", "key_value", "int")}
    [] t = "AesSivKey" -> {S("sivKeySize", "key_value", "int")}
    [] t = "AesCtrHmacAeadKey" -> {S("aesKeySize", "aes_ctr_key.key_value", "int"), S("hmacKeySize", "hmac_key.key_value", "int"),
                                   S("hmacTagSize", "hmac_key.params.tag_size", "int")}
    [] t = "HmacKey" -> {S("hmacKeySize", "key_value", "int"), S("hmacTagSize", "params.tag_size", "int")}
    [] t \in {"HmacPrfKey", "JwtHmacKey"} -> {S("hmacKeySize", "key_value", "int")}
    [] t = "HkdfPrfKey" -> {S("hkdfKeySize", "key_value", "int")}
    [] t = "AesGcmHkdfStreamingKey" -> {S("aesKeySize", "params.derived_key_size", "int")}
    [] t = "AesCtrHmacStreamingKey" -> {S("aesKeySize", "params.derived_key_size", "int"), S("hmacTagSize", "params.hmac_params.tag_size", "int")}
    [] t = "PrfBasedDeriverKey" -> {SG("hkdfKeySize", "prf_key", "key_value", "int", "HkdfPrfKey"),
                                    SG("hmacKeySize", "prf_key", "key_value", "int", "HmacPrfKey"),
                                    SG("aesKeySize", "prf_key", "key_value", "int", "AesCmacPrfKey")}
    [] t = "EcdsaPublicKey"  -> {S("ecdsaCurve", "params.curve", "curve"), S("ecdsaHash", "params.hash_type", "hash")}
    [] t = "EcdsaPrivateKey" -> {S("ecdsaCurve", "public_key.params.curve", "curve"), S("ecdsaHash", "public_key.params.hash_type", "hash")}
    [] t \in {"RsaSsaPkcs1PublicKey", "RsaSsaPssPublicKey", "JwtRsaSsaPkcs1PublicKey", "JwtRsaSsaPssPublicKey"} -> RsaSem("")
    [] t \in {"RsaSsaPkcs1PrivateKey", "RsaSsaPssPrivateKey", "JwtRsaSsaPkcs1PrivateKey", "JwtRsaSsaPssPrivateKey"} -> RsaSem("public_key.")
    [] t = "EciesAeadHkdfPublicKey"  -> EciesSem("")
    [] t = "EciesAeadHkdfPrivateKey" -> EciesSem("public_key.")
    [] OTHER -> {}

ObsInt(o, p) == IF p \in DOMAIN o THEN o[p] ELSE 0          \* an absent field has the proto default
ObsStr(o, p) == IF p \in DOMAIN o THEN o[p] ELSE ""
Conv(c, o, p) == CASE c = "int" -> ObsInt(o, p) [] c = "hash" -> HashOfNumber(ObsInt(o, p)) [] c = "curve" -> CurveOfNumber(ObsInt(o, p))
                   [] c = "hex" -> ObsStr(o, p)

\* obs: what the submitted KeyData carried ("@type": its type URL, "@parsed": its value parses as that message)
KTDescribe(o) ==
  LET t == o["@type"]
      rows == IF o["@parsed"] = 1
              THEN {r \in KTSem(t) : r[4] = "" \/ (ObsStr(o, r[4] \o ".type_url#str") = r[5] /\ ObsInt(o, r[4] \o ".value>@parsed") = 1)}
              ELSE {}
  IN [q \in {r[1] : r \in rows} \cup {"type"} |->
        IF q = "type" THEN t ELSE LET r == CHOOSE r \in rows : r[1] = q IN Conv(r[3], o, r[2])]
===============================================================================
