-------------------------------- MODULE Freshness --------------------------------
(* C20: randomized operations draw fresh, full-length randomness on every call.      *)
(*                                                                                    *)
(* The history of ONE key (all ciphertexts / signatures / generated keys / key ids     *)
(* produced under it, by any number of primitive instances, handles and processes) is  *)
(* observed through a MONITOR.  Each call emits a tuple of FIELDS (the random regions   *)
(* of its output, cut out by the wire-format offsets of spec/sys/RandomFields.tla).     *)
(* A field is described by                                                              *)
(*     [name, len (0 = variable), uniform, strict]                                      *)
(*   uniform : every byte of it is claimed uniformly distributed (IV, nonce, salt,      *)
(*             nonce prefix, key id) - enables the bit / byte-position monitors;         *)
(*   strict  : a repetition is impossible by construction (key ids of one manager),      *)
(*             not merely improbable - the repeat budget is 0 whatever the length.       *)
(* and monitored by                                                                     *)
(*     seen  : the set of values emitted so far (hex strings)                           *)
(*     reps  : the number of emissions whose value had been seen before                 *)
(*     vals  : per byte position, the set of byte values seen (uniform fields)          *)
(* all updated INCREMENTALLY by Emit.  (The per-bit zero/one flags of DESIGN.md are     *)
(* derived from vals: bit j of byte i was seen as 1 iff some value in vals[i] has it.)  *)
(*                                                                                    *)
(* NoRepeat is an ordinary safety invariant over the history.  The uniformity claim is  *)
(* distributional: the specification states NECESSARY conditions, evaluated when the    *)
(* history of the key ends (EndVerdict), with thresholds a truly uniform source misses  *)
(* with probability < 2^-40 per run (calculations below).  A bias that still toggles    *)
(* every bit and shows (nearly) all 256 values in every byte position is not detected.   *)
EXTENDS Integers, Sequences, FiniteSets, Bytes, TLC

(* ------------------------------------------------------------------ thresholds ---- *)
(* A run monitors < 2^9 fields, < 2^13 emissions each, < 2^13 uniform byte positions.    *)
(*                                                                                    *)
(* Repeats.  n independent uniform b-bit draws.  For k fixed positions j1<..<jk,         *)
(* P(each equals an earlier draw) <= prod (j_i - 1)/2^b <= (n/2^b)^k, and there are      *)
(* C(n,k) <= n^k/k! choices, so  P(reps >= k) <= (n^2/2^b)^k / k! <= 2^(-k(b - 2L))      *)
(* with L = ceil(log2 n).  RepeatBudget(n, b) = k-1 for the least k with                 *)
(* k(b - 2L) >= 72:  P(reps > budget) <= 2^-72 per field and history length, hence       *)
(* <= 2^-72 * 2^13 * 2^9 = 2^-50 per run.  E.g. a 12-byte IV (b = 96) never repeats      *)
(* within 4096 calls (budget 0); an 8-byte X-AES salt may repeat once, a 7-byte          *)
(* streaming nonce prefix twice; the 4096 key ids drawn by DIFFERENT managers (b = 32)   *)
(* may coincide 8 times (the ids of ONE manager never: strict).  A fixed value, a         *)
(* counter restarted per instance/process or a constant-seeded generator repeat           *)
(* hundreds of times.                                                                     *)
Log2Ceil(n) == CHOOSE L \in 0..30 : 2^L >= n /\ (L = 0 \/ 2^(L - 1) < n)
Slack == 72
RepeatBudget(n, bits) ==
  LET d == bits - 2 * Log2Ceil(n)
  IN IF d >= Slack THEN 0
     ELSE IF d <= 0 THEN n                               \* no statement possible
     ELSE ((Slack + d - 1) \div d) - 1

(* Bits.  A uniform bit is constant over n draws with probability 2^(1-n); uniform       *)
(* fields are judged only on histories of n >= MinEvents = 64 calls: 2^-63 per bit,      *)
(* < 2^-47 over 2^16 bits.                                                               *)
MinEvents == 64

(* Byte positions.  D = number of distinct values among n uniform bytes (occupancy):     *)
(* P(D = d) follows the exact recurrence p_{n+1}(d) = p_n(d) d/256 + p_n(d-1)(257-d)/256. *)
(* MinDistinct(n) is the largest t with P(D < t) < 2^-60 (computed from the recurrence    *)
(* in double precision, all terms positive):                                             *)
(*     n      64   128   256   512  1024  2048  4096  8192                               *)
(*   E[D]   56.7 100.9 162.0 221.5 251.3 255.9 256.0 256.0                               *)
(*     t      33    67   118   179   226   246   253   255    P(D<t) <= 2^-61.5          *)
(* D is stochastically increasing in n, so the entry of the largest tabulated n' <= n     *)
(* is valid for n.  Over 2^13 positions: < 2^-47 per run.                                 *)
MinDistinct(n) ==
  IF n >= 8192 THEN 255 ELSE IF n >= 4096 THEN 253 ELSE IF n >= 2048 THEN 246
  ELSE IF n >= 1024 THEN 226 ELSE IF n >= 512 THEN 179 ELSE IF n >= 256 THEN 118
  ELSE IF n >= 128 THEN 67 ELSE IF n >= 64 THEN 33 ELSE 0

(* -------------------------------------------------------------------- monitor ---- *)
VARIABLE mon      \* [n, fs : Seq of field monitors]

FieldMon(f) == [name |-> f.name, len |-> f.len, uniform |-> f.uniform, strict |-> f.strict,
                seen |-> {}, reps |-> 0,
                vals |-> IF f.uniform THEN [i \in 1..f.len |-> {}] ELSE <<>>]

NewMon(fields) == [n |-> 0, fs |-> [i \in DOMAIN fields |-> FieldMon(fields[i])]]

\* a uniform field has its declared length; a variable-length field is never uniform
MaxUniformLen == 64      \* bound used by EndVerdict's enumeration of byte positions
WellFormedFields(fields) == \A i \in DOMAIN fields : fields[i].uniform => fields[i].len \in 1..MaxUniformLen
LayoutOK(m, values) ==
  /\ Len(values) = Len(m.fs)
  /\ \A i \in DOMAIN m.fs : m.fs[i].len > 0 => Len(values[i]) = m.fs[i].len

EmitField(fm, b) ==
  LET h == BytesToHex(b) IN
  [fm EXCEPT !.reps = IF h \in fm.seen THEN @ + 1 ELSE @,
             !.seen = @ \cup {h},
             !.vals = IF fm.uniform THEN [i \in 1..fm.len |-> @[i] \cup {b[i]}] ELSE @]

EmitMon(m, values) == [n |-> m.n + 1, fs |-> [i \in DOMAIN m.fs |-> EmitField(m.fs[i], values[i])]]

(* ---------------------------------------------------------------- state machine ---- *)
Start(fields) == WellFormedFields(fields) /\ mon' = NewMon(fields)
Emit(values)  == LayoutOK(mon, values) /\ mon' = EmitMon(mon, values)

(* ------------------------------------------------------------------- properties ---- *)
Budget(fm, n) == IF fm.strict THEN 0 ELSE RepeatBudget(n, 8 * fm.len)
\* variable-length fields (signatures, serialized keys) are long: budget 0
FieldBudget(fm, n) == IF fm.len = 0 THEN 0 ELSE Budget(fm, n)

RepeatOK(fm, n) == fm.reps <= FieldBudget(fm, n)
NoRepeatIn(m) == \A i \in DOMAIN m.fs : RepeatOK(m.fs[i], m.n)
NoRepeat == NoRepeatIn(mon)                               \* INVARIANT over the history

Bit(v, j) == (v \div (2^j)) % 2
BitToggles(fm, i, j) == (\E v \in fm.vals[i] : Bit(v, j) = 1) /\ (\E v \in fm.vals[i] : Bit(v, j) = 0)
AllBitsToggle(fm) == \A i \in 1..fm.len : \A j \in 0..7 : BitToggles(fm, i, j)
BytesSpread(fm, n) == \A i \in 1..fm.len : Cardinality(fm.vals[i]) >= MinDistinct(n)

UniformOK(fm, n) == fm.uniform => (AllBitsToggle(fm) /\ BytesSpread(fm, n))
EndOKIn(m) == \A i \in DOMAIN m.fs : UniformOK(m.fs[i], m.n)
\* a history long enough for the uniformity monitors to have their stated false-alarm bound
Judgeable(m) == (\E i \in DOMAIN m.fs : m.fs[i].uniform) => m.n >= MinEvents
EndOK == EndOKIn(mon)                                      \* evaluated when the key's history ends

(* ------------------------------------------------------------------ diagnostics ---- *)
\* first failing clause as <<reason, details...>> (strings), <<>> if none
RepeatVerdict(m) ==
  LET badf == {i \in DOMAIN m.fs : ~RepeatOK(m.fs[i], m.n)} IN
  IF badf = {} THEN <<>>
  ELSE LET i == CHOOSE x \in badf : \A y \in badf : x <= y IN
       <<"random field repeats", m.fs[i].name,
         "repeats=" \o ToString(m.fs[i].reps) \o " allowed=" \o ToString(FieldBudget(m.fs[i], m.n))
           \o " after " \o ToString(m.n) \o " calls">>

EndVerdict(m) ==
  LET stuck == {<<i, p, j>> \in (DOMAIN m.fs) \X (1..MaxUniformLen) \X (0..7) :
                  m.fs[i].uniform /\ p <= m.fs[i].len /\ ~BitToggles(m.fs[i], p, j)}
      thin  == {<<i, p>> \in (DOMAIN m.fs) \X (1..MaxUniformLen) :
                  m.fs[i].uniform /\ p <= m.fs[i].len /\ Cardinality(m.fs[i].vals[p]) < MinDistinct(m.n)}
  IN IF ~Judgeable(m) THEN <<"coverage: too few calls for the uniformity monitors", ToString(m.n)>>
     ELSE IF stuck # {} THEN
       LET t == CHOOSE x \in stuck : TRUE IN
       <<"a bit of a random field never changes", m.fs[t[1]].name,
         "byte " \o ToString(t[2] - 1) \o " bit " \o ToString(t[3]) \o " constant over " \o ToString(m.n)
           \o " calls (" \o ToString(Cardinality(stuck)) \o " constant bits in all)">>
     ELSE IF thin # {} THEN
       LET t == CHOOSE x \in thin : TRUE IN
       <<"a byte position of a random field takes too few values", m.fs[t[1]].name,
         "byte " \o ToString(t[2] - 1) \o ": " \o ToString(Cardinality(m.fs[t[1]].vals[t[2]])) \o " distinct values in "
           \o ToString(m.n) \o " calls, a uniform source shows >= " \o ToString(MinDistinct(m.n))>>
     ELSE <<>>

(* ------------------------------------------------- sub-histories per input class ---- *)
(* An input-dependent fast path (empty plaintext, empty stream, empty message ...) is    *)
(* exactly where a fresh draw gets skipped.  The calls of one key rotate through input    *)
(* CLASSES (plaintext length 0/1/15/16/17/100 ...); a FAMILY holds one monitor for the     *)
(* whole history ("all") and one per class, all fed by the same Emit.  NoRepeat is judged   *)
(* on every member after every call; the uniformity conditions on the whole history (which   *)
(* must be long enough) and on every class sub-history of at least MinEvents calls.          *)
NewFamily(fields, classes) == [c \in classes \cup {"all"} |-> NewMon(fields)]
EmitFamily(fam, cls, values) ==
  [c \in DOMAIN fam |-> IF c = "all" \/ c = cls THEN EmitMon(fam[c], values) ELSE fam[c]]

Tag(v, c) == IF v = <<>> \/ c = "all" THEN v ELSE <<v[1], v[2], v[3] \o " [calls of input class " \o c \o "]">>
FamilyNoRepeat(fam) == \A c \in DOMAIN fam : NoRepeatIn(fam[c])
FamilyRepeatVerdict(fam) ==
  LET badc == {c \in DOMAIN fam : RepeatVerdict(fam[c]) # <<>>} IN
  IF badc = {} THEN <<>>
  ELSE LET c == IF "all" \in badc THEN "all" ELSE CHOOSE x \in badc : TRUE IN Tag(RepeatVerdict(fam[c]), c)
FamilyEndOK(fam) == /\ Judgeable(fam["all"])
                    /\ \A c \in DOMAIN fam : (c = "all" \/ fam[c].n >= MinEvents) => EndOKIn(fam[c])
FamilyEndVerdict(fam) ==
  IF EndVerdict(fam["all"]) # <<>> THEN EndVerdict(fam["all"])
  ELSE LET badc == {c \in DOMAIN fam \ {"all"} : fam[c].n >= MinEvents /\ EndVerdict(fam[c]) # <<>>} IN
       IF badc = {} THEN <<>> ELSE LET c == CHOOSE x \in badc : TRUE IN Tag(EndVerdict(fam[c]), c)
(* ------------------------------------------------------- the key-id draw loop ---- *)
(* keyset.Manager draws a random 32-bit id and draws AGAIN while the id is unavailable   *)
(* (in use, or used earlier and deleted).  For a call whose draws were observed: the id   *)
(* handed out is the LAST value the draw source returned - so it is itself a value of the  *)
(* uniform source, not something computed from a taken id - and every earlier draw of the  *)
(* call was unavailable (a usable draw is never discarded).  Deterministic, no statistics.  *)
DrawRuleOK(drawn, handed, unavailable) ==
  /\ drawn # <<>> /\ handed = drawn[Len(drawn)]
  /\ \A i \in 1..(Len(drawn) - 1) : drawn[i] \in unavailable
DrawVerdict(drawn, handed, unavailable) ==
  IF drawn = <<>> THEN <<"coverage: no draw observed for a scripted key-id call", handed>>
  ELSE IF handed # drawn[Len(drawn)]
    THEN <<"the key id handed out is not the last value drawn from the random source", "id",
           "handed out " \o handed \o ", last draw " \o drawn[Len(drawn)]>>
  ELSE IF \E i \in 1..(Len(drawn) - 1) : drawn[i] \notin unavailable
    THEN <<"an available random draw was discarded by the key-id draw loop", "id", handed>>
  ELSE <<>>
================================================================================
