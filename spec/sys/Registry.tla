--------------------------------- MODULE Registry ---------------------------------
(* C18, the global registries.  Each registry is a map with these ATOMIC operations     *)
(* (the "map semantics"):                                                               *)
(*                                                                                    *)
(*   core/registry (keyManagers: sync.Map)                                              *)
(*     Register(url, m)  load-or-store: if url is free, bind it to m and succeed,        *)
(*                       otherwise fail and leave the binding (RegisterKeyManager;       *)
(*                       likewise RegisterKeyParser / RegisterParametersParser /          *)
(*                       RegisterKeySerializer / RegisterKeyCreator of the internal        *)
(*                       registries behind the public entry points)                      *)
(*     Get(url)          the bound manager, or none (GetKeyManager; ParseKey's and        *)
(*                       primitiveregistry.Primitive's lookups)                           *)
(*     Unregister(url)   free url (test-only entry points)                               *)
(*   KMS clients (slice under a sync.RWMutex)                                            *)
(*     KmsRegister(c)    append c                      (RegisterKMSClient)                *)
(*     KmsGet(uri)       the FIRST client, in registration order, supporting uri, or none *)
(*     KmsClear          drop all clients              (ClearKMSClients)                  *)
(*                                                                                    *)
(* Goroutines call these concurrently.  A call is visible from outside as a START event   *)
(* and an END event carrying its result; in between there is one internal LINEARIZATION   *)
(* step at which the operation takes effect atomically on the map.  The behaviours of     *)
(* this specification, projected on start/end events, are exactly the histories that are  *)
(* linearizable to the map semantics; a recorded history of the real registries conforms  *)
(* iff TLC finds linearization points for it (trace/Trace_Registry.tla).                  *)
EXTENDS Integers, Sequences, FiniteSets

CONSTANTS G,        \* goroutines
          URL,      \* type URLs
          MGR,      \* key manager identities (what Get can return)
          CLIENT,   \* KMS client identities
          URI,      \* key URIs
          Supports(_, _),  \* Supports(client, uri)
          None      \* "not found"

VARIABLES reg,      \* [URL -> MGR \cup {None}]
          kms,      \* Seq(CLIENT)
          pend,     \* [G -> pending call or Idle]: [st : "called" | "lin", op, res]
          hist      \* the observable history: sequence of start / end events

vars == <<reg, kms, pend, hist>>

Idle == [st |-> "idle"]

Ops == [kind : {"Register"}, url : URL, mgr : MGR] \cup [kind : {"Get"}, url : URL] \cup [kind : {"Unregister"}, url : URL]
       \cup [kind : {"KmsRegister"}, client : CLIENT] \cup [kind : {"KmsGet"}, uri : URI] \cup [kind : {"KmsClear"}]

(* ------------------------------------------------------------------ map semantics *)
FirstSupporting(clients, uri) ==
  LET hits == {i \in DOMAIN clients : Supports(clients[i], uri)}
  IN IF hits = {} THEN None ELSE clients[CHOOSE i \in hits : \A j \in hits : i <= j]

\* the atomic effect: <<reg', kms', result>>
Apply(op, r, k) ==
  CASE op.kind = "Register"    -> IF r[op.url] = None THEN <<[r EXCEPT ![op.url] = op.mgr], k, "ok">>
                                  ELSE <<r, k, "exists">>
    [] op.kind = "Get"         -> <<r, k, r[op.url]>>
    [] op.kind = "Unregister"  -> <<[r EXCEPT ![op.url] = None], k, "ok">>
    [] op.kind = "KmsRegister" -> <<r, Append(k, op.client), "ok">>
    [] op.kind = "KmsGet"      -> <<r, k, FirstSupporting(k, op.uri)>>
    [] op.kind = "KmsClear"    -> <<r, <<>>, "ok">>

(* ------------------------------------------------------------------ concurrent calls *)
Init == /\ reg = [u \in URL |-> None] /\ kms = <<>>
        /\ pend = [g \in G |-> Idle] /\ hist = <<>>

Start(g, op) ==
  /\ pend[g].st = "idle"
  /\ pend' = [pend EXCEPT ![g] = [st |-> "called", op |-> op]]
  /\ hist' = Append(hist, [ev |-> "start", g |-> g, op |-> op])
  /\ UNCHANGED <<reg, kms>>

Lin(g) ==
  /\ pend[g].st = "called"
  /\ LET a == Apply(pend[g].op, reg, kms) IN
       /\ reg' = a[1] /\ kms' = a[2]
       /\ pend' = [pend EXCEPT ![g] = [st |-> "lin", op |-> pend[g].op, res |-> a[3]]]
  /\ UNCHANGED hist

End(g) ==
  /\ pend[g].st = "lin"
  /\ hist' = Append(hist, [ev |-> "end", g |-> g, op |-> pend[g].op, res |-> pend[g].res])
  /\ pend' = [pend EXCEPT ![g] = Idle]
  /\ UNCHANGED <<reg, kms>>

Next == \E g \in G : (\E op \in Ops : Start(g, op)) \/ Lin(g) \/ End(g)
Spec == Init /\ [][Next]_vars

(* ------------------------------------------------------------------ properties *)
TypeOK == /\ reg \in [URL -> MGR \cup {None}] /\ kms \in Seq(CLIENT)

Ends == {i \in DOMAIN hist : hist[i].ev = "end"}
\* index of the start event of the call that ended at i
StartOf(i) == CHOOSE j \in 1..(i - 1) : /\ hist[j].ev = "start" /\ hist[j].g = hist[i].g
                                        /\ \A k \in (j + 1)..(i - 1) : hist[k].g # hist[i].g

OkRegs(u) == {i \in Ends : hist[i].op.kind = "Register" /\ hist[i].op.url = u /\ hist[i].res = "ok"}
Unregs(u) == {i \in DOMAIN hist : hist[i].ev = "start" /\ hist[i].op.kind = "Unregister" /\ hist[i].op.url = u}

\* at most one registration of a type URL succeeds (as long as nobody unregisters it):
\* of any number of concurrent RegisterKeyManager calls for one URL exactly one wins
AtMostOneRegistration == \A u \in URL : Unregs(u) = {} => Cardinality(OkRegs(u)) <= 1

\* a lookup returns only a manager that some registration call for that URL carried, and that call started before the lookup ended
GetReturnsRegistered ==
  \A i \in Ends : (hist[i].op.kind = "Get" /\ hist[i].res # None) =>
     \E j \in 1..(i - 1) : /\ hist[j].ev = "start" /\ hist[j].op.kind = "Register"
                           /\ hist[j].op.url = hist[i].op.url /\ hist[j].op.mgr = hist[i].res

\* once a registration of u has RETURNED ok, every lookup of u that STARTS later finds that manager (no unregister)
RegisteredStaysVisible ==
  \A i \in Ends : \A k \in Ends :
     (/\ hist[i].op.kind = "Register" /\ hist[i].res = "ok"
      /\ hist[k].op.kind = "Get" /\ hist[k].op.url = hist[i].op.url
      /\ i < StartOf(k) /\ Unregs(hist[i].op.url) = {})
       => hist[k].res = hist[i].op.mgr

\* a failed registration means the URL was bound by a call that started before this one ended
ExistsMeansBound ==
  \A i \in Ends : (hist[i].op.kind = "Register" /\ hist[i].res = "exists") =>
     \E j \in 1..(i - 1) : hist[j].ev = "start" /\ hist[j].op.kind = "Register" /\ hist[j].op.url = hist[i].op.url /\ j # StartOf(i)

\* a KMS lookup returns a client that supports the URI and was being / had been registered
KmsGetSound ==
  \A i \in Ends : (hist[i].op.kind = "KmsGet" /\ hist[i].res # None) =>
     /\ Supports(hist[i].res, hist[i].op.uri)
     /\ \E j \in 1..(i - 1) : hist[j].ev = "start" /\ hist[j].op.kind = "KmsRegister" /\ hist[j].op.client = hist[i].res
================================================================================
