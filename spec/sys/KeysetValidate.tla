---------------------------- MODULE KeysetValidate ----------------------------
(* C14: what handle construction must do with an UNTRUSTED Keyset message.          *)
(*                                                                                  *)
(* Part 1 - the structural rule.  A proto keyset is abstracted to                   *)
(*    [nil, primary, keys : Seq([nil, id, status, prefix, data])]                   *)
(* with the proto enums opened up: a status / prefix is one of the named values of  *)
(* tink.proto or "OOR" (a number outside the enum - proto3 enums are open, so the   *)
(* wire can carry it).  `Valid` is the rule exactly as the property states it;      *)
(* `ValidAsCoded` is the sequential procedure of keyset/validation.go (first error  *)
(* wins).  That the two coincide on every keyset is a theorem of this module,       *)
(* checked exhaustively by TLC (MC_KeysetValidate).                                 *)
(*                                                                                  *)
(* Part 2 - the entry points (readers) as functions keyset -> error | projection.   *)
(*                                                                                  *)
(* Part 3 - key-level parameters: per key type the proto fields, their boundary     *)
(* values, and `KVBelowMinimum`, the minimum-strength table of the property.        *)
EXTENDS Integers, Sequences, FiniteSets

-----------------------------------------------------------------------------
(* Part 1: the structural rule *)

KnownStatus == {"ENABLED", "DISABLED", "DESTROYED"}
StatusDom   == KnownStatus \cup {"UNKNOWN_STATUS", "OOR"}
KnownPrefix == {"TINK", "LEGACY", "RAW", "CRUNCHY"}
\* WITH_ID_REQUIREMENT (= 5) is a named value of OutputPrefixType that handle construction does not know
PrefixDom   == KnownPrefix \cup {"UNKNOWN_PREFIX", "WITH_ID_REQUIREMENT", "OOR"}
\* key data: absent / parseable key of a registered type / registered type whose value does not
\* parse / a type URL nobody registered (kept as an opaque "fallback" key)
\* (also: a KeyData message that is present but empty - no type URL, no value, unknown material type)
DataDom     == {"nil", "empty", "ok", "invalid", "unknownType"}

\* tink.proto numbering (the wire carries numbers)
StatusOfNumber(n) == CASE n = 0 -> "UNKNOWN_STATUS" [] n = 1 -> "ENABLED" [] n = 2 -> "DISABLED"
                       [] n = 3 -> "DESTROYED" [] OTHER -> "OOR"
PrefixOfNumber(n) == CASE n = 0 -> "UNKNOWN_PREFIX" [] n = 1 -> "TINK" [] n = 2 -> "LEGACY" [] n = 3 -> "RAW"
                       [] n = 4 -> "CRUNCHY" [] n = 5 -> "WITH_ID_REQUIREMENT" [] OTHER -> "OOR"

Key(id, status, prefix, data) == [nil |-> FALSE, id |-> id, status |-> status, prefix |-> prefix, data |-> data]
\* a nil element of the repeated field (only a Keyset MESSAGE can carry it; see AsSerialized)
NilKey(id0) == [nil |-> TRUE, id |-> id0, status |-> "UNKNOWN_STATUS", prefix |-> "UNKNOWN_PREFIX", data |-> "nil"]
Keyset(primary, keys) == [nil |-> FALSE, primary |-> primary, keys |-> keys]
NilKeyset(id0) == [nil |-> TRUE, primary |-> id0, keys |-> <<>>]

Idx(ks) == DOMAIN ks.keys

KeyOK(k) ==                      \* "only known statuses and prefix types", and there is something to parse
  /\ ~k.nil
  /\ k.data # "nil"
  /\ k.prefix \in KnownPrefix
  /\ k.status \in KnownStatus

DistinctIds(keys) == \A i, j \in DOMAIN keys : i # j => keys[i].id # keys[j].id

\* The rule as the property states it: not empty, every key known, no id repeated, exactly one key carries
\* the primary id and it is ENABLED.
Valid(ks) ==
  /\ ~ks.nil
  /\ Len(ks.keys) >= 1
  /\ \A i \in Idx(ks) : KeyOK(ks.keys[i])
  /\ DistinctIds(ks.keys)
  /\ Cardinality({i \in Idx(ks) : ks.keys[i].id = ks.primary}) = 1
  /\ \A i \in Idx(ks) : ks.keys[i].id = ks.primary => ks.keys[i].status = "ENABLED"

\* The four rejection classes the property names explicitly ("always rejected")
Empty(ks)          == ks.nil \/ Len(ks.keys) = 0
NoEnabledPrimary(ks) == ~ks.nil /\ ~\E i \in Idx(ks) : ~ks.keys[i].nil /\ ks.keys[i].id = ks.primary /\ ks.keys[i].status = "ENABLED"
RepeatsId(ks)      == ~ks.nil /\ ~DistinctIds(ks.keys)
UnknownEnum(ks)    == ~ks.nil /\ \E i \in Idx(ks) : ~ks.keys[i].nil /\ (ks.keys[i].status \notin KnownStatus \/ ks.keys[i].prefix \notin KnownPrefix)
NamedDefect(ks)    == Empty(ks) \/ NoEnabledPrimary(ks) \/ RepeatsId(ks) \/ UnknownEnum(ks)

\* keyset/validation.go Validate, statement by statement (first error wins).  The loop state is
\* <<verdict, ids seen, hasPrimary, numEnabled>>.
RECURSIVE CodedLoop(_, _, _, _, _)
CodedLoop(ks, i, seen, hasPrimary, numEnabled) ==
  IF i > Len(ks.keys)
  THEN IF numEnabled = 0 THEN "no ENABLED key"
       ELSE IF ~hasPrimary THEN "no valid primary"
       ELSE "ok"
  ELSE LET k == ks.keys[i] IN
       IF k.nil THEN "nil key"
       ELSE IF k.data = "nil" THEN "no key data"
       ELSE IF k.prefix \notin KnownPrefix THEN "unknown prefix"
       ELSE IF k.status \notin KnownStatus THEN "unknown status"
       ELSE IF k.id \in seen THEN "duplicate id"
       ELSE IF k.status # "ENABLED" /\ k.id = ks.primary THEN "non-ENABLED primary"
       ELSE IF k.status # "ENABLED" THEN CodedLoop(ks, i + 1, seen \cup {k.id}, hasPrimary, numEnabled)
       ELSE IF k.id = ks.primary /\ hasPrimary THEN "multiple primaries"
       ELSE CodedLoop(ks, i + 1, seen \cup {k.id}, hasPrimary \/ k.id = ks.primary, numEnabled + 1)

ValidAsCoded(ks) ==
  IF ks.nil THEN "nil keyset"
  ELSE IF Len(ks.keys) = 0 THEN "empty keyset"
  ELSE CodedLoop(ks, 1, {}, FALSE, 0)

\* What an accepted handle shows: one entry per key, in order.  RAW keys carry no id requirement.
Project(ks) == [i \in Idx(ks) |->
  [id |-> ks.keys[i].id, status |-> ks.keys[i].status, prefix |-> ks.keys[i].prefix,
   primary |-> ks.keys[i].id = ks.primary,
   hasReq |-> ks.keys[i].prefix # "RAW"]]          \* the required id, when there is one, is the key id

\* "a handle that has at least one key, distinct IDs, exactly one ENABLED primary and only known
\* statuses and prefix types" - evaluated on whatever the real handle shows.
WellFormed(h) ==
  /\ Len(h) >= 1
  /\ DistinctIds(h)
  /\ Cardinality({i \in DOMAIN h : h[i].primary}) = 1
  /\ \A i \in DOMAIN h : h[i].primary => h[i].status = "ENABLED"
  /\ \A i \in DOMAIN h : h[i].status \in KnownStatus /\ h[i].prefix \in KnownPrefix

WellFormedWhy(h) ==
  IF Len(h) < 1 THEN "accepted handle has no key"
  ELSE IF ~DistinctIds(h) THEN "accepted handle repeats a key id"
  ELSE IF Cardinality({i \in DOMAIN h : h[i].primary}) # 1 THEN "accepted handle does not have exactly one primary"
  ELSE IF \E i \in DOMAIN h : h[i].primary /\ h[i].status # "ENABLED" THEN "accepted handle's primary is not ENABLED"
  ELSE IF \E i \in DOMAIN h : h[i].status \notin KnownStatus THEN "accepted handle has a key of unknown status"
  ELSE IF \E i \in DOMAIN h : h[i].prefix \notin KnownPrefix THEN "accepted handle has a key of unknown prefix type"
  ELSE "ok"

-----------------------------------------------------------------------------
(* Part 2: the entry points.                                                        *)
(* Serializing a Keyset message cannot express a nil message or a nil element: a    *)
(* nil keyset becomes the empty message and a nil key becomes the all-defaults key. *)
AsSerialized(ks) ==
  IF ks.nil THEN [nil |-> FALSE, primary |-> ks.primary, keys |-> <<>>]
  ELSE [ks EXCEPT !.keys = [i \in DOMAIN ks.keys |->
          IF ks.keys[i].nil THEN [ks.keys[i] EXCEPT !.nil = FALSE] ELSE ks.keys[i]]]

\* every way the library turns outside data into a handle
\* take a *Keyset message: NewHandleWithNoSecrets, insecurecleartextkeyset.KeysetHandle, and the readers
\* fed by a keyset.MemReaderWriter holding the message
ProtoEntries  == {"proto-nosecrets", "proto-cleartext", "mem-clear", "mem-nosecrets"}
\* take bytes / text (binary or JSON reader; "enc*": an EncryptedKeyset decrypted with an AEAD, with associated
\* data, with a context AEAD; "mem-enc": an EncryptedKeyset MESSAGE in a MemReaderWriter)
ReaderEntries == {"clear-bin", "clear-json", "nosecrets-bin", "nosecrets-json",
                  "enc-bin", "enc-json", "encad-bin", "encad-json", "encctx-bin", "encctx-json", "mem-enc"}
Entries == ProtoEntries \cup ReaderEntries
NoSecretEntries == {"proto-nosecrets", "nosecrets-bin", "nosecrets-json", "mem-nosecrets"}

Seen(entry, ks) == IF entry \in ProtoEntries THEN ks ELSE AsSerialized(ks)

\* material: "secret" (symmetric / private) or "public"; an empty KeyData has unknown material type,
\* which counts as secret.  Unregistered type URLs (and the empty one) are kept as opaque keys.
AllParse(ks) == \A i \in Idx(ks) : ks.keys[i].data \in {"ok", "unknownType", "empty"}
Accepts(entry, ks, material) ==
  /\ Valid(Seen(entry, ks))
  /\ AllParse(ks)
  /\ entry \in NoSecretEntries => material = "public" /\ \A i \in Idx(ks) : ks.keys[i].data # "empty"

\* The design-level claim about the model of the readers
Outcome(entry, ks, material) ==
  IF Accepts(entry, ks, material) THEN [err |-> FALSE, handle |-> Project(Seen(entry, ks))]
  ELSE [err |-> TRUE, handle |-> <<>>]

-----------------------------------------------------------------------------
(* Mutation operators on keysets (the quantifier of the property: "empty,           *)
(* missing/duplicate/disabled/destroyed primary, duplicate IDs, unknown enums, nil   *)
(* key data ...").  Each either leaves the keyset Valid or produces one the rule     *)
(* rejects; the ones named Break* always produce a rejected keyset when applied to a *)
(* Valid one.                                                                        *)
SetStatus(ks, i, s)  == [ks EXCEPT !.keys[i].status = s]
SetPrefix(ks, i, p)  == [ks EXCEPT !.keys[i].prefix = p]
SetData(ks, i, d)    == [ks EXCEPT !.keys[i].data = d]
SetId(ks, i, id)     == [ks EXCEPT !.keys[i].id = id]
SetPrimary(ks, id)   == [ks EXCEPT !.primary = id]
DropKey(ks, i)       == [ks EXCEPT !.keys = [j \in 1..(Len(ks.keys) - 1) |-> IF j < i THEN ks.keys[j] ELSE ks.keys[j + 1]]]
AppendKey(ks, k)     == [ks EXCEPT !.keys = Append(ks.keys, k)]
NilOutKey(ks, i)     == [ks EXCEPT !.keys[i] = NilKey(ks.keys[i].id)]
Clear(ks)            == [ks EXCEPT !.keys = <<>>]

PrimaryIdx(ks) == CHOOSE i \in Idx(ks) : ks.keys[i].id = ks.primary

BreakDisablePrimary(ks)  == SetStatus(ks, PrimaryIdx(ks), "DISABLED")
BreakDestroyPrimary(ks)  == SetStatus(ks, PrimaryIdx(ks), "DESTROYED")
BreakDropPrimary(ks)     == DropKey(ks, PrimaryIdx(ks))
BreakDuplicate(ks, i)    == AppendKey(ks, ks.keys[i])
BreakUnknownStatus(ks, i, s) == SetStatus(ks, i, s)      \* s \in StatusDom \ KnownStatus
BreakUnknownPrefix(ks, i, p) == SetPrefix(ks, i, p)      \* p \in PrefixDom \ KnownPrefix
BreakNilData(ks, i)      == SetData(ks, i, "nil")
BreakNilKey(ks, i)       == NilOutKey(ks, i)
BreakEmpty(ks)           == Clear(ks)
BreakMissingPrimary(ks, fresh) == SetPrimary(ks, fresh)  \* fresh: an id no key carries

\* every keyset one breaking mutation away from a Valid keyset ks (freshId: an id no key carries)
BrokenNeighbours(ks, freshId) ==
  ({BreakDisablePrimary(ks), BreakDestroyPrimary(ks), BreakDropPrimary(ks), BreakEmpty(ks), BreakMissingPrimary(ks, freshId)}
  \cup {BreakDuplicate(ks, i) : i \in Idx(ks)}
  \cup {BreakUnknownStatus(ks, i, st) : i \in Idx(ks), st \in StatusDom \ KnownStatus}
  \cup {BreakUnknownPrefix(ks, i, p) : i \in Idx(ks), p \in PrefixDom \ KnownPrefix}
  \cup {BreakNilData(ks, i) : i \in Idx(ks)}
  \cup {BreakNilKey(ks, i) : i \in Idx(ks)}
  \cup {SetId(ks, i, ks.keys[j].id) : i \in Idx(ks), j \in Idx(ks)}) \ {ks}

-----------------------------------------------------------------------------
(* Part 3: key-level parameters.  (Local table; spec/sys/KeyParams.tla of C12 is the *)
(* full parameter inventory.  Operator names here are prefixed KV.)                  *)
(*                                                                                  *)
(* A key description is a record [type |-> T, ...fields...]; sizes are in bytes,     *)
(* RSA modulus sizes in bits.  Field values the proto can carry but no parser        *)
(* accepts are part of the domains: that is the point.                               *)

KVHashes == {"SHA1", "SHA224", "SHA256", "SHA384", "SHA512"}
KVHashDom == KVHashes \cup {"UNKNOWN_HASH", "OOR"}
KVCurveDom == {"NIST_P256", "NIST_P384", "NIST_P521", "CURVE25519", "UNKNOWN_CURVE", "OOR"}

\* security level in bits, for "ECDSA hash weaker than its curve"
KVHashBits(h)  == CASE h = "SHA1" -> 80 [] h = "SHA224" -> 112 [] h = "SHA256" -> 128 [] h = "SHA384" -> 192
                    [] h = "SHA512" -> 256 [] OTHER -> 0
KVCurveBits(c) == CASE c = "NIST_P256" -> 128 [] c = "NIST_P384" -> 192 [] c = "NIST_P521" -> 256 [] OTHER -> 0

Has(k, f) == f \in DOMAIN k

\* The property's table, clause by clause.  A clause applies to every key type that contains the
\* named component (an HMAC key inside AES-CTR-HMAC is an HMAC key).
KVHmacWeak(k)  == (Has(k, "hmacKeySize") /\ k.hmacKeySize < 16) \/ (Has(k, "hmacTagSize") /\ k.hmacTagSize < 10)
\* (an AES-SIV key is two AES keys)
KVAesWeak(k)   == (Has(k, "aesKeySize") /\ k.aesKeySize \notin {16, 32}) \/ (Has(k, "sivKeySize") /\ k.sivKeySize \notin {32, 64})
KVRsaWeak(k)   == (Has(k, "modulusBits") /\ k.modulusBits < 2048) \/ (Has(k, "e") /\ k.e # "010001")
KVEcdsaWeak(k) == Has(k, "ecdsaCurve") /\ Has(k, "ecdsaHash") /\ k.ecdsaCurve \in {"NIST_P256", "NIST_P384", "NIST_P521"}
                  /\ KVHashBits(k.ecdsaHash) < KVCurveBits(k.ecdsaCurve)
KVHkdfWeak(k)  == Has(k, "hkdfKeySize") /\ k.hkdfKeySize < 32

KVBelowMinimum(k) == KVHmacWeak(k) \/ KVAesWeak(k) \/ KVRsaWeak(k) \/ KVEcdsaWeak(k) \/ KVHkdfWeak(k)
KVBelowWhy(k) ==
  IF KVHmacWeak(k) THEN "HMAC key under 16 bytes or tag under 10"
  ELSE IF KVAesWeak(k) THEN "AES key other than 16 or 32 bytes"
  ELSE IF KVRsaWeak(k) THEN "RSA modulus under 2048 bits or exponent other than 65537"
  ELSE IF KVEcdsaWeak(k) THEN "ECDSA hash weaker than its curve"
  ELSE IF KVHkdfWeak(k) THEN "HKDF-PRF key under 32 bytes"
  ELSE "none"

\* What the driver records about one primitive made from an accepted handle:
\*   [kind, created, produced, consumed, msg, back, panic, where]
\* kind "roundtrip": back is what the inverse operation returned for the output produced from msg;
\* kind "verify": consumed = the produced tag / signature verified (under the PUBLIC half for signatures);
\* kind "det": msg / back are two evaluations on the same input.
\* A primitive is USABLE when its creation AND the operation on it succeeded.
KVUsable(p) == p.created /\ p.produced
KVSelfConsistent(p) ==
  KVUsable(p) =>
    CASE p.kind = "roundtrip" -> p.consumed /\ p.back = p.msg
      [] p.kind = "verify"    -> p.consumed
      [] p.kind = "det"       -> p.consumed /\ p.back = p.msg
      [] OTHER -> TRUE
\* SLH-DSA private keys embed their public part: mismatching halves are not this property's business
KVConsistencyExempt(k) == k.type = "SlhDsaPrivateKey"
===============================================================================
