---------------------------- MODULE KeyFormatWire ----------------------------
(* The protobuf wire form of Tink's key FORMAT messages (the `value` of a KeyTemplate),     *)
(* read independently of the library: a protobuf wire decoder in TLA+ (varint and           *)
(* length-delimited fields, last occurrence wins, absent = default) and, per key type of    *)
(* the inventory, the table  field path -> parameter field  transcribed from proto/*.proto.  *)
(* TemplateCarries(T, p, hex) holds iff every parameter the format message has a place for    *)
(* is found at its documented field number with its documented encoding.  A serializer and   *)
(* a parser that agree with each other but not with the .proto files (two size fields         *)
(* swapped, an enum table shifted) pass every round trip; they do not pass this.              *)
EXTENDS Integers, Sequences, TLC

HexDigit(c) ==
  CASE c = "0" -> 0 [] c = "1" -> 1 [] c = "2" -> 2 [] c = "3" -> 3 [] c = "4" -> 4 [] c = "5" -> 5 [] c = "6" -> 6 [] c = "7" -> 7
    [] c = "8" -> 8 [] c = "9" -> 9 [] c = "a" -> 10 [] c = "b" -> 11 [] c = "c" -> 12 [] c = "d" -> 13 [] c = "e" -> 14 [] c = "f" -> 15
HexToSeq(s) == [i \in 1..(Len(s) \div 2) |-> 16 * HexDigit(SubSeq(s, 2 * i - 1, 2 * i - 1)) + HexDigit(SubSeq(s, 2 * i, 2 * i))]

\* ------------------------------------------------------------------ wire decoder
\* ReadVarint(b, i) = <<value, next position>>; values stay below 2^31 for everything a key format holds
RECURSIVE ReadVarint(_, _, _, _)
ReadVarint(b, i, acc, mul) ==
  IF i > Len(b) THEN <<-1, i>>
  ELSE IF b[i] >= 128 THEN ReadVarint(b, i + 1, acc + (b[i] - 128) * mul, IF mul < 16777216 THEN mul * 128 ELSE mul)
  ELSE <<acc + b[i] * mul, i + 1>>

\* Fields(b): the top-level fields of a message as a sequence of [n, wt, v]; v is the integer (wire type 0) or the
\* byte sequence (wire type 2); a malformed message yields a field with n = -1
RECURSIVE FieldsFrom(_, _)
FieldsFrom(b, i) ==
  IF i > Len(b) THEN <<>>
  ELSE LET tag == ReadVarint(b, i, 0, 1)
           n == tag[1] \div 8
           wt == tag[1] % 8
       IN IF tag[1] < 0 THEN <<[n |-> -1, wt |-> 0, v |-> 0]>>
          ELSE IF wt = 0 THEN LET x == ReadVarint(b, tag[2], 0, 1) IN
                 IF x[1] < 0 THEN <<[n |-> -1, wt |-> 0, v |-> 0]>> ELSE <<[n |-> n, wt |-> 0, v |-> x[1]]>> \o FieldsFrom(b, x[2])
          ELSE IF wt = 2 THEN LET x == ReadVarint(b, tag[2], 0, 1) IN
                 IF x[1] < 0 \/ x[2] + x[1] - 1 > Len(b) THEN <<[n |-> -1, wt |-> 0, v |-> 0]>>
                 ELSE <<[n |-> n, wt |-> 2, v |-> SubSeq(b, x[2], x[2] + x[1] - 1)]>> \o FieldsFrom(b, x[2] + x[1])
          ELSE <<[n |-> -1, wt |-> wt, v |-> 0]>>
Fields(b) == FieldsFrom(b, 1)
WellFormedMsg(b) == \A i \in DOMAIN Fields(b) : Fields(b)[i].n > 0

\* the last occurrence of field n, or the default of its wire type
Last(fs, n, wt) ==
  LET idx == {i \in DOMAIN fs : fs[i].n = n /\ fs[i].wt = wt} IN
  IF idx = {} THEN (IF wt = 0 THEN 0 ELSE <<>>) ELSE fs[CHOOSE i \in idx : \A j \in idx : j <= i].v
\* the integer at a path of field numbers (all but the last are sub-messages)
RECURSIVE IntAt(_, _)
IntAt(b, path) == IF Len(path) = 1 THEN Last(Fields(b), path[1], 0) ELSE IntAt(Last(Fields(b), path[1], 2), Tail(path))
RECURSIVE BytesAt(_, _)
BytesAt(b, path) == IF Len(path) = 1 THEN Last(Fields(b), path[1], 2) ELSE BytesAt(Last(Fields(b), path[1], 2), Tail(path))
\* the set of field numbers populated at a path's message (to detect extra fields)
RECURSIVE BEInt(_)
BEInt(b) == IF b = <<>> THEN 0 ELSE BEInt(SubSeq(b, 1, Len(b) - 1)) * 256 + b[Len(b)]

\* ------------------------------------------------------------------ enum numbers (common.proto and the per-type protos)
HashNum(h) == CASE h = "SHA1" -> 1 [] h = "SHA384" -> 2 [] h = "SHA256" -> 3 [] h = "SHA512" -> 4 [] h = "SHA224" -> 5 [] OTHER -> 0
CurveNum(c) == CASE c = "NIST_P256" -> 2 [] c = "NIST_P384" -> 3 [] c = "NIST_P521" -> 4 [] c = "X25519" -> 5 [] OTHER -> 0
PointFormatNum(f) == CASE f = "UNCOMPRESSED" -> 1 [] f = "COMPRESSED" -> 2 [] f = "LEGACY_UNCOMPRESSED" -> 3 [] OTHER -> 0
EncodingNum(e) == CASE e = "IEEE_P1363" -> 1 [] e = "DER" -> 2 [] OTHER -> 0
MlDsaNum(i) == CASE i = "ML_DSA_65" -> 1 [] i = "ML_DSA_87" -> 2 [] i = "ML_DSA_44" -> 3 [] OTHER -> 0
SlhHashNum(h) == CASE h = "SHA2" -> 1 [] h = "SHAKE" -> 2 [] OTHER -> 0
SlhSigNum(s) == CASE s = "FAST_SIGNING" -> 1 [] s = "SMALL_SIGNATURE" -> 2 [] OTHER -> 0
KemNum(k) == CASE k = "DHKEM_X25519_HKDF_SHA256" -> 1 [] k = "DHKEM_P256_HKDF_SHA256" -> 2 [] k = "DHKEM_P384_HKDF_SHA384" -> 3
               [] k = "DHKEM_P521_HKDF_SHA512" -> 4 [] k = "X_WING" -> 5 [] k = "ML_KEM768" -> 6 [] k = "ML_KEM1024" -> 7 [] OTHER -> 0
KdfNum(k) == CASE k = "HKDF_SHA256" -> 1 [] k = "HKDF_SHA384" -> 2 [] k = "HKDF_SHA512" -> 3 [] OTHER -> 0
AeadNum(a) == CASE a = "AES_128_GCM" -> 1 [] a = "AES_256_GCM" -> 2 [] a = "CHACHA20_POLY1305" -> 3 [] OTHER -> 0
\* HS256 / ES256 / RS256 / PS256 = 1, ..384 = 2, ..512 = 3; JWT ML-DSA: 44 = 1, 65 = 2, 87 = 3
JwtAlgNum(a) == CASE a \in {"HS256", "ES256", "RS256", "PS256", "ML_DSA_44"} -> 1 [] a \in {"HS384", "ES384", "RS384", "PS384", "ML_DSA_65"} -> 2
                  [] a \in {"HS512", "ES512", "RS512", "PS512", "ML_DSA_87"} -> 3 [] OTHER -> 0

\* ------------------------------------------------------------------ key format tables
\* Ints(T, p): set of <<path, expected integer>>; Bigs(T, p): set of <<path, expected big-endian integer>>;
\* Lens(T, p): set of <<path, expected byte length>>
Ints(T, p) ==
  CASE T = "AesGcm" -> {<<<<2>>, p.keySize>>, <<<<3>>, 0>>}
    [] T = "AesCtrHmac" -> {<<<<1, 1, 1>>, p.ivSize>>, <<<<1, 2>>, p.aesKeySize>>, <<<<2, 1, 1>>, HashNum(p.hash)>>, <<<<2, 1, 2>>, p.tagSize>>,
                            <<<<2, 2>>, p.hmacKeySize>>, <<<<2, 3>>, 0>>}
    [] T = "AesGcmSiv" -> {<<<<2>>, p.keySize>>, <<<<1>>, 0>>}
    [] T = "XAesGcm" -> {<<<<3, 1>>, p.saltSize>>, <<<<1>>, 0>>}
    [] T = "AesSiv" -> {<<<<1>>, p.keySize>>, <<<<2>>, 0>>}
    [] T = "Hmac" -> {<<<<1, 1>>, HashNum(p.hash)>>, <<<<1, 2>>, p.tagSize>>, <<<<2>>, p.keySize>>, <<<<3>>, 0>>}
    [] T = "AesCmac" -> {<<<<1>>, p.keySize>>, <<<<2, 1>>, p.tagSize>>}
    [] T = "HmacPrf" -> {<<<<1, 1>>, HashNum(p.hash)>>, <<<<2>>, p.keySize>>, <<<<3>>, 0>>}
    [] T = "HkdfPrf" -> {<<<<1, 1>>, HashNum(p.hash)>>, <<<<2>>, p.keySize>>, <<<<3>>, 0>>}
    [] T = "AesCmacPrf" -> {<<<<1>>, p.keySize>>, <<<<2>>, 0>>}
    [] T = "AesGcmHkdfStreaming" -> {<<<<1, 1>>, p.segmentSize>>, <<<<1, 2>>, p.derivedKeySize>>, <<<<1, 3>>, HashNum(p.hkdfHash)>>,
                                     <<<<2>>, p.keySize>>, <<<<3>>, 0>>}
    [] T = "AesCtrHmacStreaming" -> {<<<<1, 1>>, p.segmentSize>>, <<<<1, 2>>, p.derivedKeySize>>, <<<<1, 3>>, HashNum(p.hkdfHash)>>,
                                     <<<<1, 4, 1>>, HashNum(p.hmacHash)>>, <<<<1, 4, 2>>, p.tagSize>>, <<<<2>>, p.keySize>>, <<<<3>>, 0>>}
    [] T = "Ecdsa" -> {<<<<2, 1>>, HashNum(p.hash)>>, <<<<2, 2>>, CurveNum(p.curve)>>, <<<<2, 3>>, EncodingNum(p.encoding)>>, <<<<3>>, 0>>}
    [] T = "RsaSsaPkcs1" -> {<<<<1, 1>>, HashNum(p.hash)>>, <<<<2>>, p.modulusBits>>}
    [] T = "RsaSsaPss" -> {<<<<1, 1>>, HashNum(p.hash)>>, <<<<1, 2>>, HashNum(p.mgf1Hash)>>, <<<<1, 3>>, p.saltSize>>, <<<<2>>, p.modulusBits>>}
    [] T = "MlDsa" -> {<<<<2, 1>>, MlDsaNum(p.instance)>>, <<<<1>>, 0>>}
    [] T = "SlhDsa" -> {<<<<2, 1>>, p.keySize>>, <<<<2, 2>>, SlhHashNum(p.hash)>>, <<<<2, 3>>, SlhSigNum(p.sigType)>>, <<<<1>>, 0>>}
    [] T = "Hpke" -> {<<<<1, 1>>, KemNum(p.kem)>>, <<<<1, 2>>, KdfNum(p.kdf)>>, <<<<1, 3>>, AeadNum(p.aead)>>}
    [] T = "JwtHmac" -> {<<<<2>>, JwtAlgNum(p.algorithm)>>, <<<<3>>, p.keySize>>, <<<<1>>, 0>>}
    [] T \in {"JwtEcdsa", "JwtMlDsa"} -> {<<<<2>>, JwtAlgNum(p.algorithm)>>, <<<<1>>, 0>>}
    [] T \in {"JwtRsaSsaPkcs1", "JwtRsaSsaPss"} -> {<<<<2>>, JwtAlgNum(p.algorithm)>>, <<<<3>>, p.modulusBits>>, <<<<1>>, 0>>}
    [] OTHER -> {}
Bigs(T, p) ==
  CASE T \in {"RsaSsaPkcs1", "RsaSsaPss"} -> {<<<<3>>, p.exponent>>}
    [] T \in {"JwtRsaSsaPkcs1", "JwtRsaSsaPss"} -> {<<<<4>>, p.exponent>>}
    [] OTHER -> {}
Lens(T, p) ==
  CASE T = "HkdfPrf" -> {<<<<1, 2>>, p.saltSize>>}
    [] OTHER -> {}
\* key types whose key format this module describes (ChaCha20-Poly1305, XChaCha20-Poly1305, Ed25519: empty formats;
\* ECIES, composite ML-DSA, PRF-based deriver: nested templates, not transcribed)
Described == {"AesGcm", "AesCtrHmac", "AesGcmSiv", "XAesGcm", "AesSiv", "Hmac", "AesCmac", "HmacPrf", "HkdfPrf", "AesCmacPrf",
              "AesGcmHkdfStreaming", "AesCtrHmacStreaming", "Ecdsa", "RsaSsaPkcs1", "RsaSsaPss", "MlDsa", "SlhDsa", "Hpke",
              "JwtHmac", "JwtEcdsa", "JwtMlDsa", "JwtRsaSsaPkcs1", "JwtRsaSsaPss"}

\* the first parameter the template does not carry where the .proto file says, or <<>>
RECURSIVE PathStr(_)
PathStr(path) == IF path = <<>> THEN "" ELSE ToString(path[1]) \o (IF Len(path) > 1 THEN "." ELSE "") \o PathStr(Tail(path))
TemplateMismatch(T, p, hex) ==
  IF T \notin Described THEN <<>>
  ELSE LET b == HexToSeq(hex)
           badI == {x \in Ints(T, p) : IntAt(b, x[1]) # x[2]}
           badB == {x \in Bigs(T, p) : BEInt(BytesAt(b, x[1])) # x[2]}
           badL == {x \in Lens(T, p) : Len(BytesAt(b, x[1])) # x[2]}
       IN IF ~WellFormedMsg(b) THEN <<"malformed", "">>
          ELSE IF badI # {} THEN LET x == CHOOSE x \in badI : TRUE IN <<PathStr(x[1]), ToString(x[2])>>
          ELSE IF badB # {} THEN LET x == CHOOSE x \in badB : TRUE IN <<PathStr(x[1]), ToString(x[2])>>
          ELSE IF badL # {} THEN LET x == CHOOSE x \in badL : TRUE IN <<PathStr(x[1]), "length " \o ToString(x[2])>>
          ELSE <<>>
================================================================================
