------------------------------- MODULE Derivation -------------------------------
(* Keyset derivation (keyderivation.New(handle).DeriveKeyset(salt)) as a function  *)
(* of (deriver keyset, salt).                                                      *)
(*                                                                                 *)
(* A deriver keyset is a sequence of entries                                       *)
(*   [id |-> "8 hex digits", status, primary,                                      *)
(*    prfHash, prfSalt, prfKey      the HKDF-PRF key of the deriver key             *)
(*    d |-> parameters of the key to derive: [type, variant, keySize, hash,        *)
(*          tagSize, salt]]                                                        *)
(* Derive(ks, salt) holds one ENABLED key per ENABLED deriver key, in keyset order, *)
(* with the same id, the same primary designation, the prefix type (variant) of    *)
(* the derived-key parameters, and key material                                    *)
(*     MapRule(d, HKDF-stream(prfHash; IKM = prfKey, salt = prfSalt, info = salt)) *)
(* where the stream is RFC 5869 output read sequentially from its start (module    *)
(* HKDF) and MapRule takes its leading bytes:                                      *)
(*   AESGCM, AESSIV, HMAC, HKDFPRF, HMACPRF, AESGCMHKDF : keySize bytes = the key   *)
(*   XCHACHA                                            : 32 bytes = the key        *)
(*   ED25519                                            : 32 bytes = the RFC 8032 seed *)
(* Derivation fails when a key needs more than the 255 * HashLen bytes HKDF has.   *)
EXTENDS PRF, MACTag, DAEAD, ChaChaX, AESGCM

DerivableTypes == {"AESGCM", "XCHACHA", "AESSIV", "HMAC", "HKDFPRF", "HMACPRF", "ED25519", "AESGCMHKDF"}

\* number of leading stream bytes a key of parameters d consumes
Need(d) == IF d.type \in {"XCHACHA", "ED25519"} THEN 32 ELSE d.keySize

\* per-type rule on an arbitrary pseudorandom stream: <<TRUE, material>> or <<FALSE, <<>>>>
MapRule(d, stream) ==
  IF Len(stream) < Need(d) THEN <<FALSE, <<>>>> ELSE <<TRUE, Take(stream, Need(d))>>

\* material of the key derived by deriver entry e for a caller salt: the leading Need bytes of the
\* HKDF stream, i.e. (prefix law of HKDF-Expand) HKDF with L = Need
Material(e, salt) == HKDF(e.prfHash, e.prfKey, e.prfSalt, salt, Need(e.d))
\* the same through the stream and the rule (used to cross-check the two formulations)
MaterialViaStream(e, salt) == MapRule(e.d, HKDFStream(e.prfHash, e.prfKey, e.prfSalt, salt))

DerEnabled(ks) == SelectSeq(ks, LAMBDA e : e.status = "ENABLED")

DerivedEntry(e, salt) ==
  [id |-> e.id, status |-> "ENABLED", primary |-> e.primary, type |-> e.d.type, variant |-> e.d.variant,
   keySize |-> e.d.keySize, hash |-> e.d.hash, tagSize |-> e.d.tagSize, salt |-> e.d.salt,
   material |-> Material(e, salt)[2]]

\* <<TRUE, derived keyset>> or <<FALSE, <<>>>>
Derive(ks, salt) ==
  LET en == DerEnabled(ks)
  IN IF \E i \in DOMAIN en : ~Material(en[i], salt)[1] THEN <<FALSE, <<>>>>
     ELSE <<TRUE, [i \in DOMAIN en |-> DerivedEntry(en[i], salt)]>>

DerivedPrimary(dks) == dks[CHOOSE i \in DOMAIN dks : dks[i].primary]

\* ---- derived keys are ordinary keys of their type: what their primitives must compute ----
IdBytes(k) == HexToBytes(k.id)
\* AEAD (AESGCM: 12-byte IV, 16-byte tag; XCHACHA): open Tink's ciphertext with the reference key
AeadOpen(k, ct, ad) ==
  LET p == Prefix(k.variant, IdBytes(k))
  IN IF ~IsPrefixOf(p, ct) THEN <<FALSE, <<>>>>
     ELSE IF k.type = "AESGCM" THEN AESGCMOpenRaw(k.material, Drop(ct, Len(p)), ad)
     ELSE XChaChaOpenRaw(k.material, Drop(ct, Len(p)), ad)
\* Ed25519: the public key of the derived seed, and verification of a Tink signature under it
EdPublic(k) == Ed25519Public(k.material)
EdVerify(k, msg, sig) ==
  LET p == Prefix(k.variant, IdBytes(k))
  IN IsPrefixOf(p, sig) /\ Ed25519Verify(EdPublic(k), LegacyMsg(k.variant, msg), Drop(sig, Len(p)))
\* HMAC tag, AES-SIV ciphertext, PRF output
MacTagOf(k, msg) == Tag([alg |-> "HMAC", hash |-> k.hash, tagSize |-> k.tagSize, variant |-> k.variant, id |-> IdBytes(k)], k.material, msg)
DaeadCt(k, pt, ad) == KeyCt([id |-> IdBytes(k), variant |-> k.variant, key |-> k.material], pt, ad)
PrfOut(k, x, n) == PRFCompute([alg |-> IF k.type = "HKDFPRF" THEN "HKDF" ELSE "HMAC", hash |-> k.hash, salt |-> k.salt], k.material, x, n)
================================================================================
