----------------------------- MODULE KeysetHandle -----------------------------
(* keyset.Handle as an immutable value with its accessor API, and the part of          *)
(* keyset.Manager that KeysetManager.tla (property C11) leaves out: AddKeyWithOpts     *)
(* with its options and SetAnnotations (keyset/manager.go, handle.go, option.go,       *)
(* keyset.go, insecurecleartextkeyset, testkeyset).                                    *)
(*                                                                                     *)
(* KeysetManager is used READ-ONLY through INSTANCE: its variables mgr / handles / res *)
(* and its actions are this module's too.  What a C11 entry does not carry -- the kind *)
(* of key material of every key (Public() and the no-secrets import depend on it) and  *)
(* the monitoring annotations of managers and handles -- lives in two parallel         *)
(* variables kx / hx.  Every C11 action is taken over verbatim (M!Add... /\ tracking), *)
(* so that histories mixing the old and the new operations are explored and every C11  *)
(* invariant / action property can be stated about them.                               *)
(*                                                                                     *)
(* The new manager actions are written AS THE CODE DOES IT.  AddKeyWithOpts folds its  *)
(* options over a pending entry in the order given (ApplyOpt), then checks the status, *)
(* then -- if AsPrimary was given -- clears the primary flag of every existing entry,  *)
(* and only then looks at the id.  If the fixed id (from WithFixedID or from the key's *)
(* own ID requirement) is already unavailable, the call returns an error AFTER the     *)
(* primaries have been cleared: action AddOptsCollisionClearsPrimary.  That action is  *)
(* the documented deviation (DESIGN.md section 9): it is the only action of this module*)
(* that violates a C11 clause (ErrLeavesUnchanged, and the derived PrimaryNeverLost);  *)
(* spec/mc/MC_KeysetHandle_dev_*.cfg expect exactly that counterexample.               *)
(*                                                                                     *)
(* Handle-level operations are pure: they change neither a manager nor any live handle *)
(* (UNCHANGED below is the specification of purity; the conformance driver logs the    *)
(* full projection of every manager and every live handle after every call).           *)
EXTENDS Integers, Sequences, FiniteSets, SequencesExt

CONSTANTS ID,          \* key ids
          Mgr,         \* manager identities
          NoReq,       \* "the key has no ID requirement"
          AnnVals,     \* annotation maps a caller may pass (opaque values; besides AnnNil)
          MatIn        \* kinds of key material with which keys are added (a subset of Mat)

VARIABLES mgr, handles, res,   \* exactly KeysetManager's
          kx,                  \* [Mgr -> [mat : [ids of the entries -> Mat], ann : Ann]]
          hx,                  \* one [mat, ann] per element of handles
          io                   \* arguments and outputs of the last call (output only)

M == INSTANCE KeysetManager

vars == <<mgr, handles, res, kx, hx, io>>

Mat    == {"PRIVATE", "PUBLIC", "SYMMETRIC"}   \* proto KeyMaterialType classes that matter here
AnnNil == "nil"                                 \* no annotations map at all
Ann    == AnnVals \cup {AnnNil}
StatusArg == M!Status \cup {"UNKNOWN"}          \* what a caller can pass to WithStatus

AnyMgr == CHOOSE m \in Mgr : TRUE
Ok(op, m, id)  == M!Ok(op, m, id)
Err(op, m, id) == M!Err(op, m, id)
Call(args, out) == [args |-> args, out |-> out]
None == [none |-> TRUE]

(******************************** material tracking ********************************)
(* ids are unique inside a keyset (M!ManagerInv), so the kind of material is kept   *)
(* per id: surviving ids keep theirs, a new id gets newmat.                         *)
Track(m, newmat) ==
  LET old == kx[m].mat IN
  kx' = [kx EXCEPT ![m].mat = [i \in M!Ids(mgr'[m].entries) |-> IF i \in DOMAIN old THEN old[i] ELSE newmat]]

\* a handle as its user sees it: the C11 entry plus the kind of material, in order
HView(es, x)  == [i \in DOMAIN es |-> [id |-> es[i].id, status |-> es[i].status, primary |-> es[i].primary,
                                       req |-> es[i].req, mat |-> x.mat[es[i].id]]]
HandleView(h) == HView(handles[h], hx[h])
MgrView(m)    == [entries |-> HView(mgr[m].entries, kx[m]), unavail |-> mgr[m].unavail, ann |-> kx[m].ann]

(************************ the C11 operations, taken over verbatim ************************)
AddRandom(m, id, withReq, mat) ==
  /\ mat \in MatIn \ {"PUBLIC"}            \* templates / parameters generate symmetric or private keys
  /\ M!AddRandom(m, id, withReq) /\ Track(m, mat) /\ UNCHANGED hx
  /\ io' = Call([id |-> id, withReq |-> withReq, mat |-> mat], None)

AddFail(m, burn) ==
  /\ M!AddFail(m, burn) /\ UNCHANGED <<kx, hx>>
  /\ io' = Call([burn |-> burn], None)

AddKeyReq(m, r, mat) ==
  /\ mat \in MatIn
  /\ M!AddKeyReq(m, r) /\ Track(m, mat) /\ UNCHANGED hx
  /\ io' = Call([id |-> r, mat |-> mat], None)

IdOp(op, m, id) ==
  /\ CASE op = "SetPrimary" -> M!SetPrimary(m, id)
       [] op = "Enable"     -> M!Enable(m, id)
       [] op = "Disable"    -> M!Disable(m, id)
       [] op = "Delete"     -> M!Delete(m, id)
  /\ Track(m, "SYMMETRIC")                 \* no new id appears; Delete drops one
  /\ UNCHANGED hx
  /\ io' = Call([id |-> id], None)

(* Handle(): the snapshot carries the manager's annotations (WithAnnotations(km.annotations)). *)
Handle(m) ==
  /\ M!Handle(m)
  /\ hx' = IF res'.err THEN hx ELSE Append(hx, [mat |-> kx[m].mat, ann |-> kx[m].ann])
  /\ UNCHANGED kx
  /\ io' = Call(None, None)

(* NewManagerFromHandle(h): entries and ids of h; the handle's annotations are NOT taken over *)
(* (undocumented; as the code does it).                                                       *)
FromHandle(m, h) ==
  /\ M!FromHandle(m, h)
  /\ kx' = [kx EXCEPT ![m] = [mat |-> hx[h].mat, ann |-> AnnNil]]
  /\ UNCHANGED hx
  /\ io' = Call([h |-> h], None)

(******************************** AddKeyWithOpts ********************************)
(* An option is [o, s, id]: o = "status" (WithStatus(s)), "fixed" (WithFixedID(id)),  *)
(* "primary" (AsPrimary()); the unused fields are "" / NoReq.                          *)
Opt == [o : {"status"}, s : StatusArg, id : {NoReq}]
       \cup [o : {"fixed"}, s : {""}, id : ID]
       \cup [o : {"primary"}, s : {""}, id : {NoReq}]

(* manager.go: e := &entry{key, fixedID: idReq, hasFixedID: isRequired, status: Enabled}     *)
Pending(r) == [fixed |-> r, hasFixed |-> r # NoReq, status |-> "ENABLED", primary |-> FALSE, fail |-> FALSE]

(* opt.apply(e): a later option overrides an earlier one of the same kind; WithFixedID fails *)
(* (and ends the call) iff the key has an ID requirement different from the given id.        *)
ApplyOpt(r, e, o) ==
  IF e.fail THEN e
  ELSE CASE o.o = "status"  -> [e EXCEPT !.status = o.s]
         [] o.o = "fixed"   -> IF r # NoReq /\ r # o.id THEN [e EXCEPT !.fail = TRUE]
                               ELSE [e EXCEPT !.fixed = o.id, !.hasFixed = TRUE]
         [] o.o = "primary" -> [e EXCEPT !.primary = TRUE]

Folded(r, opts) == FoldLeft(LAMBDA e, o : ApplyOpt(r, e, o), Pending(r), opts)

(* the order of the checks in AddKeyWithOpts *)
Verdict(m, r, opts) ==
  LET e == Folded(r, opts) IN
  IF e.fail                                    THEN "idConflict"        \* WithFixedID against the key's requirement
  ELSE IF e.status = "UNKNOWN"                 THEN "unknownStatus"
  ELSE IF e.primary /\ e.status # "ENABLED"    THEN "primaryNotEnabled"
  ELSE IF e.hasFixed /\ e.fixed \in mgr[m].unavail THEN "collision"
  ELSE "ok"

Cleared(es) == [i \in DOMAIN es |-> [es[i] EXCEPT !.primary = FALSE]]

OptArgs(r, mat, opts) == [r |-> r, mat |-> mat, opts |-> opts]

(* refused before anything is touched (the kind of material plays no role) *)
AddOptsRefused(m, r, opts) ==
  /\ r \in ID \cup {NoReq}
  /\ Verdict(m, r, opts) \in {"idConflict", "unknownStatus", "primaryNotEnabled"}
  /\ res' = Err("AddOptsRefused", m, r)
  /\ io' = Call(OptArgs(r, "SYMMETRIC", opts), Verdict(m, r, opts))
  /\ UNCHANGED <<mgr, handles, kx, hx>>

(* the id is taken and AsPrimary was not requested: nothing changes *)
AddOptsCollision(m, r, opts) ==
  /\ r \in ID \cup {NoReq}
  /\ Verdict(m, r, opts) = "collision" /\ ~Folded(r, opts).primary
  /\ res' = Err("AddOptsCollision", m, Folded(r, opts).fixed)
  /\ io' = Call(OptArgs(r, "SYMMETRIC", opts), "collision")
  /\ UNCHANGED <<mgr, handles, kx, hx>>

(* THE DEVIATION: the id is taken and AsPrimary was requested (status ENABLED): every existing *)
(* entry has lost its primary flag by the time the collision is noticed; the error is returned *)
(* and the manager is left without a primary.                                                  *)
AddOptsCollisionClearsPrimary(m, r, opts) ==
  /\ r \in ID \cup {NoReq}
  /\ Verdict(m, r, opts) = "collision" /\ Folded(r, opts).primary
  /\ mgr' = [mgr EXCEPT ![m].entries = Cleared(@)]
  /\ res' = Err("AddOptsCollisionClearsPrimary", m, Folded(r, opts).fixed)
  /\ io' = Call(OptArgs(r, "SYMMETRIC", opts), "collision")
  /\ UNCHANGED <<handles, kx, hx>>

(* accepted: the id is the fixed id, else a random draw that is still available (draw) *)
AddOptsOk(m, r, mat, opts, draw) ==
  LET e  == Folded(r, opts)
      id == IF e.hasFixed THEN e.fixed ELSE draw
      es == IF e.primary THEN Cleared(mgr[m].entries) ELSE mgr[m].entries
  IN
  /\ mat \in MatIn /\ r \in ID \cup {NoReq}
  /\ Verdict(m, r, opts) = "ok"
  /\ id \in ID \ mgr[m].unavail
  /\ e.hasFixed => draw = e.fixed                      \* (no draw happens; keeps the action deterministic in its arguments)
  /\ mgr' = [mgr EXCEPT ![m].entries = Append(es, [id |-> id, status |-> e.status, primary |-> e.primary, req |-> r]),
                        ![m].unavail = @ \cup {id}]
  /\ res' = Ok("AddOptsOk", m, id)
  /\ io' = Call(OptArgs(r, mat, opts), "ok")
  /\ Track(m, mat)
  /\ UNCHANGED <<handles, hx>>

(* AddKeyWithOpts(nil, ...) *)
AddOptsNilKey(m, opts) ==
  /\ res' = Err("AddOptsNilKey", m, NoReq)
  /\ io' = Call([opts |-> opts], None)
  /\ UNCHANGED <<mgr, handles, kx, hx>>

(******************************** SetAnnotations ********************************)
(* the manager keeps a COPY of the map (documented); Handle() hands it to the snapshot *)
SetAnnotations(m, a) ==
  /\ a \in Ann
  /\ kx' = [kx EXCEPT ![m].ann = a]
  /\ res' = Ok("SetAnnotations", m, NoReq)
  /\ io' = Call([a |-> a], None)
  /\ UNCHANGED <<mgr, handles, hx>>

(* SetAnnotations on a nil *Manager: an error, nothing else *)
SetAnnotationsNilMgr(a) ==
  /\ a \in Ann
  /\ res' = Err("SetAnnotationsNilMgr", AnyMgr, NoReq)
  /\ io' = Call([a |-> a], None)
  /\ UNCHANGED <<mgr, handles, kx, hx>>

(******************************** handle accessors (pure) ********************************)
Pure(op, err, args, out) ==
  /\ res' = IF err THEN Err(op, AnyMgr, NoReq) ELSE Ok(op, AnyMgr, NoReq)
  /\ io' = Call(args, out)
  /\ UNCHANGED <<mgr, handles, kx, hx>>

(* Len() *)
HLen(h) == h \in DOMAIN handles /\ Pure("HLen", FALSE, [h |-> h], Len(handles[h]))

(* Entry(i): i must be within [0, Len()); i is 0-based as in Go *)
EntryOf(h, i) == HandleView(h)[i + 1]
HEntry(h, i) ==
  /\ h \in DOMAIN handles
  /\ IF 0 <= i /\ i < Len(handles[h])
       THEN Pure("HEntry", FALSE, [h |-> h, i |-> i], EntryOf(h, i))
       ELSE Pure("HEntry", TRUE,  [h |-> h, i |-> i], None)

(* Primary(): the entry that carries the primary flag (newFromEntries keeps the LAST flagged one; *)
(* every handle has exactly one: M!HandleWellFormed)                                              *)
PrimaryIdx(es) == CHOOSE i \in DOMAIN es : es[i].primary /\ \A j \in DOMAIN es : es[j].primary => j <= i
HPrimary(h) ==
  /\ h \in DOMAIN handles
  /\ Pure("HPrimary", FALSE, [h |-> h], HandleView(h)[PrimaryIdx(handles[h])])

(* KeysetInfo(): the projection without key material; prefix is RAW iff the key has no ID requirement *)
InfoOf(v) == [primary |-> v[PrimaryIdx(v)].id,
              keys |-> [i \in DOMAIN v |-> [id |-> v[i].id, status |-> v[i].status, raw |-> v[i].req = NoReq, mat |-> v[i].mat]]]
HInfo(h)   == h \in DOMAIN handles /\ Pure("HInfo",   FALSE, [h |-> h], InfoOf(HandleView(h)))
(* String(): a text rendering of KeysetInfo() (parsed back by the driver) *)
HString(h) == h \in DOMAIN handles /\ Pure("HString", FALSE, [h |-> h], InfoOf(HandleView(h)))

(* Public(): every key must be a private key; ids, statuses, the primary flag, the order and the  *)
(* ID requirements survive; the result is a NEW handle (without annotations: as the code does it) *)
AllPrivate(h) == \A i \in DOMAIN hx[h].mat : hx[h].mat[i] = "PRIVATE"
HPublic(h) ==
  /\ h \in DOMAIN handles
  /\ IF AllPrivate(h)
       THEN /\ handles' = Append(handles, handles[h])
            /\ hx' = Append(hx, [mat |-> [i \in DOMAIN hx[h].mat |-> "PUBLIC"], ann |-> AnnNil])
            /\ res' = Ok("HPublic", AnyMgr, NoReq)
       ELSE /\ res' = Err("HPublic", AnyMgr, NoReq)
            /\ UNCHANGED <<handles, hx>>
  /\ io' = Call([h |-> h], None)
  /\ UNCHANGED <<mgr, kx>>

(* methods of a nil *Handle (code behaviour, undocumented): Len() = 0, Entry/Primary/Public fail *)
HNil(op) ==
  /\ op \in {"Len", "Entry", "Primary", "Public"}
  /\ Pure("HNil", op # "Len", [op |-> op], IF op = "Len" THEN 0 ELSE None)

(******************************** constructors ********************************)
(* functional forms of three C11 actions; AgreesWithC11 below ties them to M's actions *)
FAdd(es, id, withReq) == Append(es, M!NewEntry(id, IF withReq THEN id ELSE NoReq))
FSetPrimary(es, id)   == [i \in DOMAIN es |-> [es[i] EXCEPT !.primary = (es[i].id = id)]]
(* NewHandle(template) = NewManager().Add(template); SetPrimary(id); Handle() *)
NewHandleResult(id, withReq) == FSetPrimary(FAdd(<<>>, id, withReq), id)

NewHandle(id, withReq, mat) ==
  /\ id \in ID /\ mat \in MatIn \ {"PUBLIC"}
  /\ handles' = Append(handles, NewHandleResult(id, withReq))
  /\ hx' = Append(hx, [mat |-> [i \in {id} |-> mat], ann |-> AnnNil])
  /\ res' = [Ok("NewHandle", AnyMgr, id) EXCEPT !.h = Len(handles) + 1]
  /\ io' = Call([id |-> id, withReq |-> withReq, mat |-> mat], None)
  /\ UNCHANGED <<mgr, kx>>

(* a template that Add refuses (nil, unknown prefix, unknown key type) *)
NewHandleFail ==
  /\ Pure("NewHandleFail", TRUE, None, None)

(* The cleartext key material of a handle and the ways to make a handle from it:                *)
(*   KeysetMaterial:  insecurecleartextkeyset.KeysetMaterial = testkeyset.KeysetMaterial         *)
(*   constructors:    keyset.NewHandleWithNoSecrets (only without secret material),              *)
(*                    insecurecleartextkeyset.{KeysetHandle, Read}, testkeyset.{NewHandle,       *)
(*                    KeysetHandle, Read}, and Handle.Write + keyset.Read under a key-encryption *)
(*                    AEAD ("encrypted").  All give a handle with the same projection; none      *)
(*                    carries annotations over (a serialized keyset has none).                   *)
Ctors == {"noSecrets", "ictKeysetHandle", "ictRead", "tkNewHandle", "tkKeysetHandle", "tkRead", "encrypted"}
HasSecrets(h) == \E i \in DOMAIN hx[h].mat : hx[h].mat[i] \in {"PRIVATE", "SYMMETRIC"}
MaterialOf(h) == InfoOf(HandleView(h))     \* the proto keyset seen without its key bytes

Import(h, ctor) ==
  /\ h \in DOMAIN handles /\ ctor \in Ctors
  /\ IF ctor = "noSecrets" /\ HasSecrets(h)
       THEN /\ res' = [Err("Import", AnyMgr, NoReq) EXCEPT !.h = h]
            /\ UNCHANGED <<handles, hx>>
       ELSE /\ handles' = Append(handles, handles[h])
            /\ hx' = Append(hx, [mat |-> hx[h].mat, ann |-> AnnNil])
            /\ res' = [Ok("Import", AnyMgr, NoReq) EXCEPT !.h = h]
  /\ io' = Call([h |-> h, ctor |-> ctor], MaterialOf(h))
  /\ UNCHANGED <<mgr, kx>>

(* insecurecleartextkeyset.Read(r, WithAnnotations(a1), WithAnnotations(a2), ...): an option is *)
(* refused when the handle already has a (non-nil) map (option.go)                               *)
AnnFold(as) == FoldLeft(LAMBDA c, a : IF c.fail \/ c.ann # AnnNil THEN [c EXCEPT !.fail = TRUE] ELSE [c EXCEPT !.ann = a],
                        [ann |-> AnnNil, fail |-> FALSE], as)
ImportAnn(h, as) ==
  /\ h \in DOMAIN handles /\ as \in Seq(Ann)
  /\ IF AnnFold(as).fail
       THEN /\ res' = [Err("ImportAnn", AnyMgr, NoReq) EXCEPT !.h = h]
            /\ UNCHANGED <<handles, hx>>
       ELSE /\ handles' = Append(handles, handles[h])
            /\ hx' = Append(hx, [mat |-> hx[h].mat, ann |-> AnnFold(as).ann])
            /\ res' = [Ok("ImportAnn", AnyMgr, NoReq) EXCEPT !.h = h]
  /\ io' = Call([h |-> h, anns |-> as], None)
  /\ UNCHANGED <<mgr, kx>>

(******************************** the state machine ********************************)
EmptyX == [mat |-> <<>>, ann |-> AnnNil]

Init ==
  /\ M!Init({})
  /\ kx = [m \in Mgr |-> EmptyX] /\ hx = <<>>
  /\ io = Call(None, None)

(* OptLists: the option lists tried (a parameter of Next: configurations choose it) *)
ManagerNext(OptLists, m) ==
  \/ \E id \in ID, w \in BOOLEAN, mat \in MatIn : AddRandom(m, id, w, mat)
  \/ \E b \in SUBSET ID : AddFail(m, b)
  \/ \E id \in ID, mat \in MatIn : AddKeyReq(m, id, mat)
  \/ \E id \in ID, op \in {"SetPrimary", "Enable", "Disable", "Delete"} : IdOp(op, m, id)
  \/ Handle(m)
  \/ \E h \in DOMAIN handles : FromHandle(m, h)
  \/ \E a \in Ann : SetAnnotations(m, a)
  \/ \E r \in ID \cup {NoReq}, opts \in OptLists :
        \/ AddOptsRefused(m, r, opts)
        \/ AddOptsCollision(m, r, opts)
        \/ \E mat \in MatIn, d \in ID : AddOptsOk(m, r, mat, opts, d)
  \/ \E opts \in OptLists : Len(opts) <= 1 /\ AddOptsNilKey(m, opts)

Deviation(OptLists, m) ==
  \E r \in ID \cup {NoReq}, opts \in OptLists : AddOptsCollisionClearsPrimary(m, r, opts)

HandleOps(AnnLists) ==          \* calls on a live handle
  \E h \in DOMAIN handles :
     \/ HLen(h) \/ HPrimary(h) \/ HInfo(h) \/ HString(h) \/ HPublic(h)
     \/ \E i \in -1 .. Len(handles[h]) + 1 : HEntry(h, i)
     \/ \E c \in Ctors : Import(h, c)
     \/ \E as \in AnnLists : ImportAnn(h, as)

GlobalOps ==                    \* calls that involve no live object
  \/ \E op \in {"Len", "Entry", "Primary", "Public"} : HNil(op)
  \/ \E id \in ID, w \in BOOLEAN, mat \in MatIn : NewHandle(id, w, mat)
  \/ NewHandleFail
  \/ \E a \in Ann : SetAnnotationsNilMgr(a)

HandleNext(AnnLists) == HandleOps(AnnLists) \/ GlobalOps

NextNoDev(OptLists, AnnLists) == (\E m \in Mgr : ManagerNext(OptLists, m)) \/ HandleNext(AnnLists)
Next(OptLists, AnnLists)      == NextNoDev(OptLists, AnnLists) \/ \E m \in Mgr : Deviation(OptLists, m)

(************************************ properties ************************************)
TypeOK ==
  /\ M!TypeOK
  /\ \A m \in Mgr : /\ kx[m].ann \in Ann
                    /\ DOMAIN kx[m].mat = M!Ids(mgr[m].entries)
                    /\ \A i \in DOMAIN kx[m].mat : kx[m].mat[i] \in Mat
  /\ Len(hx) = Len(handles)
  /\ \A h \in DOMAIN handles : /\ hx[h].ann \in Ann
                               /\ DOMAIN hx[h].mat = M!Ids(handles[h])
                               /\ \A i \in DOMAIN hx[h].mat : hx[h].mat[i] \in Mat

(* the C11 clauses, about this module's behaviours *)
C11_HandleWellFormed   == M!HandleWellFormed
C11_ManagerInv         == M!ManagerInv
C11_ErrLeavesUnchanged == M!ErrLeavesUnchanged       \* violated by AddOptsCollisionClearsPrimary only
C11_PrimaryProtected   == M!PrimaryProtected
C11_HandlesImmutable   == M!HandlesImmutable
C11_ManagersIsolated   == M!ManagersIsolated
C11_IdsStayUnavailable == M!IdsStayUnavailable

(* A consequence of the C11 clauses for the listed operations: a manager that has a primary (can *)
(* produce a handle) still has one after any call other than starting over.  Violated by         *)
(* AddOptsCollisionClearsPrimary only.                                                           *)
PrimaryNeverLost ==
  [][\A m \in Mgr : (res'.op = "FromHandle" /\ res'.m = m) \/
       (M!HasPrimary(mgr[m].entries) => M!HasPrimary(mgr'[m].entries))]_vars

(* which action changed the keyset although it returned an error *)
OnlyTheDeviationBreaksIt ==
  [][(res'.err /\ \E m \in Mgr : mgr'[m].entries # mgr[m].entries) => res'.op = "AddOptsCollisionClearsPrimary"]_vars

OnlyTheDeviationLosesPrimary ==
  [][(\E m \in Mgr : ~(res'.op = "FromHandle" /\ res'.m = m) /\ M!HasPrimary(mgr[m].entries) /\ ~M!HasPrimary(mgr'[m].entries))
        => res'.op = "AddOptsCollisionClearsPrimary"]_vars

(* handles are values: the material/annotation track of a handle never changes either *)
HandleMetaImmutable == [][IsPrefix(hx, hx')]_vars

(* accessors are pure *)
PureOps == {"HLen", "HEntry", "HPrimary", "HInfo", "HString", "HNil", "NewHandleFail", "SetAnnotationsNilMgr",
            "AddOptsRefused", "AddOptsCollision", "AddOptsNilKey"}
AccessorsPure == [][res'.op \in PureOps => UNCHANGED <<mgr, handles, kx, hx>>]_vars

(* what AddKeyWithOpts promises when it succeeds (the documented options) *)
AddOptsPost ==
  [][res'.op = "AddOptsOk" =>
       LET m == res'.m  es == mgr'[m].entries  e == es[Len(es)]  o == io'.args.opts
           st == {i \in DOMAIN o : o[i].o = "status"}   fx == {i \in DOMAIN o : o[i].o = "fixed"} IN
       /\ Len(es) = Len(mgr[m].entries) + 1 /\ e.id = res'.id /\ e.req = io'.args.r
       /\ e.status = (IF st = {} THEN "ENABLED" ELSE o[CHOOSE i \in st : \A j \in st : j <= i].s)
       /\ fx # {} => e.id = o[CHOOSE i \in fx : \A j \in fx : j <= i].id
       /\ io'.args.r # NoReq => e.id = io'.args.r
       /\ e.primary = (\E i \in DOMAIN o : o[i].o = "primary")
       /\ e.primary => \A i \in 1 .. Len(es) - 1 : ~es[i].primary
       /\ ~e.primary => SubSeq(es, 1, Len(es) - 1) = mgr[m].entries
       /\ \A i \in 1 .. Len(es) - 1 : es[i].id = mgr[m].entries[i].id /\ es[i].status = mgr[m].entries[i].status
       /\ kx'[m].mat[e.id] = io'.args.mat]_vars

(* AddKey(key) of C11 is AddKeyWithOpts without options *)
AddKeyIsAddOptsEmpty ==
  [][/\ res'.op = "AddKeyReq" =>
          IF res'.err THEN Verdict(res'.m, res'.id, <<>>) = "collision" /\ mgr' = mgr
          ELSE /\ Verdict(res'.m, res'.id, <<>>) = "ok"
               /\ mgr'[res'.m].entries = Append(mgr[res'.m].entries, [id |-> res'.id, status |-> "ENABLED", primary |-> FALSE, req |-> res'.id])
     /\ (res'.op \in {"AddOptsOk"} /\ io'.args.opts = <<>> /\ io'.args.r # NoReq) =>
          mgr'[res'.m].entries = Append(mgr[res'.m].entries, M!NewEntry(io'.args.r, io'.args.r))]_vars

(* the functional forms used by NewHandle agree with the C11 actions *)
AgreesWithC11 ==
  [][/\ (res'.op = "AddRandom" /\ ~res'.err) =>
          mgr'[res'.m].entries = FAdd(mgr[res'.m].entries, res'.id, io'.args.withReq)
     /\ (res'.op = "SetPrimary" /\ ~res'.err) =>
          mgr'[res'.m].entries = FSetPrimary(mgr[res'.m].entries, res'.id)
     /\ (res'.op = "Handle" /\ ~res'.err) => handles'[Len(handles')] = mgr[res'.m].entries
     /\ res'.op = "NewHandle" => M!WellFormedKeyset(handles'[Len(handles')])]_vars

(* Public() and the constructors preserve the projection; Public() flips the material *)
DerivedHandlesAgree ==
  [][/\ (res'.op \in {"Import", "ImportAnn"} /\ ~res'.err) =>
          /\ handles'[Len(handles')] = handles[res'.h]
          /\ hx'[Len(hx')].mat = hx[res'.h].mat
     /\ (res'.op = "HPublic" /\ ~res'.err) =>
          /\ handles'[Len(handles')] = handles[io'.args.h]
          /\ \A i \in DOMAIN hx'[Len(hx')].mat : hx'[Len(hx')].mat[i] = "PUBLIC"]_vars

(* keyset.NewHandleWithNoSecrets never yields a handle that holds secret material *)
NoSecretsGuard ==
  [][(res'.op = "Import" /\ io'.args.ctor = "noSecrets" /\ ~res'.err) =>
        \A i \in DOMAIN hx'[Len(hx')].mat : hx'[Len(hx')].mat[i] = "PUBLIC"]_vars
================================================================================
