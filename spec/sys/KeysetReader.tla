------------------------------- MODULE KeysetReader -------------------------------
(* C07, keyset level: streamingaead/decrypt_reader.go.  NewDecryptingReader of the  *)
(* wrapped primitive does no I/O; the FIRST Read tries the keys of the keyset in    *)
(* order: for each it runs that key's NewDecryptingReader and one Read(p) over an   *)
(* `unreader`, a buffer that replays everything read so far to the next candidate;  *)
(* the first key for which both succeed is kept (and the buffer is released once    *)
(* replayed); if none does, this and every later Read fail ("no matching key").     *)
(*                                                                                 *)
(* Candidates are parameter records of StreamOps (different main keys, possibly     *)
(* different segment sizes, offsets and header lengths).  The ciphertext was made   *)
(* with candidate `writer` (0: a key that is not in the keyset, with the parameters *)
(* of candidate 1), then manipulated; the source may deliver short reads and fail.  *)
EXTENDS StreamOps

VARIABLES
  cands,     \* the keyset: sequence of parameter records, in keyset order
  writer,    \* index of the candidate that encrypted (0 = foreign key)
  plain,     \* plaintext length
  manip,     \* manipulations applied to the ciphertext
  raad,      \* associated data given to the reader (writer: 0)
  src,       \* the underlying io.Reader below the unreader
  kr,        \* decryptReader: [attempted, matched (candidate index or 0), r (the matched key's noncebased.Reader)]
  got, outcome, res

kvars == <<cands, writer, plain, manip, raad, src, kr, got, outcome, res>>

KRes(op, n, ret, err, data, log) == [op |-> op, n |-> n, ret |-> ret, err |-> err, data |-> data, log |-> log]

ForeignKey == 99
WriterParams == IF writer = 0 THEN [cands[1] EXCEPT !.mk = ForeignKey] ELSE cands[writer]
KAuthentic == Canon(WriterParams, Session(WriterParams, 0), PlainText(plain))

Unread(s)  == [s EXCEPT !.ur.pos = 0]
Disable(s) == [s EXCEPT !.ur.dis = TRUE]
WithUnreader(s) == [s EXCEPT !.ur = [on |-> TRUE, buf |-> <<>>, pos |-> 0, dis |-> FALSE]]

\* the loop over the primitives of decryptReader.Read
RECURSIVE TryFrom(_, _, _, _, _, _, _)
TryFrom(cs, k, s, aad, n, sc, log) ==
  IF k > Len(cs) THEN {[matched |-> 0, r |-> NewR(NoSession), src |-> s, data |-> <<>>, err |-> "ERR", sc |-> sc, log |-> log]}
  ELSE UNION {
         IF x.err THEN TryFrom(cs, k + 1, Unread(x.src), aad, n, x.sc, log \o x.log)
         ELSE UNION {
                IF y.err # "nil" THEN TryFrom(cs, k + 1, Unread(y.src), aad, n, y.sc, log \o x.log \o y.log)
                ELSE {[matched |-> k, r |-> y.r, src |-> Disable(y.src), data |-> y.data, err |-> "nil", sc |-> y.sc,
                       log |-> log \o x.log \o y.log]}
              : y \in ReaderRead(cs[k], x.r, x.src, n, x.sc)}
       : x \in ReaderNew(cs[k], s, aad, sc)}

KeysetRead(cs, d, s, aad, n, sc) ==
  IF d.matched # 0
    THEN {[kr |-> [d EXCEPT !.r = y.r], src |-> y.src, data |-> y.data, err |-> y.err, sc |-> y.sc, log |-> y.log]
          : y \in ReaderRead(cs[d.matched], d.r, s, n, sc)}
  ELSE IF d.attempted
    THEN {[kr |-> d, src |-> s, data |-> <<>>, err |-> "ERR", sc |-> sc, log |-> <<>>]}
  ELSE {[kr |-> [attempted |-> TRUE, matched |-> t.matched, r |-> t.r], src |-> t.src, data |-> t.data, err |-> t.err,
         sc |-> t.sc, log |-> t.log] : t \in TryFrom(cs, 1, WithUnreader(s), aad, n, sc, <<>>)}

NewKR == [attempted |-> FALSE, matched |-> 0, r |-> NewR(NoSession)]

KInit(candSets, maxN) ==
  /\ cands \in candSets /\ writer \in 0..Len(cands) /\ plain \in 0..maxN
  /\ manip = <<>> /\ raad = 0 /\ src = NewSource(<<>>, 0, "free") /\ kr = NewKR
  /\ got = <<>> /\ outcome = "start" /\ res = KRes("Init", 0, 0, "nil", <<>>, <<>>)

\* the ciphertext reaches the reader
KTamper(ms, srcFail, mode) ==
  /\ outcome = "start"
  /\ manip' = ms /\ raad' = IF HasAad(ms) THEN 1 ELSE 0
  /\ src' = NewSource(ApplyAll(WriterParams, ms, KAuthentic), srcFail, mode)
  /\ outcome' = "none" /\ res' = KRes("Tamper", 0, 0, "nil", <<>>, <<>>)
  /\ UNCHANGED <<cands, writer, plain, kr, got>>

KRead(n, sc) ==
  /\ outcome # "start"
  /\ \E x \in KeysetRead(cands, kr, src, raad, n, sc) :
       /\ kr' = x.kr /\ src' = x.src
       /\ got' = IF outcome = "none" /\ x.err = "nil" THEN RCat(got, x.data) ELSE got
       /\ outcome' = IF outcome = "none" THEN (IF x.err = "nil" THEN "none" ELSE x.err) ELSE outcome
       /\ res' = KRes("Read", n, RLen(x.data), x.err, x.data, x.log)
  /\ UNCHANGED <<cands, writer, plain, manip, raad>>

(***** properties *****)
KEffective == HasAad(manip) \/ ApplyAll(WriterParams, manip, KAuthentic) # KAuthentic
Reading == outcome # "start"
\* a ciphertext made with any key of the keyset is decrypted to exactly its plaintext, then EOF
KRoundTrip ==
  (Reading /\ writer # 0 /\ ~KEffective /\ src.failFrom = 0) =>
     /\ outcome # "ERR" /\ RIsPrefix(got, PlainText(plain)) /\ (outcome = "EOF" => got = PlainText(plain))
     /\ (kr.matched # 0 => cands[kr.matched].mk = cands[writer].mk)
\* a ciphertext of a foreign key, or a manipulated one, never ends cleanly
KTamperDetected ==
  (Reading /\ (writer = 0 \/ KEffective)) => outcome # "EOF" /\ RIsPrefix(got, PlainText(plain))
KFaultSurfaces ==
  /\ (Reading /\ SrcFaulted(src)) => outcome # "EOF"
  /\ (Reading /\ src.failFrom # 0) => RIsPrefix(got, PlainText(plain))
\* the replay buffer never loses or reorders bytes: what the matched reader will still see is the rest of the stream
KMeasure == RLen(src.rest) + (RLen(src.ur.buf) - src.ur.pos) + RLen(kr.r.avail) + (IF kr.r.last THEN 0 ELSE 1)
KReadProgress ==
  [][(Reading /\ res'.op = "Read" /\ res'.n > 0 /\ res'.err = "nil" /\ outcome = "none" /\ kr.matched # 0)
       => (res'.ret > 0 \/ KMeasure' < KMeasure)]_kvars
================================================================================
