--------------------------------- MODULE JWKJson ---------------------------------
(* X01.  JSON values as the JWK specifications talk about them (RFC 7517 section 2:  *)
(* a JWK is a JSON object, a JWK Set a JSON object with a "keys" array) and their    *)
(* text (RFC 8259).  A value is a small tagged record:                               *)
(*                                                                                  *)
(*   [k |-> "absent"]                      the member is not there                   *)
(*   [k |-> "str",  b |-> octets]          a string; b = its UTF-8 octets            *)
(*   [k |-> "num" | "bool" | "null", t |-> octets]   a literal; t = its JSON text    *)
(*   [k |-> "list", l |-> <<values>>]      an array                                  *)
(*   [k |-> "obj",  m |-> <<[n |-> name, v |-> value], ...>>]   an object; members   *)
(*                                          in text order, names are TLA+ strings    *)
(*                                          (plain ASCII, nothing to escape)         *)
(*                                                                                  *)
(* Strings are octet sequences so that base64url members (342 characters for an RSA  *)
(* modulus) and arbitrary kid values are handled by the same codec (module JWS) that *)
(* the token layer uses.  In ndjson (plans, traces) octets travel as hex:            *)
(*   {"k":"str","h":"4543"}   {"k":"num","h":"31"}   ...   (JLift / JLower)          *)
EXTENDS Bytes, TLC

JAbsent     == [k |-> "absent"]
JStr(b)     == [k |-> "str", b |-> b]
JS(s)       == [k |-> "str", b |-> StrToBytes(s)]
JLit(k, s)  == [k |-> k, t |-> StrToBytes(s)]
JNull       == JLit("null", "null")
JTrue       == JLit("bool", "true")
JNum(s)     == JLit("num", s)
JList(xs)   == [k |-> "list", l |-> xs]
JObj(ms)    == [k |-> "obj", m |-> ms]
JMem(n, v)  == [n |-> n, v |-> v]

JIsStr(v)    == v.k = "str"
JIsS(v, s)   == v.k = "str" /\ v.b = StrToBytes(s)
JIsObj(v)    == v.k = "obj"
JIsList(v)   == v.k = "list"

\* members of an object; absent members of a description are simply left out
JPresent(ms) == SelectSeq(ms, LAMBDA x : x.v.k # "absent")
JHas(o, name) == \E i \in 1..Len(o.m) : o.m[i].n = name
\* RFC 7517 section 4: member names MUST be unique; a parser either rejects duplicates or returns the
\* lexically LAST one.  JGet is "last wins"; JDup tells that the question arose.
JGet(o, name) ==
  LET idx == {i \in 1..Len(o.m) : o.m[i].n = name}
  IN IF idx = {} THEN JAbsent ELSE o.m[CHOOSE i \in idx : \A j \in idx : j <= i].v
JDup(o) == \E i, j \in 1..Len(o.m) : i < j /\ o.m[i].n = o.m[j].n
JNames(o) == {o.m[i].n : i \in 1..Len(o.m)}
JMemberSet(o) == {<<o.m[i].n, o.m[i].v>> : i \in 1..Len(o.m)}

\* ------------------------------------------------------------------ text (RFC 8259)
\* string escapes (section 7): '"' and '\' are escaped, control characters are \u00XX, every other
\* octet stands for itself (the strings of the model are valid UTF-8)
JHexDigit(d) == IF d < 10 THEN 48 + d ELSE 87 + d
JEscByte(c) == IF c = 34 THEN <<92, 34>> ELSE IF c = 92 THEN <<92, 92>>
               ELSE IF c < 32 THEN <<92, 117, 48, 48, JHexDigit(c \div 16), JHexDigit(c % 16)>>
               ELSE <<c>>
JQuote(b) ==
  LET RECURSIVE Go(_)
      Go(i) == IF i > Len(b) THEN <<>> ELSE JEscByte(b[i]) \o Go(i + 1)
  IN IF \A i \in 1..Len(b) : b[i] >= 32 /\ b[i] # 34 /\ b[i] # 92 THEN <<34>> \o b \o <<34>>     \* nothing to escape
     ELSE <<34>> \o Go(1) \o <<34>>

\* ws: insignificant white space (section 2) around every structural character
JSep(ws)   == IF ws THEN StrToBytes(" ,\r\n\t") ELSE <<44>>
JColon(ws) == IF ws THEN StrToBytes(" : ") ELSE <<58>>
JOpen(c, ws)  == IF ws THEN <<32, c, 10, 32>> ELSE <<c>>
JClose(c, ws) == IF ws THEN <<13, 10, c, 32>> ELSE <<c>>

RECURSIVE JText(_, _)
JText(v, ws) ==
  CASE v.k = "str"  -> JQuote(v.b)
    [] v.k \in {"num", "bool", "null"} -> v.t
    [] v.k = "list" -> LET RECURSIVE Items(_)
                           Items(i) == IF i > Len(v.l) THEN <<>>
                                       ELSE (IF i > 1 THEN JSep(ws) ELSE <<>>) \o JText(v.l[i], ws) \o Items(i + 1)
                       IN JOpen(91, ws) \o Items(1) \o JClose(93, ws)
    [] v.k = "obj"  -> LET RECURSIVE Mems(_)
                           Mems(i) == IF i > Len(v.m) THEN <<>>
                                      ELSE (IF i > 1 THEN JSep(ws) ELSE <<>>) \o JQuote(StrToBytes(v.m[i].n))
                                           \o JColon(ws) \o JText(v.m[i].v, ws) \o Mems(i + 1)
                       IN JOpen(123, ws) \o Mems(1) \o JClose(125, ws)

\* The octets handed to a parser: the text of a value in one of these shapes.
\*   object     the text                      ws         with insignificant white space
\*   malformed  last character missing        trailing   a character after the value
\*   empty      no octets                     bom        U+FEFF in front (RFC 8259 8.1: MUST NOT be added)
JShapes == {"object", "ws", "malformed", "trailing", "empty", "bom"}
JIsJsonText(shape) == shape \in {"object", "ws"}
JShapeText(shape, v) ==
  CASE shape = "object"    -> JText(v, FALSE)
    [] shape = "ws"        -> JText(v, TRUE)
    [] shape = "malformed" -> LET t == JText(v, FALSE) IN SubSeq(t, 1, Len(t) - 1)
    [] shape = "trailing"  -> JText(v, FALSE) \o <<120>>
    [] shape = "empty"     -> <<>>
    [] shape = "bom"       -> <<239, 187, 191>> \o JText(v, FALSE)

\* ------------------------------------------------------------------ ndjson form (octets as hex)
RECURSIVE JLift(_)
JLift(x) ==
  CASE x.k = "str"  -> JStr(HexToBytes(x.h))
    [] x.k \in {"num", "bool", "null"} -> [k |-> x.k, t |-> HexToBytes(x.h)]
    [] x.k = "list" -> JList([i \in 1..Len(x.l) |-> JLift(x.l[i])])
    [] x.k = "obj"  -> JObj([i \in 1..Len(x.m) |-> JMem(x.m[i].n, JLift(x.m[i].v))])
    [] OTHER        -> x          \* "absent", and the placeholders of a plan (module JWKSetCases)

RECURSIVE JLower(_)
JLower(v) ==
  CASE v.k = "str"  -> [k |-> "str", h |-> BytesToHex(v.b)]
    [] v.k \in {"num", "bool", "null"} -> [k |-> v.k, h |-> BytesToHex(v.t)]
    [] v.k = "list" -> [k |-> "list", l |-> [i \in 1..Len(v.l) |-> JLower(v.l[i])]]
    [] v.k = "obj"  -> [k |-> "obj", m |-> [i \in 1..Len(v.m) |-> [n |-> v.m[i].n, v |-> JLower(v.m[i].v)]]]
    [] OTHER        -> v
================================================================================
