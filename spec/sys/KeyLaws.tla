-------------------------------- MODULE KeyLaws --------------------------------
(* The algebra of key and parameters objects: what every implementation of the      *)
(* interfaces key.Key and key.Parameters (/repo/key/key.go) promises, for ALL key    *)
(* types of the library (the 29 parameter families / 42 Go key types of              *)
(* KeyParams.tla).                                                                    *)
(*                                                                                    *)
(* Sources (godoc):                                                                   *)
(*   key.Parameters.HasIDRequirement  "whether the key has an ID requirement"         *)
(*   key.Parameters.Equal             "compares this parameters object with other"    *)
(*   key.Key.Parameters               "returns the parameters of this key"            *)
(*   key.Key.IDRequirement            "required will be true if and only if           *)
(*                                     Parameters.HasIDRequirement(). If not          *)
(*                                     required, the returned ID is zero"             *)
(*   key.Key.Equal                    "compares this key object with other"           *)
(*   <pkg>.Variant                    "TINK: prepends '0x01<big endian key id>' ...   *)
(*                                     CRUNCHY: prepends '0x00<big endian key id>'    *)
(*                                     LEGACY: ... prepends '0x00<big endian key id>' *)
(*                                     NO_PREFIX: adds no prefix"  (18 packages)      *)
(*   <pkg>.(Key).OutputPrefix         "returns the output prefix"                     *)
(*   <pkg>.(PrivateKey).PublicKey     "returns the corresponding public key"          *)
(*   <pkg>.NewKey / NewPublicKey      "If parameters.HasIDRequirement() == false,     *)
(*                                     idRequirement must be zero" (DocRefusal)       *)
(*   jwt*.KIDStrategy                 "Base64EncodedKeyIDAsKID: a Base64 encoded key  *)
(*                                     ID is used as the kid"; (Key).KID "If no kid   *)
(*                                     is set, it returns ("", false)"                *)
(*                                                                                    *)
(* An ABSTRACT KEY is what a key object is a function of: the inputs of its           *)
(* constructor,                                                                       *)
(*    [kt   : parameter family (KeyParams!KeyTypes),                                  *)
(*     kind : "symmetric" | "private" | "public",                                     *)
(*     p    : parameter record (KeyParams!Fields(kt) -> values),                      *)
(*     mat  : name of the key material (two keys have equal material iff equal mat),  *)
(*     id   : the id given to the constructor, 8 hex digits (big endian uint32)]      *)
(* and the abstract parameters of a key are [kt, p].  "Equal" means: same function.   *)
(*                                                                                    *)
(* The laws are stated as JUDGEMENTS over an observation record -- what some          *)
(* implementation answered for a tuple of abstract keys.  The same judgements are     *)
(* evaluated (M) by MC_KeyLaws on the answers of a reference model and of faulty       *)
(* models over a small key space, and (T) by Trace_KeyLaws on the answers recorded     *)
(* from the real objects.  A judgement returns <<>> or <<reason, detail...>>          *)
(* (strings).  Reasons that start with "doc: " contradict the documentation quoted     *)
(* above; reasons that start with "exp: " are expectations about behaviour the        *)
(* library does not document (as built) and never verdicts about the code.            *)
EXTENDS KeyParams, OutputPrefix     \* spec/algo/OutputPrefix.tla: Prefix(variant, idBytes); Bytes / Prim: hex codecs

\* ------------------------------------------------------------------ what the documentation defines
\* the variant (JWT: kid strategy; deriver: variant of the derived key) that decides the id requirement
DerivedVariantOf(d) ==
  CASE d \in {"AES128_GCM_TINK", "XCHACHA20_POLY1305_TINK", "AES256_SIV_TINK", "HMAC_SHA256_128BITTAG_TINK", "ED25519_TINK",
              "ECDSA_P256_TINK"} -> "TINK"
    [] d = "AES256_GCM_SIV_CRUNCHY" -> "CRUNCHY"
    [] OTHER -> "NO_PREFIX"
VariantOfKey(T, p) ==
  IF "variant" \in DOMAIN p THEN p.variant
  ELSE IF "kidStrategy" \in DOMAIN p THEN p.kidStrategy
  ELSE IF T = "PrfBasedDeriver" THEN DerivedVariantOf(p.derived)
  ELSE "NO_PREFIX"                                       \* PRFs, streaming AEAD: "PRFs have no ID requirement"

\* Parameters.HasIDRequirement(): variant # NO_PREFIX (JWT: strategy = Base64EncodedKeyIDAsKID)
HasReq(T, p) == HasIdRequirement(VariantOfKey(T, p))

NoId == "00000000"
\* Key.IDRequirement() = (id, TRUE) iff the parameters have an id requirement; otherwise (0, FALSE)
IdReqOf(a) == IF HasReq(a.kt, a.p) THEN <<a.id, TRUE>> ELSE <<NoId, FALSE>>

\* key types whose key objects have an OutputPrefix() accessor (the 18 packages with a Variant godoc)
PrefixTypes == {"AesGcm", "AesCtrHmac", "AesGcmSiv", "ChaCha20Poly1305", "XChaCha20Poly1305", "XAesGcm", "AesSiv", "Hmac",
                "AesCmac", "Ecdsa", "Ed25519", "RsaSsaPkcs1", "RsaSsaPss", "MlDsa", "SlhDsa", "CompositeMlDsa", "Hpke", "Ecies"}
\* ML-DSA: "NO_PREFIX_WITH_PREHASH_ID: adds no prefix to the signature, but requires a key ID"
PrefixVariant(v) == IF v = "NO_PREFIX_WITH_PREHASH_ID" THEN "NO_PREFIX" ELSE v
\* OutputPrefix() as lower-case hex: TINK 01 || be32(id), CRUNCHY / LEGACY 00 || be32(id), NO_PREFIX empty
PrefixHexOf(a) ==
  LET v == PrefixVariant(VariantOfKey(a.kt, a.p))
  IN BytesToHex(Prefix(v, IF v = "NO_PREFIX" THEN <<>> ELSE HexToBytes(a.id)))

\* JWT key types have a KID() accessor (as built: the symmetric and the public keys; a private key's kid is its public key's)
KidTypes == {"JwtHmac", "JwtEcdsa", "JwtRsaSsaPkcs1", "JwtRsaSsaPss", "JwtMlDsa"}
HasKidAccessor(a) == a.kt \in KidTypes /\ a.kind # "private"
\* base64url without padding (RFC 4648 section 5) of the 4 id bytes, as ASCII codes (6 characters)
B64UrlAlphabet == StrToBytes("ABCDEFGHIJKLMNOPQRSTUVWXYZabcdefghijklmnopqrstuvwxyz0123456789-_")
B64Url4(b) ==
  LET w1 == (b[1] * 65536) + (b[2] * 256) + b[3]        \* first 24 bits -> 4 characters
      w2 == b[4] * 16                                   \* last 8 bits, 4 zero bits appended -> 2 characters
      c(x) == B64UrlAlphabet[x + 1]
  IN <<c(w1 \div 262144), c((w1 \div 4096) % 64), c((w1 \div 64) % 64), c(w1 % 64), c(w2 \div 64), c(w2 % 64)>>
\* KID() = <<kid as hex of its UTF-8 bytes, is set>>; a custom kid is an input (material) of the key
KidOf(a, customKidHex) ==
  CASE a.p.kidStrategy = "BASE64_KEY_ID" -> <<BytesToHex(B64Url4(HexToBytes(a.id))), TRUE>>
    [] a.p.kidStrategy = "IGNORED" -> <<"", FALSE>>
    [] OTHER -> <<customKidHex, TRUE>>

\* the constructors whose godoc states that a non-zero id is refused for parameters without id requirement
DocRefusal == {"AesGcm", "AesCtrHmac", "AesGcmSiv", "AesSiv", "Ed25519", "MlDsa", "SlhDsa", "JwtRsaSsaPkcs1", "JwtRsaSsaPss",
               "PrfBasedDeriver"}
\* key types whose constructor has no id input at all (PRFs, streaming AEAD)
NoIdInput == {"HmacPrf", "HkdfPrf", "AesCmacPrf", "AesGcmHkdfStreaming", "AesCtrHmacStreaming"}

\* ------------------------------------------------------------------ the reference model of Equal
\* parameters: same family, same value of every field
SameParams(a, b) == a.kt = b.kt /\ a.p = b.p
\* keys: same Go type (family and kind), Equal parameters, same id requirement, equal key material
SameKey(a, b) == /\ a.kt = b.kt /\ a.kind = b.kind /\ a.p = b.p
                 /\ a.mat = b.mat /\ IdReqOf(a) = IdReqOf(b)
\* the public key of a private key: same parameters, same id requirement, the public half of the same material
PublicOf(a) == [a EXCEPT !.kind = "public"]
\* in how many parameter fields two keys of one family differ
FieldsDiffering(a, b) == IF a.kt # b.kt THEN {} ELSE {f \in DOMAIN a.p : a.p[f] # b.p[f]}

\* a well-formed abstract key: parameters the constructors accept, a kind of the family
WellFormed(a) == /\ a.kt \in KeyTypes /\ a.kind \in Kinds(a.kt) /\ DOMAIN a.p = FieldSet(a.kt)
                 /\ ParamsOK(a.kt, a.p) /\ KeyConstructible(a.kt, a.kind, a.p)

\* ------------------------------------------------------------------ judgements: one key
(* o is the observation of ONE key object k built for the abstract key a:                                  *)
(*   built, panic     the constructor returned a key / something panicked                                  *)
(*   gotype           Go type of k                                                                         *)
(*   id, req          k.IDRequirement()                  phas   k.Parameters().HasIDRequirement()          *)
(*   hasprefix,prefix k.OutputPrefix() (hex)             haskid, kid, kidset   k.KID() (JWT)               *)
(*   unstable         accessors whose second call returned another value than the first                   *)
(*   aliased          accessors whose value changed after the byte slices returned by earlier calls were   *)
(*                    overwritten (the value must not depend on slices handed out before; whose memory a   *)
(*                    returned slice is, is the statement of C19 and judged there)                        *)
(*   pbuilt, pbuiltR  k.Parameters().Equal(P) / P.Equal(k.Parameters()) for the parameters P given to the  *)
(*                    constructor                                                                          *)
(*   pfresh, pfreshR  P.Equal(P2) / P2.Equal(P) for a second parameters object made from the same record   *)
(*   pself, self      P.Equal(P), k.Equal(k)                                                               *)
(*   pub              for private keys: has, err, stable (two calls: Equal both ways, same accessor values)*)
(*                    peq / peqR (parameters Equal to the private key's), id, req, hasprefix, prefix,      *)
(*                    cross (k.Equal(pub) or pub.Equal(k))                                                 *)
(*   ckid             the custom kid given to the constructor (hex), "" when none                          *)
JudgeKey(a, o) ==
  LET pre == "key " \o a.kt \o " " \o a.kind IN
  IF o.panic THEN <<"doc: panic in a key constructor or accessor", pre>>
  ELSE IF ~o.built THEN <<"exp: the constructor refuses a key the inventory says is constructible", pre>>
  ELSE IF ~o.self THEN <<"doc: key.Equal is not reflexive", pre>>
  ELSE IF ~o.pself THEN <<"doc: parameters.Equal is not reflexive", pre>>
  ELSE IF ~o.pfresh \/ ~o.pfreshR THEN <<"doc: parameters built twice from equal inputs are not Equal", pre>>
  ELSE IF ~o.pbuilt \/ ~o.pbuiltR THEN <<"doc: key.Parameters() is not Equal to the parameters the key was built with", pre>>
  ELSE IF o.phas # HasReq(a.kt, a.p)
         THEN <<"doc: Parameters.HasIDRequirement() differs from variant # NO_PREFIX", pre, ToString(HasReq(a.kt, a.p))>>
  ELSE IF o.req # o.phas THEN <<"doc: IDRequirement() required differs from Parameters().HasIDRequirement()", pre, ToString(o.phas)>>
  ELSE IF <<o.id, o.req>> # IdReqOf(a)
         THEN <<"doc: IDRequirement() is not (id given to the constructor, TRUE) / (0, FALSE)", pre, IdReqOf(a)[1]>>
  ELSE IF o.hasprefix # (a.kt \in PrefixTypes) THEN <<"exp: which key types have an OutputPrefix accessor", pre>>
  ELSE IF o.hasprefix /\ o.prefix # PrefixHexOf(a)
         THEN <<"doc: OutputPrefix() is not the documented function of (variant, id)", pre, VariantOfKey(a.kt, a.p), PrefixHexOf(a)>>
  ELSE IF o.haskid # HasKidAccessor(a) THEN <<"exp: which key types have a KID accessor", pre>>
  ELSE IF o.haskid /\ <<o.kid, o.kidset>> # KidOf(a, o.ckid)
         THEN <<"doc: KID() is not the documented function of (kid strategy, id, custom kid)", pre, a.p.kidStrategy, KidOf(a, o.ckid)[1]>>
  ELSE IF o.unstable # <<>> THEN <<"doc: an accessor returns another value on its second call", pre, o.unstable[1]>>
  ELSE IF o.aliased # <<>> THEN <<"doc: an accessor returns another value after a byte slice it returned earlier was overwritten", pre, o.aliased[1]>>
  ELSE IF o.pub.has # (a.kind = "private") THEN <<"exp: which key types have a PublicKey accessor", pre>>
  ELSE IF ~o.pub.has THEN <<>>
  ELSE IF o.pub.err THEN <<"doc: PublicKey() of a valid private key returns an error", pre>>
  ELSE IF ~o.pub.stable THEN <<"doc: PublicKey() is not stable (two calls are not Equal / report other values)", pre>>
  ELSE IF ~o.pub.peq \/ ~o.pub.peqR THEN <<"doc: the public key's parameters are not Equal to the private key's", pre>>
  ELSE IF <<o.pub.id, o.pub.req>> # IdReqOf(a) THEN <<"doc: the public key's IDRequirement() differs from the private key's", pre>>
  ELSE IF o.pub.hasprefix # (a.kt \in PrefixTypes) THEN <<"exp: which public key types have an OutputPrefix accessor", pre>>
  ELSE IF o.pub.hasprefix /\ o.pub.prefix # PrefixHexOf(a) THEN <<"doc: the public key's OutputPrefix() differs from the private key's", pre>>
  ELSE IF o.pub.cross THEN <<"doc: a private key and its public key are Equal (Equal must be false across key types)", pre>>
  ELSE <<>>

\* ------------------------------------------------------------------ judgements: a tuple of keys
(* ks: sequence of n abstract keys; os: their observations; r: the relations recorded between the n real     *)
(* objects,  r.eq[i][j] = k_i.Equal(k_j),  r.peq[i][j] = k_i.Parameters().Equal(k_j.Parameters()),           *)
(* r.pubeq[i][j] = pub_i.Equal(pub_j) (private keys; FALSE elsewhere).                                       *)
Idx(ks) == 1..Len(ks)
Pairs(ks) == Idx(ks) \X Idx(ks)
Triples(ks) == Idx(ks) \X Idx(ks) \X Idx(ks)
Pick(S) == CHOOSE x \in S : TRUE
Lbl(ks, t) == ks[t[1]].kt \o " " \o ks[t[1]].kind \o " / " \o ks[t[2]].kt \o " " \o ks[t[2]].kind

\* (A) laws of the recorded relations alone -- no reference model needed
JudgeAlgebra(ks, os, r) ==
  LET refl  == {t \in Pairs(ks) : t[1] = t[2] /\ ~r.eq[t[1]][t[2]]}
      prefl == {t \in Pairs(ks) : t[1] = t[2] /\ ~r.peq[t[1]][t[2]]}
      symm  == {t \in Pairs(ks) : r.eq[t[1]][t[2]] # r.eq[t[2]][t[1]]}
      psymm == {t \in Pairs(ks) : r.peq[t[1]][t[2]] # r.peq[t[2]][t[1]]}
      trans == {t \in Triples(ks) : r.eq[t[1]][t[2]] /\ r.eq[t[2]][t[3]] /\ ~r.eq[t[1]][t[3]]}
      ptrans == {t \in Triples(ks) : r.peq[t[1]][t[2]] /\ r.peq[t[2]][t[3]] /\ ~r.peq[t[1]][t[3]]}
      cross == {t \in Pairs(ks) : os[t[1]].gotype # os[t[2]].gotype /\ r.eq[t[1]][t[2]]}
      pcross == {t \in Pairs(ks) : os[t[1]].ptype # os[t[2]].ptype /\ r.peq[t[1]][t[2]]}
      eqpar == {t \in Pairs(ks) : r.eq[t[1]][t[2]] /\ ~r.peq[t[1]][t[2]]}
      eqid  == {t \in Pairs(ks) : r.eq[t[1]][t[2]] /\ <<os[t[1]].id, os[t[1]].req>> # <<os[t[2]].id, os[t[2]].req>>}
      eqpfx == {t \in Pairs(ks) : r.eq[t[1]][t[2]] /\ os[t[1]].hasprefix /\ os[t[1]].prefix # os[t[2]].prefix}
      priv  == {t \in Pairs(ks) : os[t[1]].pub.has /\ os[t[2]].pub.has /\ os[t[1]].gotype = os[t[2]].gotype}
      \* two private keys are Equal iff their public keys are Equal and their secret parts are equal
      piff  == {t \in priv : r.eq[t[1]][t[2]] # (r.pubeq[t[1]][t[2]] /\ os[t[1]].secret = os[t[2]].secret)}
  IN
  IF refl # {} THEN <<"doc: key.Equal is not reflexive", Lbl(ks, Pick(refl))>>
  ELSE IF prefl # {} THEN <<"doc: parameters.Equal is not reflexive", Lbl(ks, Pick(prefl))>>
  ELSE IF symm # {} THEN <<"doc: key.Equal is not symmetric", Lbl(ks, Pick(symm))>>
  ELSE IF psymm # {} THEN <<"doc: parameters.Equal is not symmetric", Lbl(ks, Pick(psymm))>>
  ELSE IF trans # {} THEN <<"doc: key.Equal is not transitive", Lbl(ks, Pick(trans))>>
  ELSE IF ptrans # {} THEN <<"doc: parameters.Equal is not transitive", Lbl(ks, Pick(ptrans))>>
  ELSE IF cross # {} THEN <<"doc: keys of different Go types are Equal", Lbl(ks, Pick(cross))>>
  ELSE IF pcross # {} THEN <<"doc: parameters of different Go types are Equal", Lbl(ks, Pick(pcross))>>
  ELSE IF eqpar # {} THEN <<"doc: Equal keys whose parameters are not Equal", Lbl(ks, Pick(eqpar))>>
  ELSE IF eqid # {} THEN <<"doc: Equal keys with different IDRequirement()", Lbl(ks, Pick(eqid))>>
  ELSE IF eqpfx # {} THEN <<"doc: Equal keys with different OutputPrefix()", Lbl(ks, Pick(eqpfx))>>
  ELSE IF piff # {} THEN <<"doc: private keys are Equal iff their public keys are Equal and their secret parts are equal", Lbl(ks, Pick(piff))>>
  ELSE <<>>

\* which single difference a pair of abstract keys shows (for the reason text)
Diff(a, b) ==
  IF a.kt # b.kt THEN "key type"
  ELSE IF a.kind # b.kind THEN "kind"
  ELSE IF a.p # b.p THEN (IF Cardinality(FieldsDiffering(a, b)) = 1 THEN "field " \o Pick(FieldsDiffering(a, b)) ELSE "several fields")
  ELSE IF IdReqOf(a) # IdReqOf(b) THEN "id"
  ELSE IF a.mat # b.mat THEN "key material"
  ELSE "nothing"

\* (B) the recorded relations are those of the reference model
JudgeModel(ks, os, r) ==
  LET eqT == {t \in Pairs(ks) : SameKey(ks[t[1]], ks[t[2]]) /\ ~r.eq[t[1]][t[2]]}
      eqF == {t \in Pairs(ks) : ~SameKey(ks[t[1]], ks[t[2]]) /\ r.eq[t[1]][t[2]]}
      peqT == {t \in Pairs(ks) : SameParams(ks[t[1]], ks[t[2]]) /\ ~r.peq[t[1]][t[2]]}
      peqF == {t \in Pairs(ks) : ~SameParams(ks[t[1]], ks[t[2]]) /\ r.peq[t[1]][t[2]]}
      priv == {t \in Pairs(ks) : ks[t[1]].kind = "private" /\ ks[t[2]].kind = "private"}
      pubT == {t \in priv : SameKey(PublicOf(ks[t[1]]), PublicOf(ks[t[2]])) /\ ~r.pubeq[t[1]][t[2]]}
      pubF == {t \in priv : ~SameKey(PublicOf(ks[t[1]]), PublicOf(ks[t[2]])) /\ r.pubeq[t[1]][t[2]]}
      \* the public key of a private key IS the public key built from the same inputs
      pp == {t \in Pairs(ks) : /\ ks[t[1]].kind = "private" /\ ks[t[2]].kind = "public"
                               /\ r.pubkeq[t[1]][t[2]] # SameKey(PublicOf(ks[t[1]]), ks[t[2]])}
  IN
  IF eqT # {} THEN <<"doc: keys built from equal inputs are not Equal", Lbl(ks, Pick(eqT))>>
  ELSE IF eqF # {} THEN <<"doc: Equal ignores a difference between two keys", Lbl(ks, Pick(eqF)), Diff(ks[Pick(eqF)[1]], ks[Pick(eqF)[2]])>>
  ELSE IF peqT # {} THEN <<"doc: parameters built from equal inputs are not Equal", Lbl(ks, Pick(peqT))>>
  ELSE IF peqF # {} THEN <<"doc: parameters.Equal ignores a difference", Lbl(ks, Pick(peqF)), Diff(ks[Pick(peqF)[1]], ks[Pick(peqF)[2]])>>
  ELSE IF pubT # {} THEN <<"doc: public keys of private keys built from equal inputs are not Equal", Lbl(ks, Pick(pubT))>>
  ELSE IF pubF # {} THEN <<"doc: public keys of different private keys are Equal", Lbl(ks, Pick(pubF)), Diff(ks[Pick(pubF)[1]], ks[Pick(pubF)[2]])>>
  ELSE IF pp # {} THEN <<"doc: PublicKey() of a private key is Equal to the public key built from the same inputs, and to no other", Lbl(ks, Pick(pp))>>
  ELSE <<>>

RECURSIVE FirstKeyBad(_, _, _)
FirstKeyBad(ks, os, i) ==
  IF i > Len(ks) THEN <<>>
  ELSE LET b == JudgeKey(ks[i], os[i]) IN IF b # <<>> THEN b ELSE FirstKeyBad(ks, os, i + 1)

\* (C) Equal objects are indistinguishable: every accessor reports the same value on both (model-free; judged last so
\* that a field Equal ignores is named by (B) where the model knows it)
JudgeValues(ks, os, r) ==
  LET eqacc == {t \in Pairs(ks) : r.eq[t[1]][t[2]] /\ os[t[1]].value # os[t[2]].value} IN
  IF eqacc # {} THEN <<"doc: Equal keys whose accessors report different values", Lbl(ks, Pick(eqacc))>> ELSE <<>>

\* the relations of a case: first the laws that need no model, then the reference model
JudgeRel(ks, os, r) ==
  LET b2 == JudgeAlgebra(ks, os, r) IN
  IF b2 # <<>> THEN b2
  ELSE LET b3 == JudgeModel(ks, os, r) IN IF b3 # <<>> THEN b3 ELSE JudgeValues(ks, os, r)

\* the judgement of one case: every key on its own, then the relations
JudgeCase(ks, os, r) ==
  LET b1 == FirstKeyBad(ks, os, 1) IN IF b1 # <<>> THEN b1 ELSE JudgeRel(ks, os, r)

\* ------------------------------------------------------------------ judgement: the constructor and the id
(* a: abstract key WITHOUT id requirement; x: what the constructor said when it was given the same inputs   *)
(* with the non-zero id x.nonzero (takesid: the constructor has an id input at all), and with id 0:          *)
(*   zeroOk   id 0 is accepted and the key is Equal (both ways) to the original                              *)
(*   refused  the non-zero id is refused; otherwise accid / accreq = IDRequirement() of the key that came     *)
(*            out, and acceq = that key is Equal to the key with id 0                                        *)
(* key.Key.IDRequirement: "If not required, the returned ID is zero" -- so a constructor either refuses the  *)
(* non-zero id (as 10 packages document) or must not let it into the key.                                    *)
JudgeIdRefusal(a, x) ==
  LET pre == "key " \o a.kt \o " " \o a.kind IN
  IF x.panic THEN <<"doc: panic in a key constructor", pre>>
  ELSE IF HasReq(a.kt, a.p) THEN <<"exp: the case is about keys without id requirement", pre>>
  ELSE IF x.takesid # (a.kt \notin NoIdInput) THEN <<"exp: which constructors have an id input", pre>>
  ELSE IF ~x.takesid THEN <<>>
  ELSE IF ~x.zeroOk THEN <<"doc: the constructor refuses id 0 for parameters without id requirement, or the key is not Equal", pre>>
  ELSE IF x.refused THEN <<>>
  ELSE IF a.kt \in DocRefusal THEN <<"doc: the constructor accepts a non-zero id for parameters without id requirement", pre>>
  ELSE IF <<x.accid, x.accreq>> # <<NoId, FALSE>>
         THEN <<"doc: a key without id requirement reports a non-zero id (the constructor accepts one; IDRequirement: if not required, the returned ID is zero)", pre, x.accid>>
  ELSE IF ~x.acceq THEN <<"doc: keys built from equal inputs are not Equal", pre>>
  ELSE <<"exp: the constructor accepts a non-zero id for parameters without id requirement and drops it (as built: refusal)", pre>>
================================================================================
