--------------------------------- MODULE PRFSet ---------------------------------
(* prf.Set as a function of the keyset (prf/prf_set_factory.go):                   *)
(*   PrimaryID = the id of the keyset's primary key                               *)
(*   PRFs      = one PRF per ENABLED key, indexed by key id                        *)
(* A keyset is a sequence of entries [id |-> "8 hex digits", status, primary,      *)
(* cfg |-> PRF configuration, key |-> bytes].  Ids are strings because a uint32    *)
(* does not fit a TLC integer.                                                     *)
EXTENDS PRF, FiniteSets

EnabledEntries(ks) == {i \in DOMAIN ks : ks[i].status = "ENABLED"}
EnabledIds(ks) == {ks[i].id : i \in EnabledEntries(ks)}
PrimaryId(ks) == ks[CHOOSE i \in DOMAIN ks : ks[i].primary].id

\* a keyset a PRF set can be built from: exactly one primary, which is enabled, distinct ids
WellFormed(ks) ==
  /\ Cardinality({i \in DOMAIN ks : ks[i].primary}) = 1
  /\ \A i \in DOMAIN ks : ks[i].primary => ks[i].status = "ENABLED"
  /\ \A i, j \in DOMAIN ks : ks[i].id = ks[j].id => i = j

EntryOf(ks, id) == ks[CHOOSE i \in DOMAIN ks : ks[i].id = id]

\* the set: primary id and the id -> PRF map
PRFSetOf(ks) == [primary |-> PrimaryId(ks), prfs |-> [id \in EnabledIds(ks) |-> EntryOf(ks, id)]]

\* PRFs[id].ComputePRF(x, n)
SetCompute(ks, id, x, n) ==
  LET s == PRFSetOf(ks)
  IN IF id \notin DOMAIN s.prfs THEN <<FALSE, <<>>>>
     ELSE PRFCompute(s.prfs[id].cfg, s.prfs[id].key, x, n)
\* ComputePrimaryPRF(x, n)
SetComputePrimary(ks, x, n) == SetCompute(ks, PRFSetOf(ks).primary, x, n)
================================================================================
