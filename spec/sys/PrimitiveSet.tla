------------------------------ MODULE PrimitiveSet ------------------------------
(* C05: what a primitive obtained from a keyset handle does.                        *)
(*                                                                                  *)
(* Two definitions are written down separately and compared:                        *)
(*   - the PROPERTY's rule (PropAccept / Produce / PropPRFSet): a primitive          *)
(*     produces with the primary key only, carrying that key's output prefix, and    *)
(*     accepts an input iff it is valid under some ENABLED key whose prefix it       *)
(*     carries or which has no prefix;                                               *)
(*   - the MECHANISM as the code does it (MechAccept / MechProduce / MechPRFSet):    *)
(*     */*_factory.go build one primitive per ENABLED entry in keyset order          *)
(*     (internal/factoryutil EnabledUnmonitoredEntries), put it into a map keyed by  *)
(*     the key's output prefix (internal/prefixmap), look the first five bytes of    *)
(*     the input up, try those primitives in insertion order, then the prefix-less   *)
(*     ones; the first success wins and that key's id is logged.  Streaming AEAD and *)
(*     JWT have no map: every enabled key in keyset order.  Non-full primitives      *)
(*     (from a registry.KeyManager) are wrapped in full*Adapter types.               *)
(* MC_PrimitiveSet shows mechanism <=> property on all small keysets and on every    *)
(* keyset reachable through KeysetManager; Trace_PrimitiveSet judges the real        *)
(* factories with the PROPERTY's rule.                                               *)
(*                                                                                  *)
(* Key ids are 4 big-endian bytes (OutputPrefix.tla).  Key material is abstract: a   *)
(* label `mat`.  The one cryptographic assumption is stated in ValidBody.            *)
EXTENDS OutputPrefix, FiniteSets

PrefixTypes == {"TINK", "CRUNCHY", "LEGACY", "RAW"}
KeyStatuses == {"ENABLED", "DISABLED", "DESTROYED"}
Impls       == {"full", "legacyAdapter"}     \* full primitive / non-full primitive wrapped by the factory
Classes     == {"AEAD", "DAEAD", "MAC", "SIG", "HYBRID", "JWTMAC", "JWTSIG", "STREAM", "PRF"}

(* A keyset is a sequence of entries                                                 *)
(*   [id, status, primary, pt \in PrefixTypes, mat, impl \in Impls].                 *)
(* A key description [id, pt, mat] is what a single key is to this property.         *)

IsJWT(c)         == c \in {"JWTMAC", "JWTSIG"}
UsesPrefixMap(c) == c \in {"AEAD", "DAEAD", "MAC", "SIG", "HYBRID"}
(* LEGACY keys of MACs and signatures authenticate data || 0x00 (OutputPrefix!LegacyMsg);   *)
(* everywhere else LEGACY is CRUNCHY under another name.                                    *)
LegacySuffix(c, pt) == c \in {"MAC", "SIG"} /\ pt = "LEGACY"

(* prefix types a class can be given at all (key parsers refuse the others) *)
ClassPrefixTypes(c) ==
  CASE IsJWT(c)  -> {"TINK", "RAW"}
    [] c = "PRF" -> {"RAW"}
    [] OTHER     -> PrefixTypes
ClassImpls(c) == IF IsJWT(c) THEN {"full"} ELSE Impls      \* the JWT factories refuse non-full primitives

(* The output prefix of key k in class c: five bytes or none.  Streaming AEAD keys and PRFs   *)
(* have no output prefix whatever their prefix type.  A JWT key's "prefix" is not in front   *)
(* of the token but in its header: kid = base64url(big-endian key id) for TINK keys (carried  *)
(* here as the four id bytes), none for RAW keys.                                            *)
KeyPrefix(c, k) ==
  IF c \in {"STREAM", "PRF"} \/ k.pt = "RAW" THEN <<>>
  ELSE IF IsJWT(c) THEN k.id
  ELSE Prefix(k.pt, k.id)

(************************************ tokens ************************************)
(* An input/output of a primitive, as far as key selection is concerned:                     *)
(*   mat    - the key material that produced its body                                        *)
(*   legacy - the body authenticates data || 0x00                                            *)
(*   pfx    - the output prefix it was formatted with (<<>> none); for JWT the kid header    *)
(*   first5 - its actual first five bytes: pfx if there is one, otherwise whatever the raw   *)
(*            output happens to begin with (possibly ANOTHER key's prefix)                   *)
TokenBy(c, k, f5) ==
  LET p == KeyPrefix(c, k)
  IN [mat |-> k.mat, legacy |-> LegacySuffix(c, k.pt), pfx |-> p, first5 |-> IF p # <<>> THEN p ELSE f5]

(* what of the token a key's prefix is compared with: leading bytes, or the kid header *)
Carried(c, t) == IF IsJWT(c) THEN t.pfx ELSE t.first5

(****************************** the PROPERTY's rule ******************************)
(* "it carries the key's prefix, or the key has none" *)
Carries(c, t, k) == KeyPrefix(c, k) = <<>> \/ Carried(c, t) = KeyPrefix(c, k)

(* "valid under key k": what follows k's prefix is a genuine output of k's key material in   *)
(* k's convention.  ASSUMPTION (cryptographic): a body verifies/decrypts under key material  *)
(* m iff m produced it, in the same data convention, and never after it was shifted by the   *)
(* five bytes of a prefix it does not have / that were not stripped.  A JWT's kid is not a   *)
(* byte prefix, so the shift clause does not apply.                                          *)
ValidBody(c, t, k) ==
  /\ t.mat = k.mat
  /\ t.legacy = LegacySuffix(c, k.pt)
  /\ IsJWT(c) \/ Len(t.pfx) = Len(KeyPrefix(c, k))

ValidUnder(c, t, k) == Carries(c, t, k) /\ ValidBody(c, t, k)

Witnesses(c, ks, t) == {i \in DOMAIN ks : ks[i].status = "ENABLED" /\ ValidUnder(c, t, ks[i])}
PropAccept(c, ks, t) == Witnesses(c, ks, t) # {}
(* "each logged success names the key that did the work" *)
PropLoggedOK(c, ks, t, id) == \E i \in Witnesses(c, ks, t) : ks[i].id = id

PrimaryOf(ks) == ks[CHOOSE i \in DOMAIN ks : ks[i].primary]
(* "produces with the primary key only, carrying that key's output prefix" *)
Produce(c, ks, f5) == TokenBy(c, PrimaryOf(ks), f5)
(* a PRF set mirrors the keyset: the primary's id, one PRF per ENABLED key under its id *)
PropPRFSet(ks) == [primary |-> PrimaryOf(ks).id,
                   prfs |-> {<<ks[i].id, ks[i].mat>> : i \in {j \in DOMAIN ks : ks[j].status = "ENABLED"}}]

WellFormed(ks) ==
  /\ Len(ks) >= 1
  /\ \A i, j \in DOMAIN ks : i # j => ks[i].id # ks[j].id
  /\ Cardinality({i \in DOMAIN ks : ks[i].primary}) = 1
  /\ \A i \in DOMAIN ks : ks[i].primary => ks[i].status = "ENABLED"

(********************************* the MECHANISM *********************************)
SelectSeqBy(s, Test(_)) ==           \* SelectSeq with an operator argument that may be a LAMBDA
  LET RECURSIVE F(_)
      F(i) == IF i > Len(s) THEN <<>> ELSE (IF Test(s[i]) THEN <<s[i]>> ELSE <<>>) \o F(i + 1)
  IN F(1)

(* factoryutil.EnabledUnmonitoredEntries: ENABLED entries in keyset order *)
Enabled(ks) == SelectSeqBy(ks, LAMBDA e : e.status = "ENABLED")

(* What the primitive stored for entry e does with a token.                                 *)
(*  full primitive (key-type constructor): compares its prefix, then verifies the rest;     *)
(*  fullAEADPrimitiveAdapter / fullDAEADPrimitiveAdapter: cut len(prefix) bytes off WITHOUT  *)
(*    looking at them, then decrypt the rest;                                                *)
(*  fullMACAdapter / fullVerifierAdapter / fullHybridDecryptAdapter: compare the prefix,     *)
(*    (LEGACY: append 0x00 to the data), verify the rest;                                    *)
(*  JWT: a TINK key demands kid = base64(prefix); a RAW key ignores the kid header;          *)
(*  streaming AEAD: no prefix at all.                                                        *)
PrimAccepts(c, e, t) ==
  LET p == KeyPrefix(c, e)
      RestValid == t.mat = e.mat /\ t.legacy = LegacySuffix(c, e.pt) /\ Len(t.pfx) = Len(p)
  IN CASE IsJWT(c) -> (p = <<>> \/ t.pfx = p) /\ t.mat = e.mat
       [] c \in {"STREAM", "PRF"} -> t.mat = e.mat
       [] e.impl = "legacyAdapter" /\ c \in {"AEAD", "DAEAD"} -> RestValid
       [] OTHER -> (p = <<>> \/ t.first5 = p) /\ RestValid

(* prefixmap.PrimitivesMatchingPrefix(input): the primitives inserted under the input's      *)
(* first five bytes (insertion order = keyset order), then those inserted under "".          *)
(* mac_factory.go asks twice: mac[:5] (which already yields the prefix-less ones), then nil. *)
Candidates(c, ks, t) ==
  LET en      == Enabled(ks)
      matched == SelectSeqBy(en, LAMBDA e : KeyPrefix(c, e) # <<>> /\ KeyPrefix(c, e) = t.first5)
      raws    == SelectSeqBy(en, LAMBDA e : KeyPrefix(c, e) = <<>>)
  IN CASE c = "MAC"        -> matched \o raws \o raws
       [] UsesPrefixMap(c) -> matched \o raws
       [] OTHER            -> en               \* jwt_*_factory.go, streamingaead/decrypt_reader.go: every enabled key in order

NoKey == <<>>
(* first success wins; that key's id is logged *)
MechAccept(c, ks, t) ==
  LET cs   == Candidates(c, ks, t)
      hits == {i \in DOMAIN cs : PrimAccepts(c, cs[i], t)}
  IN IF hits = {} THEN [ok |-> FALSE, logged |-> NoKey]
     ELSE [ok |-> TRUE, logged |-> cs[CHOOSE i \in hits : \A j \in hits : i <= j].id]

(* The producing key.  aead/daead/mac/jwt_mac/streamingaead factories: `if entry.IsPrimary() *)
(* { primary = ... }` inside the loop over ENABLED entries (the last one flagged wins);      *)
(* signer, hybrid encrypt, jwt signer: handle.Primary() (newFromEntries: the last flagged).  *)
LastFlagged(s) == LET P == {i \in DOMAIN s : s[i].primary}
                  IN s[CHOOSE i \in P : \A j \in P : j <= i]
MechProducer(c, ks) ==
  IF c \in {"SIG", "HYBRID", "JWTSIG"} THEN LastFlagged(ks) ELSE LastFlagged(Enabled(ks))
MechProduce(c, ks, f5) == TokenBy(c, MechProducer(c, ks), f5)
(* prf_set_factory.go: PrimaryID from the flagged enabled entry, PRFs[id] for every enabled entry *)
MechPRFSet(ks) == LET en == Enabled(ks)
                  IN [primary |-> LastFlagged(en).id, prfs |-> {<<en[i].id, en[i].mat>> : i \in DOMAIN en}]

(***************************** the universe of inputs *****************************)
(* "all inputs produced by any single key": every key description over the given ids,       *)
(* prefix types and key materials (keys of the keyset in any status, removed keys, foreign   *)
(* keys with the same id and prefix type), and for a prefix-less output every way its first  *)
(* five bytes can collide with a prefix present in the keyset.                               *)
OtherFirst5 == <<2, 0, 0, 0, 0>>                 \* begins like no key's prefix
KeyDescs(c, ids, mats) == [id : ids, pt : ClassPrefixTypes(c), mat : mats]
First5Choices(c, ks) == {OtherFirst5} \cup ({KeyPrefix(c, ks[i]) : i \in DOMAIN ks} \ {<<>>})
Tokens(c, ks, ids, mats) ==
  {TokenBy(c, k, f) : k \in KeyDescs(c, ids, mats), f \in First5Choices(c, ks)}

(* can class c be given this keyset at all *)
ClassAdmits(c, ks) == \A i \in DOMAIN ks : ks[i].pt \in ClassPrefixTypes(c) /\ ks[i].impl \in ClassImpls(c)

(* mechanism and property agree on one keyset *)
Agree(c, ks, ids, mats) ==
  /\ \A t \in Tokens(c, ks, ids, mats) :
       LET m == MechAccept(c, ks, t)
       IN /\ m.ok = PropAccept(c, ks, t)
          /\ m.ok => PropLoggedOK(c, ks, t, m.logged)
  /\ MechProduce(c, ks, OtherFirst5) = Produce(c, ks, OtherFirst5)
  /\ MechPRFSet(ks) = PropPRFSet(ks)
================================================================================
