---------------------------------- MODULE JWKSet ----------------------------------
(* X01.  Conversion between Tink public JWT keysets and JSON Web Key Sets            *)
(* (jwt.JWKSetFromPublicKeysetHandle / jwt.JWKSetToPublicKeysetHandle), written as    *)
(* two functions of values - what the set CONTAINS, not only that tokens still       *)
(* verify (C09 stops there).                                                         *)
(*                                                                                  *)
(* Sources of the rule ("documented"):                                               *)
(*  [godoc]  jwt/jwk_converter.go: both directions convert PUBLIC keys for ES256,     *)
(*           ES384, ES512, RS256, RS384, RS512 (the list is stale: PS256/384/512 are  *)
(*           converted as well and covered by the package's own tests - observation); *)
(*           import "requires that all keys in the set have the alg field set".       *)
(*  [7517]   RFC 7517: a JWK is a JSON object, kty MUST be present (4.1), member       *)
(*           names MUST be unique - parsers reject duplicates or take the last (4),   *)
(*           unknown members MUST be ignored (4), use (4.2), key_ops an array of      *)
(*           strings without duplicates, consistent with use (4.3), kid a string that *)
(*           is matched against the JWS kid header (4.5); a JWK Set is a JSON object   *)
(*           with a "keys" array (5).                                                 *)
(*  [7518]   RFC 7518 6.2.1 EC: crv, x, y; a coordinate's octet string MUST have the   *)
(*           full size of a coordinate of the curve; 6.3.1 RSA: n, e as Base64urlUInt  *)
(*           (section 2: the MINIMUM number of octets); 6.2.2 / 6.3.2 private members  *)
(*           d, p, q, dp, dq, qi, oth; 3.1/3.4: ES256 is P-256 etc.                    *)
(*  [kid]    jwt*/parameters.go KIDStrategy: Base64EncodedKeyIDAsKID = base64url of the *)
(*           big-endian key id, verifier requires it; CustomKID = fixed kid, checked    *)
(*           when present; IgnoredKID = header not looked at.                          *)
(*  [tink]   jwtecdsa.NewPublicKey validates the point; JWT RSA parameters want a       *)
(*           modulus of at least 2048 bits.                                           *)
(*                                                                                  *)
(* Everything the sources leave open is stated too, but marked AS BUILT: the trace     *)
(* spec treats a deviation from it as "model out of date" (exit 2), never as a         *)
(* violation, and the check lists these choices as observations.  Import therefore     *)
(* has four verdicts:                                                                 *)
(*     "reject"   some documented rule refuses the set          (doc # {})            *)
(*     "reject*"  only as-built strictness refuses it            (gf # {})            *)
(*     "accept*"  accepted, but only thanks to as-built leniency (gp # {})            *)
(*     "accept"   a well-formed set of supported public keys                          *)
(*                                                                                  *)
(* The module is parametric in the three facts that make real keys big, so that TLC    *)
(* can check the round-trip theorems on toy curves and moduli (MC_JWKSet); JWKSetStd    *)
(* binds them to P-256/384/521 (JDK) and 2048 bits.                                    *)
EXTENDS JWKJson, JWS, FiniteSets

CONSTANTS JwkCoordLen(_),       \* crv ("P-256", ...) -> octets of a coordinate
          JwkOnCurve(_, _, _),  \* (crv, x, y): full-size coordinates of a point of the curve (not infinity)
          JwkMinModulusBits     \* 2048

JR(cond, reason) == IF cond THEN {reason} ELSE {}
JUnion(f) == UNION {f[i] : i \in DOMAIN f}

\* ------------------------------------------------------------------ algorithms
JwkSigAlgs   == JWSEcAlgs \cup JWSRsAlgs \cup JWSPsAlgs
JwkGodocAlgs == JWSEcAlgs \cup JWSRsAlgs               \* the list in the godoc (PS*: observation)
JwkFam(alg)  == IF alg \in JWSEcAlgs THEN "EC" ELSE "RSA"
JwkCrvOf(alg) == CASE alg = "ES256" -> "P-256" [] alg = "ES384" -> "P-384" [] alg = "ES512" -> "P-521"
JwkCurves == {"P-256", "P-384", "P-521"}
\* the supported algorithm a value names exactly (case-sensitive), "" otherwise
JwkAlgName(v) == IF v.k = "str" /\ \E a \in JwkSigAlgs : v.b = StrToBytes(a)
                 THEN CHOOSE a \in JwkSigAlgs : v.b = StrToBytes(a) ELSE ""

F4 == <<1, 0, 1>>

\* ------------------------------------------------------------------ keys and keysets (the Tink side)
\* key    [kind   |-> "jwt" (a JWT signature key) | anything else (HMAC, ML-DSA, plain signature keys ...),
\*         alg    |-> "ES256" ..., strat |-> "TINK" | "CUSTOM" | "IGNORED",
\*         id     |-> the 4 octets of the keyset key id, kid |-> octets of the custom kid (CUSTOM only),
\*         status |-> "ENABLED" | "DISABLED" | "DESTROYED", priv |-> BOOLEAN,
\*         pub    |-> EC: [x, y] octets ; RSA: [n, e] octets, big-endian, as the key object holds them]
\* keyset [keys |-> <<key>>, primary |-> index]
JwkKidBytes(k) == CASE k.strat = "TINK"   -> B64UrlEncode(k.id)        \* [kid]
                    [] k.strat = "CUSTOM" -> k.kid
                    [] OTHER              -> <<>>
JwkSamePub(a, b) == IF JwkFam(a.alg) = "EC" THEN a.pub.x = b.pub.x /\ a.pub.y = b.pub.y
                    ELSE RSAStrip(a.pub.n) = RSAStrip(b.pub.n) /\ RSAStrip(a.pub.e) = RSAStrip(b.pub.e)

\* ------------------------------------------------------------------ EXPORT
\* refuses private keys and key types other than the supported public JWT signature keys [godoc]
JwkSupported(k) == k.kind = "jwt" /\ k.alg \in JwkSigAlgs /\ ~k.priv
JwkEnabled(ks) == SelectSeq(ks.keys, LAMBDA k : k.status = "ENABLED")
JwkExportRefused(ks) == \E i \in 1..Len(ks.keys) : ks.keys[i].status = "ENABLED" /\ ~JwkSupported(ks.keys[i])
\* AS BUILT: keys that are not ENABLED are skipped before they are looked at, so an unsupported or
\* private key that is DISABLED / DESTROYED does not make the export fail
JwkExportGrey(ks) == \E i \in 1..Len(ks.keys) : ks.keys[i].status # "ENABLED" /\ ~JwkSupported(ks.keys[i])

JwkLeftPad(b, n) == IF Len(b) >= n THEN b ELSE Zeros(n - Len(b)) \o b
JwkKidMember(k) == IF k.strat = "IGNORED" THEN JAbsent ELSE JStr(JwkKidBytes(k))
\* what the sources fix: the key itself [7517 4.1, 7518 6.2.1 / 6.3.1], alg [godoc: import needs it], kid [7517 4.5 + kid]
JwkDocMembers(k) ==
  IF JwkFam(k.alg) = "EC"
  THEN LET crv == JwkCrvOf(k.alg) IN
       <<JMem("kty", JS("EC")), JMem("crv", JS(crv)), JMem("alg", JS(k.alg)),
         JMem("x", JStr(B64UrlEncode(JwkLeftPad(RSAStrip(k.pub.x), JwkCoordLen(crv))))),     \* full size [7518 6.2.1.2]
         JMem("y", JStr(B64UrlEncode(JwkLeftPad(RSAStrip(k.pub.y), JwkCoordLen(crv))))),
         JMem("kid", JwkKidMember(k))>>
  ELSE <<JMem("kty", JS("RSA")), JMem("alg", JS(k.alg)),
         JMem("n", JStr(B64UrlEncode(RSAStrip(k.pub.n)))),                                    \* minimal [7518 2]
         JMem("e", JStr(B64UrlEncode(RSAStrip(k.pub.e)))),
         JMem("kid", JwkKidMember(k))>>
\* AS BUILT: both use and key_ops are written (7517 4.3: SHOULD NOT be used together; consistent if they are)
JwkAsBuiltMembers == <<JMem("use", JS("sig")), JMem("key_ops", JList(<<JS("verify")>>))>>
JwkOfKey(k) == JObj(JPresent(JwkDocMembers(k) \o JwkAsBuiltMembers))
\* one JWK per ENABLED key, nothing about the others [test name: NonEnabledKeysAreIgnored]
JwkExportKeys(ks) == LET en == JwkEnabled(ks) IN [i \in 1..Len(en) |-> JwkOfKey(en[i])]
JwkExportSet(ks) == JObj(<<JMem("keys", JList(JwkExportKeys(ks)))>>)

\* What of an actually exported JWK a (an object) is judged against the sources: the documented members
\* verbatim, use / key_ops only for consistency with "public key for signature verification", and that
\* nothing private and no duplicate name is there.
JwkAllPrivNames == {"d", "p", "q", "dp", "dq", "qi", "oth", "k"}
JwkUseOK(a) == JGet(a, "use").k = "absent" \/ JIsS(JGet(a, "use"), "sig")
JwkOpsVerifyOnly(v) == v.k = "list" /\ Len(v.l) = 1 /\ JIsS(v.l[1], "verify")
JwkOpsOK(a) == JGet(a, "key_ops").k = "absent" \/ JwkOpsVerifyOnly(JGet(a, "key_ops"))
JwkDocNames == <<"kty", "crv", "alg", "x", "y", "n", "e", "kid">>
JwkDocView(a) == [vals |-> [i \in 1..Len(JwkDocNames) |-> JGet(a, JwkDocNames[i])],
                  useOK |-> JwkUseOK(a), opsOK |-> JwkOpsOK(a),
                  private |-> JNames(a) \cap JwkAllPrivNames, dup |-> JDup(a)]
JwkDocViewOfKey(k) == JwkDocView(JwkOfKey(k))

\* ------------------------------------------------------------------ IMPORT: one JWK
\* a member that should hold base64url [7515 2: URL-safe alphabet, no padding]
JwkUnpad(s) == LET p == IF Len(s) >= 2 /\ s[Len(s)] = 61 /\ s[Len(s) - 1] = 61 THEN 2
                        ELSE IF Len(s) >= 1 /\ s[Len(s)] = 61 THEN 1 ELSE 0
               IN [core |-> SubSeq(s, 1, Len(s) - p), pad |-> p]
JwkB64(v) ==
  IF v.k # "str" THEN [ok |-> FALSE, why |-> IF v.k = "absent" THEN "absent" ELSE "not a string",
                       bytes |-> <<>>, canonical |-> FALSE]
  ELSE LET d == B64UrlDecode(v.b) IN
       IF d.ok THEN [ok |-> TRUE, why |-> "", bytes |-> d.bytes, canonical |-> d.canonical]
       ELSE LET u == JwkUnpad(v.b) IN
            IF u.pad > 0 /\ ((Len(u.core) + u.pad) % 4) = 0 /\ B64UrlDecode(u.core).ok
            THEN [ok |-> FALSE, why |-> "padded", bytes |-> <<>>, canonical |-> FALSE]
            ELSE [ok |-> FALSE, why |-> "not base64url", bytes |-> <<>>, canonical |-> FALSE]

\* the public exponent, by value (it may be wider than TLC's integers)
JwkExpClass(e) ==
  LET s == RSAStrip(e) IN
  IF s = <<>> THEN "zero"
  ELSE IF (s[Len(s)] % 2) = 0 THEN "even"
  ELSE IF Len(s) > 4 \/ (Len(s) = 4 /\ s[1] >= 128) THEN "wide"          \* > 2^31 - 1
  ELSE LET v == BEToNat(s) IN
       IF v < 3 THEN "one" ELSE IF v < 65537 THEN "small" ELSE IF v = 65537 THEN "F4" ELSE "other"

JwkOpsClass(v) ==
  IF v.k # "list" THEN "malformed"
  ELSE IF \E i \in 1..Len(v.l) : v.l[i].k # "str" THEN "malformed"
  ELSE LET ops == [i \in 1..Len(v.l) |-> v.l[i].b] IN
       IF \A i \in 1..Len(ops) : ops[i] # StrToBytes("verify") THEN "noverify"
       ELSE IF Len(ops) = 1 THEN "verify"
       ELSE IF \E i, j \in 1..Len(ops) : i < j /\ ops[i] = ops[j] THEN "dup" ELSE "more"

JwkPrivNames(fam) == IF fam = "EC" THEN {"d"} ELSE {"d", "p", "q", "dp", "dq", "qi"}

\* material: <<documented refusals, as-built refusals, as-built leniencies>>
JwkEcMaterial(j, crv) ==
  LET x == JwkB64(JGet(j, "x"))
      y == JwkB64(JGet(j, "y"))
      n == JwkCoordLen(crv)
      sized == x.ok /\ y.ok /\ Len(x.bytes) = n /\ Len(y.bytes) = n
  IN [doc |-> JR(~x.ok /\ x.why # "padded", "x " \o x.why) \cup JR(~y.ok /\ y.why # "padded", "y " \o y.why)
              \cup JR(x.ok /\ y.ok /\ ~sized, "coordinate length")                     \* [7518 6.2.1.2 / 6.2.1.3]
              \cup JR(sized /\ ~JwkOnCurve(crv, x.bytes, y.bytes), "not on curve"),    \* [tink]
      gf  |-> JR(x.why = "padded", "x padded") \cup JR(y.why = "padded", "y padded"),
      gp  |-> JR((x.ok /\ ~x.canonical) \/ (y.ok /\ ~y.canonical), "base64url trailing bits")]

JwkRsaMaterial(j) ==
  LET n == JwkB64(JGet(j, "n"))
      e == JwkB64(JGet(j, "e"))
      ec == IF e.ok THEN JwkExpClass(e.bytes) ELSE ""
  IN [doc |-> JR(~n.ok /\ n.why # "padded", "n " \o n.why) \cup JR(~e.ok /\ e.why # "padded", "e " \o e.why)
              \cup JR(n.ok /\ ModBits(n.bytes) < JwkMinModulusBits, "modulus too small")          \* [tink]
              \cup JR(ec \in {"zero", "even", "one"}, "e is not an RSA public exponent"),          \* RFC 8017 3.1
      \* AS BUILT: 65537 <= e <= 2^31 - 1
      gf  |-> JR(n.why = "padded", "n padded") \cup JR(e.why = "padded", "e padded")
              \cup JR(ec = "small", "e below 65537") \cup JR(ec = "wide", "e above 2^31-1"),
      \* AS BUILT: the octets are taken as they come (leading zeros kept), n is not looked at beyond its size,
      \* an exponent other than 65537 is kept (jwt.NewVerifier refuses such a keyset later)
      gp  |-> JR((n.ok /\ ~n.canonical) \/ (e.ok /\ ~e.canonical), "base64url trailing bits")
              \cup JR((n.ok /\ n.bytes # RSAStrip(n.bytes)) \/ (e.ok /\ e.bytes # <<>> /\ e.bytes # RSAStrip(e.bytes)),
                      "Base64urlUInt with leading zero octets")
              \cup JR(n.ok /\ n.bytes # <<>> /\ (n.bytes[Len(n.bytes)] % 2) = 0, "even modulus")
              \cup JR(ec = "other", "e other than 65537")]

JwkJudge(j) ==
  IF j.k # "obj" THEN [doc |-> {"a key is not a JSON object"}, gf |-> {}, gp |-> {}] ELSE
  LET algV == JGet(j, "alg")
      alg  == JwkAlgName(algV)
      fam  == IF alg = "" THEN "" ELSE JwkFam(alg)
      kty  == JGet(j, "kty")
      use  == JGet(j, "use")
      ops  == JGet(j, "key_ops")
      oc   == IF ops.k = "absent" THEN "" ELSE JwkOpsClass(ops)
      kid  == JGet(j, "kid")
      mat  == IF fam = "EC" /\ JIsS(JGet(j, "crv"), JwkCrvOf(alg)) THEN JwkEcMaterial(j, JwkCrvOf(alg))
              ELSE IF fam = "RSA" THEN JwkRsaMaterial(j)
              ELSE [doc |-> {}, gf |-> {}, gp |-> {}]
  IN [doc |-> JR(algV.k = "absent", "alg absent")                                         \* [godoc]
              \cup JR(algV.k # "absent" /\ alg = "", "alg unsupported")                   \* [godoc]
              \cup JR(kty.k = "absent", "kty absent")                                     \* [7517 4.1]
              \cup JR(kty.k # "absent" /\ alg # "" /\ ~JIsS(kty, fam), "kty does not fit alg")
              \cup JR(fam = "EC" /\ ~JIsS(JGet(j, "crv"), JwkCrvOf(alg)), "crv does not fit alg")  \* [7518 3.4]
              \cup JR(use.k # "absent" /\ ~JIsS(use, "sig"), "use is not sig")            \* [7517 4.2]
              \cup JR(oc = "malformed", "key_ops malformed")                              \* [7517 4.3]
              \cup JR(oc = "noverify", "key_ops without verify")
              \cup JR(oc = "dup", "key_ops with duplicates")
              \cup JR(kid.k \notin {"absent", "str"}, "kid is not a string")              \* [7517 4.5]
              \cup JR(fam # "" /\ JNames(j) \cap JwkPrivNames(fam) # {}, "private key")   \* [godoc]
              \cup mat.doc,
      gf  |-> JR(oc = "more", "key_ops other than [verify]")           \* AS BUILT: exactly ["verify"]
              \cup JR(JDup(j), "duplicate member names")               \* [7517 4] allows rejecting (or last wins)
              \cup mat.gf,
      gp  |-> JR(fam = "RSA" /\ JHas(j, "oth"), "oth present")         \* AS BUILT: not among the refused private members
              \cup mat.gp]

\* The key an accepted JWK stands for: a key WITHOUT id requirement (RAW) whose kid strategy is
\* CUSTOM with the JWK's kid, or IGNORED when the JWK has none [7517 4.5 + kid].
JwkKeyOf(j) ==
  LET alg == JwkAlgName(JGet(j, "alg"))
      kid == JGet(j, "kid")
  IN [kind |-> "jwt", alg |-> alg, strat |-> IF kid.k = "str" THEN "CUSTOM" ELSE "IGNORED",
      kid |-> IF kid.k = "str" THEN kid.b ELSE <<>>, id |-> <<>>, status |-> "ENABLED", priv |-> FALSE,
      pub |-> IF JwkFam(alg) = "EC" THEN [x |-> JwkB64(JGet(j, "x")).bytes, y |-> JwkB64(JGet(j, "y")).bytes]
              ELSE [n |-> JwkB64(JGet(j, "n")).bytes, e |-> JwkB64(JGet(j, "e")).bytes]]

\* ------------------------------------------------------------------ IMPORT: the set
\* shape: how the octets relate to the value top (JWKJson!JShapes); only "object" / "ws" are JSON texts.
JwkImport(shape, top) ==
  LET keysV == IF top.k = "obj" THEN JGet(top, "keys") ELSE JAbsent
      elems == IF keysV.k = "list" THEN keysV.l ELSE <<>>
      per   == [i \in 1..Len(elems) |-> JwkJudge(elems[i])]
      doc   == JR(~JIsJsonText(shape), "not a JSON text")                                  \* [7517 5]
               \cup JR(top.k # "obj", "not a JSON object")
               \cup JR(top.k = "obj" /\ keysV.k = "absent", "no keys member")
               \cup JR(keysV.k \notin {"absent", "list"}, "keys is not an array")
               \cup JUnion([i \in 1..Len(per) |-> per[i].doc])
      \* AS BUILT: an empty array is refused (a Tink keyset cannot be empty); ONE refused key refuses the
      \* whole set ([godoc] says so for alg; 7517 5 says SHOULD ignore such keys - observation)
      gf    == JR(keysV.k = "list" /\ elems = <<>>, "keys is empty")
               \cup JR(top.k = "obj" /\ JDup(top), "duplicate member names")
               \cup JUnion([i \in 1..Len(per) |-> per[i].gf])
      gp    == JUnion([i \in 1..Len(per) |-> per[i].gp])
      v     == IF doc # {} THEN "reject" ELSE IF gf # {} THEN "reject*" ELSE IF gp # {} THEN "accept*" ELSE "accept"
  IN [verdict |-> v, doc |-> doc, gf |-> gf, gp |-> gp, n |-> Len(elems),
      keys |-> IF v \in {"accept", "accept*"} THEN [i \in 1..Len(elems) |-> JwkKeyOf(elems[i])] ELSE <<>>]

JwkAccepted(r) == r.verdict \in {"accept", "accept*"}
\* the keyset an accepted import yields: every key ENABLED, distinct fresh ids (not modelled: random), and
\* AS BUILT the LAST key is the primary (public keysets do not sign; nothing documents the choice)
JwkImportedKeyset(r) == [keys |-> r.keys, primary |-> Len(r.keys)]

\* ------------------------------------------------------------------ which tokens a keyset verifies (C09's rule)
\* t: [alg, pub, kid]: a token signed with algorithm alg by the private key of pub whose header carries
\* kid ([k |-> "absent"] or [k |-> "str", v |-> octets], the value form of module JWT).
J == INSTANCE JWT
JwkKeyAccepts(k, t) == /\ k.kind = "jwt" /\ k.status = "ENABLED"
                       /\ k.alg = t.alg /\ JwkSamePub(k, t)
                       /\ J!KidRule(t.kid, [strat |-> k.strat, kid |-> JwkKidBytes(k)])
JwkKeysetAccepts(ks, t) == \E i \in 1..Len(ks.keys) : JwkKeyAccepts(ks.keys[i], t)
\* the token the signer of key k emits [kid]
JwkTokenOf(k) == [alg |-> k.alg, pub |-> k.pub,
                  kid |-> IF k.strat = "IGNORED" THEN J!Absent ELSE J!Str(JwkKidBytes(k))]
================================================================================
