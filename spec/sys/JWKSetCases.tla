-------------------------------- MODULE JWKSetCases --------------------------------
(* X01: the cases, enumerated by TLC (written out by Plan_JWKSet).                    *)
(*                                                                                  *)
(* IMPORT cases are JWK Sets as JSON values (module JWKJson): per block the FULL      *)
(* product of the listed values of the members the block is about, the other members  *)
(* at a passing value (ctx "pass") and at a failing one (ctx "fail": use = "enc", or   *)
(* kty = "oct" in the block about use).                                               *)
(*   meta     kty x alg x crv x which key material is present (EC of each curve, RSA,  *)
(*            both)                                                                   *)
(*   usage    use x key_ops x kid                                                     *)
(*   ec       x x y x d : right, one octet short / long, leading zero, the other       *)
(*            coordinate's last octet carried over, off the curve, swapped, empty,     *)
(*            base64url with trailing bits / padding / '+' / a blank, number, null,    *)
(*            array, absent                                                           *)
(*   rsa      n x e : sizes 1024 / 2047 / 2048 / 3072 bits, leading zero, even, zero,   *)
(*            encodings as above; e = 0, 1, 3, 65535, 65536+2, 65537 (also with a       *)
(*            leading zero, as a JSON number), 65539, 2^31 - 1, 2^31 + 1, 2^64 + 1       *)
(*   private  every subset of {d, p, q, dp, dq, qi, oth, k} next to a public key         *)
(*   set      the set itself: shapes of the text, the keys member (absent, null, string, *)
(*            object, empty, non-object elements), several keys, one refused key among   *)
(*            good ones, duplicate and unknown members, member order                    *)
(*   mix      seeded random combinations across all of the above, 1..3 keys per set      *)
(* Key material is not known to TLC when it plans: members that depend on it are       *)
(* PLACEHOLDERS [k |-> "mat", f |-> field, c |-> class]; JwkSubst says what octets a     *)
(* class stands for given the material of the run (the driver implements the same        *)
(* table; Trace_JWKSet checks that both agree before it judges anything).               *)
(*                                                                                  *)
(* EXPORT cases are abstract keysets (algorithm x kid strategy x key id / custom kid x   *)
(* status mixes x private / foreign key types x special RSA keys).                       *)
EXTENDS JWKSetStd, SequencesExt, IOUtils

Tier == IF "VERIF_TIER" \in DOMAIN IOEnv THEN IOEnv.VERIF_TIER ELSE "quick"
Full == Tier = "thorough"

\* ------------------------------------------------------------------ material placeholders
Mat(f, c) == [k |-> "mat", f |-> f, c |-> c]

B64S(b) == JStr(B64UrlEncode(b))
\* set the unused low bits of the last character (no-op when the string has none)
NonCanon(s) ==
  LET m == Len(s) IN
  IF m = 0 \/ (m % 4) = 0 THEN s
  ELSE LET v == B64Val(s[m])
           w == IF (m % 4) = 2 THEN v + (IF (v % 16) = 0 THEN 1 ELSE 0) ELSE v + (IF (v % 4) = 0 THEN 1 ELSE 0)
       IN SubSeq(s, 1, m - 1) \o <<B64Alphabet[w + 1]>>
Padded(s) == LET p == (4 - (Len(s) % 4)) % 4 IN s \o [i \in 1..(IF p = 0 THEN 1 ELSE p) |-> 61]
FlipLast(b) == IF b = <<>> THEN b ELSE SubSeq(b, 1, Len(b) - 1) \o <<IF (b[Len(b)] % 2) = 0 THEN b[Len(b)] + 1 ELSE b[Len(b)] - 1>>
ClearLast(b) == IF b = <<>> THEN b ELSE SubSeq(b, 1, Len(b) - 1) \o <<b[Len(b)] - (b[Len(b)] % 2)>>

\* m: the material of the case as octets [x, y, n, n1024, n2047, n3072]
\* own: the octets the member stands for when everything is right; oth: the other coordinate
EncClass(c, own) ==
  CASE c = "good"     -> B64S(own)
    [] c = "noncanon" -> JStr(NonCanon(B64UrlEncode(own)))
    [] c = "padded"   -> JStr(Padded(B64UrlEncode(own)))
    [] c = "plus"     -> JStr(<<43>> \o Tail(B64UrlEncode(own)))
    [] c = "space"    -> JStr(<<32>> \o B64UrlEncode(own))
    [] c = "empty"    -> JStr(<<>>)
    [] c = "num"      -> JNum("1")
    [] c = "null"     -> JNull
    [] c = "list"     -> JList(<<B64S(own)>>)
    [] c = "absent"   -> JAbsent
EncClasses == {"good", "noncanon", "padded", "plus", "space", "empty", "num", "null", "list", "absent"}

CoordValue(c, own, oth) ==
  CASE c \in EncClasses -> EncClass(c, own)
    [] c = "short"  -> B64S(SubSeq(own, 1, Len(own) - 1))
    [] c = "long0"  -> B64S(<<0>> \o own)
    [] c = "strip0" -> B64S(RSAStrip(own))
    [] c = "carry"  -> B64S(<<oth[Len(oth)]>> \o own)        \* with the other one "short": x || y is unchanged
    [] c = "off"    -> B64S(FlipLast(own))
    [] c = "other"  -> B64S(oth)
ModulusValue(c, m) ==
  CASE c \in EncClasses -> EncClass(c, m.n)
    [] c = "lead0" -> B64S(<<0>> \o m.n)
    [] c = "even"  -> B64S(ClearLast(m.n))
    [] c = "zero"  -> B64S(<<0>>)
    [] c = "small" -> B64S(m.n1024)
    [] c = "b2047" -> B64S(m.n2047)
    [] c = "big"   -> B64S(m.n3072)

MatValue(p, m) ==
  CASE p.f = "x" -> CoordValue(p.c, m.x, m.y)
    [] p.f = "y" -> CoordValue(p.c, m.y, m.x)
    [] p.f = "n" -> ModulusValue(p.c, m)

RECURSIVE JwkSubst(_, _)
JwkSubst(v, m) ==
  CASE v.k = "mat"  -> MatValue(v, m)
    [] v.k = "list" -> JList([i \in 1..Len(v.l) |-> JwkSubst(v.l[i], m)])
    [] v.k = "obj"  -> JObj(JPresent([i \in 1..Len(v.m) |-> JMem(v.m[i].n, JwkSubst(v.m[i].v, m))]))
    [] OTHER        -> v
MatOfEvent(r) == [x |-> HexToBytes(r.x), y |-> HexToBytes(r.y), n |-> HexToBytes(r.n), n1024 |-> HexToBytes(r.n1024),
                  n2047 |-> HexToBytes(r.n2047), n3072 |-> HexToBytes(r.n3072)]

\* ------------------------------------------------------------------ member values by name
KtyVal(s) == CASE s = "absent" -> JAbsent [] s = "num" -> JNum("1") [] s = "null" -> JNull [] OTHER -> JS(s)
KtyNames  == {"absent", "EC", "RSA", "OKP", "oct", "ec", "num", "null"}

AlgVal(s) == CASE s = "absent" -> JAbsent [] s = "num" -> JNum("256") [] s = "null" -> JNull [] s = "empty" -> JS("") [] OTHER -> JS(s)
AlgNames == JwkSigAlgs \cup {"absent", "num", "null", "empty", "HS256", "EdDSA", "ES256K", "none", "E", "ES", "es256",
                             "ES2560", "RS1", "RSA-OAEP", "PS"}

CrvVal(s) == CASE s = "absent" -> JAbsent [] s = "num" -> JNum("256") [] OTHER -> JS(s)
CrvNames == {"absent", "P-256", "P-384", "P-521", "secp256k1", "Ed25519", "p-256", "num"}

UseVal(s) == CASE s = "absent" -> JAbsent [] s = "num" -> JNum("0") [] s = "null" -> JNull [] s = "empty" -> JS("")
               [] s = "list" -> JList(<<JS("sig")>>) [] OTHER -> JS(s)
UseNames == {"absent", "sig", "enc", "SIG", "empty", "num", "null", "list"}

V == JS("verify")
OpsVal(s) ==
  CASE s = "absent" -> JAbsent
    [] s = "verify" -> JList(<<V>>)
    [] s = "sign" -> JList(<<JS("sign")>>)
    [] s = "verify,sign" -> JList(<<V, JS("sign")>>)
    [] s = "sign,verify" -> JList(<<JS("sign"), V>>)
    [] s = "verify,verify" -> JList(<<V, V>>)
    [] s = "encrypt" -> JList(<<JS("encrypt")>>)
    [] s = "Verify" -> JList(<<JS("Verify")>>)
    [] s = "empty" -> JList(<<>>)
    [] s = "string" -> V
    [] s = "num" -> JList(<<JNum("1")>>)
    [] s = "verify,num" -> JList(<<V, JNum("1")>>)
    [] s = "nested" -> JList(<<JList(<<V>>)>>)
    [] s = "object" -> JObj(<<JMem("verify", JTrue)>>)
    [] s = "null" -> JNull
OpsNames == {"absent", "verify", "sign", "verify,sign", "sign,verify", "verify,verify", "encrypt", "Verify", "empty",
             "string", "num", "verify,num", "nested", "object", "null"}

KidBytes(s) ==
  CASE s = "plain" -> StrToBytes("kid-1")
    [] s = "empty" -> <<>>
    [] s = "tinklike" -> StrToBytes("AQIDBA")                      \* base64url(01020304): what a TINK key of that id uses
    [] s = "escapes" -> <<34, 92, 10, 47, 1>>                      \* quote, backslash, LF, slash, U+0001
    [] s = "utf8" -> <<208, 186, 208, 187, 209, 142, 209, 135>>    \* Cyrillic
KidVal(s) == CASE s = "absent" -> JAbsent [] s = "num" -> JNum("7") [] s = "null" -> JNull
               [] s = "list" -> JList(<<JS("kid-1")>>) [] s = "object" -> JObj(<<>>)
               [] OTHER -> JStr(KidBytes(s))
KidStrNames == {"plain", "empty", "tinklike", "escapes", "utf8"}
KidNames == KidStrNames \cup {"absent", "num", "null", "list", "object"}

ExpVal(s) ==
  CASE s = "F4" -> B64S(F4)
    [] s = "lead0" -> B64S(<<0, 1, 0, 1>>)
    [] s = "zero" -> B64S(<<0>>)
    [] s = "empty" -> JStr(<<>>)
    [] s = "one" -> B64S(<<1>>)
    [] s = "three" -> B64S(<<3>>)
    [] s = "65535" -> B64S(<<255, 255>>)
    [] s = "65538" -> B64S(<<1, 0, 2>>)
    [] s = "65539" -> B64S(<<1, 0, 3>>)
    [] s = "max" -> B64S(<<127, 255, 255, 255>>)
    [] s = "over" -> B64S(<<128, 0, 0, 1>>)
    [] s = "wide" -> B64S(<<1, 0, 0, 0, 0, 0, 0, 0, 1>>)
    [] s = "threenc" -> JStr(StrToBytes("Ax"))                     \* 3 with trailing bits set
    [] s = "padded" -> JStr(StrToBytes("AQAB="))
    [] s = "num" -> JNum("65537")
    [] s = "null" -> JNull
    [] s = "absent" -> JAbsent
ExpNames == {"F4", "lead0", "zero", "empty", "one", "three", "65535", "65538", "65539", "max", "over", "wide", "threenc",
             "padded", "num", "null", "absent"}

CoordNames == EncClasses \cup {"short", "long0", "strip0", "carry", "off", "other"}
ModNames   == EncClasses \cup {"lead0", "even", "zero", "small", "b2047", "big"}

PrivNames == <<"d", "p", "q", "dp", "dq", "qi", "oth", "k">>
PrivVal(n, kind) == CASE kind = "null" -> JNull [] kind = "num" -> JNum("1")
                      [] n = "oth" -> JList(<<JObj(<<JMem("r", JS("AQ")), JMem("d", JS("AQ")), JMem("t", JS("AQ"))>>)>>)
                      [] OTHER -> JS("AQ")

\* ------------------------------------------------------------------ JWKs
\* r: [kty, crv, alg, use, ops, kid : values ; x, y, n, e : values or placeholders ; extra : members]
Jwk(r) == JObj(JPresent(<<JMem("kty", r.kty), JMem("crv", r.crv), JMem("alg", r.alg), JMem("use", r.use),
                          JMem("key_ops", r.ops), JMem("kid", r.kid), JMem("x", r.x), JMem("y", r.y),
                          JMem("n", r.n), JMem("e", r.e)>> \o r.extra))
NoMembers == [kty |-> JAbsent, crv |-> JAbsent, alg |-> JAbsent, use |-> JAbsent, ops |-> JAbsent, kid |-> JAbsent,
              x |-> JAbsent, y |-> JAbsent, n |-> JAbsent, e |-> JAbsent, extra |-> <<>>]
DefEc(alg)  == [NoMembers EXCEPT !.kty = JS("EC"), !.crv = JS(JwkCrvOf(alg)), !.alg = JS(alg),
                                 !.x = Mat("x", "good"), !.y = Mat("y", "good")]
DefRsa(alg) == [NoMembers EXCEPT !.kty = JS("RSA"), !.alg = JS(alg), !.n = Mat("n", "good"), !.e = ExpVal("F4")]
Def(alg) == IF alg \in JWSEcAlgs THEN DefEc(alg) ELSE DefRsa(alg)
\* the material a JWK of alg needs
MsOf(alg) == IF alg \in JWSEcAlgs THEN JwkCrvOf(alg) ELSE "RSA"

SetOf(jwks) == JObj(<<JMem("keys", JList(jwks))>>)
Case(blk, ctx, lab, ms, shape, top) == [blk |-> blk, ctx |-> ctx, lab |-> ToString(lab), ms |-> ms, shape |-> shape, top |-> top]
\* ctx "fail": the JWK also says use = "enc" (in block usage: kty = "oct")
Ctx(r, blk, ctx) == IF ctx = "pass" THEN r ELSE IF blk = "usage" THEN [r EXCEPT !.kty = JS("oct")] ELSE [r EXCEPT !.use = JS("enc")]
Ctxs == {"pass", "fail"}
One(blk, ctx, lab, ms, r) == Case(blk, ctx, lab, ms, "object", SetOf(<<Jwk(Ctx(r, blk, ctx))>>))

\* ---- meta: kty x alg x crv x material
MetaMs == IF Full THEN {"P-256", "P-384", "P-521", "RSA", "both"} ELSE {"P-256", "RSA", "both"}
MetaParams == KtyNames \X AlgNames \X CrvNames \X MetaMs \X Ctxs
MetaCase(p) ==
  LET ec  == p[4] # "RSA"
      rsa == p[4] \in {"RSA", "both"}
  IN One("meta", p[5], <<p[1], p[2], p[3], p[4]>>, IF p[4] = "both" THEN "P-256" ELSE p[4],
         [NoMembers EXCEPT !.kty = KtyVal(p[1]), !.alg = AlgVal(p[2]), !.crv = CrvVal(p[3]),
                           !.x = IF ec THEN Mat("x", "good") ELSE JAbsent, !.y = IF ec THEN Mat("y", "good") ELSE JAbsent,
                           !.n = IF rsa THEN Mat("n", "good") ELSE JAbsent, !.e = IF rsa THEN ExpVal("F4") ELSE JAbsent])

\* ---- usage: use x key_ops x kid
UsageAlgs == IF Full THEN JwkSigAlgs ELSE {"ES256", "RS256"}
UsageParams == UsageAlgs \X UseNames \X OpsNames \X KidNames \X Ctxs
UsageCase(p) == One("usage", p[5], <<p[1], p[2], p[3], p[4]>>, MsOf(p[1]),
                    [Def(p[1]) EXCEPT !.use = UseVal(p[2]), !.ops = OpsVal(p[3]), !.kid = KidVal(p[4])])

\* ---- ec: x x y x d
EcAlgs == IF Full THEN JWSEcAlgs ELSE {"ES256"}
DNames == {"absent", "str", "null"}
DVal(s) == CASE s = "absent" -> <<>> [] s = "str" -> <<JMem("d", JS("AQ"))>> [] s = "null" -> <<JMem("d", JNull)>>
EcParams == (JWSEcAlgs \X CoordNames \X CoordNames \X {"absent"} \X {"pass"})
            \cup (EcAlgs \X CoordNames \X CoordNames \X DNames \X Ctxs)
EcCase(p) == One("ec", p[5], <<p[1], p[2], p[3], p[4]>>, MsOf(p[1]),
                 [DefEc(p[1]) EXCEPT !.x = Mat("x", p[2]), !.y = Mat("y", p[3]), !.extra = DVal(p[4])])
\* material whose x coordinate starts with a zero octet: the minimal-length spelling is one octet short
EcZeroParams == JWSEcAlgs \X {"good", "strip0", "long0"} \X {"good", "strip0"}
EcZeroCase(p) == One("eczero", "pass", <<p[1], p[2], p[3]>>, MsOf(p[1]) \o "z",
                     [DefEc(p[1]) EXCEPT !.x = Mat("x", p[2]), !.y = Mat("y", p[3])])

\* ---- rsa: n x e
RsaAlgs == IF Full THEN JWSRsAlgs \cup JWSPsAlgs ELSE {"RS256", "PS256"}
RsaParams == RsaAlgs \X ModNames \X ExpNames \X Ctxs
RsaCase(p) == One("rsa", p[4], <<p[1], p[2], p[3]>>, "RSA",
                  [DefRsa(p[1]) EXCEPT !.n = Mat("n", p[2]), !.e = ExpVal(p[3])])

\* ---- private: subsets of the private member names (as strings), each name alone as null / number
PrivAlgs == IF Full THEN {"ES256", "ES512", "RS256", "RS512", "PS256", "PS384"} ELSE {"ES256", "RS256", "PS256"}
PrivSubsets == SUBSET (1..Len(PrivNames))
PrivParams == (PrivAlgs \X PrivSubsets \X {"str"} \X Ctxs)
              \cup (PrivAlgs \X {{i} : i \in 1..Len(PrivNames)} \X {"null", "num"} \X {"pass"})
PrivCase(p) ==
  LET names == SelectSeq(PrivNames, LAMBDA n : \E i \in p[2] : PrivNames[i] = n)
  IN One("private", p[4], <<p[1], names, p[3]>>, MsOf(p[1]),
         [Def(p[1]) EXCEPT !.extra = [i \in 1..Len(names) |-> JMem(names[i], PrivVal(names[i], p[3]))]])

\* ---- set: the set itself.  a, b: good keys of two algorithms; bad: refused by a documented rule;
\* noalg: without alg; odd: accepted as built only (RSA exponent 65539)
SetCases ==
  LET a    == Jwk(DefEc("ES256"))
      ak   == Jwk([DefEc("ES256") EXCEPT !.kid = JS("kid-1")])
      b    == Jwk(DefRsa("RS256"))
      c    == Jwk([DefRsa("PS512") EXCEPT !.kid = JS("kid-2"), !.use = JS("sig"), !.ops = OpsVal("verify")])
      bad  == Jwk([DefEc("ES256") EXCEPT !.use = JS("enc")])
      noalg == Jwk([DefEc("ES256") EXCEPT !.alg = JAbsent])
      odd  == Jwk([DefRsa("RS256") EXCEPT !.e = ExpVal("65539")])
      priv == Jwk([DefEc("ES256") EXCEPT !.extra = <<JMem("d", JS("AQ"))>>])
      unk  == Jwk([DefEc("ES256") EXCEPT !.extra = <<JMem("x5c", JList(<<JS("AQ")>>)), JMem("ext", JTrue),
                                                      JMem("foo", JObj(<<JMem("d", JS("AQ")), JMem("n", JNum("1"))>>)),
                                                      JMem("bar", JNull), JMem("p", JS("AQ")), JMem("n", JS("AQ"))>>])
      rsacrv == Jwk([DefRsa("RS256") EXCEPT !.crv = JS("P-256"), !.x = JS("AQ")])
      rev(o) == JObj(Reverse(o.m))                                   \* member order does not matter
      twice(o, n, v) == JObj(<<JMem(n, v)>> \o o.m)                  \* a duplicate name in front: the LAST one is the right one
      twiceEnd(o, n, v) == JObj(o.m \o <<JMem(n, v)>>)               \* ... at the end: the last one is the wrong one
      all9 == [i \in 1..9 |-> Jwk(Def(SetToSeq(JwkSigAlgs)[i]))]
      tops == << <<"one", SetOf(<<a>>)>>, <<"two", SetOf(<<a, b>>)>>, <<"three", SetOf(<<ak, b, c>>)>>,
                 <<"same twice", SetOf(<<a, a>>)>>, <<"same kid twice", SetOf(<<ak, ak>>)>>,
                 <<"all algorithms", SetOf(all9)>>,
                 <<"good,bad", SetOf(<<a, bad>>)>>, <<"bad,good", SetOf(<<bad, a>>)>>, <<"good,bad,good", SetOf(<<a, bad, b>>)>>,
                 <<"good,noalg", SetOf(<<a, noalg>>)>>, <<"noalg,good", SetOf(<<noalg, b>>)>>,
                 <<"good,private", SetOf(<<b, priv>>)>>, <<"good,odd", SetOf(<<a, odd>>)>>, <<"odd,good", SetOf(<<odd, a>>)>>,
                 <<"unknown members", SetOf(<<unk>>)>>, <<"rsa with crv and x", SetOf(<<rsacrv>>)>>,
                 <<"reversed members", SetOf(<<rev(a), rev(c)>>)>>,
                 <<"kty twice, last right", SetOf(<<twice(a, "kty", JS("RSA"))>>)>>,
                 <<"kty twice, last wrong", SetOf(<<twiceEnd(a, "kty", JS("RSA"))>>)>>,
                 <<"use twice, last right", SetOf(<<twice(c, "use", JS("enc"))>>)>>,
                 <<"use twice, last wrong", SetOf(<<twiceEnd(c, "use", JS("enc"))>>)>>,
                 <<"kid twice", SetOf(<<twiceEnd(ak, "kid", JS("kid-9"))>>)>>,
                 <<"same member twice", SetOf(<<twiceEnd(b, "alg", JS("RS256"))>>)>>,
                 <<"keys empty", SetOf(<<>>)>>,
                 <<"keys null", JObj(<<JMem("keys", JNull)>>)>>, <<"keys string", JObj(<<JMem("keys", JS("x"))>>)>>,
                 <<"keys number", JObj(<<JMem("keys", JNum("1"))>>)>>,
                 <<"keys object", JObj(<<JMem("keys", a)>>)>>, <<"keys object of keys", JObj(<<JMem("keys", JObj(<<JMem("0", a)>>))>>)>>,
                 <<"no keys", JObj(<<>>)>>, <<"Keys", JObj(<<JMem("Keys", JList(<<a>>))>>)>>,
                 <<"extra member", JObj(<<JMem("keys", JList(<<a>>)), JMem("extra", JNum("1"))>>)>>,
                 <<"extra member first", JObj(<<JMem("x", JObj(<<JMem("keys", JNull)>>)), JMem("keys", JList(<<b>>))>>)>>,
                 <<"keys twice", JObj(<<JMem("keys", JList(<<a>>)), JMem("keys", JList(<<b>>))>>)>>,
                 <<"keys twice, first bad", JObj(<<JMem("keys", JNull), JMem("keys", JList(<<b>>))>>)>>,
                 <<"element string", SetOf(<<a, JS("x")>>)>>, <<"element null", SetOf(<<JNull, a>>)>>,
                 <<"element number", SetOf(<<JNum("1")>>)>>, <<"element list", SetOf(<<JList(<<a>>)>>)>>,
                 <<"element empty object", SetOf(<<JObj(<<>>)>>)>>,
                 <<"top list", JList(<<SetOf(<<a>>)>>)>>, <<"top list of keys", JList(<<a>>)>>, <<"top jwk", a>>,
                 <<"top string", JS("keys")>>, <<"top null", JNull>>, <<"top number", JNum("1")>> >>
      shapesOf(i) == IF i <= 6 \/ Full THEN JShapes ELSE {"object", "ws"}
  IN UNION {{Case("set", "pass", <<tops[i][1], s>>, "P-256", s, tops[i][2]) : s \in shapesOf(i)} : i \in 1..Len(tops)}

\* every algorithm once with nothing but the required members, and once with everything optional
BasicCases ==
  {One("basic", "pass", <<a, "minimal">>, MsOf(a), Def(a)) : a \in JwkSigAlgs}
  \cup {One("basic", "pass", <<a, "full">>, MsOf(a), [Def(a) EXCEPT !.use = JS("sig"), !.ops = OpsVal("verify"), !.kid = KidVal("plain")])
        : a \in JwkSigAlgs}

\* ---- mix: random combinations ACROSS the blocks, 1..3 keys per set (TLC's RandomElement, seeded by the run's seed).
\* Every member keeps its passing value with probability 9/10, so that sets with a single defect - and accepted sets
\* with several keys - are frequent.
MixN == IF "VERIF_MIX" \in DOMAIN IOEnv THEN atoi(IOEnv.VERIF_MIX) ELSE 1000
Keep(good, S) == IF RandomElement(1..10) = 1 THEN RandomElement(S) ELSE good
EsOf(crv) == CASE crv = "P-256" -> "ES256" [] crv = "P-384" -> "ES384" [] crv = "P-521" -> "ES512"
MixJwk(crv) ==
  LET a == RandomElement({EsOf(crv)} \cup JWSRsAlgs \cup JWSPsAlgs)
      ec == a \in JWSEcAlgs
      pv == IF RandomElement(1..20) = 1 THEN <<RandomElement({PrivNames[i] : i \in 1..Len(PrivNames)})>> ELSE <<>>
  IN Jwk([NoMembers EXCEPT
            !.kty = KtyVal(Keep(IF ec THEN "EC" ELSE "RSA", KtyNames)),
            !.alg = AlgVal(Keep(a, AlgNames)),
            !.crv = IF ec THEN CrvVal(Keep(crv, CrvNames)) ELSE CrvVal(Keep("absent", CrvNames)),
            !.use = UseVal(Keep(RandomElement({"absent", "sig"}), UseNames)),
            !.ops = OpsVal(Keep(RandomElement({"absent", "verify"}), OpsNames)),
            !.kid = KidVal(Keep(RandomElement({"absent", "plain", "utf8"}), KidNames)),
            !.x = IF ec THEN Mat("x", Keep("good", CoordNames)) ELSE JAbsent,
            !.y = IF ec THEN Mat("y", Keep("good", CoordNames)) ELSE JAbsent,
            !.n = IF ec THEN JAbsent ELSE Mat("n", Keep("good", ModNames)),
            !.e = IF ec THEN JAbsent ELSE ExpVal(Keep("F4", ExpNames)),
            !.extra = [i \in 1..Len(pv) |-> JMem(pv[i], PrivVal(pv[i], "str"))]])
MixCase(i) ==
  LET crv == RandomElement(JwkCurves)
      shape == Keep("object", JShapes)
  IN Case("mix", "pass", <<i>>, crv, shape, SetOf([q \in 1..(RandomElement(1..3)) |-> MixJwk(crv)]))
MixCases == {MixCase(i) : i \in 1..MixN}

ImportBlocks == {"basic", "meta", "usage", "ec", "eczero", "rsa", "private", "set", "mix"}
ImportCases(blk) ==
  CASE blk = "basic"   -> BasicCases
    [] blk = "meta"    -> {MetaCase(p) : p \in MetaParams}
    [] blk = "usage"   -> {UsageCase(p) : p \in UsageParams}
    [] blk = "ec"      -> {EcCase(p) : p \in EcParams}
    [] blk = "eczero"  -> {EcZeroCase(p) : p \in EcZeroParams}
    [] blk = "rsa"     -> {RsaCase(p) : p \in RsaParams}
    [] blk = "private" -> {PrivCase(p) : p \in PrivParams}
    [] blk = "set"     -> SetCases
    [] blk = "mix"     -> MixCases

\* ------------------------------------------------------------------ EXPORT: abstract keysets
\* key [kind, alg, strat, idc, kidc, status, priv, mat];  mat: "m1" | "m2" (ordinary material of the run),
\* "lz" (RSA: the modulus octets start with 00), "e3" (RSA: e = 65539; public only), "z" (EC: x starts with 00)
IdOf(c) == CASE c = "a" -> "01020304" [] c = "b" -> "fffffffe" [] c = "c" -> "00000001" [] c = "d" -> "80000000"
IdClasses == {"a", "b", "c", "d"}
AK(alg, strat, idc, kidc, status, priv, mat) ==
  [kind |-> "jwt", alg |-> alg, strat |-> strat, idc |-> idc, kidc |-> IF strat = "CUSTOM" THEN kidc ELSE "",
   status |-> status, priv |-> priv, mat |-> mat]
Foreign(kind, idc, status, priv) ==
  [kind |-> kind, alg |-> "", strat |-> "TINK", idc |-> idc, kidc |-> "", status |-> status, priv |-> priv, mat |-> "m1"]
ForeignKinds == {"hmac", "mldsa", "ed25519", "ecdsa"}      \* jwthmac key, jwtmldsa / ed25519 / ecdsa (non-JWT) public keys
KS(blk, lab, keys, primary) == [blk |-> blk, lab |-> ToString(lab), keys |-> keys, primary |-> primary]

StratIds == ({"TINK"} \X IdClasses \X {""}) \cup ({"CUSTOM"} \X {"a"} \X KidStrNames) \cup {<<"IGNORED", "a", "">>}
SingleKeysets ==
  {KS("single", <<a, s[1], s[2], s[3], pv>>, <<AK(a, s[1], s[2], s[3], "ENABLED", pv, "m1")>>, 1)
     : a \in JwkSigAlgs, s \in StratIds, pv \in BOOLEAN}

Statuses == {"ENABLED", "DISABLED", "DESTROYED"}
Strats == {"TINK", "CUSTOM", "IGNORED"}
AlgAt(i, v) == IF v = 1 THEN <<"ES256", "RS256", "ES512">>[i] ELSE IF v = 2 THEN <<"PS384", "ES384", "RS512">>[i]
               ELSE <<"RS384", "PS256", "PS512">>[i]
KidAt(i) == <<"plain", "tinklike", "utf8">>[i]
IdAt(i) == <<"a", "b", "c">>[i]
Enabled(st) == {i \in 1..Len(st) : st[i] = "ENABLED"}
StatusKeysets(n, variants) ==
  {KS("status", <<st, sr, pr, v>>, [i \in 1..n |-> AK(AlgAt(i, v), sr[i], IdAt(i), KidAt(i), st[i], FALSE, IF i = 2 THEN "m2" ELSE "m1")], pr)
     : st \in {s \in [1..n -> Statuses] : Enabled(s) # {}}, sr \in [1..n -> Strats], pr \in 1..n, v \in variants}
StatusSets == {k \in StatusKeysets(2, {1, 2, 3}) \cup (IF Full THEN StatusKeysets(3, {1, 2, 3}) ELSE StatusKeysets(3, {1}))
                 : k.keys[k.primary].status = "ENABLED"}

ForeignKeysets ==
  {KS("foreign", <<kind, st, pos, pv>>,
      IF pos = 1 THEN <<Foreign(kind, "b", st, pv), AK("ES256", "TINK", "a", "", "ENABLED", pv, "m1")>>
      ELSE <<AK("RS256", "IGNORED", "a", "", "ENABLED", pv, "m1"), Foreign(kind, "b", st, pv)>>, IF pos = 1 THEN 2 ELSE 1)
     : kind \in ForeignKinds, st \in Statuses, pos \in {1, 2}, pv \in {FALSE}}
  \cup {KS("foreign", <<kind, "alone">>, <<Foreign(kind, "a", "ENABLED", FALSE)>>, 1) : kind \in ForeignKinds}
  \* a private key that is not ENABLED next to an enabled public one
  \cup {KS("foreign", <<"private", st, a>>, <<AK(a, "TINK", "a", "", "ENABLED", FALSE, "m1"), AK(a, "TINK", "b", "", st, TRUE, "m2")>>, 1)
          : st \in {"DISABLED", "DESTROYED"}, a \in {"ES256", "RS256"}}
  \cup {KS("foreign", <<"private keyset", a, b>>, <<AK(a, "TINK", "a", "", "ENABLED", TRUE, "m1"), AK(b, "IGNORED", "b", "", "ENABLED", TRUE, "m2")>>, 2)
          : a \in {"ES256", "PS256"}, b \in {"ES384", "RS256"}}

SpecialKeysets ==
  {KS("special", <<"modulus with leading zero", a, s>>, <<AK(a, s, "a", "plain", "ENABLED", FALSE, "lz")>>, 1)
     : a \in {"RS256", "PS512"}, s \in Strats}
  \* an EC key whose x coordinate starts with a zero octet (RFC 7518 6.2.1.2: still the full size)
  \cup {KS("special", <<"coordinate with leading zero", a, s>>, <<AK(a, s, "b", "utf8", "ENABLED", FALSE, "z")>>, 1) : a \in JWSEcAlgs, s \in Strats}
  \cup {KS("special", <<"e = 65539", a, s>>, <<AK(a, s, "a", "plain", "ENABLED", FALSE, "e3")>>, 1) : a \in {"RS384", "PS256"}, s \in Strats}
  \* the same key material twice: ENABLED and not; with different strategies
  \cup {KS("special", <<"same material twice", a, s1, s2, st>>,
           <<AK(a, s1, "a", "plain", "ENABLED", FALSE, "m1"), AK(a, s2, "b", "tinklike", st, FALSE, "m1")>>, 1)
          : a \in {"ES256", "RS256"}, s1 \in Strats, s2 \in Strats, st \in Statuses}

ExportCases == SingleKeysets \cup StatusSets \cup ForeignKeysets \cup SpecialKeysets
================================================================================
