------------------------------- MODULE KeyParams -------------------------------
(* The key-type inventory of tink-go (DESIGN.md Appendix A) as TLA+ data.            *)
(*                                                                                     *)
(* For every parameter family T (one per Go package with a Parameters type):          *)
(*   Fields(T)        sequence of parameter field names (order: a field's domain may   *)
(*                    depend on the fields before it)                                  *)
(*   Domain(T, f)     every value this inventory considers for field f: the values the *)
(*                    library documents as valid (closed ranges completely, open-ended *)
(*                    ones over {min, min+1, typical, large}) plus the boundary values *)
(*                    just outside (min-1, max+1, unknown enum)                        *)
(*   ParamsOK(T, p)   what NewParameters / New*Key and the proto parsers accept        *)
(*                    (read from every validate* / NewParameters in /repo)             *)
(*   Usable(T, p)     ParamsOK and a primitive can be made from such a key             *)
(*   BelowMinimum(T,p) the key is weaker than one of the library's stated minimum       *)
(*                    strengths (statement of C14)                                     *)
(*   Representable(T,p) the proto key format can carry p (AES-GCM's proto has no IV /   *)
(*                    tag size field)                                                  *)
(*   Cases(T, dense)  the parameter records a plan enumerates: the full (dependent)    *)
(*                    product of the valid values, plus every record with exactly ONE  *)
(*                    out-of-domain field. dense = FALSE thins integer ranges to       *)
(*                    {lo, lo+1, inner, hi-1, hi} ({lo, inner, hi} for >= 5 fields).   *)
(* A parameter record p is a function from field names to integers (sizes) or strings  *)
(* (enums). Enum spelling: variants TINK CRUNCHY LEGACY NO_PREFIX; hashes SHA1 SHA224  *)
(* SHA256 SHA384 SHA512; "UNKNOWN" is the zero value of the Go enum.                   *)
(*                                                                                     *)
(* Also: Kinds(T) (symmetric | private, public), TypeURL(T, kind), Material(T, kind),  *)
(* PrefixOf(variant) = the OutputPrefixType a variant is serialized to.                *)
EXTENDS Integers, Sequences, FiniteSets, SequencesExt, IOUtils, TLC

\* ------------------------------------------------------------------ vocabulary
Hashes5 == {"SHA1", "SHA224", "SHA256", "SHA384", "SHA512"}
Hashes3 == {"SHA256", "SHA384", "SHA512"}             \* signature hashes
HashesS == {"SHA1", "SHA256", "SHA512"}               \* streaming AEAD
Unknown == "UNKNOWN"

Digest(h) == CASE h = "SHA1" -> 20 [] h = "SHA224" -> 28 [] h = "SHA256" -> 32
               [] h = "SHA384" -> 48 [] h = "SHA512" -> 64 [] OTHER -> 0

Variants3 == {"TINK", "CRUNCHY", "NO_PREFIX"}
Variants4 == {"TINK", "CRUNCHY", "LEGACY", "NO_PREFIX"}
Variants2 == {"TINK", "NO_PREFIX"}
KidStrategies == {"BASE64_KEY_ID", "IGNORED", "CUSTOM"}

\* variant -> OutputPrefixType of the serialized key (wire format documentation)
PrefixOf(v) == CASE v = "TINK" -> "TINK" [] v = "CRUNCHY" -> "CRUNCHY" [] v = "LEGACY" -> "LEGACY"
                 [] v = "NO_PREFIX" -> "RAW" [] v = "NO_PREFIX_WITH_PREHASH_ID" -> "WITH_ID_REQUIREMENT"
                 [] v = "BASE64_KEY_ID" -> "TINK" [] v = "IGNORED" -> "RAW" [] v = "CUSTOM" -> "RAW"
                 [] OTHER -> "UNKNOWN_PREFIX"
\* does a key with this variant / kid strategy carry an id requirement?
HasIdRequirement(v) == v \notin {"NO_PREFIX", "IGNORED", "CUSTOM"}

F4 == 65537
MaxExponent == 2147483647                 \* 2^31 - 1 (a prime)
MaxInt32 == 2147483647

\* ------------------------------------------------------------------ the key types
KeyTypes ==
  {"AesGcm", "AesCtrHmac", "AesGcmSiv", "ChaCha20Poly1305", "XChaCha20Poly1305", "XAesGcm",
   "AesSiv", "Hmac", "AesCmac", "HmacPrf", "HkdfPrf", "AesCmacPrf",
   "AesGcmHkdfStreaming", "AesCtrHmacStreaming",
   "Ecdsa", "Ed25519", "RsaSsaPkcs1", "RsaSsaPss", "MlDsa", "SlhDsa", "CompositeMlDsa",
   "Hpke", "Ecies",
   "JwtHmac", "JwtEcdsa", "JwtRsaSsaPkcs1", "JwtRsaSsaPss", "JwtMlDsa",
   "PrfBasedDeriver"}

Asymmetric == {"Ecdsa", "Ed25519", "RsaSsaPkcs1", "RsaSsaPss", "MlDsa", "SlhDsa", "CompositeMlDsa",
               "Hpke", "Ecies", "JwtEcdsa", "JwtRsaSsaPkcs1", "JwtRsaSsaPss", "JwtMlDsa"}
Kinds(T) == IF T \in Asymmetric THEN {"private", "public"} ELSE {"symmetric"}
Material(T, kind) == CASE kind = "symmetric" -> "SYMMETRIC" [] kind = "private" -> "ASYMMETRIC_PRIVATE"
                       [] kind = "public" -> "ASYMMETRIC_PUBLIC"

ProtoName(T) ==
  CASE T = "AesGcm" -> "AesGcmKey" [] T = "AesCtrHmac" -> "AesCtrHmacAeadKey" [] T = "AesGcmSiv" -> "AesGcmSivKey"
    [] T = "ChaCha20Poly1305" -> "ChaCha20Poly1305Key" [] T = "XChaCha20Poly1305" -> "XChaCha20Poly1305Key"
    [] T = "XAesGcm" -> "XAesGcmKey" [] T = "AesSiv" -> "AesSivKey" [] T = "Hmac" -> "HmacKey"
    [] T = "AesCmac" -> "AesCmacKey" [] T = "HmacPrf" -> "HmacPrfKey" [] T = "HkdfPrf" -> "HkdfPrfKey"
    [] T = "AesCmacPrf" -> "AesCmacPrfKey" [] T = "AesGcmHkdfStreaming" -> "AesGcmHkdfStreamingKey"
    [] T = "AesCtrHmacStreaming" -> "AesCtrHmacStreamingKey" [] T = "JwtHmac" -> "JwtHmacKey"
    [] T = "PrfBasedDeriver" -> "PrfBasedDeriverKey"
    [] T = "Ecdsa" -> "Ecdsa" [] T = "Ed25519" -> "Ed25519" [] T = "RsaSsaPkcs1" -> "RsaSsaPkcs1"
    [] T = "RsaSsaPss" -> "RsaSsaPss" [] T = "MlDsa" -> "MlDsa" [] T = "SlhDsa" -> "SlhDsa"
    [] T = "CompositeMlDsa" -> "CompositeMlDsa" [] T = "Hpke" -> "Hpke" [] T = "Ecies" -> "EciesAeadHkdf"
    [] T = "JwtEcdsa" -> "JwtEcdsa" [] T = "JwtRsaSsaPkcs1" -> "JwtRsaSsaPkcs1" [] T = "JwtRsaSsaPss" -> "JwtRsaSsaPss"
    [] T = "JwtMlDsa" -> "JwtMlDsa"
TypeURL(T, kind) ==
  "type.googleapis.com/google.crypto.tink." \o ProtoName(T) \o
    (CASE kind = "private" -> "PrivateKey" [] kind = "public" -> "PublicKey" [] OTHER -> "")

\* ------------------------------------------------------------------ fields
Fields(T) ==
  CASE T = "AesGcm"      -> <<"keySize", "ivSize", "tagSize", "variant">>
    [] T = "AesCtrHmac"  -> <<"aesKeySize", "hmacKeySize", "ivSize", "hash", "tagSize", "variant">>
    [] T = "AesGcmSiv"   -> <<"keySize", "variant">>
    [] T = "ChaCha20Poly1305"  -> <<"variant">>
    [] T = "XChaCha20Poly1305" -> <<"variant">>
    [] T = "XAesGcm"     -> <<"saltSize", "variant">>
    [] T = "AesSiv"      -> <<"keySize", "variant">>
    [] T = "Hmac"        -> <<"keySize", "hash", "tagSize", "variant">>
    [] T = "AesCmac"     -> <<"keySize", "tagSize", "variant">>
    [] T = "HmacPrf"     -> <<"keySize", "hash">>
    [] T = "HkdfPrf"     -> <<"keySize", "hash", "saltSize">>
    [] T = "AesCmacPrf"  -> <<"keySize">>
    [] T = "AesGcmHkdfStreaming" -> <<"derivedKeySize", "keySize", "hkdfHash", "segmentSize">>
    [] T = "AesCtrHmacStreaming" -> <<"derivedKeySize", "keySize", "hkdfHash", "hmacHash", "tagSize", "segmentSize">>
    [] T = "Ecdsa"       -> <<"curve", "hash", "encoding", "variant">>
    [] T = "Ed25519"     -> <<"variant">>
    [] T = "RsaSsaPkcs1" -> <<"modulusBits", "exponent", "hash", "variant">>
    [] T = "RsaSsaPss"   -> <<"modulusBits", "exponent", "hash", "mgf1Hash", "saltSize", "variant">>
    [] T = "MlDsa"       -> <<"instance", "variant">>
    [] T = "SlhDsa"      -> <<"hash", "keySize", "sigType", "variant">>
    [] T = "CompositeMlDsa" -> <<"classical", "instance", "variant">>
    [] T = "Hpke"        -> <<"kem", "kdf", "aead", "variant">>
    [] T = "Ecies"       -> <<"curve", "hash", "pointFormat", "dem", "saltSize", "variant">>
    [] T = "JwtHmac"     -> <<"algorithm", "kidStrategy", "keySize">>
    [] T = "JwtEcdsa"    -> <<"algorithm", "kidStrategy">>
    [] T = "JwtRsaSsaPkcs1" -> <<"modulusBits", "exponent", "algorithm", "kidStrategy">>
    [] T = "JwtRsaSsaPss"   -> <<"modulusBits", "exponent", "algorithm", "kidStrategy">>
    [] T = "JwtMlDsa"    -> <<"algorithm", "kidStrategy">>
    [] T = "PrfBasedDeriver" -> <<"prf", "derived">>
FieldSet(T) == {Fields(T)[i] : i \in DOMAIN Fields(T)}

\* enumerations that are not hashes / variants
Curves3 == {"NIST_P256", "NIST_P384", "NIST_P521"}
EciesCurves == Curves3 \cup {"X25519"}
SigEncodings == {"DER", "IEEE_P1363"}
MlDsaInstances == {"ML_DSA_44", "ML_DSA_65", "ML_DSA_87"}
MlDsaVariants == {"TINK", "NO_PREFIX", "NO_PREFIX_WITH_PREHASH_ID"}
SlhHashes == {"SHA2", "SHAKE"}
SlhSigTypes == {"FAST_SIGNING", "SMALL_SIGNATURE"}
CompositeClassical == {"ED25519", "ECDSA_P256", "ECDSA_P384", "ECDSA_P521", "RSA3072_PSS", "RSA4096_PSS",
                       "RSA3072_PKCS1", "RSA4096_PKCS1"}
CompositeInstances == {"ML_DSA_65", "ML_DSA_87"}
CompositeSupported ==
  {<<"ED25519", "ML_DSA_65">>, <<"ECDSA_P256", "ML_DSA_65">>, <<"ECDSA_P384", "ML_DSA_65">>,
   <<"RSA3072_PSS", "ML_DSA_65">>, <<"RSA4096_PSS", "ML_DSA_65">>, <<"RSA3072_PKCS1", "ML_DSA_65">>,
   <<"RSA4096_PKCS1", "ML_DSA_65">>,
   <<"ECDSA_P384", "ML_DSA_87">>, <<"ECDSA_P521", "ML_DSA_87">>, <<"RSA3072_PSS", "ML_DSA_87">>,
   <<"RSA4096_PSS", "ML_DSA_87">>}
HpkeKems == {"DHKEM_P256_HKDF_SHA256", "DHKEM_P384_HKDF_SHA384", "DHKEM_P521_HKDF_SHA512",
             "DHKEM_X25519_HKDF_SHA256", "X_WING", "ML_KEM768", "ML_KEM1024"}
HpkeKdfs == {"HKDF_SHA256", "HKDF_SHA384", "HKDF_SHA512"}
HpkeAeads == {"AES_128_GCM", "AES_256_GCM", "CHACHA20_POLY1305"}
PointFormats == {"COMPRESSED", "UNCOMPRESSED", "LEGACY_UNCOMPRESSED"}
Unspecified == "UNSPECIFIED"
\* ECIES data-encapsulation parameters the library allows, and two it does not
EciesDems == {"AES128_GCM_RAW", "AES256_GCM_RAW", "AES256_SIV_RAW", "XCHACHA20_POLY1305_RAW",
              "AES128_CTR_HMAC_SHA256_RAW", "AES256_CTR_HMAC_SHA256_RAW"}
EciesDemsRefused == {"AES128_GCM_TINK", "AES128_GCM_SIV_RAW"}
JwtHmacAlgs == {"HS256", "HS384", "HS512"}
JwtEcdsaAlgs == {"ES256", "ES384", "ES512"}
JwtPkcs1Algs == {"RS256", "RS384", "RS512"}
JwtPssAlgs == {"PS256", "PS384", "PS512"}
JwtMlDsaAlgs == {"ML_DSA_44", "ML_DSA_65", "ML_DSA_87"}
JwtHmacMinKey(a) == CASE a = "HS256" -> 32 [] a = "HS384" -> 48 [] a = "HS512" -> 64 [] OTHER -> 0
\* PRF-based derivation: PRF parameters and derived-key parameters are nested parameter objects;
\* the inventory names representative ones
DeriverPrfs == {"HKDF_SHA256_32", "HKDF_SHA512_64_SALT", "HKDF_SHA1_16", "HMAC_SHA256_32", "AES_CMAC_32"}
DeriverDerived == {"AES128_GCM_TINK", "AES256_GCM_RAW", "XCHACHA20_POLY1305_TINK", "AES256_SIV_TINK",
                   "HMAC_SHA256_128BITTAG_TINK", "HKDF_SHA256_PRF", "ED25519_TINK", "AES128_GCM_HKDF_4KB",
                   "ECDSA_P256_TINK", "AES256_GCM_SIV_CRUNCHY"}
\* derived key types for which the library has a key deriver (8 types)
DeriverDerivable == {"AES128_GCM_TINK", "AES256_GCM_RAW", "XCHACHA20_POLY1305_TINK", "AES256_SIV_TINK",
                     "HMAC_SHA256_128BITTAG_TINK", "HKDF_SHA256_PRF", "ED25519_TINK", "AES128_GCM_HKDF_4KB",
                     "AES256_GCM_SIV_CRUNCHY"}

RsaBits == {2048, 2049, 3072, 4096}
RsaExps == {F4, 65539, MaxExponent}

\* ------------------------------------------------------------------ domains
\* Good(T, f, r): the documented values of field f given the earlier fields r (a record).
\* Edge(T, f, r): boundary values just outside.
MaxOf2(a, b) == IF a > b THEN a ELSE b
TagTop(h) == IF Digest(h) = 0 THEN 16 ELSE Digest(h)
OpenKey(min) == {min, min + 1, 32, 64}          \* "key >= min": min, min+1, typical, large

Good(T, f, r) ==
  CASE f = "variant" ->
         (CASE T \in {"Hmac", "AesCmac", "Ecdsa", "Ed25519", "RsaSsaPkcs1", "RsaSsaPss"} -> Variants4
            [] T = "MlDsa" -> MlDsaVariants
            [] T \in {"XAesGcm", "SlhDsa", "CompositeMlDsa"} -> Variants2
            [] OTHER -> Variants3)
    [] f = "kidStrategy" -> KidStrategies
    [] T = "AesGcm" /\ f = "keySize" -> {16, 24, 32}
    [] T = "AesGcm" /\ f = "ivSize" -> {1, 2, 12, 13, 16, 64}
    [] T = "AesGcm" /\ f = "tagSize" -> 12..16
    [] T = "AesCtrHmac" /\ f = "aesKeySize" -> {16, 24, 32}
    [] T = "AesCtrHmac" /\ f = "hmacKeySize" -> {16, 17, 32, 65}
    [] T = "AesCtrHmac" /\ f = "ivSize" -> 12..16
    [] T = "AesCtrHmac" /\ f = "hash" -> Hashes5
    [] T = "AesCtrHmac" /\ f = "tagSize" -> 10..TagTop(r.hash)
    [] T = "AesGcmSiv" /\ f = "keySize" -> {16, 32}
    [] T = "XAesGcm" /\ f = "saltSize" -> 8..12
    [] T = "AesSiv" /\ f = "keySize" -> {32, 48, 64}
    [] T = "Hmac" /\ f = "keySize" -> OpenKey(16) \cup {128}
    [] T = "Hmac" /\ f = "hash" -> Hashes5
    [] T = "Hmac" /\ f = "tagSize" -> 10..TagTop(r.hash)
    [] T = "AesCmac" /\ f = "keySize" -> {16, 32}
    [] T = "AesCmac" /\ f = "tagSize" -> 10..16
    [] T = "HmacPrf" /\ f = "keySize" -> OpenKey(16) \cup {128}
    [] T = "HmacPrf" /\ f = "hash" -> Hashes5
    [] T = "HkdfPrf" /\ f = "keySize" -> OpenKey(16) \cup {31, 33}
    [] T = "HkdfPrf" /\ f = "hash" -> Hashes5
    [] T = "HkdfPrf" /\ f = "saltSize" -> {0, 1, 16, 32, 100}
    [] T = "AesCmacPrf" /\ f = "keySize" -> {16, 32}
    [] T \in {"AesGcmHkdfStreaming", "AesCtrHmacStreaming"} /\ f = "derivedKeySize" -> {16, 32}
    [] T \in {"AesGcmHkdfStreaming", "AesCtrHmacStreaming"} /\ f = "keySize" ->
         {r.derivedKeySize, r.derivedKeySize + 1, 32, 64} \ {x \in {32} : x < r.derivedKeySize}
    [] T \in {"AesGcmHkdfStreaming", "AesCtrHmacStreaming"} /\ f = "hkdfHash" -> HashesS
    [] T = "AesGcmHkdfStreaming" /\ f = "segmentSize" ->
         LET min == r.derivedKeySize + 25 IN {min, min + 1, 4096, 1048576, MaxInt32}
    [] T = "AesCtrHmacStreaming" /\ f = "hmacHash" -> HashesS
    [] T = "AesCtrHmacStreaming" /\ f = "tagSize" -> 10..TagTop(r.hmacHash)
    [] T = "AesCtrHmacStreaming" /\ f = "segmentSize" ->
         LET min == r.derivedKeySize + 8 + r.tagSize + 1 IN {min, min + 1, 4096, MaxInt32}
    [] T = "Ecdsa" /\ f = "curve" -> Curves3
    [] T = "Ecdsa" /\ f = "hash" -> Hashes3
    [] T = "Ecdsa" /\ f = "encoding" -> SigEncodings
    [] T \in {"RsaSsaPkcs1", "RsaSsaPss", "JwtRsaSsaPkcs1", "JwtRsaSsaPss"} /\ f = "modulusBits" -> RsaBits
    [] T \in {"RsaSsaPkcs1", "RsaSsaPss", "JwtRsaSsaPkcs1", "JwtRsaSsaPss"} /\ f = "exponent" -> RsaExps
    [] T \in {"RsaSsaPkcs1", "RsaSsaPss"} /\ f = "hash" -> Hashes3
    [] T = "RsaSsaPss" /\ f = "mgf1Hash" -> Hashes3
    [] T = "RsaSsaPss" /\ f = "saltSize" -> {0, 1, 20, 32, 64}
    [] T = "MlDsa" /\ f = "instance" -> MlDsaInstances
    [] T = "SlhDsa" /\ f = "hash" -> SlhHashes
    [] T = "SlhDsa" /\ f = "keySize" -> {64, 96, 128}
    [] T = "SlhDsa" /\ f = "sigType" -> SlhSigTypes
    [] T = "CompositeMlDsa" /\ f = "classical" -> CompositeClassical
    [] T = "CompositeMlDsa" /\ f = "instance" -> CompositeInstances
    [] T = "Hpke" /\ f = "kem" -> HpkeKems
    [] T = "Hpke" /\ f = "kdf" -> HpkeKdfs
    [] T = "Hpke" /\ f = "aead" -> HpkeAeads
    [] T = "Ecies" /\ f = "curve" -> EciesCurves
    [] T = "Ecies" /\ f = "hash" -> Hashes5
    [] T = "Ecies" /\ f = "pointFormat" -> PointFormats \cup {Unspecified}
    [] T = "Ecies" /\ f = "dem" -> EciesDems
    [] T = "Ecies" /\ f = "saltSize" -> {0, 16}
    [] T = "JwtHmac" /\ f = "algorithm" -> JwtHmacAlgs
    [] T = "JwtHmac" /\ f = "keySize" -> LET min == MaxOf2(JwtHmacMinKey(r.algorithm), 32) IN {min, min + 1, 64, 128}
    [] T = "JwtEcdsa" /\ f = "algorithm" -> JwtEcdsaAlgs
    [] T = "JwtRsaSsaPkcs1" /\ f = "algorithm" -> JwtPkcs1Algs
    [] T = "JwtRsaSsaPss" /\ f = "algorithm" -> JwtPssAlgs
    [] T = "JwtMlDsa" /\ f = "algorithm" -> JwtMlDsaAlgs
    [] T = "PrfBasedDeriver" /\ f = "prf" -> DeriverPrfs
    [] T = "PrfBasedDeriver" /\ f = "derived" -> DeriverDerived

Edge(T, f, r) ==
  CASE f \in {"variant", "kidStrategy", "hash", "hkdfHash", "hmacHash", "mgf1Hash", "curve", "encoding", "instance",
              "sigType", "classical", "kem", "kdf", "aead", "algorithm"} -> {Unknown}
    [] T = "AesGcm" /\ f = "keySize" -> {15, 33}
    [] T = "AesGcm" /\ f = "ivSize" -> {0}
    [] T = "AesGcm" /\ f = "tagSize" -> {11, 17}
    [] T = "AesCtrHmac" /\ f = "aesKeySize" -> {8, 33}
    [] T = "AesCtrHmac" /\ f = "hmacKeySize" -> {15}
    [] T = "AesCtrHmac" /\ f = "ivSize" -> {11, 17}
    [] T \in {"AesCtrHmac", "Hmac"} /\ f = "tagSize" -> {9, TagTop(r.hash) + 1}
    [] T = "AesCtrHmacStreaming" /\ f = "tagSize" -> {9, TagTop(r.hmacHash) + 1}
    [] T \in {"AesGcmSiv", "AesCmac", "AesCmacPrf"} /\ f = "keySize" -> {15, 24}
    [] T = "XAesGcm" /\ f = "saltSize" -> {7, 13}
    [] T = "AesSiv" /\ f = "keySize" -> {16, 65}
    [] T \in {"Hmac", "HmacPrf", "HkdfPrf"} /\ f = "keySize" -> {15}
    [] T = "AesCmac" /\ f = "tagSize" -> {9, 17}
    [] T \in {"AesGcmHkdfStreaming", "AesCtrHmacStreaming"} /\ f = "derivedKeySize" -> {24}
    [] T \in {"AesGcmHkdfStreaming", "AesCtrHmacStreaming"} /\ f = "keySize" -> {r.derivedKeySize - 1}
    [] T = "AesGcmHkdfStreaming" /\ f = "segmentSize" -> {r.derivedKeySize + 24}
    [] T = "AesCtrHmacStreaming" /\ f = "segmentSize" -> {r.derivedKeySize + 8 + r.tagSize}
    [] f = "modulusBits" -> {2047}
    [] f = "exponent" -> {65535, 65538}
    [] T = "RsaSsaPss" /\ f = "saltSize" -> {-1}
    [] T = "SlhDsa" /\ f = "keySize" -> {32}
    [] T = "Ecies" /\ f = "dem" -> EciesDemsRefused
    [] T = "JwtHmac" /\ f = "keySize" -> {MaxOf2(JwtHmacMinKey(r.algorithm), 32) - 1}
    [] T = "PrfBasedDeriver" /\ f = "prf" -> {"NOT_A_PRF"}
    [] OTHER -> {}

\* ------------------------------------------------------------------ ParamsOK: what the constructors accept
InRange(x, lo, hi) == x >= lo /\ x <= hi
ExpOK(e) == e >= F4 /\ e <= MaxExponent /\ e % 2 = 1

ParamsOK(T, p) ==
  CASE T = "AesGcm" -> p.keySize \in {16, 24, 32} /\ p.ivSize > 0 /\ InRange(p.tagSize, 12, 16) /\ p.variant \in Variants3
    [] T = "AesCtrHmac" -> /\ p.aesKeySize \in {16, 24, 32} /\ p.hmacKeySize >= 16 /\ InRange(p.ivSize, 12, 16)
                           /\ p.hash \in Hashes5 /\ InRange(p.tagSize, 10, Digest(p.hash)) /\ p.variant \in Variants3
    [] T = "AesGcmSiv" -> p.keySize \in {16, 32} /\ p.variant \in Variants3
    [] T \in {"ChaCha20Poly1305", "XChaCha20Poly1305"} -> p.variant \in Variants3
    [] T = "XAesGcm" -> InRange(p.saltSize, 8, 12) /\ p.variant \in Variants2
    [] T = "AesSiv" -> p.keySize \in {32, 48, 64} /\ p.variant \in Variants3
    [] T = "Hmac" -> p.keySize >= 16 /\ p.hash \in Hashes5 /\ InRange(p.tagSize, 10, Digest(p.hash)) /\ p.variant \in Variants4
    [] T = "AesCmac" -> p.keySize \in {16, 32} /\ InRange(p.tagSize, 10, 16) /\ p.variant \in Variants4
    [] T = "HmacPrf" -> p.keySize >= 16 /\ p.hash \in Hashes5
    [] T = "HkdfPrf" -> p.keySize >= 16 /\ p.hash \in Hashes5 /\ p.saltSize >= 0
    [] T = "AesCmacPrf" -> p.keySize \in {16, 32}
    [] T = "AesGcmHkdfStreaming" -> /\ p.derivedKeySize \in {16, 32} /\ p.keySize >= p.derivedKeySize /\ p.hkdfHash \in HashesS
                                    /\ p.segmentSize >= p.derivedKeySize + 25
    [] T = "AesCtrHmacStreaming" -> /\ p.derivedKeySize \in {16, 32} /\ p.keySize >= p.derivedKeySize /\ p.hkdfHash \in HashesS
                                    /\ p.hmacHash \in HashesS /\ InRange(p.tagSize, 10, Digest(p.hmacHash))
                                    /\ p.segmentSize >= p.derivedKeySize + 8 + p.tagSize + 1
    [] T = "Ecdsa" -> /\ p.encoding \in SigEncodings /\ p.variant \in Variants4
                      /\ <<p.curve, p.hash>> \in {<<"NIST_P256", "SHA256">>, <<"NIST_P384", "SHA384">>, <<"NIST_P384", "SHA512">>,
                                                  <<"NIST_P521", "SHA512">>}
    [] T = "Ed25519" -> p.variant \in Variants4
    [] T = "RsaSsaPkcs1" -> p.modulusBits >= 2048 /\ ExpOK(p.exponent) /\ p.hash \in Hashes3 /\ p.variant \in Variants4
    [] T = "RsaSsaPss" -> /\ p.modulusBits >= 2048 /\ ExpOK(p.exponent) /\ p.hash \in Hashes3 /\ p.mgf1Hash = p.hash
                          /\ p.saltSize >= 0 /\ p.variant \in Variants4
    [] T = "MlDsa" -> p.instance \in MlDsaInstances /\ p.variant \in MlDsaVariants
    [] T = "SlhDsa" -> p.hash \in SlhHashes /\ p.keySize \in {64, 96, 128} /\ p.sigType \in SlhSigTypes /\ p.variant \in Variants2
    [] T = "CompositeMlDsa" -> <<p.classical, p.instance>> \in CompositeSupported /\ p.variant \in Variants2
    [] T = "Hpke" -> p.kem \in HpkeKems /\ p.kdf \in HpkeKdfs /\ p.aead \in HpkeAeads /\ p.variant \in Variants3
    [] T = "Ecies" -> /\ p.curve \in EciesCurves /\ p.hash \in Hashes5 /\ p.dem \in EciesDems /\ p.variant \in Variants3
                      /\ (p.curve \in Curves3 => p.pointFormat \in PointFormats)
                      /\ (p.curve = "X25519" => p.pointFormat = Unspecified)
    [] T = "JwtHmac" -> p.algorithm \in JwtHmacAlgs /\ p.kidStrategy \in KidStrategies /\ p.keySize >= JwtHmacMinKey(p.algorithm)
    [] T = "JwtEcdsa" -> p.algorithm \in JwtEcdsaAlgs /\ p.kidStrategy \in KidStrategies
    [] T = "JwtMlDsa" -> p.algorithm \in JwtMlDsaAlgs /\ p.kidStrategy \in KidStrategies
    [] T = "JwtRsaSsaPkcs1" -> p.modulusBits >= 2048 /\ ExpOK(p.exponent) /\ p.algorithm \in JwtPkcs1Algs /\ p.kidStrategy \in KidStrategies
    [] T = "JwtRsaSsaPss" -> p.modulusBits >= 2048 /\ ExpOK(p.exponent) /\ p.algorithm \in JwtPssAlgs /\ p.kidStrategy \in KidStrategies
    [] T = "PrfBasedDeriver" -> p.prf \in DeriverPrfs /\ p.derived \in DeriverDerived

\* the proto key message can carry a key with these parameters (otherwise SerializeKey must refuse):
\* AES-GCM's proto has no IV / tag size field; RSA-SSA-PSS salt length 0 is refused by the serializer on purpose
Representable(T, p) ==
  CASE T = "AesGcm" -> p.ivSize = 12 /\ p.tagSize = 16
    [] T = "RsaSsaPss" -> p.saltSize # 0
    [] OTHER -> TRUE
\* the KeyTemplate / key format message can carry the parameters: the JWT key formats have no place for "the kid is a
\* custom string" (the custom kid lives in the key)
TemplateRepresentable(T, p) ==
  CASE T = "AesGcm" -> p.ivSize = 12 /\ p.tagSize = 16
    [] T \in {"JwtHmac", "JwtEcdsa", "JwtRsaSsaPkcs1", "JwtRsaSsaPss", "JwtMlDsa"} -> p.kidStrategy # "CUSTOM"
    [] OTHER -> TRUE
\* a key of this kind can be constructed at all: RSA private keys exist only for e = 65537 (public keys for any valid e)
KeyConstructible(T, kind, p) ==
  ~(kind = "private" /\ T \in {"RsaSsaPkcs1", "RsaSsaPss", "JwtRsaSsaPkcs1", "JwtRsaSsaPss"} /\ p.exponent # F4)

\* ------------------------------------------------------------------ Usable / BelowMinimum
Usable(T, p) ==
  ParamsOK(T, p) /\
  CASE T = "AesGcm" -> p.keySize \in {16, 32} /\ p.ivSize = 12 /\ p.tagSize = 16
    [] T = "AesCtrHmac" -> p.aesKeySize \in {16, 32}
    [] T = "AesSiv" -> p.keySize = 64
    [] T = "AesCmac" -> p.keySize = 32
    [] T = "AesCmacPrf" -> p.keySize = 32
    [] T = "HkdfPrf" -> p.keySize >= 32 /\ p.hash \in {"SHA256", "SHA512"}
    [] T \in {"RsaSsaPkcs1", "RsaSsaPss", "JwtRsaSsaPkcs1", "JwtRsaSsaPss"} -> p.exponent = F4
    [] T = "PrfBasedDeriver" -> p.prf \in {"HKDF_SHA256_32", "HKDF_SHA512_64_SALT"} /\ p.derived \in DeriverDerivable
    [] OTHER -> TRUE

\* the minimum strengths of the statement of C14, field by field (meaningful for any record over Domain)
CurveStrength(c) == CASE c = "NIST_P256" -> 256 [] c = "NIST_P384" -> 384 [] c = "NIST_P521" -> 512 [] OTHER -> 0
HashStrength(h) == CASE h = "SHA256" -> 256 [] h = "SHA384" -> 384 [] h = "SHA512" -> 512 [] OTHER -> 0
BelowMinimum(T, p) ==
  CASE T = "Hmac" -> p.keySize < 16 \/ p.tagSize < 10
    [] T = "HmacPrf" -> p.keySize < 16
    [] T = "JwtHmac" -> p.keySize < 16
    [] T = "AesCtrHmac" -> p.hmacKeySize < 16 \/ p.tagSize < 10 \/ p.aesKeySize \notin {16, 32}
    [] T = "AesCtrHmacStreaming" -> p.tagSize < 10 \/ p.derivedKeySize \notin {16, 32}
    [] T = "AesGcmHkdfStreaming" -> p.derivedKeySize \notin {16, 32}
    [] T \in {"AesGcm", "AesGcmSiv"} -> p.keySize \notin {16, 32}
    [] T \in {"AesCmac", "AesCmacPrf"} -> p.keySize \notin {16, 32}
    [] T = "AesSiv" -> p.keySize \notin {32, 64}            \* two AES keys of 16 or 32 bytes
    [] T \in {"RsaSsaPkcs1", "RsaSsaPss", "JwtRsaSsaPkcs1", "JwtRsaSsaPss"} -> p.modulusBits < 2048 \/ p.exponent # F4
    [] T = "Ecdsa" -> HashStrength(p.hash) < CurveStrength(p.curve)
    [] T = "HkdfPrf" -> p.keySize < 32
    [] OTHER -> FALSE

\* ------------------------------------------------------------------ case enumeration
IntFields == {"keySize", "ivSize", "tagSize", "aesKeySize", "hmacKeySize", "saltSize", "derivedKeySize", "segmentSize",
              "modulusBits", "exponent"}
\* thin a set of integers to {lo, second, one inner value, second-to-last, hi}; the inner value moves with ThinSeed
\* (VERIF_SEED) so that different seeds visit different interior values
ThinSeed == IF "VERIF_SEED" \in DOMAIN IOEnv THEN atoi(IOEnv.VERIF_SEED) ELSE 1
Thin(S) ==
  IF Cardinality(S) <= 5 THEN S
  ELSE LET srt == SetToSortSeq(S, <)
           n == Len(srt)
           inner == IF ThinSeed = 1 THEN (n + 1) \div 2 ELSE 3 + ((ThinSeed * 7) % (n - 4))
       IN {srt[1], srt[2], srt[inner], srt[n - 1], srt[n]}
\* three-point thinning {lo, inner, hi} for key types with many fields
Thin3(S) ==
  IF Cardinality(S) <= 3 THEN S
  ELSE LET srt == SetToSortSeq(S, <)
           n == Len(srt)
           inner == IF ThinSeed = 1 THEN (n + 1) \div 2 ELSE 2 + ((ThinSeed * 7) % (n - 2))
       IN {srt[1], srt[inner], srt[n]}
ThinI(S, f, dense, wide) == IF dense \/ f \notin IntFields THEN S ELSE IF wide THEN Thin3(S) ELSE Thin(S)

\* the value a field takes when another field carries the fault: the middle of the sorted integers / some enum value
Typical(S, f) ==
  IF f \in IntFields THEN LET srt == SetToSortSeq(S, <) IN srt[(Len(srt) + 1) \div 2]
  ELSE CHOOSE x \in S : TRUE

\* the full dependent product of the documented values
GoodCases(T, dense) ==
  LET wide == Len(Fields(T)) >= 5
      step(acc, f) == UNION { {(f :> v) @@ r : v \in ThinI(Good(T, f, r), f, dense, wide)} : r \in acc }
  IN FoldLeft(step, {<<>>}, Fields(T))

\* records with exactly one out-of-domain field (field number i), every other field typical for its context
FaultCases(T) ==
  LET n == Len(Fields(T))
      walk(i) == LET step(acc, j) ==
                       LET f == Fields(T)[j] IN
                       UNION { IF j = i THEN {(f :> v) @@ r : v \in Edge(T, f, r)}
                               ELSE {(f :> Typical(Good(T, f, r), f)) @@ r} : r \in acc }
                 IN FoldLeft(step, {<<>>}, [j \in 1..n |-> j])
  IN UNION {walk(i) : i \in 1..n}

Cases(T, dense) == GoodCases(T, dense) \cup FaultCases(T)

\* Domain(T, f): every value of f that occurs in any enumerated case = the union of Good and Edge over the contexts
\* (values of the earlier fields) they depend on.  Deliberately NOT a zero-arity table: TLC evaluates those eagerly.
CtxFor(f) ==
  CASE f = "tagSize" -> [hash : Hashes5 \cup {Unknown}, hmacHash : HashesS \cup {Unknown}]
    [] f = "keySize" -> [derivedKeySize : {16, 24, 32}, algorithm : JwtHmacAlgs \cup {Unknown}]
    [] f = "segmentSize" -> [derivedKeySize : {16, 24, 32}, tagSize : 9..65]
    [] OTHER -> {<<>>}
Domain(T, f) == UNION {Good(T, f, c) \cup Edge(T, f, c) : c \in CtxFor(f)}

AllCases(dense) == [T \in KeyTypes |-> Cases(T, dense)]
================================================================================
