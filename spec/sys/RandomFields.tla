------------------------------- MODULE RandomFields -------------------------------
(* Where Tink's outputs carry fresh randomness (C20): the random regions of every      *)
(* randomized output, cut out by the documented wire-format offsets.  The lengths are  *)
(* those of the construction modules (AEADWire, HPKE, ECIES, OutputPrefix), reused       *)
(* verbatim.                                                                            *)
(*                                                                                    *)
(* kind   cfg                                   output            random fields          *)
(* aead   [kt, variant, ivLen, saltLen]         ciphertext        prefix || NONCE || ..  *)
(*        XAES-256-GCM:  prefix || SALT || IV || ..   (salt 8..12 bytes, IV 12 bytes)    *)
(* stream [keySize]                             ciphertext        hlen || SALT(keySize) || NONCEPREFIX(7) || segments *)
(* hpke   [kem, variant]                        ciphertext        prefix || ENC(Nenc(kem)) || AEAD ct   (RFC 9180) *)
(* ecies  [curve, fmt, dem, variant]            ciphertext        prefix || POINT || DEM ciphertext (IV first unless AES-SIV) *)
(* envelope []                                  ciphertext        len32(n) || KEK ciphertext of the DEK (n bytes, NONCE first) || DEK ciphertext (NONCE first) *)
(*        (aead.NewKMSEnvelopeAEAD2 with AES-GCM KEK and DEK: two 12-byte nonces per output)                 *)
(* sig    [variant]                             signature         prefix || RAW SIGNATURE  (same message every call) *)
(* keyid  []                                    key id, manager   ID (4 bytes); (manager, ID) never repeats, *)
(*                                                                also not after the key of that id was deleted *)
(* keygen []                                    serialized key    KEY MATERIAL             *)
(*                                                                                    *)
(* Besides each field, the XOR of two random fields of one output is monitored as a     *)
(* field of its own: if one region were derived from the other (nonce prefix copied      *)
(* from the salt, IV = salt, complement, ...) the XOR is constant although each region    *)
(* alone looks random.  The concatenation of all random regions ("nonce", "header") is    *)
(* the value that must never repeat even where one region alone is short (7-byte nonce    *)
(* prefix, 8-byte X-AES salt).                                                            *)
EXTENDS AEADWire, HPKE, ECIES

RField(name, len, uniform, strict) == [name |-> name, len |-> len, uniform |-> uniform, strict |-> strict]

NoncePrefixLen == 7            \* streaming AEAD (both key types): 7 random bytes || 4-byte counter || last-segment flag

EciesEncLen(cfg) == IF cfg.curve = "X25519" THEN 32 ELSE EncSize(cfg.curve, cfg.fmt)
EciesHasIV(cfg)  == cfg.dem \in {"AES128GCM", "AES256GCM", "AES128CTRHMAC", "AES256CTRHMAC"}

\* ------------------------------------------------------------------ field layout
RandomFieldsOf(kind, cfg) ==
  CASE kind = "aead" ->
         IF cfg.kt = "XAES"
           THEN <<RField("salt", cfg.saltLen, TRUE, FALSE), RField("iv", XAESIVLen, TRUE, FALSE),
                  RField("salt^iv", cfg.saltLen, TRUE, FALSE), RField("nonce", AEADNonceLen(cfg), FALSE, FALSE)>>
           ELSE <<RField("nonce", AEADNonceLen(cfg), TRUE, FALSE)>>
    [] kind = "stream" ->
         <<RField("salt", cfg.keySize, TRUE, FALSE), RField("noncePrefix", NoncePrefixLen, TRUE, FALSE),
           RField("salt^noncePrefix", NoncePrefixLen, TRUE, FALSE), RField("header", cfg.keySize + NoncePrefixLen, FALSE, FALSE)>>
    [] kind = "hpke"  -> <<RField("enc", Nenc(cfg.kem), FALSE, FALSE)>>
    [] kind = "ecies" ->
         IF EciesHasIV(cfg)
           THEN <<RField("enc", EciesEncLen(cfg), FALSE, FALSE), RField("demIV", DemIVLen(cfg.dem), TRUE, FALSE)>>
           ELSE <<RField("enc", EciesEncLen(cfg), FALSE, FALSE)>>
    [] kind = "envelope" ->
         <<RField("kekNonce", AESGCMIVLen, TRUE, FALSE), RField("dekNonce", AESGCMIVLen, TRUE, FALSE),
           RField("kekNonce^dekNonce", AESGCMIVLen, TRUE, FALSE)>>
    [] kind = "sig"    -> <<RField("signature", 0, FALSE, FALSE)>>
    [] kind = "keyid"  -> <<RField("id", 4, TRUE, FALSE), RField("manager,id", 0, FALSE, TRUE)>>
    [] kind = "keygen" -> <<RField("key", 0, FALSE, FALSE)>>

\* shortest output that contains all the fields
MinLen(kind, cfg) ==
  CASE kind = "aead"   -> PrefixLen(cfg.variant) + AEADNonceLen(cfg)
    [] kind = "stream" -> 1 + cfg.keySize + NoncePrefixLen
    [] kind = "hpke"   -> PrefixLen(cfg.variant) + Nenc(cfg.kem)
    [] kind = "ecies"  -> PrefixLen(cfg.variant) + EciesEncLen(cfg) + (IF EciesHasIV(cfg) THEN DemIVLen(cfg.dem) ELSE 0)
    [] kind = "envelope" -> 4 + AESGCMIVLen + AESGCMTagLen + AESGCMIVLen + AESGCMTagLen
    [] kind = "sig"    -> PrefixLen(cfg.variant) + 1
    [] kind = "keyid"  -> 4
    [] kind = "keygen" -> 1

\* ------------------------------------------------------------------ field values of one output
\* out: the bytes of the output; aux: bytes of the manager's name (keyid) or <<>>
RandomValuesOf(kind, cfg, out, aux) ==
  CASE kind = "aead" ->
         LET raw == Drop(out, PrefixLen(cfg.variant)) IN
         IF cfg.kt = "XAES"
           THEN LET salt == Take(raw, cfg.saltLen)
                    iv   == Slice(raw, cfg.saltLen, XAESIVLen)
                IN <<salt, iv, Xor(salt, Take(iv, cfg.saltLen)), Take(raw, AEADNonceLen(cfg))>>
           ELSE <<Take(raw, AEADNonceLen(cfg))>>
    [] kind = "stream" ->
         LET salt == Slice(out, 1, cfg.keySize)
             np   == Slice(out, 1 + cfg.keySize, NoncePrefixLen)
         IN <<salt, np, Xor(Take(salt, NoncePrefixLen), np), salt \o np>>
    [] kind = "hpke"  -> <<Slice(out, PrefixLen(cfg.variant), Nenc(cfg.kem))>>
    [] kind = "ecies" ->
         LET p == PrefixLen(cfg.variant) IN
         IF EciesHasIV(cfg)
           THEN <<Slice(out, p, EciesEncLen(cfg)), Slice(out, p + EciesEncLen(cfg), DemIVLen(cfg.dem))>>
           ELSE <<Slice(out, p, EciesEncLen(cfg))>>
    [] kind = "envelope" ->
         LET n  == BEToNat(Slice(out, 2, 2))          \* the encrypted DEK is far shorter than 2^16 bytes
             kn == Slice(out, 4, AESGCMIVLen)
             dn == Slice(out, 4 + n, AESGCMIVLen)
         IN <<kn, dn, Xor(kn, dn)>>
    [] kind = "sig"    -> <<Drop(out, PrefixLen(cfg.variant))>>
    [] kind = "keyid"  -> <<out, aux \o <<0>> \o out>>
    [] kind = "keygen" -> <<out>>

\* the fixed parts of the layout that the output must show (else the offsets above are not the fields)
FramingOK(kind, cfg, out) ==
  /\ Len(out) >= MinLen(kind, cfg)
  /\ kind = "stream" => out[1] = 1 + cfg.keySize + NoncePrefixLen
  /\ kind = "envelope" => /\ out[1] = 0 /\ out[2] = 0
                          /\ Len(out) >= 4 + BEToNat(Slice(out, 2, 2)) + AESGCMIVLen + AESGCMTagLen
  /\ kind \in {"aead", "hpke", "ecies", "sig"} /\ cfg.variant # "NO_PREFIX" =>
       Take(out, 1) = (IF cfg.variant = "TINK" THEN <<1>> ELSE <<0>>)
================================================================================
