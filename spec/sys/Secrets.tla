-------------------------------- MODULE Secrets --------------------------------
(* C13: secret key material leaves a handle only via insecure or encrypted paths.        *)
(* Built on KeysetIO.tla (handles, writers, readers, the key-encryption AEAD).  Adds:     *)
(*   - the guard of the three *NoSecrets APIs (keyset.NewHandleWithNoSecrets,             *)
(*     keyset.ReadWithNoSecrets, Handle.WriteWithNoSecrets): they succeed exactly for      *)
(*     keysets whose every key has PUBLIC or REMOTE material -- SYMMETRIC, PRIVATE and      *)
(*     UNKNOWN material anywhere in the keyset (any position, any status) refuses;          *)
(*   - the artifacts a handle emits and, for each, the set of fields it may populate and    *)
(*     whether key bytes may occur in it;                                                   *)
(*   - the rule for string-valued outputs (error texts, fmt renderings, panic values):       *)
(*     no such text may expose key material.                                                 *)
EXTENDS KeysetIO

\* ------------------------------------------------------------------ the guard
SecretMaterials == {"SYMMETRIC", "PRIVATE", "UNKNOWN"}
HasSecrets(h) == \E i \in DOMAIN h : h[i].mat \in SecretMaterials
NoSecretsAPIsSucceed(h) == WellFormed(h) /\ NoSecretsOK(h)
\* the two formulations agree (checked as an invariant in MC_KeysetIO through NoSecretsAgree, and here by definition)
GuardConsistent(h) == NoSecretsOK(h) <=> ~HasSecrets(h)

\* ------------------------------------------------------------------ artifacts and what they may expose
\* field paths as the conformance driver decodes them: proto field names for proto / text artifacts, JSON member names
\* for JSON artifacts
InfoProto == {"primary_key_id", "key_info.type_url", "key_info.status", "key_info.key_id", "key_info.output_prefix_type"}
InfoJson == {"primaryKeyId", "keyInfo.typeUrl", "keyInfo.status", "keyInfo.keyId", "keyInfo.outputPrefixType"}
Prefixed(p, S) == {p \o x : x \in S}
KeysetProto == {"primary_key_id", "key.key_data.type_url", "key.key_data.value", "key.key_data.key_material_type", "key.status",
                "key.key_id", "key.output_prefix_type"}
KeysetJson == {"primaryKeyId", "key.keyData.typeUrl", "key.keyData.value", "key.keyData.keyMaterialType", "key.status", "key.keyId",
               "key.outputPrefixType"}

\* artifact kinds: "string" (Handle.String()), "keysetInfo" (Handle.KeysetInfo()), and the blob of a writer
Allowed(kind, format, mode) ==
  CASE kind \in {"string", "keysetInfo"} -> InfoProto
    [] kind = "blob" /\ mode = "encrypted" /\ format = "binary" -> {"encrypted_keyset"} \cup Prefixed("keyset_info.", InfoProto)
    [] kind = "blob" /\ mode = "encrypted" /\ format = "json" -> {"encryptedKeyset"} \cup Prefixed("keysetInfo.", InfoJson)
    [] kind = "blob" /\ format = "binary" -> KeysetProto
    [] kind = "blob" /\ format = "json" -> KeysetJson
\* key bytes may be visible only in what the insecure cleartext writer produced
MayShowKeyBytes(kind, mode) == kind = "blob" /\ mode = "cleartext"

\* Every string an API hands back is an artifact as well: the text of every returned error (refusals of the *NoSecrets
\* APIs, failed reads with a wrong key-encryption key or associated data, failed writes), fmt renderings (%v %+v %#v) of
\* handles, entries, key objects and parameters objects, and panic values.  None of them may expose key material, in
\* whatever encoding (raw, hex, base64, Go-escaped, protobuf text-format octal escapes, byte lists printed as numbers).
TextArtifactOK(leak) == ~leak

ArtifactOK(kind, format, mode, fields, leak) ==
  /\ fields \subseteq Allowed(kind, format, mode)
  /\ (leak => MayShowKeyBytes(kind, mode))
================================================================================
