---------------------------------- MODULE JWT ----------------------------------
(* C09.  The decision Tink's JWT verification has to make, written as the property *)
(* statement reads (NOT in the order the code evaluates it):                       *)
(*                                                                                 *)
(*   VerifyAndDecode / VerifyMACAndDecode(compact, validator) returns a verified    *)
(*   token  iff  the compact token's signature or MAC is valid under an ENABLED key *)
(*   of the keyset, its header names exactly that key's algorithm, has no crit,     *)
(*   satisfies that key's kid rule, and the validator's typ, iss, aud, exp, nbf,    *)
(*   iat and clock-skew rules hold; the returned claims are the signed payload.     *)
(*                                                                                 *)
(* Decide is a TOTAL function of a token view, a keyset, a validator and the clock. *)
(* A view is what the statement talks about:                                        *)
(*   compact     the string is a JWS compact serialization: three base64url parts   *)
(*   validUnder  the positions of the keyset keys under which the third part is a    *)
(*               valid signature / MAC of the first two (with that key's algorithm)  *)
(*   hdr, pl     the JOSE header and the claims set as JSON values                   *)
(* The view of a concrete token is computed by Trace_JWT with module JWS (base64url, *)
(* splitting, HMAC / ECDSA / RSA verification); the case generator Plan_JWT builds   *)
(* views from abstract classes.  JSON values are small tagged records so that they   *)
(* survive the trip through ndjson with fixed field types:                          *)
(*   [k |-> "absent"]   [k |-> "str", v |-> s]   [k |-> "other", j |-> json text]    *)
(*   [k |-> "list", l |-> <<values>>]            (aud)                               *)
(*   [k |-> "num", t |-> ticks, f |-> format]  [k |-> "max"]  [k |-> "big", j |-> text] *)
(* Times are integers in ticks of half a second (TicksPerSecond = 2), so that a      *)
(* clock with a sub-second part and a NumericDate with a fraction are both           *)
(* representable and every comparison is exact.  "max" is 253402300799 (the largest  *)
(* NumericDate Tink accepts, 9999-12-31T23:59:59Z, later than every model clock),     *)
(* "big" anything beyond it.                                                         *)
EXTENDS Integers, Sequences, FiniteSets

TicksPerSecond == 2
MaxSkew == 10 * 60 * TicksPerSecond          \* NewValidator refuses more than 10 minutes

Absent    == [k |-> "absent"]
Str(s)    == [k |-> "str", v |-> s]
Other(j)  == [k |-> "other", j |-> j]         \* present, but not a (valid UTF-8) string / number
List(xs)  == [k |-> "list", l |-> xs]
Num(t)    == [k |-> "num", t |-> t, f |-> "plain"]
NumF(t, f) == [k |-> "num", t |-> t, f |-> f]
MaxTime   == [k |-> "max"]
Big(j)    == [k |-> "big", j |-> j]

IsStr(x, s) == x.k = "str" /\ x.v = s

\* validator expectations for typ / iss / aud
None       == [k |-> "none"]                 \* no expectation, not ignored
Expect(s)  == [k |-> "expect", v |-> s]
Ignore     == [k |-> "ignore"]

IsObject(json) == json \in {"object", "objectws"}     \* the text is one JSON object (white space allowed)

\* ------------------------------------------------------------------ the key's rules for the header
\* kid strategies (jwt*/parameters.go): a TINK key (Base64EncodedKeyIDAsKID) has the kid
\* base64url(big-endian key id); a RAW key has a custom kid (CustomKID) or none (IgnoredKID).
\*   key-id-derived kid : the header MUST carry a kid and it MUST be that string
\*   custom kid         : a kid, when present, MUST be that string; absent is fine
\*   RAW without custom : the kid header is not looked at (any JSON value)
KidRule(kid, key) ==
  CASE key.strat = "TINK"    -> IsStr(kid, key.kid)
    [] key.strat = "CUSTOM"  -> kid.k = "absent" \/ IsStr(kid, key.kid)
    [] key.strat = "IGNORED" -> TRUE

\* "its header names exactly that key's algorithm, has no crit, satisfies the key's kid rule"
HeaderFits(h, key) ==
  /\ IsStr(h.alg, key.alg)                   \* exact, case-sensitive; "none" names no key's algorithm
  /\ h.crit = "absent"                       \* any crit member, whatever its value
  /\ KidRule(h.kid, key)

\* "valid under an enabled key of the keyset"
SignedBy(w, ks) == {i \in 1..Len(ks) : ks[i].status = "ENABLED" /\ i \in w.validUnder}

\* ------------------------------------------------------------------ well-typed header and claims set
\* (RFC 7515 4.1.9: typ is a string; RFC 7519 4.1: iss, sub, jti are StringOrURI, aud is one or an
\* array of them - Tink: at least one -, exp, nbf, iat are NumericDate within [0, 253402300799])
StrTyped(c)  == c.k \in {"absent", "str"}
TimeTyped(c) == c.k \in {"absent", "max"} \/ (c.k = "num" /\ c.t >= 0)
AudTyped(a)  == \/ a.k \in {"absent", "str"}
                \/ a.k = "list" /\ Len(a.l) >= 1 /\ \A i \in 1..Len(a.l) : a.l[i].k = "str"

HeaderTyped(h) == IsObject(h.json) /\ StrTyped(h.typ)
ClaimsTyped(p) ==
  /\ IsObject(p.json)
  /\ StrTyped(p.iss) /\ StrTyped(p.sub) /\ StrTyped(p.jti)
  /\ AudTyped(p.aud)
  /\ TimeTyped(p.exp) /\ TimeTyped(p.nbf) /\ TimeTyped(p.iat)

\* ------------------------------------------------------------------ the validator's rules
\* c is later than the clock value x
After(c, x) == c.k = "max" \/ (c.k = "num" /\ c.t > x)

\* exp: the token is alive while  exp > now - skew ; without exp only if AllowMissingExpiration
ExpRule(p, v, now) == IF p.exp.k = "absent" THEN v.allowMissingExp ELSE After(p.exp, now - v.skew)
\* nbf: usable from  nbf <= now + skew
NbfRule(p, v, now) == p.nbf.k = "absent" \/ ~After(p.nbf, now + v.skew)
\* iat: looked at only with ExpectIssuedInThePast, then required and  iat <= now + skew
IatRule(p, v, now) == v.expectIat => (p.iat.k # "absent" /\ ~After(p.iat, now + v.skew))

\* expected / ignore / neither  x  present / absent
TypRule(h, v) ==
  CASE v.typ.k = "ignore" -> TRUE
    [] v.typ.k = "none"   -> h.typ.k = "absent"
    [] v.typ.k = "expect" -> IsStr(h.typ, v.typ.v)
IssRule(p, v) ==
  CASE v.iss.k = "ignore" -> TRUE
    [] v.iss.k = "none"   -> p.iss.k = "absent"
    [] v.iss.k = "expect" -> IsStr(p.iss, v.iss.v)
\* the audiences of a well-typed aud claim (a single string is a list of one)
Audiences(a) == IF a.k = "str" THEN <<a.v>>
                ELSE IF a.k = "list" THEN [i \in 1..Len(a.l) |-> a.l[i].v] ELSE <<>>
AudRule(p, v) ==
  CASE v.aud.k = "ignore" -> TRUE
    [] v.aud.k = "none"   -> p.aud.k = "absent"
    [] v.aud.k = "expect" -> \E i \in 1..Len(Audiences(p.aud)) : Audiences(p.aud)[i] = v.aud.v

ValidatorRules(w, v, now) ==
  /\ ExpRule(w.pl, v, now) /\ NbfRule(w.pl, v, now) /\ IatRule(w.pl, v, now)
  /\ TypRule(w.hdr, v) /\ IssRule(w.pl, v) /\ AudRule(w.pl, v)

\* ------------------------------------------------------------------ the decision
Decide(w, ks, v, now) ==
  /\ w.compact
  /\ HeaderTyped(w.hdr)
  /\ \E i \in SignedBy(w, ks) : HeaderFits(w.hdr, ks[i])
  /\ ClaimsTyped(w.pl)
  /\ ValidatorRules(w, v, now)

\* "the returned claims are exactly the signed payload": what the VerifiedJWT accessors must show
Claims(w) ==
  [typ |-> w.hdr.typ, iss |-> w.pl.iss, sub |-> w.pl.sub, jti |-> w.pl.jti,
   aud |-> IF w.pl.aud.k = "absent" THEN Absent
           ELSE List([i \in 1..Len(Audiences(w.pl.aud)) |-> Str(Audiences(w.pl.aud)[i])]),
   exp |-> w.pl.exp, nbf |-> w.pl.nbf, iat |-> w.pl.iat, custom |-> w.pl.custom]

\* Same instant?  (a NumericDate has many spellings: 7, 7.0)
SameTime(a, b) == a.k = b.k /\ (a.k = "num" => a.t = b.t)

\* ------------------------------------------------------------------ abstract tokens (cases of Plan_JWT)
\* t: [struct, enc : [h, p, s], signer : [mat, alg, mode], hdr, pl].  What the case generator
\* claims about the octets the driver will assemble; Trace_JWT computes the same from the octets.
AbstractCompact(t) ==
  IF t.struct # "ok" \/ "badchar" \in {t.enc.h, t.enc.p, t.enc.s} THEN "no"
  ELSE IF {t.enc.h, t.enc.p, t.enc.s} = {"ok"} THEN "yes" ELSE "unknown"   \* padded / std: depends on the octets
AbstractValidUnder(t, ks) ==
  {i \in 1..Len(ks) : t.signer.mode = "good" /\ ks[i].mat = t.signer.mat /\ ks[i].alg = t.signer.alg}
AbstractView(c) ==
  [compact |-> AbstractCompact(c.t) # "no", validUnder |-> AbstractValidUnder(c.t, c.ks), hdr |-> c.t.hdr, pl |-> c.t.pl]

\* ------------------------------------------------------------------ NewValidator (coverage expectation)
\* o: [expTyp, ignTyp, expIss, ignIss, expAud, ignAud : BOOLEAN, skew : "neg" | "zero" | "max" | "over"]
ValidatorOptsOK(o) ==
  /\ ~(o.expTyp /\ o.ignTyp) /\ ~(o.expIss /\ o.ignIss) /\ ~(o.expAud /\ o.ignAud)
  /\ o.skew # "over"
================================================================================
