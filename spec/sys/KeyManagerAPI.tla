---------------------------- MODULE KeyManagerAPI ----------------------------
(* X03: the registration life-cycle of tink-go and the legacy registry.KeyManager          *)
(* interface as a specification (DESIGN.md section 8).  Written from the godoc of           *)
(* core/registry (KeyManager, PrivateKeyManager, KMSClient, RegisterKeyManager, ...),        *)
(* internal/config, internal/primitiveregistry, internal/keygenregistry,                    *)
(* internal/protoserialization, the *_key_templates.go files and Tink's published key        *)
(* template names; shaped like the code where it is a mechanism (maps with first-wins        *)
(* registration, a list of KMS clients, a builder whose Build() takes a snapshot).            *)
(*                                                                                          *)
(* Part 1  the managers: which type URLs have a key manager, what each one answers to        *)
(*         TypeURL / DoesSupport, its key material type, whether it is a PrivateKeyManager,   *)
(*         which primitive class Primitive() yields.                                        *)
(* Part 2  key formats: the serialized key format of a parameter record of KeyParams.tla     *)
(*         (field path -> value, from KeyFormatWire.tla = the .proto files), the decision     *)
(*         table NewKeyData accepts / refuses (from KeyParams!ParamsOK and the key            *)
(*         generators' extra restrictions GenOK), and what an accepted call must return.      *)
(* Part 3  the exported key template functions: name -> (key type, parameter record).        *)
(* Part 4  the registries as state machines: key managers (reusing Registry!Apply), KMS      *)
(*         clients (first registered client that supports the URI), the configuration         *)
(*         builder (duplicate registration refused, Build() is a snapshot), the internal      *)
(*         global registries (primitive constructors: same constructor twice is fine, a        *)
(*         different one is refused; every other one: any second registration refused).        *)
(* Part 5  the per-class configurations (internal/config/<class>config.V0).                   *)
EXTENDS KeyParams

W == INSTANCE KeyFormatWire

\* ================================================================== Part 1: the managers
TinkPrefix == "type.googleapis.com/google.crypto.tink."
KmsEnvelopeURL == TinkPrefix \o "KmsEnvelopeAeadKey"

\* composite ML-DSA keys have parsers, serializers and primitive constructors but no legacy key manager
Unmanaged == {"CompositeMlDsa"}
ManagedTypes == KeyTypes \ Unmanaged
ManagedPairs == {x \in ManagedTypes \X {"symmetric", "private", "public"} : x[2] \in Kinds(x[1])}
ManagerURLs == {TypeURL(x[1], x[2]) : x \in ManagedPairs} \cup {KmsEnvelopeURL}
\* URLs of the tink name space that must NOT have a manager (asked for by mistake or by an old keyset)
UnmanagedURLs == {TypeURL("CompositeMlDsa", "private"), TypeURL("CompositeMlDsa", "public"),
                  TinkPrefix \o "KmsAeadKey", TinkPrefix \o "AesEaxKey", TinkPrefix \o "AesGcmKeyX", TinkPrefix \o "aesgcmkey",
                  TinkPrefix, "", "AesGcmKey", "type.googleapis.com/google.crypto.tink.AesGcmKey "}

PairOf(u) == CHOOSE x \in ManagedPairs : TypeURL(x[1], x[2]) = u
\* the key kind new keys of a type are generated as
TemplateKindOf(T) == IF T \in Asymmetric THEN "private" ELSE "symmetric"

\* the manager registered under u, as the interface sees it
ManagerSupports(u, v) == v = u                         \* DoesSupport(v) <=> v = TypeURL()
ManagerMaterial(u) == IF u = KmsEnvelopeURL THEN "REMOTE" ELSE Material(PairOf(u)[1], PairOf(u)[2])
ManagerIsPrivate(u) == u # KmsEnvelopeURL /\ PairOf(u)[2] = "private"

\* the primitive class Primitive(serializedKey) yields; NONE: the manager refuses (JWT keys and the PRF-based deriver
\* are only usable through a keyset handle)
PrimClass(T, kind) ==
  CASE T \in {"AesGcm", "AesCtrHmac", "AesGcmSiv", "ChaCha20Poly1305", "XChaCha20Poly1305", "XAesGcm"} -> "AEAD"
    [] T = "AesSiv" -> "DAEAD"
    [] T \in {"Hmac", "AesCmac"} -> "MAC"
    [] T \in {"HmacPrf", "HkdfPrf", "AesCmacPrf"} -> "PRF"
    [] T \in {"AesGcmHkdfStreaming", "AesCtrHmacStreaming"} -> "STREAM"
    [] T \in {"Ecdsa", "Ed25519", "RsaSsaPkcs1", "RsaSsaPss", "MlDsa", "SlhDsa", "CompositeMlDsa"} ->
         (IF kind = "private" THEN "SIGN" ELSE "VERIFY")
    [] T \in {"Hpke", "Ecies"} -> (IF kind = "private" THEN "HDEC" ELSE "HENC")
    [] OTHER -> "NONE"
\* the class of the primitive a keyset handle of such keys gives (through the per-class factory)
HandleClass(T, kind) ==
  CASE T = "JwtHmac" -> "JWTMAC"
    [] T \in {"JwtEcdsa", "JwtRsaSsaPkcs1", "JwtRsaSsaPss", "JwtMlDsa"} -> (IF kind = "private" THEN "JWTSIGN" ELSE "JWTVERIFY")
    [] T = "PrfBasedDeriver" -> "DERIVER"
    [] OTHER -> PrimClass(T, kind)

\* ================================================================== Part 2: key formats
\* The key format message has no place for the variant (the output prefix type is a field of the KeyTemplate; the key
\* managers always parse with RAW), for the JWT kid strategy (same), nor for AES-GCM's IV and tag size.
RawValue(T, f) ==
  CASE f = "variant" -> "NO_PREFIX" [] f = "kidStrategy" -> "IGNORED"
    [] T = "AesGcm" /\ f = "ivSize" -> 12 [] T = "AesGcm" /\ f = "tagSize" -> 16
InFormat(T, f) == ~(f \in {"variant", "kidStrategy"} \/ (T = "AesGcm" /\ f \in {"ivSize", "tagSize"}))

\* the parameter records a plan enumerates for key formats: as KeyParams!Cases, over the fields the format carries
FormatGood(T, dense) ==
  LET wide == Len(Fields(T)) >= 5
      step(acc, f) == UNION { IF InFormat(T, f) THEN {(f :> v) @@ r : v \in ThinI(Good(T, f, r), f, dense, wide)}
                              ELSE {(f :> RawValue(T, f)) @@ r} : r \in acc }
  IN FoldLeft(step, {<<>>}, Fields(T))
FormatFault(T) ==
  LET n == Len(Fields(T))
      walk(i) == LET step(acc, j) ==
                       LET f == Fields(T)[j] IN
                       UNION { IF ~InFormat(T, f) THEN {(f :> RawValue(T, f)) @@ r}
                               ELSE IF j = i THEN {(f :> v) @@ r : v \in Edge(T, f, r)}
                               ELSE {(f :> Typical(Good(T, f, r), f)) @@ r} : r \in acc }
                 IN FoldLeft(step, {<<>>}, [j \in 1..n |-> j])
  IN UNION {walk(i) : i \in {j \in 1..n : InFormat(T, Fields(T)[j])}}
FormatCases(T, dense) == FormatGood(T, dense) \cup FormatFault(T)

\* --- the wire form (what the driver encodes; nothing of Tink is involved in building a format)
\* integer / big-endian integer / byte-length fields are KeyFormatWire's; the nested key templates of ECIES and of the
\* PRF-based deriver are named (the driver resolves a name to the serialized template of those nested parameters)
RECURSIVE SetToSeqOf(_)
SetToSeqOf(S) == IF S = {} THEN <<>> ELSE LET x == CHOOSE x \in S : TRUE IN <<x>> \o SetToSeqOf(S \ {x})
PathVals(S) == SetToSeqOf({[path |-> x[1], v |-> x[2]] : x \in S})

EciesInts(p) == {<<<<1, 1, 1>>, W!CurveNum(p.curve)>>, <<<<1, 1, 2>>, W!HashNum(p.hash)>>, <<<<1, 3>>, W!PointFormatNum(p.pointFormat)>>}
FormatInts(T, p) == IF T = "Ecies" THEN EciesInts(p) ELSE {x \in W!Ints(T, p) : x[2] # 0}     \* zero = absent (proto3 default)
FormatLens(T, p) == IF T = "Ecies" THEN {<<<<1, 1, 11>>, p.saltSize>>} ELSE W!Lens(T, p)
FormatTpls(T, p) ==
  CASE T = "Ecies" -> {<<<<1, 2, 2>>, p.dem>>}
    [] T = "PrfBasedDeriver" -> {<<<<1>>, p.prf>>, <<<<2, 1>>, p.derived>>}
    [] OTHER -> {}
\* can this module write the format of such a record at all?  (an enum value the .proto file has no number for and a
\* negative size cannot be told apart from "absent" resp. are not representable in an unsigned field)
EnumFields == {"hash", "hkdfHash", "hmacHash", "mgf1Hash", "curve", "encoding", "instance", "sigType", "kem", "kdf", "aead",
               "algorithm", "pointFormat"}
Wire(T, p) == [ints |-> PathVals(FormatInts(T, p)), bigs |-> PathVals(W!Bigs(T, p)), lens |-> PathVals(FormatLens(T, p)),
               tpls |-> PathVals(FormatTpls(T, p))]

\* --- the decision table: does NewKeyData(format of p) succeed?
\* GenOK: what the key GENERATORS (keygenregistry creators, behind every manager's NewKeyData and behind
\* keyset.Manager.Add) require beyond valid parameters.  As built (the godoc only says "generates a new key according
\* to the specification in serializedKeyFormat"): a coverage expectation, never a verdict.
GenOK(T, p) ==
  CASE T = "AesGcm" -> p.keySize \in {16, 32}
    [] T = "AesCtrHmac" -> p.aesKeySize \in {16, 32}
    [] T = "AesSiv" -> p.keySize = 64
    [] T = "AesCmac" -> p.keySize = 32
    [] T = "AesCmacPrf" -> p.keySize = 32
    [] T = "HkdfPrf" -> p.keySize >= 32 /\ p.hash \in {"SHA256", "SHA512"}
    [] T = "AesGcmHkdfStreaming" -> p.keySize \in {16, 32}                   \* the main key is held to the AES key sizes
    [] T = "AesCtrHmacStreaming" -> p.keySize \in {16, 32} /\ p.hkdfHash \in {"SHA256", "SHA512"} /\ p.hmacHash \in {"SHA256", "SHA512"}
    [] T \in {"RsaSsaPkcs1", "RsaSsaPss", "JwtRsaSsaPkcs1", "JwtRsaSsaPss"} -> p.exponent = F4
    \* (the library has no key deriver for AES-GCM-SIV keys, whatever KeyParams!DeriverDerivable says)
    [] T = "PrfBasedDeriver" -> p.prf \in {"HKDF_SHA256_32", "HKDF_SHA512_64_SALT"} /\ p.derived \in DeriverDerivable \ {"AES256_GCM_SIV_CRUNCHY"}
    [] OTHER -> TRUE
\* The record of a format case describes the FORMAT; the parameters it denotes differ for ECIES: the point format field
\* of an X25519 format must say COMPRESSED (the parameters then say "unspecified"; anything else is refused), and the
\* output prefix type of the nested DEM template is ignored (the DEM key is always used without prefix).
Denoted(T, p) ==
  IF T # "Ecies" THEN p
  ELSE [p EXCEPT !.pointFormat = IF p.curve = "X25519" THEN (IF @ = "COMPRESSED" THEN Unspecified ELSE Unknown) ELSE @,
                 !.dem = IF @ = "AES128_GCM_TINK" THEN "AES128_GCM_RAW" ELSE @]
\* (Representable: a PSS salt length of zero parses as parameters but the generated key cannot be serialized)
NewKeyAccepts(T, p) == ParamsOK(T, p) /\ TemplateRepresentable(T, p) /\ Representable(T, p) /\ GenOK(T, p)

\* the parameters of a key made from the format of p with output prefix type RAW, resp. with the prefix type of p's
\* own variant, are p's (the record names them); the PRF-based deriver takes the prefix type from the derived template
\* an accepted NewKeyData must return: type_url of the manager, its key material type, a value that parses (output
\* prefix RAW) to a key whose parameters are exactly those the format describes
KeyDataOK(T, kind, kd) ==
  /\ kd.url = TypeURL(T, kind)
  /\ kd.material = Material(T, kind)
  /\ kd.parse /\ kd.eqTpl /\ kd.eqTplRev

\* Keys that can be generated, stored and parsed but for which the library has NO primitive (as built; KeyParams!Usable
\* does not know): ECIES over X25519 ("unsupported curve") and ECIES with an XChaCha20-Poly1305 DEM ("unsupported AEAD DEM
\* key type" -- ecies.NewParameters allows that DEM, hybrid/internal/ecies.NewDEMHelper does not implement it).
PrimitiveOK(T, p) ==
  CASE T = "Ecies" -> p.curve \in Curves3 /\ p.dem # "XCHACHA20_POLY1305_RAW"
    [] OTHER -> TRUE

\* which accepted records the driver exercises the primitives of (cost: RSA and SLH-DSA key generation and signing are
\* slow, streaming segments of 2^31 bytes are not allocatable); dense = thorough tier
Interop(T, p, dense) ==
  CASE T \in {"AesGcmHkdfStreaming", "AesCtrHmacStreaming"} -> p.segmentSize <= 1048576
    [] T = "SlhDsa" -> dense \/ p.sigType = "FAST_SIGNING" \/ (p.keySize = 64 /\ p.hash = "SHA2")
    [] OTHER -> TRUE
\* quick tier: which format cases are kept (RSA key generation above 2049 bits only for one record per modulus size)
KeepQuick(T, p) ==
  CASE T \in {"RsaSsaPkcs1", "JwtRsaSsaPkcs1", "JwtRsaSsaPss"} ->
         p.modulusBits <= 2049 \/ ~NewKeyAccepts(T, p)
         \/ (p.modulusBits = 3072 /\ (IF "hash" \in DOMAIN p THEN p.hash = "SHA256" ELSE p.algorithm \in {"RS256", "PS256"}))
    [] T = "RsaSsaPss" -> p.modulusBits <= 2049 \/ ~NewKeyAccepts(T, p) \/ (p.modulusBits = 3072 /\ p.hash = "SHA256" /\ p.saltSize = 32)
    [] OTHER -> TRUE

\* ================================================================== Part 3: the key template functions
\* Every exported function of the library that returns a *tinkpb.KeyTemplate, by "package.Function", with the key
\* type and the parameter record its godoc / Tink's published template of that name describes.
P_AesGcm(k, v) == [keySize |-> k, ivSize |-> 12, tagSize |-> 16, variant |-> v]
P_CtrHmac(a, t) == [aesKeySize |-> a, hmacKeySize |-> 32, ivSize |-> 16, hash |-> "SHA256", tagSize |-> t, variant |-> "TINK"]
P_Hmac(k, h, t) == [keySize |-> k, hash |-> h, tagSize |-> t, variant |-> "TINK"]
P_GcmHkdf(k, seg) == [derivedKeySize |-> k, keySize |-> k, hkdfHash |-> "SHA256", segmentSize |-> seg]
P_CtrHmacS(k, seg) == [derivedKeySize |-> k, keySize |-> k, hkdfHash |-> "SHA256", hmacHash |-> "SHA256", tagSize |-> 32, segmentSize |-> seg]
P_Ecdsa(c, h, e, v) == [curve |-> c, hash |-> h, encoding |-> e, variant |-> v]
P_Pkcs1(b, h, v) == [modulusBits |-> b, exponent |-> F4, hash |-> h, variant |-> v]
P_Pss(b, h, s, v) == [modulusBits |-> b, exponent |-> F4, hash |-> h, mgf1Hash |-> h, saltSize |-> s, variant |-> v]
P_Hpke(kem, aead, v) == [kem |-> kem, kdf |-> "HKDF_SHA256", aead |-> aead, variant |-> v]
P_Ecies(dem) == [curve |-> "NIST_P256", hash |-> "SHA256", pointFormat |-> "UNCOMPRESSED", dem |-> dem, saltSize |-> 0, variant |-> "TINK"]
P_JwtHmac(a, k, s) == [algorithm |-> a, kidStrategy |-> s, keySize |-> k]
P_JwtEc(a, s) == [algorithm |-> a, kidStrategy |-> s]
P_JwtRsa(a, b, s) == [modulusBits |-> b, exponent |-> F4, algorithm |-> a, kidStrategy |-> s]
Kid(raw) == IF raw THEN "IGNORED" ELSE "BASE64_KEY_ID"

Tpl(name, T, p) == [name |-> name, kt |-> T, p |-> p]
P256 == "DHKEM_P256_HKDF_SHA256"
X25519K == "DHKEM_X25519_HKDF_SHA256"
TemplateTable ==
  { Tpl("aead.AES128GCMKeyTemplate", "AesGcm", P_AesGcm(16, "TINK")),
    Tpl("aead.AES256GCMKeyTemplate", "AesGcm", P_AesGcm(32, "TINK")),
    Tpl("aead.AES256GCMNoPrefixKeyTemplate", "AesGcm", P_AesGcm(32, "NO_PREFIX")),
    Tpl("aead.XAES256GCM192BitNonceKeyTemplate", "XAesGcm", [saltSize |-> 12, variant |-> "TINK"]),
    Tpl("aead.XAES256GCM192BitNonceNoPrefixKeyTemplate", "XAesGcm", [saltSize |-> 12, variant |-> "NO_PREFIX"]),
    Tpl("aead.XAES256GCM160BitNonceKeyTemplate", "XAesGcm", [saltSize |-> 8, variant |-> "TINK"]),
    Tpl("aead.XAES256GCM160BitNonceNoPrefixKeyTemplate", "XAesGcm", [saltSize |-> 8, variant |-> "NO_PREFIX"]),
    Tpl("aead.AES128GCMSIVKeyTemplate", "AesGcmSiv", [keySize |-> 16, variant |-> "TINK"]),
    Tpl("aead.AES256GCMSIVKeyTemplate", "AesGcmSiv", [keySize |-> 32, variant |-> "TINK"]),
    Tpl("aead.AES256GCMSIVNoPrefixKeyTemplate", "AesGcmSiv", [keySize |-> 32, variant |-> "NO_PREFIX"]),
    Tpl("aead.AES128CTRHMACSHA256KeyTemplate", "AesCtrHmac", P_CtrHmac(16, 16)),
    Tpl("aead.AES256CTRHMACSHA256KeyTemplate", "AesCtrHmac", P_CtrHmac(32, 32)),
    Tpl("aead.ChaCha20Poly1305KeyTemplate", "ChaCha20Poly1305", [variant |-> "TINK"]),
    Tpl("aead.XChaCha20Poly1305KeyTemplate", "XChaCha20Poly1305", [variant |-> "TINK"]),
    Tpl("daead.AESSIVKeyTemplate", "AesSiv", [keySize |-> 64, variant |-> "TINK"]),
    Tpl("mac.HMACSHA256Tag128KeyTemplate", "Hmac", P_Hmac(32, "SHA256", 16)),
    Tpl("mac.HMACSHA256Tag256KeyTemplate", "Hmac", P_Hmac(32, "SHA256", 32)),
    Tpl("mac.HMACSHA512Tag256KeyTemplate", "Hmac", P_Hmac(64, "SHA512", 32)),
    Tpl("mac.HMACSHA512Tag512KeyTemplate", "Hmac", P_Hmac(64, "SHA512", 64)),
    Tpl("mac.AESCMACTag128KeyTemplate", "AesCmac", [keySize |-> 32, tagSize |-> 16, variant |-> "TINK"]),
    Tpl("prf.HMACSHA256PRFKeyTemplate", "HmacPrf", [keySize |-> 32, hash |-> "SHA256"]),
    Tpl("prf.HMACSHA512PRFKeyTemplate", "HmacPrf", [keySize |-> 64, hash |-> "SHA512"]),
    Tpl("prf.HKDFSHA256PRFKeyTemplate", "HkdfPrf", [keySize |-> 32, hash |-> "SHA256", saltSize |-> 0]),
    Tpl("prf.AESCMACPRFKeyTemplate", "AesCmacPrf", [keySize |-> 32]),
    Tpl("streamingaead.AES128GCMHKDF4KBKeyTemplate", "AesGcmHkdfStreaming", P_GcmHkdf(16, 4096)),
    Tpl("streamingaead.AES128GCMHKDF1MBKeyTemplate", "AesGcmHkdfStreaming", P_GcmHkdf(16, 1048576)),
    Tpl("streamingaead.AES256GCMHKDF4KBKeyTemplate", "AesGcmHkdfStreaming", P_GcmHkdf(32, 4096)),
    Tpl("streamingaead.AES256GCMHKDF1MBKeyTemplate", "AesGcmHkdfStreaming", P_GcmHkdf(32, 1048576)),
    Tpl("streamingaead.AES128CTRHMACSHA256Segment4KBKeyTemplate", "AesCtrHmacStreaming", P_CtrHmacS(16, 4096)),
    Tpl("streamingaead.AES128CTRHMACSHA256Segment1MBKeyTemplate", "AesCtrHmacStreaming", P_CtrHmacS(16, 1048576)),
    Tpl("streamingaead.AES256CTRHMACSHA256Segment4KBKeyTemplate", "AesCtrHmacStreaming", P_CtrHmacS(32, 4096)),
    Tpl("streamingaead.AES256CTRHMACSHA256Segment1MBKeyTemplate", "AesCtrHmacStreaming", P_CtrHmacS(32, 1048576)),
    Tpl("signature.ECDSAP256KeyTemplate", "Ecdsa", P_Ecdsa("NIST_P256", "SHA256", "DER", "TINK")),
    Tpl("signature.ECDSAP256KeyWithoutPrefixTemplate", "Ecdsa", P_Ecdsa("NIST_P256", "SHA256", "DER", "NO_PREFIX")),
    Tpl("signature.ECDSAP256RawKeyTemplate", "Ecdsa", P_Ecdsa("NIST_P256", "SHA256", "IEEE_P1363", "NO_PREFIX")),
    Tpl("signature.ECDSAP384SHA384KeyTemplate", "Ecdsa", P_Ecdsa("NIST_P384", "SHA384", "DER", "TINK")),
    Tpl("signature.ECDSAP384SHA384KeyWithoutPrefixTemplate", "Ecdsa", P_Ecdsa("NIST_P384", "SHA384", "DER", "NO_PREFIX")),
    Tpl("signature.ECDSAP384SHA512KeyTemplate", "Ecdsa", P_Ecdsa("NIST_P384", "SHA512", "DER", "TINK")),
    Tpl("signature.ECDSAP384KeyWithoutPrefixTemplate", "Ecdsa", P_Ecdsa("NIST_P384", "SHA512", "DER", "NO_PREFIX")),
    Tpl("signature.ECDSAP521KeyTemplate", "Ecdsa", P_Ecdsa("NIST_P521", "SHA512", "DER", "TINK")),
    Tpl("signature.ECDSAP521KeyWithoutPrefixTemplate", "Ecdsa", P_Ecdsa("NIST_P521", "SHA512", "DER", "NO_PREFIX")),
    Tpl("signature.ED25519KeyTemplate", "Ed25519", [variant |-> "TINK"]),
    Tpl("signature.ED25519KeyWithoutPrefixTemplate", "Ed25519", [variant |-> "NO_PREFIX"]),
    Tpl("signature.RSA_SSA_PKCS1_3072_SHA256_F4_Key_Template", "RsaSsaPkcs1", P_Pkcs1(3072, "SHA256", "TINK")),
    Tpl("signature.RSA_SSA_PKCS1_3072_SHA256_F4_RAW_Key_Template", "RsaSsaPkcs1", P_Pkcs1(3072, "SHA256", "NO_PREFIX")),
    Tpl("signature.RSA_SSA_PKCS1_4096_SHA512_F4_Key_Template", "RsaSsaPkcs1", P_Pkcs1(4096, "SHA512", "TINK")),
    Tpl("signature.RSA_SSA_PKCS1_4096_SHA512_F4_RAW_Key_Template", "RsaSsaPkcs1", P_Pkcs1(4096, "SHA512", "NO_PREFIX")),
    Tpl("signature.RSA_SSA_PSS_3072_SHA256_32_F4_Key_Template", "RsaSsaPss", P_Pss(3072, "SHA256", 32, "TINK")),
    Tpl("signature.RSA_SSA_PSS_3072_SHA256_32_F4_Raw_Key_Template", "RsaSsaPss", P_Pss(3072, "SHA256", 32, "NO_PREFIX")),
    Tpl("signature.RSA_SSA_PSS_4096_SHA512_64_F4_Key_Template", "RsaSsaPss", P_Pss(4096, "SHA512", 64, "TINK")),
    Tpl("signature.RSA_SSA_PSS_4096_SHA512_64_F4_Raw_Key_Template", "RsaSsaPss", P_Pss(4096, "SHA512", 64, "NO_PREFIX")),
    Tpl("hybrid.DHKEM_P256_HKDF_SHA256_HKDF_SHA256_AES_128_GCM_Key_Template", "Hpke", P_Hpke(P256, "AES_128_GCM", "TINK")),
    Tpl("hybrid.DHKEM_P256_HKDF_SHA256_HKDF_SHA256_AES_128_GCM_Raw_Key_Template", "Hpke", P_Hpke(P256, "AES_128_GCM", "NO_PREFIX")),
    Tpl("hybrid.DHKEM_P256_HKDF_SHA256_HKDF_SHA256_AES_256_GCM_Key_Template", "Hpke", P_Hpke(P256, "AES_256_GCM", "TINK")),
    Tpl("hybrid.DHKEM_P256_HKDF_SHA256_HKDF_SHA256_AES_256_GCM_Raw_Key_Template", "Hpke", P_Hpke(P256, "AES_256_GCM", "NO_PREFIX")),
    Tpl("hybrid.DHKEM_X25519_HKDF_SHA256_HKDF_SHA256_AES_128_GCM_Key_Template", "Hpke", P_Hpke(X25519K, "AES_128_GCM", "TINK")),
    Tpl("hybrid.DHKEM_X25519_HKDF_SHA256_HKDF_SHA256_AES_128_GCM_Raw_Key_Template", "Hpke", P_Hpke(X25519K, "AES_128_GCM", "NO_PREFIX")),
    Tpl("hybrid.DHKEM_X25519_HKDF_SHA256_HKDF_SHA256_AES_256_GCM_Key_Template", "Hpke", P_Hpke(X25519K, "AES_256_GCM", "TINK")),
    Tpl("hybrid.DHKEM_X25519_HKDF_SHA256_HKDF_SHA256_AES_256_GCM_Raw_Key_Template", "Hpke", P_Hpke(X25519K, "AES_256_GCM", "NO_PREFIX")),
    Tpl("hybrid.DHKEM_X25519_HKDF_SHA256_HKDF_SHA256_CHACHA20_POLY1305_Key_Template", "Hpke", P_Hpke(X25519K, "CHACHA20_POLY1305", "TINK")),
    Tpl("hybrid.DHKEM_X25519_HKDF_SHA256_HKDF_SHA256_CHACHA20_POLY1305_Raw_Key_Template", "Hpke", P_Hpke(X25519K, "CHACHA20_POLY1305", "NO_PREFIX")),
    Tpl("hybrid.ECIESHKDFAES128GCMKeyTemplate", "Ecies", P_Ecies("AES128_GCM_RAW")),
    Tpl("hybrid.ECIESHKDFAES128CTRHMACSHA256KeyTemplate", "Ecies", P_Ecies("AES128_CTR_HMAC_SHA256_RAW")),
    Tpl("jwt.HS256Template", "JwtHmac", P_JwtHmac("HS256", 32, Kid(FALSE))),
    Tpl("jwt.RawHS256Template", "JwtHmac", P_JwtHmac("HS256", 32, Kid(TRUE))),
    Tpl("jwt.HS384Template", "JwtHmac", P_JwtHmac("HS384", 48, Kid(FALSE))),
    Tpl("jwt.RawHS384Template", "JwtHmac", P_JwtHmac("HS384", 48, Kid(TRUE))),
    Tpl("jwt.HS512Template", "JwtHmac", P_JwtHmac("HS512", 64, Kid(FALSE))),
    Tpl("jwt.RawHS512Template", "JwtHmac", P_JwtHmac("HS512", 64, Kid(TRUE))),
    Tpl("jwt.ES256Template", "JwtEcdsa", P_JwtEc("ES256", Kid(FALSE))),
    Tpl("jwt.RawES256Template", "JwtEcdsa", P_JwtEc("ES256", Kid(TRUE))),
    Tpl("jwt.ES384Template", "JwtEcdsa", P_JwtEc("ES384", Kid(FALSE))),
    Tpl("jwt.RawES384Template", "JwtEcdsa", P_JwtEc("ES384", Kid(TRUE))),
    Tpl("jwt.ES512Template", "JwtEcdsa", P_JwtEc("ES512", Kid(FALSE))),
    Tpl("jwt.RawES512Template", "JwtEcdsa", P_JwtEc("ES512", Kid(TRUE))),
    Tpl("jwt.RS256_2048_F4_Key_Template", "JwtRsaSsaPkcs1", P_JwtRsa("RS256", 2048, Kid(FALSE))),
    Tpl("jwt.RawRS256_2048_F4_Key_Template", "JwtRsaSsaPkcs1", P_JwtRsa("RS256", 2048, Kid(TRUE))),
    Tpl("jwt.RS256_3072_F4_Key_Template", "JwtRsaSsaPkcs1", P_JwtRsa("RS256", 3072, Kid(FALSE))),
    Tpl("jwt.RawRS256_3072_F4_Key_Template", "JwtRsaSsaPkcs1", P_JwtRsa("RS256", 3072, Kid(TRUE))),
    Tpl("jwt.RS384_3072_F4_Key_Template", "JwtRsaSsaPkcs1", P_JwtRsa("RS384", 3072, Kid(FALSE))),
    Tpl("jwt.RawRS384_3072_F4_Key_Template", "JwtRsaSsaPkcs1", P_JwtRsa("RS384", 3072, Kid(TRUE))),
    Tpl("jwt.RS512_4096_F4_Key_Template", "JwtRsaSsaPkcs1", P_JwtRsa("RS512", 4096, Kid(FALSE))),
    Tpl("jwt.RawRS512_4096_F4_Key_Template", "JwtRsaSsaPkcs1", P_JwtRsa("RS512", 4096, Kid(TRUE))),
    Tpl("jwt.PS256_2048_F4_Key_Template", "JwtRsaSsaPss", P_JwtRsa("PS256", 2048, Kid(FALSE))),
    Tpl("jwt.RawPS256_2048_F4_Key_Template", "JwtRsaSsaPss", P_JwtRsa("PS256", 2048, Kid(TRUE))),
    Tpl("jwt.PS256_3072_F4_Key_Template", "JwtRsaSsaPss", P_JwtRsa("PS256", 3072, Kid(FALSE))),
    Tpl("jwt.RawPS256_3072_F4_Key_Template", "JwtRsaSsaPss", P_JwtRsa("PS256", 3072, Kid(TRUE))),
    Tpl("jwt.PS384_3072_F4_Key_Template", "JwtRsaSsaPss", P_JwtRsa("PS384", 3072, Kid(FALSE))),
    Tpl("jwt.RawPS384_3072_F4_Key_Template", "JwtRsaSsaPss", P_JwtRsa("PS384", 3072, Kid(TRUE))),
    Tpl("jwt.PS512_4096_F4_Key_Template", "JwtRsaSsaPss", P_JwtRsa("PS512", 4096, Kid(FALSE))),
    Tpl("jwt.RawPS512_4096_F4_Key_Template", "JwtRsaSsaPss", P_JwtRsa("PS512", 4096, Kid(TRUE))),
    \* the three template constructors with arguments, exercised with (kek uri "x03-kms://tpl/kek", aead.AES128GCMKeyTemplate())
    \* resp. (prf.HKDFSHA256PRFKeyTemplate(), aead.AES128GCMKeyTemplate())
    Tpl("aead.CreateKMSEnvelopeAEADKeyTemplate", "KmsEnvelopeAead", [dek |-> "AES128_GCM_TINK", variant |-> "NO_PREFIX"]),
    Tpl("aead.KMSEnvelopeAEADKeyTemplate", "KmsEnvelopeAead", [dek |-> "AES128_GCM_TINK", variant |-> "NO_PREFIX"]),
    Tpl("keyderivation.CreatePRFBasedKeyTemplate", "PrfBasedDeriver", [prf |-> "HKDF_SHA256_32", derived |-> "AES128_GCM_TINK"]) }
TemplateNames == {t.name : t \in TemplateTable}

\* what a template must say: the type URL new keys of the type are generated under, the output prefix type of the
\* variant, and every parameter at its documented place of the key format
DerivedVariantOf(d) ==
  CASE d \in {"AES128_GCM_TINK", "XCHACHA20_POLY1305_TINK", "AES256_SIV_TINK", "HMAC_SHA256_128BITTAG_TINK", "ED25519_TINK",
              "ECDSA_P256_TINK"} -> "TINK"
    [] d = "AES256_GCM_SIV_CRUNCHY" -> "CRUNCHY"
    [] OTHER -> "NO_PREFIX"
VariantOfP(T, p) ==
  IF "variant" \in DOMAIN p THEN p.variant
  ELSE IF "kidStrategy" \in DOMAIN p THEN p.kidStrategy
  ELSE IF T = "PrfBasedDeriver" THEN DerivedVariantOf(p.derived)
  ELSE "NO_PREFIX"
TemplateURL(T) == IF T = "KmsEnvelopeAead" THEN KmsEnvelopeURL ELSE TypeURL(T, TemplateKindOf(T))
TemplateMaterial(T) == IF T = "KmsEnvelopeAead" THEN "REMOTE" ELSE Material(T, TemplateKindOf(T))
TemplatePrefix(T, p) == PrefixOf(VariantOfP(T, p))
TemplateClass(T) == IF T = "KmsEnvelopeAead" THEN "AEAD" ELSE HandleClass(T, TemplateKindOf(T))

\* ================================================================== Part 4: the registries as state machines
\* ---- key managers: core/registry.  Registry!Apply is the map; a manager is [id, url] (TypeURL() = url), so
\* RegisterKeyManager(m) = Register(m.url, m).  On top of Get: NewKeyData / NewKey / Primitive(FromKeyData) look the
\* manager of the URL up and delegate -- the answer names the manager that served the call.
NoMgr == [id |-> "none", url |-> ""]
KmsSupportsPrefix(c, uri) == uri.under[c.id]             \* uri.under: client id -> does the client's prefix match
Reg == INSTANCE Registry WITH G <- {}, URL <- {}, MGR <- {}, CLIENT <- {}, URI <- {}, None <- NoMgr,
                             Supports <- KmsSupportsPrefix, reg <- <<>>, kms <- <<>>, pend <- <<>>, hist <- <<>>

\* one operation on the key-manager registry: <<reg', result>>; results are strings (a manager by its id)
RegStep(op, r) ==
  CASE op.op = "Register"   -> LET a == Reg!Apply([kind |-> "Register", url |-> op.mgr.url, mgr |-> op.mgr], r, <<>>) IN <<a[1], a[3]>>
    [] op.op = "Unregister" -> <<Reg!Apply([kind |-> "Unregister", url |-> op.url], r, <<>>)[1], "ok">>
    [] op.op \in {"Get", "NewKeyData", "NewKey", "Primitive", "PrimitiveFromKeyData"} ->
         <<r, IF r[op.url] = NoMgr THEN "err" ELSE r[op.url].id>>
\* the invariant of the map: whatever is bound under u says TypeURL() = u, i.e. supports u
RegSound(r) == \A u \in DOMAIN r : r[u] # NoMgr => ManagerSupports(r[u].url, u)

\* ---- KMS clients: a list; GetKMSClient = the first registered client whose Supported(uri) is true
\* (Registry!Apply's KmsRegister / KmsGet / KmsClear; the KMS envelope AEAD key manager's Primitive(key with kek uri)
\* asks GetKMSClient(uri) and then that client's GetAEAD(uri): "EnvelopePrimitive" names the client that was asked)
KmsStep(op, k) ==
  CASE op.op = "KmsRegister" -> <<Reg!Apply([kind |-> "KmsRegister", client |-> op.client], <<>>, k)[2], "ok">>
    [] op.op = "KmsClear"    -> <<Reg!Apply([kind |-> "KmsClear"], <<>>, k)[2], "ok">>
    [] op.op \in {"KmsGet", "EnvelopePrimitive"} ->
         LET c == Reg!Apply([kind |-> "KmsGet", uri |-> op.uri], <<>>, k)[3]
         IN <<k, IF c = NoMgr THEN "err" ELSE c.id>>

\* ---- configuration builder: internal/config.Builder / Config
\* state: [b : key type -> constructor or "none", cfgs : sequence of snapshots]
CfgStep(op, s) ==
  CASE op.op = "BRegister" -> IF s.b[op.k] = "none" THEN <<[s EXCEPT !.b[op.k] = op.c], "ok">> ELSE <<s, "exists">>
    [] op.op = "Build"     -> <<[s EXCEPT !.cfgs = Append(@, s.b)], "ok">>
    [] op.op = "Lookup"    -> <<s, IF op.i > Len(s.cfgs) THEN "nocfg"
                                  ELSE IF s.cfgs[op.i][op.k] = "none" THEN "err" ELSE s.cfgs[op.i][op.k]>>

\* ---- the internal global registries (one map each): primitive constructors ("prim": re-registering the SAME
\* constructor is accepted, a different one refused), key creators, key parsers, key serializers, parameters parsers
\* (any second registration refused).  Lookup of an unbound entry: an error -- except key parsers, where ParseKey
\* falls back to a FallbackProtoKey ("fallback").
GStep(which, op, m) ==
  CASE op.op = "GRegister" ->
         IF m[op.k] = "none" THEN <<[m EXCEPT ![op.k] = op.c], "ok">>
         ELSE IF which = "prim" /\ m[op.k] = op.c THEN <<m, "ok">> ELSE <<m, "exists">>
    [] op.op = "GUnregister" -> <<[m EXCEPT ![op.k] = "none"], "ok">>
    [] op.op = "GLookup" -> <<m, IF m[op.k] # "none" THEN m[op.k] ELSE IF which = "keyparser" THEN "fallback" ELSE "err">>

\* run a history: Step(op, state) = <<state', result>>; returns the sequence of results
Run(Step(_, _), ops, s0) ==
  FoldLeft(LAMBDA acc, op : LET a == Step(op, acc[1]) IN <<a[1], Append(acc[2], a[2])>>, <<s0, <<>>>>, ops)[2]

\* ================================================================== Part 5: the per-class configurations
ConfigClasses == {"aead", "daead", "hybrid", "jwtmac", "jwtsignature", "keyderivation", "mac", "prf", "signature",
                  "signprehash", "streamingaead"}
\* the key types internal/config/<class>config.V0 registers a primitive constructor for (as built: X-AES-GCM and
\* composite ML-DSA are in no V0 configuration)
ClassTypes(c) ==
  CASE c = "aead" -> {"AesGcm", "AesCtrHmac", "AesGcmSiv", "ChaCha20Poly1305", "XChaCha20Poly1305"}
    [] c = "daead" -> {"AesSiv"}
    [] c = "hybrid" -> {"Hpke", "Ecies"}
    [] c = "jwtmac" -> {"JwtHmac"}
    [] c = "jwtsignature" -> {"JwtEcdsa", "JwtRsaSsaPkcs1", "JwtRsaSsaPss", "JwtMlDsa"}
    [] c = "keyderivation" -> {"PrfBasedDeriver"}
    [] c = "mac" -> {"Hmac", "AesCmac"}
    [] c = "prf" -> {"HmacPrf", "HkdfPrf", "AesCmacPrf"}
    [] c = "signature" -> {"Ecdsa", "Ed25519", "RsaSsaPkcs1", "RsaSsaPss", "MlDsa", "SlhDsa"}
    [] c = "signprehash" -> {"MlDsa"}
    [] c = "streamingaead" -> {"AesGcmHkdfStreaming", "AesCtrHmacStreaming"}
\* PrimitiveFromKey(key of type T) on the V0 configuration of class c: resolves iff T is a type of the class
ConfigResolves(c, T) == T \in ClassTypes(c)
\* a usable parameter record of each key type (to build the key a configuration is asked about)
SampleParams(T) ==
  CASE T = "CompositeMlDsa" -> [classical |-> "ED25519", instance |-> "ML_DSA_65", variant |-> "TINK"]
    [] T = "PrfBasedDeriver" -> [prf |-> "HKDF_SHA256_32", derived |-> "AES128_GCM_TINK"]
    [] T \in {"RsaSsaPkcs1", "RsaSsaPss", "JwtRsaSsaPkcs1", "JwtRsaSsaPss"} ->
         CHOOSE p \in FormatGood(T, FALSE) : Usable(T, p) /\ p.modulusBits = 2048
    [] OTHER -> CHOOSE p \in FormatGood(T, FALSE) : Usable(T, p) /\ Interop(T, p, FALSE)
================================================================================
