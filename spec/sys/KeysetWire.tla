--------------------------------- MODULE KeysetWire ---------------------------------
(* X06.  The two serialized forms of a keyset AS A FORMAT: which octets / which JSON value     *)
(* stand for which keyset.  C12 (KeysetIO) says that write-then-read gives the keyset back and  *)
(* C14 (KeysetValidate) which keysets a handle refuses; neither says what is on the wire.       *)
(*                                                                                            *)
(* Sources.  keyset.NewBinaryReader/-Writer: "binary proto format"; keyset.NewJSONReader/       *)
(* -Writer: "json format"; the messages are those of proto/tink.proto (Keyset, Keyset.Key,      *)
(* KeyData, EncryptedKeyset, KeysetInfo, KeysetInfo.KeyInfo: field numbers, types, enum         *)
(* numbers are transcribed below).  "binary proto format" is the protobuf encoding              *)
(* (protobuf.dev/programming-guides/encoding), "json format" the ProtoJSON mapping of the same   *)
(* messages (protobuf.dev/programming-guides/json), as the examples in the godoc show it         *)
(* (mac_test.go Example: a keyset made by tinkey).  Nothing else documents the format; what the   *)
(* two protobuf documents leave to an implementation is AS BUILT here (see the notes below).      *)
(*                                                                                            *)
(* Values.                                                                                    *)
(*   u32      a key id: 4 octets, big-endian (TLC integers are 32 bit signed)                   *)
(*   enum     an integer (int32; open enums keep unknown numbers)                               *)
(*   KeyData  [has, url, value, kmt]     has = FALSE: the message field key_data is absent       *)
(*   Key      [kd, status, id, prefix]   Keyset [primary, keys]                                  *)
(*   KeyInfo  [url, status, id, prefix]  Info   [has, primary, infos]                            *)
(*   Enc      [enc, info]                an EncryptedKeyset                                       *)
(*                                                                                            *)
(* Layers.  varint <-> groups of 7 bits; wire fields [n, wt, v] <-> octets (WEnc / WParse);       *)
(* messages <-> wire fields (...Fields / Dec...);  JSON values (module JWKJson) <-> messages            *)
(* (EncodeJson... / DecodeJson...).  Every decoder answers [ok, v, notes, why]:  notes names what    *)
(* the input used beyond the canonical spelling, why the reason of a refusal.                     *)
EXTENDS JWKJson, FiniteSets

\* ================================================================== numbers
RECURSIVE WSum(_, _)
WSum(f, n) == IF n = 0 THEN 0 ELSE f[n] + WSum(f, n - 1)       \* f[1] + ... + f[n]

U32Zero == <<0, 0, 0, 0>>
U32Max  == <<255, 255, 255, 255>>
U32(n)  == BE(n, 4)                                             \* 0 <= n < 2^31
IsU32(b) == Len(b) = 4 /\ \A i \in 1..4 : b[i] \in 0..255

\* bit p (0 = least significant) of a big-endian octet string
BitOfBE(b, p) == LET q == p \div 8 IN IF q >= Len(b) THEN 0 ELSE (b[Len(b) - q] \div (2 ^ (p % 8))) % 2
\* bit p of a little-endian sequence of 7-bit groups
BitOfGroups(g, p) == LET q == p \div 7 IN IF q >= Len(g) THEN 0 ELSE (g[q + 1] \div (2 ^ (p % 7))) % 2

\* a varint is a sequence of 1..10 groups of 7 bits, least significant group first; minimal: no zero group at the end
StripGroups(g) ==
  LET nz == {i \in 1..Len(g) : g[i] # 0} IN
  IF nz = {} THEN <<0>> ELSE SubSeq(g, 1, CHOOSE i \in nz : \A j \in nz : j <= i)
GroupsOfBE(b) == StripGroups([k \in 1..10 |-> WSum([i \in 1..7 |-> BitOfBE(b, 7 * (k - 1) + i - 1) * (2 ^ (i - 1))], 7)])
RECURSIVE GroupsOfNat(_)
GroupsOfNat(x) == IF x < 128 THEN <<x>> ELSE <<x % 128>> \o GroupsOfNat(x \div 128)
\* an int32 (enum) is sign-extended to 64 bits
I32ToBE8(n) == IF n >= 0 THEN Zeros(4) \o BE(n, 4)
               ELSE LET m == (n + 2147483647) + 1 IN <<255, 255, 255, 255>> \o <<128 + (m \div 16777216)>> \o BE(m % 16777216, 3)
GroupsOfI32(n) == IF n >= 0 THEN GroupsOfNat(n) ELSE GroupsOfBE(I32ToBE8(n))
GroupsOfU32(b) == GroupsOfBE(b)

\* the 64-bit value of a varint, 8 octets big-endian; 32-bit fields keep the low 32 bits (protobuf encoding guide:
\* "if a value is parsed that is too large for the target type it is truncated as by a C++ cast")
U64OfGroups(g) == [j \in 1..8 |-> WSum([i \in 1..8 |-> BitOfGroups(g, 8 * (8 - j) + i - 1) * (2 ^ (i - 1))], 8)]
U32OfGroups(g) == IF Len(g) <= 4
                  THEN BE(WSum([i \in 1..Len(g) |-> g[i] * (128 ^ (i - 1))], Len(g)), 4)      \* below 2^28: the common case
                  ELSE LastN(U64OfGroups(g), 4)
I32OfBE4(b) == IF b[1] < 128 THEN BEToNat(b) ELSE (BEToNat(<<b[1] - 128, b[2], b[3], b[4]>>) - 2147483647) - 1
I32OfGroups(g) == I32OfBE4(U32OfGroups(g))
\* a length / a small natural; -1 when it does not fit 31 bits
NatOfGroups(g) == LET h == StripGroups(g) IN
  IF Len(h) <= 4 THEN WSum([i \in 1..Len(h) |-> h[i] * (128 ^ (i - 1))], Len(h))
  ELSE IF Len(h) = 5 /\ h[5] < 8 THEN WSum([i \in 1..4 |-> h[i] * (128 ^ (i - 1))], 4) + h[5] * 268435456
  ELSE -1

VarintBytes(g) == [i \in 1..Len(g) |-> IF i < Len(g) THEN g[i] + 128 ELSE g[i]]
PadGroups(g, k) == IF Len(g) + k > 10 THEN g \o Zeros(10 - Len(g)) ELSE g \o Zeros(k)     \* a non-minimal varint of the same value

\* ReadVarint(b, i): the varint that starts at position i: [ok, g, next].  At most 10 octets; the tenth carries bit 63 only.
ReadVarint(b, i) ==
  LET ends == {j \in i..Min(Len(b), i + 9) : b[j] < 128} IN
  IF ends = {} THEN [ok |-> FALSE, g |-> <<>>, next |-> i]
  ELSE LET j == CHOOSE j \in ends : \A k \in ends : j <= k IN
       IF j - i = 9 /\ b[j] > 1 THEN [ok |-> FALSE, g |-> <<>>, next |-> i]
       ELSE [ok |-> TRUE, g |-> [k \in 1..(j - i + 1) |-> b[i + k - 1] % 128], next |-> j + 1]

\* ================================================================== wire fields
\* wire types: 0 varint (v = groups), 1 fixed64 (v = 8 octets), 2 length-delimited (v = octets), 5 fixed32 (v = 4 octets),
\* 3 / 4 group start / end (deprecated; a parser skips a group it does not know: v = <<>>)
WF(n, wt, v) == [n |-> n, wt |-> wt, v |-> v]
WVar(n, g) == WF(n, 0, g)
WLen(n, b) == WF(n, 2, b)

MaxFieldNumber == 536870911
\* tag = (n << 3) | wt as groups, without computing n * 8 (n may need 29 bits)
TagGroups(n, wt) == IF n < 16 THEN <<n * 8 + wt>> ELSE <<((n % 16) * 8 + wt)>> \o GroupsOfNat(n \div 16)
TagNumber(g) == LET h == StripGroups(g) IN
  IF Len(h) > 5 \/ (Len(h) = 5 /\ h[5] >= 16) THEN -1
  ELSE (h[1] \div 8) + WSum([k \in 1..(Len(h) - 1) |-> h[k + 1] * 16 * (128 ^ (k - 1))], Len(h) - 1)

\* pad = number of zero groups added to every varint (tags, lengths, values): 0 is the canonical, minimal form
WEncField(f, pad) ==
  VarintBytes(PadGroups(TagGroups(f.n, f.wt), pad)) \o
  (CASE f.wt = 0 -> VarintBytes(PadGroups(f.v, pad))
     [] f.wt = 2 -> VarintBytes(PadGroups(GroupsOfNat(Len(f.v)), pad)) \o f.v
     [] f.wt = 3 -> f.v \o VarintBytes(PadGroups(TagGroups(f.n, 4), pad))      \* v = the encoded content of the group
     [] OTHER -> f.v)
RECURSIVE WEncP(_, _)
WEncP(fs, pad) == IF fs = <<>> THEN <<>> ELSE WEncField(Head(fs), pad) \o WEncP(Tail(fs), pad)
WEnc(fs) == WEncP(fs, 0)

WFail == [ok |-> FALSE, fs |-> <<>>, next |-> 0]
WCons(f, r) == IF r.ok THEN [ok |-> TRUE, fs |-> <<f>> \o r.fs, next |-> r.next] ELSE WFail
\* the fields of b from position i on, inside group number grp (0: not in a group)
RECURSIVE WParseFrom(_, _, _)
WParseFrom(b, i, grp) ==
  IF i > Len(b) THEN [ok |-> grp = 0, fs |-> <<>>, next |-> i]
  ELSE LET t == ReadVarint(b, i) IN
       IF ~t.ok THEN WFail
       ELSE LET wt == t.g[1] % 8
                n == TagNumber(t.g)
                p == t.next
            IN IF n < 1 THEN WFail                                                    \* field numbers are 1 .. 2^29 - 1
               ELSE CASE wt = 0 -> LET x == ReadVarint(b, p) IN IF ~x.ok THEN WFail ELSE WCons(WF(n, 0, x.g), WParseFrom(b, x.next, grp))
                      [] wt = 1 -> IF p + 7 > Len(b) THEN WFail ELSE WCons(WF(n, 1, SubSeq(b, p, p + 7)), WParseFrom(b, p + 8, grp))
                      [] wt = 5 -> IF p + 3 > Len(b) THEN WFail ELSE WCons(WF(n, 5, SubSeq(b, p, p + 3)), WParseFrom(b, p + 4, grp))
                      [] wt = 2 -> LET x == ReadVarint(b, p) IN
                                   IF ~x.ok THEN WFail
                                   ELSE LET len == NatOfGroups(x.g) IN
                                        IF len < 0 \/ len > Len(b) - x.next + 1 THEN WFail
                                        ELSE WCons(WF(n, 2, SubSeq(b, x.next, x.next + len - 1)), WParseFrom(b, x.next + len, grp))
                      [] wt = 3 -> LET inner == WParseFrom(b, p, n) IN
                                   IF ~inner.ok THEN WFail ELSE WCons(WF(n, 3, <<>>), WParseFrom(b, inner.next, grp))
                      [] wt = 4 -> IF grp = n THEN [ok |-> TRUE, fs |-> <<>>, next |-> p] ELSE WFail
                      [] OTHER -> WFail                                               \* wire types 6 and 7 do not exist
WParse(b) == WParseFrom(b, 1, 0)

\* proto3 reading rule.  Scalar: the LAST occurrence wins, absent = default.  Repeated: every occurrence, in order.
\* Singular message: the occurrences are merged, which is parsing their concatenation.
WOcc(fs, n, wt) == SelectSeq(fs, LAMBDA f : f.n = n /\ f.wt = wt)
WLastVar(fs, n) == LET o == WOcc(fs, n, 0) IN IF o = <<>> THEN <<0>> ELSE o[Len(o)].v
WLastLen(fs, n) == LET o == WOcc(fs, n, 2) IN IF o = <<>> THEN <<>> ELSE o[Len(o)].v
WAllLen(fs, n)  == LET o == WOcc(fs, n, 2) IN [i \in 1..Len(o) |-> o[i].v]

\* what an input used that is left to the implementation: a known field number with another wire type (taken as an
\* unknown field), a group
WNotes(fs, schema) ==
  (IF \E i \in 1..Len(fs) : (\E s \in schema : s[1] = fs[i].n) /\ <<fs[i].n, fs[i].wt>> \notin schema THEN {"wireTypeMismatch"} ELSE {})
  \cup (IF \E i \in 1..Len(fs) : fs[i].wt = 3 THEN {"group"} ELSE {})

\* proto3 string fields hold UTF-8 (RFC 3629: no overlong forms, no surrogates, at most U+10FFFF)
RECURSIVE UTF8From(_, _)
UTF8From(b, i) ==
  IF i > Len(b) THEN TRUE
  ELSE LET c == b[i]
           Cont(j) == j <= Len(b) /\ b[j] >= 128 /\ b[j] <= 191
       IN IF c < 128 THEN UTF8From(b, i + 1)
          ELSE IF c >= 194 /\ c <= 223 THEN Cont(i + 1) /\ UTF8From(b, i + 2)
          ELSE IF c >= 224 /\ c <= 239
            THEN /\ Cont(i + 1) /\ Cont(i + 2)
                 /\ (c = 224 => b[i + 1] >= 160) /\ (c = 237 => b[i + 1] <= 159)
                 /\ UTF8From(b, i + 3)
          ELSE IF c >= 240 /\ c <= 244
            THEN /\ Cont(i + 1) /\ Cont(i + 2) /\ Cont(i + 3)
                 /\ (c = 240 => b[i + 1] >= 144) /\ (c = 244 => b[i + 1] <= 143)
                 /\ UTF8From(b, i + 4)
          ELSE FALSE
UTF8OK(b) == UTF8From(b, 1)

\* ================================================================== results
Good(v, notes) == [ok |-> TRUE, v |-> v, notes |-> notes, why |-> ""]
Bad(why)       == [ok |-> FALSE, v |-> <<>>, notes |-> {}, why |-> why]
\* the first refusal of a sequence of results, or all values
AllGood(rs) == \A i \in 1..Len(rs) : rs[i].ok
FirstBad(rs) == rs[CHOOSE i \in 1..Len(rs) : ~rs[i].ok /\ \A j \in 1..(i - 1) : rs[j].ok]
NotesOf(rs) == UNION {rs[i].notes : i \in 1..Len(rs)}

\* ================================================================== tink.proto
\* enum KeyStatusType, OutputPrefixType, KeyData.KeyMaterialType (name, number)
StatusNames == <<"UNKNOWN_STATUS", "ENABLED", "DISABLED", "DESTROYED">>
PrefixNames == <<"UNKNOWN_PREFIX", "TINK", "LEGACY", "RAW", "CRUNCHY", "WITH_ID_REQUIREMENT">>
KmtNames    == <<"UNKNOWN_KEYMATERIAL", "SYMMETRIC", "ASYMMETRIC_PRIVATE", "ASYMMETRIC_PUBLIC", "REMOTE">>

NoKeyData == [has |-> FALSE, url |-> <<>>, value |-> <<>>, kmt |-> 0]
KeyData(url, value, kmt) == [has |-> TRUE, url |-> url, value |-> value, kmt |-> kmt]
Key(kd, status, id, prefix) == [kd |-> kd, status |-> status, id |-> id, prefix |-> prefix]
Keyset(primary, keys) == [primary |-> primary, keys |-> keys]
NoInfo == [has |-> FALSE, primary |-> U32Zero, infos |-> <<>>]
\* KeysetInfo of a keyset (tink.proto: "a safe Keyset that doesn't contain any actual key material ... fields are
\* copied from Keyset", "each KeyInfo is corresponding to a Key in the corresponding Keyset")
InfoOf(ks) == [has |-> TRUE, primary |-> ks.primary,
               infos |-> [i \in 1..Len(ks.keys) |-> [url |-> ks.keys[i].kd.url, status |-> ks.keys[i].status, id |-> ks.keys[i].id,
                                                     prefix |-> ks.keys[i].prefix]]]

\* field numbers and wire types
SchemaKeyData == {<<1, 2>>, <<2, 2>>, <<3, 0>>}                 \* type_url = 1, value = 2, key_material_type = 3
SchemaKey     == {<<1, 2>>, <<2, 0>>, <<3, 0>>, <<4, 0>>}       \* key_data = 1, status = 2, key_id = 3, output_prefix_type = 4
SchemaKeyset  == {<<1, 0>>, <<2, 2>>}                           \* primary_key_id = 1, key = 2
SchemaKeyInfo == {<<1, 2>>, <<2, 0>>, <<3, 0>>, <<4, 0>>}       \* type_url = 1, status = 2, key_id = 3, output_prefix_type = 4
SchemaInfo    == {<<1, 0>>, <<2, 2>>}                           \* primary_key_id = 1, key_info = 2
SchemaEnc     == {<<2, 2>>, <<3, 2>>}                           \* encrypted_keyset = 2, keyset_info = 3

\* ------------------------------------------------------------------ message -> wire fields.  explicit = FALSE is the proto3
\* serializer's rule (a scalar at its default is not written; a present message field is written even when empty);
\* explicit = TRUE writes the defaults too, which a parser has to read as the same message.  Fields in number order.
OptVar(n, g, explicit) == IF g = <<0>> /\ ~explicit THEN <<>> ELSE <<WVar(n, g)>>
OptLen(n, b, explicit) == IF b = <<>> /\ ~explicit THEN <<>> ELSE <<WLen(n, b)>>

KeyDataFields(kd, explicit) ==
  OptLen(1, kd.url, explicit) \o OptLen(2, kd.value, explicit) \o OptVar(3, GroupsOfI32(kd.kmt), explicit)
\* kdBytes: the encoded key_data (so that a caller can substitute another encoding of it)
KeyFieldsWith(k, kdBytes, explicit) ==
  (IF k.kd.has THEN <<WLen(1, kdBytes)>> ELSE <<>>) \o OptVar(2, GroupsOfI32(k.status), explicit)
  \o OptVar(3, GroupsOfU32(k.id), explicit) \o OptVar(4, GroupsOfI32(k.prefix), explicit)
KeysetFieldsWith(ks, keyBytes, explicit) ==
  OptVar(1, GroupsOfU32(ks.primary), explicit) \o [i \in 1..Len(ks.keys) |-> WLen(2, keyBytes[i])]
KeyInfoFields(ki, explicit) ==
  OptLen(1, ki.url, explicit) \o OptVar(2, GroupsOfI32(ki.status), explicit) \o OptVar(3, GroupsOfU32(ki.id), explicit)
  \o OptVar(4, GroupsOfI32(ki.prefix), explicit)
InfoFields(info, explicit) ==
  OptVar(1, GroupsOfU32(info.primary), explicit) \o [i \in 1..Len(info.infos) |-> WLen(2, WEnc(KeyInfoFields(info.infos[i], explicit)))]
EncFields(e, explicit) ==
  OptLen(2, e.enc, explicit) \o (IF e.info.has THEN <<WLen(3, WEnc(InfoFields(e.info, explicit)))>> ELSE <<>>)

KeyDataBytes(kd) == WEnc(KeyDataFields(kd, FALSE))
KeyBytes(k) == WEnc(KeyFieldsWith(k, KeyDataBytes(k.kd), FALSE))
\* Encode_bin: THE octets of a keyset / an encrypted keyset (canonical form)
EncodeBin(ks) == WEnc(KeysetFieldsWith(ks, [i \in 1..Len(ks.keys) |-> KeyBytes(ks.keys[i])], FALSE))
EncodeBinEnc(e) == WEnc(EncFields(e, FALSE))
EncodeBinInfo(info) == WEnc(InfoFields(info, FALSE))

\* ------------------------------------------------------------------ octets -> message
DecKeyData(b) ==
  LET p == WParse(b) IN
  IF ~p.ok THEN Bad("malformed")
  ELSE IF \E i \in 1..Len(p.fs) : p.fs[i].n = 1 /\ p.fs[i].wt = 2 /\ ~UTF8OK(p.fs[i].v) THEN Bad("utf8")
  ELSE Good(KeyData(WLastLen(p.fs, 1), WLastLen(p.fs, 2), I32OfGroups(WLastVar(p.fs, 3))), WNotes(p.fs, SchemaKeyData))

DecKey(b) ==
  LET p == WParse(b) IN
  IF ~p.ok THEN Bad("malformed")
  ELSE LET occ == WAllLen(p.fs, 1)
           each == [i \in 1..Len(occ) |-> DecKeyData(occ[i])]
       IN IF ~AllGood(each) THEN Bad(FirstBad(each).why)
          ELSE LET kd == IF occ = <<>> THEN Good(NoKeyData, {}) ELSE DecKeyData(Concat(occ)) IN
               Good(Key(kd.v, I32OfGroups(WLastVar(p.fs, 2)), U32OfGroups(WLastVar(p.fs, 3)), I32OfGroups(WLastVar(p.fs, 4))),
                    WNotes(p.fs, SchemaKey) \cup NotesOf(each))

\* Decode_bin
DecodeBin(b) ==
  LET p == WParse(b) IN
  IF ~p.ok THEN Bad("malformed")
  ELSE LET occ == WAllLen(p.fs, 2)
           keys == [i \in 1..Len(occ) |-> DecKey(occ[i])]
       IN IF ~AllGood(keys) THEN Bad(FirstBad(keys).why)
          ELSE Good(Keyset(U32OfGroups(WLastVar(p.fs, 1)), [i \in 1..Len(keys) |-> keys[i].v]), WNotes(p.fs, SchemaKeyset) \cup NotesOf(keys))

DecKeyInfo(b) ==
  LET p == WParse(b) IN
  IF ~p.ok THEN Bad("malformed")
  ELSE IF \E i \in 1..Len(p.fs) : p.fs[i].n = 1 /\ p.fs[i].wt = 2 /\ ~UTF8OK(p.fs[i].v) THEN Bad("utf8")
  ELSE Good([url |-> WLastLen(p.fs, 1), status |-> I32OfGroups(WLastVar(p.fs, 2)), id |-> U32OfGroups(WLastVar(p.fs, 3)),
             prefix |-> I32OfGroups(WLastVar(p.fs, 4))], WNotes(p.fs, SchemaKeyInfo))
DecodeBinInfo(b) ==
  LET p == WParse(b) IN
  IF ~p.ok THEN Bad("malformed")
  ELSE LET occ == WAllLen(p.fs, 2)
           kis == [i \in 1..Len(occ) |-> DecKeyInfo(occ[i])]
       IN IF ~AllGood(kis) THEN Bad(FirstBad(kis).why)
          ELSE Good([has |-> TRUE, primary |-> U32OfGroups(WLastVar(p.fs, 1)), infos |-> [i \in 1..Len(kis) |-> kis[i].v]],
                    WNotes(p.fs, SchemaInfo) \cup NotesOf(kis))
DecodeBinEnc(b) ==
  LET p == WParse(b) IN
  IF ~p.ok THEN Bad("malformed")
  ELSE LET occ == WAllLen(p.fs, 3)
           each == [i \in 1..Len(occ) |-> DecodeBinInfo(occ[i])]
       IN IF ~AllGood(each) THEN Bad(FirstBad(each).why)
          ELSE LET info == IF occ = <<>> THEN Good(NoInfo, {}) ELSE DecodeBinInfo(Concat(occ)) IN
               Good([enc |-> WLastLen(p.fs, 2), info |-> info.v], WNotes(p.fs, SchemaEnc) \cup NotesOf(each))

\* what is left to the implementation in the binary format (the encoding guide does not fix it): a reader that meets one of
\* these is expected to behave AS BUILT; everything else a reader does with well-formed octets is the documented rule
BinAsBuiltNotes == {"wireTypeMismatch", "group"}
BinAsBuiltWhy   == {"utf8"}

\* ================================================================== base64 (RFC 4648 sections 4 and 5)
B64StdAlphabet == StrToBytes("ABCDEFGHIJKLMNOPQRSTUVWXYZabcdefghijklmnopqrstuvwxyz0123456789+/")
B64UrlAlphabet == StrToBytes("ABCDEFGHIJKLMNOPQRSTUVWXYZabcdefghijklmnopqrstuvwxyz0123456789-_")
B64Value(c) == IF c >= 65 /\ c <= 90 THEN c - 65 ELSE IF c >= 97 /\ c <= 122 THEN c - 71 ELSE IF c >= 48 /\ c <= 57 THEN c + 4
               ELSE IF c \in {43, 45} THEN 62 ELSE IF c \in {47, 95} THEN 63 ELSE -1
\* n octets -> ceil(8n / 6) characters (character j carries bits 6j .. 6j+5, zero bits appended), then '=' up to a multiple of 4
B64Chars(b, alphabet) ==
  LET n == Len(b)
      At(q) == IF q + 1 <= n THEN b[q + 1] ELSE 0
      Ch(j) == LET o == 6 * j
                   q == o \div 8
                   r == o % 8
               IN alphabet[(((At(q) * 256 + At(q + 1)) \div (2 ^ (10 - r))) % 64) + 1]
  IN [j \in 1..((8 * n + 5) \div 6) |-> Ch(j - 1)]
B64Pad(s) == s \o Rep(61, (4 - (Len(s) % 4)) % 4)
B64Std(b) == B64Pad(B64Chars(b, B64StdAlphabet))            \* what a ProtoJSON serializer writes for a bytes field
B64StdNoPad(b) == B64Chars(b, B64StdAlphabet)
B64Url(b) == B64Pad(B64Chars(b, B64UrlAlphabet))
B64UrlNoPad(b) == B64Chars(b, B64UrlAlphabet)

\* ProtoJSON: "either standard or URL-safe base64 encoding with/without paddings are accepted"
B64Decode(s) ==
  LET eqs == {i \in 1..Len(s) : s[i] = 61}
      m == Len(s) - Cardinality(eqs)                             \* characters before the padding
      body == SubSeq(s, 1, m)
      V(q) == B64Value(body[q + 1])
      Oct(i) == LET o == 8 * i
                    q == o \div 6
                    r == o % 6
                IN ((V(q) * 64 + V(q + 1)) \div (2 ^ (4 - r))) % 256
      nOct == (6 * m) \div 8
      spare == (6 * m) % 8                                       \* bits of the last character that belong to no octet
  IN IF \E i \in eqs : i <= m THEN Bad("b64chars")                                          \* '=' inside
     ELSE IF \E i \in 1..m : B64Value(body[i]) < 0 THEN Bad("b64chars")
     ELSE IF (\E i \in 1..m : body[i] \in {43, 47}) /\ (\E i \in 1..m : body[i] \in {45, 95}) THEN Bad("b64mixed")
     ELSE IF m % 4 = 1 THEN Bad("b64length")
     ELSE IF eqs # {} /\ (Len(s) % 4 # 0 \/ Cardinality(eqs) > 2) THEN Bad("b64padding")
     ELSE Good([i \in 1..nOct |-> Oct(i - 1)],
               (IF \E i \in 1..m : body[i] \in {45, 95} THEN {"urlsafe"} ELSE {})
               \cup (IF eqs = {} /\ m % 4 # 0 THEN {"unpadded"} ELSE {})
               \cup (IF spare > 0 /\ V(m - 1) % (2 ^ spare) # 0 THEN {"trailingBits"} ELSE {}))

\* ================================================================== decimal numbers
IsDigit(c) == c >= 48 /\ c <= 57
\* u32 <-> decimal digits (octet codes), by long division / multiplication on the four octets
RECURSIVE DecOfBE(_)
DecOfBE(b) ==
  IF \A i \in 1..Len(b) : b[i] = 0 THEN <<>>
  ELSE LET RECURSIVE Div(_, _)                                       \* <<quotient octets, remainder>> of b / 10
           Div(i, rem) == IF i > Len(b) THEN <<<<>>, rem>>
                          ELSE LET cur == rem * 256 + b[i]
                                   rest == Div(i + 1, cur % 10)
                               IN <<<<cur \div 10>> \o rest[1], rest[2]>>
           d == Div(1, 0)
       IN DecOfBE(d[1]) \o <<48 + d[2]>>
DecimalOfU32(b) == IF b = U32Zero THEN <<48>> ELSE DecOfBE(b)
\* digits -> value as octets, or <<>> when it does not fit 32 bits
StripZeros(d) == LET nz == {i \in 1..Len(d) : d[i] # 48} IN IF nz = {} THEN <<48>> ELSE SubSeq(d, CHOOSE i \in nz : \A j \in nz : i <= j, Len(d))
U32Digits == StrToBytes("4294967295")
DigitsLeq(a, b) == Len(a) < Len(b) \/ (Len(a) = Len(b) /\ (a = b \/ BytesLess(a, b)))
U32OfDecimal(d0) ==
  LET d == StripZeros(d0) IN
  IF ~DigitsLeq(d, U32Digits) THEN <<>>
  ELSE LET RECURSIVE Acc(_, _)
           Acc(i, v) == IF i > Len(d) THEN v          \* v = 4 octets; v * 10 + digit with carries
                        ELSE LET x4 == v[4] * 10 + (d[i] - 48)
                                 x3 == v[3] * 10 + (x4 \div 256)
                                 x2 == v[2] * 10 + (x3 \div 256)
                                 x1 == v[1] * 10 + (x2 \div 256)
                             IN Acc(i + 1, <<x1 % 256, x2 % 256, x3 % 256, x4 % 256>>)
       IN Acc(1, U32Zero)

\* a JSON number (RFC 8259 section 6):  -? (0 | [1-9][0-9]*) (. [0-9]+)? ([eE] [+-]? [0-9]+)?   split into its parts
NumberParts(t) ==
  LET neg == Len(t) > 0 /\ t[1] = 45
      a == IF neg THEN 2 ELSE 1
      nonDigit == {i \in a..Len(t) : ~IsDigit(t[i])}
      e1 == IF nonDigit = {} THEN Len(t) + 1 ELSE CHOOSE i \in nonDigit : \A j \in nonDigit : i <= j
      int == SubSeq(t, a, e1 - 1)
      hasFrac == e1 <= Len(t) /\ t[e1] = 46
      nonDigit2 == {i \in (e1 + 1)..Len(t) : ~IsDigit(t[i])}
      e2 == IF ~hasFrac THEN e1 ELSE IF nonDigit2 = {} THEN Len(t) + 1 ELSE CHOOSE i \in nonDigit2 : \A j \in nonDigit2 : i <= j
      frac == IF hasFrac THEN SubSeq(t, e1 + 1, e2 - 1) ELSE <<>>
      hasExp == e2 <= Len(t) /\ t[e2] \in {69, 101}
      sgn == hasExp /\ e2 + 1 <= Len(t) /\ t[e2 + 1] \in {43, 45}
      expNeg == sgn /\ t[e2 + 1] = 45
      expDigits == IF hasExp THEN SubSeq(t, e2 + (IF sgn THEN 2 ELSE 1), Len(t)) ELSE <<>>
      ok == /\ int # <<>> /\ (Len(int) = 1 \/ int[1] # 48)
            /\ (hasFrac => frac # <<>>)
            /\ (hasExp => expDigits # <<>> /\ \A i \in 1..Len(expDigits) : IsDigit(expDigits[i]))
            /\ (~hasExp => e2 = Len(t) + 1)
  IN [ok |-> ok, neg |-> neg, int |-> int, frac |-> frac, plain |-> ok /\ ~neg /\ ~hasFrac /\ ~hasExp, integer |-> ok /\ ~hasFrac /\ ~hasExp,
      exp |-> IF ~hasExp \/ ~ok THEN 0 ELSE (IF Len(expDigits) > 3 THEN 1000 ELSE WSum([i \in 1..Len(expDigits) |-> (expDigits[i] - 48) * (10 ^ (Len(expDigits) - i))], Len(expDigits))) * (IF expNeg THEN -1 ELSE 1)]

\* the digits of the integer a number stands for, <<>> when it is not an integer (or absurdly long)
IntegerDigits(p) ==
  LET d == p.int \o p.frac
      shift == p.exp - Len(p.frac)
  IN IF shift >= 0 THEN (IF shift > 12 THEN (IF \A i \in 1..Len(d) : d[i] = 48 THEN <<48>> ELSE <<>>) ELSE StripZeros(d \o Rep(48, shift)))
     ELSE LET k == -shift
              dd == IF Len(d) <= k THEN Rep(48, k - Len(d) + 1) \o d ELSE d
          IN IF \E i \in (Len(dd) - k + 1)..Len(dd) : dd[i] # 48 THEN <<>> ELSE StripZeros(SubSeq(dd, 1, Len(dd) - k))

\* ================================================================== ProtoJSON
\* JSON names: lowerCamelCase of the field name; a parser also accepts the original name
NamesKeyset  == <<<<"primaryKeyId", "primary_key_id">>, <<"key", "key">>>>
NamesKey     == <<<<"keyData", "key_data">>, <<"status", "status">>, <<"keyId", "key_id">>, <<"outputPrefixType", "output_prefix_type">>>>
NamesKeyData == <<<<"typeUrl", "type_url">>, <<"value", "value">>, <<"keyMaterialType", "key_material_type">>>>
NamesEnc     == <<<<"encryptedKeyset", "encrypted_keyset">>, <<"keysetInfo", "keyset_info">>>>
NamesInfo    == <<<<"primaryKeyId", "primary_key_id">>, <<"keyInfo", "key_info">>>>
NamesKeyInfo == <<<<"typeUrl", "type_url">>, <<"status", "status">>, <<"keyId", "key_id">>, <<"outputPrefixType", "output_prefix_type">>>>

\* ------------------------------------------------------------------ message -> JSON value (what a ProtoJSON serializer writes;
\* AS BUILT: every field is written, also at its default (protojson EmitUnpopulated), an absent message as null, members in
\* field-number order)
JEnum(n, names) == IF n >= 0 /\ n < Len(names) THEN JS(names[n + 1]) ELSE JLit("num", ToString(n))    \* an unknown number stays a number
JU32(b) == [k |-> "num", t |-> DecimalOfU32(b)]
JBytes(b) == JStr(B64Std(b))
JsonKeyData(kd) == IF ~kd.has THEN JNull
                   ELSE JObj(<<JMem("typeUrl", JStr(kd.url)), JMem("value", JBytes(kd.value)), JMem("keyMaterialType", JEnum(kd.kmt, KmtNames))>>)
JsonKey(k) == JObj(<<JMem("keyData", JsonKeyData(k.kd)), JMem("status", JEnum(k.status, StatusNames)), JMem("keyId", JU32(k.id)),
                     JMem("outputPrefixType", JEnum(k.prefix, PrefixNames))>>)
\* Encode_json
EncodeJson(ks) == JObj(<<JMem("primaryKeyId", JU32(ks.primary)), JMem("key", JList([i \in 1..Len(ks.keys) |-> JsonKey(ks.keys[i])]))>>)
JsonKeyInfo(ki) == JObj(<<JMem("typeUrl", JStr(ki.url)), JMem("status", JEnum(ki.status, StatusNames)), JMem("keyId", JU32(ki.id)),
                          JMem("outputPrefixType", JEnum(ki.prefix, PrefixNames))>>)
JsonInfo(info) == IF ~info.has THEN JNull
                  ELSE JObj(<<JMem("primaryKeyId", JU32(info.primary)), JMem("keyInfo", JList([i \in 1..Len(info.infos) |-> JsonKeyInfo(info.infos[i])]))>>)
EncodeJsonEnc(e) == JObj(<<JMem("encryptedKeyset", JBytes(e.enc)), JMem("keysetInfo", JsonInfo(e.info))>>)

\* ------------------------------------------------------------------ JSON value -> message
\* the value of field #f of an object: [ok, v, notes] - absent when no member has one of its two names
JField(o, names, f) ==
  LET idx == {i \in 1..Len(o.m) : o.m[i].n \in {names[f][1], names[f][2]}} IN
  IF idx = {} THEN Good(JAbsent, {})
  ELSE IF Cardinality(idx) > 1 THEN Bad("duplicateMember")
  ELSE LET i == CHOOSE i \in idx : TRUE IN
       Good(o.m[i].v, IF o.m[i].n # names[f][1] THEN {"originalName"} ELSE {})
JUnknownMember(o, names) == \E i \in 1..Len(o.m) : \A f \in 1..Len(names) : o.m[i].n \notin {names[f][1], names[f][2]}

\* after: a decoder for the value of a present, non-null member
JWith(r, default, After(_)) ==
  IF ~r.ok THEN r
  ELSE IF r.v.k = "absent" THEN Good(default, r.notes)
  ELSE IF r.v.k = "null" THEN Good(default, r.notes \cup {"null"})             \* ProtoJSON: null is the default value
  ELSE LET a == After(r.v) IN IF a.ok THEN Good(a.v, a.notes \cup r.notes) ELSE a

DJNumberU32(text, inString) ==
  LET p == NumberParts(text) IN
  IF ~p.ok THEN Bad(IF inString THEN "numberString" ELSE "json")
  ELSE IF p.neg THEN (IF IntegerDigits(p) = <<48>> THEN Good(U32Zero, {"numberForm"} \cup (IF inString THEN {"numberString"} ELSE {})) ELSE Bad("range"))
  ELSE LET d == IntegerDigits(p) IN
       IF d = <<>> THEN Bad("range")                                              \* 1.5 is not an integer
       ELSE LET v == U32OfDecimal(d) IN
            IF v = <<>> THEN Bad("range")
            ELSE Good(v, (IF p.plain THEN {} ELSE {"numberForm"}) \cup (IF inString THEN {"numberString"} ELSE {}))
DJU32(v) == CASE v.k = "num" -> DJNumberU32(v.t, FALSE)
              [] v.k = "str" -> DJNumberU32(v.b, TRUE)
              [] OTHER -> Bad("kind")

NameIndex(s, names) == LET idx == {i \in 1..Len(names) : StrToBytes(names[i]) = s} IN IF idx = {} THEN -1 ELSE (CHOOSE i \in idx : TRUE) - 1
DJEnum(v, names) ==
  CASE v.k = "str" -> (LET n == NameIndex(v.b, names) IN IF n < 0 THEN Bad("enumName") ELSE Good(n, {}))
    [] v.k = "num" -> (LET p == NumberParts(v.t) IN
                       IF ~p.ok THEN Bad("json")
                       ELSE LET d == IntegerDigits(p) IN
                            IF d = <<>> \/ ~DigitsLeq(d, StrToBytes(IF p.neg THEN "2147483648" ELSE "2147483647")) THEN Bad("range")     \* not an int32
                            ELSE LET n == IF Len(d) = 10 /\ d = StrToBytes("2147483648") THEN 0
                                          ELSE WSum([i \in 1..Len(d) |-> (d[i] - 48) * (10 ^ (Len(d) - i))], Len(d))
                                 IN Good(IF Len(d) = 10 /\ d = StrToBytes("2147483648") THEN (-2147483647) - 1 ELSE IF p.neg THEN -n ELSE n,
                                         {"enumNumber"} \cup (IF p.integer THEN {} ELSE {"numberForm"})))
    [] OTHER -> Bad("kind")
DJBytes(v) == IF v.k = "str" THEN B64Decode(v.b) ELSE Bad("kind")
DJString(v) == IF v.k = "str" THEN Good(v.b, {}) ELSE Bad("kind")

DJObject(v, names, Fields(_)) ==
  IF v.k # "obj" THEN Bad("kind")
  ELSE IF JUnknownMember(v, names) THEN Bad("unknownMember")
  ELSE LET rs == Fields(v) IN IF AllGood(rs) THEN Good([i \in 1..Len(rs) |-> rs[i].v], NotesOf(rs)) ELSE Bad(FirstBad(rs).why)
DJList(v, Elem(_)) ==
  IF v.k # "list" THEN Bad("kind")
  ELSE IF \E i \in 1..Len(v.l) : v.l[i].k = "null" THEN Bad("nullElement")
  ELSE LET rs == [i \in 1..Len(v.l) |-> Elem(v.l[i])] IN
       IF AllGood(rs) THEN Good([i \in 1..Len(rs) |-> rs[i].v], NotesOf(rs)) ELSE Bad(FirstBad(rs).why)

DJKeyData(v) ==
  LET r == DJObject(v, NamesKeyData, LAMBDA o : <<JWith(JField(o, NamesKeyData, 1), <<>>, DJString),
                                                  JWith(JField(o, NamesKeyData, 2), <<>>, DJBytes),
                                                  JWith(JField(o, NamesKeyData, 3), 0, LAMBDA x : DJEnum(x, KmtNames))>>)
  IN IF r.ok THEN Good(KeyData(r.v[1], r.v[2], r.v[3]), r.notes) ELSE r
DJKey(v) ==
  LET r == DJObject(v, NamesKey, LAMBDA o : <<JWith(JField(o, NamesKey, 1), NoKeyData, DJKeyData),
                                              JWith(JField(o, NamesKey, 2), 0, LAMBDA x : DJEnum(x, StatusNames)),
                                              JWith(JField(o, NamesKey, 3), U32Zero, DJU32),
                                              JWith(JField(o, NamesKey, 4), 0, LAMBDA x : DJEnum(x, PrefixNames))>>)
  IN IF r.ok THEN Good(Key(r.v[1], r.v[2], r.v[3], r.v[4]), r.notes) ELSE r
\* Decode_json (of a JSON value; DecodeJsonText adds the text level)
DecodeJson(v) ==
  LET r == DJObject(v, NamesKeyset, LAMBDA o : <<JWith(JField(o, NamesKeyset, 1), U32Zero, DJU32),
                                                 JWith(JField(o, NamesKeyset, 2), <<>>, LAMBDA x : DJList(x, DJKey))>>)
  IN IF r.ok THEN Good(Keyset(r.v[1], r.v[2]), r.notes) ELSE r
DJKeyInfo(v) ==
  LET r == DJObject(v, NamesKeyInfo, LAMBDA o : <<JWith(JField(o, NamesKeyInfo, 1), <<>>, DJString),
                                                  JWith(JField(o, NamesKeyInfo, 2), 0, LAMBDA x : DJEnum(x, StatusNames)),
                                                  JWith(JField(o, NamesKeyInfo, 3), U32Zero, DJU32),
                                                  JWith(JField(o, NamesKeyInfo, 4), 0, LAMBDA x : DJEnum(x, PrefixNames))>>)
  IN IF r.ok THEN Good([url |-> r.v[1], status |-> r.v[2], id |-> r.v[3], prefix |-> r.v[4]], r.notes) ELSE r
DJInfo(v) ==
  LET r == DJObject(v, NamesInfo, LAMBDA o : <<JWith(JField(o, NamesInfo, 1), U32Zero, DJU32),
                                               JWith(JField(o, NamesInfo, 2), <<>>, LAMBDA x : DJList(x, DJKeyInfo))>>)
  IN IF r.ok THEN Good([has |-> TRUE, primary |-> r.v[1], infos |-> r.v[2]], r.notes) ELSE r
DecodeJsonEnc(v) ==
  LET r == DJObject(v, NamesEnc, LAMBDA o : <<JWith(JField(o, NamesEnc, 1), <<>>, DJBytes),
                                              JWith(JField(o, NamesEnc, 2), NoInfo, DJInfo)>>)
  IN IF r.ok THEN Good([enc |-> r.v[1], info |-> r.v[2]], r.notes) ELSE r

\* what Decode_json notes on a serializer's OWN spelling: null for an absent message, a number for an enum value without name
UnnamedEnums(ks) == \E i \in 1..Len(ks.keys) : LET k == ks.keys[i] IN
                      \/ k.status \notin 0..(Len(StatusNames) - 1) \/ k.prefix \notin 0..(Len(PrefixNames) - 1) \/ k.kd.kmt \notin 0..(Len(KmtNames) - 1)
UnnamedEnumsInfo(info) == \E i \in 1..Len(info.infos) : info.infos[i].status \notin 0..(Len(StatusNames) - 1) \/ info.infos[i].prefix \notin 0..(Len(PrefixNames) - 1)
SerializerNotes(unnamed) == {"null"} \cup (IF unnamed THEN {"enumNumber"} ELSE {})

\* the text level: only a JSON text (RFC 8259; shapes of JWKJson) stands for a value
DecodeJsonText(shape, v) == IF ~JIsJsonText(shape) THEN Bad("json") ELSE DecodeJson(v)
DecodeJsonEncText(shape, v) == IF ~JIsJsonText(shape) THEN Bad("json") ELSE DecodeJsonEnc(v)

\* Classes.  A value spelled as a serializer spells it - notes = {} - with members in any order, any of them left out
\* (absent = default) and insignificant white space is INSIDE the documented format, and so is a text that stands for
\* nothing under any reading (JsonDocWhy).  The alternatives a ProtoJSON PARSER has to accept (JsonParserNotes) and
\* what is left open (JsonAsBuilt...) are expectations about the implementation.
JsonParserNotes == {"originalName", "enumNumber", "urlsafe", "unpadded", "numberString", "null"}
JsonAsBuiltNotes == {"numberForm", "trailingBits"}
JsonDocWhy == {"json", "kind", "range", "enumName", "b64chars"}
JsonAsBuiltWhy == {"duplicateMember", "unknownMember", "nullElement", "numberString", "b64mixed", "b64length", "b64padding"}

\* ================================================================== the toy key-encryption AEAD of the harness
\* (an invertible framing, so that the specification can look inside an EncryptedKeyset the real code wrote)
ToyMagic == <<88, 48, 54, 33>>                                          \* "X06!"
ToySeal(pt, ad) == ToyMagic \o <<Len(ad)>> \o ad \o pt
ToyOpen(ct, ad) == LET h == ToyMagic \o <<Len(ad)>> \o ad IN
                   IF IsPrefixOf(h, ct) THEN [ok |-> TRUE, pt |-> Drop(ct, Len(h))] ELSE [ok |-> FALSE, pt |-> <<>>]
================================================================================
