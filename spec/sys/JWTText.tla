-------------------------------- MODULE JWTText --------------------------------
(* The JSON text of the abstract JOSE headers and claims sets of module JWT: the    *)
(* instantiation of a test case is part of the specification, not of the driver.    *)
(* Plan_JWT emits these octets; the driver only base64url-encodes, signs and        *)
(* concatenates them; Trace_JWT checks that the token it judges really carries the  *)
(* text of the abstract values it is judged by.                                     *)
(* String values of the model are plain ASCII without '"' and '\'.                   *)
EXTENDS JWT, Bytes, TLC

Txt(s) == StrToBytes(s)
Quoted(s) == <<34>> \o Txt(s) \o <<34>>

\* "other" values carry their JSON text; BADUTF8 is a JSON string holding the lone octet 0xFF
OtherText(j) == IF j = "BADUTF8" THEN <<34, 255, 34>> ELSE Txt(j)

\* NumericDate: ticks of half a second as a JSON number
AbsTickText(a) == ToString(a \div TicksPerSecond) \o (IF (a % TicksPerSecond) = 1 THEN ".5" ELSE "")
TickText(t) == IF t < 0 THEN "-" \o AbsTickText(0 - t) ELSE AbsTickText(t)
MaxTimeText == "253402300799"

RECURSIVE ValText(_)
ValText(x) ==
  CASE x.k = "str"   -> Quoted(x.v)
    [] x.k = "other" -> OtherText(x.j)
    [] x.k = "num"   -> Txt(TickText(x.t) \o (IF x.f = "dot0" THEN ".0" ELSE ""))
    [] x.k = "max"   -> Txt(MaxTimeText)
    [] x.k = "big"   -> Txt(x.j)
    [] x.k = "list"  -> LET RECURSIVE Items(_)
                            Items(i) == IF i > Len(x.l) THEN <<>>
                                        ELSE (IF i > 1 THEN <<44>> ELSE <<>>) \o ValText(x.l[i]) \o Items(i + 1)
                        IN <<91>> \o Items(1) \o <<93>>

\* a sequence of <<name, value>> pairs; absent values are left out
Members(ms, ws) ==
  LET present == SelectSeq(ms, LAMBDA m : m[2].k # "absent")
      sep == IF ws THEN Txt(" ,\r\n ") ELSE <<44>>
      col == IF ws THEN Txt(" : ") ELSE <<58>>
      RECURSIVE Go(_)
      Go(i) == IF i > Len(present) THEN <<>>
               ELSE (IF i > 1 THEN sep ELSE <<>>) \o Quoted(present[i][1]) \o col \o ValText(present[i][2])
                    \o Go(i + 1)
  IN Go(1)

\* json class -> text around the members
Wrap(json, body) ==
  CASE json = "object"    -> <<123>> \o body \o <<125>>
    [] json = "objectws"  -> Txt(" {\r\n ") \o body \o Txt(" }\n")
    [] json = "array"     -> <<91, 123>> \o body \o <<125, 93>>          \* [ {...} ]
    [] json = "malformed" -> <<123>> \o body                            \* closing brace missing
    [] json = "trailing"  -> <<123>> \o body \o <<125>> \o Txt("x")      \* garbage after the object
    [] json = "empty"     -> <<>>                                       \* no text at all

CritValue(c) == CASE c = "absent" -> Absent [] c = "list" -> Other("[\"exp\"]")
                  [] c = "empty" -> Other("[]") [] c = "null" -> Other("null")

HeaderText(h) ==
  Wrap(h.json, Members(<< <<"alg", h.alg>>, <<"kid", h.kid>>, <<"typ", h.typ>>, <<"crit", CritValue(h.crit)>>,
                         <<"x5", IF h.extra THEN Str("~~~") ELSE Absent>> >>, h.json = "objectws"))

ClaimsText(p) ==
  Wrap(p.json, Members(<< <<"iss", p.iss>>, <<"sub", p.sub>>, <<"aud", p.aud>>, <<"exp", p.exp>>,
                         <<"nbf", p.nbf>>, <<"iat", p.iat>>, <<"jti", p.jti>> >>
                       \o [i \in 1..Len(p.custom) |-> <<p.custom[i].n, Other(p.custom[i].j)>>],
                       p.json = "objectws"))
================================================================================
