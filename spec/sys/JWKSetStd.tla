-------------------------------- MODULE JWKSetStd --------------------------------
(* X01.  Module JWKSet bound to the real sizes: the NIST curves of RFC 7518 6.2.1.1  *)
(* (point validity decided by the JDK binding of the primitive layer, Prim!ECPointValid *)
(* on the uncompressed encoding 04 || X || Y) and Tink's 2048-bit RSA minimum.        *)
EXTENDS JWKJson, JWS, FiniteSets

StdCoordLen(crv) == CASE crv = "P-256" -> 32 [] crv = "P-384" -> 48 [] crv = "P-521" -> 66
StdCurveName(crv) == CASE crv = "P-256" -> "P256" [] crv = "P-384" -> "P384" [] crv = "P-521" -> "P521"
StdOnCurve(crv, x, y) == ECPointValid(StdCurveName(crv), <<4>> \o x \o y)

INSTANCE JWKSet WITH JwkCoordLen <- StdCoordLen, JwkOnCurve <- StdOnCurve, JwkMinModulusBits <- 2048
================================================================================
