------------------------------ MODULE EnvelopeFaults ------------------------------
(* KMS envelope encryption over a REMOTE key-encryption AEAD that misbehaves, as a state   *)
(* machine with fault sequences (growth check X07).                                        *)
(*                                                                                         *)
(* Code: aead/kms_envelope_aead.go (NewKMSEnvelopeAEAD2, NewKMSEnvelopeAEADWithContext,      *)
(* Encrypt/Decrypt[WithContext], parseEnvelope), aead/kms_envelope_aead_key_manager.go       *)
(* (KmsEnvelopeAeadKey resolved through registry.GetKMSClient / KMSClient.GetAEAD),          *)
(* aead/aead_key_templates.go (CreateKMSEnvelopeAEADKeyTemplate), tink/aead.go.              *)
(* The wire format  be32(|encDEK|) || encDEK || payload, its length bounds and the round     *)
(* trip are spec/algo/Envelope.tla (C01/C02); the KMS client LIST is spec/sys/Registry.tla   *)
(* (X03); DEK randomness is C20.  This module states what those do not: the interplay        *)
(* between ONE envelope AEAD and the remote AEAD it consults, call by call, when the remote   *)
(* answers with any of the behaviours below, over arbitrary histories.                       *)
(*                                                                                         *)
(* DOCUMENTED CONTRACT (godoc of the files above; the list the check is built on):           *)
(*  D1 "a data encryption key (DEK) is generated for each ciphertext.  The DEK is wrapped by  *)
(*     the remote KMS using the KEK and stored alongside the ciphertext"                     *)
(*     (CreateKMSEnvelopeAEADKeyTemplate):  Encrypt consults the remote exactly once, with a  *)
(*     FRESH DEK of the configured template (never one used before: nothing is cached), and   *)
(*     what the remote returned is what is stored in front of the payload; the payload is     *)
(*     encrypted under that very DEK.                                                        *)
(*  D2 "keyEncryptionAEAD is used to encrypt the DEK" (both constructors): the remote sees    *)
(*     the DEK / the encrypted DEK only -- exactly the encDEK bytes of the envelope on        *)
(*     Decrypt -- with EMPTY associated data; the caller's associated data is bound to the    *)
(*     payload (tink.AEAD: "Decrypt decrypts ciphertext with associatedData as associated     *)
(*     data ... verifies the authenticity and integrity of the associated data"), never sent   *)
(*     to the remote.                                                                        *)
(*  D3 tink.AEAD / Go error convention: a call either returns a result or an error.  When the  *)
(*     remote fails in a call, that call fails (FaultSurfaces) and returns no bytes            *)
(*     (NoPartialOutput); a remote that returns garbage instead of the DEK never makes         *)
(*     Decrypt return plaintext (tink.AEAD: "secure against adaptive chosen ciphertext          *)
(*     attacks").                                                                            *)
(*  D4 tink.AEADWithContext: "in each call a context.Context parameter is passed along":       *)
(*     the remote receives the caller's context (values, cancellation, deadline); a remote     *)
(*     that honours a cancelled / expired context fails, hence (D3) the call fails.            *)
(*  D5 The envelope AEAD is a value of (template, remote) ("represents an instance of KMS      *)
(*     Envelope AEAD that implements the tink.AEAD interface") with no per-call state: after   *)
(*     any failed call -- error or panic of the remote -- a later call over a healthy remote    *)
(*     with proper inputs succeeds (Recovery), and Decrypt of an intact envelope returns the   *)
(*     plaintext that was encrypted (C01).                                                   *)
(*  D6 "any other key template will be rejected" (both constructors, the key template): the     *)
(*     with-context constructor and the template function return an error, NewKMSEnvelopeAEAD2  *)
(*     returns an AEAD that "will always fail with this error".                               *)
(*  D7 "when you generate new keys with this template, Tink does not generate new key           *)
(*     material, but only creates a reference to the remote KEK": creating the keyset handle    *)
(*     consults no remote.                                                                   *)
(* OBSERVATIONS (what the code does where no comment speaks; coverage expectations only):      *)
(*  O1 inputs that parseEnvelope refuses (<= 4 bytes, encDEK length 0, > 4096, beyond the end)  *)
(*     fail BEFORE the remote is consulted: no remote call.  (That a remote call, if any, must  *)
(*     carry exactly the envelope's encDEK is D2; there being no encDEK, any call breaks D2.)   *)
(*  O2 a panic of the remote is not recovered: it propagates out of Encrypt/Decrypt.            *)
(*  O3 Encrypt fails when the remote returns an empty or a > 4096-byte encrypted DEK (after one  *)
(*     remote call); any other size is framed as is (a truncated wrapping yields an envelope     *)
(*     that no honest remote can open).                                                       *)
(*  O4 the envelope never inspects the context itself: with a cancelled context and a remote      *)
(*     that ignores it the call succeeds.  The remote's error is returned unchanged             *)
(*     (errors.Is(err, context.Canceled) holds) except behind aead.New's Decrypt, which          *)
(*     reports "decryption failed".                                                           *)
(*  O5 a DEK template of a supported key type whose format is invalid is accepted by both         *)
(*     constructors and the key template; Encrypt then fails before the remote is consulted,      *)
(*     Decrypt works.  (The key template's godoc promises an error for "invalid input" in the     *)
(*     uri or the dekTemplate; an empty URI and these templates are accepted: as built.)          *)
(*  O6 a KMSClient whose GetAEAD returns (nil, nil) yields a primitive whose calls panic;          *)
(*     GetAEAD is consulted once, when aead.New builds the primitive, never per call.            *)
(*                                                                                         *)
(* ABSTRACTION.  DEKs are numbered in the order of their generation (1 = the DEK of the          *)
(* envelope every scenario starts with).  An envelope is [form, dek]: form is what the remote     *)
(* returned as its encrypted DEK -- "ok" / "alt" (two different valid wrappings of the same       *)
(* DEK), "trunc" (a wrong-size wrapping nobody can open).  Plaintexts and associated data are      *)
(* not modelled; a Decrypt input says which stored envelope it is (or was derived from) and what   *)
(* was done to it.  Values:  arg <<"dek", d>> | <<"wrap", i>> | <<"foreign", 0>>;                 *)
(* ret <<"wrap", form>> | <<"dek", class>> | <<"err", "remote"|"ctx">> | <<"panic", "">>;          *)
(* out <<"none", 0>> | <<"env", i>> | <<"pt", i>> (<<"pt", 0>>: an empty plaintext) | <<"partial", 0>>. *)
EXTENDS Naturals, Sequences, FiniteSets

CONSTANT Fault     \* "none", or a fault class of the MECHANISM (each must break the invariant that states the clause)

Faults == {"none", "swallow", "retry", "cache-dek", "cache-unwrap", "ignore-ctx", "sticky", "partial", "ad-to-remote"}
ASSUME Fault \in Faults

VARIABLES cfg,     \* [variant, tmpl, client]: how the AEAD was made (constant during a scenario)
          store,   \* the envelopes produced so far (1 = the one the scenario starts with)
          ndek,    \* number of DEKs generated so far
          aux,     \* state that only a faulty mechanism has: [dek, wrap, sticky]
          last,    \* the last call: its label, the remote calls it made, its result
          n        \* number of calls so far
vars == <<cfg, store, ndek, aux, last, n>>

(* ------------------------------------------------------------------ configurations *)
Variants == {"2", "ctx", "keyset"}              \* NewKMSEnvelopeAEAD2 | NewKMSEnvelopeAEADWithContext | keyset + registry
Tmpls    == {"valid", "badformat", "unsupported"}
Clients  == {"-", "ok", "geterr", "nosupport", "nilaead"}   \* the registered KMSClient ("-": no registry involved)
Cfgs == {c \in [variant : Variants, tmpl : Tmpls, client : Clients] : (c.variant = "keyset") = (c.client # "-")}

\* what construction yields (D6, O5, O6): "ok" | "failing" (always fails) | "nilremote" | "none" (constructor error)
ObjOf(c) ==
  CASE c.variant = "2"   -> IF c.tmpl = "unsupported" THEN "failing" ELSE "ok"
    [] c.variant = "ctx" -> IF c.tmpl = "unsupported" THEN "none" ELSE "ok"
    [] OTHER -> IF c.tmpl = "unsupported" \/ c.client \in {"geterr", "nosupport"} THEN "none"
                ELSE IF c.client = "nilaead" THEN "nilremote" ELSE "ok"

\* the KMSClient calls of construction (keyset variant; O6): template, handle (D7: none), aead.New
ClientCalls(c) ==
  IF c.variant # "keyset" \/ c.tmpl = "unsupported" THEN <<>>
  ELSE IF c.client = "nosupport" THEN <<"Supported">> ELSE <<"Supported", "GetAEAD">>

(* ------------------------------------------------------------------ labels *)
EncBehs == {"ok", "alt", "slow", "err", "ctx", "empty", "big", "trunc", "panic"}
DecBehs == {"ok", "slow", "err", "ctx", "panic", "emptydek", "badlen", "junk", "wrongkey"}
CtxIgnoring == {"ok", "slow", "err"}             \* behaviours also exercised with a cancelled / expiring context
ReachKinds  == {"good", "wrongad", "nopayload", "foreign"}       \* parseEnvelope accepts the frame
RejectKinds == {"short", "zerolen", "toolong", "overrun"}        \* parseEnvelope refuses it
OpenableForms == {"ok", "alt"}

NoLab == [op |-> "-", beh |-> "-", ctx |-> "-", kind |-> "-", i |-> 0]
EncLab(b, x)       == [op |-> "Encrypt", beh |-> b, ctx |-> x, kind |-> "-", i |-> 0]
DecLab(b, x, k, i) == [op |-> "Decrypt", beh |-> b, ctx |-> x, kind |-> k, i |-> i]

\* (behaviour, context) pairs of a variant; cx = "all": every behaviour with a live context and the behaviours that
\* ignore / honour a context also with a cancelled and an expiring one; cx = "lite": live, plus the honouring
\* behaviour with a cancelled context
BehCtx(c, behs, cx) ==
  IF c.variant = "ctx"
  THEN {<<b, "live">> : b \in behs \ {"ctx"}} \cup
       (IF cx = "all" THEN {<<b, x>> : b \in behs \cap (CtxIgnoring \cup {"ctx"}), x \in {"cancelled", "expiring"}} \cup
                           {<<b, "live">> : b \in behs \cap {"ctx"}}
        ELSE {<<"ctx", "cancelled">>})
  ELSE {<<b, "none">> : b \in behs \ {"ctx"}}

LevelEnc(level) == CASE level = "full" -> EncBehs
                     [] level = "mid"  -> {"ok", "err", "ctx", "trunc", "empty", "panic"}
                     [] level = "core" -> {"ok", "err", "trunc", "panic"}
                     [] OTHER          -> {"ok", "err"}
LevelDec(level) == CASE level = "full" -> DecBehs
                     [] level = "mid"  -> {"ok", "err", "ctx", "wrongkey", "junk", "panic"}
                     [] level = "core" -> {"ok", "err", "wrongkey"}
                     [] OTHER          -> {"ok", "err"}
\* Decrypt inputs: <<kind, index>>; "first" = the envelope the scenario starts with, "last" = the newest
LevelInputs(level, st) ==
  LET lastI == IF Len(st) > 1 THEN {Len(st)} ELSE {}
  IN CASE level = "full" -> {<<"good", i>> : i \in {1} \cup lastI} \cup {<<"wrongad", i>> : i \in {1} \cup lastI}
                            \cup {<<"nopayload", 1>>, <<"foreign", 0>>} \cup {<<k, 1>> : k \in RejectKinds}
       [] level = "mid"  -> {<<"good", i>> : i \in {1} \cup lastI} \cup {<<"wrongad", 1>>, <<"foreign", 0>>, <<"short", 1>>, <<"toolong", 1>>}
       [] level = "core" -> {<<"good", i>> : i \in {1} \cup lastI} \cup {<<"short", 1>>}
       [] OTHER          -> {<<"good", Len(st)>>}

LevelCx(level) == IF level \in {"full", "mid"} THEN "all" ELSE "lite"
Labels(c, st, level) ==
  {EncLab(p[1], p[2]) : p \in BehCtx(c, LevelEnc(level), LevelCx(level))} \cup
  UNION {IF inp[1] \in RejectKinds
           THEN {DecLab("ok", IF c.variant = "ctx" THEN "live" ELSE "none", inp[1], inp[2])}
           ELSE {DecLab(p[1], p[2], inp[1], inp[2]) : p \in BehCtx(c, LevelDec(level), LevelCx(level))}
         : inp \in LevelInputs(level, st)}

(* ------------------------------------------------------------------ the remote *)
Call(op, arg, adEmpty, ctx, ret) == [op |-> op, arg |-> arg, adEmpty |-> adEmpty, ctx |-> ctx, ret |-> ret]

\* an honest remote: wraps any DEK; unwraps what it (or its other form) wrapped and nothing else
Honest(op, arg, st) ==
  IF op = "Encrypt" THEN <<"wrap", "ok">>
  ELSE IF arg[1] = "wrap" /\ st[arg[2]].form \in OpenableForms THEN <<"dek", "true">> ELSE <<"err", "remote">>

\* the answer to the FIRST remote call of an envelope call, given the behaviour scripted for that call and the
\* context the remote RECEIVES (any further remote call of the same envelope call is answered honestly)
RemoteRet(op, beh, ctxSeen, arg, st) ==
  CASE beh \in {"ok", "slow"}  -> Honest(op, arg, st)
    [] beh = "alt"             -> <<"wrap", "alt">>
    [] beh = "err"             -> <<"err", "remote">>
    [] beh = "ctx"             -> IF ctxSeen \in {"cancelled", "expiring"} THEN <<"err", "ctx">> ELSE Honest(op, arg, st)
    [] beh = "panic"           -> <<"panic", "">>
    [] beh \in {"empty", "big", "trunc"} -> <<"wrap", beh>>
    [] OTHER                   -> <<"dek", beh>>            \* emptydek, badlen, junk, wrongkey

RemoteFailed(ret) ==      \* the remote did not do its job in this call
  ret[1] \in {"err", "panic"} \/ (ret[1] = "wrap" /\ ret[2] \in {"empty", "big"}) \/ (ret[1] = "dek" /\ ret[2] # "true")

(* ------------------------------------------------------------------ the mechanism (shaped like the code) *)
NoOut == <<"none", 0>>
Res(calls, res, out, st, nd, ax) == [calls |-> calls, res |-> res, out |-> out, store |-> st, ndek |-> nd, aux |-> ax]
Ax(ax, f, v) == IF Fault = "none" THEN ax ELSE [ax EXCEPT ![f] = v]
PassedCtx(lab) == IF Fault = "ignore-ctx" /\ lab.ctx # "none" THEN "background" ELSE lab.ctx

EncryptStep(c, st, nd, ax, lab) ==
  IF ObjOf(c) = "failing" \/ (Fault = "sticky" /\ ax.sticky) THEN Res(<<>>, "err", NoOut, st, nd, ax)     \* a.err (D6)
  ELSE IF c.tmpl # "valid" THEN Res(<<>>, "err", NoOut, st, nd, ax)                                    \* newDEK fails (O5)
  ELSE IF ObjOf(c) = "nilremote" THEN Res(<<>>, "panic", NoOut, st, nd, ax)      \* O6 (the DEK generated before is never seen)
  ELSE
    LET d   == IF Fault = "cache-dek" /\ ax.dek # 0 THEN ax.dek ELSE nd + 1            \* newDEK(a.dekTemplate)
        nd2 == IF d > nd THEN d ELSE nd
        cx  == PassedCtx(lab)
        r1  == RemoteRet("Encrypt", lab.beh, cx, <<"dek", d>>, st)
        c1  == Call("Encrypt", <<"dek", d>>, Fault # "ad-to-remote", cx, r1)           \* a.kekAEAD.Encrypt(dek, []byte{})
        ax1 == Ax(ax, "dek", d)
    IN CASE r1[1] = "panic" -> Res(<<c1>>, "panic", NoOut, st, nd2, ax1)
         [] r1[1] = "err" ->
              IF Fault = "retry"
              THEN Res(<<c1, Call("Encrypt", <<"dek", d>>, TRUE, cx, <<"wrap", "ok">>)>>, "ok", <<"env", Len(st) + 1>>,
                       Append(st, [form |-> "ok", dek |-> d]), nd2, ax1)
              ELSE Res(<<c1>>, "err", NoOut, st, nd2, Ax(ax1, "sticky", TRUE))
         [] r1[2] \in {"empty", "big"} -> Res(<<c1>>, "err", NoOut, st, nd2, ax1)     \* O3
         [] OTHER -> Res(<<c1>>, "ok", <<"env", Len(st) + 1>>, Append(st, [form |-> r1[2], dek |-> d]), nd2, ax1)

\* the encrypted DEK of a Decrypt input (only for frames parseEnvelope accepts)
InputWrap(lab) == IF lab.kind = "foreign" THEN <<"foreign", 0>> ELSE <<"wrap", lab.i>>

DecryptStep(c, st, nd, ax, lab) ==
  IF ObjOf(c) = "failing" \/ (Fault = "sticky" /\ ax.sticky) THEN Res(<<>>, "err", NoOut, st, nd, ax)
  ELSE IF lab.kind \in RejectKinds THEN Res(<<>>, "err", NoOut, st, nd, ax)                             \* parseEnvelope (O1)
  ELSE IF ObjOf(c) = "nilremote" THEN Res(<<>>, "panic", NoOut, st, nd, ax)
  ELSE
    LET w   == InputWrap(lab)
        cx  == PassedCtx(lab)
        hit == Fault = "cache-unwrap" /\ ax.wrap = w /\ w[1] = "wrap"
        r1  == IF hit THEN <<"dek", "true">> ELSE RemoteRet("Decrypt", lab.beh, cx, w, st)
        cs  == IF hit THEN <<>> ELSE <<Call("Decrypt", w, Fault # "ad-to-remote", cx, r1)>>   \* a.kekAEAD.Decrypt(encDEK, []byte{})
        ax1 == IF r1 = <<"dek", "true">> THEN Ax(ax, "wrap", w) ELSE ax
    IN CASE r1[1] = "panic" -> Res(cs, "panic", NoOut, st, nd, ax1)
         [] r1[1] = "err" -> IF Fault = "swallow" THEN Res(cs, "ok", <<"pt", 0>>, st, nd, ax1)
                             ELSE Res(cs, "err", NoOut, st, nd, Ax(ax1, "sticky", TRUE))
         [] r1 = <<"dek", "true">> /\ lab.kind = "good" -> Res(cs, "ok", <<"pt", lab.i>>, st, nd, ax1)   \* decryptDataWithDEK
         [] OTHER -> Res(cs, "err", IF Fault = "partial" THEN <<"partial", 0>> ELSE NoOut, st, nd, ax1)   \* bad DEK / wrong AD / no payload

Step(c, st, nd, ax, lab) == IF lab.op = "Encrypt" THEN EncryptStep(c, st, nd, ax, lab) ELSE DecryptStep(c, st, nd, ax, lab)

(* ------------------------------------------------------------------ the state machine *)
NoAux == [dek |-> 0, wrap |-> <<"-", 0>>, sticky |-> FALSE]
Store0 == <<[form |-> "ok", dek |-> 1]>>
NoLast == [lab |-> NoLab, calls |-> <<>>, res |-> "-", out |-> NoOut, nd0 |-> 1, st0 |-> Store0]

InitWith(c) == cfg = c /\ store = Store0 /\ ndek = 1 /\ aux = NoAux /\ last = NoLast /\ n = 0
Init == \E c \in Cfgs : ObjOf(c) # "none" /\ InitWith(c)

Do(lab) ==
  LET r == Step(cfg, store, ndek, aux, lab)
  IN /\ store' = r.store /\ ndek' = r.ndek /\ aux' = r.aux /\ n' = n + 1
     /\ last' = [lab |-> lab, calls |-> r.calls, res |-> r.res, out |-> r.out, nd0 |-> ndek, st0 |-> store]
     /\ UNCHANGED cfg

Next == \E lab \in Labels(cfg, store, "full") : Do(lab)

(* ------------------------------------------------------------------ the contract *)
Called == last.lab.op # "-"
\* is the remote consulted at all in this call (O1, O5, D6)
Reaches(c, lab) ==
  ObjOf(c) = "ok" /\ (IF lab.op = "Encrypt" THEN c.tmpl = "valid" ELSE lab.kind \in ReachKinds)

\* a call over a remote that does its job, with proper inputs and a context that is not done (D5)
Healthy(c, st, lab) ==
  /\ ObjOf(c) = "ok"
  /\ lab.ctx \in {"none", "live"}
  /\ IF lab.op = "Encrypt" THEN c.tmpl = "valid" /\ lab.beh \in {"ok", "alt", "slow", "ctx"}
     ELSE lab.kind = "good" /\ st[lab.i].form \in OpenableForms /\ lab.beh \in {"ok", "slow", "ctx"}

TypeOK ==
  /\ cfg \in Cfgs /\ ndek \in Nat /\ n \in Nat
  /\ \A i \in DOMAIN store : store[i].form \in {"ok", "alt", "trunc"} /\ store[i].dek \in 1..ndek
  /\ last.res \in {"-", "ok", "err", "panic"}

\* D3: no success when the remote failed in that call
FaultSurfaces == Called /\ last.res = "ok" => \A k \in DOMAIN last.calls : ~RemoteFailed(last.calls[k].ret)

\* D3: an error (or a panic) comes with no bytes
NoPartialOutput == Called /\ last.res # "ok" => last.out = NoOut

\* D1/D2 + O1: exactly one remote call per envelope call that reaches the remote, none otherwise
RemoteCallAccounting == Called => Len(last.calls) = IF Reaches(cfg, last.lab) THEN 1 ELSE 0

\* D1/D2: what the remote is asked: the operation of the same name, the DEK / exactly the envelope's encDEK, empty AD
RemoteArguments ==
  Called => \A k \in DOMAIN last.calls :
    LET c == last.calls[k]
    IN /\ c.op = last.lab.op /\ c.adEmpty
       /\ IF c.op = "Encrypt" THEN c.arg[1] = "dek" ELSE c.arg = InputWrap(last.lab)

\* D1: the DEK handed to the remote was never used before (no DEK is cached across calls)
FreshDEK == Called /\ last.lab.op = "Encrypt" => \A k \in DOMAIN last.calls : last.calls[k].arg[2] > last.nd0

\* D1: a successful Encrypt stores what the remote returned next to a payload under the DEK the remote was given
EncryptStores ==
  Called /\ last.lab.op = "Encrypt" /\ last.res = "ok" =>
    /\ Len(last.calls) >= 1 /\ Len(store) = Len(last.st0) + 1 /\ last.out = <<"env", Len(store)>>
    /\ store[Len(store)] = [form |-> last.calls[Len(last.calls)].ret[2], dek |-> last.calls[1].arg[2]]

\* D3/D5: Decrypt returns plaintext only for an intact envelope with its own associated data, and then ITS plaintext
DecryptSound ==
  Called /\ last.lab.op = "Decrypt" /\ last.res = "ok" =>
    last.lab.kind = "good" /\ last.out = <<"pt", last.lab.i>> /\ last.st0[last.lab.i].form \in OpenableForms

\* D4: the remote receives the caller's context
ContextPassedAlong == Called => \A k \in DOMAIN last.calls : last.calls[k].ctx = last.lab.ctx

\* D5: whatever happened before, a healthy call succeeds
Recovery == Called /\ Healthy(cfg, last.st0, last.lab) => last.res = "ok"
\* ... the same as a property of steps
RecoveryStep == [][Healthy(cfg, store, last'.lab) => last'.res = "ok"]_vars

\* D5: the only thing a call leaves behind is the envelope it returned
NoHiddenState ==
  [][/\ ndek' >= ndek
     /\ \/ store' = store
        \/ last'.lab.op = "Encrypt" /\ last'.res = "ok" /\ Len(store') = Len(store) + 1 /\ SubSeq(store', 1, Len(store)) = store]_vars

Contract == /\ FaultSurfaces /\ NoPartialOutput /\ RemoteCallAccounting /\ RemoteArguments /\ FreshDEK
            /\ EncryptStores /\ DecryptSound /\ ContextPassedAlong /\ Recovery
================================================================================
