------------------------------- MODULE KeysetIO -------------------------------
(* Keyset handles and their external forms (keyset/handle.go, binary_io.go,            *)
(* json_io.go, insecurecleartextkeyset).                                               *)
(*                                                                                     *)
(*   Handle --Write(format, mode)--> Blob --Read(format', mode')--> Handle' | Fail      *)
(*                                                                                     *)
(* format in {binary, json}; mode in {cleartext, encrypted(kek, ad), noSecrets}.       *)
(* A handle is a sequence of entries [id, status, prefix, url, mat, primary, secret];  *)
(* `secret` stands for the key material (an opaque token), `mat` for the proto          *)
(* KeyMaterialType in {SYMMETRIC, PRIVATE, PUBLIC, REMOTE, UNKNOWN}.                    *)
(* The mechanism is modelled, not just the result: handle -> proto Keyset -> (AEAD     *)
(* encryption with associated data | no-secrets guard) -> framed by a writer; a reader   *)
(* of the other format cannot parse the bytes; reading re-validates the keyset.         *)
(*                                                                                     *)
(* Properties (checked by TLC in spec/mc/MC_KeysetIO and, on real code, by the trace    *)
(* specs Trace_KeysetIO / Trace_Secrets that reuse these operators):                    *)
(*   RoundTrip      a matching reader returns a handle with the same projection         *)
(*   NeverDifferent whatever reader is applied to whatever blob, a handle that comes    *)
(*                  out projects equal to the one that went in                          *)
(*   EncryptedOnlyWithSameKey  ReadEncrypted ok <=> kek' = kek /\ ad' == ad (nil == empty) *)
(*   PublicPreserves Public(h) keeps ids, statuses, primary, order, prefix types         *)
(*   NoSecretsAgree  the three *NoSecrets APIs succeed exactly for PUBLIC/REMOTE keysets *)
EXTENDS Integers, Sequences, FiniteSets

Formats == {"binary", "json"}
Statuses == {"ENABLED", "DISABLED", "DESTROYED"}
Materials == {"SYMMETRIC", "PRIVATE", "PUBLIC", "REMOTE", "UNKNOWN"}
\* failure of an operation that returns a handle is the empty sequence (a handle has at least one entry);
\* failure of a writer is the blob of kind "fail"
Fail == <<>>
IsFail(h) == h = <<>>
FailB == [kind |-> "fail", format |-> "none"]
IsFailB(b) == b.kind = "fail"

\* nil and empty associated data are the same associated data
AdNorm(ad) == IF ad = "nil" THEN "empty" ELSE ad

\* ------------------------------------------------------------------ handles
Project(h) == [i \in DOMAIN h |-> [id |-> h[i].id, status |-> h[i].status, prefix |-> h[i].prefix, url |-> h[i].url,
                                   primary |-> h[i].primary]]
Ids(h) == {h[i].id : i \in DOMAIN h}
\* what keyset.Validate / newFromEntries demand
WellFormed(h) ==
  /\ Len(h) >= 1
  /\ \A i, j \in DOMAIN h : i # j => h[i].id # h[j].id
  /\ Cardinality({i \in DOMAIN h : h[i].primary}) = 1
  /\ \A i \in DOMAIN h : h[i].primary => h[i].status = "ENABLED"

\* C13: a keyset may leave unencrypted only if every key is public or remote
NoSecretsOK(h) == \A i \in DOMAIN h : h[i].mat \in {"PUBLIC", "REMOTE"}

\* Public(): every key must be a private key; ids, statuses, primary, order and prefix survive
PublicUrl(url) == url \o "/public"
Public(h) ==
  IF \E i \in DOMAIN h : h[i].mat # "PRIVATE" THEN Fail
  ELSE [i \in DOMAIN h |-> [h[i] EXCEPT !.mat = "PUBLIC", !.url = PublicUrl(h[i].url), !.secret = 0]]

\* ------------------------------------------------------------------ proto keyset and info
ToProto(h) == [primaryKeyId |-> (CHOOSE i \in DOMAIN h : h[i].primary), keys |-> h]
\* keyset info: metadata only
InfoFields == {"typeUrl", "status", "keyId", "outputPrefixType", "primaryKeyId"}
Info(h) == [i \in DOMAIN h |-> [id |-> h[i].id, status |-> h[i].status, prefix |-> h[i].prefix, url |-> h[i].url]]

\* ------------------------------------------------------------------ writers
\* the key-encryption AEAD: opens only under the same key and the same (normalised) associated data
Seal(kek, ad, ks) == [kek |-> kek, ad |-> AdNorm(ad), pt |-> ks]
Open(kek, ad, ct) == IF ct.kek = kek /\ ct.ad = AdNorm(ad) THEN ct.pt ELSE Fail

\* mode: [m |-> "cleartext"] | [m |-> "noSecrets"] | [m |-> "encrypted", kek |-> k, ad |-> a]
\* the binary writer drops the keyset info of an encrypted keyset, the JSON writer keeps it
Write(h, format, mode) ==
  CASE mode.m = "cleartext" -> [format |-> format, kind |-> "keyset", ks |-> h]
    [] mode.m = "noSecrets" -> IF NoSecretsOK(h) THEN [format |-> format, kind |-> "keyset", ks |-> h] ELSE FailB
    [] mode.m = "encrypted" -> [format |-> format, kind |-> "encrypted", ct |-> Seal(mode.kek, mode.ad, h),
                                info |-> IF format = "json" THEN Info(h) ELSE <<>>]

\* what a blob reveals without the key-encryption key: for each key the set of secrets in the clear
Exposed(blob) == IF blob.kind # "keyset" THEN {} ELSE {blob.ks[i].secret : i \in DOMAIN blob.ks} \ {0}

\* ------------------------------------------------------------------ readers
\* a reader of the other format, or of the other message kind, cannot make sense of the bytes
Read(blob, format, mode) ==
  IF IsFailB(blob) \/ blob.format # format THEN Fail
  ELSE CASE mode.m = "cleartext" -> IF blob.kind = "keyset" /\ WellFormed(blob.ks) THEN blob.ks ELSE Fail
         [] mode.m = "noSecrets" -> IF blob.kind = "keyset" /\ WellFormed(blob.ks) /\ NoSecretsOK(blob.ks) THEN blob.ks ELSE Fail
         [] mode.m = "encrypted" ->
              IF blob.kind # "encrypted" THEN Fail
              ELSE LET ks == Open(mode.kek, mode.ad, blob.ct) IN IF IsFail(ks) \/ ~WellFormed(ks) THEN Fail ELSE ks

Matches(wformat, wmode, rformat, rmode) ==
  /\ wformat = rformat
  /\ \/ wmode.m = "cleartext" /\ rmode.m = "cleartext"
     \/ wmode.m = "noSecrets" /\ rmode.m \in {"noSecrets", "cleartext"}
     \/ wmode.m = "encrypted" /\ rmode.m = "encrypted" /\ rmode.kek = wmode.kek /\ AdNorm(rmode.ad) = AdNorm(wmode.ad)

\* ------------------------------------------------------------------ properties (as predicates over one experiment)
RoundTrip(h, wf, wm, rf, rm) ==
  (Matches(wf, wm, rf, rm) /\ ~IsFailB(Write(h, wf, wm))) =>
     LET h2 == Read(Write(h, wf, wm), rf, rm) IN
     IF rm.m = "noSecrets" /\ ~NoSecretsOK(h) THEN IsFail(h2) ELSE ~IsFail(h2) /\ Project(h2) = Project(h)
NeverDifferent(h, wf, wm, rf, rm) ==
  LET h2 == Read(Write(h, wf, wm), rf, rm) IN IsFail(h2) \/ Project(h2) = Project(h)
EncryptedOnlyWithSameKey(h, wf, wm, rm) ==
  (wm.m = "encrypted" /\ rm.m = "encrypted") =>
     (~IsFail(Read(Write(h, wf, wm), wf, rm)) <=> (rm.kek = wm.kek /\ AdNorm(rm.ad) = AdNorm(wm.ad)))
PublicPreserves(h) ==
  LET p == Public(h) IN
  IF IsFail(p) THEN \E i \in DOMAIN h : h[i].mat # "PRIVATE"
  ELSE /\ Len(p) = Len(h) /\ WellFormed(p) /\ NoSecretsOK(p)
       /\ \A i \in DOMAIN h : /\ p[i].id = h[i].id /\ p[i].status = h[i].status /\ p[i].primary = h[i].primary
                              /\ p[i].prefix = h[i].prefix /\ p[i].url = PublicUrl(h[i].url)
NoSecretsAgree(h, f) ==
  /\ IsFailB(Write(h, f, [m |-> "noSecrets"])) <=> ~NoSecretsOK(h)
  /\ IsFail(Read(Write(h, f, [m |-> "cleartext"]), f, [m |-> "noSecrets"])) <=> ~NoSecretsOK(h)
\* nothing leaves in the clear except through the cleartext writer, and an encrypted blob shows metadata only
NoLeak(h, f, wm) ==
  LET b == Write(h, f, wm) IN
  /\ (wm.m # "cleartext" => Exposed(b) = {})
  /\ (wm.m = "encrypted" /\ ~IsFailB(b) => \A i \in DOMAIN b.info : DOMAIN b.info[i] = {"id", "status", "prefix", "url"})
================================================================================
