---------------------------------- MODULE DER ----------------------------------
(* Strict DER (ITU-T X.690 sections 8.1.3, 8.3, 10.1) for the one type ECDSA     *)
(* signatures use (RFC 3279 section 2.2.3, SEC 1 C.5):                           *)
(*                                                                              *)
(*     ECDSA-Sig-Value ::= SEQUENCE { r INTEGER, s INTEGER }                    *)
(*                                                                              *)
(* ParseSig is a TOTAL function on byte strings: <<ok, r, s>>, r and s being the *)
(* unsigned big-endian magnitudes without leading zero bytes (0 is <<>>).        *)
(* Accepted is exactly the canonical encoding:                                   *)
(*   - definite lengths only; short form below 128, otherwise long form with the *)
(*     minimal number of length octets (X.690 10.1);                             *)
(*   - INTEGER contents non-empty and minimal (X.690 8.3.2): the first nine bits *)
(*     are neither all 0 nor all 1;                                              *)
(*   - r and s non-negative (a set sign bit is not a valid signature component); *)
(*   - nothing after s inside the SEQUENCE and nothing after the SEQUENCE.       *)
(* EncodeSig is the inverse; SigCanonical states that ParseSig accepts only what *)
(* EncodeSig produces (checked exhaustively on small strings by MC_DER).         *)
EXTENDS Bytes

TagSequence == 48   \* 0x30
TagInteger  == 2    \* 0x02

\* ---------------------------------------------------------------- lengths
\* Length octets starting at 0-based offset off: [ok, val, next].
DERLength(b, off) ==
  LET bad == [ok |-> FALSE, val |-> 0, next |-> 0] IN
  IF off >= Len(b) THEN bad
  ELSE LET f == b[off + 1] IN
    IF f < 128 THEN [ok |-> TRUE, val |-> f, next |-> off + 1]         \* short form
    ELSE LET k == f - 128 IN                                           \* long form, k length octets
      IF k = 0 THEN bad                                                \* indefinite length: BER only
      ELSE IF k > 3 THEN bad            \* >= 2^24 content octets: more than any input here holds
                                        \* (and a 4+-octet form of a smaller value is not minimal)
      ELSE IF off + 1 + k > Len(b) THEN bad
      ELSE IF b[off + 2] = 0 THEN bad                                  \* leading zero length octet
      ELSE LET v == BEToNat(Slice(b, off + 1, k)) IN
        IF v < 128 THEN bad                                            \* short form was required
        ELSE [ok |-> TRUE, val |-> v, next |-> off + 1 + k]

\* Minimal length octets of a value < 2^24.
EncodeLength(n) ==
  IF n < 128 THEN <<n>>
  ELSE IF n < 256 THEN <<129, n>>
  ELSE IF n < 65536 THEN <<130>> \o BE(n, 2)
  ELSE <<131>> \o BE(n, 3)

\* One tag-length-value at offset off with the given single-octet tag:
\* [ok, off (of the contents), len, next].
TLV(b, off, tag) ==
  LET bad == [ok |-> FALSE, off |-> 0, len |-> 0, next |-> 0] IN
  IF off >= Len(b) \/ b[off + 1] # tag THEN bad
  ELSE LET l == DERLength(b, off + 1) IN
    IF ~l.ok \/ l.next + l.val > Len(b) THEN bad
    ELSE [ok |-> TRUE, off |-> l.next, len |-> l.val, next |-> l.next + l.val]

\* ---------------------------------------------------------------- INTEGER
StripZeros(x) ==
  LET RECURSIVE S(_)
      S(y) == IF y # <<>> /\ y[1] = 0 THEN S(Tail(y)) ELSE y
  IN S(x)

\* Contents octets c of an INTEGER: minimal two's complement, and not negative.
IntContentsOK(c) ==
  /\ Len(c) >= 1
  /\ ~(Len(c) > 1 /\ c[1] = 0 /\ c[2] < 128)       \* redundant leading 0x00
  /\ ~(Len(c) > 1 /\ c[1] = 255 /\ c[2] >= 128)    \* redundant leading 0xff
  /\ c[1] < 128                                    \* sign bit clear

\* Non-negative INTEGER at offset off: [ok, val (magnitude), next].
ParseUInt(b, off) ==
  LET t == TLV(b, off, TagInteger) IN
  IF ~t.ok THEN [ok |-> FALSE, val |-> <<>>, next |-> 0]
  ELSE LET c == Slice(b, t.off, t.len) IN
    IF ~IntContentsOK(c) THEN [ok |-> FALSE, val |-> <<>>, next |-> 0]
    ELSE [ok |-> TRUE, val |-> StripZeros(c), next |-> t.next]

\* Canonical INTEGER of an unsigned magnitude (leading zeros of x are irrelevant).
EncodeUInt(x) ==
  LET m == StripZeros(x)
      c == IF m = <<>> THEN <<0>> ELSE IF m[1] >= 128 THEN <<0>> \o m ELSE m
  IN <<TagInteger>> \o EncodeLength(Len(c)) \o c

\* ---------------------------------------------------------------- ECDSA-Sig-Value
ParseSig(b) ==
  LET bad == <<FALSE, <<>>, <<>>>>
      seq == TLV(b, 0, TagSequence) IN
  IF ~seq.ok \/ seq.next # Len(b) THEN bad                 \* trailing data after the SEQUENCE
  ELSE LET body == Slice(b, seq.off, seq.len)
           r == ParseUInt(body, 0) IN
    IF ~r.ok THEN bad
    ELSE LET s == ParseUInt(body, r.next) IN
      IF ~s.ok \/ s.next # Len(body) THEN bad              \* trailing data inside the SEQUENCE
      ELSE <<TRUE, r.val, s.val>>

EncodeSig(r, s) ==
  LET body == EncodeUInt(r) \o EncodeUInt(s)
  IN <<TagSequence>> \o EncodeLength(Len(body)) \o body

\* DER is canonical: the only accepted string for (r, s) is EncodeSig(r, s).
SigCanonical(b) == LET p == ParseSig(b) IN p[1] => EncodeSig(p[2], p[3]) = b
SigRoundTrip(r, s) == ParseSig(EncodeSig(r, s)) = <<TRUE, StripZeros(r), StripZeros(s)>>
================================================================================
