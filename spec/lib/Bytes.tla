--------------------------------- MODULE Bytes ---------------------------------
(* Byte-string helpers shared by all construction modules.  A byte string is a   *)
(* sequence over 0..255.  Integers wider than 31 bits never appear as TLC ints:  *)
(* they are byte sequences.                                                      *)
EXTENDS Integers, Sequences, Prim

Min(a, b) == IF a < b THEN a ELSE b
Max(a, b) == IF a > b THEN a ELSE b

Zeros(n) == [i \in 1..n |-> 0]
Rep(x, n) == [i \in 1..n |-> x]
Take(s, n) == SubSeq(s, 1, Min(n, Len(s)))
Drop(s, n) == SubSeq(s, n + 1, Len(s))
LastN(s, n) == SubSeq(s, Len(s) - n + 1, Len(s))
Slice(s, off, n) == SubSeq(s, off + 1, off + n)       \* 0-based offset, length n

\* Byte-wise XOR of equal-length strings.  Definition; XorBytes (Prim) is its JDK-speed form.
XorByte(a, b) ==
  LET RECURSIVE X(_, _, _)
      X(x, y, w) == IF w = 0 THEN 0
                    ELSE (IF (x % 2) # (y % 2) THEN 1 ELSE 0) + 2 * X(x \div 2, y \div 2, w - 1)
  IN X(a, b, 8)
Xor(a, b) == XorBytes(a, b)
XorDef(a, b) == [i \in 1..Len(a) |-> XorByte(a[i], b[i])]

\* Big-endian / little-endian encodings of a natural < 2^31 on n bytes.
BE(x, n) == [i \in 1..n |-> (x \div (256 ^ (n - i))) % 256]
LE(x, n) == [i \in 1..n |-> (x \div (256 ^ (i - 1))) % 256]
\* 8-byte big-endian of a value < 2^31 (upper bytes zero).
BE64(x) == Zeros(4) \o BE(x, 4)
LE64(x) == LE(x, 4) \o Zeros(4)
\* Natural from big-endian bytes (must fit 31 bits).
RECURSIVE BEToNat(_)
BEToNat(b) == IF b = <<>> THEN 0 ELSE BEToNat(SubSeq(b, 1, Len(b) - 1)) * 256 + b[Len(b)]
RECURSIVE LEToNat(_)
LEToNat(b) == IF b = <<>> THEN 0 ELSE b[1] + 256 * LEToNat(Tail(b))

\* Number of bits as an 8-byte big-endian value: 8 * n where n < 2^28.
BitLenBE64(n) == BE64(8 * n)
BitLenLE64(n) == LE64(8 * n)

\* Shift a byte string left by one bit (big-endian bit order); result has the same length.
ShiftLeft1(b) ==
  [i \in 1..Len(b) |-> ((b[i] * 2) % 256) + (IF i < Len(b) /\ b[i + 1] >= 128 THEN 1 ELSE 0)]
\* Shift right by one bit (big-endian).
ShiftRight1(b) ==
  [i \in 1..Len(b) |-> (b[i] \div 2) + (IF i > 1 /\ b[i - 1] % 2 = 1 THEN 128 ELSE 0)]

IsBytes(b) == /\ b \in Seq(0..255)

\* Increment a big-endian counter held in the last n bytes of a block, modulo 2^(8n).
RECURSIVE IncBE(_)
IncBE(b) == IF b = <<>> THEN <<>>
            ELSE IF b[Len(b)] = 255 THEN IncBE(SubSeq(b, 1, Len(b) - 1)) \o <<0>>
            ELSE SubSeq(b, 1, Len(b) - 1) \o <<b[Len(b)] + 1>>
RECURSIVE IncLE(_)
IncLE(b) == IF b = <<>> THEN <<>>
            ELSE IF b[1] = 255 THEN <<0>> \o IncLE(Tail(b))
            ELSE <<b[1] + 1>> \o Tail(b)

\* Concatenate a sequence of byte strings.
RECURSIVE Concat(_)
Concat(ss) == IF ss = <<>> THEN <<>> ELSE Head(ss) \o Concat(Tail(ss))

IsPrefixOf(p, s) == Len(p) <= Len(s) /\ SubSeq(s, 1, Len(p)) = p
================================================================================
