------------------------------- MODULE DERShapes -------------------------------
(* A generative grammar of BER-like encodings of  SEQUENCE { INTEGER r, INTEGER s } *)
(* around the canonical DER one.  A shape fixes one choice at each of nine points;  *)
(* the all-default shape is EncodeSig(r, s), every other shape is a re-encoding an  *)
(* attacker or a lenient library might produce for the SAME (r, s):                 *)
(*   length form (SEQUENCE, r, s): min | long1 (0x81 n) | long2 | long3 | indef      *)
(*   integer padding (r, s):       none | zero (00 ..) | zero2 | ff | strip (first   *)
(*                                 contents octet dropped)                          *)
(*   tag (SEQUENCE, r, s):         ok | bad (SET / BIT STRING / OCTET STRING)        *)
(*   trailing data:                none | out (after the SEQUENCE) | in (inside)     *)
(* Used twice: MC_DER checks the strict parser against the encoder on every shape   *)
(* (exhaustive product), and Plan_Sig emits the shapes of a real signature, which   *)
(* the driver feeds to Tink's verifiers (direction specification -> code).          *)
EXTENDS DER

Forms  == {"min", "long1", "long2", "long3", "indef"}
Pads   == {"none", "zero", "zero2", "ff", "strip"}
Tags   == {"ok", "bad"}
Trails == {"none", "out", "in"}

Shapes == [qf : Forms, rf : Forms, sf : Forms, rp : Pads, sp : Pads, qt : Tags, rt : Tags, st : Tags, tr : Trails]

Default == [qf |-> "min", rf |-> "min", sf |-> "min", rp |-> "none", sp |-> "none",
            qt |-> "ok", rt |-> "ok", st |-> "ok", tr |-> "none"]

\* Number of points at which a shape leaves the canonical choice.
Deviations(sh) ==
  LET D(b) == IF b THEN 1 ELSE 0
  IN D(sh.qf # "min") + D(sh.rf # "min") + D(sh.sf # "min") + D(sh.rp # "none") + D(sh.sp # "none")
     + D(sh.qt # "ok") + D(sh.rt # "ok") + D(sh.st # "ok") + D(sh.tr # "none")

ShapesUpTo(k) == {sh \in Shapes : Deviations(sh) <= k}

\* tag || length || contents [|| end-of-contents] in the given length form (n < 2^16).
WithLength(tag, c, form) ==
  LET n == Len(c) IN
  CASE form = "min"   -> <<tag>> \o EncodeLength(n) \o c
    [] form = "long1" -> <<tag, 129, n % 256>> \o c
    [] form = "long2" -> <<tag, 130>> \o BE(n, 2) \o c
    [] form = "long3" -> <<tag, 131>> \o BE(n, 3) \o c
    [] form = "indef" -> <<tag, 128>> \o c \o <<0, 0>>

\* Contents octets of the INTEGER: the canonical ones, padded or stripped.
Contents(x, pad) ==
  LET m == StripZeros(x)
      c == IF m = <<>> THEN <<0>> ELSE IF m[1] >= 128 THEN <<0>> \o m ELSE m
  IN CASE pad = "none"  -> c
       [] pad = "zero"  -> <<0>> \o c
       [] pad = "zero2" -> <<0, 0>> \o c
       [] pad = "ff"    -> <<255>> \o c
       [] pad = "strip" -> Tail(c)

Build(sh, r, s) ==
  LET ri   == WithLength(IF sh.rt = "ok" THEN TagInteger ELSE 3, Contents(r, sh.rp), sh.rf)
      si   == WithLength(IF sh.st = "ok" THEN TagInteger ELSE 4, Contents(s, sh.sp), sh.sf)
      body == ri \o si \o (IF sh.tr = "in" THEN <<0>> ELSE <<>>)
  IN WithLength(IF sh.qt = "ok" THEN TagSequence ELSE 49, body, sh.qf)
     \o (IF sh.tr = "out" THEN <<0>> ELSE <<>>)

ShapeName(sh) ==
  sh.qf \o "," \o sh.rf \o "," \o sh.sf \o "|" \o sh.rp \o "," \o sh.sp \o "|" \o sh.qt \o "," \o sh.rt \o "," \o sh.st \o "|" \o sh.tr

\* What the strict parser must do with a shape of (r, s).
ShapeJudged(sh, r, s) ==
  LET b == Build(sh, r, s)
      p == ParseSig(b)
  IN /\ SigCanonical(b)                                      \* accepted => byte-identical to the canonical encoding of what it parsed
     /\ (b = EncodeSig(r, s) => p = <<TRUE, StripZeros(r), StripZeros(s)>>)
     /\ (p[1] /\ p[2] = StripZeros(r) /\ p[3] = StripZeros(s) => b = EncodeSig(r, s))
     /\ (sh = Default => b = EncodeSig(r, s))
================================================================================
