\* quick: <= 2 keys over the full per-key domain (ids 2, statuses 5, prefixes 7, data 5) + nil key
CONSTANTS
  ID = {1, 2}
  Fresh = 9
  MaxKeys = 2
  StatusMC = {"ENABLED", "DISABLED", "DESTROYED", "UNKNOWN_STATUS", "OOR"}
  PrefixMC = {"TINK", "LEGACY", "RAW", "CRUNCHY", "UNKNOWN_PREFIX", "WITH_ID_REQUIREMENT", "OOR"}
  DataMC = {"ok", "nil", "empty", "invalid", "unknownType"}
INIT Init
NEXT Next
VIEW View
INVARIANTS RuleIsCode ValidProjectsWellFormed NamedDefectsRejected RejectedHasReason SerializationNeutral EntryPointsSafe
PROPERTIES BreakingBreaks HarmlessKeeps
CHECK_DEADLOCK FALSE
