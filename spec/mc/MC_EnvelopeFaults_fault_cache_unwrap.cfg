CONSTANTS
  Fault = "cache-unwrap"
  MaxCalls = 3
INIT Init
NEXT MCNext
INVARIANTS TypeOK RemoteCallAccounting
CHECK_DEADLOCK FALSE
