CONSTANT MaxDev = 2
INIT Init
NEXT Next
INVARIANT Judged
INVARIANT Accepting
CHECK_DEADLOCK FALSE
