CONSTANTS
  MaxKeys = 2
  SharedMats = FALSE
  WithImpl = FALSE
INIT Init
NEXT Next
INVARIANT Reached
CHECK_DEADLOCK FALSE
