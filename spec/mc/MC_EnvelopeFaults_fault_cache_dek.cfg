CONSTANTS
  Fault = "cache-dek"
  MaxCalls = 3
INIT Init
NEXT MCNext
INVARIANTS TypeOK FreshDEK
CHECK_DEADLOCK FALSE
