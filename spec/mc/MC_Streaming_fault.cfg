\* persistent failures of the underlying writer and reader at every call index (no manipulation)
CONSTANTS
  P = 4
  T = 1
  Off = 3
  Hdr <- Hdr111
  MaxN = 10
  MaxChunk = 5
  SinkFails = {0,1,2,3,4,5,6,7}
  SrcFails = {0,1,2,3,4,5,6,7,8,9,10,11,12,13,14,15,16,17,18,19,20,21,22,23,24,25,26,27,28,29,30}
  ManipMode = "none"
  MaxAppend = 5
  MaxPermSegs = 4
  ReadModes = {"free"}
INIT MCInit
NEXT MCNext
VIEW View
INVARIANTS WriterCanonical RoundTrip TamperDetected FaultSurfaces
PROPERTIES ReadProgress
CHECK_DEADLOCK FALSE
