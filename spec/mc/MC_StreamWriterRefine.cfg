\* constants of MC_Streaming: noncebased alone, P=3, first segment 2, tag 1
CONSTANTS
  P = 3
  T = 1
  Off = 1
  Hdr <- HdrNone
  MaxN = 12
  MaxChunk = 5
  SinkFails = {0}
  SrcFails = {0}
  ManipMode = "none"
  MaxAppend = 0
  MaxPermSegs = 0
  ReadModes = {"free"}
  Nat <- MCNat
INIT MCInit
NEXT RefNext
VIEW View
INVARIANTS AbsInv AbsCanonical WriterCanonical
PROPERTY AbsSpec
CHECK_DEADLOCK FALSE
