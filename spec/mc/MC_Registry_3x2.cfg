CONSTANTS
  G = {1, 2, 3}
  URL = {"u"}
  MGR = {"m1", "m2"}
  CLIENT = {"c1", "c2"}
  URI = {"x"}
  None = "none"
  Supports <- McSupports
  MaxCalls = 2
  OpKinds = {"Register", "Get", "Unregister", "KmsRegister", "KmsGet", "KmsClear"}
INIT Init
NEXT McNext
VIEW SummaryView
INVARIANTS TypeOK AtMostOneRegistration
CHECK_DEADLOCK FALSE
