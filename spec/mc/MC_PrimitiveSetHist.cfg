CONSTANTS
  MaxEntries = 3
  ExtMax = 2
  HClasses = {"AEAD", "DAEAD", "MAC", "SIG", "HYBRID", "JWTMAC", "JWTSIG", "STREAM", "PRF"}
INIT Init
NEXT Next
CONSTRAINT Bound
VIEW View
INVARIANTS MechanismIsProperty HandlesWellFormed
CHECK_DEADLOCK FALSE
