--------------------------- MODULE MC_KeyManagerAPI ---------------------------
(* X03 (M): bounded exhaustive exploration of the registries of KeyManagerAPI.tla as ONE   *)
(* state machine: every history of up to MaxOps operations on                              *)
(*   the key-manager registry (RegisterKeyManager / UnregisterKeyManager / GetKeyManager /  *)
(*     NewKeyData / Primitive, two URLs, managers m1 m2 for u1 and m3 for u2),               *)
(*   the KMS client list (clients a, ab, c with nested URI prefixes "a/", "a/b/", "c/"),      *)
(*   a configuration builder with its built configurations,                                 *)
(*   one internal global registry (rule "prim": the same constructor twice is fine).         *)
(* The operations are exactly those Plan_KeyManagerAPI.tla replays on the real registries.   *)
(* Faults: FaultRegister = "any" makes Register bind a manager under every free URL (a        *)
(* registry that does not key by TypeURL()): LookupSupports must then fail (the invariant     *)
(* has teeth); FaultKms = "last" makes GetKMSClient return the last supporting client.        *)
EXTENDS KeyManagerAPI, TLC

CONSTANTS MaxOps, Parts, FaultRegister, FaultKms

URLs == {"u1", "u2"}
Mgrs == {[id |-> "m1", url |-> "u1"], [id |-> "m2", url |-> "u1"], [id |-> "m3", url |-> "u2"]}
Clients == {[id |-> "a", url |-> ""], [id |-> "ab", url |-> ""], [id |-> "c", url |-> ""]}
\* uri.under: which client's prefix matches ("a/" is a prefix of "a/b/")
Uris == {[name |-> "a/k",   under |-> [a |-> TRUE,  ab |-> FALSE, c |-> FALSE]],
         [name |-> "a/b/k", under |-> [a |-> TRUE,  ab |-> TRUE,  c |-> FALSE]],
         [name |-> "c/k",   under |-> [a |-> FALSE, ab |-> FALSE, c |-> TRUE]],
         [name |-> "z",     under |-> [a |-> FALSE, ab |-> FALSE, c |-> FALSE]]}
KTs == {"k1", "k2"}
Ctors == {"cA", "cB"}

RegOps == [op : {"Register"}, mgr : Mgrs] \cup [op : {"Unregister", "Get", "NewKeyData", "Primitive"}, url : URLs]
KmsOps == [op : {"KmsRegister"}, client : Clients] \cup [op : {"KmsClear"}] \cup [op : {"KmsGet", "EnvelopePrimitive"}, uri : Uris]
CfgOps == [op : {"BRegister"}, k : KTs, c : Ctors] \cup [op : {"Build"}] \cup [op : {"Lookup"}, i : 1..2, k : KTs]
GOps == [op : {"GRegister"}, k : {"k1"}, c : Ctors] \cup [op : {"GUnregister", "GLookup"}, k : {"k1"}]

VARIABLES reg, kms, cfg, g, hist
vars == <<reg, kms, cfg, g, hist>>

Init == /\ reg = [u \in URLs |-> NoMgr] /\ kms = <<>>
        /\ cfg = [b |-> [k \in KTs |-> "none"], cfgs |-> <<>>]
        /\ g = [k \in {"k1"} |-> "none"] /\ hist = <<>>

\* the faulty variants
FaultyRegStep(op, r) ==
  IF FaultRegister = "any" /\ op.op = "Register"
  THEN LET free == {u \in DOMAIN r : r[u] = NoMgr} IN
       IF free = {} THEN <<r, "exists">> ELSE <<[u \in DOMAIN r |-> IF u \in free THEN op.mgr ELSE r[u]], "ok">>
  ELSE RegStep(op, r)
FaultyKmsStep(op, k) ==
  IF FaultKms = "last" /\ op.op \in {"KmsGet", "EnvelopePrimitive"}
  THEN LET hits == {i \in DOMAIN k : op.uri.under[k[i].id]} IN
       <<k, IF hits = {} THEN "err" ELSE k[CHOOSE i \in hits : \A j \in hits : j <= i].id>>
  ELSE KmsStep(op, k)

Log(op, res) == hist' = Append(hist, [op |-> op, res |-> res])
Next ==
  /\ Len(hist) < MaxOps
  /\ \/ \E op \in RegOps : "reg" \in Parts /\ LET a == FaultyRegStep(op, reg) IN reg' = a[1] /\ Log(op, a[2]) /\ UNCHANGED <<kms, cfg, g>>
     \/ \E op \in KmsOps : "kms" \in Parts /\ LET a == FaultyKmsStep(op, kms) IN kms' = a[1] /\ Log(op, a[2]) /\ UNCHANGED <<reg, cfg, g>>
     \/ \E op \in CfgOps : "cfg" \in Parts /\ Len(cfg.cfgs) < 2 /\ LET a == CfgStep(op, cfg) IN cfg' = a[1] /\ Log(op, a[2]) /\ UNCHANGED <<reg, kms, g>>
     \/ \E op \in GOps : "g" \in Parts /\ LET a == GStep("prim", op, g) IN g' = a[1] /\ Log(op, a[2]) /\ UNCHANGED <<reg, kms, cfg>>

\* ------------------------------------------------------------------ invariants
\* a lookup never returns a manager that does not support the URL
LookupSupports == RegSound(reg)
LookupSupportsHist ==
  \A i \in DOMAIN hist : (hist[i].op.op \in {"Get", "NewKeyData", "Primitive"} /\ hist[i].res # "err") =>
     \E m \in Mgrs : m.id = hist[i].res /\ ManagerSupports(m.url, hist[i].op.url)
\* a lookup returns the manager of the EARLIEST successful registration of the URL since it was last unregistered
LastUnreg(i, u) == LET S == {j \in 1..(i - 1) : hist[j].op.op = "Unregister" /\ hist[j].op.url = u} IN
                   IF S = {} THEN 0 ELSE CHOOSE j \in S : \A k \in S : k <= j
RegsSince(i, u) == {j \in (LastUnreg(i, u) + 1)..(i - 1) : hist[j].op.op = "Register" /\ hist[j].op.mgr.url = u}
FirstRegistrationWins ==
  \A i \in DOMAIN hist : hist[i].op.op \in {"Get", "NewKeyData", "Primitive"} =>
     LET S == RegsSince(i, hist[i].op.url) IN
     IF S = {} THEN hist[i].res = "err"
     ELSE hist[i].res = hist[CHOOSE j \in S : \A k \in S : j <= k].op.mgr.id
\* exactly the first registration since the last unregistration succeeds, every later one is refused
OnlyFirstRegistrationSucceeds ==
  \A i \in DOMAIN hist : hist[i].op.op = "Register" =>
     (hist[i].res = "ok") = (RegsSince(i, hist[i].op.mgr.url) = {})
\* KMS: the answer supports the URI and no client registered earlier (since the last clear) does
LastClear(i) == LET S == {j \in 1..(i - 1) : hist[j].op.op = "KmsClear"} IN IF S = {} THEN 0 ELSE CHOOSE j \in S : \A k \in S : k <= j
KmsFirstSupporting ==
  \A i \in DOMAIN hist : hist[i].op.op \in {"KmsGet", "EnvelopePrimitive"} =>
     LET S == {j \in (LastClear(i) + 1)..(i - 1) : hist[j].op.op = "KmsRegister" /\ hist[i].op.uri.under[hist[j].op.client.id]} IN
     IF S = {} THEN hist[i].res = "err"
     ELSE hist[i].res = hist[CHOOSE j \in S : \A k \in S : j <= k].op.client.id
\* a built configuration is a snapshot: registrations after Build() do not show in it, and it answers with the
\* constructor of the first registration of the key type before it was built
BuildIndex(n) == CHOOSE j \in DOMAIN hist : hist[j].op.op = "Build" /\ Cardinality({k \in 1..j : hist[k].op.op = "Build"}) = n
ConfigIsSnapshot ==
  \A i \in DOMAIN hist : (hist[i].op.op = "Lookup" /\ hist[i].res # "nocfg") =>
     LET b == BuildIndex(hist[i].op.i)
         S == {j \in 1..(b - 1) : hist[j].op.op = "BRegister" /\ hist[j].op.k = hist[i].op.k} IN
     IF S = {} THEN hist[i].res = "err" ELSE hist[i].res = hist[CHOOSE j \in S : \A k \in S : j <= k].op.c
SnapshotsFrozen == [][\A i \in DOMAIN cfg.cfgs : cfg'.cfgs[i] = cfg.cfgs[i]]_vars
DuplicateConstructorRefused ==
  \A i \in DOMAIN hist : hist[i].op.op = "BRegister" =>
     (hist[i].res = "exists") = (\E j \in 1..(i - 1) : hist[j].op.op = "BRegister" /\ hist[j].op.k = hist[i].op.k)
TypeOK == /\ reg \in [URLs -> Mgrs \cup {NoMgr}] /\ kms \in Seq(Clients) /\ g \in [{"k1"} -> Ctors \cup {"none"}]
          /\ cfg.b \in [KTs -> Ctors \cup {"none"}]
================================================================================
