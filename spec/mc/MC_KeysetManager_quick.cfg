CONSTANTS
  ID = {1, 2, 3}
  Mgr = {1}
  NoReq = 0
  MaxEntries = 3
  MaxHandles = 1
  ExtMax = 1
INIT MCInit
NEXT Next
CONSTRAINT Bound
VIEW View
INVARIANTS TypeOK HandleWellFormed ManagerInv
PROPERTIES ErrLeavesUnchanged PrimaryProtected HandlesImmutable ManagersIsolated IdsStayUnavailable
CHECK_DEADLOCK FALSE
