CONSTANTS
  Fault = "logs-without-annotations"
  KeyIds = {"k1", "k2"}
  Statuses = {"ENABLED", "DISABLED"}
  MCClasses = {"AEAD"}
  MCAccessors = {"entryKey", "material", "write"}
  MaxKeys = 2
  MaxHandles = 1
  MaxMgrs = 0
  MaxPrims = 2
  MaxDid = 2
  MaxOpts = 1
  MCPublic = FALSE
INIT Init
NEXT MCNext
CONSTRAINT Bound
VIEW View
INVARIANTS TypeOK NoAnnotationsNoMonitoring LoggerPerFunction EveryCallAccountedOnce LogsNameEnabledKeys FailureNamesNoKey KeyExportsAccounted PublicDropsAnnotations
CHECK_DEADLOCK FALSE
