------------------------------ MODULE MC_KeysetWire ------------------------------
(* X06 (M): theorems of the format specification KeysetWire, checked by TLC on small keysets    *)
(* and on every short octet string.  One state per keyset / per octet-string block; the          *)
(* invariant Theorems is the conjunction of the statements below for that state.                 *)
(*                                                                                             *)
(*  RoundTripBin    Decode_bin(Encode_bin(ks)) = ks, nothing noted                                *)
(*  RoundTripJson   Decode_json(Encode_json(ks)) = ks, spelled as a serializer spells             *)
(*  SpellingsBin    defaults written, varints padded, every field order per level, unknown         *)
(*                  fields of every wire type, key_data in two pieces: the same keyset;            *)
(*                  every order of the top-level fields: the keys in the order they come           *)
(*  SpellingsJson   members left out at their default, every member order per level, all           *)
(*                  combinations of the parser alternatives, with white space: the same keyset;     *)
(*                  unknown / duplicate members and texts that are not JSON: no keyset              *)
(*  NormalForm      whatever Decode accepts, Encode of the result is not longer (binary), decodes   *)
(*                  to the same value with nothing noted, and the JSON and binary forms of it        *)
(*                  agree (what one format can say the other can say)                               *)
(*  Total           Decode_bin / Decode_bin_enc are defined on every octet string (TLC evaluates)    *)
(*  AgreesWithC12   on messages of varint / length-delimited fields the wire parser gives the         *)
(*                  fields C12's independent decoder (KeyFormatWire) gives                          *)
EXTENDS KeysetWireCases

CONSTANT Size                         \* "quick" | "full"
Full == Size = "full"
KFW == INSTANCE KeyFormatWire

\* ------------------------------------------------------------------ the small keysets
MCIds == IF Full THEN {U32Zero, U32(1), U32(128), U32Max} ELSE {U32Zero, U32(128), U32Max}
MCEnums == IF Full THEN {0, 1, -1} ELSE {0, 1}
MCKeyData == {NoKeyData, KeyData(<<>>, <<>>, 0), KeyData(S("t"), <<1>>, 1), KeyData(S("t"), <<251, 255>>, 3)}
                \cup (IF Full THEN {KeyData(<<116, 195, 169>>, <<1, 2, 3, 4>>, 7)} ELSE {})
MCKeys == {Key(kd, st, id, pf) : kd \in MCKeyData, st \in MCEnums, id \in MCIds, pf \in {0, 3}}
MCPair == <<Key(KeyData(S("t"), <<1>>, 1), 1, U32(5), 1), Key(NoKeyData, 0, U32Zero, 0), Key(KeyData(S("u"), <<251, 255, 254>>, 4), 3, U32Max, 4),
            Key(KeyData(<<>>, <<>>, 0), 2, U32(300), 2)>>
MCKeysets ==
  UNION {{Keyset(p, <<k>>) : p \in {U32Zero, k.id}} : k \in MCKeys}
  \cup {Keyset(MCPair[i].id, <<MCPair[i], MCPair[j]>>) : i, j \in 1..4}
  \cup {Keyset(U32(5), <<MCPair[1], MCPair[2], MCPair[3]>>), Keyset(U32Max, <<MCPair[3], MCPair[3], MCPair[4]>>)}
  \cup {Keyset(U32Zero, <<>>), Keyset(U32(7), <<>>)}
KeysetSeq == SetToSeq(MCKeysets)
SmallLen == IF Full THEN 5 ELSE 3
AlphabetSeq == SetToSeq(SmallAlphabet)

\* ------------------------------------------------------------------ theorems about one keyset
SameBag(s, t) == /\ Len(s) = Len(t)
                 /\ \A i \in 1..Len(s) : Cardinality({j \in 1..Len(s) : s[j] = s[i]}) = Cardinality({j \in 1..Len(t) : t[j] = s[i]})
SameLabsBin == {"canon", "explicit", "pad", "padExplicit", "permKey", "permKeyData", "unknownTop", "unknownKey", "unknownKeyData", "split"}
CleanLabsBin == {"canon", "explicit", "pad", "padExplicit", "permTop", "permKey", "permKeyData", "permAll", "split"}
SameLabsJson == {"canon", "omitDefaults", "alternatives", "permTop", "permKey", "permKeyData"}

RoundTripBin(ks) == DecodeBin(EncodeBin(ks)) = Good(ks, {})
RoundTripJson(ks) == LET d == DecodeJson(EncodeJson(ks)) IN d.ok /\ d.v = ks /\ d.notes \subseteq SerializerNotes(UnnamedEnums(ks))
NormalFormBin(d, b) == d.ok => LET c == EncodeBin(d.v) IN Len(c) <= Len(b) /\ DecodeBin(c) = Good(d.v, {})
CrossFormat(v) == DecodeBin(EncodeBin(v)) = Good(v, {}) /\ DecodeJson(EncodeJson(v)).ok /\ DecodeJson(EncodeJson(v)).v = v

SpellingsBin(ks) ==
  \A v \in BinVariants(ks) :
    LET d == DecodeBin(v.b) IN
    /\ v.lab \in SameLabsBin => d.ok /\ d.v = ks
    /\ v.lab \in CleanLabsBin => d.ok /\ d.notes = {}
    /\ v.lab = "permTop" => d.v.primary = ks.primary /\ SameBag(d.v.keys, ks.keys)
    /\ v.lab = "permAll" => d.v = Keyset(ks.primary, Reverse(ks.keys))
    /\ (v.lab = "wireType" /\ v.b # EncodeBin(ks)) => d.ok /\ "wireTypeMismatch" \in d.notes
    /\ (v.lab = "cut" /\ d.ok) => \E n \in 0..Len(ks.keys) : d.v.keys = SubSeq(ks.keys, 1, n)       \* a cut at a field boundary: a prefix of the keys
    /\ NormalFormBin(d, v.b)
    /\ d.ok => CrossFormat(d.v)

SpellingsJson(ks) ==
  \A v \in JsonVariants(ks) :
    LET d == DecodeJsonText(v.shape, v.v) IN
    /\ ~JIsJsonText(v.shape) => ~d.ok /\ d.why = "json"
    /\ (v.lab \in SameLabsJson /\ JIsJsonText(v.shape)) => d.ok /\ d.v = ks
    /\ (v.lab \in SameLabsJson \ {"alternatives"} /\ JIsJsonText(v.shape)) => d.notes \subseteq SerializerNotes(UnnamedEnums(ks))
    /\ v.lab = "alternatives" => d.notes \subseteq JsonParserNotes
    /\ v.lab \in {"unknownTop", "unknownKey", "unknownKeyData"} => ~d.ok /\ d.why = "unknownMember"
    /\ v.lab \in {"duplicateTop", "duplicateKey", "duplicateKeyData"} => ~d.ok /\ d.why = "duplicateMember"
    /\ d.ok => d.notes \subseteq (JsonParserNotes \cup JsonAsBuiltNotes)
    /\ ~d.ok => d.why \in (JsonDocWhy \cup JsonAsBuiltWhy)
    /\ d.ok => CrossFormat(d.v)

\* the encrypted envelope of the keyset
EnvelopeTheorems(ks) ==
  \A e \in EncValues(ks) :
    /\ DecodeBinEnc(EncodeBinEnc(e)) = Good(e, {})
    /\ LET d == DecodeJsonEnc(EncodeJsonEnc(e)) IN d.ok /\ d.v = e /\ d.notes \subseteq SerializerNotes(UnnamedEnumsInfo(e.info))
    /\ \A v \in EncBinVariants(e) : LET d == DecodeBinEnc(v.b) IN
         /\ v.lab \in {"canon", "explicit", "pad", "permTop", "unknownTop"} => d.ok /\ d.v = e
         /\ d.ok => Len(EncodeBinEnc(d.v)) <= Len(v.b) /\ DecodeBinEnc(EncodeBinEnc(d.v)) = Good(d.v, {})
    /\ LET pt == ToyOpen(e.enc, <<>>) IN pt.ok => DecodeBin(pt.pt) = Good(ks, {})

\* ------------------------------------------------------------------ theorems about one octet string
\* (KeyFormatWire keeps varints in TLC integers: it is defined where no varint has more than 4 octets)
ShortVarints(b) == ~\E i \in 1..(Len(b) - 3) : \A j \in i..(i + 3) : b[j] >= 128
AgreesWithC12(b) ==
  LET p == WParse(b) IN
  ShortVarints(b) =>
  /\ KFW!WellFormedMsg(b) => p.ok
  /\ (p.ok /\ \A i \in 1..Len(p.fs) : p.fs[i].wt \in {0, 2} /\ (p.fs[i].wt = 0 => Len(p.fs[i].v) <= 4))
       => /\ KFW!WellFormedMsg(b)
          /\ KFW!Fields(b) = [i \in 1..Len(p.fs) |-> [n |-> p.fs[i].n, wt |-> p.fs[i].wt, v |-> IF p.fs[i].wt = 0 THEN NatOfGroups(p.fs[i].v) ELSE p.fs[i].v]]
StringTheorems(b) ==
  /\ NormalFormBin(DecodeBin(b), b)
  /\ LET e == DecodeBinEnc(b) IN e.ok => Len(EncodeBinEnc(e.v)) <= Len(b) /\ DecodeBinEnc(EncodeBinEnc(e.v)) = Good(e.v, {})
  /\ LET i == DecodeBinInfo(b) IN i.ok => DecodeBinInfo(EncodeBinInfo(i.v)) = Good(i.v, {})
  /\ AgreesWithC12(b)

\* numbers: every id of the lists survives varint, padded varint, decimal; enum numbers survive sign extension
NumberTheorems ==
  /\ \A i \in 1..Len(IdList) : LET id == IdList[i] IN
       /\ U32OfGroups(GroupsOfU32(id)) = id
       /\ \A k \in 0..9 : U32OfGroups(PadGroups(GroupsOfU32(id), k)) = id
       /\ U32OfDecimal(DecimalOfU32(id)) = id
       /\ ReadVarint(VarintBytes(GroupsOfU32(id)) \o <<1>>, 1) = [ok |-> TRUE, g |-> GroupsOfU32(id), next |-> Len(GroupsOfU32(id)) + 1]
  /\ \A n \in {0, 1, 127, 128, 300, 2147483647, -1, -2, -128, -2147483647, (-2147483647) - 1} : I32OfGroups(GroupsOfI32(n)) = n
  /\ \A n \in {1, 15, 16, 2047, 2048, MaxFieldNumber} : \A wt \in {0, 1, 2, 5} : TagNumber(TagGroups(n, wt)) = n /\ TagGroups(n, wt)[1] % 8 = wt
  /\ \A b \in UNION {[1..k -> {0, 1, 251, 255}] : k \in 0..4} :
       /\ B64Decode(B64Std(b)) = Good(b, {})
       /\ B64Decode(B64StdNoPad(b)).v = b /\ B64Decode(B64Url(b)).v = b /\ B64Decode(B64UrlNoPad(b)).v = b

\* ------------------------------------------------------------------ the state space: a root per block, one successor per block
VARIABLES blk, c
Root == [t |-> "root"]
Blocks == {<<"ks", i>> : i \in 1..Len(KeysetSeq)} \cup {<<"small", i>> : i \in 0..Len(AlphabetSeq)} \cup {<<"numbers", 0>>}
Init == c = Root /\ blk \in Blocks
Next == /\ c = Root
        /\ c' = [t |-> "done"]
        /\ UNCHANGED blk

BlockTheorems(b) ==
  CASE b[1] = "ks" -> LET ks == KeysetSeq[b[2]] IN
                      RoundTripBin(ks) /\ RoundTripJson(ks) /\ SpellingsBin(ks) /\ SpellingsJson(ks) /\ EnvelopeTheorems(ks)
    [] b[1] = "small" -> (IF b[2] = 0 THEN StringTheorems(<<>>)
                          ELSE \A s \in SmallStrings(SmallLen - 1) : StringTheorems(<<AlphabetSeq[b[2]]>> \o s))
    [] b[1] = "numbers" -> NumberTheorems
Theorems == c.t = "done" => BlockTheorems(blk)
================================================================================
