CONSTANTS
  Fault = "none"
  KeyIds = {"k1", "k2"}
  Statuses = {"ENABLED", "DISABLED", "DESTROYED"}
  MCClasses = {"AEAD", "VERIFY", "PRF", "JWTMAC", "STREAM"}
  MCAccessors = {"entryKey", "primaryKey", "material", "write", "keysetInfo"}
  MaxKeys = 2
  MaxHandles = 1
  MaxMgrs = 0
  MaxPrims = 2
  MaxDid = 3
  MaxOpts = 1
  MCPublic = FALSE
INIT Init
NEXT MCNext
CONSTRAINT Bound
VIEW View
INVARIANTS TypeOK NoAnnotationsNoMonitoring LoggerPerFunction EveryCallAccountedOnce LogsNameEnabledKeys FailureNamesNoKey KeyExportsAccounted PublicDropsAnnotations
CHECK_DEADLOCK FALSE
