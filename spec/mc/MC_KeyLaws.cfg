CONSTANTS
  Fault = "none"
  Wide = TRUE
INIT Init
NEXT Next
INVARIANT ExpectedOnly Lawful
CHECK_DEADLOCK FALSE
