CONSTANTS
  Fault = "key_equal_ignores_variant"
  Wide = TRUE
INIT Init
NEXT Next
INVARIANT ExpectedOnly Lawful
CHECK_DEADLOCK FALSE
