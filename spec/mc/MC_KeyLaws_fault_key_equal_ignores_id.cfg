CONSTANTS
  Fault = "key_equal_ignores_id"
  Wide = TRUE
INIT Init
NEXT Next
INVARIANT ExpectedOnly Lawful
CHECK_DEADLOCK FALSE
