------------------------------- MODULE MC_Registry -------------------------------
(* Bounded exhaustive configurations of Registry.tla: every interleaving of start /    *)
(* linearization / end steps of up to MaxCalls calls per goroutine.                     *)
(*   MC_Registry_km   2 goroutines x 2 calls, key-manager operations of one URL with two *)
(*                    managers: all history properties                                  *)
(*   MC_Registry_kms  2 goroutines x 2 calls, KMS client operations                     *)
(*   MC_Registry_3x2  3 goroutines x 2 calls, ALL registry operations; states are        *)
(*                    identified up to the history summary the checked properties read   *)
EXTENDS Registry, TLC

CONSTANTS MaxCalls, OpKinds

McSupports(c, uri) == TRUE           \* every model client supports the model URI: first-registered wins

CallsOf(g) == Cardinality({i \in DOMAIN hist : hist[i].ev = "start" /\ hist[i].g = g})
Bound == \A g \in G : CallsOf(g) <= MaxCalls
McNext == \E g \in G : (\E op \in Ops : op.kind \in OpKinds /\ CallsOf(g) < MaxCalls /\ Start(g, op)) \/ Lin(g) \/ End(g)

\* what AtMostOneRegistration, TypeOK and the call bound read from the history
Summary == [ok    |-> [u \in URL |-> Cardinality(OkRegs(u))],
            unreg |-> [u \in URL |-> Unregs(u) # {}],
            calls |-> [g \in G |-> CallsOf(g)]]
SummaryView == <<reg, kms, pend, Summary>>

\* the first-registered supporting client wins: visible when the only two registrations returned one after the other before a lookup starts
KmsFirstWins ==
  \A i, j, k \in Ends :
     (/\ hist[i].op.kind = "KmsRegister" /\ hist[j].op.kind = "KmsRegister" /\ hist[k].op.kind = "KmsGet"
      /\ i < StartOf(j) /\ j < StartOf(k)
      /\ Cardinality({x \in DOMAIN hist : hist[x].ev = "start" /\ hist[x].op.kind = "KmsRegister"}) = 2
      /\ \A x \in DOMAIN hist : hist[x].ev = "start" => hist[x].op.kind # "KmsClear")
       => hist[k].res = hist[i].op.client
================================================================================
