CONSTANTS
  G = {1, 2}
  URL = {"u"}
  MGR = {"m1", "m2"}
  CLIENT = {"c1"}
  URI = {"x"}
  None = "none"
  Supports <- McSupports
  MaxCalls = 2
  OpKinds = {"Register", "Get", "Unregister"}
INIT Init
NEXT McNext
INVARIANTS TypeOK AtMostOneRegistration GetReturnsRegistered RegisteredStaysVisible ExistsMeansBound
CHECK_DEADLOCK FALSE
