CONSTANTS
  MaxN = 5
  MaxChunk = 3
  SrcFails = {0}
  ManipMode = "all"
  MaxAppend = 2
  MaxPermSegs = 3
  ReadModes = {"free"}
  KeysetSizes = {1, 2}
  NShapes = 2
INIT MCInit
NEXT MCNext
VIEW View
INVARIANTS KRoundTrip KTamperDetected KFaultSurfaces
PROPERTIES KReadProgress
CHECK_DEADLOCK FALSE
