CONSTANTS
  ID = {1, 2, 3}
  Mgr = {1}
  NoReq = 0
  AnnVals = {}
  MatIn = {"SYMMETRIC"}
  MaxEntries = 2
  MaxHandles = 1
  OptMode = "canon"
  MaxAnnList = 0
INIT Init
NEXT MCNext
CONSTRAINT Bound
ACTION_CONSTRAINT HandleLeaf LogEdge
VIEW View
INVARIANTS TypeOK C11_HandleWellFormed C11_ManagerInv
CHECK_DEADLOCK FALSE
