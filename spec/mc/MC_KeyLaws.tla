------------------------------ MODULE MC_KeyLaws ------------------------------
(* (M) The laws of KeyLaws.tla on an abstract key space.                              *)
(*                                                                                    *)
(* Key space: six representative parameter families of KeyParams.tla (a MAC with four *)
(* variants, an AEAD, a PRF without variant, a signature family with private / public *)
(* keys and a dependent field, ML-DSA with its "no prefix but id required" variant, a  *)
(* JWT MAC with kid strategies), every field over a small domain, two key materials,   *)
(* two [three] ids including 0.  Every state is ONE case: a key on its own, a pair (a    *)
(* key with every key of its family and with a representative of every other Go key     *)
(* type), a triple of keys of a sub-space (transitivity), or a constructor-refusal      *)
(* case; its observation is what the implementation model Impl(Fault) answers, and the  *)
(* invariant is the judgement of KeyLaws.tla.                                          *)
(*                                                                                    *)
(*   Fault = "none"   the reference model: every judgement must be <<>> in every state  *)
(*                    (the laws are consistent: an implementation satisfying all of     *)
(*                    them exists, and the reference relation is an equivalence)        *)
(*   Fault = <name>   a faulty implementation ("Equal ignores a field", ...): the        *)
(*                    invariant MUST be violated, by the law named in ExpectedLaw        *)
(*                    (checks/X05.py verifies which judgement fired)                     *)
EXTENDS KeyLaws

CONSTANTS Fault,      \* "none" or the name of a faulty implementation
          Wide        \* TRUE: three ids, FALSE: two

Faults == {"params_equal_ignores_hash", "key_equal_ignores_variant", "key_equal_ignores_id", "key_equal_ignores_material",
           "crunchy_prefix_01", "legacy_prefix_01", "prefix_little_endian", "pubkey_other_encoding", "pubkey_drops_id",
           "id_zero_wildcard", "idreq_always_required", "hasidreq_ignores_prehash_variant", "equal_across_types",
           "equal_one_directional", "unstable_accessor", "accessor_returns_internal_slice", "accepts_nonzero_id", "parameters_not_kept", "kid_not_base64_of_id",
           "private_equal_public_only", "unused_id_shows_in_accessor"}
ASSUME Fault \in Faults \cup {"none"}

\* ------------------------------------------------------------------ the key space
Mats == {1, 2}
Ids == IF Wide THEN {"00000000", "00000001", "01020304"} ELSE {"00000000", "01020304"}
MCTypes == {"Hmac", "AesGcm", "HmacPrf", "Ecdsa", "MlDsa", "JwtHmac"}
MCParams(T) ==
  {p \in
     CASE T = "Hmac"    -> [keySize : {16, 32}, hash : {"SHA256", "SHA512"}, tagSize : {16}, variant : Variants4]
       [] T = "AesGcm"  -> [keySize : {16, 32}, ivSize : {12}, tagSize : {16}, variant : Variants3]
       [] T = "HmacPrf" -> [keySize : {16, 32}, hash : {"SHA256", "SHA512"}]
       [] T = "Ecdsa"   -> [curve : {"NIST_P256", "NIST_P384"}, hash : {"SHA256", "SHA384"}, encoding : SigEncodings, variant : Variants4]
       [] T = "MlDsa"   -> [instance : {"ML_DSA_44", "ML_DSA_65"}, variant : MlDsaVariants]
       [] T = "JwtHmac" -> [algorithm : {"HS256"}, kidStrategy : KidStrategies, keySize : {32, 33}]
   : ParamsOK(T, p)}
KeysOf(T) == {[kt |-> T, kind |-> k, p |-> p, mat |-> m, id |-> i] : k \in Kinds(T), p \in MCParams(T), m \in Mats, i \in Ids}
Space == UNION {KeysOf(T) : T \in MCTypes}
\* the sub-space of the triples: one MAC key size, two hashes, two variants, both materials, every id
Space3 == {a \in KeysOf("Hmac") : a.p.keySize = 16 /\ a.p.variant \in {"TINK", "NO_PREFIX"}}
               \cup {a \in KeysOf("MlDsa") : a.p.instance = "ML_DSA_44" /\ a.kind = "private" /\ a.mat = 1}

\* the partners of a key in the pair cases: every key of its own family, and one representative of every Go key type
CanonP(T) == CHOOSE p \in MCParams(T) : TRUE
Reps == {a \in Space : a.p = CanonP(a.kt) /\ a.mat = 1 /\ a.id = "01020304"}
Partners(a) == KeysOf(a.kt) \cup Reps

ASSUME \A a \in Space : WellFormed(a)

\* ------------------------------------------------------------------ the implementation model
F(name) == Fault = name
Without(p, f) == [g \in DOMAIN p \ {f} |-> p[g]]

ImplPEq(a, b) ==
  IF F("params_equal_ignores_hash") /\ a.kt = b.kt /\ "hash" \in DOMAIN a.p THEN Without(a.p, "hash") = Without(b.p, "hash")
  ELSE SameParams(a, b)

ImplHasReq(a) ==
  IF F("hasidreq_ignores_prehash_variant") /\ VariantOfKey(a.kt, a.p) = "NO_PREFIX_WITH_PREHASH_ID" THEN FALSE ELSE HasReq(a.kt, a.p)
ImplIdReq(a) ==
  IF F("idreq_always_required") THEN <<(IF HasReq(a.kt, a.p) THEN a.id ELSE NoId), TRUE>>
  ELSE IF ImplHasReq(a) THEN <<a.id, TRUE>> ELSE <<NoId, FALSE>>

SizeOf(a) == IF "keySize" \in DOMAIN a.p THEN a.p.keySize ELSE 0
ImplEq(a, b) ==
  CASE F("key_equal_ignores_variant") ->
         /\ a.kt = b.kt /\ a.kind = b.kind /\ a.mat = b.mat /\ ImplIdReq(a)[1] = ImplIdReq(b)[1]
         /\ IF "variant" \in DOMAIN a.p THEN Without(a.p, "variant") = Without(b.p, "variant") ELSE a.p = b.p
    [] F("key_equal_ignores_id") -> a.kt = b.kt /\ a.kind = b.kind /\ a.p = b.p /\ a.mat = b.mat
    [] F("key_equal_ignores_material") -> a.kt = b.kt /\ a.kind = b.kind /\ a.p = b.p /\ IdReqOf(a) = IdReqOf(b)
    [] F("id_zero_wildcard") ->
         /\ a.kt = b.kt /\ a.kind = b.kind /\ a.p = b.p /\ a.mat = b.mat
         /\ (IdReqOf(a) = IdReqOf(b) \/ IdReqOf(a)[1] = NoId \/ IdReqOf(b)[1] = NoId)
    [] F("equal_across_types") ->
         \/ SameKey(a, b)
         \/ {a.kt, b.kt} = {"Hmac", "HmacPrf"} /\ a.mat = b.mat
    [] F("equal_one_directional") ->
         /\ a.kt = b.kt /\ a.kind = b.kind /\ a.mat = b.mat /\ IdReqOf(a) = IdReqOf(b)
         /\ IF "keySize" \in DOMAIN a.p THEN Without(a.p, "keySize") = Without(b.p, "keySize") /\ SizeOf(a) <= SizeOf(b)
            ELSE a.p = b.p
    [] F("private_equal_public_only") -> SameKey(a, b)      \* differs only in ImplSecret below
    [] OTHER -> a.kt = b.kt /\ a.kind = b.kind /\ ImplPEq(a, b) /\ a.mat = b.mat /\ ImplIdReq(a) = ImplIdReq(b)

ImplPrefix(a) ==
  LET v == PrefixVariant(VariantOfKey(a.kt, a.p))
      idb == HexToBytes(a.id)
  IN IF a.kt \notin PrefixTypes THEN ""
     ELSE IF F("crunchy_prefix_01") /\ v = "CRUNCHY" THEN BytesToHex(<<1>> \o idb)
     ELSE IF F("legacy_prefix_01") /\ v = "LEGACY" THEN BytesToHex(<<1>> \o idb)
     ELSE IF F("prefix_little_endian") /\ v # "NO_PREFIX" THEN BytesToHex(Prefix(v, <<idb[4], idb[3], idb[2], idb[1]>>))
     ELSE PrefixHexOf(a)

CustomKid(a) == IF a.kt \in KidTypes /\ a.p.kidStrategy = "CUSTOM" THEN (IF a.mat = 1 THEN "6b6964" ELSE "6b696432") ELSE ""
ImplKid(a) ==
  IF ~HasKidAccessor(a) THEN <<"", FALSE>>
  ELSE IF F("kid_not_base64_of_id") /\ a.p.kidStrategy = "BASE64_KEY_ID" THEN <<a.id, TRUE>>
  ELSE KidOf(a, CustomKid(a))

\* the public key object a private key hands out
ImplPub(a) ==
  LET q == IF F("pubkey_other_encoding") /\ a.kt = "Ecdsa"
             THEN [PublicOf(a) EXCEPT !.p.encoding = IF @ = "DER" THEN "IEEE_P1363" ELSE "DER"]
           ELSE IF F("pubkey_drops_id") THEN [PublicOf(a) EXCEPT !.id = NoId]
           ELSE PublicOf(a)
  IN q

ImplSecret(a) ==
  IF a.kind = "public" THEN ""
  ELSE IF F("private_equal_public_only") /\ a.kind = "private" THEN <<a.kt, a.mat, a.id>>   \* a secret part Equal does not look at
  ELSE <<a.kt, a.mat, SizeOf(a)>>

ImplObs(a) ==
  [built |-> TRUE, panic |-> FALSE, gotype |-> a.kt \o "." \o a.kind, ptype |-> a.kt,
   id |-> ImplIdReq(a)[1], req |-> ImplIdReq(a)[2], phas |-> ImplHasReq(a),
   hasprefix |-> a.kt \in PrefixTypes, prefix |-> ImplPrefix(a),
   haskid |-> HasKidAccessor(a), kid |-> ImplKid(a)[1], kidset |-> ImplKid(a)[2], ckid |-> CustomKid(a),
   unstable |-> IF F("unstable_accessor") /\ a.kt = "AesGcm" THEN <<"OutputPrefix">> ELSE <<>>,
   aliased |-> IF F("accessor_returns_internal_slice") /\ a.kt = "Ecdsa" /\ a.kind = "public" THEN <<"PublicPoint">> ELSE <<>>,
   pbuilt |-> ~(F("parameters_not_kept") /\ a.kt = "HmacPrf"), pbuiltR |-> ~(F("parameters_not_kept") /\ a.kt = "HmacPrf"),
   pfresh |-> TRUE, pfreshR |-> TRUE, pself |-> ImplPEq(a, a), self |-> ImplEq(a, a),
   \* (fault: an accessor shows the id given to the constructor although the key has no id requirement and Equal ignores it)
   value |-> <<a.kt, a.kind, a.p, a.mat, ImplIdReq(a), ImplPrefix(a), ImplKid(a), IF F("unused_id_shows_in_accessor") THEN a.id ELSE NoId>>,
   secret |-> ImplSecret(a),
   pub |-> IF a.kind # "private"
           THEN [has |-> FALSE, err |-> FALSE, stable |-> TRUE, peq |-> TRUE, peqR |-> TRUE, id |-> NoId, req |-> FALSE,
                 hasprefix |-> FALSE, prefix |-> "", cross |-> FALSE]
           ELSE LET q == ImplPub(a) IN
                [has |-> TRUE, err |-> FALSE, stable |-> TRUE, peq |-> ImplPEq(q, a), peqR |-> ImplPEq(a, q),
                 id |-> ImplIdReq(q)[1], req |-> ImplIdReq(q)[2], hasprefix |-> a.kt \in PrefixTypes, prefix |-> ImplPrefix(q),
                 cross |-> ImplEq(a, q) \/ ImplEq(q, a)]]

ImplRel(ks) ==
  LET n == Len(ks) IN
  [eq |-> [i \in 1..n |-> [j \in 1..n |-> ImplEq(ks[i], ks[j])]],
   peq |-> [i \in 1..n |-> [j \in 1..n |-> ImplPEq(ks[i], ks[j])]],
   pubeq |-> [i \in 1..n |-> [j \in 1..n |->
               ks[i].kind = "private" /\ ks[j].kind = "private" /\ ImplEq(ImplPub(ks[i]), ImplPub(ks[j]))]],
   pubkeq |-> [i \in 1..n |-> [j \in 1..n |->
               ks[i].kind = "private" /\ ks[j].kind = "public" /\ ImplEq(ImplPub(ks[i]), ks[j])]]]

ImplIdRefusal(a) ==
  [panic |-> FALSE, takesid |-> a.kt \notin NoIdInput, nonzero |-> "01020304", zeroOk |-> TRUE,
   refused |-> a.kt \notin NoIdInput /\ ~(F("accepts_nonzero_id") /\ a.kt \in {"AesGcm", "Hmac"}),
   \* the faulty constructor stores the id it was given
   accid |-> IF F("accepts_nonzero_id") THEN "01020304" ELSE NoId, accreq |-> FALSE, acceq |-> ~F("accepts_nonzero_id")]

\* ------------------------------------------------------------------ the cases and their judgement
Obs(ks) == [i \in 1..Len(ks) |-> ImplObs(ks[i])]
Verdict(c) ==
  CASE c.what = "idref" -> JudgeIdRefusal(c.keys[1], ImplIdRefusal(c.keys[1]))
    [] c.what = "single" -> JudgeKey(c.keys[1], ImplObs(c.keys[1]))
    [] OTHER -> JudgeRel(c.keys, Obs(c.keys), ImplRel(c.keys))

\* a state is a case under construction: the first key is chosen in the initial state (and judged on its own), the
\* others by Next -- so that TLC's workers share the work; a complete case is judged
VARIABLES case, bad
vars == <<case, bad>>

Init ==
  /\ \E a \in Space : case = [what |-> "single", keys |-> <<a>>]
  /\ bad = Verdict(case)
Next ==
  /\ case.what = "single"
  /\ LET a == case.keys[1] IN
     \/ \E b \in Partners(a) : case' = [what |-> "pair", keys |-> <<a, b>>]
     \/ a \in Space3 /\ \E b \in Space3, c \in Space3 : case' = [what |-> "triple", keys |-> <<a, b, c>>]
     \/ ~HasReq(a.kt, a.p) /\ a.id = "00000000" /\ case' = [what |-> "idref", keys |-> <<a>>]
  /\ bad' = Verdict(case')

\* the invariant: every law holds in every case
Lawful == bad = <<>>

\* ------------------------------------------------------------------ theorems about the reference model itself
\* (evaluated once, as assumptions): SameKey / SameParams are equivalence relations, Equal keys have Equal parameters
\* and the same id requirement and prefix, and the laws decide Equal for keys that differ in exactly one respect
RefEquivalence ==
  /\ \A a \in Space3 : SameKey(a, a)
  /\ \A a \in Space3, b \in Space3 : SameKey(a, b) = SameKey(b, a)
  /\ \A a \in Space3, b \in Space3, c \in Space3 : SameKey(a, b) /\ SameKey(b, c) => SameKey(a, c)
  /\ \A a \in Space3, b \in Space3 : SameKey(a, b) => SameParams(a, b) /\ IdReqOf(a) = IdReqOf(b) /\ PrefixHexOf(a) = PrefixHexOf(b)
ASSUME RefEquivalence

\* the law each faulty implementation must break (the first component of the judgement): the fault configurations
\* list ExpectedOnly BEFORE Lawful, so a fault caught by another law than the expected ones violates ExpectedOnly
\* (checks/X05.py requires "Lawful is violated")
ExpectedLaw ==
  [f \in Faults |->
    CASE f = "params_equal_ignores_hash" -> {"doc: Equal ignores a difference between two keys", "doc: parameters.Equal ignores a difference",
                                             "doc: Equal keys whose accessors report different values"}
      [] f = "key_equal_ignores_variant" -> {"doc: Equal keys whose parameters are not Equal", "doc: Equal keys with different OutputPrefix()",
                                             "doc: Equal keys whose accessors report different values"}
      [] f = "key_equal_ignores_id" -> {"doc: Equal keys with different IDRequirement()"}
      [] f = "key_equal_ignores_material" -> {"doc: Equal keys whose accessors report different values", "doc: Equal ignores a difference between two keys",
                                              "doc: private keys are Equal iff their public keys are Equal and their secret parts are equal"}
      [] f \in {"crunchy_prefix_01", "legacy_prefix_01", "prefix_little_endian"} -> {"doc: OutputPrefix() is not the documented function of (variant, id)"}
      [] f = "pubkey_other_encoding" -> {"doc: the public key's parameters are not Equal to the private key's"}
      [] f = "pubkey_drops_id" -> {"doc: the public key's IDRequirement() differs from the private key's"}
      [] f = "id_zero_wildcard" -> {"doc: key.Equal is not transitive", "doc: Equal keys with different IDRequirement()"}
      [] f = "idreq_always_required" -> {"doc: IDRequirement() required differs from Parameters().HasIDRequirement()"}
      [] f = "hasidreq_ignores_prehash_variant" -> {"doc: Parameters.HasIDRequirement() differs from variant # NO_PREFIX"}
      [] f = "equal_across_types" -> {"doc: keys of different Go types are Equal"}
      [] f = "equal_one_directional" -> {"doc: key.Equal is not symmetric"}
      [] f = "unstable_accessor" -> {"doc: an accessor returns another value on its second call"}
      [] f = "accessor_returns_internal_slice" -> {"doc: an accessor returns another value after a byte slice it returned earlier was overwritten"}
      [] f = "accepts_nonzero_id" -> {"doc: the constructor accepts a non-zero id for parameters without id requirement",
                                      "doc: a key without id requirement reports a non-zero id (the constructor accepts one; IDRequirement: if not required, the returned ID is zero)"}
      [] f = "parameters_not_kept" -> {"doc: key.Parameters() is not Equal to the parameters the key was built with"}
      [] f = "kid_not_base64_of_id" -> {"doc: KID() is not the documented function of (kid strategy, id, custom kid)"}
      [] f = "unused_id_shows_in_accessor" -> {"doc: Equal keys whose accessors report different values"}
      [] f = "private_equal_public_only" -> {"doc: private keys are Equal iff their public keys are Equal and their secret parts are equal"}]
ExpectedOnly == bad = <<>> \/ Fault = "none" \/ bad[1] \in ExpectedLaw[Fault]
================================================================================
