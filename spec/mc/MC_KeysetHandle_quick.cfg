CONSTANTS
  ID = {1, 2, 3}
  Mgr = {1}
  NoReq = 0
  AnnVals = {"a"}
  MatIn = {"PRIVATE", "SYMMETRIC"}
  MaxEntries = 2
  MaxHandles = 1
  OptMode = "canon"
  MaxAnnList = 1
INIT Init
NEXT MCNextNoDev
CONSTRAINT Bound
VIEW View
INVARIANTS TypeOK C11_HandleWellFormed C11_ManagerInv
PROPERTIES C11_ErrLeavesUnchanged C11_PrimaryProtected C11_HandlesImmutable C11_ManagersIsolated C11_IdsStayUnavailable
  PrimaryNeverLost HandleMetaImmutable AccessorsPure AddOptsPost AddKeyIsAddOptsEmpty AgreesWithC11 DerivedHandlesAgree NoSecretsGuard
CHECK_DEADLOCK FALSE
