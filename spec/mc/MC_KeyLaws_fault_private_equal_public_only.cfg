CONSTANTS
  Fault = "private_equal_public_only"
  Wide = TRUE
INIT Init
NEXT Next
INVARIANT ExpectedOnly Lawful
CHECK_DEADLOCK FALSE
