CONSTANTS
  Faults = {"writes-caller-capacity"}
  Shapes <- ShapeFull
  MaxSteps = 4
INIT MCInit
NEXT MCNext
INVARIANTS NoForeignWrite LibraryValuesStable
CHECK_DEADLOCK FALSE
