------------------------- MODULE MC_PrimitiveSetAbsAgree -------------------------
(* Binds proofs/PrimitiveSetAbs.tla (arbitrary ids and key materials, keysets of any  *)
(* length; mechanism <=> property proved by TLAPS) to sys/PrimitiveSet.tla (the module *)
(* that is model-checked and that judges the real factories): on every keyset that     *)
(* MC_PrimitiveSet builds (incl. the ill-formed ones without a primary) and every      *)
(* primitive class, admitted or not, every operator of the abstract module returns the *)
(* same value as its namesake - key prefixes, token constructor and token universe,    *)
(* Enabled, Candidates (the same SEQUENCE, so the same order), PrimAccepts, MechAccept  *)
(* (verdict and logged key), ValidUnder, Witnesses, PropAccept, PropLoggedOK,          *)
(* WellFormed, ClassAdmits, producer / primary, produced token, PRF set.               *)
(* Keyset entries are the same records in both modules; only prefixes are translated:  *)
(* five bytes <<b>> \o id -> <<b, id>>, a JWT kid (four id bytes) -> <<256, id>>.      *)
EXTENDS MC_PrimitiveSet

AbsPfx(p) == CASE Len(p) = 0 -> <<>>
               [] Len(p) = 4 -> <<256, p>>
               [] OTHER      -> <<p[1], SubSeq(p, 2, 5)>>
AbsTok(t) == [mat |-> t.mat, legacy |-> t.legacy, pfx |-> AbsPfx(t.pfx), first5 |-> AbsPfx(t.first5)]

\* every value First5Choices(c, ks) can contain, for any class and keyset over MCIds
AllFirst5 == {OtherFirst5} \cup {Prefix(pt, id) : pt \in {"TINK", "CRUNCHY", "LEGACY"}, id \in MCIds} \cup MCIds
AbsFirst5 == {AbsPfx(f) : f \in AllFirst5}

A == INSTANCE PrimitiveSetAbs WITH ID <- MCIds, MAT <- AllMats, First5 <- AbsFirst5

\* independent of the keyset (evaluated in the initial state only)
ConstructorsAgree ==
  \A c \in Classes :
    /\ KeyDescs(c, MCIds, AllMats) = A!KeyDescs(c)
    /\ \A k \in KeyDescs(c, MCIds, AllMats) :
         /\ AbsPfx(KeyPrefix(c, k)) = A!KeyPrefix(c, k)
         /\ \A f \in AllFirst5 :
              /\ AbsTok(TokenBy(c, k, f)) = A!TokenBy(c, k, AbsPfx(f))
              /\ AbsTok(TokenBy(c, k, f)) \in A!Tokens(c)

SameOnKeyset ==
  /\ \A i \in DOMAIN ks : ks[i] \in A!Entry
  /\ A!Enabled(ks) = Enabled(ks)
  /\ A!WellFormed(ks) = WellFormed(ks)
  /\ \A c \in Classes :
       /\ A!ClassAdmits(c, ks) = ClassAdmits(c, ks)
       /\ First5Choices(c, ks) \subseteq AllFirst5
       /\ \A t \in Tokens(c, ks, MCIds, AllMats) :
            LET a == AbsTok(t)
            IN /\ A!Candidates(c, ks, a) = Candidates(c, ks, t)
               /\ A!MechAccept(c, ks, a) = MechAccept(c, ks, t)
               /\ A!Witnesses(c, ks, a) = Witnesses(c, ks, t)
               /\ A!PropAccept(c, ks, a) = PropAccept(c, ks, t)
               /\ \A i \in DOMAIN ks :
                    /\ A!PrimAccepts(c, ks[i], a) = PrimAccepts(c, ks[i], t)
                    /\ A!ValidUnder(c, a, ks[i]) = ValidUnder(c, t, ks[i])
               /\ \A id \in MCIds : A!PropLoggedOK(c, ks, a, id) = PropLoggedOK(c, ks, t, id)
       /\ WellFormed(ks) =>
            /\ A!MechProducer(c, ks) = MechProducer(c, ks)
            /\ A!PrimaryOf(ks) = PrimaryOf(ks)
            /\ \A f \in First5Choices(c, ks) :
                 /\ A!MechProduce(c, ks, AbsPfx(f)) = AbsTok(MechProduce(c, ks, f))
                 /\ A!Produce(c, ks, AbsPfx(f)) = AbsTok(Produce(c, ks, f))
  /\ WellFormed(ks) => A!MechPRFSet(ks) = MechPRFSet(ks) /\ A!PropPRFSet(ks) = PropPRFSet(ks)

AbsAgrees == (ks = <<>> => ConstructorsAgree) /\ SameOnKeyset
================================================================================
