CONSTANTS
  ID = {1, 2}
  Mgr = {1, 2}
  NoReq = 0
  AnnVals = {}
  MatIn = {"SYMMETRIC"}
  MaxEntries = 2
  MaxHandles = 1
  OptMode = "one"
  MaxAnnList = 0
INIT Init
NEXT MCNextNoDev
CONSTRAINT Bound
VIEW View
INVARIANTS TypeOK C11_HandleWellFormed C11_ManagerInv
PROPERTIES C11_ErrLeavesUnchanged PrimaryNeverLost C11_PrimaryProtected C11_HandlesImmutable C11_ManagersIsolated C11_IdsStayUnavailable HandleMetaImmutable AccessorsPure AddOptsPost AddKeyIsAddOptsEmpty AgreesWithC11 DerivedHandlesAgree NoSecretsGuard
CHECK_DEADLOCK FALSE
