CONSTANTS
  G = {1, 2}
  URL = {"u"}
  MGR = {"m1"}
  CLIENT = {"c1", "c2"}
  URI = {"x"}
  None = "none"
  Supports <- McSupports
  MaxCalls = 2
  OpKinds = {"KmsRegister", "KmsGet", "KmsClear"}
INIT Init
NEXT McNext
INVARIANTS TypeOK KmsGetSound KmsFirstWins
CHECK_DEADLOCK FALSE
