\* thorough: <= 3 keys over the reduced per-key domain (ids 3, statuses 5, prefixes 3, data 2) + nil key
CONSTANTS
  ID = {1, 2, 3}
  Fresh = 9
  MaxKeys = 3
  StatusMC = {"ENABLED", "DISABLED", "DESTROYED", "UNKNOWN_STATUS", "OOR"}
  PrefixMC = {"TINK", "RAW", "UNKNOWN_PREFIX"}
  DataMC = {"ok", "nil"}
INIT Init
NEXT Next
VIEW View
INVARIANTS RuleIsCode ValidProjectsWellFormed NamedDefectsRejected RejectedHasReason SerializationNeutral EntryPointsSafe
PROPERTIES BreakingBreaks HarmlessKeeps
CHECK_DEADLOCK FALSE
