CONSTANTS
  Fault = "none"
  MaxCalls = 3
INIT Init
NEXT MCNext
INVARIANT ReachCtx
CHECK_DEADLOCK FALSE
