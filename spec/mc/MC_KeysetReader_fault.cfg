CONSTANTS
  MaxN = 7
  MaxChunk = 5
  SrcFails = {0,1,2,3,4,5,6,7,8,9,10,11,12,13,14,15,16,17,18,19,20}
  ManipMode = "none"
  MaxAppend = 2
  MaxPermSegs = 3
  ReadModes = {"free"}
  KeysetSizes = {1, 2}
  NShapes = 4
INIT MCInit
NEXT MCNext
VIEW View
INVARIANTS KRoundTrip KTamperDetected KFaultSurfaces
PROPERTIES KReadProgress
CHECK_DEADLOCK FALSE
