CONSTANTS
  Fault = "equal_across_types"
  Wide = TRUE
INIT Init
NEXT Next
INVARIANT ExpectedOnly Lawful
CHECK_DEADLOCK FALSE
