CONSTANTS
  Fault = "ignore-ctx"
  MaxCalls = 3
INIT Init
NEXT MCNext
INVARIANTS TypeOK ContextPassedAlong
CHECK_DEADLOCK FALSE
