CONSTANTS
  Fault = "crunchy_prefix_01"
  Wide = TRUE
INIT Init
NEXT Next
INVARIANT ExpectedOnly Lawful
CHECK_DEADLOCK FALSE
