CONSTANTS
  MaxOps = 3
  Parts = {"reg", "kms", "cfg", "g"}
  FaultRegister = "none"
  FaultKms = "none"
INIT Init
NEXT Next
INVARIANTS TypeOK LookupSupports LookupSupportsHist FirstRegistrationWins OnlyFirstRegistrationSucceeds KmsFirstSupporting ConfigIsSnapshot DuplicateConstructorRefused
PROPERTY SnapshotsFrozen
CHECK_DEADLOCK FALSE
