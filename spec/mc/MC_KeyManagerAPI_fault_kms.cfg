CONSTANTS
  MaxOps = 3
  Parts = {"kms"}
  FaultRegister = "none"
  FaultKms = "last"
INIT Init
NEXT Next
INVARIANTS KmsFirstSupporting
CHECK_DEADLOCK FALSE
