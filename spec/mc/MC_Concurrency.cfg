CONSTANTS
  G = {1, 2, 3}
  Calls <- McCalls
  Randomized = {"Enc"}
  Alone <- McAlone
  Results <- McResults
  Inverts <- McInverts
INIT Init
NEXT Next
INVARIANTS ConcurrentEqualsAlone SameCallSameResult
PROPERTIES NonInterference
CHECK_DEADLOCK FALSE
