CONSTANT Size = "quick"
INIT Init
NEXT Next
INVARIANT Theorems
CHECK_DEADLOCK FALSE
