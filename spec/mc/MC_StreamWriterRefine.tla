-------------------------- MODULE MC_StreamWriterRefine --------------------------
(* TLC checks that the writer of Streaming.tla (written like noncebased.go: the recursive *)
(* WriteLoop over abstract byte strings, header, failing underlying writer) refines the    *)
(* arithmetic abstraction proofs/StreamWriterAbs, whose invariant - the emitted segments   *)
(* are the canonical segmentation of the bytes written - is proved by TLAPS for ARBITRARY  *)
(* P, F and plaintext lengths.  Projection:                                               *)
(*   written <- wpos, buf <- RLen(w.buf), segs <- w.cnt, closed <- w.closed,               *)
(*   emitted <- (plaintext length, last flag) of the ciphertext runs of sink.out           *)
(* A Write cut short by a failing flush is the abstract Write of the bytes it accepted;    *)
(* a failing Close and a Write/Close on a closed writer stutter.  CanonAgrees ties the     *)
(* abstraction's IsCanonical to Streaming's recursive Canon (with header and tags).        *)
(* In the cfg  Nat <- MCNat  bounds the quantifiers of the abstraction for TLC.            *)
EXTENDS MC_Streaming

MCNat == 0..(MaxN + MaxChunk + 2)

CtRuns(out) == SelectSeq(out, LAMBDA x : x.src.k = "ct")
Project(out) == [i \in 1..Len(CtRuns(out)) |-> [len |-> RLen(CtRuns(out)[i].src.of), last |-> CtRuns(out)[i].src.last]]
\* every ciphertext run is a WHOLE segment numbered by its position (so nothing is lost by the projection)
WholeSegments(out) == \A i \in 1..Len(CtRuns(out)) :
                         LET x == CtRuns(out)[i] IN x.a = 0 /\ x.b = RLen(x.src.of) + T /\ x.src.i = i - 1

Abs == INSTANCE StreamWriterAbs WITH
         F       <- P - Off,
         written <- wpos,
         buf     <- RLen(w.buf),
         segs    <- w.cnt,
         closed  <- w.closed,
         emitted <- Project(sink.out)

RefNext == \/ NewWriter
           \/ \E n \in 0..MaxChunk : wpos + n <= MaxN /\ Write(n)
           \/ Close
RefSpec == MCInit /\ [][RefNext]_vars

AbsSpec == Abs!Spec
AbsInv  == Abs!Inv /\ WholeSegments(sink.out)
\* Streaming's WriterCanonical read through the projection
AbsCanonical == /\ (phase = "writing" /\ ~werr) => Abs!ClosingNowIsCanonical
                /\ (phase = "closed" /\ ~werr)  => Abs!EmittedIsCanonical
\* the recursive Canon of StreamOps (header || segments with tags) projects to THE canonical segmentation
CanonAgrees == \A N \in 0..MaxN : LET c == Canon(PP, Session(PP, WAad), PlainText(N)) IN
                  Abs!IsCanonical(Project(c), N) /\ WholeSegments(c)
ASSUME CanonAgrees
================================================================================
