------------------------------ MODULE MC_Ownership ------------------------------
(* Bounded exhaustive configuration of Ownership: one object, every interleaving of   *)
(* construct / use / read accessor / scribble (any group of regions created by one     *)
(* earlier call) up to MaxSteps steps.  Values are unique tokens, so every reachable   *)
(* state IS one mutation schedule (hist); Plan_Ownership writes them out.              *)
(* Shape says which byte slices the operation kind exchanges: ci constructor inputs,   *)
(* ui / uo inputs / results of a use, ao accessor results (0 = the step does not        *)
(* exist for this kind).                                                               *)
EXTENDS Ownership, TLC

CONSTANTS Shapes,     \* the shapes to explore (one is chosen initially)
          MaxSteps

VARIABLES Shape,     \* the shape of this behaviour's operation kind
          hist,      \* the schedule so far: Seq([k : {"new","use","acc","scr"}, g : step, role : ..])
          clean      \* groups scribbled since the last call (scribbling them again shows nothing new)

mcvars == <<vars, Shape, hist, clean>>

Fresh(tag, n) == [i \in 1..n |-> [d |-> <<tag, nsteps + 1, i>>, s |-> <<"spare", 0, 0>>, g |-> <<"guard", 0, 0>>]]

HasUse == Shape.ui + Shape.uo > 0
HasAcc == Shape.ao > 0

MCNew ==
  /\ New(Fresh("in", Shape.ci), <<"own", 0>>)
  /\ hist' = Append(hist, [k |-> "new", g |-> 0, role |-> "-"])
  /\ clean' = {}

MCUse ==
  /\ obj.live /\ HasUse
  /\ Use(Fresh("in", Shape.ui), Fresh("out", Shape.uo), <<"clobbered", nsteps + 1, 0>>)
  /\ hist' = Append(hist, [k |-> "use", g |-> 0, role |-> "-"])
  /\ clean' = {}

MCAcc ==
  /\ obj.live /\ HasAcc
  /\ Acc([j \in 1..Shape.ao |-> [d |-> mem[obj.fields[AccField(j)]], s |-> <<"spare", 0, 0>>, g |-> <<"guard", 0, 0>>]])
  /\ hist' = Append(hist, [k |-> "acc", g |-> 0, role |-> "-"])
  /\ clean' = {}

MCScribble(k, role) ==
  /\ obj.live
  /\ Group(k, role) # {} /\ <<k, role>> \notin clean
  /\ Scribble(Group(k, role), [i \in DOMAIN given |->
                                 [d |-> <<"scr", nsteps + 1, i>>, s |-> <<"scr-spare", nsteps + 1, i>>, g |-> given[i].g]])
  /\ hist' = Append(hist, [k |-> "scr", g |-> k, role |-> role])
  /\ clean' = clean \cup {<<k, role>>}

MCInit == Init /\ hist = <<>> /\ clean = {} /\ Shape \in Shapes

MCNext ==
  /\ nsteps < MaxSteps
  /\ UNCHANGED Shape
  /\ \/ MCNew \/ MCUse \/ MCAcc
     \/ \E k \in 1..nsteps, role \in {"in", "out"} : MCScribble(k, role)

(* shapes for the configuration files (records cannot be written in a .cfg) *)
ShapeFull  == {[ci |-> 1, ui |-> 1, uo |-> 1, ao |-> 1]}
ShapeWide  == {[ci |-> 2, ui |-> 2, uo |-> 1, ao |-> 2]}
ShapeClasses == [ci : {0, 1}, ui : {0, 1}, uo : {0, 1}, ao : {0, 1}]   \* which kinds of slices exist at all

MCSpec == MCInit /\ [][MCNext]_mcvars
================================================================================
