CONSTANTS
  Fault = "pubkey_other_encoding"
  Wide = TRUE
INIT Init
NEXT Next
INVARIANT ExpectedOnly Lawful
CHECK_DEADLOCK FALSE
