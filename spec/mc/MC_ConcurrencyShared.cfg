INIT Init
NEXT Next
INVARIANT ConcurrentEqualsAlone
CHECK_DEADLOCK FALSE
