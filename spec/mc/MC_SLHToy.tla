------------------------------- MODULE MC_SLHToy -------------------------------
(* (M) The SLH-DSA specification checked against itself on toy parameter sets,   *)
(* exhaustively: the very modules that judge the real code (SLHConv ... SLHDSA), *)
(* instantiated with tiny sizes and the TOY hash family, must satisfy the        *)
(* structural theorems of FIPS 205:                                              *)
(*   wots   wots_pkFromSig(wots_sign(M), M) = wots_pkGen            for EVERY n-byte M (every digit/checksum pattern)  *)
(*   xmss   xmss_pkFromSig(idx, xmss_sign(M, idx), M) = xmss_node(0, h')           for EVERY leaf idx                  *)
(*   fors   fors_pkFromSig(fors_sign(md), md) = T_k(roots of the k trees)          for EVERY md                        *)
(*   ht     ht_verify(M, ht_sign(M, idx_tree, idx_leaf)) under the key-generation root   for EVERY (idx_tree, idx_leaf) *)
(*   slh    VerifyDigest(digest, SignDigest(digest))        for EVERY digest pattern (all md / idx_tree / idx_leaf bits,  *)
(*          unused digest bits both ways: the masks)                                                                    *)
(*   msg    slh_verify(M, slh_sign(M)) ; every one-byte corruption of the signature fails some PieceOK and the genuine   *)
(*          signature satisfies every PieceOK (the piecewise comparison used for the s sets is exact)                    *)
(*   b2b    base_2b (Algorithm 4 transcription) = bit-slice definition on ALL two-byte inputs, b = 1..14                 *)
(* Nothing here speaks about the Go code; it says the reference is coherent.     *)
EXTENDS SLHDSA, TLC

CONSTANT Level          \* 0: quick subset of the digest patterns of T2, 1: all

NShards == 16

\*                       n  h  d  h' a  k lgw m
T1 == MkParams("T1", "TOY", 1, 4, 2, 2, 2, 2, 2, 3)      \* w = 4,  len = 6, checksum shifted by 4 bits as in the real sets
T2 == MkParams("T2", "TOY", 1, 6, 3, 2, 3, 2, 4, 3)      \* w = 16, len = 4, three layers, md not byte aligned
Toy(t) == IF t = "T1" THEN T1 ELSE T2

ASSUME WellFormed(T1) /\ WellFormed(T2)

SKseed == <<7>>
SKprf  == <<11>>
PKseed == <<13>>
Key1 == slh_keygen_internal(T1, SKseed, SKprf, PKseed)         \* constants: evaluated once
Key2 == slh_keygen_internal(T2, SKseed, SKprf, PKseed)
Key(t) == IF t = "T1" THEN Key1 ELSE Key2

\* an address inside some tree: layer 1, tree 2, as the callers of WOTS/XMSS/FORS set it
TreeADRS == setTreeAddress(setLayerAddress(NewADRS, 1), NumOfInt(2, 8))
ForsA    == setKeyPairAddress(setTypeAndClear(TreeADRS, FORS_TREE), 3)

\* ---- digest patterns: byte 1 carries md (k*a bits from the top), byte 2 idx_tree (low h-h' bits), byte 3 idx_leaf (low h' bits)
Hi(v, bits) == {v, v + (256 - Pow2(bits))}                    \* the low `bits` bits = v, the unused high bits all 0 / all 1
B1(p) == LET u == p.k * p.a IN UNION {{x * Pow2(8 - u), x * Pow2(8 - u) + Pow2(8 - u) - 1} : x \in 0..(Pow2(u) - 1)}
B2(p) == UNION {Hi(v, p.h - p.hp) : v \in 0..(Pow2(p.h - p.hp) - 1)}
B3(p) == UNION {Hi(v, p.hp) : v \in 0..(Pow2(p.hp) - 1)}
\* Level 1: the cross product (T2: unused bits of bytes 2, 3 zero).  Level 0: every md with one (idx_tree, idx_leaf), and every
\* (idx_tree, idx_leaf, mask variant) with one md -- the FORS part depends on md only, the hypertree part on the indices only.
Digests(t) ==                                                     \* as a sequence, so that cases can be numbered
  LET p  == Toy(t)
      b1 == SetToSortSeq(B1(p), <)
      b2 == SetToSortSeq(IF t = "T2" /\ Level = 1 THEN {x \in B2(p) : x < 16} ELSE B2(p), <)
      b3 == SetToSortSeq(IF t = "T2" /\ Level = 1 THEN {x \in B3(p) : x < 4} ELSE B3(p), <)
      n1 == Len(b1)
      n2 == Len(b2)
      n3 == Len(b3)
  IN  IF Level = 1
      THEN [i \in 1..(n1 * n2 * n3) |->
              <<b1[((i - 1) % n1) + 1], b2[(((i - 1) \div n1) % n2) + 1], b3[((i - 1) \div (n1 * n2)) + 1]>>]
      ELSE [i \in 1..n1 |-> <<b1[i], b2[(i % n2) + 1], b3[(i % n3) + 1]>>]
           \o [i \in 1..(n2 * n3) |-> <<b1[((7 * i) % n1) + 1], b2[((i - 1) % n2) + 1], b3[((i - 1) \div n2) + 1]>>]
DG1 == Digests("T1")
DG2 == Digests("T2")
DG(t) == IF t = "T1" THEN DG1 ELSE DG2

\* ---- the theorems
WotsOK(t, M) ==
  LET p == Toy(t)
      A == setKeyPairAddress(setTypeAndClear(TreeADRS, WOTS_HASH), 1)
  IN  /\ Len(WotsDigits(p, M)) = p.len
      /\ \A i \in 1..p.len : WotsDigits(p, M)[i] \in 0..(p.w - 1)
      /\ wots_pkFromSig(p, wots_sign(p, M, SKseed, PKseed, A), M, PKseed, A) = wots_pkGen(p, SKseed, PKseed, A)

XmssOK(t, idx, M) ==
  LET p == Toy(t)
      sig == xmss_sign(p, M, SKseed, idx, PKseed, TreeADRS)
  IN  /\ Len(sig) = XmssSigLen(p)
      /\ xmss_pkFromSig(p, idx, sig, M, PKseed, TreeADRS) = xmss_node(p, SKseed, 0, p.hp, PKseed, TreeADRS)

ForsPk(p) ==      \* the FORS public key from the secret seed: T_k over the roots of the k trees (section 8)
  T_l(p, PKseed, setKeyPairAddress(setTypeAndClear(ForsA, FORS_ROOTS), getKeyPairAddress(ForsA)),
      Cat([i \in 1..p.k |-> fors_node(p, SKseed, i - 1, p.a, PKseed, ForsA)]))
ForsOK(t, md) ==
  LET p == Toy(t)
      sig == fors_sign(p, md, SKseed, PKseed, ForsA)
  IN  /\ Len(sig) = p.k * (1 + p.a) * p.n
      /\ fors_pkFromSig(p, sig, md, PKseed, ForsA) = ForsPk(p)

HtOK(t, tree, leaf, M) ==
  LET p == Toy(t)
      it == NumOfInt(tree, p.h - p.hp)
      sig == ht_sign(p, M, SKseed, PKseed, it, leaf)
  IN  /\ Len(sig) = (p.h + p.d * p.len) * p.n
      /\ ht_verify(p, M, sig, PKseed, it, leaf, Key(t).pk.root)

SlhOK(t, dg) ==
  LET p == Toy(t)
      k == Key(t)
      sig == SignDigest(p, dg, k.sk)
  IN  /\ Len(sig) = SigLen(p) - p.n
      /\ VerifyDigest(p, dg, SubSeq(sig, 1, p.k * (1 + p.a) * p.n), SubSeq(sig, p.k * (1 + p.a) * p.n + 1, Len(sig)), k.pk)
      /\ NumVal(IdxTree(p, dg)) = dg[2] % Pow2(p.h - p.hp)
      /\ IdxLeaf(p, dg) = dg[3] % Pow2(p.hp)

MsgOK(t, M, ctx, rnd) ==
  LET p   == Toy(t)
      k   == Key(t)
      Mp  == PureMsg(ctx, M)
      sig == slh_sign_internal(p, Mp, k.sk, rnd)
      Bump(s, i) == [s EXCEPT ![i] = (s[i] + 1) % 256]
  IN  /\ Len(sig) = SigLen(p)
      /\ slh_verify(p, M, sig, ctx, k.pk)
      /\ ~slh_verify(p, M, SubSeq(sig, 1, Len(sig) - 1), ctx, k.pk)              \* wrong length
      /\ ~slh_verify(p, M, sig \o <<0>>, ctx, k.pk)
      /\ \A j \in 0..p.d : PieceOK(p, Mp, k.sk, rnd, sig, j)
      /\ CheapPartsOK(p, H_msg(p, SigR(p, sig), k.pk.seed, k.pk.root, Mp), k.sk, sig)
      \* a changed FORS secret value or WOTS+ chain value is seen by CheapPartsOK
      /\ ~CheapPartsOK(p, H_msg(p, SigR(p, sig), k.pk.seed, k.pk.root, Mp), k.sk, Bump(sig, p.n + 1))
      /\ ~CheapPartsOK(p, H_msg(p, SigR(p, sig), k.pk.seed, k.pk.root, Mp), k.sk, Bump(sig, (1 + p.k * (1 + p.a)) * p.n + 1))
      /\ \A i \in 1..Len(sig) : \E j \in 0..p.d : ~PieceOK(p, Mp, k.sk, rnd, Bump(sig, i), j)

B2bOK(b, hi) ==
  \A lo \in 0..255 : base_2b(<<hi, lo>>, b, 16 \div b) = base_2b_bits(<<hi, lo>>, b, 16 \div b)

ConvOK ==
  /\ \A x \in {0, 1, 255, 256, 65535, 65536, 16909060, 2147483647}, n \in 0..9 : toByte(x, n) = toByteAlg3(x, n)
  /\ \A x \in {0, 1, 255, 256, 65535, 16909060, 2147483647} : toInt(toByte(x, 4), 4) = x /\ NumVal(toNum(toByte(x, 4))) = x
  /\ NumToByte(toNum(<<255, 255, 255, 255, 255, 255, 255, 255>>), 12) = <<0, 0, 0, 0, 255, 255, 255, 255, 255, 255, 255, 255>>
  /\ NumToByte(NumShr(toNum(<<1, 2, 3>>), 8), 3) = <<0, 1, 2>>
  /\ NumVal(NumMod2(toNum(<<1, 2, 3>>), 9)) = 3

\* ---- cases, numbered per kind and dealt to shards
Count(kind, t) ==
  CASE kind = "wots" -> 256
    [] kind = "xmss" -> Pow2(Toy(t).hp) * 3
    [] kind = "fors" -> 256
    [] kind = "ht"   -> Pow2(Toy(t).h - Toy(t).hp) * Pow2(Toy(t).hp)
    [] kind = "slh"  -> Len(DG(t))
    [] kind = "msg"  -> 6
    [] kind = "b2b"  -> 14 * 256
    [] kind = "conv" -> 1

Kinds == {"wots", "xmss", "fors", "ht", "slh", "msg", "b2b", "conv"}
Toys(kind) == IF kind \in {"b2b", "conv"} THEN {"T1"} ELSE {"T1", "T2"}

CaseOK(c) ==
  CASE c.kind = "wots" -> WotsOK(c.t, <<c.i>>)
    [] c.kind = "xmss" -> XmssOK(c.t, c.i \div 3, <<(c.i % 3) * 100 + 17>>)
    [] c.kind = "fors" -> ForsOK(c.t, <<c.i>>)
    [] c.kind = "ht"   -> HtOK(c.t, c.i \div Pow2(Toy(c.t).hp), c.i % Pow2(Toy(c.t).hp), <<(c.i * 37) % 256>>)
    [] c.kind = "slh"  -> SlhOK(c.t, DG(c.t)[c.i + 1])
    [] c.kind = "msg"  -> MsgOK(c.t, [q \in 1..(c.i % 3) |-> 40 * q + c.i], [q \in 1..(c.i \div 3) |-> 9], <<c.i>>)
    [] c.kind = "b2b"  -> B2bOK((c.i \div 256) + 1, c.i % 256)
    [] c.kind = "conv" -> ConvOK
    [] OTHER -> TRUE

VARIABLE c

Init == c = [kind |-> "root"]
Next ==
  \/ /\ c.kind = "root"
     /\ c' \in {[kind |-> "shard", s |-> s] : s \in 0..(NShards - 1)}
  \/ /\ c.kind = "shard"
     /\ \E kind \in Kinds : \E t \in Toys(kind) :
          c' \in {[kind |-> kind, t |-> t, i |-> i] : i \in {j \in 0..(Count(kind, t) - 1) : j % NShards = c.s}}

Holds == CaseOK(c)
================================================================================
