CONSTANTS
  Fault = "unused_id_shows_in_accessor"
  Wide = TRUE
INIT Init
NEXT Next
INVARIANT ExpectedOnly Lawful
CHECK_DEADLOCK FALSE
