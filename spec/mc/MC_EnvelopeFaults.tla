-------------------------- MODULE MC_EnvelopeFaults --------------------------
(* (M) for X07: every sequence of at most MaxCalls envelope calls -- Encrypt / Decrypt with  *)
(* every input kind, every context state and every behaviour of the remote -- from every      *)
(* constructible configuration (three ways of making the AEAD x three kinds of DEK template     *)
(* x the registered client).  The invariants and step properties speak about one call and the   *)
(* state it starts from; TLC evaluates them for every label in every state reachable by          *)
(* MaxCalls - 1 calls, i.e. for every fault sequence of length <= MaxCalls.                      *)
(* With Fault = "none" the whole contract must hold; MC_EnvelopeFaults_fault_<f>.cfg must each    *)
(* break exactly the clause that states what the fault class undoes.                            *)
EXTENDS EnvelopeFaults, TLC

CONSTANT MaxCalls

MCNext == n < MaxCalls /\ Next

\* vacuity guards (run with MC_EnvelopeFaults_reach.cfg: each must be VIOLATED, i.e. the state is reached)
ReachRecovered ==      \* a healthy Decrypt of an own envelope succeeds right after a failed call of each kind
  ~(n >= 3 /\ last.res = "ok" /\ last.lab.op = "Decrypt" /\ last.lab.i > 1 /\ Len(store) > 1)
ReachPoisoned ==       \* an honest remote refuses the wrong-size wrapping an earlier Encrypt framed
  ~(last.lab.op = "Decrypt" /\ last.lab.kind = "good" /\ last.lab.beh = "ok" /\ last.res = "err"
    /\ last.st0[last.lab.i].form = "trunc")
ReachCtx ==            \* a cancelled context reaches a remote that honours it
  ~(last.lab.ctx = "cancelled" /\ Len(last.calls) = 1 /\ last.res = "err" /\ last.calls[1].ret = <<"err", "ctx">>)
================================================================================
