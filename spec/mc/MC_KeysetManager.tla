---------------------------- MODULE MC_KeysetManager ----------------------------
(* Bounded exhaustive configuration of KeysetManager; also writes every explored   *)
(* transition as one JSON line (the replay plan's raw material) when VERIF_EDGES   *)
(* is set.                                                                         *)
EXTENDS KeysetManager, TLC, Json, IOUtils, CSV

CONSTANTS MaxEntries, MaxHandles, ExtMax

\* every well-formed keyset of at most ExtMax entries may be given from outside (brings DESTROYED/DISABLED keys)
ExtEntries == [id : ID, status : Status, primary : BOOLEAN, req : ID \cup {NoReq}]
External == {es \in UNION {[1..n -> ExtEntries] : n \in 1..ExtMax} : WellFormedKeyset(es)}

MCInit == Init(External)

Bound ==
  /\ \A m \in Mgr : Len(mgr[m].entries) <= MaxEntries
  /\ Len(handles) <= MaxHandles

View == <<mgr, handles>>

LogEdge ==
  \/ "VERIF_EDGES" \notin DOMAIN IOEnv
  \/ CSVWrite("%1$s", <<ToJson([pre |-> [mgr |-> mgr, handles |-> handles], res |-> res',
                               post |-> [mgr |-> mgr', handles |-> handles']])>>, IOEnv.VERIF_EDGES)
MCSpec == MCInit /\ [][Next]_vars
================================================================================
