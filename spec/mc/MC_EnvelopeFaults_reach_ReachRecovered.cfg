CONSTANTS
  Fault = "none"
  MaxCalls = 3
INIT Init
NEXT MCNext
INVARIANT ReachRecovered
CHECK_DEADLOCK FALSE
