CONSTANTS
  Fault = "idreq_always_required"
  Wide = TRUE
INIT Init
NEXT Next
INVARIANT ExpectedOnly Lawful
CHECK_DEADLOCK FALSE
