CONSTANTS
  MaxKeys = 3
  SharedMats = FALSE
  WithImpl = FALSE
INIT Init
NEXT Next
INVARIANT MechanismIsProperty
CHECK_DEADLOCK FALSE
