CONSTANTS
  Fault = "partial"
  MaxCalls = 3
INIT Init
NEXT MCNext
INVARIANTS TypeOK NoPartialOutput
CHECK_DEADLOCK FALSE
