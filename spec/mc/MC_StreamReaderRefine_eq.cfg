\* first segment as large as the others (F = P = 3), N <= 3P+F+1; every short-read pattern
CONSTANTS
  P = 3
  T = 1
  Off = 0
  Hdr <- HdrNone
  MaxN = 13
  MaxChunk = 5
  SinkFails = {0}
  SrcFails = {0}
  ManipMode = "none"
  MaxAppend = 0
  MaxPermSegs = 0
  ReadModes = {"free"}
  Nat <- MCNat
INIT MCInit
NEXT RefNext
VIEW View
INVARIANTS RefInit RefInv RoundTrip
PROPERTY RefStep
CHECK_DEADLOCK FALSE
