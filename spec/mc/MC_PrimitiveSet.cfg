CONSTANTS
  MaxKeys = 3
  SharedMats = FALSE
  WithImpl = TRUE
INIT Init
NEXT Next
INVARIANT MechanismIsProperty
CHECK_DEADLOCK FALSE
