CONSTANTS
  Fault = "none"
  KeyIds = {"k1", "k2"}
  Statuses = {"ENABLED", "DISABLED"}
  MCClasses = {"AEAD", "VERIFY", "STREAM"}
  MCAccessors = {"entryKey", "material", "write"}
  MaxKeys = 2
  MaxHandles = 2
  MaxMgrs = 1
  MaxPrims = 2
  MaxDid = 2
  MaxOpts = 1
INIT Init
NEXT MCNext
CONSTRAINT Bound
VIEW View
INVARIANTS TypeOK NoAnnotationsNoMonitoring LoggerPerFunction EveryCallAccountedOnce LogsNameEnabledKeys FailureNamesNoKey KeyExportsAccounted PublicDropsAnnotations
CHECK_DEADLOCK FALSE
