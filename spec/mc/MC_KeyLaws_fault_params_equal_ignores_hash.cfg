CONSTANTS
  Fault = "params_equal_ignores_hash"
  Wide = TRUE
INIT Init
NEXT Next
INVARIANT ExpectedOnly Lawful
CHECK_DEADLOCK FALSE
