--------------------------------- MODULE MC_DER ---------------------------------
(* Exhaustive check of the strict DER parser (lib/DER.tla) against the encoder on  *)
(* the full product of re-encoding shapes (lib/DERShapes.tla) x integer values      *)
(* around every boundary: 0, 1, 0x7f, 0x80 (needs the sign octet), 0xff.., values   *)
(* whose encodings cross the 127/128 and 255/256 length boundaries.                 *)
(* Every state is one (shape, r, s); the invariant says the parser accepts exactly  *)
(* the byte strings that are the canonical encoding of what it returns.             *)
EXTENDS DERShapes, TLC

CONSTANT MaxDev       \* shapes with at most this many deviations (9 = all 48 000)

Vals == {<<>>, <<1>>, <<127>>, <<128>>, <<255, 255>>, <<0, 0, 5>>,
         Rep(1, 60), Rep(200, 62), Rep(127, 125), Rep(129, 130)}

VARIABLES sh, r, s
Init == sh \in ShapesUpTo(MaxDev) /\ r \in Vals /\ s \in Vals
Next == UNCHANGED <<sh, r, s>>

Judged == ShapeJudged(sh, r, s)
\* at least the default shape is accepted (the check is not vacuous)
Accepting == sh = Default => ParseSig(Build(sh, r, s))[1]
================================================================================
