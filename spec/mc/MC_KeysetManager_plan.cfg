CONSTANTS
  ID = {1, 2, 3}
  Mgr = {1}
  NoReq = 0
  MaxEntries = 2
  MaxHandles = 1
  ExtMax = 1
INIT MCInit
NEXT Next
CONSTRAINT Bound
ACTION_CONSTRAINT LogEdge
VIEW View
INVARIANTS TypeOK HandleWellFormed ManagerInv
CHECK_DEADLOCK FALSE
