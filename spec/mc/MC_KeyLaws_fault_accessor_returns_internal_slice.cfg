CONSTANTS
  Fault = "accessor_returns_internal_slice"
  Wide = TRUE
INIT Init
NEXT Next
INVARIANT ExpectedOnly Lawful
CHECK_DEADLOCK FALSE
