CONSTANTS
  Fault = "sticky"
  MaxCalls = 3
INIT Init
NEXT MCNext
INVARIANTS TypeOK Recovery
CHECK_DEADLOCK FALSE
