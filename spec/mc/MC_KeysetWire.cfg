CONSTANT Size = "full"
INIT Init
NEXT Next
INVARIANT Theorems
CHECK_DEADLOCK FALSE
