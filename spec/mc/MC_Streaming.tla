------------------------------ MODULE MC_Streaming ------------------------------
(* Bounded exhaustive configurations of Streaming (C07).  Also writes every         *)
(* explored transition as one JSON line (raw material of the replay plans) when     *)
(* VERIF_EDGES is set: states are identified by a key of small integers (under the   *)
(* model a state is a function of its key: strings are determined by their lengths,  *)
(* the plaintext length and the manipulation).                                      *)
EXTENDS Streaming, TLC, Json, IOUtils, CSV

CONSTANTS P, T, Off, Hdr,   \* parameters of the encryption (StreamOps)
          MaxN,        \* plaintext lengths 0..MaxN
          MaxChunk,    \* Write / Read sizes 0..MaxChunk
          SinkFails,   \* failure indices of the underlying writer (0 = never)
          SrcFails,    \* failure indices of the underlying reader (0 = never)
          ManipMode,   \* "none": identity only; "all": every manipulation; "two": also every two in succession
          MaxAppend, MaxPermSegs,
          ReadModes    \* how the source resolves calls: {"free"} or a set of fixed policies

HdrNone == <<>>            \* noncebased objects alone
Hdr111  == <<1, 1, 1>>     \* length byte, 1-byte salt, 1-byte nonce prefix

PP == [P |-> P, T |-> T, Off |-> Off, Hdr |-> Hdr, mk |-> 1]
MCInit == Init(PP, SinkFails)

MCNext ==
  \/ NewWriter
  \/ \E n \in 0..MaxChunk : wpos + n <= MaxN /\ Write(n)
  \/ Close
  \/ \E k \in SrcFails, md \in ReadModes : Tamper(<<>>, k, md)
  \/ ManipMode \in {"all", "two"} /\ \E m \in Manips(PP, sink.out, MaxAppend, MaxPermSegs), md \in ReadModes : Tamper(<<m>>, 0, md)
  \/ ManipMode = "two" /\ \E m1 \in Manips(PP, sink.out, MaxAppend, MaxPermSegs), md \in ReadModes :
                            \E m2 \in Manips(PP, Apply(PP, m1, sink.out), MaxAppend, MaxPermSegs) : Tamper(<<m1, m2>>, 0, md)
  \/ NewReader(ScOf(src))
  \/ \E n \in 0..MaxChunk : Read(n, ScOf(src))

View == <<pp, phase, wpos, w, sink, werr, manip, raad, src, r, got, outcome>>

Key == [phase |-> phase, wpos |-> wpos, buf |-> RLen(w.buf), wcnt |-> w.cnt, closed |-> w.closed,
        scalls |-> sink.calls, sfail |-> sink.failFrom, out |-> RLen(sink.out), werr |-> werr,
        manip |-> manip, rfail |-> src.failFrom, mode |-> src.mode, rcalls |-> src.calls, rest |-> RLen(src.rest),
        rcnt |-> r.cnt, avail |-> RLen(r.avail), carry |-> RLen(r.carry), last |-> r.last,
        outcome |-> outcome, got |-> RLen(got)]

LogEdge ==
  \/ "VERIF_EDGES" \notin DOMAIN IOEnv
  \/ CSVWrite("%1$s", <<ToJson([pre |-> Key, res |-> [op |-> res'.op, n |-> res'.n, ret |-> res'.ret, err |-> res'.err,
                                                      m |-> manip', srcFail |-> src'.failFrom, mode |-> src'.mode],
                               post |-> Key'])>>, IOEnv.VERIF_EDGES)
MCSpec == MCInit /\ [][MCNext]_vars
================================================================================
