\* the graph whose every edge is replayed on the real noncebased.Writer/Reader (harness cipher with a 4-byte tag)
CONSTANTS
  P = 3
  T = 4
  Off = 1
  Hdr <- HdrNone
  MaxN = 5
  MaxChunk = 4
  SinkFails = {0,1,2,3}
  SrcFails = {0,1,2,3,4}
  ManipMode = "all"
  MaxAppend = 2
  MaxPermSegs = 3
  ReadModes = {"greedy", "one", "half", "eager"}
INIT MCInit
NEXT MCNext
VIEW View
ACTION_CONSTRAINT LogEdge
INVARIANTS WriterCanonical RoundTrip TamperDetected FaultSurfaces
CHECK_DEADLOCK FALSE
