CONSTANTS
  Fault = "none"
  Wide = FALSE
INIT Init
NEXT Next
INVARIANT ExpectedOnly Lawful
CHECK_DEADLOCK FALSE
