CONSTANTS
  Fault = "kid_not_base64_of_id"
  Wide = TRUE
INIT Init
NEXT Next
INVARIANT ExpectedOnly Lawful
CHECK_DEADLOCK FALSE
