CONSTANTS
  ID = {1, 2}
  Mgr = {1}
  NoReq = 0
  AnnVals = {"k=a"}
  MatIn = {"PRIVATE", "PUBLIC", "SYMMETRIC"}
  MaxEntries = 2
  MaxHandles = 2
  OptMode = "one"
  MaxAnnList = 1
INIT Init
NEXT MCNext
CONSTRAINT Bound
ACTION_CONSTRAINT DerivedLeaf LogEdge
VIEW View
INVARIANTS TypeOK C11_HandleWellFormed C11_ManagerInv
CHECK_DEADLOCK FALSE
