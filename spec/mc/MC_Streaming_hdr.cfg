\* with header (len, salt, prefix = 1+1+1), user offset 1: P=4, first segment 0+... tag 2
CONSTANTS
  P = 4
  T = 2
  Off = 3
  Hdr <- Hdr111
  MaxN = 14
  MaxChunk = 6
  SinkFails = {0}
  SrcFails = {0}
  ManipMode = "all"
  MaxAppend = 5
  MaxPermSegs = 4
  ReadModes = {"free"}
INIT MCInit
NEXT MCNext
VIEW View
INVARIANTS WriterCanonical RoundTrip TamperDetected FaultSurfaces
PROPERTIES ReadProgress
CHECK_DEADLOCK FALSE
