\* noncebased objects alone: P=3, first segment 2, tag 1; every manipulation; every short-read pattern
CONSTANTS
  P = 3
  T = 1
  Off = 1
  Hdr <- HdrNone
  MaxN = 12
  MaxChunk = 5
  SinkFails = {0}
  SrcFails = {0}
  ManipMode = "all"
  MaxAppend = 5
  MaxPermSegs = 4
  ReadModes = {"free"}
INIT MCInit
NEXT MCNext
VIEW View
INVARIANTS WriterCanonical RoundTrip TamperDetected FaultSurfaces
PROPERTIES ReadProgress
CHECK_DEADLOCK FALSE
