--------------------------- MODULE MC_ConcurrencyShared ---------------------------
(* The kind of implementation C18 excludes, as a model: the shared object keeps a       *)
(* scratch buffer that Call fills and Return reads (a cached hash state, a reused        *)
(* cipher stream, a scratch slice).  TLC MUST find an interleaving in which a goroutine   *)
(* is handed a result that differs from the same call executed alone: the run of this     *)
(* module is expected to END WITH A VIOLATION of ConcurrentEqualsAlone (checks/C18.py     *)
(* treats "no error" as a broken check).  It shows the property of Concurrency.tla is not  *)
(* vacuous at the level of the model.                                                      *)
EXTENDS Integers, FiniteSets

G == {1, 2}
Inputs == {1, 2}
F(x) == 100 + x                          \* the deterministic function computed by the primitive
VARIABLES pc, scratch
Idle == [st |-> "idle"]

Init == pc = [g \in G |-> Idle] /\ scratch = 0
Call(g, x) == /\ pc[g].st = "idle"
              /\ scratch' = x                                   \* written into the SHARED object
              /\ pc' = [pc EXCEPT ![g] = [st |-> "called", in |-> x]]
Return(g) == /\ pc[g].st = "called"
             /\ pc' = [pc EXCEPT ![g] = [st |-> "returned", in |-> pc[g].in, out |-> F(scratch)]]
             /\ UNCHANGED scratch
Next == \E g \in G : (\E x \in Inputs : Call(g, x)) \/ Return(g)

ConcurrentEqualsAlone == \A g \in G : pc[g].st = "returned" => pc[g].out = F(pc[g].in)
================================================================================
