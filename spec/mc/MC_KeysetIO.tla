------------------------------ MODULE MC_KeysetIO ------------------------------
(* Bounded exhaustive check of KeysetIO.tla: every well-formed handle of up to MaxLen    *)
(* keys over IDS x statuses x prefixes x material types is written with every writer      *)
(* (format x mode x kek x ad) and the blob is read with every reader; the properties of    *)
(* KeysetIO are invariants of every reachable state.                                      *)
EXTENDS KeysetIO, TLC

CONSTANTS IDS, MaxLen, Keks, Ads, Prefixes

Modes == {[m |-> "cleartext"], [m |-> "noSecrets"]} \cup {[m |-> "encrypted", kek |-> k, ad |-> a] : k \in Keks, a \in Ads}
SecretOf(mat, id) == IF mat \in {"PUBLIC", "REMOTE"} THEN 0 ELSE id + 1
Entries == {[id |-> i, status |-> s, prefix |-> p, url |-> "url-" \o m, mat |-> m, primary |-> b, secret |-> SecretOf(m, i)] :
              i \in IDS, s \in Statuses, p \in Prefixes, m \in Materials, b \in BOOLEAN}
Handles == {h \in UNION {[1..n -> Entries] : n \in 1..MaxLen} : WellFormed(h)}

VARIABLES h, w, blob, r, out
vars == <<h, w, blob, r, out>>
None == [none |-> TRUE]

Init == h \in Handles /\ w = None /\ blob = FailB /\ r = None /\ out = <<>>
DoWrite == /\ w = None
           /\ \E f \in Formats, m \in Modes : w' = [f |-> f, m |-> m] /\ blob' = Write(h, f, m)
           /\ UNCHANGED <<h, r, out>>
DoRead == /\ w # None /\ r = None
          /\ \E f \in Formats, m \in Modes : r' = [f |-> f, m |-> m] /\ out' = Read(blob, f, m)
          /\ UNCHANGED <<h, w, blob>>
Next == DoWrite \/ DoRead

\* ---- invariants
InvRoundTrip == (r # None) => RoundTrip(h, w.f, w.m, r.f, r.m) /\
                  (Matches(w.f, w.m, r.f, r.m) /\ ~IsFailB(blob) /\ ~(r.m.m = "noSecrets" /\ ~NoSecretsOK(h)) => ~IsFail(out) /\ Project(out) = Project(h))
InvNeverDifferent == (r # None) => (IsFail(out) \/ Project(out) = Project(h)) /\ NeverDifferent(h, w.f, w.m, r.f, r.m)
InvEncrypted == (r # None /\ w.m.m = "encrypted" /\ r.m.m = "encrypted" /\ r.f = w.f) =>
                  (~IsFail(out) <=> (r.m.kek = w.m.kek /\ AdNorm(r.m.ad) = AdNorm(w.m.ad)))
InvPublic == PublicPreserves(h)
InvNoSecrets == /\ \A f \in Formats : NoSecretsAgree(h, f)
                /\ (w # None /\ w.m.m = "noSecrets") => (IsFailB(blob) <=> ~NoSecretsOK(h))
                /\ (r # None /\ r.m.m = "noSecrets" /\ ~IsFail(out)) => NoSecretsOK(h)
InvNoLeak == (w # None) => NoLeak(h, w.f, w.m) /\ (w.m.m # "cleartext" => Exposed(blob) = {})
\* a wrong reader never succeeds on an encrypted blob
InvWrongReader == (r # None /\ ~IsFailB(blob) /\ blob.kind = "encrypted" /\ r.m.m # "encrypted") => IsFail(out)
================================================================================
