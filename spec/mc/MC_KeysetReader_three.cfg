CONSTANTS
  MaxN = 7
  MaxChunk = 5
  SrcFails = {0}
  ManipMode = "all"
  MaxAppend = 2
  MaxPermSegs = 3
  ReadModes = {"free"}
  KeysetSizes = {3}
  NShapes = 2
INIT MCInit
NEXT MCNext
VIEW View
INVARIANTS KRoundTrip KTamperDetected KFaultSurfaces
PROPERTIES KReadProgress
CHECK_DEADLOCK FALSE
