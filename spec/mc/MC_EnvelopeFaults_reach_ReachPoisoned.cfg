CONSTANTS
  Fault = "none"
  MaxCalls = 3
INIT Init
NEXT MCNext
INVARIANT ReachPoisoned
CHECK_DEADLOCK FALSE
