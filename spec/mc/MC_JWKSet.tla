-------------------------------- MODULE MC_JWKSet --------------------------------
(* X01, (M): the round-trip theorems of module JWKSet, checked by TLC over small        *)
(* abstract domains.  The module is bound to TOY sizes - curves with coordinates of    *)
(* 1, 2 and 3 octets and a handful of points, RSA moduli from 9 bits - so that TLC can  *)
(* range over EVERY octet string of length 0..2 as a coordinate and over whole          *)
(* products of member values; the base64url codec, the JSON text and the decision       *)
(* procedure are the real ones.  One state per keyset (domain A) or JWK Set (domain B). *)
(* These runs say that the SPECIFICATION is coherent; Trace_JWKSet binds it to the code. *)
(*                                                                                    *)
(*  ExportImport     Export(ks) is accepted by Import without any as-built leniency (but *)
(*                   for an exponent other than 65537 that the key object itself has),   *)
(*                   one key per ENABLED key, and the imported keyset verifies exactly   *)
(*                   the tokens ks verifies - plus, for a key whose kid is derived from   *)
(*                   its id, tokens WITHOUT kid header (a JWK cannot say "kid required")   *)
(*  ExportClean      no private member, no duplicate name, nothing about keys that are    *)
(*                   not ENABLED                                                          *)
(*  ImportExport     Export(Import(j)) ~ j for every accepted j: same kty, crv, alg, kid,  *)
(*                   the same point / the same integers n, e; importing that again gives   *)
(*                   the same keys                                                        *)
(*  ImportPublic     an accepted set has no private member and every key names a          *)
(*                   supported algorithm that fits kty (and crv)                           *)
(*  TextShape        white space does not matter, anything that is not a JSON text is      *)
(*                   refused                                                              *)
(*  UnknownIgnored   members Import does not know do not change its answer [7517 4]        *)
(*  WholeSet         (as built) a set is accepted iff each of its keys alone is            *)
EXTENDS JWKJson, JWS, FiniteSets, SequencesExt, IOUtils

Tier == IF "VERIF_TIER" \in DOMAIN IOEnv THEN IOEnv.VERIF_TIER ELSE "quick"
Full == Tier = "thorough"

ToyCoordLen(crv) == CASE crv = "P-256" -> 1 [] crv = "P-384" -> 2 [] crv = "P-521" -> 3
ToyPoints(crv) == CASE crv = "P-256" -> {<< <<1>>, <<2>> >>, << <<3>>, <<1>> >>, << <<0>>, <<3>> >>}
                    [] crv = "P-384" -> {<< <<1, 2>>, <<3, 1>> >>, << <<0, 3>>, <<1, 0>> >>}
                    [] crv = "P-521" -> {<< <<1, 2, 3>>, <<3, 2, 1>> >>}
ToyOnCurve(crv, x, y) == <<x, y>> \in ToyPoints(crv)

INSTANCE JWKSet WITH JwkCoordLen <- ToyCoordLen, JwkOnCurve <- ToyOnCurve, JwkMinModulusBits <- 9

B64S(b) == JStr(B64UrlEncode(b))

\* ------------------------------------------------------------------ domain A: keysets
Algs == {"ES256", "ES384", "RS256", "PS256"}
PubsOf(alg) == IF alg \in JWSEcAlgs THEN {[x |-> p[1], y |-> p[2]] : p \in ToyPoints(JwkCrvOf(alg))}
               ELSE {[n |-> <<1, 1>>, e |-> F4], [n |-> <<0, 3, 5>>, e |-> F4], [n |-> <<1, 1>>, e |-> <<1, 0, 3>>]}
Id1 == <<1, 2, 3, 4>>
Id2 == <<255, 255, 255, 254>>
KidA == StrToBytes("a")
StratVariants == {<<"TINK", Id1, <<>>>>, <<"TINK", Id2, <<>>>>, <<"CUSTOM", Id1, KidA>>,
                  <<"CUSTOM", Id2, B64UrlEncode(Id1)>>, <<"CUSTOM", Id2, <<>>>>, <<"IGNORED", Id1, <<>>>>}
Statuses == {"ENABLED", "DISABLED", "DESTROYED"}
Key(kind, alg, sv, st, pv, pub) == [kind |-> kind, alg |-> alg, strat |-> sv[1], id |-> sv[2], kid |-> sv[3], status |-> st,
                                    priv |-> pv, pub |-> pub]
AllKeys == UNION {{Key(kp[1], a, sv, st, kp[2], pub) : kp \in {<<"jwt", FALSE>>, <<"jwt", TRUE>>, <<"hmac", FALSE>>},
                                                      sv \in StratVariants, st \in Statuses, pub \in PubsOf(a)} : a \in Algs}
FewKeys == {k \in AllKeys : k.alg \in {"ES256", "RS256"} /\ k.id = Id1 /\ (k.kind = "jwt")
                            /\ k.pub \in {[x |-> <<1>>, y |-> <<2>>], [n |-> <<1, 1>>, e |-> F4]}}
Keysets == {[keys |-> <<k>>, primary |-> 1] : k \in {k \in AllKeys : k.status = "ENABLED"}}
           \cup {[keys |-> <<k1, k2>>, primary |-> IF k1.status = "ENABLED" THEN 1 ELSE 2]
                   : k1 \in (IF Full THEN AllKeys ELSE FewKeys), k2 \in {k \in AllKeys : Full \/ k.id = Id2}}
\* (keysets without an ENABLED key do not exist: the primary is ENABLED)
ValidKeyset(ks) == ks.keys[ks.primary].status = "ENABLED"

\* tokens that could be shown to a verifier of ks: every algorithm, key material and kid around its keys
TokensAround(ks) ==
  LET ix == 1..Len(ks.keys) IN
  {[alg |-> a, pub |-> ks.keys[i].pub, kid |-> kd]
     : a \in {ks.keys[i].alg : i \in ix} \cup {"ES256"}, i \in ix,
       kd \in {J!Absent, J!Str(StrToBytes("zz"))} \cup {J!Str(JwkKidBytes(ks.keys[j])) : j \in ix}}
PubFits(alg, pub) == IF alg \in JWSEcAlgs THEN "x" \in DOMAIN pub ELSE "n" \in DOMAIN pub
TinkTwin(ks, t) == \E i \in 1..Len(ks.keys) :
                     LET k == ks.keys[i] IN k.kind = "jwt" /\ k.status = "ENABLED" /\ k.strat = "TINK" /\ k.alg = t.alg /\ JwkSamePub(k, t)

ExportImport(ks) ==
  ~JwkExportRefused(ks) =>
    LET r == JwkImport("object", JwkExportSet(ks))
        im == JwkImportedKeyset(r)
    IN /\ JwkAccepted(r) /\ r.gp \subseteq {"e other than 65537"}     \* (a key object may carry such an exponent)
       /\ Len(r.keys) = Len(JwkEnabled(ks))
       /\ \A i \in 1..Len(r.keys) : JwkKeyAccepts(r.keys[i], JwkTokenOf(JwkEnabled(ks)[i]))
       /\ \A t \in TokensAround(ks) : PubFits(t.alg, t.pub) =>
            (JwkKeysetAccepts(im, t) <=> (JwkKeysetAccepts(ks, t) \/ (t.kid = J!Absent /\ TinkTwin(ks, t))))
ExportClean(ks) ==
  ~JwkExportRefused(ks) =>
    LET ex == JwkExportKeys(ks) IN
    /\ \A i \in 1..Len(ex) : JNames(ex[i]) \cap JwkAllPrivNames = {} /\ ~JDup(ex[i]) /\ JwkUseOK(ex[i]) /\ JwkOpsOK(ex[i])
    /\ \A i \in 1..Len(ex) : \E j \in 1..Len(ks.keys) : ks.keys[j].status = "ENABLED" /\ JwkDocView(ex[i]) = JwkDocViewOfKey(ks.keys[j])
    /\ Len(ex) = Len(JwkEnabled(ks))

\* ------------------------------------------------------------------ domain B: JWK Sets
Jwk(ms) == JObj(JPresent(ms))
M(n, v) == JMem(n, v)
GoodEc256 == <<M("x", B64S(<<1>>)), M("y", B64S(<<2>>))>>
GoodEc384 == <<M("x", B64S(<<1, 2>>)), M("y", B64S(<<3, 1>>))>>
GoodRsa   == <<M("n", B64S(<<1, 1>>)), M("e", B64S(F4))>>
V == JS("verify")
KtyV == {JAbsent, JS("EC"), JS("RSA"), JS("oct")}
AlgV == {JAbsent, JS("ES256"), JS("ES384"), JS("RS256"), JS("PS256"), JS("HS256"), JNum("1")}
CrvV == {JAbsent, JS("P-256"), JS("P-384")}
UseV == {JAbsent, JS("sig"), JS("enc")}
OpsV == {JAbsent, JList(<<V>>), JList(<<JS("sign")>>), JList(<<V, JS("sign")>>), JList(<<V, V>>), V}
KidV == {JAbsent, JS("a"), JS(""), JNum("1")}
MetaJwks == {Jwk(<<M("kty", kty), M("alg", alg), M("crv", crv), M("use", use), M("key_ops", ops), M("kid", kid)>> \o mat)
               : kty \in KtyV, alg \in AlgV, crv \in CrvV, use \in (IF Full THEN UseV ELSE {JAbsent, JS("enc")}),
                 ops \in (IF Full THEN OpsV ELSE {JAbsent, JList(<<V>>), JList(<<JS("sign")>>)}), kid \in KidV,
                 mat \in {GoodEc256, GoodEc384, GoodRsa, GoodEc256 \o GoodRsa}}
\* every octet string of length 0..2 over {0, 1, 3}, and a few spellings that are not plain base64url
Octs == {<<>>} \cup {<<a>> : a \in {0, 1, 2, 3}} \cup {<<a, b>> : a \in {0, 1, 3}, b \in {0, 1, 2, 3}}
CoordV == {B64S(b) : b \in Octs} \cup {JAbsent, JNum("1"), JStr(StrToBytes("AQ==")), JStr(StrToBytes("AR")), JStr(StrToBytes("A+"))}
EcJwks == {Jwk(<<M("kty", JS("EC")), M("alg", JS(a)), M("crv", JS(JwkCrvOf(a))), M("x", x), M("y", y), M("d", d)>>)
             : a \in {"ES256", "ES384"}, x \in CoordV, y \in CoordV, d \in {JAbsent, JS("AQ")}}
ModV == {B64S(<<1, 1>>), B64S(<<0, 1, 1>>), B64S(<<255>>), B64S(<<1, 0>>), B64S(<<>>), JStr(StrToBytes("AQF")), JStr(StrToBytes("AQE=")),
         JAbsent, JNum("257")}
ExpV == {B64S(F4), B64S(<<0, 1, 0, 1>>), B64S(<<3>>), B64S(<<1>>), B64S(<<1, 0, 2>>), B64S(<<1, 0, 3>>), B64S(<<127, 255, 255, 255>>),
         B64S(<<128, 0, 0, 1>>), B64S(<<>>), JAbsent}
RsaJwks == {Jwk(<<M("kty", JS("RSA")), M("alg", JS(a)), M("n", n), M("e", e)>> \o [i \in 1..Len(pv) |-> M(pv[i], JS("AQ"))])
              : a \in {"RS256", "PS256"}, n \in ModV, e \in ExpV, pv \in {<<>>, <<"d">>, <<"p">>, <<"oth">>, <<"d", "p", "oth">>, <<"x">>}}
PairPool == <<Jwk(<<M("kty", JS("EC")), M("alg", JS("ES256")), M("crv", JS("P-256"))>> \o GoodEc256),
              Jwk(<<M("kty", JS("RSA")), M("alg", JS("RS256")), M("kid", JS("a"))>> \o GoodRsa),
              Jwk(<<M("kty", JS("EC")), M("alg", JS("ES256")), M("crv", JS("P-256")), M("use", JS("enc"))>> \o GoodEc256),
              Jwk(<<M("kty", JS("RSA")), M("n", B64S(<<1, 1>>)), M("e", B64S(F4))>>),
              Jwk(<<M("kty", JS("RSA")), M("alg", JS("PS256")), M("n", B64S(<<1, 1>>)), M("e", B64S(<<1, 0, 3>>))>>),
              JNull>>
SetOf(js) == JObj(<<M("keys", JList(js))>>)
JwkSets == {SetOf(<<j>>) : j \in MetaJwks \cup EcJwks \cup RsaJwks}
           \cup {SetOf(<<PairPool[i], PairPool[j]>>) : i, j \in 1..Len(PairPool)}
           \cup {SetOf(<<>>), JObj(<<>>), JObj(<<M("keys", JNull)>>), JList(<<>>), JNull}

Elems(top) == IF top.k = "obj" /\ JGet(top, "keys").k = "list" THEN JGet(top, "keys").l ELSE <<>>
Dec(v) == JwkB64(v).bytes
Equiv(a, j) ==
  /\ JGet(a, "kty") = JGet(j, "kty") /\ JGet(a, "alg") = JGet(j, "alg") /\ JGet(a, "kid") = JGet(j, "kid")
  /\ IF JIsS(JGet(j, "kty"), "EC")
     THEN JGet(a, "crv") = JGet(j, "crv") /\ Dec(JGet(a, "x")) = Dec(JGet(j, "x")) /\ Dec(JGet(a, "y")) = Dec(JGet(j, "y"))
     ELSE RSAStrip(Dec(JGet(a, "n"))) = RSAStrip(Dec(JGet(j, "n"))) /\ RSAStrip(Dec(JGet(a, "e"))) = RSAStrip(Dec(JGet(j, "e")))
SameKeys(a, b) == /\ Len(a) = Len(b)
                  /\ \A i \in 1..Len(a) : a[i].alg = b[i].alg /\ a[i].strat = b[i].strat /\ a[i].kid = b[i].kid /\ JwkSamePub(a[i], b[i])

ImportExport(top) ==
  LET r == JwkImport("object", top) IN
  JwkAccepted(r) =>
    LET ks2 == JwkImportedKeyset(r)
        ex == JwkExportKeys(ks2)
        again == JwkImport("object", JwkExportSet(ks2))
    IN /\ ~JwkExportRefused(ks2)
       /\ Len(ex) = Len(Elems(top))
       /\ \A i \in 1..Len(ex) : Equiv(ex[i], Elems(top)[i])
       /\ JwkAccepted(again) /\ SameKeys(again.keys, r.keys)
       \* the second time only leniencies about the VALUE of the key are left, none about its spelling
       /\ again.gp \subseteq {"e other than 65537", "even modulus"}
ImportPublic(top) ==
  LET r == JwkImport("object", top) IN
  JwkAccepted(r) =>
    \A i \in 1..Len(Elems(top)) :
      LET j == Elems(top)[i]
          a == JwkAlgName(JGet(j, "alg"))
      IN /\ a # "" /\ JIsS(JGet(j, "kty"), JwkFam(a)) /\ (JwkFam(a) = "EC" => JIsS(JGet(j, "crv"), JwkCrvOf(a)))
         /\ JNames(j) \cap JwkPrivNames(JwkFam(a)) = {}
         /\ (JGet(j, "use").k = "absent" \/ JIsS(JGet(j, "use"), "sig"))
TextShape(top) ==
  /\ JwkImport("ws", top).verdict = JwkImport("object", top).verdict
  /\ \A s \in JShapes \ {"object", "ws"} : JwkImport(s, top).verdict = "reject"
WithUnknown(top) ==
  IF top.k # "obj" THEN top
  ELSE JObj([i \in 1..Len(top.m) |->
         IF top.m[i].n = "keys" /\ top.m[i].v.k = "list"
         THEN M("keys", JList([q \in 1..Len(top.m[i].v.l) |->
                 LET j == top.m[i].v.l[q] IN
                 IF j.k = "obj" THEN JObj(<<M("x5c", JList(<<JS("AQ")>>))>> \o j.m \o <<M("ext", JTrue)>>) ELSE j]))
         ELSE top.m[i]] \o <<M("version", JNum("2"))>>)
UnknownIgnored(top) ==
  LET r == JwkImport("object", top)
      u == JwkImport("object", WithUnknown(top))
  IN u.verdict = r.verdict /\ u.keys = r.keys
WholeSet(top) ==
  Len(Elems(top)) >= 1 =>
    (JwkAccepted(JwkImport("object", top)) <=> \A i \in 1..Len(Elems(top)) : JwkAccepted(JwkImport("object", SetOf(<<Elems(top)[i]>>))))

\* ------------------------------------------------------------------ one state per element of a domain
VARIABLE c
MCInit == \/ \E ks \in Keysets : ValidKeyset(ks) /\ c = [t |-> "ks", ks |-> ks]
          \/ \E top \in JwkSets : c = [t |-> "jwk", top |-> top]
MCNext == UNCHANGED c

InvExportImport  == c.t = "ks" => ExportImport(c.ks)
InvExportClean   == c.t = "ks" => ExportClean(c.ks)
InvImportExport  == c.t = "jwk" => ImportExport(c.top)
InvImportPublic  == c.t = "jwk" => ImportPublic(c.top)
InvTextShape     == c.t = "jwk" => TextShape(c.top)
InvUnknownIgnored == c.t = "jwk" => UnknownIgnored(c.top)
InvWholeSet      == c.t = "jwk" => WholeSet(c.top)
\* the domains are not degenerate: every verdict occurs among the RSA sets alone, export is refused and granted
ASSUME {JwkImport("object", SetOf(<<j>>)).verdict : j \in RsaJwks} = {"reject", "reject*", "accept*", "accept"}
ASSUME {JwkImport("object", SetOf(<<j>>)).verdict : j \in EcJwks} = {"reject", "reject*", "accept*", "accept"}
ASSUME {JwkExportRefused(ks) : ks \in {k \in Keysets : ValidKeyset(k) /\ Len(k.keys) = 1}} = BOOLEAN
================================================================================
