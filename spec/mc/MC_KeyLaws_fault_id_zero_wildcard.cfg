CONSTANTS
  Fault = "id_zero_wildcard"
  Wide = TRUE
INIT Init
NEXT Next
INVARIANT ExpectedOnly Lawful
CHECK_DEADLOCK FALSE
