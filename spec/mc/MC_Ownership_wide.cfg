CONSTANTS
  Faults = {}
  Shapes <- ShapeWide
  MaxSteps = 5
INIT MCInit
NEXT MCNext
INVARIANTS NoForeignWrite LibraryValuesStable NoSharing
PROPERTIES CallLeavesCallerMemory ScribbleLeavesLibrary
CHECK_DEADLOCK FALSE
