\* constants of MC_Streaming_fault: header, P=4, first segment 1, underlying writer failing from call 1..7
CONSTANTS
  P = 4
  T = 1
  Off = 3
  Hdr <- Hdr111
  MaxN = 10
  MaxChunk = 5
  SinkFails = {0,1,2,3,4,5,6,7}
  SrcFails = {0}
  ManipMode = "none"
  MaxAppend = 0
  MaxPermSegs = 0
  ReadModes = {"free"}
  Nat <- MCNat
INIT MCInit
NEXT RefNext
VIEW View
INVARIANTS AbsInv AbsCanonical WriterCanonical
PROPERTY AbsSpec
CHECK_DEADLOCK FALSE
