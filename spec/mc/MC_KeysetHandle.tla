---------------------------- MODULE MC_KeysetHandle ----------------------------
(* Bounded exhaustive configurations of KeysetHandle.  The option lists that        *)
(* AddKeyWithOpts is tried with are chosen by OptMode:                               *)
(*   "all2"  every list of at most 2 options        (73 lists for 3 ids)              *)
(*   "all3"  every list of at most 3 options        (585 lists)                       *)
(*   "one"   every list of at most 1 option         (9 lists)                         *)
(*   "canon" every combination {status?, fixed?, primary?} in that order (40 lists)   *)
(*   "order" canon and the order-sensitive pairs (an option given twice, AsPrimary    *)
(*           before WithStatus, WithFixedID before/after the others)  (85 lists)      *)
(* With VERIF_EDGES set every explored transition is written as one JSON line (the    *)
(* raw material of the replay plan).                                                  *)
EXTENDS KeysetHandle, TLC, Json, IOUtils, CSV

CONSTANTS MaxEntries, MaxHandles, OptMode, MaxAnnList

Lists(S, n) == UNION {[1..k -> S] : k \in 0..n}

StatusOpts == {o \in Opt : o.o = "status"}
FixedOpts  == {o \in Opt : o.o = "fixed"}
PrimOpt    == [o |-> "primary", s |-> "", id |-> NoReq]
Maybe(S)   == {<<>>} \cup {<<x>> : x \in S}

Canon == {a \o b \o c : a \in Maybe(StatusOpts), b \in Maybe(FixedOpts), c \in Maybe({PrimOpt})}
Order ==
  Canon
  \cup {<<PrimOpt, s>> : s \in StatusOpts}                       \* AsPrimary first, status later
  \cup {<<s, t>> : s \in StatusOpts, t \in StatusOpts}            \* the later status wins
  \cup {<<f, g>> : f \in FixedOpts, g \in FixedOpts}              \* the later id wins (or the first conflicts)
  \cup {<<f, s>> : f \in FixedOpts, s \in StatusOpts}
  \cup {<<PrimOpt, PrimOpt>>}
  \cup {<<PrimOpt, f>> : f \in FixedOpts}

OptListsMC == CASE OptMode = "all2"  -> Lists(Opt, 2)
                [] OptMode = "all3"  -> Lists(Opt, 3)
                [] OptMode = "one"   -> Lists(Opt, 1)
                [] OptMode = "canon" -> Canon
                [] OptMode = "order" -> Order
AnnListsMC == Lists(Ann, MaxAnnList)

MCNext      == Next(OptListsMC, AnnListsMC)
MCNextNoDev == NextNoDev(OptListsMC, AnnListsMC)

Bound ==
  /\ \A m \in Mgr : Len(mgr[m].entries) <= MaxEntries
  /\ Len(handles) <= MaxHandles

View == <<mgr, handles, kx, hx>>

(* ---- decision table of AddKeyWithOpts: one call, with every option list of OptMode, every ID      *)
(* requirement and every draw, from each of a few representative manager states (no handles)        *)
DE(id, st, p, r) == [id |-> id, status |-> st, primary |-> p, req |-> r]
DecisionStates == {
  [entries |-> <<>>, unavail |-> {}],
  [entries |-> <<>>, unavail |-> {1}],                                                          \* a burnt id
  [entries |-> <<DE(1, "ENABLED", TRUE, 1)>>, unavail |-> {1}],
  [entries |-> <<DE(1, "ENABLED", TRUE, NoReq), DE(2, "DISABLED", FALSE, 2)>>, unavail |-> {1, 2}],
  [entries |-> <<DE(2, "ENABLED", FALSE, 2), DE(1, "DESTROYED", FALSE, NoReq)>>, unavail |-> {1, 2, 3}],   \* no primary, no id left
  [entries |-> <<DE(3, "ENABLED", FALSE, 3), DE(1, "ENABLED", TRUE, 1)>>, unavail |-> {1, 3}] }
DecisionInit ==
  /\ mgr \in {[m \in Mgr |-> s] : s \in DecisionStates}
  /\ handles = <<>> /\ hx = <<>>
  /\ res = Ok("Init", AnyMgr, NoReq)
  /\ kx = [m \in Mgr |-> [mat |-> [i \in M!Ids(mgr[m].entries) |-> "SYMMETRIC"], ann |-> AnnNil]]
  /\ io = Call(None, None)
MCNextOpts ==
  /\ res.op = "Init"              \* only the initial states are expanded (res is part of the state there: no VIEW)
  /\ \E m \in Mgr, r \in ID \cup {NoReq}, opts \in OptListsMC :
       \/ AddOptsRefused(m, r, opts) \/ AddOptsCollision(m, r, opts) \/ AddOptsCollisionClearsPrimary(m, r, opts)
       \/ \E mat \in MatIn, d \in ID : AddOptsOk(m, r, mat, opts, d)

(* ---- table of the handle-level API: every well-formed keyset of at most MaxEntries keys (every     *)
(* status, ID requirement, kind of material per key, every annotation value) as a manager that has  *)
(* just handed it out; then every accessor / Public() / constructor on that handle, and every        *)
(* accessor on the handle derived from it.                                                            *)
HEntrySet    == [id : ID, status : M!Status, primary : BOOLEAN, req : ID \cup {NoReq}]
HandleValues == {es \in UNION {[1..n -> HEntrySet] : n \in 1..MaxEntries} : M!WellFormedKeyset(es)}
HandleInit ==
  /\ \E es \in HandleValues : \E mt \in [M!Ids(es) -> MatIn] : \E a \in Ann :
        /\ mgr = [m \in Mgr |-> [entries |-> es, unavail |-> M!Ids(es)]]
        /\ kx = [m \in Mgr |-> [mat |-> mt, ann |-> a]]
        /\ handles = <<es>>
        /\ hx = <<[mat |-> mt, ann |-> a]>>
  /\ res = Ok("Init", AnyMgr, NoReq)
  /\ io = Call(None, None)
MCNextHandle == HandleOps(AnnListsMC)
\* ACTION_CONSTRAINT: a second handle is derived from the first; nothing is derived from the second
HandlePhase == Len(handles') <= 2 /\ (Len(handles) = 2 => Len(handles') = 2)

(* ---- derived handles as leaves (ACTION_CONSTRAINT): a second handle comes only from Public() or a   *)
(* constructor applied to the first, and once there are two, only handle-level calls follow.           *)
GrowOps == {"HPublic", "Import", "ImportAnn"}
DerivedLeaf ==
  /\ Len(handles') = 2 /\ Len(handles) = 1 => res'.op \in GrowOps
  /\ Len(handles) = 2 => res'.op \in PureOps \cup GrowOps

\* manager-centred replay graph: a state with a handle is only used to start a manager over from it
HandleLeaf == Len(handles) >= 1 => res'.op = "FromHandle"

StateJson(g, hs, k, x) ==
  [mgr |-> [m \in Mgr |-> [entries |-> HView(g[m].entries, k[m]), unavail |-> g[m].unavail, ann |-> k[m].ann]],
   handles |-> [h \in DOMAIN hs |-> [entries |-> HView(hs[h], x[h]), ann |-> x[h].ann]]]

LogEdge ==
  \/ "VERIF_EDGES" \notin DOMAIN IOEnv
  \/ CSVWrite("%1$s", <<ToJson([pre |-> StateJson(mgr, handles, kx, hx), res |-> res', io |-> io',
                               post |-> StateJson(mgr', handles', kx', hx')])>>, IOEnv.VERIF_EDGES)
================================================================================
