CONSTANTS
  Fault = "none"
  MaxCalls = 4
INIT Init
NEXT MCNext
INVARIANTS TypeOK FaultSurfaces NoPartialOutput RemoteCallAccounting RemoteArguments FreshDEK EncryptStores DecryptSound ContextPassedAlong Recovery
PROPERTIES RecoveryStep NoHiddenState
CHECK_DEADLOCK FALSE
