CONSTANTS
  ID = {1, 2, 3}
  Mgr = {1}
  NoReq = 0
  AnnVals = {}
  MatIn = {"SYMMETRIC"}
  MaxEntries = 3
  MaxHandles = 0
  OptMode = "all2"
  MaxAnnList = 0
INIT DecisionInit
NEXT MCNextOpts
ACTION_CONSTRAINT LogEdge
INVARIANTS TypeOK C11_ManagerInv
PROPERTIES OnlyTheDeviationBreaksIt OnlyTheDeviationLosesPrimary AddOptsPost C11_IdsStayUnavailable C11_PrimaryProtected
CHECK_DEADLOCK FALSE
