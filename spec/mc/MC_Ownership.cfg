CONSTANTS
  Faults = {}
  Shapes <- ShapeFull
  MaxSteps = 6
INIT MCInit
NEXT MCNext
INVARIANTS NoForeignWrite LibraryValuesStable NoSharing
PROPERTIES CallLeavesCallerMemory ScribbleLeavesLibrary
CHECK_DEADLOCK FALSE
