CONSTANTS
  Fault = "accepts_nonzero_id"
  Wide = TRUE
INIT Init
NEXT Next
INVARIANT ExpectedOnly Lawful
CHECK_DEADLOCK FALSE
