CONSTANTS
  MaxLen = 3
  MinEvents <- McMinEvents
INIT MCInit
NEXT MCNext
INVARIANTS MonitorIsHistory NoRepeatIsDistinctness BitMonitorIsHistory VerdictsAgree FamilyIsSubHistories
PROPERTIES RepeatsNeverForgotten
CHECK_DEADLOCK FALSE
