CONSTANTS
  Fault = "swallow"
  MaxCalls = 3
INIT Init
NEXT MCNext
INVARIANTS TypeOK FaultSurfaces
CHECK_DEADLOCK FALSE
