CONSTANT Level = 0
INIT Init
NEXT Next
INVARIANT Holds
CHECK_DEADLOCK FALSE
