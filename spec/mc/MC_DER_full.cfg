CONSTANT MaxDev = 9
INIT Init
NEXT Next
INVARIANT Judged
INVARIANT Accepting
CHECK_DEADLOCK FALSE
