---------------------------- MODULE MC_MLDSAArith ----------------------------
(* Model check of the reference itself (no code involved): the statements FIPS   *)
(* 204 makes about its own rounding / hint / NTT / packing functions must hold   *)
(* for the TLA+ transcription before it is allowed to judge code.                *)
(*                                                                                *)
(* States: r ranges over a sample of Z_q (every Stride-th element plus the       *)
(* neighbourhoods of all branch boundaries), s over seeds of sample polynomials. *)
(* Every invariant is a lemma of the standard:                                   *)
(*   section 7.4  r = r1*2^d + r0, -2^(d-1) < r0 <= 2^(d-1)          (Power2Round) *)
(*                r = r1*2*gamma2 + r0 (mod q), r0 in (-gamma2, gamma2], or the  *)
(*                q-1 wrap with r1 = 0, r0 in [-gamma2, 0)            (Decompose) *)
(*   Lemma (UseHint/MakeHint)  UseHint(MakeHint(z, r), r) = HighBits(r + z) for  *)
(*                ||z|| <= gamma2; ||r - UseHint(h, r)*2*gamma2|| <= 2*gamma2+1,  *)
(*                and <= gamma2 + 1 for h = 0... checked as stated below         *)
(*   section 7.5  NTT^-1(NTT(w)) = w;  NTT(a*b) = NTT(a) o NTT(b);  NTT is the   *)
(*                evaluation at zeta^(2*BitRev8(i)+1)                             *)
(*   section 7.2  Unpack(Pack(w)) = w for every bit width used                   *)
(*   2.3          the 32-bit-safe product MulQ equals shift-and-add MulQBin      *)
EXTENDS MLDSASample

CONSTANTS Stride, NPoly

VARIABLES r, s
vars == <<r, s>>

G1 == (Q - 1) \div 88
G2 == (Q - 1) \div 32

Near(c) == {x \in c - 3 .. c + 3 : x >= 0 /\ x < Q}
Boundaries ==
  UNION ({Near(0), Near(Q - 1), Near((Q - 1) \div 2), Near(2 ^ 22), Near(2 ^ 12), Near(Q - 2 ^ 12)}
         \cup {Near(k * G1) : k \in 0 .. 88} \cup {Near(k * G2) : k \in 0 .. 32}
         \cup {Near(k * (2 ^ 12)) : k \in {1, 2, 3, 1023, 1024, 1025, 2043, 2044, 2045}})
Samples == Boundaries \cup {k * Stride + (((k % Stride) * 7919) % Stride) : k \in 0 .. ((Q - 1) \div Stride) - 1}

Init == \/ r \in Samples /\ s = 0
        \/ r = 0 /\ s \in 1 .. NPoly
Next == UNCHANGED vars

-----------------------------------------------------------------------------
Power2RoundLemma ==
  LET p == Power2Round(r) IN
  /\ r = p[1] * (2 ^ D) + p[2]
  /\ -(2 ^ (D - 1)) < p[2] /\ p[2] <= 2 ^ (D - 1)
  /\ p[1] >= 0 /\ p[1] <= 1023

DecomposeOK(g) ==
  LET p == Decompose(r, g)
      m == (Q - 1) \div (2 * g) IN
  /\ (p[1] * 2 * g + p[2]) % Q = r
  /\ p[1] >= 0 /\ p[1] < m
  /\ -g <= p[2] /\ p[2] <= g
  /\ (p[2] = -g => p[1] = 0)                       \* only the q-1 wrap reaches -gamma2
  /\ HighBits(r, g) = p[1] /\ LowBits(r, g) = p[2]
DecomposeLemma == DecomposeOK(G1) /\ DecomposeOK(G2)

\* z with ||z|| <= gamma2 (as residues): boundary values and a few in between
ZSet(g) == {0, 1, 2, g - 1, g, 78, 196, g \div 2, Q - 1, Q - 2, Q - g, Q - g + 1, Q - 78, Q - (g \div 2)}

\* FIPS 204 Lemma: UseHint(MakeHint(z, r), r) = HighBits(r + z)
HintOK(g) == \A z \in ZSet(g) : UseHint(MakeHint(z, r, g), r, g) = HighBits((r + z) % Q, g)
\* ... and || r - UseHint(h, r) * 2 gamma2 ||_inf <= 2 gamma2 + 1 (<= gamma2 + 1 for h = 0)
UseHintNear(g) ==
  /\ NormQ((r - UseHint(0, r, g) * 2 * g) % Q) <= g + 1
  /\ NormQ((r - UseHint(1, r, g) * 2 * g) % Q) <= 2 * g + 1
  /\ UseHint(0, r, g) = HighBits(r, g)
  /\ UseHint(1, r, g) \in 0 .. ((Q - 1) \div (2 * g)) - 1
  /\ UseHint(1, r, g) # HighBits(r, g)
HintLemma == HintOK(G1) /\ HintOK(G2) /\ UseHintNear(G1) /\ UseHintNear(G2)

NormLemma ==
  /\ NormQ(r) = NormQ((Q - r) % Q)
  /\ NormQ(r) <= (Q - 1) \div 2
  /\ NormQ(r) = (IF r <= (Q - 1) \div 2 THEN r ELSE Q - r)

MulSet == {0, 1, 2, 255, 256, 65535, 65536, 1753, 8347681, 4190208, 4190209, Q - 2, Q - 1, (r * 3 + 1) % Q, (Q - r) % Q}
MulLemma == \A b \in MulSet : MulQ(r, b) = MulQBin(r, b) /\ MulQ(b, r) = MulQ(r, b)

-----------------------------------------------------------------------------
Wp(seed) == Fn([i \in Idx |-> (PowQ(seed + 2, (i % 23) + 1) + i * 31 + MulQ(i * i, seed * 7919 + 1)) % Q])
Sm(seed, a, b) == Fn([i \in Idx |-> ((i * 13 + seed * 7 + ((i * i) % 11)) % (a + b + 1)) - a])   \* coefficients in -a..b

NTTLemma ==
  s > 0 =>
    LET a == Wp(s)  b == Wp(s + 100) IN
    /\ InvNTT(NTT(a)) = a
    /\ NTT(InvNTT(a)) = a
    /\ NTT(a) = NTTDef(a)
    /\ InvNTT(MultiplyNTT(NTT(a), NTT(b))) = NegacyclicMul(a, b)
    /\ NTT(PolyAdd(a, b)) = AddNTT(NTT(a), NTT(b))

PackLemma ==
  s > 0 =>
    /\ \A b \in {1023, 43, 15} :
         LET w == Sm(s, 0, b) IN SimpleBitUnpack(SimpleBitPack(w, b), b) = w
    /\ \A ab \in {<<2, 2>>, <<4, 4>>, <<4095, 4096>>, <<131071, 131072>>, <<524287, 524288>>} :
         LET w == Sm(s, ab[1], ab[2]) IN BitUnpack(BitPack(w, ab[1], ab[2]), ab[1], ab[2]) = w
    /\ \A nm \in {"44", "65", "87"} :
         LET P == ParamSet(nm)
             \* a hint vector with exactly min(omega, 3 s) ones spread over the polynomials
             h == Fn([i \in 0 .. P.k - 1 |-> Fn([j \in Idx |-> IF (j * P.k + i) % 97 = s % 97 /\ (j * P.k + i) < 97 * P.omega THEN 1 ELSE 0])])
             u == HintBitUnpack(HintBitPack(h, P), P)
         IN  VecOnes(h) <= P.omega => (u.ok /\ u.h = h)
=============================================================================
