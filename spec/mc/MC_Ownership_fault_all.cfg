CONSTANTS
  Faults = {"stores-input", "returns-internal", "writes-caller-capacity", "writes-caller-data", "returns-input"}
  Shapes <- ShapeFull
  MaxSteps = 4
INIT MCInit
NEXT MCNext
INVARIANTS NoForeignWrite LibraryValuesStable
CHECK_DEADLOCK FALSE
