CONSTANTS Stride = 4099 NPoly = 2
INIT Init
NEXT Next
INVARIANTS Power2RoundLemma DecomposeLemma HintLemma NormLemma MulLemma NTTLemma PackLemma
CHECK_DEADLOCK FALSE
