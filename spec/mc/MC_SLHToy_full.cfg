CONSTANT Level = 1
INIT Init
NEXT Next
INVARIANT Holds
CHECK_DEADLOCK FALSE
