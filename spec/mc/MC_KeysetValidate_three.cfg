\* quick: three keys over a small per-key domain (ids 3, statuses 2, prefixes 2, data 2) + nil key - the smallest
\* scope in which a repeated id is not already excluded by "exactly one key carries the primary id"
CONSTANTS
  ID = {1, 2, 3}
  Fresh = 9
  MaxKeys = 3
  StatusMC = {"ENABLED", "DISABLED"}
  PrefixMC = {"TINK", "UNKNOWN_PREFIX"}
  DataMC = {"ok", "nil"}
INIT Init
NEXT Next
VIEW View
INVARIANTS RuleIsCode ValidProjectsWellFormed NamedDefectsRejected RejectedHasReason SerializationNeutral EntryPointsSafe
PROPERTIES BreakingBreaks HarmlessKeeps
CHECK_DEADLOCK FALSE
