--------------------------- MODULE MC_KeysetValidate ---------------------------
(* (M) for C14: every abstract keyset within the bounds is reachable (Build appends  *)
(* any key to any shorter keyset), so every invariant below is evaluated on ALL of   *)
(* them; from the Valid ones every mutation operator of KeysetValidate is taken as a *)
(* transition, so the action properties say what each mutation does to validity.     *)
EXTENDS KeysetValidate, TLC

CONSTANTS ID,          \* key ids; Fresh is an id no key carries
          Fresh,
          MaxKeys,
          StatusMC, PrefixMC, DataMC     \* the sub-domains enumerated in this configuration

VARIABLES ks, op       \* op: the last mutation (output only)
vars == <<ks, op>>

KeyMC  == {Key(id, s, p, d) : id \in ID, s \in StatusMC, p \in PrefixMC, d \in DataMC} \cup {NilKey(id) : id \in ID}

Init == /\ ks \in {Keyset(p, <<>>) : p \in ID \cup {Fresh}} \cup {NilKeyset(Fresh)}
        /\ op = [name |-> "init", breaking |-> FALSE, build |-> TRUE]

Mut(name, breaking, ks2) == ks' = ks2 /\ op' = [name |-> name, breaking |-> breaking, build |-> FALSE]

Build == /\ ~ks.nil /\ Len(ks.keys) < MaxKeys
         /\ \E k \in KeyMC : ks' = AppendKey(ks, k)
         /\ op' = [name |-> "build", breaking |-> FALSE, build |-> TRUE]

Mutate ==
  /\ Valid(ks)
  /\ \/ Mut("DisablePrimary", TRUE, BreakDisablePrimary(ks))
     \/ Mut("DestroyPrimary", TRUE, BreakDestroyPrimary(ks))
     \/ Mut("DropPrimary", TRUE, BreakDropPrimary(ks))
     \/ Mut("Empty", TRUE, BreakEmpty(ks))
     \/ Mut("MissingPrimary", TRUE, BreakMissingPrimary(ks, Fresh))
     \/ \E i \in Idx(ks) :
          \/ Len(ks.keys) < MaxKeys /\ Mut("Duplicate", TRUE, BreakDuplicate(ks, i))
          \/ \E s \in StatusMC \ KnownStatus : Mut("UnknownStatus", TRUE, BreakUnknownStatus(ks, i, s))
          \/ \E p \in PrefixMC \ KnownPrefix : Mut("UnknownPrefix", TRUE, BreakUnknownPrefix(ks, i, p))
          \/ "nil" \in DataMC /\ Mut("NilData", TRUE, BreakNilData(ks, i))
          \/ Mut("NilKey", TRUE, BreakNilKey(ks, i))
          \* harmless edits: validity must be preserved
          \/ \E p \in PrefixMC \cap KnownPrefix : Mut("KnownPrefix", FALSE, SetPrefix(ks, i, p))
          \/ \E d \in DataMC \ {"nil"} : Mut("OtherData", FALSE, SetData(ks, i, d))
          \/ \E s \in KnownStatus \cap StatusMC : ks.keys[i].id # ks.primary /\ Mut("StatusOfNonPrimary", FALSE, SetStatus(ks, i, s))
          \/ ks.keys[i].status = "ENABLED" /\ Mut("PrimaryToEnabled", FALSE, SetPrimary(ks, ks.keys[i].id))
          \/ ks.keys[i].id # ks.primary /\ Len(ks.keys) > 1 /\ Mut("DropNonPrimary", FALSE, DropKey(ks, i))

Next == Build \/ Mutate
View == ks

----------------------------------------------------------------------------
\* the declarative rule and the procedure of validation.go accept the same keysets
RuleIsCode == Valid(ks) <=> ValidAsCoded(ks) = "ok"
\* what a Valid keyset projects to is a well-formed handle
ValidProjectsWellFormed == Valid(ks) => WellFormed(Project(ks)) /\ WellFormedWhy(Project(ks)) = "ok"
\* the four classes the property names are rejected
NamedDefectsRejected == NamedDefect(ks) => ~Valid(ks)
\* and conversely a keyset the rule rejects has a named defect, lacks key data, or holds a nil key
RejectedHasReason == ~Valid(ks) => NamedDefect(ks) \/ (\E i \in Idx(ks) : ks.keys[i].nil \/ ks.keys[i].data = "nil")
\* serializing cannot repair a keyset
SerializationNeutral == Valid(AsSerialized(ks)) <=> Valid(ks)
\* the reader model: every entry point returns an error or a well-formed handle, and errors on invalid input
\* (Outcome depends on the entry point only through "takes a message or bytes" and "refuses secrets":
\* one representative per class is evaluated)
EntryClass(e) == <<e \in ProtoEntries, e \in NoSecretEntries>>
EntryReps == {CHOOSE e \in Entries : EntryClass(e) = c : c \in {EntryClass(e) : e \in Entries}}
EntryPointsSafe == \A e \in EntryReps, m \in {"secret", "public"} :
  LET o == Outcome(e, ks, m) IN
    /\ ~Valid(ks) => o.err
    /\ ~o.err => WellFormed(o.handle)
    /\ ~o.err => \A i \in DOMAIN o.handle : (o.handle[i].prefix = "RAW") <=> ~o.handle[i].hasReq

\* what each mutation does
BreakingBreaks  == [][~op'.build /\ op'.breaking => ~Valid(ks')]_vars
HarmlessKeeps   == [][~op'.build /\ ~op'.breaking => Valid(ks')]_vars
MCSpec == Init /\ [][Next]_vars
================================================================================
