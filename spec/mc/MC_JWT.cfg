INIT MCInit
NEXT MCNext
CHECK_DEADLOCK FALSE
INVARIANTS Total SkewMonotone IgnoreWeaker IatStronger SoundSignature KeyStatus Unrelated IatIgnored
