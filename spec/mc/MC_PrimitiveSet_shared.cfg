CONSTANTS
  MaxKeys = 2
  SharedMats = TRUE
  WithImpl = TRUE
INIT Init
NEXT Next
INVARIANT MechanismIsProperty
CHECK_DEADLOCK FALSE
