CONSTANTS
  ID = {1, 2, 3}
  Mgr = {1}
  NoReq = 0
  AnnVals = {"k=a", "empty"}
  MatIn = {"PRIVATE", "PUBLIC", "SYMMETRIC"}
  MaxEntries = 2
  MaxHandles = 2
  OptMode = "one"
  MaxAnnList = 2
INIT HandleInit
NEXT MCNextHandle
ACTION_CONSTRAINT HandlePhase LogEdge
VIEW View
INVARIANTS TypeOK C11_HandleWellFormed C11_ManagerInv
PROPERTIES C11_ErrLeavesUnchanged C11_HandlesImmutable HandleMetaImmutable AccessorsPure AgreesWithC11 DerivedHandlesAgree NoSecretsGuard
CHECK_DEADLOCK FALSE
