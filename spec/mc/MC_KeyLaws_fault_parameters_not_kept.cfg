CONSTANTS
  Fault = "parameters_not_kept"
  Wide = TRUE
INIT Init
NEXT Next
INVARIANT ExpectedOnly Lawful
CHECK_DEADLOCK FALSE
