---------------------------- MODULE MC_PrimitiveSet ----------------------------
(* (M) for C05, part one: EVERY well-formed keyset of at most MaxKeys keys over the  *)
(* ids {0, 2^32-1, 0x01020304} x four prefix types x three statuses x both           *)
(* implementations x any primary x any order, built entry by entry (so that TLC's    *)
(* workers share the work); on each, for every primitive class and every token of    *)
(* the universe (keys of the keyset in any status, removed keys, foreign keys with   *)
(* the same id and prefix type, first-five-byte collisions): mechanism <=> property, *)
(* the logged key is a key that did the work, and the producer is the primary.       *)
EXTENDS PrimitiveSet, TLC

CONSTANTS MaxKeys,       \* keyset length bound
          SharedMats,    \* TRUE: two entries may hold the same key material
          WithImpl       \* TRUE: both implementations per entry; FALSE: full only

MCIds  == {<<0, 0, 0, 0>>, <<255, 255, 255, 255>>, <<1, 2, 3, 4>>}
MCMats == <<"m1", "m2", "m3">>
Foreign == "foreign"
AllMats == {MCMats[i] : i \in 1..MaxKeys} \cup {Foreign}

VARIABLE ks

Init == ks = <<>>

MatsFor(n) == IF SharedMats THEN {MCMats[i] : i \in 1..MaxKeys} ELSE {MCMats[n]}
Next ==
  /\ Len(ks) < MaxKeys
  /\ \E id \in MCIds \ {ks[i].id : i \in DOMAIN ks}, st \in KeyStatuses, pr \in BOOLEAN, pt \in PrefixTypes,
        mat \in MatsFor(Len(ks) + 1), impl \in (IF WithImpl THEN Impls ELSE {"full"}) :
       /\ pr => st = "ENABLED" /\ \A i \in DOMAIN ks : ~ks[i].primary
       /\ ks' = Append(ks, [id |-> id, status |-> st, primary |-> pr, pt |-> pt, mat |-> mat, impl |-> impl])

MechanismIsProperty ==
  WellFormed(ks) => \A c \in Classes : ClassAdmits(c, ks) => Agree(c, ks, MCIds, AllMats)

\* the check is not vacuous: some keyset of full length is well-formed and admitted by every prefix-map class
Reached == ~(Len(ks) = MaxKeys /\ WellFormed(ks) /\ \A c \in {"AEAD", "MAC", "SIG"} : ClassAdmits(c, ks))
================================================================================
