CONSTANTS
  Fault = "equal_one_directional"
  Wide = TRUE
INIT Init
NEXT Next
INVARIANT ExpectedOnly Lawful
CHECK_DEADLOCK FALSE
