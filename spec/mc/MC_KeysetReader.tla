----------------------------- MODULE MC_KeysetReader -----------------------------
(* Bounded exhaustive configuration of KeysetReader (C07): keysets of 1..3           *)
(* candidates drawn from parameter records with different segment sizes, first       *)
(* segment offsets and header lengths; the ciphertext is made with any of them or    *)
(* with a foreign key, manipulated in every way, read in every partition.            *)
EXTENDS KeysetReader, TLC

CONSTANTS MaxN, MaxChunk, SrcFails, ManipMode, MaxAppend, MaxPermSegs, ReadModes, KeysetSizes, NShapes

H3 == <<1, 1, 1>>
H4 == <<1, 2, 1>>
\* parameter shapes (the main key is filled in by position); a configuration uses the first NShapes of them
ShapeSeq == << [P |-> 4, T |-> 1, Off |-> 3, Hdr |-> H3],        \* first segment 1, full 4
               [P |-> 6, T |-> 1, Off |-> 4, Hdr |-> H4],        \* longer header: first segment 2, full 6
               [P |-> 5, T |-> 2, Off |-> 4, Hdr |-> H3],        \* user offset 1: first segment 1, full 5
               [P |-> 4, T |-> 2, Off |-> 3, Hdr |-> H3] >>      \* plaintext sizes of the first, longer tag
OKShapes == {ShapeSeq[i] : i \in 1..NShapes}
WithKey(s, k) == [P |-> s.P, T |-> s.T, Off |-> s.Off, Hdr |-> s.Hdr, mk |-> k]
CandSets == UNION {{[k \in 1..n |-> WithKey(f[k], k)] : f \in [1..n -> OKShapes]} : n \in KeysetSizes}

MCInit == KInit(CandSets, MaxN)
MCNext ==
  \/ \E k \in SrcFails, md \in ReadModes : KTamper(<<>>, k, md)
  \/ ManipMode = "all" /\ \E m \in Manips(WriterParams, KAuthentic, MaxAppend, MaxPermSegs), md \in ReadModes : KTamper(<<m>>, 0, md)
  \/ \E n \in 0..MaxChunk : KRead(n, ScOf(src))
View == <<cands, writer, plain, manip, raad, src, kr, got, outcome>>
================================================================================
