------------------------------ MODULE MC_Freshness ------------------------------
(* Bounded exhaustive check that the INCREMENTAL monitor of Freshness.tla is the     *)
(* declarative property over the history: for every history of at most MaxLen calls   *)
(* over a small value space the monitor's seen / reps / vals equal their definitions   *)
(* over the recorded history, NoRepeat (budget 0) is pairwise distinctness, the bit     *)
(* monitor is "both values occurred in the history", and the diagnostic operators       *)
(* agree with the predicates.  Also the threshold functions at the values quoted in     *)
(* Freshness.tla.  Says the specification is coherent; nothing about the code.           *)
EXTENDS Freshness

CONSTANTS MaxLen
VARIABLE hist
mcvars == <<mon, hist>>

McMinEvents == 2
ByteVals == {0, 85, 170, 255}
McFields == <<[name |-> "u", len |-> 2, uniform |-> TRUE, strict |-> FALSE],
              [name |-> "v", len |-> 0, uniform |-> FALSE, strict |-> TRUE]>>
ValueSpace == {<<<<a, b>>, w>> : a \in {0, 255}, b \in ByteVals, w \in {<<0>>, <<255>>, <<0, 0>>}}

MCInit == mon = NewMon(McFields) /\ hist = <<>>
MCNext == /\ Len(hist) < MaxLen
          /\ \E v \in ValueSpace : Emit(v) /\ hist' = Append(hist, v)

Col(f) == [k \in DOMAIN hist |-> hist[k][f]]
Range(s) == {s[k] : k \in DOMAIN s}

MonitorIsHistory ==
  /\ mon.n = Len(hist)
  /\ \A f \in DOMAIN mon.fs :
       /\ mon.fs[f].seen = {BytesToHex(x) : x \in Range(Col(f))}
       /\ mon.fs[f].reps = Len(hist) - Cardinality(Range(Col(f)))
       /\ mon.fs[f].uniform =>
            \A i \in 1..mon.fs[f].len : mon.fs[f].vals[i] = {x[i] : x \in Range(Col(f))}

\* with budget 0, NoRepeat is exactly "the values of the history are pairwise distinct"
NoRepeatIsDistinctness ==
  \A f \in DOMAIN mon.fs : FieldBudget(mon.fs[f], mon.n) = 0 =>
     (RepeatOK(mon.fs[f], mon.n) <=> \A j, k \in DOMAIN hist : j # k => hist[j][f] # hist[k][f])

BitMonitorIsHistory ==
  \A f \in DOMAIN mon.fs : mon.fs[f].uniform =>
    \A i \in 1..mon.fs[f].len : \A j \in 0..7 :
      BitToggles(mon.fs[f], i, j) <=> /\ \E k \in DOMAIN hist : Bit(hist[k][f][i], j) = 1
                                      /\ \E k \in DOMAIN hist : Bit(hist[k][f][i], j) = 0

\* ---- families: the class of a call is a function of its value here, so no extra branching
ClsOf(v) == IF v[1][1] = 0 THEN "a" ELSE "b"
RECURSIVE MonOf(_)
MonOf(seq) == IF seq = <<>> THEN NewMon(McFields) ELSE EmitMon(MonOf(SubSeq(seq, 1, Len(seq) - 1)), seq[Len(seq)])
RECURSIVE FamOf(_)
FamOf(seq) == IF seq = <<>> THEN NewFamily(McFields, {"a", "b"})
              ELSE EmitFamily(FamOf(SubSeq(seq, 1, Len(seq) - 1)), ClsOf(seq[Len(seq)]), seq[Len(seq)])
Only(c) == LET RECURSIVE Sel(_)
               Sel(seq) == IF seq = <<>> THEN <<>> ELSE (IF ClsOf(seq[1]) = c THEN <<seq[1]>> ELSE <<>>) \o Sel(SubSeq(seq, 2, Len(seq)))
           IN Sel(hist)
\* the family's members are the monitors of the whole history and of each class's sub-history
FamilyIsSubHistories ==
  LET fam == FamOf(hist) IN
  /\ fam["all"] = mon
  /\ \A c \in {"a", "b"} : fam[c] = MonOf(Only(c))
  /\ (FamilyRepeatVerdict(fam) = <<>>) <=> FamilyNoRepeat(fam)
  /\ (FamilyEndVerdict(fam) = <<>>) <=> FamilyEndOK(fam)

VerdictsAgree ==
  /\ (RepeatVerdict(mon) = <<>>) <=> NoRepeatIn(mon)
  /\ (EndVerdict(mon) = <<>>) <=> (Judgeable(mon) /\ EndOKIn(mon))

\* once a value repeated the history stays rejected (safety: no later call repairs it) for budget-0 fields
RepeatsNeverForgotten == [][\A f \in DOMAIN mon.fs : mon.fs[f].reps' >= mon.fs[f].reps /\ mon.fs[f].seen \subseteq mon.fs[f].seen']_mcvars

\* the draw-loop rule and its diagnosis agree on every draw sequence of <= 3 values over a small id space
ASSUME \A un \in SUBSET {"a", "b"} : \A h \in {"a", "b", "c"} :
         \A d \in UNION {[1..n -> {"a", "b", "c"}] : n \in 0..3} :
           (DrawVerdict(d, h, un) = <<>>) <=> DrawRuleOK(d, h, un)
ASSUME /\ DrawRuleOK(<<"a", "b", "c">>, "c", {"a", "b"}) /\ ~DrawRuleOK(<<"a">>, "b", {"a"}) /\ ~DrawRuleOK(<<"c", "a">>, "a", {"b"})

ASSUME /\ RepeatBudget(4096, 96) = 0 /\ RepeatBudget(512, 96) = 0 /\ RepeatBudget(4096, 128) = 0
       /\ RepeatBudget(4096, 56) = 2 /\ RepeatBudget(4096, 64) = 1 /\ RepeatBudget(8192, 32) = 11
       /\ RepeatBudget(1024, 32) = 5 /\ RepeatBudget(512, 56) = 1
       /\ \A n \in {64, 512, 1024, 4096, 8192} : \A b \in {32, 56, 64, 96, 128, 256} :
            /\ RepeatBudget(n, b) <= RepeatBudget(2 * n, b)        \* more calls never lower the budget
            /\ RepeatBudget(n, b + 8) <= RepeatBudget(n, b)        \* longer fields never raise it
       /\ \A n \in 1..200 : MinDistinct(n) <= MinDistinct(n + 1) /\ MinDistinct(n) <= n
       /\ MinDistinct(512) = 179 /\ MinDistinct(4096) = 253 /\ MinDistinct(63) = 0
       /\ Log2Ceil(1) = 0 /\ Log2Ceil(2) = 1 /\ Log2Ceil(3) = 2 /\ Log2Ceil(4096) = 12 /\ Log2Ceil(4097) = 13
================================================================================
