CONSTANTS
  MaxKeys = 3
  SharedMats = FALSE
  WithImpl = FALSE
INIT Init
NEXT Next
INVARIANT AbsAgrees
CHECK_DEADLOCK FALSE
