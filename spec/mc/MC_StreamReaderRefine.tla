-------------------------- MODULE MC_StreamReaderRefine --------------------------
(* TLC checks that the reader of Streaming.tla (written like noncebased.go: ReaderRead    *)
(* over abstract byte strings, io.ReadFull over a source with every short-read / data-     *)
(* with-EOF pattern, header) reading the UNMANIPULATED stream from a non-failing source    *)
(* refines the arithmetic abstraction proofs/StreamReaderAbs, whose invariant (returned    *)
(* bytes are the plaintext prefix, no error, EOF only after all N bytes) is proved by      *)
(* TLAPS for ARBITRARY P, F, T and plaintext lengths.  The abstraction's constants (M, R)  *)
(* depend on the plaintext length, which a behaviour fixes only when the writer is closed: *)
(* the instance is parametrised by NN and refinement is checked as its two halves,         *)
(*   RefInit: the state after NewReader is the abstraction's Init    (invariant)           *)
(*   RefStep: every Read is a step of the abstraction or stutters    (action property)     *)
(* Projection: spos <- stream bytes behind the header already delivered by the source,     *)
(*   (stream length N + M*T, checked against Streaming's Canon in ParamsAgree),            *)
(*   carry <- RLen(r.carry), cnt <- r.cnt, last <- r.last, alo..ahi <- the plaintext        *)
(*   positions in r.avail, ret <- RLen(got), ok <- got is a prefix of the plaintext.       *)
(* In the cfg  Nat <- MCNat  bounds the quantifier of the abstraction for TLC.             *)
EXTENDS MC_Streaming

MCNat == 0..((MaxN + (MaxN + 2) * T) + MaxChunk + P + 2)      \* covers the stream length N + M*T
FF == P - Off

\* the canonical (number of segments, plaintext bytes of the last one) of a plaintext of NN bytes
MOf(NN) == IF NN <= FF THEN 1 ELSE 1 + ((NN - FF) + (P - 1)) \div P
ROf(NN) == IF NN <= FF THEN NN ELSE (NN - FF) - (MOf(NN) - 2) * P

AvailPlain == r.avail = <<>> \/ (Len(r.avail) = 1 /\ r.avail[1].src = PtSrc)
RA(NN) == INSTANCE StreamReaderAbs WITH
            F <- FF, M <- MOf(NN), R <- ROf(NN),
            spos    <- (NN + MOf(NN) * T) - RLen(src.rest),      \* = RA(NN)!L - rest (ParamsAgree); arithmetic: TLC is
                                                                 \* pathologically slow on the PRIMED recursive Canon
            carry   <- RLen(r.carry),
            cnt     <- r.cnt,
            last    <- r.last,
            alo     <- IF r.avail = <<>> THEN RLen(got) ELSE r.avail[1].a,
            ahi     <- IF r.avail = <<>> THEN RLen(got) ELSE r.avail[1].b,
            ret     <- RLen(got),
            ok      <- RIsPrefix(got, PlainText(NN)),
            outcome <- outcome

RefNext == \/ NewWriter
           \/ \E n \in 0..MaxChunk : wpos + n <= MaxN /\ Write(n)
           \/ Close
           \/ \E md \in ReadModes : Tamper(<<>>, 0, md)
           \/ NewReader(ScOf(src))
           \/ \E n \in 0..MaxChunk : Read(n, ScOf(src))

RefInit == \A NN \in 0..MaxN : (phase = "reading" /\ wpos = NN /\ res.op = "NewReader") => RA(NN)!Init
RefInv  == \A NN \in 0..MaxN : (phase = "reading" /\ wpos = NN) => RA(NN)!Inv /\ RA(NN)!RoundTripAbs /\ AvailPlain
StepOK  == \A NN \in 0..MaxN : (phase = "reading" /\ phase' = "reading" /\ wpos = NN) => (RA(NN)!Next \/ UNCHANGED RA(NN)!vars)
RefStep == [][StepOK]_vars
\* the constants of the abstraction are what Streaming's Canon (and StreamWriterAbs) produce for NN bytes
CtRunsR(out) == SelectSeq(out, LAMBDA x : x.src.k = "ct")
ParamsAgree == \A NN \in 0..MaxN :
                 LET c == CtRunsR(Canon(PP, Session(PP, WAad), PlainText(NN))) IN
                 /\ RA(NN)!Params
                 /\ Len(c) = MOf(NN) /\ RLen(c[Len(c)].src.of) = ROf(NN) /\ RA(NN)!N = NN
                 /\ RLen(Canon(PP, Session(PP, WAad), PlainText(NN))) - HLen(PP) = RA(NN)!L
ASSUME ParamsAgree
================================================================================
