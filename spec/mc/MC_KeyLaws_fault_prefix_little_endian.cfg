CONSTANTS
  Fault = "prefix_little_endian"
  Wide = TRUE
INIT Init
NEXT Next
INVARIANT ExpectedOnly Lawful
CHECK_DEADLOCK FALSE
