-------------------------- MODULE MC_PrimitiveSetHist --------------------------
(* (M) for C05, part two: rotation histories.  KeysetManager (read-only INSTANCE)    *)
(* drives the keyset: add, promote, enable, disable, delete, Handle(), start over    *)
(* from an externally read handle (which may hold DISABLED / DESTROYED keys).  Every *)
(* key id has a prefix type for the whole behaviour (`pts`, any assignment); a key    *)
(* has an ID requirement exactly when it is not RAW.  Every handle that Handle() can  *)
(* return in any reachable state satisfies mechanism <=> property against tokens of   *)
(* present, removed and foreign keys.  (`taken` marks the state right after a         *)
(* successful Handle(); such states are checked and not expanded further - the        *)
(* manager goes on from the identical state without the snapshot.)                    *)
EXTENDS PrimitiveSet, TLC

CONSTANTS MaxEntries, ExtMax,
          HClasses      \* the primitive classes checked (one per mechanism shape in the quick tier)

HIds == {<<0, 0, 0, 0>>, <<255, 255, 255, 255>>, <<1, 2, 3, 4>>}
HNoReq == <<>>

VARIABLES mgr, handles, res, pts, taken
KM == INSTANCE KeysetManager WITH ID <- HIds, Mgr <- {1}, NoReq <- HNoReq

MatOf(id) == CASE id = <<0, 0, 0, 0>> -> "m1" [] id = <<255, 255, 255, 255>> -> "m2" [] OTHER -> "m3"
HMats == {"m1", "m2", "m3", "foreign"}

ReqFits(es) == \A i \in DOMAIN es : (es[i].req = HNoReq) <=> (pts[es[i].id] = "RAW")
Consistent == (\A m \in {1} : ReqFits(mgr[m].entries)) /\ (\A h \in DOMAIN handles : ReqFits(handles[h]))

ExtEntries == [id : HIds, status : KM!Status, primary : BOOLEAN, req : HIds \cup {HNoReq}]
External == {es \in UNION {[1..n -> ExtEntries] : n \in 1..ExtMax} : KM!WellFormedKeyset(es)}

Init == /\ pts \in [HIds -> PrefixTypes]
        /\ KM!Init(External)
        /\ Consistent
        /\ taken = FALSE
Next == /\ KM!Next /\ UNCHANGED pts /\ Consistent'
        /\ taken' = (res'.op = "Handle" /\ ~res'.err)

Bound == Len(mgr[1].entries) <= MaxEntries /\ ~taken
View == <<mgr, handles, pts, taken>>

\* the keyset a factory sees: the manager's entries joined with the keys' prefix types
KS(es) == [i \in DOMAIN es |-> [id |-> es[i].id, status |-> es[i].status, primary |-> es[i].primary,
                                pt |-> pts[es[i].id], mat |-> MatOf(es[i].id), impl |-> "full"]]

Holds(es) == \A c \in HClasses : ClassAdmits(c, KS(es)) => Agree(c, KS(es), HIds, HMats)

MechanismIsProperty == taken => Holds(handles[Len(handles)])
\* Handle() only ever returns what WellFormed describes (C11): Agree is never evaluated on anything else
HandlesWellFormed == \A h \in DOMAIN handles : WellFormed(KS(handles[h]))
================================================================================
