\* constants of MC_Streaming_hdr: header 1+1+1, P=4, first segment 1, tag 2
CONSTANTS
  P = 4
  T = 2
  Off = 3
  Hdr <- Hdr111
  MaxN = 14
  MaxChunk = 6
  SinkFails = {0}
  SrcFails = {0}
  ManipMode = "none"
  MaxAppend = 0
  MaxPermSegs = 0
  ReadModes = {"free"}
  Nat <- MCNat
INIT MCInit
NEXT RefNext
VIEW View
INVARIANTS AbsInv AbsCanonical WriterCanonical
PROPERTY AbsSpec
CHECK_DEADLOCK FALSE
