------------------------- MODULE MC_KeysetManagerRefine -------------------------
(* TLC checks that KeysetManager (sequence-based, shaped like the code) refines the    *)
(* set-based abstraction KeysetManagerAbs, whose invariant is proved by TLAPS for an   *)
(* arbitrary id set and unbounded keysets.                                             *)
EXTENDS MC_KeysetManager

TheMgr == CHOOSE m \in Mgr : TRUE
Es == mgr[TheMgr].entries
Abs == INSTANCE KeysetManagerAbs WITH
         present <- Ids(Es),
         status  <- [i \in ID |-> IF Find(Es, i) = {} THEN "ENABLED" ELSE Es[Idx(Es, i)].status],
         prim    <- {Es[k].id : k \in {j \in DOMAIN Es : Es[j].primary}},
         unavail <- mgr[TheMgr].unavail
AbsSpec == Abs!Spec
AbsInv == Abs!Inv /\ Abs!HandleOK
\* refinement is stated from the empty manager (the abstraction's Init); external handles enter via FromHandle
RefInit == Init({})
================================================================================
