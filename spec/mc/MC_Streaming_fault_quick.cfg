\* persistent failures of the underlying writer and reader at every call index (no manipulation)
CONSTANTS
  P = 4
  T = 1
  Off = 3
  Hdr <- Hdr111
  MaxN = 6
  MaxChunk = 4
  SinkFails = {0,1,2,3,4}
  SrcFails = {0,1,2,3,4,5,6,7,8,9,10,11,12,13,14}
  ManipMode = "none"
  MaxAppend = 5
  MaxPermSegs = 4
  ReadModes = {"free"}
INIT MCInit
NEXT MCNext
VIEW View
INVARIANTS WriterCanonical RoundTrip TamperDetected FaultSurfaces
PROPERTIES ReadProgress
CHECK_DEADLOCK FALSE
