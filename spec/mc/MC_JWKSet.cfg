INIT MCInit
NEXT MCNext
CHECK_DEADLOCK FALSE
INVARIANTS InvExportImport InvExportClean InvImportExport InvImportPublic InvTextShape InvUnknownIgnored InvWholeSet
