CONSTANTS
  Fault = "none"
  KeyIds = {"k1", "k2"}
  Statuses = {"ENABLED", "DISABLED"}
  MCClasses = {"AEAD"}
  MCAccessors = {"entryKey", "material", "write"}
  MaxKeys = 2
  MaxHandles = 1
  MaxMgrs = 0
  MaxPrims = 1
  MaxDid = 3
  MaxOpts = 1
  MCPublic = FALSE
INIT Init
NEXT MCNext
CONSTRAINT Bound
VIEW View
INVARIANTS ReachLogAndFailure
CHECK_DEADLOCK FALSE
