CONSTANTS
  Fault = "ad-to-remote"
  MaxCalls = 3
INIT Init
NEXT MCNext
INVARIANTS TypeOK RemoteArguments
CHECK_DEADLOCK FALSE
