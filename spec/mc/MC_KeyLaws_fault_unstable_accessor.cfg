CONSTANTS
  Fault = "unstable_accessor"
  Wide = TRUE
INIT Init
NEXT Next
INVARIANT ExpectedOnly Lawful
CHECK_DEADLOCK FALSE
