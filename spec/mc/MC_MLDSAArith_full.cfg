CONSTANTS Stride = 61 NPoly = 12
INIT Init
NEXT Next
INVARIANTS Power2RoundLemma DecomposeLemma HintLemma NormLemma MulLemma NTTLemma PackLemma
CHECK_DEADLOCK FALSE
