CONSTANTS Stride = 23 NPoly = 16
INIT Init
NEXT Next
INVARIANTS Power2RoundLemma DecomposeLemma HintLemma NormLemma MulLemma NTTLemma PackLemma
CHECK_DEADLOCK FALSE
