CONSTANTS
  Fault = "none"
  KeyIds = {"k1", "k2"}
  Statuses = {"ENABLED"}
  MCClasses = {"AEAD"}
  MCAccessors = {"entryKey"}
  MaxKeys = 1
  MaxHandles = 2
  MaxMgrs = 2
  MaxPrims = 1
  MaxDid = 1
  MaxOpts = 2
  MCPublic = TRUE
INIT Init
NEXT MCNext
CONSTRAINT Bound
VIEW View
INVARIANTS TypeOK NoAnnotationsNoMonitoring LoggerPerFunction EveryCallAccountedOnce LogsNameEnabledKeys FailureNamesNoKey KeyExportsAccounted PublicDropsAnnotations
CHECK_DEADLOCK FALSE
