CONSTANTS
  ID = {1, 2, 3}
  Mgr = {1}
  NoReq = 0
  AnnVals = {}
  MatIn = {"SYMMETRIC"}
  MaxEntries = 3
  MaxHandles = 1
  OptMode = "order"
  MaxAnnList = 0
INIT Init
NEXT MCNext
CONSTRAINT Bound
VIEW View
INVARIANTS TypeOK C11_HandleWellFormed C11_ManagerInv
PROPERTIES OnlyTheDeviationBreaksIt OnlyTheDeviationLosesPrimary C11_PrimaryProtected C11_HandlesImmutable C11_ManagersIsolated C11_IdsStayUnavailable HandleMetaImmutable AccessorsPure AddOptsPost AddKeyIsAddOptsEmpty AgreesWithC11 DerivedHandlesAgree NoSecretsGuard
CHECK_DEADLOCK FALSE
