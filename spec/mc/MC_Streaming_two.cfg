\* two successive manipulations
CONSTANTS
  P = 3
  T = 1
  Off = 1
  Hdr <- HdrNone
  MaxN = 9
  MaxChunk = 5
  SinkFails = {0}
  SrcFails = {0}
  ManipMode = "two"
  MaxAppend = 2
  MaxPermSegs = 3
  ReadModes = {"free"}
INIT MCInit
NEXT MCNext
VIEW View
INVARIANTS WriterCanonical RoundTrip TamperDetected FaultSurfaces
PROPERTIES ReadProgress
CHECK_DEADLOCK FALSE
