------------------------------ MODULE MC_Concurrency ------------------------------
(* Bounded exhaustive configuration of Concurrency.tla: 3 goroutines, a deterministic  *)
(* operation (two inputs) and a randomized one (two acceptable results per input), all  *)
(* interleavings.  Also MC_ConcurrencyShared below this model's level: see that module.  *)
EXTENDS Concurrency, TLC

McCalls == {[op |-> "Mac", in |-> 1], [op |-> "Mac", in |-> 2], [op |-> "Enc", in |-> 1], [op |-> "Enc", in |-> 2]}
McAlone == [c \in {x \in McCalls : x.op = "Mac"} |-> 100 + c.in]
McResults == {101, 102, 11, 21, 12, 22}
\* the alone inverse (Dec) maps 10 + in and 20 + in back to in
McInverts(c, out) == out \in {10 + c.in, 20 + c.in}
================================================================================
