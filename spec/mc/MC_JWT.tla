--------------------------------- MODULE MC_JWT ---------------------------------
(* C09, (M): meta-properties of the decision procedure JWT!Decide, model-checked by  *)
(* TLC over the whole case space of JWTCases  (one state per case; the view of a case *)
(* is its abstract view).  They say that the SPECIFICATION is coherent - a validator  *)
(* option that is documented as a relaxation never rejects more, acceptance always    *)
(* rests on a valid signature of an enabled key whose algorithm the header names -    *)
(* they say nothing about the code (that is Trace_JWT's job).                         *)
EXTENDS JWTCases

VARIABLE c
D(x) == Decide(AbstractView(x), x.ks, x.v, x.now)

MCInit == \E blk \in BlockNames : \E a \in BlockAlgs(blk) : \E p \in Params(blk, a) : \E x \in Ctxs(blk) :
            c = Make(blk, a, p, x)
MCNext == UNCHANGED c

\* Decide is total: it evaluates to a Boolean on every case
Total == D(c) \in BOOLEAN

\* a larger clock skew never rejects more (all skews NewValidator admits, incl. the neighbours of the case's own)
SkewSet == {0, 1, 2, 3, 4, 5, 6, MaxSkew - 1, MaxSkew}
SkewMonotone == D(c) => \A s \in SkewSet : s >= c.v.skew => D([c EXCEPT !.v.skew = s])

\* Ignore* options never reject more; neither does AllowMissingExpiration; ExpectIssuedInThePast never accepts more
IgnoreWeaker ==
  D(c) => /\ D([c EXCEPT !.v.typ = Ignore]) /\ D([c EXCEPT !.v.iss = Ignore]) /\ D([c EXCEPT !.v.aud = Ignore])
          /\ D([c EXCEPT !.v.typ = Ignore, !.v.iss = Ignore, !.v.aud = Ignore])
          /\ D([c EXCEPT !.v.allowMissingExp = TRUE])
IatStronger == D([c EXCEPT !.v.expectIat = TRUE]) => D([c EXCEPT !.v.expectIat = FALSE])

\* acceptance implies: a valid signature under an ENABLED key whose algorithm the header names, no crit
SoundSignature ==
  D(c) => /\ \E i \in 1..Len(c.ks) : /\ c.ks[i].status = "ENABLED"
                                      /\ i \in AbstractValidUnder(c.t, c.ks)
                                      /\ IsStr(c.t.hdr.alg, c.ks[i].alg)
          /\ c.t.hdr.crit = "absent"
          /\ c.t.hdr.alg # Str("none")
          /\ c.t.signer.mode = "good"

\* disabled keys do not count; enabling keys never rejects more
AllStatus(x, st) == [x EXCEPT !.ks = [i \in 1..Len(x.ks) |-> [x.ks[i] EXCEPT !.status = st]]]
KeyStatus == /\ ~D(AllStatus(c, "DISABLED"))
             /\ D(c) => D(AllStatus(c, "ENABLED"))

\* the values of well-typed claims the validator does not look at do not matter
Unrelated == StrTyped(c.t.pl.sub) /\ StrTyped(c.t.pl.jti) => D(c) = D([c EXCEPT !.t.pl.sub = Str("someone else"), !.t.pl.jti = Str("another id"), !.t.pl.custom = <<>>])

\* without ExpectIssuedInThePast a well-typed iat is not looked at
IatIgnored == ~c.v.expectIat /\ TimeTyped(c.t.pl.iat) => D(c) = D([c EXCEPT !.t.pl.iat = Absent])
================================================================================
