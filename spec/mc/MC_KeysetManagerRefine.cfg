CONSTANTS
  ID = {1, 2, 3}
  Mgr = {1}
  NoReq = 0
  MaxEntries = 3
  MaxHandles = 1
  ExtMax = 1
INIT MCInit
NEXT Next
CONSTRAINT Bound
INVARIANT AbsInv
PROPERTY AbsSpec
CHECK_DEADLOCK FALSE
