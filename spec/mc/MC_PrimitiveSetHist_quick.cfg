CONSTANTS
  MaxEntries = 2
  ExtMax = 1
  HClasses = {"AEAD", "MAC", "SIG", "JWTSIG", "STREAM"}
INIT Init
NEXT Next
CONSTRAINT Bound
VIEW View
INVARIANTS MechanismIsProperty HandlesWellFormed
CHECK_DEADLOCK FALSE
