CONSTANTS
  IDS = {0, 1, 2}
  MaxLen = 2
  Keks = {1, 2}
  Ads = {"nil", "empty", "a"}
  Prefixes = {"TINK", "RAW"}
INIT Init
NEXT Next
INVARIANT InvRoundTrip
INVARIANT InvNeverDifferent
INVARIANT InvEncrypted
INVARIANT InvPublic
INVARIANT InvNoSecrets
INVARIANT InvNoLeak
INVARIANT InvWrongReader
CHECK_DEADLOCK FALSE
