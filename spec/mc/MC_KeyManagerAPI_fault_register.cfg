CONSTANTS
  MaxOps = 3
  Parts = {"reg"}
  FaultRegister = "any"
  FaultKms = "none"
INIT Init
NEXT Next
INVARIANTS LookupSupports
CHECK_DEADLOCK FALSE
