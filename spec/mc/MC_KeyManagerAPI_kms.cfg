CONSTANTS
  MaxOps = 5
  Parts = {"kms"}
  FaultRegister = "none"
  FaultKms = "none"
INIT Init
NEXT Next
INVARIANTS TypeOK LookupSupports LookupSupportsHist FirstRegistrationWins OnlyFirstRegistrationSucceeds KmsFirstSupporting ConfigIsSnapshot DuplicateConstructorRefused
PROPERTY SnapshotsFrozen
CHECK_DEADLOCK FALSE
