---------------------------- MODULE MC_Monitoring ----------------------------
(* Bounded exhaustive configurations of Monitoring.tla: every interleaving of            *)
(* creating handles (cleartext read with 0..2 WithAnnotations options, Manager.Handle,    *)
(* Public), managers (new / from a handle / SetAnnotations), primitives of the chosen     *)
(* classes, calls (success by any key that may have worked / failure) and accessors,      *)
(* within the bounds.  With Fault = "none" every invariant of the contract must hold;     *)
(* the MC_Monitoring_fault_*.cfg configurations must each break the named invariant       *)
(* (the contract is not vacuous).                                                        *)
EXTENDS Monitoring, TLC

CONSTANTS KeyIds, Statuses, MCClasses, MCAccessors, MaxKeys, MaxHandles, MaxMgrs, MaxPrims, MaxDid, MaxOpts,
          MCPublic     \* BOOLEAN: Handle.Public() is among the steps

NoKey == "none"
MCAnns == {NilAnn, AnnOf(<<>>), AnnOf(<<<<"team", "a">>>>)}
MCEntry == [id : KeyIds, status : Statuses, primary : BOOLEAN, pt : {"TINK"}, kt : {"PrivKey"}]
WF(ks) == /\ \A i, j \in DOMAIN ks : i # j => ks[i].id # ks[j].id
          /\ Cardinality({i \in DOMAIN ks : ks[i].primary}) = 1
          /\ \A i \in DOMAIN ks : ks[i].primary => ks[i].status = "ENABLED"
MCKeysets == {ks \in UNION {[1..n -> MCEntry] : n \in 1..MaxKeys} : WF(ks)}
MCOpts == UNION {[1..n -> MCAnns] : n \in 0..MaxOpts}
PubOf(ks) == [i \in DOMAIN ks |-> [ks[i] EXCEPT !.kt = "PubKey"]]
Sizes == {<<3, 8>>}

MCNext ==
  \/ Len(handles) < MaxHandles /\ \E ks \in MCKeysets, opts \in MCOpts : ReadHandle(ks, opts)
  \/ Len(mgrs) < MaxMgrs /\ NewManager
  \/ Len(mgrs) < MaxMgrs /\ \E h \in DOMAIN handles : ManagerFromHandle(h)
  \/ \E m \in DOMAIN mgrs, a \in MCAnns : SetAnnotations(m, a)
  \/ Len(handles) < MaxHandles /\ \E m \in DOMAIN mgrs, ks \in MCKeysets : ManagerHandle(m, ks)
  \/ MCPublic /\ Len(handles) < MaxHandles /\ \E h \in DOMAIN handles : handles[h].via # "public" /\ Public(h, PubOf(handles[h].ks))
  \/ Len(prims) < MaxPrims /\ \E h \in DOMAIN handles, c \in MCClasses : NewPrimitive(h, c)
  \/ Len(did) < MaxDid /\ \E p \in DOMAIN prims, sz \in Sizes :
       \E op \in OpSet(prims[p].cls) :
         \/ \E by \in KeyIds : Call(p, op, TRUE, by, sz[1], sz[2])
         \/ Call(p, op, FALSE, NoKey, sz[1], sz[2])
  \/ Len(did) < MaxDid /\ \E h \in DOMAIN handles, acc \in MCAccessors : \E i \in DOMAIN handles[h].ks : Access(h, acc, i)

Bound ==
  /\ Len(handles) <= MaxHandles /\ Len(mgrs) <= MaxMgrs /\ Len(prims) <= MaxPrims /\ Len(did) <= MaxDid

View == <<handles, mgrs, prims, client, did>>

\* vacuity guards: states the bounded search must reach (run with the _reach configuration: each must be VIOLATED)
ReachLogAndFailure == ~(Len(client.events) >= 1 /\ Len(client.failures) >= 1 /\ Len(client.exports) >= 1)
================================================================================
