CONSTANTS
  Fault = "hasidreq_ignores_prehash_variant"
  Wide = TRUE
INIT Init
NEXT Next
INVARIANT ExpectedOnly Lawful
CHECK_DEADLOCK FALSE
