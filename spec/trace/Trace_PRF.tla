------------------------------- MODULE Trace_PRF -------------------------------
(* Trace validation for C15: every recorded ComputePRF / ComputePrimaryPRF call,   *)
(* every prf.Set built from a keyset and every subtle.ComputeHKDF call of the real *)
(* code is judged against PRF / PRFSet / HKDF (RFC 5869 in TLA+ over the JDK HMAC; *)
(* RFC 4493 in TLA+ over the JDK AES block; RFC 2104 = JDK HMAC).                  *)
(* out2 (the repeated call's output) is "=" when the driver saw it byte-identical  *)
(* to a long first output.                                                         *)
EXTENDS PRFSet, Json, IOUtils, TLC

Trace == ndJsonDeserialize(IOEnv.VERIF_TRACE)

VARIABLES l, bad
vars == <<l, bad>>

Cfg(e) == [alg |-> e.alg, hash |-> e.hash, salt |-> HexToBytes(e.salt)]
KS(e) == [i \in 1..Len(e.ks) |->
           [id |-> e.ks[i].id, status |-> e.ks[i].status, primary |-> e.ks[i].primary,
            cfg |-> Cfg(e.ks[i]), key |-> HexToBytes(e.ks[i].key)]]
SeqToSet(s) == {s[i] : i \in DOMAIN s}
\* the requested output length travels as 8 hex digits (nb: a uint32 may exceed a TLC integer) and, capped at
\* 2^31-1, as the integer n; lengths beyond the maximum are recognised on the bytes
Over(e, max) == BytesLess(BE(max, 4), HexToBytes(e.nb))
Fail == <<FALSE, <<>>>>

JudgeOut(what, e, want) ==
  IF e.panic THEN <<what \o " panicked", ToString(want[1])>>
  ELSE IF e.ok # want[1] THEN
         IF want[1] THEN <<what \o " failed for an output length within the algorithm's maximum", BytesToHex(want[2])>>
         ELSE <<what \o " returned output beyond the algorithm's maximum output length", "FAIL">>
  ELSE IF e.ok /\ e.out # BytesToHex(want[2]) THEN <<what \o " output differs from the standard HMAC / HKDF / AES-CMAC value", BytesToHex(want[2])>>
  ELSE IF e.ok /\ e.out2 # "=" /\ e.out2 # e.out THEN <<what \o " not deterministic", BytesToHex(want[2])>>
  ELSE <<>>

JudgeValue(e) ==
  CASE e.ev = "construct" -> <<>>                       \* coverage only (DESIGN section 4)
    [] e.ev = "compute" ->                               \* one ComputePRF(input, n) call (and its repetition)
         JudgeOut("ComputePRF", e, IF Over(e, PRFMaxLen(Cfg(e))) THEN Fail
                                      ELSE PRFCompute(Cfg(e), HexToBytes(e.key), HexToBytes(e.input), e.n))
    [] e.ev = "sweep" ->                                 \* ComputePRF(input, n) for EVERY n = 0..max: outs[n+1]
         LET c == Cfg(e)
             full == PRFFull(c, HexToBytes(e.key), HexToBytes(e.input))
             wrong == {n \in 0..(Len(e.outs) - 1) : e.outs[n + 1] # BytesToHex(Take(full, n))}
         IN  IF e.panic THEN <<"ComputePRF panicked", "">>
             ELSE IF e.err THEN <<"ComputePRF failed for an output length within the algorithm's maximum", BytesToHex(full)>>
             ELSE IF Len(e.outs) # PRFMaxLen(c) + 1 THEN <<"SPEC: sweep does not cover 0..max", ToString(PRFMaxLen(c))>>
             ELSE IF wrong # {} THEN <<"ComputePRF output differs from the prefix of the standard HMAC / AES-CMAC value at some length", BytesToHex(full)>>
             ELSE <<>>
    [] e.ev = "prefix" ->                                \* the prefix law on two real outputs, no reference involved
         IF e.panic THEN <<"ComputePRF panicked", "">>
         ELSE IF PrefixLaw(HexToBytes(e.outN), e.n, HexToBytes(e.outM)) THEN <<>>
         ELSE <<"ComputePRF(x, n) is not the n-byte prefix of ComputePRF(x, m)", e.outM>>
    [] e.ev = "set" ->                                   \* prf.NewPRFSet(handle): PrimaryID and the key ids of PRFs
         LET s == PRFSetOf(KS(e))
         IN  IF e.panic THEN <<"NewPRFSet panicked", "">>
             ELSE IF e.err THEN <<"NewPRFSet failed on a keyset of valid PRF keys", s.primary>>
             ELSE IF e.primaryId # s.primary THEN <<"PrimaryID is not the id of the keyset's primary key", s.primary>>
             ELSE IF SeqToSet(e.ids) # DOMAIN s.prfs \/ Len(e.ids) # Cardinality(DOMAIN s.prfs)
                  THEN <<"key ids of PRFs are not the ids of the ENABLED keys", ToString(DOMAIN s.prfs)>>
             ELSE <<>>
    [] e.ev = "setcompute" ->                            \* set.PRFs[id].ComputePRF / set.ComputePrimaryPRF
         JudgeOut(IF e.id = "primary" THEN "ComputePrimaryPRF" ELSE "PRFs[id].ComputePRF", e,
                  IF Over(e, 255 * 64) THEN Fail
                  ELSE IF e.id = "primary" THEN SetComputePrimary(KS(e), HexToBytes(e.input), e.n)
                  ELSE SetCompute(KS(e), e.id, HexToBytes(e.input), e.n))
    [] e.ev = "hkdf" ->                                  \* subtle.ComputeHKDF: whenever it returns output, it is RFC 5869 output
         LET want == IF ~e.ok \/ Over(e, 255 * 64) THEN Fail
                     ELSE HKDF(e.hash, HexToBytes(e.key), HexToBytes(e.salt), HexToBytes(e.info), e.n)
         IN  IF e.panic THEN <<"ComputeHKDF panicked", ToString(want[1])>>
             ELSE IF ~e.ok THEN <<>>
             ELSE IF ~want[1] THEN <<"ComputeHKDF returned output for a length RFC 5869 does not define", "FAIL">>
             ELSE IF e.out # BytesToHex(want[2]) THEN <<"ComputeHKDF output differs from RFC 5869", BytesToHex(want[2])>>
             ELSE IF e.out2 # "=" /\ e.out2 # e.out THEN <<"ComputeHKDF not deterministic", BytesToHex(want[2])>>
             ELSE <<>>
    [] e.ev = "kat" ->                                   \* known-answer vector (Wycheproof): judges the reference
         LET got == HKDF(e.hash, HexToBytes(e.key), HexToBytes(e.salt), HexToBytes(e.info), e.n)
         IN  IF e.valid THEN (IF got = <<TRUE, HexToBytes(e.out)>> THEN <<>> ELSE <<"SPEC: HKDF differs from the vector", e.kind>>)
             ELSE IF got[1] THEN <<"SPEC: HKDF produces output for an invalid vector", e.kind>> ELSE <<>>
    [] OTHER -> <<"unknown event", e.ev>>

\* Every byte string handed to the real code lives in a driver buffer with sentinel-filled spare capacity and guard
\* zones; inIntact records that input bytes, spare capacity and guards were unchanged after the call(s) of the event.
\* A call that alters its input has not computed the standard value "for the caller's input": judged together with
\* the value.  (Known-answer events of the reference gate carry no inIntact.)
Judge(e) ==
  IF "inIntact" \in DOMAIN e /\ ~e.inIntact
  THEN <<"the call altered a buffer handed in by the caller (input bytes, spare capacity or guard zone)", "unchanged">>
  ELSE JudgeValue(e)

Start == IF "VERIF_START" \in DOMAIN IOEnv THEN atoi(IOEnv.VERIF_START) ELSE 1

Init == l = Start /\ bad = <<>>
Next == /\ l <= Len(Trace)
        /\ bad' = Judge(Trace[l])
        /\ l' = l + 1
Spec == Init /\ [][Next]_vars

Conforms == bad = <<>>
Consumed == TLCGet("stats").diameter = Len(Trace) + 2 - Start
================================================================================
