-------------------------- MODULE Trace_KeysetManager --------------------------
(* Trace validation for C11: every recorded call on real keyset.Manager objects is   *)
(* matched against the action of KeysetManager with the logged arguments; the         *)
(* model's post-state, result and ALL live handle snapshots must equal what the real   *)
(* objects show (projection logged after every call).                                 *)
(* Events: reset (new scenario, optional external handle), AddRandom, AddFail,        *)
(* AddKeyReq, SetPrimary, Enable, Disable, Delete, Handle, FromHandle.                *)
EXTENDS Integers, Sequences, FiniteSets, SequencesExt, Json, IOUtils, TLC

Trace == ndJsonDeserialize(IOEnv.VERIF_TRACE)
Start == IF "VERIF_START" \in DOMAIN IOEnv THEN atoi(IOEnv.VERIF_START) ELSE 1

NoReqT == "none"
\* every key id mentioned anywhere in the trace (8-hex-digit strings)
RECURSIVE SeqToSet(_)
SeqToSet(s) == {s[i] : i \in DOMAIN s}
IdsOfEntries(es) == {es[i].id : i \in DOMAIN es}
EventIds(e) ==
  (IF "id" \in DOMAIN e /\ e.id # NoReqT THEN {e.id} ELSE {})
  \cup (IF "draws" \in DOMAIN e THEN SeqToSet(e.draws) ELSE {})
  \cup (IF "burn" \in DOMAIN e THEN SeqToSet(e.burn) ELSE {})
  \cup (IF "st" \in DOMAIN e THEN IdsOfEntries(e.st.entries) \cup SeqToSet(e.st.unavail) ELSE {})
  \cup (IF "ext" \in DOMAIN e THEN IdsOfEntries(e.ext) ELSE {})
IDT == UNION {EventIds(Trace[i]) : i \in DOMAIN Trace}
MgrT == 1..4

VARIABLES mgr, handles, res, l, bad
M == INSTANCE KeysetManager WITH ID <- IDT, Mgr <- MgrT, NoReq <- NoReqT

vars == <<mgr, handles, res, l, bad>>

ToEntries(js) == [i \in DOMAIN js |-> [id |-> js[i].id, status |-> js[i].status, primary |-> js[i].primary, req |-> js[i].req]]

\* is the action named by the event enabled with the logged arguments?
Guard(e) ==
  CASE e.ev = "AddRandom"  -> e.id \in IDT \ mgr[e.m].unavail
    [] e.ev = "AddFail"    -> SeqToSet(e.burn) \subseteq IDT \ mgr[e.m].unavail /\ Len(e.burn) <= 1
    [] e.ev = "FromHandle" -> e.h \in DOMAIN handles
    [] OTHER -> TRUE

Step(e) ==
  CASE e.ev = "AddRandom"  -> M!AddRandom(e.m, e.id, e.withReq)
    [] e.ev = "AddFail"    -> M!AddFail(e.m, SeqToSet(e.burn))
    [] e.ev = "AddKeyReq"  -> M!AddKeyReq(e.m, e.id)
    [] e.ev = "SetPrimary" -> M!SetPrimary(e.m, e.id)
    [] e.ev = "Enable"     -> M!Enable(e.m, e.id)
    [] e.ev = "Disable"    -> M!Disable(e.m, e.id)
    [] e.ev = "Delete"     -> M!Delete(e.m, e.id)
    [] e.ev = "Handle"     -> M!Handle(e.m)
    [] e.ev = "FromHandle" -> M!FromHandle(e.m, e.h)

\* compare the model's post-state with the projection logged from the real objects
Compare(e, mgr2, handles2, res2, unavailPre) ==
  IF res2.err # e.err THEN <<"error/success differs from the specification", ToString(res2.err)>>
  ELSE IF mgr2[e.m].entries # ToEntries(e.st.entries)
         THEN <<"manager entries differ from the specification", ToString(mgr2[e.m].entries)>>
  ELSE IF mgr2[e.m].unavail # SeqToSet(e.st.unavail)
         THEN <<"set of unavailable ids differs from the specification", ToString(mgr2[e.m].unavail)>>
  ELSE IF Len(handles2) # Len(e.hs) \/ \E h \in DOMAIN handles2 : handles2[h] # ToEntries(e.hs[h])
         THEN <<"a live handle differs from its snapshot in the specification", ToString(handles2)>>
  ELSE IF e.ev = "AddRandom" /\ ~e.err /\
          ~(/\ Len(e.draws) >= 1 /\ e.draws[Len(e.draws)] = e.id
            /\ \A i \in 1..(Len(e.draws) - 1) : e.draws[i] \in unavailPre)
         THEN <<"random id draws: a draw was discarded although available, or the id is not the last draw", e.id>>
  ELSE IF ~M!HandleWellFormed' THEN <<"a handle is not well-formed", ToString(handles2)>>
  ELSE <<>>

Init ==
  /\ l = Start /\ bad = <<>>
  /\ mgr = [m \in MgrT |-> M!EmptyMgr] /\ handles = <<>>
  /\ res = M!Ok("Init", 1, NoReqT)

Reset(e) ==
  /\ mgr' = [m \in MgrT |-> M!EmptyMgr]
  /\ handles' = IF "ext" \in DOMAIN e THEN <<ToEntries(e.ext)>> ELSE <<>>
  /\ res' = M!Ok("Init", 1, NoReqT)
  /\ bad' = <<>>

Next ==
  /\ l <= Len(Trace)
  /\ l' = l + 1
  /\ LET e == Trace[l] IN
       IF e.ev = "reset" THEN Reset(e)
       ELSE IF e.ev = "diverged"     \* the driver could not continue a planned scenario: real behaviour left the plan
         THEN /\ UNCHANGED <<mgr, handles, res>>
              /\ bad' = <<"real objects diverged from the planned scenario", e.why>>
       ELSE IF ~Guard(e)
         THEN /\ UNCHANGED <<mgr, handles, res>>
              /\ bad' = <<"call outcome impossible in the specification (guard false)", e.ev>>
         ELSE /\ Step(e)
              /\ bad' = Compare(e, mgr', handles', res', mgr[e.m].unavail)

Conforms == bad = <<>>
\* every invariant of the design is also evaluated on the states reached by the real code
ModelInv == M!ManagerInv /\ M!HandleWellFormed
Consumed == TLCGet("stats").diameter = Len(Trace) + 2 - Start
================================================================================
