INIT Init
NEXT Next
INVARIANT Conforms
POSTCONDITION Consumed
CHECK_DEADLOCK FALSE
