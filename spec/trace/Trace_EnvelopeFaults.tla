------------------------- MODULE Trace_EnvelopeFaults -------------------------
(* Trace validation for X07.  harness/cmd/x07 drives the REAL KMS envelope AEAD           *)
(* (NewKMSEnvelopeAEAD2 / NewKMSEnvelopeAEADWithContext / a KmsEnvelopeAeadKey keyset       *)
(* resolved through registry.RegisterKMSClient) over a scripted in-process remote that       *)
(* wraps a real AES-256-GCM, through fault sequences written by TLC                          *)
(* (spec/plan/Plan_EnvelopeFaults) and seeded random ones.  Events:                          *)
(*  {"ev":"reset","id","variant","tmpl","client","dek","kt","dk":{key,mkey,iv,tag,hash},       *)
(*   "turl","preerr","pre":{ct,pt,ad,dek,encdek}} a scenario starts: the model is re-initialised  *)
(*  {"ev":"new","obj":"ok"|"none","step","panic","errmsg","rcalls":[..],"client":[{op,uri}]}    *)
(*  {"ev":"call","k","op","beh","ctx","kind","i","in","ad","rcalls":[{op,arg,ad,adnil,ctx,beh,    *)
(*   form,ret,reterr,retctx,panic,t0,t1}],"client","res","out","outnil","errrem","errctx",         *)
(*   "errmsg","t0","t1","stray"}                                                               *)
(*  {"ev":"end","stray"}     {"ev":"skip",...}                                                  *)
(* Every call is abstracted to the values of spec/sys/EnvelopeFaults.tla -- DEKs numbered in     *)
(* the order in which the remote first saw them, the remote's argument compared with the         *)
(* encrypted DEK that spec/algo/Envelope.tla's EnvelopeParse finds in the input, the plaintext    *)
(* compared with the one stored for that envelope -- and the OBSERVED call becomes the model's    *)
(* variable `last`.  Then                                                                       *)
(*  (a) the contract invariants of EnvelopeFaults.tla (the ones that were model-checked) are       *)
(*      evaluated on the observed step: a failure is "DOC: <invariant> ...";                      *)
(*  (b) byte level: a successful Encrypt must be be32(n) || exactly the bytes the remote returned   *)
(*      || a payload that the reference AEAD of spec/algo opens, under THE DEK THE REMOTE WAS        *)
(*      GIVEN and the caller's associated data, to the caller's plaintext; the DEK must be a key     *)
(*      of the configured template; Decrypt must hand the remote exactly the encrypted DEK;          *)
(*      -- failures are "DOC: ..." as well;                                                         *)
(*  (c) the observed step must EQUAL the step of the model's mechanism (remote calls, result,         *)
(*      output, error identity): a difference that is not already a DOC failure only contradicts      *)
(*      an OBSERVATION (O1-O6) and is "MODEL: ..." -- checks/X07.py makes it exit 2, not a violation.  *)
(* "INFRA: ..." marks an event the driver should not have produced (a premise about the inputs or     *)
(* about the scripted remote does not hold).                                                        *)
EXTENDS EnvelopeFaults, Envelope, Json, IOUtils, TLC

Trace == ndJsonDeserialize(IOEnv.VERIF_TRACE)
Start == IF "VERIF_START" \in DOMAIN IOEnv THEN atoi(IOEnv.VERIF_START) ELSE 1

VARIABLES l, bad,
          sc,       \* the reset event of the current scenario
          cst,      \* the concrete envelopes, parallel to `store`: [ct, pt, ad, dek, encdek] (hex strings)
          cdeks     \* the DEKs the remote has seen, in order (hex strings); position = the model's DEK number
tvars == <<cfg, store, ndek, aux, last, n, l, bad, sc, cst, cdeks>>

H(x) == HexToBytes(x)
Doc(inv, what, want)   == <<"DOC: " \o inv \o ": " \o what, want>>
Model(what, want)      == <<"MODEL: " \o what, want>>
Infra(what, x)         == <<"INFRA: " \o what, x>>

IndexOf(s, x) == IF \E i \in DOMAIN s : s[i] = x THEN CHOOSE i \in DOMAIN s : s[i] = x ELSE 0

(* ------------------------------------------------------------------ reset / new / end *)
NoSc == [id |-> 0]
PreOK(e) ==     \* the envelope the scenario starts with is what it claims to be
  LET f == EnvelopeParse(H(e.pre.ct))
  IN /\ f.ok /\ f.encDEK = H(e.pre.encdek)
     /\ AEADOpen(DEKConfig(e.kt, H(e.pre.dek)), f.payload, H(e.pre.ad)) = <<TRUE, H(e.pre.pt)>>

Step_reset(e) ==
  LET c == [variant |-> e.variant, tmpl |-> e.tmpl, client |-> e.client]
  IN /\ cfg' = c /\ store' = Store0 /\ ndek' = 1 /\ aux' = NoAux /\ last' = NoLast /\ n' = 0
     /\ sc' = e
     /\ cst' = <<[ct |-> e.pre.ct, pt |-> e.pre.pt, ad |-> e.pre.ad, dek |-> e.pre.dek, encdek |-> e.pre.encdek]>>
     /\ cdeks' = <<e.pre.dek>>
     /\ bad' = IF c \notin Cfgs THEN Infra("unknown configuration", ToString(c))
               ELSE IF e.preerr # "" THEN Doc("Recovery", "Encrypt over an honest remote failed (the envelope the scenario starts with)", e.preerr)
               ELSE IF ~PreOK(e)      \* the helper is the real NewKMSEnvelopeAEAD2(template, honest remote).Encrypt: D1 applies to it
                 THEN Doc("D1", "Encrypt over an honest remote (the envelope the scenario starts with): not be32(n) || the remote's bytes || a "
                                \o "payload that opens under the DEK the remote was given", e.pre.pt)
               ELSE <<>>

Keep == UNCHANGED <<cfg, store, ndek, aux, last, n, sc, cst, cdeks>>

Step_new(e) ==
  LET want == ObjOf(cfg)
      ops  == [i \in DOMAIN e.client |-> e.client[i].op]
  IN /\ Keep
     /\ bad' =
          IF e.panic THEN Model("construction panicked", want)
          ELSE IF e.step = "handle-consulted-kms"
            THEN Doc("D7", "keyset.NewHandle of a KmsEnvelopeAeadKey template consulted the KMS client or the remote", "no call")
          ELSE IF Len(e.rcalls) # 0 THEN Doc("D7", "construction consulted the remote", "no remote call")
          ELSE IF want = "none" /\ e.obj # "none" /\ cfg.tmpl = "unsupported"
            THEN Doc("D6", "a DEK template of an undocumented key type was not rejected (" \o sc.turl \o ")", "error")
          ELSE IF (want = "none") # (e.obj = "none") THEN Model("construction: object / error (" \o e.step \o ": " \o e.errmsg \o ")", want)
          ELSE IF ops # ClientCalls(cfg) THEN Model("KMSClient calls during construction", ToString(ClientCalls(cfg)))
          ELSE IF \E i, j \in DOMAIN e.client : e.client[i].uri # e.client[j].uri THEN Model("KMSClient consulted with different URIs", "one URI")
          ELSE <<>>

Step_end(e) == Keep /\ bad' = IF e.stray # 0 THEN Model("the remote was called outside any envelope call", "0") ELSE <<>>

(* ------------------------------------------------------------------ a call *)
LabOf(e) == [op |-> e.op, beh |-> e.beh, ctx |-> e.ctx, kind |-> e.kind, i |-> e.i]

\* premises about a Decrypt input, decided from the bytes by Envelope.tla (the driver's label is only a claim)
InputPremise(e, lab, f) ==
  IF lab.op = "Encrypt" THEN <<>>
  ELSE IF lab.kind \notin ReachKinds \cup RejectKinds THEN Infra("unknown input kind", lab.kind)
  ELSE IF lab.kind # "foreign" /\ lab.i \notin DOMAIN cst THEN Infra("the label names no stored envelope", ToString(lab.i))
  ELSE IF f.ok # (lab.kind \in ReachKinds) THEN Infra("EnvelopeParse disagrees with the input kind " \o lab.kind, ToString(f.ok))
  ELSE IF lab.kind \in {"good", "wrongad"} /\ e.in # cst[lab.i].ct THEN Infra("the input is not the stored envelope", cst[lab.i].ct)
  ELSE IF lab.kind = "good" /\ e.ad # cst[lab.i].ad THEN Infra("the associated data is not the envelope's", cst[lab.i].ad)
  ELSE IF lab.kind = "wrongad" /\ e.ad = cst[lab.i].ad THEN Infra("the associated data was not changed", e.ad)
  ELSE IF lab.kind = "nopayload" /\ (f.encDEK # H(cst[lab.i].encdek) \/ f.payload # <<>>) THEN Infra("not the envelope's frame without payload", e.in)
  ELSE <<>>

\* one recorded remote call in the values of EnvelopeFaults.tla
AbsArg(lab, f, rc) ==
  IF rc.op = "Encrypt"
  THEN <<"dek", IF IndexOf(cdeks, rc.arg) # 0 THEN IndexOf(cdeks, rc.arg) ELSE Len(cdeks) + 1>>
  ELSE IF f.ok /\ H(rc.arg) = f.encDEK THEN InputWrap(lab) ELSE <<"other", 0>>
AbsRet(rc) ==
  IF rc.panic THEN <<"panic", "">>
  ELSE IF rc.reterr THEN <<"err", IF rc.retctx THEN "ctx" ELSE "remote">>
  ELSE IF rc.op = "Encrypt" THEN <<"wrap", rc.form>> ELSE <<"dek", rc.form>>
AbsCall(lab, f, rc) == Call(rc.op, AbsArg(lab, f, rc), rc.ad = "", rc.ctx, AbsRet(rc))

\* premises about what the scripted remote says it returned
RemotePremise(lab, f, rcs) ==
  IF \E k \in DOMAIN rcs : ~rcs[k].panic /\ ~rcs[k].reterr /\ rcs[k].op = "Encrypt" /\
        ~(CASE rcs[k].form = "empty" -> rcs[k].ret = ""
            [] rcs[k].form = "big" -> Len(H(rcs[k].ret)) > EnvelopeMaxEncDEK
            [] rcs[k].form \in {"ok", "alt", "trunc"} -> Len(H(rcs[k].ret)) \in 1..EnvelopeMaxEncDEK
            [] OTHER -> FALSE)
    THEN Infra("the scripted remote's claim about its encrypted DEK does not fit the bytes", "")
  ELSE IF \E k \in DOMAIN rcs : ~rcs[k].panic /\ ~rcs[k].reterr /\ rcs[k].op = "Decrypt" /\
        LET hit == {j \in DOMAIN cst : cst[j].encdek = rcs[k].arg}
        IN hit # {} /\ (rcs[k].form = "true") # (\E j \in hit : rcs[k].ret = cst[j].dek)
    THEN Infra("the scripted remote's claim about the DEK it returned does not fit the bytes", "")
  ELSE IF Len(rcs) >= 1 /\ AbsArg(lab, f, rcs[1])[1] # "other" /\ rcs[1].op = lab.op /\
          AbsRet(rcs[1]) # RemoteRet(lab.op, lab.beh, rcs[1].ctx, AbsArg(lab, f, rcs[1]), store)
    THEN Infra("the scripted remote did not behave like the model's remote",
               ToString(RemoteRet(lab.op, lab.beh, rcs[1].ctx, AbsArg(lab, f, rcs[1]), store)))
  ELSE <<>>

\* the DEK is a key of the configured template (D1)
DEKOfTemplate(dekHex) ==
  LET c == DEKConfig(sc.kt, H(dekHex))
  IN /\ c.kt = sc.kt
     /\ Len(c.key) = sc.dk.key
     /\ sc.kt = "AESCTRHMAC" => Len(c.mkey) = sc.dk.mkey /\ c.ivLen = sc.dk.iv /\ c.tagLen = sc.dk.tag /\ c.hash = sc.dk.hash

\* failures of the remote that the documentation speaks about (an error, a panic, not the DEK)
DocFailed(ret) == ret[1] \in {"err", "panic"} \/ (ret[1] = "dek" /\ ret[2] # "true")

\* the expected identity of the error (O4)
WantErrRem(lab, m) ==
  /\ m.res = "err" /\ Len(m.calls) = 1 /\ m.calls[1].ret = <<"err", "remote">>
  /\ ~(cfg.variant = "keyset" /\ lab.op = "Decrypt")
WantErrCtx(lab, m) ==
  /\ m.res = "err" /\ Len(m.calls) = 1 /\ m.calls[1].ret = <<"err", "ctx">>
  /\ ~(cfg.variant = "keyset" /\ lab.op = "Decrypt")

Ordered(e) ==
  /\ \A k \in DOMAIN e.rcalls : e.t0 < e.rcalls[k].t0 /\ e.rcalls[k].t0 < e.rcalls[k].t1 /\ e.rcalls[k].t1 < e.t1
  /\ \A k \in 1..(Len(e.rcalls) - 1) : e.rcalls[k].t1 < e.rcalls[k + 1].t0

\* (b) byte level, successful Encrypt: frame, the remote's bytes, the payload under the DEK the remote was given
EncryptLinkage(e, rcs) ==
  LET f   == EnvelopeParse(H(e.out))
      dek == H(rcs[1].arg)
  IN IF ~f.ok THEN Doc("D1", "Encrypt's output is not be32(n) || encrypted DEK || payload with 0 < n <= 4096", "")
     ELSE IF f.encDEK # H(rcs[Len(rcs)].ret)
       THEN Doc("D1", "the encrypted DEK stored in the envelope is not what the remote returned", rcs[Len(rcs)].ret)
     ELSE IF ~DEKOfTemplate(rcs[1].arg) THEN Doc("D1", "the DEK given to the remote is not a key of the configured template " \o sc.dek, rcs[1].arg)
     ELSE IF AEADOpen(DEKConfig(sc.kt, dek), f.payload, H(e.ad)) # <<TRUE, H(e.in)>>
       THEN Doc("D1", "the payload does not open, under the DEK the remote was given and the caller's associated data, to the plaintext", e.in)
     ELSE <<>>

JudgeCall(e, lab, f, rcs, m, obs) ==
  LET cs == obs.calls
  IN IF ObjOf(cfg) = "failing" /\ e.res = "ok"
       THEN Doc("D6", lab.op \o " succeeded on an AEAD made by NewKMSEnvelopeAEAD2 from a DEK template of an undocumented key type (" \o sc.turl \o ")", "error")
     ELSE IF ~FaultSurfaces' /\ \E k \in DOMAIN cs : DocFailed(cs[k].ret)
       THEN Doc("FaultSurfaces", lab.op \o " succeeded although the remote failed in this call (" \o lab.beh \o ")", m.res)
     ELSE IF ~NoPartialOutput' THEN Doc("NoPartialOutput", lab.op \o " returned bytes together with " \o e.res, "no output")
     ELSE IF ~RemoteCallAccounting' /\ (Reaches(cfg, lab) \/ (lab.op = "Decrypt" /\ lab.kind \in RejectKinds))
       THEN Doc("RemoteCallAccounting", lab.op \o " (" \o lab.kind \o ") made " \o ToString(Len(cs)) \o " remote calls", ToString(Len(m.calls)))
     ELSE IF ~RemoteArguments'
       THEN Doc("RemoteArguments", "the remote was not asked " \o lab.op \o "(the DEK / exactly the envelope's encrypted DEK, empty associated data)",
                ToString(m.calls))
     ELSE IF ~FreshDEK' THEN Doc("FreshDEK", "the DEK handed to the remote was used before in this scenario", "a fresh DEK")
     ELSE IF ~ContextPassedAlong' THEN Doc("ContextPassedAlong", "the remote did not receive the caller's context (" \o lab.ctx \o ")", lab.ctx)
     ELSE IF ~Recovery' THEN Doc("Recovery", "a call over a healthy remote with proper inputs failed (" \o e.errmsg \o ")", "ok")
     ELSE IF ~DecryptSound' THEN Doc("DecryptSound", "Decrypt returned plaintext for " \o lab.kind \o " / " \o lab.beh \o ", or another plaintext than the envelope's", ToString(m.out))
     ELSE IF ~EncryptStores' THEN Doc("EncryptStores", "a successful Encrypt without a remote call for its DEK", ToString(m.calls))
     ELSE IF lab.op = "Encrypt" /\ e.res = "ok" /\ cs[Len(cs)].ret[2] \notin {"empty", "big"} /\ EncryptLinkage(e, rcs) # <<>> THEN EncryptLinkage(e, rcs)
     ELSE IF cs # m.calls THEN Model("remote calls of " \o lab.op \o " / " \o lab.kind \o " / " \o lab.beh, ToString(m.calls))
     ELSE IF e.res # m.res THEN Model("result of " \o lab.op \o " / " \o lab.kind \o " / " \o lab.beh \o " / " \o lab.ctx \o " (" \o e.errmsg \o ")", m.res)
     ELSE IF obs.out # m.out THEN Model("output of " \o lab.op, ToString(m.out))
     ELSE IF ~Ordered(e) THEN Model("the remote call does not lie inside the envelope call", "t0 < remote < t1")
     ELSE IF e.errrem # WantErrRem(lab, m) THEN Model("identity of the error (errors.Is(err, the remote's error))", ToString(WantErrRem(lab, m)))
     ELSE IF e.errctx # WantErrCtx(lab, m) THEN Model("identity of the error (errors.Is(err, the context's error))", ToString(WantErrCtx(lab, m)))
     ELSE IF Len(e.client) # 0 THEN Model("the KMSClient was consulted during a call", "no client call")
     ELSE IF e.stray # 0 THEN Model("the remote was called outside any envelope call", "0")
     ELSE <<>>

Step_call(e) ==
  LET lab == LabOf(e)
      f   == IF lab.op = "Decrypt" THEN EnvelopeParse(H(e.in)) ELSE [ok |-> FALSE]
      pre == IF lab.op \notin {"Encrypt", "Decrypt"} THEN Infra("unknown operation", lab.op)
             ELSE IF InputPremise(e, lab, f) # <<>> THEN InputPremise(e, lab, f)
             ELSE RemotePremise(lab, f, e.rcalls)
  IN IF pre # <<>> THEN Keep /\ bad' = pre
     ELSE
       LET rcs  == e.rcalls
           m    == Step(cfg, store, ndek, aux, lab)
           cs   == [k \in DOMAIN rcs |-> AbsCall(lab, f, rcs[k])]
           okE  == lab.op = "Encrypt" /\ e.res = "ok" /\ Len(rcs) >= 1
           out  == IF e.res = "ok"
                   THEN IF lab.op = "Encrypt" THEN <<"env", Len(store) + 1>>
                        ELSE IF lab.kind \in {"good", "wrongad", "nopayload"} /\ e.out = cst[lab.i].pt THEN <<"pt", lab.i>> ELSE <<"pt", 0>>
                   ELSE IF e.out = "" THEN NoOut ELSE <<"partial", 0>>
           obs  == [lab |-> lab, calls |-> cs, res |-> e.res, out |-> out, nd0 |-> ndek, st0 |-> store]
           newD == IF lab.op = "Encrypt" /\ Len(rcs) >= 1 /\ IndexOf(cdeks, rcs[1].arg) = 0 THEN <<rcs[1].arg>> ELSE <<>>
       IN /\ last' = obs
          /\ store' = IF okE THEN Append(store, [form |-> cs[Len(cs)].ret[2], dek |-> cs[1].arg[2]]) ELSE store
          /\ ndek' = ndek + Len(newD)
          /\ cdeks' = cdeks \o newD
          /\ cst' = IF okE THEN Append(cst, [ct |-> e.out, pt |-> e.in, ad |-> e.ad, dek |-> rcs[1].arg, encdek |-> rcs[Len(rcs)].ret]) ELSE cst
          /\ n' = n + 1
          /\ UNCHANGED <<cfg, aux, sc>>
          /\ bad' = JudgeCall(e, lab, f, rcs, m, obs)

StepOf(e) ==
  CASE e.ev = "reset" -> Step_reset(e)
    [] e.ev = "new"   -> Step_new(e)
    [] e.ev = "call"  -> Step_call(e)
    [] e.ev = "end"   -> Step_end(e)
    [] OTHER -> Keep /\ bad' = Infra("unexpected event", e.ev)

TInit == /\ l = Start /\ bad = <<>> /\ sc = NoSc /\ cst = <<>> /\ cdeks = <<>>
         /\ cfg = [variant |-> "2", tmpl |-> "valid", client |-> "-"] /\ store = Store0 /\ ndek = 1 /\ aux = NoAux /\ last = NoLast /\ n = 0
TNext == l <= Len(Trace) /\ l' = l + 1 /\ StepOf(Trace[l])

Conforms == bad = <<>>
Consumed == TLCGet("stats").diameter = Len(Trace) + 2 - Start
================================================================================
