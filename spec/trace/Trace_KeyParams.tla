--------------------------- MODULE Trace_KeyParams ---------------------------
(* Trace validation for C12, part 1: key and parameters round trips.                     *)
(* Per parameter record enumerated by Plan_KeyParams a "params" event: what the REAL     *)
(* constructor said (accepted), parameters -> KeyTemplate -> parameters; and a "keys"      *)
(* event for every accepted record: for every                                             *)
(* key kind (symmetric | private, public) and material class (random, zero, leadzero,     *)
(* maxid, id0; RSA: unbalanced primes, CRT values / d with leading zero bytes)             *)
(* key -> KeySerialization -> key, as recorded from                           *)
(* internal/protoserialization and from the public keyset route (Manager.AddKey +         *)
(* insecurecleartextkeyset Write/Read, binary and JSON).                                  *)
(*                                                                                        *)
(* Oracle (statement of C12): whenever serialization succeeds, parsing succeeds, the      *)
(* parsed object is Equal (both directions) and serializing it again is byte-identical;    *)
(* the serialized form carries the documented type URL, key material type, output prefix   *)
(* type of the variant and the id requirement.  Which records the constructors accept      *)
(* and which the serializers refuse is a COVERAGE expectation (reason starts with          *)
(* "COVERAGE"): the check turns it into exit 2, never into a violation.                    *)
EXTENDS KeyParams, Json, TLC
W == INSTANCE KeyFormatWire

Trace == ndJsonDeserialize(IOEnv.VERIF_TRACE)
Start == IF "VERIF_START" \in DOMAIN IOEnv THEN atoi(IOEnv.VERIF_START) ELSE 1

\* the variant (or JWT kid strategy) that decides prefix type and id requirement
DerivedVariant(d) ==
  CASE d \in {"AES128_GCM_TINK", "XCHACHA20_POLY1305_TINK", "AES256_SIV_TINK", "HMAC_SHA256_128BITTAG_TINK", "ED25519_TINK",
              "ECDSA_P256_TINK"} -> "TINK"
    [] d = "AES256_GCM_SIV_CRUNCHY" -> "CRUNCHY"
    [] OTHER -> "NO_PREFIX"
VariantOf(T, p) ==
  IF "variant" \in DOMAIN p THEN p.variant
  ELSE IF "kidStrategy" \in DOMAIN p THEN p.kidStrategy
  ELSE IF T = "PrfBasedDeriver" THEN DerivedVariant(p.derived)
  ELSE "NO_PREFIX"
TemplateKind(T) == IF T \in Asymmetric THEN "private" ELSE "symmetric"

JudgeTemplate(T, p, t) ==
  IF t.panic THEN <<"panic while serializing / parsing parameters", "no panic">>
  ELSE IF ~t.ser THEN (IF TemplateRepresentable(T, p) THEN <<"COVERAGE: SerializeParameters refuses parameters the proto format can carry", T>> ELSE <<>>)
  ELSE IF ~t.parse THEN <<"serialized parameters do not parse", "parse ok">>
  ELSE IF ~t.equal \/ ~t.equalRev THEN <<"parameters -> template -> parameters is not Equal", "Equal">>
  ELSE IF ~t.ser2 THEN <<"parsed parameters do not serialize again", "ok">>
  ELSE IF <<t.url2, t.prefix2, t.value2>> # <<t.url, t.prefix, t.value>>
         THEN <<"re-serialized template is not byte-identical", t.value>>
  ELSE IF t.url # TypeURL(T, TemplateKind(T)) THEN <<"template type URL", TypeURL(T, TemplateKind(T))>>
  ELSE IF t.prefix # PrefixOf(VariantOf(T, p)) THEN <<"template output prefix type does not match the variant", PrefixOf(VariantOf(T, p))>>
  ELSE IF TemplateRepresentable(T, p) /\ W!TemplateMismatch(T, p, t.value) # <<>>
         THEN <<"template does not carry a parameter at its documented proto field", "field " \o W!TemplateMismatch(T, p, t.value)[1],
                W!TemplateMismatch(T, p, t.value)[2]>>
  ELSE <<>>

IdReq(T, p, k) == IF HasIdRequirement(VariantOf(T, p)) THEN k.id ELSE "none"

JudgeKey(T, p, k) ==
  IF k.panic THEN <<"panic while building / serializing / parsing a key", "no panic">>
  ELSE IF ~k.built THEN (IF k.mc = "random" /\ KeyConstructible(T, k.kind, p) THEN <<"COVERAGE: key constructor refuses random material for accepted parameters", T>> ELSE <<>>)
  ELSE IF k.ksinfo \in {"panic", "panic before KeysetInfo"}
         THEN <<"a handle holding the key panics in KeysetInfo() / String()", "no panic">>
  ELSE IF ~k.ser THEN (IF Representable(T, p) THEN <<"SerializeKey refuses a key the constructor accepted and the proto format can carry", "ok">> ELSE <<>>)
  ELSE IF ~k.parse THEN <<"serialized key does not parse", "parse ok">>
  ELSE IF ~k.equal \/ ~k.equalRev THEN <<"key -> KeySerialization -> key is not Equal", "Equal">>
  ELSE IF ~k.ser2 THEN <<"parsed key does not serialize again", "ok">>
  ELSE IF <<k.url2, k.prefix2, k.material2, k.idreq2, k.value2>> # <<k.url, k.prefix, k.material, k.idreq, k.value>> \/ ~k.serEqual
         THEN <<"re-serialized key is not byte-identical", k.value>>
  ELSE IF k.url # TypeURL(T, k.kind) THEN <<"key type URL", TypeURL(T, k.kind)>>
  ELSE IF k.material # Material(T, k.kind) THEN <<"key material type", Material(T, k.kind)>>
  ELSE IF k.prefix # PrefixOf(VariantOf(T, p)) THEN <<"key output prefix type does not match the variant", PrefixOf(VariantOf(T, p))>>
  ELSE IF k.idreq # IdReq(T, p, k) THEN <<"serialized id requirement", IdReq(T, p, k)>>
  ELSE IF k.ksbin # "equal" THEN <<"keyset route (AddKey, binary cleartext write/read) does not return an Equal key", "equal">>
  ELSE IF k.ksjson # "equal" THEN <<"keyset route (AddKey, JSON cleartext write/read) does not return an Equal key", "equal">>
  ELSE <<>>

RECURSIVE FirstBad(_, _, _, _)
FirstBad(T, p, ks, i) ==
  IF i > Len(ks) THEN <<>>
  ELSE LET b == JudgeKey(T, p, ks[i]) IN
       IF b # <<>> THEN <<b[1], ks[i].kind, ks[i].mc>> \o Tail(b) ELSE FirstBad(T, p, ks, i + 1)

\* events: "params" (constructor verdict and the template round trip) and "keys" (all keys of an accepted record)
Judge(e) ==
  IF e.ev = "keys" THEN FirstBad(e.kt, e.p, e.keys, 1)
  ELSE IF e.panic THEN <<"panic in a parameters constructor", "no panic">>
  ELSE IF e.accepted # ParamsOK(e.kt, e.p)
         THEN <<"COVERAGE: constructor acceptance differs from ParamsOK", ToString(ParamsOK(e.kt, e.p))>>
  ELSE IF ~e.accepted THEN <<>>
  ELSE JudgeTemplate(e.kt, e.p, e.tpl)

\* A disagreement is reported once per signature (key type, event, reason, key kind, representable class) and shard:
\* repetitions of an already reported signature do not stop the run again (the check de-duplicates by signature
\* anyway); after a restart behind a mismatch the signatures of the prefix are recomputed.
SigOf(e, b) == <<e.kt, e.ev, b[1], IF e.ev = "keys" THEN b[2] ELSE "", e.rep>>
SigsUpTo(n) == {SigOf(Trace[i], Judge(Trace[i])) : i \in {j \in 1..n : Judge(Trace[j]) # <<>>}}

VARIABLES l, bad, seen
Init == l = Start /\ bad = <<>> /\ seen = SigsUpTo(Start - 1)
Next ==
  /\ l <= Len(Trace)
  /\ l' = l + 1
  /\ LET b == Judge(Trace[l]) IN
       IF b = <<>> THEN bad' = <<>> /\ seen' = seen
       ELSE /\ seen' = seen \cup {SigOf(Trace[l], b)}
            /\ bad' = IF SigOf(Trace[l], b) \in seen THEN <<>> ELSE b
Conforms == bad = <<>>
Consumed == TLCGet("stats").diameter = Len(Trace) + 2 - Start
================================================================================
