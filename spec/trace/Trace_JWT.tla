-------------------------------- MODULE Trace_JWT --------------------------------
(* Trace validation for C09.  Every recorded call of the real code is judged:        *)
(*                                                                                  *)
(*  verify   VerifyAndDecode / VerifyMACAndDecode(tok, validator(v, now)) of the     *)
(*           keyset ks answered ok (and, on acceptance, the accessor values got).    *)
(*           The token's VIEW is computed here from its octets (JWS: split at the    *)
(*           dots, strict base64url, signature / MAC validity under every key of    *)
(*           the keyset by the reference algorithms over the JDK) together with     *)
(*           the abstract header / claims values t.hdr, t.pl whose JSON text         *)
(*           (JWTText) the token must carry.  ok must equal JWT!Decide(view, ks, v,   *)
(*           now); on acceptance got must equal the claims of the view.              *)
(*                                                                                  *)
(*  sign     SignAndEncode / ComputeMACAndEncode of a RawJWTOptions case: the token  *)
(*           must verify under the primary key by the reference verifier, carry      *)
(*           exactly {alg, kid per strategy, typ} and the options' claims, and round  *)
(*           trip through the real verifier of the public keyset.                    *)
(*  jwk      private -> public -> JWK set -> import -> verify; private export fails.  *)
(*  newvalidator   which option combinations NewValidator refuses (coverage only).    *)
(*                                                                                  *)
(* Reasons starting with "EXPECTATION" are coverage expectations (DESIGN section 4), *)
(* reasons starting with "INSTANTIATION" mean that the driver did not build the      *)
(* token / keyset the case describes (infrastructure, never a verdict).              *)
EXTENDS JWTText, JWS, Json, IOUtils, CSV

Trace == ndJsonDeserialize(IOEnv.VERIF_TRACE)

\* key material catalogue of the run: one record, field names "HS/m1", "EC/P256/m1", "RSA/m1", ...
KeyCat == IF "VERIF_KEYS" \in DOMAIN IOEnv THEN ndJsonDeserialize(IOEnv.VERIF_KEYS)[1] ELSE [none |-> ""]
MatName(alg, mat) == CASE JWSFamily(alg) = "HS"  -> "HS/" \o mat
                       [] JWSFamily(alg) = "EC"  -> "EC/" \o JWSCurve(alg) \o "/" \o mat
                       [] JWSFamily(alg) = "RSA" -> "RSA/" \o mat
KM(alg, mat) == LET r == KeyCat[MatName(alg, mat)]
                IN [k |-> HexToBytes(r.k), pk |-> HexToBytes(r.pk), n |-> HexToBytes(r.n), e |-> HexToBytes(r.e)]

VARIABLES l, bad
vars == <<l, bad>>

\* ------------------------------------------------------------------ verify
ViewOf(e, p) ==
  [compact |-> p.ok,
   validUnder |-> IF p.ok THEN {i \in 1..Len(e.ks) : JWSValid(e.ks[i].alg, KM(e.ks[i].alg, e.ks[i].mat), p.input, p.sig)}
                  ELSE {},
   hdr |-> e.t.hdr, pl |-> e.t.pl]

\* the token is the instantiation of the case.  Random events (rnd) carry JSON text made by the
\* driver's encoder (arbitrary string contents), so the text is not re-derived; mutated tokens (mut)
\* were changed after signing: whatever the change did to the header or the claims, it must have
\* destroyed the signature.
IsRandom(e) == "rnd" \in DOMAIN e
IsMutated(e) == "mut" \in DOMAIN e /\ e.mut # ""
Instantiation(e, p, w) ==
  IF ~IsRandom(e) /\ (e.hdrText # BytesToHex(HeaderText(e.t.hdr)) \/ e.plText # BytesToHex(ClaimsText(e.t.pl)))
    THEN <<"INSTANTIATION: the JSON text is not the text of the abstract header / claims", e.hdrText>>
  ELSE IF IsMutated(e)
    THEN IF p.ok /\ (p.header # HexToBytes(e.hdrText) \/ p.payload # HexToBytes(e.plText)) /\ w.validUnder # {}
         THEN <<"INSTANTIATION: a token changed after signing still verifies", ToString(w.validUnder)>> ELSE <<>>
  ELSE IF AbstractCompact(e.t) = "yes" /\ ~p.ok THEN <<"INSTANTIATION: the token is not a compact serialization", "yes">>
  ELSE IF AbstractCompact(e.t) = "no" /\ p.ok THEN <<"INSTANTIATION: the token is a compact serialization", "no">>
  ELSE IF p.ok /\ (p.header # HexToBytes(e.hdrText) \/ p.payload # HexToBytes(e.plText))
    THEN <<"INSTANTIATION: the token does not carry the header / claims text", e.hdrText>>
  ELSE IF p.ok /\ w.validUnder # AbstractValidUnder(e.t, e.ks)
    THEN <<"INSTANTIATION: signature validity differs from the case", ToString(w.validUnder)>>
  ELSE <<>>

ClaimDiff(g, c) ==
  IF g.typ # c.typ THEN "typ" ELSE IF g.iss # c.iss THEN "iss" ELSE IF g.sub # c.sub THEN "sub"
  ELSE IF g.jti # c.jti THEN "jti" ELSE IF g.aud # c.aud THEN "aud"
  ELSE IF ~SameTime(g.exp, c.exp) THEN "exp" ELSE IF ~SameTime(g.nbf, c.nbf) THEN "nbf"
  ELSE IF ~SameTime(g.iat, c.iat) THEN "iat"
  ELSE IF {g.custom[i] : i \in 1..Len(g.custom)} # {c.custom[i] : i \in 1..Len(c.custom)} THEN "custom claims"
  ELSE ""

JudgeVerify(e) ==
  LET p == JWSParse(HexToBytes(e.tok))
      w == ViewOf(e, p)
      inst == Instantiation(e, p, w)
      want == Decide(w, e.ks, e.v, e.now)
  IN IF inst # <<>> THEN inst
     ELSE IF e.panic THEN <<"verification panicked", ToString(want)>>
     ELSE IF e.ok # want THEN <<IF want THEN "rejected a token that Decide accepts" ELSE "accepted a token that Decide rejects",
                                ToString(want)>>
     ELSE IF e.ok /\ ClaimDiff(e.got, Claims(w)) # ""
       THEN <<"returned claims differ from the signed payload", ClaimDiff(e.got, Claims(w))>>
     ELSE <<>>

\* ------------------------------------------------------------------ sign (direction Tink -> specification)
\* SignAndEncode / ComputeMACAndEncode(NewRawJWT(o)) with the primary key ks[1] produced tok.  hdr and pl
\* are the driver's independent projection of the token (encoding/base64 + encoding/json) to the
\* model's values; everything else is recomputed here from the octets.
\* What the signer has to emit for the key (so that the key's own kid rule holds) and the options:
SignedHeaderOK(h, key, o) ==
  /\ IsStr(h.alg, key.alg)
  /\ IF key.strat = "IGNORED" THEN h.kid.k = "absent" ELSE IsStr(h.kid, key.kid)
  /\ h.typ = o.typ
  /\ h.crit = "absent" /\ h.others = <<>>
SignedClaimsOK(p, o) ==
  /\ p.iss = o.iss /\ p.sub = o.sub /\ p.jti = o.jti
  /\ p.aud.k = "absent" <=> o.aud.k = "absent"
  /\ AudTyped(p.aud) /\ Audiences(p.aud) = Audiences(o.aud)
  /\ SameTime(p.exp, o.exp) /\ SameTime(p.nbf, o.nbf) /\ SameTime(p.iat, o.iat)
  /\ {p.custom[i] : i \in 1..Len(p.custom)} = {o.custom[i] : i \in 1..Len(o.custom)}

SignView(e, p) ==
  [compact |-> p.ok,
   validUnder |-> IF ~e.sigChecked THEN {1}       \* ML-DSA: no independent implementation here (round trip only)
                  ELSE {i \in 1..Len(e.ks) : JWSValid(e.ks[i].alg, KM(e.ks[i].alg, e.ks[i].mat), p.input, p.sig)},
   hdr |-> e.hdr, pl |-> e.pl]

JudgeToken(e) ==
  LET p == JWSParse(HexToBytes(e.tok))
      w == SignView(e, p)
  IN IF ~p.ok \/ ~e.projOK THEN <<"the signer's token is not a compact serialization of two JSON objects", "compact">>
     ELSE IF ~p.canonical THEN <<"EXPECTATION: the signer's base64url is canonical", "canonical">>
     ELSE IF 1 \notin w.validUnder
       THEN <<"the signer's token does not verify under the primary key (reference verifier)", "valid">>
     ELSE IF ~SignedHeaderOK(e.hdr, e.ks[1], e.o) THEN <<"the signer's header is not {alg, kid per strategy, typ}", e.ks[1].alg>>
     ELSE IF ~SignedClaimsOK(e.pl, e.o) THEN <<"the signed claims differ from the RawJWTOptions", "claims">>
     ELSE IF ~Decide(w, e.ks, e.v, e.now) THEN <<"EXPECTATION: Decide accepts a token of the signer", "TRUE">>
     ELSE IF e.vpanic THEN <<"verification panicked", "accept">>
     ELSE IF ~e.vok THEN <<"round trip: the verifier rejects the token its keyset signed", "accept">>
     ELSE IF ClaimDiff(e.got, Claims(w)) # ""
       THEN <<"round trip: returned claims differ from the signed claims", ClaimDiff(e.got, Claims(w))>>
     ELSE <<>>

JudgeSign(e) ==
  IF e.panic THEN <<"SignAndEncode panicked", "token">>
  ELSE IF e.err THEN <<"SignAndEncode failed on valid options", "token">>
  ELSE JudgeToken(e)

\* ------------------------------------------------------------------ jwk: private -> public -> JWK set -> import -> verify
JudgeJWK(e) ==
  IF e.panic THEN <<"JWK conversion panicked", "no panic">>
  ELSE IF ~e.privExportErr THEN <<"JWK export of a PRIVATE keyset succeeded", "error">>
  ELSE IF e.exportErr THEN <<"JWK export of a public keyset failed", "JWK set">>
  ELSE IF e.importErr THEN <<"import of an exported JWK set failed", "keyset">>
  ELSE IF e.signErr THEN <<"SignAndEncode failed on valid options", "token">>
  ELSE IF e.flipOk THEN <<"the imported keyset accepts a token with a changed signature", "reject">>
  ELSE JudgeToken(e)

\* ------------------------------------------------------------------ NewValidator (coverage expectation, not an oracle)
JudgeNewValidator(e) ==
  IF e.panic THEN <<"NewValidator panicked", "no panic">>
  ELSE IF e.err = ~ValidatorOptsOK(e.o) THEN <<>>
  ELSE <<"EXPECTATION: NewValidator refuses exactly the exclusive options and skew > 10 min", ToString(ValidatorOptsOK(e.o))>>

\* ------------------------------------------------------------------ jws: known answers (bin/selfspec, Wycheproof)
\* A JWS library accepts tok for the key (alg, km) iff it is a compact serialization whose header is an
\* object naming exactly the key's algorithm and whose signature verifies.  hdrObj / hdrAlg: the header
\* as parsed by the vector converter.
JudgeJWS(e) ==
  LET p == JWSParse(HexToBytes(e.tok))
      km == [k |-> HexToBytes(e.km.k), pk |-> HexToBytes(e.km.pk), n |-> HexToBytes(e.km.n), e |-> HexToBytes(e.km.e)]
      v == p.ok /\ e.hdrObj /\ IsStr(e.hdrAlg, e.alg) /\ JWSValid(e.alg, km, p.input, p.sig)
  IN IF v = e.ok THEN <<>> ELSE <<"known answer differs from the JWS reference", ToString(v)>>

Judge(e) ==
  CASE e.ev = "verify" -> JudgeVerify(e)
    [] e.ev = "jws" -> JudgeJWS(e)
    [] e.ev = "sign" -> JudgeSign(e)
    [] e.ev = "jwk" -> JudgeJWK(e)
    [] e.ev = "newvalidator" -> JudgeNewValidator(e)
    [] OTHER -> <<"unknown event", e.ev>>

Start == IF "VERIF_START" \in DOMAIN IOEnv THEN atoi(IOEnv.VERIF_START) ELSE 1

\* With VERIF_COLLECT set, mismatches are written to that file (one JSON line each) and the run
\* goes on: used for the block whose deviations are a reported finding, so that judging it costs one
\* pass.  Otherwise the contract of vlib.validate_events holds (invariant Conforms on bad).
Collect == "VERIF_COLLECT" \in DOMAIN IOEnv
Init == l = Start /\ bad = <<>>
Next == /\ l <= Len(Trace)
        /\ LET j == Judge(Trace[l]) IN
             IF Collect
             THEN /\ bad' = <<>>
                  /\ j # <<>> => CSVWrite("%1$s", <<ToJson([index |-> l, bad |-> j])>>, IOEnv.VERIF_COLLECT)
             ELSE bad' = j
        /\ l' = l + 1
Spec == Init /\ [][Next]_vars

Conforms == bad = <<>>
Consumed == TLCGet("stats").diameter = Len(Trace) + 2 - Start
================================================================================
