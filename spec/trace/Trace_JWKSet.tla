------------------------------- MODULE Trace_JWKSet -------------------------------
(* X01: every recorded call of the real converter is judged against module JWKSet.   *)
(*                                                                                  *)
(*  import  jwt.JWKSetToPublicKeysetHandle(text) answered err / a keyset handle whose  *)
(*          projection (per key: algorithm, kid strategy and kid, id requirement, key   *)
(*          id, status, primary, public key octets) is keys.  The JSON value the text   *)
(*          stands for is tree; for plan cases (src "plan") it must be the case's value  *)
(*          for the material of the run (JwkSubst) and the text must be the text of that  *)
(*          value (JShapeText) - both recomputed here - before anything is judged.       *)
(*          For text the converter itself produced (src "export") and for Wycheproof's   *)
(*          sets the tree is the driver's parse (JSON parsing is not modelled).          *)
(*  export  jwt.JWKSetFromPublicKeysetHandle(keyset ks) answered err / text, parsed by    *)
(*          the driver into tree.                                                       *)
(*  verify  a token signed by key #signer of ks (through a one-key private keyset) was    *)
(*          given to the verifier of Import(Export(ks)) made by the real code: ok.        *)
(*                                                                                  *)
(* Reasons starting with "EXPECTATION" are as-built choices or coverage expectations     *)
(* (exit 2, "model out of date"), "INSTANTIATION" means the driver did not build what the  *)
(* case describes (infrastructure); everything else contradicts a documented rule.        *)
EXTENDS JWKSetCases, Json, CSV

Trace == ndJsonDeserialize(IOEnv.VERIF_TRACE)

VARIABLES l, bad
vars == <<l, bad>>

\* ------------------------------------------------------------------ import
KeyDiff(p, k) ==
  IF p.type # JwkFam(k.alg) THEN "key type" ELSE IF p.alg # k.alg THEN "algorithm"
  ELSE IF p.idReq \/ p.strat = "TINK" THEN "id requirement (an imported key is RAW)"
  ELSE IF p.strat # k.strat THEN "kid strategy"
  ELSE IF p.hasKid # (k.strat = "CUSTOM") \/ HexToBytes(p.kid) # k.kid THEN "kid"
  ELSE IF p.type = "EC" /\ (HexToBytes(p.x) # k.pub.x \/ HexToBytes(p.y) # k.pub.y) THEN "public point"
  ELSE IF p.type = "RSA" /\ RSAStrip(HexToBytes(p.n)) # RSAStrip(k.pub.n) THEN "modulus"
  ELSE IF p.type = "RSA" /\ RSAStrip(HexToBytes(p.e)) # RSAStrip(k.pub.e) THEN "public exponent"
  ELSE ""

KeysOK(e, r) ==
  LET ks == e.keys
      want == r.keys
      n == Len(ks)
  IN IF n # Len(want) THEN <<"the imported keyset does not have one key per JWK", ToString(Len(want))>>
     ELSE IF \E i \in 1..n : KeyDiff(ks[i], want[i]) # ""
       THEN LET i == CHOOSE i \in 1..n : KeyDiff(ks[i], want[i]) # "" IN <<"an imported key is not the key of its JWK", KeyDiff(ks[i], want[i])>>
     ELSE IF \E i, j \in 1..n : i < j /\ ks[i].id = ks[j].id THEN <<"imported keys share a key id", "distinct">>
     ELSE IF \E i \in 1..n : ks[i].status # "Enabled" THEN <<"an imported key is not ENABLED", "Enabled">>
     ELSE IF Cardinality({i \in 1..n : ks[i].primary}) # 1 THEN <<"the imported keyset does not have exactly one primary", "1">>
     ELSE IF ~ks[n].primary THEN <<"EXPECTATION: the LAST imported key is the primary", ToString(n)>>
     ELSE IF \E i \in 1..n : ks[i].type = "RSA" /\ HexToBytes(ks[i].n) # want[i].pub.n
       THEN <<"EXPECTATION: the modulus octets are kept as they come", "verbatim">>
     ELSE <<>>

ImportInstantiation(e, tree) ==
  IF e.src = "plan" /\ JwkSubst(JLift(e.plan), MatOfEvent(e.mat)) # tree
    THEN <<"INSTANTIATION: the JSON value is not the case's value for the material of the run", e.lab>>
  ELSE IF e.src # "export" /\ JShapeText(e.shape, tree) # HexToBytes(e.text)
    THEN <<"INSTANTIATION: the text is not the text of the JSON value", e.lab>>
  ELSE <<>>

JudgeImport(e) ==
  LET tree == JLift(e.tree)
      inst == ImportInstantiation(e, tree)
      r == JwkImport(e.shape, tree)
  IN IF inst # <<>> THEN inst
     ELSE IF e.panic THEN <<"import panicked", r.verdict>>
     ELSE CASE r.verdict = "reject" ->
                 IF e.err THEN <<>>
                 ELSE IF Len(e.keys) = r.n THEN <<"accepted a JWK set that a documented rule refuses", ToString(r.doc)>>
                 ELSE <<"EXPECTATION: one refused key refuses the whole set", ToString(r.doc)>>
            [] r.verdict = "reject*" ->
                 IF e.err THEN <<>> ELSE <<"EXPECTATION: as-built refusal", ToString(r.gf)>>
            [] r.verdict = "accept*" ->
                 IF e.err THEN <<"EXPECTATION: as-built leniency", ToString(r.gp)>> ELSE KeysOK(e, r)
            [] r.verdict = "accept" ->
                 IF e.err THEN <<"rejected a well-formed JWK set of supported public keys", "accept">> ELSE KeysOK(e, r)

\* ------------------------------------------------------------------ export
KeyOfEvent(k) ==
  [kind |-> k.kind, alg |-> k.alg, strat |-> k.strat, id |-> HexToBytes(k.id), kid |-> HexToBytes(k.kid),
   status |-> k.status, priv |-> k.priv,
   pub |-> IF k.alg \in JWSEcAlgs THEN [x |-> HexToBytes(k.x), y |-> HexToBytes(k.y)]
           ELSE [n |-> HexToBytes(k.n), e |-> HexToBytes(k.e)]]
KeysetOfEvent(e) == [keys |-> [i \in 1..Len(e.ks) |-> KeyOfEvent(e.ks[i])], primary |-> e.primary]

ExportInstantiation(e) ==
  IF /\ Len(e.ks) = Len(e.plan.keys) /\ e.primary = e.plan.primary
     /\ \A i \in 1..Len(e.ks) :
          LET c == e.ks[i]
              a == e.plan.keys[i]
          IN /\ c.kind = a.kind /\ c.alg = a.alg /\ c.strat = a.strat /\ c.status = a.status /\ c.priv = a.priv
             /\ c.id = IdOf(a.idc)
             /\ c.kid = (IF a.kind = "jwt" /\ a.strat = "CUSTOM" THEN BytesToHex(KidBytes(a.kidc)) ELSE "")
             /\ (a.kind = "jwt" /\ a.mat = "lz") => HexToBytes(c.n)[1] = 0
             /\ (a.kind = "jwt" /\ a.mat = "e3") => c.e = "010003"
             /\ (a.kind = "jwt" /\ a.mat = "z") => HexToBytes(c.x)[1] = 0
  THEN <<>> ELSE <<"INSTANTIATION: the keyset is not the keyset of the case", e.lab>>

SameBag(s, t) == /\ Len(s) = Len(t)
                 /\ \A i \in 1..Len(s) : Cardinality({j \in 1..Len(s) : s[j] = s[i]}) = Cardinality({j \in 1..Len(t) : t[j] = s[i]})
\* where an exported JWK differs from the documented view of its key (same position)
ViewDiff(g, w) ==
  IF \E i \in 1..Len(JwkDocNames) : g.vals[i] # w.vals[i]
  THEN "member " \o JwkDocNames[CHOOSE i \in 1..Len(JwkDocNames) : g.vals[i] # w.vals[i] /\ \A j \in 1..(i - 1) : g.vals[j] = w.vals[j]]
  ELSE IF ~g.useOK THEN "use" ELSE IF ~g.opsOK THEN "key_ops" ELSE IF g.private # {} THEN "private member"
  ELSE IF g.dup THEN "duplicate member names" ELSE ""
ExportDiff(got, want) ==
  IF Len(got) # Len(want) THEN "number of keys (one per ENABLED key)"
  ELSE IF \E i \in 1..Len(got) : JwkDocView(got[i]) # JwkDocView(want[i])
  THEN LET i == CHOOSE i \in 1..Len(got) : JwkDocView(got[i]) # JwkDocView(want[i]) IN ViewDiff(JwkDocView(got[i]), JwkDocView(want[i]))
  ELSE ""

JudgeExport(e) ==
  LET ks == KeysetOfEvent(e)
      inst == ExportInstantiation(e)
  IN IF inst # <<>> THEN inst
     ELSE IF e.panic THEN <<"export panicked", "no panic">>
     ELSE IF JwkExportRefused(ks)
       THEN IF e.err THEN <<>> ELSE <<"exported a keyset with an ENABLED private or unsupported key", "error">>
     ELSE IF e.err
       THEN IF JwkExportGrey(ks) THEN <<"EXPECTATION: keys that are not ENABLED are not looked at", "JWK set">>
            ELSE <<"refused to export a public keyset of supported JWT keys", "JWK set">>
     ELSE IF ~e.parseOK THEN <<"the exported text is not a JSON value", "JSON">>
     ELSE LET top == JLift(e.tree) IN
          IF top.k # "obj" THEN <<"the exported value is not a JSON object", "object">>
          ELSE IF JGet(top, "keys").k # "list" THEN <<"the exported object has no keys array", "keys">>
          ELSE LET got == JGet(top, "keys").l
                   want == JwkExportKeys(ks)
               IN IF \E i \in 1..Len(got) : got[i].k # "obj" THEN <<"an exported key is not a JSON object", "object">>
                  ELSE IF ~SameBag([i \in 1..Len(got) |-> JwkDocView(got[i])], [i \in 1..Len(want) |-> JwkDocView(want[i])])
                    THEN <<"the exported JWKs are not the JWKs of the ENABLED keys", ExportDiff(got, want)>>
                  ELSE IF \/ JDup(top) \/ JNames(top) # {"keys"}
                          \/ [i \in 1..Len(got) |-> JMemberSet(got[i])] # [i \in 1..Len(want) |-> JMemberSet(want[i])]
                    THEN <<"EXPECTATION: exactly the as-built members (use, key_ops), keys in keyset order", "as built">>
                  ELSE <<>>

\* ------------------------------------------------------------------ verify: Import(Export(ks)) on real code
JudgeVerify(e) ==
  LET ks == KeysetOfEvent(e)
      k == ks.keys[e.signer]
      tok == [alg |-> e.tokAlg, pub |-> k.pub,
              kid |-> IF e.tokKid.k = "str" THEN J!Str(HexToBytes(e.tokKid.h)) ELSE J!Absent]
      imp == JwkImport("object", JwkExportSet(ks))
      want == JwkAccepted(imp) /\ JwkKeysetAccepts(JwkImportedKeyset(imp), tok)
      inst == ExportInstantiation(e)
  IN IF inst # <<>> THEN inst
     ELSE IF e.signErr THEN <<"EXPECTATION: a private key of the case signs a token", "token">>
     ELSE IF e.tokKid.k \notin {"str", "absent"} \/ tok # JwkTokenOf(k)
       THEN <<"EXPECTATION: the signer's header carries its algorithm and the kid of its strategy (C09)", k.strat>>
     ELSE IF e.panic THEN <<"verification with the imported keyset panicked", "no panic">>
     ELSE IF e.importErr THEN <<>>                    \* judged by the import event of the same text
     ELSE IF e.verifierErr THEN <<"EXPECTATION: jwt.NewVerifier accepts the imported keyset", "verifier">>
     ELSE IF e.ok # want
       THEN <<IF want THEN "the imported keyset rejects a token signed by an ENABLED key of the exported keyset"
              ELSE "the imported keyset verifies a token of a key that is not ENABLED in the exported keyset", ToString(want)>>
     ELSE <<>>

Judge(e) ==
  CASE e.ev = "import" -> JudgeImport(e)
    [] e.ev = "export" -> JudgeExport(e)
    [] e.ev = "verify" -> JudgeVerify(e)
    [] OTHER -> <<"unknown event", e.ev>>

\* With VERIF_STATS set, the class the specification puts every call in is appended to <trace file>.stats (one
\* JSON line per event; TLC evaluates Next again when it reconstructs an error trace, so lines carry the position
\* and the reader keeps one per position): the check reports from it which as-built choices the run exercised.
Stat(e) ==
  CASE e.ev = "import" -> LET r == JwkImport(e.shape, JLift(e.tree)) IN
                          [ev |-> "import", src |-> e.src, blk |-> e.blk, verdict |-> r.verdict, err |-> e.err,
                           doc |-> SetToSeq(r.doc), gf |-> SetToSeq(r.gf), gp |-> SetToSeq(r.gp)]
    [] e.ev = "export" -> LET ks == KeysetOfEvent(e) IN
                          [ev |-> "export", src |-> "plan", blk |-> e.blk, err |-> e.err,
                           verdict |-> IF JwkExportRefused(ks) THEN "refused" ELSE IF JwkExportGrey(ks) THEN "exported*" ELSE "exported",
                           doc |-> <<>>, gf |-> <<>>, gp |-> <<>>]
    [] OTHER -> [ev |-> e.ev, src |-> "plan", blk |-> e.blk, err |-> ~e.ok, verdict |-> IF e.ok THEN "verified" ELSE "not verified",
                 doc |-> <<>>, gf |-> <<>>, gp |-> <<>>]
Stats == "VERIF_STATS" \in DOMAIN IOEnv

Start == IF "VERIF_START" \in DOMAIN IOEnv THEN atoi(IOEnv.VERIF_START) ELSE 1
Init == l = Start /\ bad = <<>>
Next == /\ l <= Len(Trace)
        /\ bad' = Judge(Trace[l])
        /\ Stats => CSVWrite("%1$s", <<ToJson([i |-> l, s |-> Stat(Trace[l])])>>, IOEnv.VERIF_TRACE \o ".stats")
        /\ l' = l + 1
Spec == Init /\ [][Next]_vars

Conforms == bad = <<>>
Consumed == TLCGet("stats").diameter = Len(Trace) + 2 - Start
================================================================================
