----------------------------- MODULE Trace_Streaming -----------------------------
(* Trace validation for C07: every recorded call on the real streaming objects is   *)
(* matched against the action of Streaming (sys/) with the logged arguments; what   *)
(* the call returned, what it handed to the underlying io.Writer and what it asked  *)
(* of the underlying io.Reader must be what the specification says.                 *)
(*                                                                                 *)
(* A trace is a sequence of scenarios, each starting with a `reset` event that      *)
(* carries the parameters.  Two levels:                                             *)
(*  "toy"   real noncebased.Writer/Reader around the harness' segment cipher         *)
(*          (segment || SHA-256(key || nonce || segment)[:T]); all bytes are logged *)
(*          and TLC recomputes them: nonce = prefix || be32(i) || last || 0...,     *)
(*          so the abstract strings of the model are compared byte by byte.         *)
(*  "arith" real AES-GCM-HKDF / AES-CTR-HMAC objects with real sizes; only lengths, *)
(*          results and the position of returned data in the plaintext are logged   *)
(*          (bytes of that format are judged by Trace_StreamFormat).                *)
(* Events: reset, NewWriter, Write, Close, Tamper, NewReader, Read.                 *)
(*                                                                                 *)
(* Mismatch classes (first word of `bad`): [property] the real behaviour            *)
(* contradicts the property; [model] the real code is correct as far as the         *)
(* property goes but does not do what the model says (model out of date: exit 2);   *)
(* [driver] the driver's own bookkeeping is inconsistent (exit 2).                  *)
EXTENDS Streaming, Bytes, Json, IOUtils, TLC

Trace == ndJsonDeserialize(IOEnv.VERIF_TRACE)
Start == IF "VERIF_START" \in DOMAIN IOEnv THEN atoi(IOEnv.VERIF_START) ELSE 1

VARIABLES l, bad,
          tc      \* the reset event of the current scenario
tvars == <<vars, l, bad, tc>>

ParamsOf(e) == [P |-> e.P, T |-> e.T, Off |-> e.Off, Hdr |-> e.hdr, mk |-> 1]
ToManip(j)  == Manip(j.kind, j.at, j.n, j.i, j.j, j.perm)
ToManips(js) == [x \in 1..Len(js) |-> ToManip(js[x])]
Script(e)   == IF "calls" \in DOMAIN e THEN Follow([x \in 1..Len(e.calls) |-> [n |-> e.calls[x].n, err |-> e.calls[x].err]])
               ELSE Greedy
ErrOf(b)    == IF b THEN "ERR" ELSE "nil"

(***** concretisation of the model's strings at level "toy" *****)
Toy == tc.lvl = "toy"
PT  == HexToBytes(tc.pt)
ToyKey(s) == HexToBytes(IF s[2] = WAad THEN tc.key ELSE tc.key2)
SegNonce(i, last) ==
  LET pre == HexToBytes(tc.prefix) IN
  pre \o BE(i, 4) \o <<IF last THEN 1 ELSE 0>> \o Zeros(tc.nonceSize - Len(pre) - 5)
ToySeal(key, nonce, seg, t) == seg \o Take(Hash("SHA256", key \o nonce \o seg), t)

RECURSIVE Conc(_), ConcSrc(_)
ConcSrc(s) == CASE s.k = "pt" -> PT
                [] s.k = "ct" -> ToySeal(ToyKey(s.key), SegNonce(s.i, s.last), Conc(s.of), pp.T)
Conc(runs) == IF runs = <<>> THEN <<>>
              ELSE Slice(ConcSrc(runs[1].src), runs[1].a, runs[1].b - runs[1].a) \o Conc(Tail(runs))
\* junk is whatever the driver put there
RECURSIVE Matches(_, _)
Matches(runs, bytes) ==
  IF runs = <<>> THEN bytes = <<>>
  ELSE LET n == runs[1].b - runs[1].a IN
       /\ Len(bytes) >= n
       /\ (runs[1].src.k = "junk" \/ Take(bytes, n) = Conc(<<runs[1]>>))
       /\ Matches(Tail(runs), Drop(bytes, n))

(***** is the action named by the event enabled with the logged arguments? *****)
Guard(e) ==
  CASE e.ev = "NewWriter" -> phase = "start"
    [] e.ev = "Write"     -> phase \in {"writing", "closed"}
    [] e.ev = "Close"     -> phase \in {"writing", "closed"}
    [] e.ev = "Tamper"    -> phase = "closed" /\ ~werr
    [] e.ev = "NewReader" -> phase = "stream" /\ ReaderNew(pp, src, raad, Script(e)) # {}
    [] e.ev = "Read"      -> phase = "reading" /\ ReaderRead(pp, r, src, e.n, Script(e)) # {}
    [] OTHER -> FALSE

Step(e) ==
  CASE e.ev = "NewWriter" -> NewWriter
    [] e.ev = "Write"     -> Write(e.n)
    [] e.ev = "Close"     -> Close
    [] e.ev = "Tamper"    -> Tamper(ToManips(e.m), e.srcFail, "follow")
    [] e.ev = "NewReader" -> NewReader(Script(e))
    [] e.ev = "Read"      -> Read(e.n, Script(e))

(***** comparison of the model's result (res', sink', src') with the recorded one *****)
\* nothing has gone wrong or been interfered with so far: every difference contradicts the property
CleanR == outcome = "none" /\ src.failFrom = 0 /\ ~Effective(manip)

SinkBytes(calls) == Concat([x \in 1..Len(calls) |-> IF calls[x].err THEN <<>> ELSE HexToBytes(calls[x].d)])
SinkLens(calls)  == [x \in 1..Len(calls) |-> [n |-> calls[x].n, err |-> calls[x].err]]
ModelSinkRuns(log) == RCatAll([x \in 1..Len(log) |-> IF log[x].err THEN <<>> ELSE log[x].data])
ModelSinkLens(log) == [x \in 1..Len(log) |-> [n |-> log[x].n, err |-> log[x].err]]
SinkErrSeen(calls) == \E x \in 1..Len(calls) : calls[x].err

\* while no call has returned an error the bytes accepted by the underlying writer must be the documented ones;
\* a call's (n, err) is the property's business unless an underlying call fails in it
CmpWriterSide(e, r2, sinkPre) ==
  LET faultNow == \E x \in 1..Len(r2.log) : r2.log[x].err
      clsRes   == IF ~werr /\ ~faultNow /\ ~SinkErrSeen(e.sink) THEN "[property] " ELSE "[model] "
      clsBytes == IF ~werr THEN "[property] " ELSE "[model] "
  IN
  IF e.panic THEN <<"[property] " \o e.ev \o " panicked", "no panic">>
  ELSE IF r2.err # ErrOf(e.err) \/ (e.ev = "Write" /\ r2.ret # e.ret)
    THEN IF e.ev = "Close" /\ ~e.err /\ (SinkFaulted(sinkPre) \/ SinkErrSeen(e.sink))
           THEN <<"[property] Close reports success although the underlying writer failed", r2.err>>
           ELSE <<clsRes \o e.ev \o " result (n, err) differs from the specification", ToString(<<r2.ret, r2.err>>)>>
  ELSE IF Toy /\ SinkBytes(e.sink) # Conc(ModelSinkRuns(r2.log))
    THEN <<clsBytes \o "bytes handed to the underlying writer are not the documented segments", BytesToHex(Conc(ModelSinkRuns(r2.log)))>>
  ELSE IF SinkLens(e.sink) # ModelSinkLens(r2.log)
    THEN <<(IF Toy THEN "[model] " ELSE clsBytes) \o "calls on the underlying writer (lengths, failures) differ from the specification", ToString(ModelSinkLens(r2.log))>>
  ELSE <<>>

Wants(log)   == [x \in 1..Len(log) |-> log[x].want]
EvWants(e)   == [x \in 1..Len(e.calls) |-> e.calls[x].want]
\* the bytes a Read returned, as a string of the model (arith: position of the bytes in the plaintext, -1 = not plaintext)
ArithData(e) == IF e.ret = 0 THEN <<>> ELSE IF e.off < 0 THEN Junk(0, e.ret) ELSE <<Run(PtSrc, e.off, e.off + e.ret)>>
DataEq(e, data) == IF Toy THEN HexToBytes(e.data) = Conc(data) ELSE ArithData(e) = data
\* do the returned bytes continue the plaintext behind what was returned so far?
Continues(e, gotPre) ==
  IF Toy THEN HexToBytes(e.data) = Slice(PT, RLen(gotPre), e.ret) /\ RLen(gotPre) + e.ret <= wpos
  ELSE e.ret = 0 \/ (e.off = RLen(gotPre) /\ e.off + e.ret <= wpos)

\* What a reader returns AFTER its first non-nil result is outside the property; the model follows the code there,
\* but concrete bytes may coincide where abstract ones differ (a stale look-ahead byte), so it is not compared.
CmpReaderSide(e, r2, gotPre) ==
  LET cls == IF CleanR THEN "[property] " ELSE "[model] " IN
  IF e.panic THEN <<"[property] " \o e.ev \o " panicked", "no panic">>
  ELSE IF outcome # "none" THEN <<>>
  ELSE IF r2.err # e.err \/ (e.ev = "Read" /\ (r2.ret # e.ret \/ ~DataEq(e, r2.data)))
    THEN IF outcome = "none" /\ e.err = "EOF" /\ ~CleanR
           THEN <<"[property] clean end of stream although the ciphertext was manipulated or the source failed", r2.err>>
         ELSE IF outcome = "none" /\ e.err = "nil" /\ e.ev = "Read" /\ ~Continues(e, gotPre)
           THEN <<"[property] bytes returned before any error are not the plaintext", ToString(<<r2.ret, r2.err>>)>>
         ELSE <<cls \o e.ev \o " result (n, err, data) differs from the specification",
                ToString(<<r2.ret, r2.err>>) \o (IF Toy THEN " " \o BytesToHex(Conc(r2.data)) ELSE "")>>
  ELSE IF "calls" \in DOMAIN e /\ EvWants(e) # Wants(r2.log)
    THEN <<"[model] sizes requested from the underlying reader differ from the specification", ToString(Wants(r2.log))>>
  ELSE <<>>

CmpTamper(e) ==
  IF Toy /\ ~Matches(src'.rest, HexToBytes(e.stream))
    THEN <<"[driver] the manipulated stream is not the manipulation of the recorded ciphertext", BytesToHex(Conc(sink.out))>>
  ELSE IF e.len # RLen(src'.rest) THEN <<"[driver] length of the manipulated stream", ToString(RLen(src'.rest))>>
  ELSE <<>>

Compare(e) ==
  CASE e.ev \in {"NewWriter", "Write", "Close"} -> CmpWriterSide(e, res', sink)
    [] e.ev = "Tamper" -> CmpTamper(e)
    [] e.ev \in {"NewReader", "Read"} -> CmpReaderSide(e, res', got)

(***** the trace machine *****)
NoCfg == [lvl |-> "none"]
TInit ==
  /\ l = Start /\ bad = <<>> /\ tc = NoCfg
  /\ pp = [P |-> 2, T |-> 1, Off |-> 0, Hdr |-> <<>>, mk |-> 1]
  /\ phase = "none" /\ wpos = 0 /\ w = NewW(NoSession) /\ werr = FALSE /\ sink = NewSink(0)
  /\ manip = <<>> /\ raad = WAad /\ src = NewSource(<<>>, 0, "follow") /\ r = NewR(NoSession)
  /\ got = <<>> /\ outcome = "none" /\ res = Res("Init", 0, 0, "nil", <<>>, <<>>)

Reset(e) ==
  /\ tc' = e /\ bad' = <<>>
  /\ pp' = ParamsOf(e)
  /\ phase' = "start" /\ wpos' = 0 /\ w' = NewW(NoSession) /\ werr' = FALSE /\ sink' = NewSink(e.sinkFail)
  /\ manip' = <<>> /\ raad' = WAad /\ src' = NewSource(<<>>, 0, "follow") /\ r' = NewR(NoSession)
  /\ got' = <<>> /\ outcome' = "none" /\ res' = Res("Init", 0, 0, "nil", <<>>, <<>>)

TNext ==
  /\ l <= Len(Trace)
  /\ l' = l + 1
  /\ LET e == Trace[l] IN
       IF e.ev = "reset" THEN Reset(e)
       ELSE IF ~Guard(e)
         THEN /\ UNCHANGED <<vars, tc>>
              /\ bad' = IF e.ev = "Read" /\ outcome # "none" THEN <<>>       \* after the first error: not judged
                        ELSE <<"[model] call or its underlying calls impossible in the specification (guard false)", e.ev>>
         ELSE /\ Step(e) /\ UNCHANGED tc
              /\ bad' = Compare(e)

Conforms == bad = <<>>
\* the properties of the design, evaluated on the states reached by the real code
ModelInv == phase = "none" \/ (WriterCanonical /\ RoundTrip /\ TamperDetected /\ FaultSurfaces)
Consumed == TLCGet("stats").diameter = Len(Trace) + 2 - Start
================================================================================
