----------------------------- MODULE Trace_Streaming -----------------------------
(* Trace validation for C07: every recorded call on the real streaming objects is   *)
(* matched against the action of Streaming (sys/) with the logged arguments; what   *)
(* the call returned, what it handed to the underlying io.Writer and what it asked  *)
(* of the underlying io.Reader must be what the specification says.                 *)
(*                                                                                 *)
(* A trace is a sequence of scenarios, each starting with a `reset` event that      *)
(* carries the parameters.  Two levels:                                             *)
(*  "toy"   real noncebased.Writer/Reader around the harness' segment cipher         *)
(*          (segment || SHA-256(key || nonce || segment)[:T]); all bytes are logged *)
(*          and TLC recomputes them: nonce = prefix || be32(i) || last || 0...,     *)
(*          so the abstract strings of the model are compared byte by byte.         *)
(*  "arith" real AES-GCM-HKDF / AES-CTR-HMAC objects with real sizes; only lengths, *)
(*          results and the position of returned data in the plaintext are logged   *)
(*          (bytes of that format are judged by Trace_StreamFormat).                *)
(* Events: reset, NewWriter, Write, Close, Tamper, NewReader, Read, end (or abort). *)
(*                                                                                 *)
(* Two judgements per event.  (1) The property itself, evaluated on what was        *)
(* OBSERVED so far (obs), independently of the model's state: no clean EOF on a     *)
(* manipulated stream or failed source, returned bytes continue the plaintext, no   *)
(* error and the whole plaintext on an untouched stream, Close never succeeds over  *)
(* a failed writer, no panic.  (2) Conformance with the model's action: in a        *)
(* context where nothing was interfered with, any difference contradicts the        *)
(* property as well; otherwise it only means the model is out of date.              *)
(* Mismatch classes (first word of `bad`): [property] the real behaviour            *)
(* contradicts the property; [model] the real code does not do what the model says  *)
(* but no property clause is contradicted (exit 2) - such a mismatch is remembered  *)
(* (obs.note), the rest of the scenario is still judged by (1), and it is reported  *)
(* at the scenario's `end` event; [driver] the driver's bookkeeping is inconsistent.*)
EXTENDS Streaming, Bytes, Json, IOUtils, TLC

Trace == ndJsonDeserialize(IOEnv.VERIF_TRACE)
Start == IF "VERIF_START" \in DOMAIN IOEnv THEN atoi(IOEnv.VERIF_START) ELSE 1

VARIABLES l, bad,
          tc,     \* the reset event of the current scenario
          obs     \* what was observed in this scenario: [got, out, sinkErr, srcErr, tampered, note]
tvars == <<vars, l, bad, tc, obs>>

NoObs == [got |-> 0, out |-> "none", sinkErr |-> FALSE, srcErr |-> FALSE, tampered |-> FALSE, note |-> <<>>]
Mis(cls, msg, exp) == <<cls, msg, exp>>          \* a mismatch: class, text, what the specification expected

ParamsOf(e) == [P |-> e.P, T |-> e.T, Off |-> e.Off, Hdr |-> e.hdr, mk |-> 1]
ToManip(j)  == Manip(j.kind, j.at, j.n, j.i, j.j, j.perm)
ToManips(js) == [x \in 1..Len(js) |-> ToManip(js[x])]
Script(e)   == IF "calls" \in DOMAIN e THEN Follow([x \in 1..Len(e.calls) |-> [n |-> e.calls[x].n, err |-> e.calls[x].err]])
               ELSE Greedy
ErrOf(b)    == IF b THEN "ERR" ELSE "nil"

(***** concretisation of the model's strings at level "toy" *****)
Toy == tc.lvl = "toy"
PT  == HexToBytes(tc.pt)
ToyKey(s) == HexToBytes(IF s[2] = WAad THEN tc.key ELSE tc.key2)
SegNonce(i, last) ==
  LET pre == HexToBytes(tc.prefix) IN
  pre \o BE(i, 4) \o <<IF last THEN 1 ELSE 0>> \o Zeros(tc.nonceSize - Len(pre) - 5)
ToySeal(key, nonce, seg, t) == seg \o Take(Hash("SHA256", key \o nonce \o seg), t)

RECURSIVE Conc(_), ConcSrc(_)
ConcSrc(s) == CASE s.k = "pt" -> PT
                [] s.k = "ct" -> ToySeal(ToyKey(s.key), SegNonce(s.i, s.last), Conc(s.of), pp.T)
Conc(runs) == IF runs = <<>> THEN <<>>
              ELSE Slice(ConcSrc(runs[1].src), runs[1].a, runs[1].b - runs[1].a) \o Conc(Tail(runs))
\* junk is whatever the driver put there
RECURSIVE Matches(_, _)
Matches(runs, bytes) ==
  IF runs = <<>> THEN bytes = <<>>
  ELSE LET n == runs[1].b - runs[1].a IN
       /\ Len(bytes) >= n
       /\ (runs[1].src.k = "junk" \/ Take(bytes, n) = Conc(<<runs[1]>>))
       /\ Matches(Tail(runs), Drop(bytes, n))

(***** is the action named by the event enabled with the logged arguments? *****)
Guard(e) ==
  CASE e.ev = "NewWriter" -> phase = "start"
    [] e.ev = "Write"     -> phase \in {"writing", "closed"}
    [] e.ev = "Close"     -> phase \in {"writing", "closed"}
    [] e.ev = "Tamper"    -> phase = "closed" /\ ~werr
    [] e.ev = "NewReader" -> phase = "stream" /\ ReaderNew(pp, src, raad, Script(e)) # {}
    [] e.ev = "Read"      -> phase = "reading" /\ ReaderRead(pp, r, src, e.n, Script(e)) # {}
    [] OTHER -> FALSE

Step(e) ==
  CASE e.ev = "NewWriter" -> NewWriter
    [] e.ev = "Write"     -> Write(e.n)
    [] e.ev = "Close"     -> Close
    [] e.ev = "Tamper"    -> Tamper(ToManips(e.m), e.srcFail, "follow")
    [] e.ev = "NewReader" -> NewReader(Script(e))
    [] e.ev = "Read"      -> Read(e.n, Script(e))

SinkErrSeen(calls) == \E x \in 1..Len(calls) : calls[x].err
SrcErrSeen(calls)  == \E x \in 1..Len(calls) : calls[x].err = "ERR"
\* do the returned bytes continue the plaintext behind the g bytes returned so far?
Continues(e, g) ==
  IF Toy THEN HexToBytes(e.data) = Slice(PT, g, e.ret) /\ g + e.ret <= wpos
  ELSE e.ret = 0 \/ (e.off = g /\ e.off + e.ret <= wpos)

(***** (1) the property on the observed behaviour *****)
Prop(e) ==
  IF e.ev = "Tamper" THEN <<>>
  ELSE IF e.panic THEN Mis("[property]", e.ev \o " panicked", "no panic")
  ELSE IF e.ev = "Close" /\ ~e.err /\ (obs.sinkErr \/ SinkErrSeen(e.sink))
    THEN Mis("[property]", "Close reports success although the underlying writer failed", "ERR")
  ELSE IF e.ev \in {"NewReader", "Read"} /\ obs.out = "none" THEN
    LET interfered == obs.tampered \/ obs.srcErr \/ SrcErrSeen(e.calls) IN
    IF e.err = "EOF" /\ interfered
      THEN Mis("[property]", "clean end of stream although the ciphertext was manipulated or the source failed", "ERR")
    ELSE IF e.err = "EOF" /\ obs.got # wpos
      THEN Mis("[property]", "end of stream before the whole plaintext was returned", ToString(wpos))
    ELSE IF e.err = "ERR" /\ ~interfered
      THEN Mis("[property]", e.ev \o " fails although the ciphertext is untouched and the source did not fail", "nil")
    ELSE IF e.ev = "Read" /\ e.err = "nil" /\ ~Continues(e, obs.got)
      THEN Mis("[property]", "bytes returned before any error are not the plaintext", ToString(obs.got))
    ELSE <<>>
  ELSE <<>>

Observe(e, note) ==
  [got      |-> IF e.ev = "Read" /\ obs.out = "none" /\ e.err = "nil" THEN obs.got + e.ret ELSE obs.got,
   out      |-> IF e.ev \in {"NewReader", "Read"} /\ obs.out = "none" /\ e.err # "nil" THEN e.err ELSE obs.out,
   sinkErr  |-> obs.sinkErr \/ (e.ev \in {"NewWriter", "Write", "Close"} /\ SinkErrSeen(e.sink)),
   srcErr   |-> obs.srcErr \/ (e.ev \in {"NewReader", "Read"} /\ SrcErrSeen(e.calls)),
   tampered |-> IF e.ev = "Tamper" THEN Effective(ToManips(e.m)) ELSE obs.tampered,
   note     |-> note]

(***** (2) comparison of the model's result (res', sink', src') with the recorded one *****)
SinkBytes(calls) == Concat([x \in 1..Len(calls) |-> IF calls[x].err THEN <<>> ELSE HexToBytes(calls[x].d)])
SinkLens(calls)  == [x \in 1..Len(calls) |-> [n |-> calls[x].n, err |-> calls[x].err]]
ModelSinkRuns(log) == RCatAll([x \in 1..Len(log) |-> IF log[x].err THEN <<>> ELSE log[x].data])
ModelSinkLens(log) == [x \in 1..Len(log) |-> [n |-> log[x].n, err |-> log[x].err]]

\* while no call has returned an error the bytes accepted by the underlying writer must be the documented ones;
\* a call's (n, err) is the property's business unless an underlying call fails in it
CmpWriterSide(e, r2) ==
  LET faultNow == \E x \in 1..Len(r2.log) : r2.log[x].err
      clsRes   == IF ~werr /\ ~faultNow /\ ~SinkErrSeen(e.sink) THEN "[property]" ELSE "[model]"
      clsBytes == IF ~werr THEN "[property]" ELSE "[model]"
  IN
  IF r2.err # ErrOf(e.err) \/ (e.ev = "Write" /\ r2.ret # e.ret)
    THEN Mis(clsRes, e.ev \o " result (n, err) differs from the specification", ToString(<<r2.ret, r2.err>>))
  ELSE IF Toy /\ SinkBytes(e.sink) # Conc(ModelSinkRuns(r2.log))
    THEN Mis(clsBytes, "bytes handed to the underlying writer are not the documented segments", BytesToHex(Conc(ModelSinkRuns(r2.log))))
  ELSE IF SinkLens(e.sink) # ModelSinkLens(r2.log)
    THEN Mis(IF Toy THEN "[model]" ELSE clsBytes, "calls on the underlying writer (lengths, failures) differ from the specification",
             ToString(ModelSinkLens(r2.log)))
  ELSE <<>>

Wants(log)   == [x \in 1..Len(log) |-> log[x].want]
EvWants(e)   == [x \in 1..Len(e.calls) |-> e.calls[x].want]
\* the bytes a Read returned, as a string of the model (arith: position of the bytes in the plaintext, -1 = not plaintext)
ArithData(e) == IF e.ret = 0 THEN <<>> ELSE IF e.off < 0 THEN Junk(0, e.ret) ELSE <<Run(PtSrc, e.off, e.off + e.ret)>>
DataEq(e, data) == IF Toy THEN HexToBytes(e.data) = Conc(data) ELSE ArithData(e) = data

\* What a reader returns AFTER its first non-nil result is outside the property; the model follows the code there,
\* but concrete bytes may coincide where abstract ones differ (a stale look-ahead byte), so it is not compared.
CleanR == outcome = "none" /\ src.failFrom = 0 /\ ~Effective(manip)
CmpReaderSide(e, r2) ==
  LET cls == IF CleanR THEN "[property]" ELSE "[model]" IN
  IF outcome # "none" THEN <<>>
  ELSE IF r2.err # e.err \/ (e.ev = "Read" /\ (r2.ret # e.ret \/ ~DataEq(e, r2.data)))
    THEN Mis(cls, e.ev \o " result (n, err, data) differs from the specification",
             ToString(<<r2.ret, r2.err>>) \o (IF Toy THEN " " \o BytesToHex(Conc(r2.data)) ELSE ""))
  ELSE IF EvWants(e) # Wants(r2.log)
    THEN Mis("[model]", "sizes requested from the underlying reader differ from the specification", ToString(Wants(r2.log)))
  ELSE <<>>

CmpTamper(e) ==
  IF Toy /\ ~Matches(src'.rest, HexToBytes(e.stream))
    THEN Mis("[driver]", "the manipulated stream is not the manipulation of the recorded ciphertext", BytesToHex(Conc(sink.out)))
  ELSE IF e.len # RLen(src'.rest) THEN Mis("[driver]", "length of the manipulated stream", ToString(RLen(src'.rest)))
  ELSE <<>>

Compare(e) ==
  CASE e.ev \in {"NewWriter", "Write", "Close"} -> CmpWriterSide(e, res')
    [] e.ev = "Tamper" -> CmpTamper(e)
    [] e.ev \in {"NewReader", "Read"} -> CmpReaderSide(e, res')

(***** the trace machine *****)
NoCfg == [lvl |-> "none"]
ToBad(c) == IF c = <<>> THEN <<>> ELSE <<c[1] \o " " \o c[2], c[3]>>
TInit ==
  /\ l = Start /\ bad = <<>> /\ tc = NoCfg /\ obs = NoObs
  /\ pp = [P |-> 2, T |-> 1, Off |-> 0, Hdr |-> <<>>, mk |-> 1]
  /\ phase = "none" /\ wpos = 0 /\ w = NewW(NoSession) /\ werr = FALSE /\ sink = NewSink(0)
  /\ manip = <<>> /\ raad = WAad /\ src = NewSource(<<>>, 0, "follow") /\ r = NewR(NoSession)
  /\ got = <<>> /\ outcome = "none" /\ res = Res("Init", 0, 0, "nil", <<>>, <<>>)

Reset(e) ==
  /\ tc' = e /\ bad' = <<>> /\ obs' = NoObs
  /\ pp' = ParamsOf(e)
  /\ phase' = "start" /\ wpos' = 0 /\ w' = NewW(NoSession) /\ werr' = FALSE /\ sink' = NewSink(e.sinkFail)
  /\ manip' = <<>> /\ raad' = WAad /\ src' = NewSource(<<>>, 0, "follow") /\ r' = NewR(NoSession)
  /\ got' = <<>> /\ outcome' = "none" /\ res' = Res("Init", 0, 0, "nil", <<>>, <<>>)

TNext ==
  /\ l <= Len(Trace)
  /\ l' = l + 1
  /\ LET e == Trace[l] IN
       IF e.ev = "reset" THEN Reset(e)
       ELSE IF e.ev \in {"end", "abort"}                    \* end of the scenario: a remembered [model] mismatch is reported
         THEN /\ UNCHANGED <<vars, tc>>
              /\ bad' = IF obs.note # <<>> THEN ToBad(obs.note)
                        ELSE IF e.ev = "abort" THEN <<"[driver] the driver gave up on a scenario that conforms so far", e.why>>
                        ELSE <<>>
              /\ obs' = [obs EXCEPT !.note = <<>>]
       ELSE LET g == Guard(e)
                p == Prop(e)
                c == IF p # <<>> THEN p
                     ELSE IF obs.note # <<>> THEN <<>>          \* already off the model: only the property is judged
                     ELSE IF ~g THEN (IF e.ev = "Read" /\ outcome # "none" THEN <<>>
                                      ELSE Mis("[model]", "call or its underlying calls impossible in the specification (guard false)", e.ev))
                     ELSE Compare(e)
                deferred == c # <<>> /\ c[1] = "[model]"
            IN /\ (IF g THEN Step(e) ELSE UNCHANGED vars)
               /\ UNCHANGED tc
               /\ bad' = IF deferred THEN <<>> ELSE ToBad(c)
               /\ obs' = Observe(e, IF deferred THEN c ELSE obs.note)

Conforms == bad = <<>>
\* the properties of the design, evaluated on the states reached by the real code
ModelInv == phase = "none" \/ (WriterCanonical /\ RoundTrip /\ TamperDetected /\ FaultSurfaces)
Consumed == TLCGet("stats").diameter = Len(Trace) + 2 - Start
================================================================================
