INIT Init
NEXT Next
ACTION_CONSTRAINT Report
INVARIANTS ModelInv
POSTCONDITION Consumed
CHECK_DEADLOCK FALSE
