-------------------------------- MODULE Trace_Sig --------------------------------
(* Trace validation for C03.  Every recorded Sign / Verify call of the real code    *)
(* is judged against TinkSig (strict DER, the ECDSA verification equation and the    *)
(* RFC 8017 encodings in TLA+; big-integer / curve arithmetic from the JDK).        *)
(*                                                                                  *)
(*  sign    Tink produced `sig` for `msg`: the reference must verify it (prefix      *)
(*          exact, strict encoding, standard algorithm over msg [|| 0x00]); `held`   *)
(*          is the content of the returned slice after the signer's later calls and  *)
(*          must still be that signature.                                            *)
(*  verify  Tink was given (sig, msg) - made by Tink or by the reference signer      *)
(*          (Plan_Sig), then mutated by the driver (kind) - and answered ok; its     *)
(*          verdict must equal the reference's.                                      *)
(*  inIntact (both): every message / signature is handed over as a sub-slice of a    *)
(*          driver-owned frame (live data, sentinel-filled spare capacity and guards  *)
(*          behind it); the frame must be byte-identical after the call.  A call that  *)
(*          alters the caller's message has not signed / verified the pair it was given.*)
(*  construct  coverage only (which configurations the library refuses).            *)
(* Known-answer events of bin/selfspec (Wycheproof) use `verify` with route          *)
(* "wycheproof".  A disagreement between the TLA+ reference and the JDK's own        *)
(* whole-algorithm provider (second opinion) is reported as REFERENCE-SPLIT, which   *)
(* the check turns into an infrastructure error, never into a verdict.               *)
EXTENDS TinkSig, Json, IOUtils, TLC

Trace == ndJsonDeserialize(IOEnv.VERIF_TRACE)

VARIABLES l, bad
vars == <<l, bad>>

IsRSA(e) == e.alg \in {"RSA_PKCS1", "RSA_PSS"}

Cfg(e) == [alg |-> e.alg, curve |-> e.curve, hash |-> e.hash, mgf |-> e.mgf, enc |-> e.enc,
           saltLen |-> e.saltLen, variant |-> e.variant, id |-> HexToBytes(e.id)]

Pk(e) == IF IsRSA(e) THEN [n |-> HexToBytes(e.pk), e |-> HexToBytes(e.e)] ELSE HexToBytes(e.pk)

Split == <<"REFERENCE-SPLIT: TLA+ reference and JDK whole-algorithm provider disagree", "infrastructure">>

\* Diagnosis attached to an RSA-SSA-PSS disagreement: is the signature a valid RSASSA-PSS signature
\* of the message for SOME salt length other than the key's?  (Evaluated on mismatches only.)
PSSDiag(e) ==
  IF e.alg # "RSA_PSS" THEN ""
  ELSE LET c  == Cfg(e)
           S  == {sl \in 0..(ModLen(Pk(e).n) - HashLen(c.hash) - 1) :
                    SigVerify([c EXCEPT !.saltLen = sl], Pk(e), HexToBytes(e.sig), HexToBytes(e.msg))}
       IN IF S = {} THEN "not a valid RSASSA-PSS signature for any salt length"
          ELSE "valid RSASSA-PSS signature for salt length " \o ToString(CHOOSE sl \in S : TRUE)
               \o ", the key declares " \o ToString(c.saltLen)

\* j = SigJudge(...) of the event: j.ok is the reference verdict SigVerify(cfg, pk, sig, msg).
Verdict(e, j) ==
  CASE e.ev = "sign" ->
         IF ~j.ok THEN <<"Tink signature rejected by the reference verifier", "TRUE", PSSDiag(e)>>
         ELSE IF e.held # e.sig        \* the returned signature is the caller's value: later Sign calls must not change it
              THEN <<"signature returned by Sign was overwritten by a later Sign call on the same signer", e.sig, "">>
         ELSE <<>>
    [] e.ev = "verify" ->
         IF e.ok = j.ok THEN <<>>
         ELSE <<"Verify verdict differs from the reference verifier", ToString(j.ok), IF e.ok THEN PSSDiag(e) ELSE "">>

Judge(e) ==
  IF e.ev = "construct" THEN <<>>                       \* coverage only (DESIGN section 4)
  ELSE IF e.ev \notin {"sign", "verify"} THEN <<"unknown event", e.ev>>
  ELSE IF e.panic THEN <<"Sign/Verify panicked", e.ev>>
  ELSE IF ~e.inIntact
       THEN <<"Sign/Verify wrote into the caller's buffers (message or signature frame, spare capacity or guard changed)", "unchanged">>
  ELSE IF e.ev = "sign" /\ e.err THEN <<"Sign failed on a valid key", "signature">>
  ELSE LET j == SigJudge(Cfg(e), Pk(e), HexToBytes(e.sig), HexToBytes(e.msg))
       IN IF ~j.agree THEN Split ELSE Verdict(e, j)

Start == IF "VERIF_START" \in DOMAIN IOEnv THEN atoi(IOEnv.VERIF_START) ELSE 1

Init == l = Start /\ bad = <<>>
Next == /\ l <= Len(Trace)
        /\ bad' = Judge(Trace[l])
        /\ l' = l + 1
Spec == Init /\ [][Next]_vars

Conforms == bad = <<>>
Consumed == TLCGet("stats").diameter = Len(Trace) + 2 - Start
================================================================================
