---------------------------- MODULE Trace_KeysetIO ----------------------------
(* Trace validation for C12, part 2: keyset handles through every writer and reader.      *)
(* Events (recorded from real code by harness/cmd/c12 -mode io):                          *)
(*   handle  the handle built for an abstract keyset of Plan_KeysetIO (catalog keys, ids,  *)
(*           statuses, primary): its projection read through Entry(i), and Public()         *)
(*   io      one writer (format x mode x kek x ad) applied to that handle, the blob read    *)
(*           with EVERY reader (16), each result's projection, and primitive                *)
(*           interoperability between the original and the re-read handle                   *)
(* The expected outcome of every write and read is computed with the operators of           *)
(* KeysetIO.tla (Write, Read, Matches, Project, Public, NoSecretsOK) on the abstract          *)
(* handle.  Clauses the properties state (C12: matching reader => same keys, ids, statuses,  *)
(* primary, order; Public(); interoperability.  C13: encrypted only with the same kek / ad;   *)
(* noSecrets APIs) are verdicts; that a reader of another format / message kind fails is a    *)
(* COVERAGE expectation -- but if it succeeds with a DIFFERENT keyset that is a verdict.      *)
EXTENDS KeysetCatalog, Json, TLC
K == INSTANCE KeysetIO

Trace == ndJsonDeserialize(IOEnv.VERIF_TRACE)
Start == IF "VERIF_START" \in DOMAIN IOEnv THEN atoi(IOEnv.VERIF_START) ELSE 1

\* the abstract handle of a plan
H(keys) == [i \in DOMAIN keys |->
              [id |-> keys[i].id, status |-> keys[i].status, prefix |-> PrefixOfName(keys[i].name), url |-> UrlOf(keys[i].name),
               mat |-> MatOf(keys[i].name), primary |-> keys[i].primary,
               secret |-> IF MatOf(keys[i].name) \in {"PUBLIC", "REMOTE"} THEN 0 ELSE i]]
\* what the driver observes of a handle: projection plus proto key material type
Obs(keys) == [i \in DOMAIN keys |->
              [id |-> keys[i].id, status |-> keys[i].status, prefix |-> PrefixOfName(keys[i].name), url |-> UrlOf(keys[i].name),
               primary |-> keys[i].primary, mat |-> ProtoMat(keys[i].name)]]
ObsPublic(keys) == [i \in DOMAIN keys |->
              [id |-> keys[i].id, status |-> keys[i].status, prefix |-> PrefixOfName(keys[i].name),
               url |-> TypeURL(Catalog[keys[i].name].kt, "public"), primary |-> keys[i].primary, mat |-> "ASYMMETRIC_PUBLIC"]]
Seen(proj) == [i \in DOMAIN proj |-> [id |-> proj[i].id, status |-> proj[i].status, prefix |-> proj[i].prefix, url |-> proj[i].url,
                                       primary |-> proj[i].primary, mat |-> proj[i].mat]]
ModeOf(x) == IF x.m = "encrypted" THEN [m |-> "encrypted", kek |-> x.kek, ad |-> x.ad] ELSE [m |-> x.m]

JudgeHandle(e) ==
  LET h == H(e.keys) IN
  IF e.panic THEN <<"panic while building a handle / Public()", "no panic">>
  ELSE IF ~K!WellFormed(h) THEN <<"COVERAGE: the plan handle is not well-formed", "plan">>
  ELSE IF ~e.built THEN <<"COVERAGE: the driver could not build the plan handle", "built">>
  ELSE IF Seen(e.proj) # Obs(e.keys) THEN <<"the handle does not show the keys it was built from", ToString(Obs(e.keys))>>
  ELSE IF K!IsFail(K!Public(h))
         THEN (IF e.public.ok THEN <<"COVERAGE: Public() succeeds on a keyset that is not all-private", "error">> ELSE <<>>)
  ELSE IF ~e.public.ok THEN <<"Public() fails on a private keyset", "ok">>
  ELSE IF Seen(e.public.proj) # ObsPublic(e.keys)
         THEN <<"Public() does not preserve ids / statuses / primary / order / prefix types", ToString(ObsPublic(e.keys))>>
  ELSE IF ~e.public.equalKeys THEN <<"Public() keys are not Equal to the private keys' public keys", "Equal">>
  ELSE IF ~K!PublicPreserves(h) THEN <<"COVERAGE: KeysetIO!PublicPreserves fails on the model", "model">>
  ELSE <<>>

\* interoperability is required when every ENABLED key belongs to one primitive family with a factory, and (signature,
\* hybrid: Public() is needed to obtain the other half) every key of the keyset is private
WithFactory == {"aead", "daead", "mac", "prf", "sig", "hybrid"}
InteropRequired(keys) ==
  LET en == {i \in DOMAIN keys : keys[i].status = "ENABLED"} IN
  /\ \A i, j \in en : FamOf(keys[i].name) = FamOf(keys[j].name) /\ Catalog[keys[i].name].kind = Catalog[keys[j].name].kind
  /\ \A i \in en : FamOf(keys[i].name) \in WithFactory /\ Catalog[keys[i].name].kind \in {"symmetric", "private"}
  /\ (\E i \in en : FamOf(keys[i].name) \in {"sig", "hybrid"}) => \A i \in DOMAIN keys : MatOf(keys[i].name) = "PRIVATE"

\* verdict on one reader result
JudgeRead(e, h, blob, r) ==
  LET wm == ModeOf(e.w)
      rm == ModeOf(r)
      exp == K!Read(blob, r.f, rm)
      tag == e.w.f \o "/" \o e.w.m \o " -> " \o r.f \o "/" \o r.m
      stated == \/ K!Matches(e.w.f, wm, r.f, rm)                         \* C12: the matching reader
                \/ (e.w.m = "encrypted" /\ r.m = "encrypted" /\ r.f = e.w.f)  \* C13: wrong kek / associated data
                \/ (r.m = "noSecrets" /\ e.w.m # "encrypted" /\ r.f = e.w.f)  \* C13: the noSecrets reader
  IN
  IF r.panic THEN <<"panic in a keyset reader", tag>>
  ELSE IF r.ok /\ Seen(r.proj) # Obs(e.keys) THEN <<"a reader returns a DIFFERENT keyset than the one written", tag, ToString(Obs(e.keys))>>
  ELSE IF stated /\ r.ok # ~K!IsFail(exp)
         THEN <<IF K!IsFail(exp) THEN "a reader accepts a blob it must refuse" ELSE "the matching reader refuses the written keyset", tag,
                ToString(~K!IsFail(exp))>>
  ELSE IF ~stated /\ r.ok # ~K!IsFail(exp) THEN <<"COVERAGE: reader of another format / message kind succeeds", tag>>
  ELSE <<>>

RECURSIVE FirstBadRead(_, _, _, _)
FirstBadRead(e, h, blob, i) ==
  IF i > Len(e.reads) THEN <<>>
  ELSE LET b == JudgeRead(e, h, blob, e.reads[i]) IN IF b # <<>> THEN b ELSE FirstBadRead(e, h, blob, i + 1)

JudgeIO(e) ==
  LET h == H(e.keys)
      wm == ModeOf(e.w)
      blob == K!Write(h, e.w.f, wm)
      tag == e.w.f \o "/" \o e.w.m
  IN
  IF e.wpanic THEN <<"panic in a keyset writer", tag>>
  ELSE IF e.wok # ~K!IsFailB(blob)
         THEN <<IF K!IsFailB(blob) THEN "WriteWithNoSecrets exports a keyset with secret / unknown key material"
                ELSE "a writer refuses the keyset", tag, ToString(~K!IsFailB(blob))>>
  ELSE IF ~e.wok THEN <<>>
  ELSE LET b == FirstBadRead(e, h, blob, 1) IN
       IF b # <<>> THEN b
       ELSE IF e.interop.tried /\ InteropRequired(e.keys) /\ (e.interop.ab # "ok" \/ e.interop.ba # "ok")
              THEN <<"primitives of the original and the re-read handle do not interoperate", tag, "ok">>
       ELSE IF ~e.interop.tried /\ InteropRequired(e.keys) /\ e.w.m # "noSecrets"
              THEN <<"COVERAGE: interoperability was not exercised", tag>>
       ELSE <<>>

Judge(e) == IF e.ev = "handle" THEN JudgeHandle(e) ELSE JudgeIO(e)

\* one report per signature and shard (see Trace_KeyParams)
SigOf(e, b) == <<e.ev, b[1], IF Len(b) > 1 THEN b[2] ELSE "">>
SigsUpTo(n) == {SigOf(Trace[i], Judge(Trace[i])) : i \in {j \in 1..n : Judge(Trace[j]) # <<>>}}

VARIABLES l, bad, seen
Init == l = Start /\ bad = <<>> /\ seen = SigsUpTo(Start - 1)
Next ==
  /\ l <= Len(Trace)
  /\ l' = l + 1
  /\ LET b == Judge(Trace[l]) IN
       IF b = <<>> THEN bad' = <<>> /\ seen' = seen
       ELSE /\ seen' = seen \cup {SigOf(Trace[l], b)}
            /\ bad' = IF SigOf(Trace[l], b) \in seen THEN <<>> ELSE b
Conforms == bad = <<>>
Consumed == TLCGet("stats").diameter = Len(Trace) + 2 - Start
================================================================================
