CONSTANT Fault = "none"
INIT TInit
NEXT TNext
INVARIANT Conforms
POSTCONDITION Consumed
CHECK_DEADLOCK FALSE
