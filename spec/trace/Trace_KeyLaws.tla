---------------------------- MODULE Trace_KeyLaws ----------------------------
(* Trace validation for X05: the algebra of key and parameters objects.                    *)
(* One event per case of Plan_KeyLaws.tla, recorded by harness/cmd/x05 from REAL objects:   *)
(*   "rel"    keys = the abstract keys of the case (KeyLaws.tla), obs = what each real key  *)
(*            object reported (IDRequirement, HasIDRequirement, OutputPrefix, KID, every     *)
(*            accessor twice, Parameters() against the parameters given to the constructor,  *)
(*            PublicKey() twice, ...), and the relations between the objects of the case:    *)
(*            eq (Equal), peq (Parameters().Equal), pubeq / pubkeq (public keys of private   *)
(*            keys against each other / against the public keys of the case)                 *)
(*   "idref"  a key without id requirement: what its constructor said to a non-zero id       *)
(* The judgements are KeyLaws!JudgeCase / JudgeIdRefusal, verbatim the ones MC_KeyLaws       *)
(* checks on the abstract key space.  Reasons "doc: ..." contradict the godoc (violations);   *)
(* reasons "exp: ..." are expectations about undocumented behaviour (exit 2, never a          *)
(* verdict about the code).                                                                  *)
EXTENDS KeyLaws, Json, TLC

Trace == ndJsonDeserialize(IOEnv.VERIF_TRACE)
Start == IF "VERIF_START" \in DOMAIN IOEnv THEN atoi(IOEnv.VERIF_START) ELSE 1

\* the abstract key of a plan key (the route says how the driver built the object; it is not part of the key)
Abs(k) == [kt |-> k.kt, kind |-> k.kind, p |-> k.p, mat |-> k.mat, id |-> k.id]
AbsKeys(e) == [i \in 1..Len(e.keys) |-> Abs(e.keys[i])]

Judge(e) ==
  LET ks == AbsKeys(e) IN
  IF \E i \in 1..Len(ks) : ~WellFormed(ks[i]) THEN <<"exp: the plan contains a key the inventory does not call constructible", e.why>>
  ELSE IF e.ev = "idref" THEN
         (IF ~e.x.built /\ ~e.x.panic THEN <<"exp: the constructor refuses a key the inventory says is constructible", ks[1].kt>>
          ELSE JudgeIdRefusal(ks[1], e.x))
  ELSE IF e.panic THEN <<"doc: panic in Equal / Parameters / PublicKey", e.why>>
  ELSE JudgeCase(ks, e.obs, [eq |-> e.eq, peq |-> e.peq, pubeq |-> e.pubeq, pubkeq |-> e.pubkeq])

\* A disagreement is reported once per signature (reason, key types, differing field) and shard: repetitions do not
\* stop the run again (the check de-duplicates by signature anyway); after a restart behind a mismatch the signatures
\* of the prefix are recomputed.
SigOf(b) == IF Len(b) >= 3 THEN <<b[1], b[2], b[3]>> ELSE b
SigsUpTo(n) == {SigOf(Judge(Trace[i])) : i \in {j \in 1..n : Judge(Trace[j]) # <<>>}}

VARIABLES l, bad, seen
Init == l = Start /\ bad = <<>> /\ seen = SigsUpTo(Start - 1)
Next ==
  /\ l <= Len(Trace)
  /\ l' = l + 1
  /\ LET b == Judge(Trace[l]) IN
       IF b = <<>> THEN bad' = <<>> /\ seen' = seen
       ELSE /\ seen' = seen \cup {SigOf(b)}
            /\ bad' = IF SigOf(b) \in seen THEN <<>> ELSE b
Conforms == bad = <<>>
Consumed == TLCGet("stats").diameter = Len(Trace) + 2 - Start
================================================================================
