----------------------------- MODULE Trace_Ownership -----------------------------
(* Trace validation for C19.  The driver (harness/cmd/c19) executes the mutation      *)
(* schedules of Plan_Ownership on real Tink objects.  Every byte slice it hands to the *)
(* library lives inside a larger sentinel-filled array (guard zones on both sides,     *)
(* spare capacity behind len); every slice the library returns is recorded with its    *)
(* full capacity.  After EVERY step the driver logs the content of every region        *)
(* (d = bytes inside len, s = spare capacity, g = guard zones) and the observable value *)
(* of the library object (key.Equal against a pristine deep copy, accessor bytes,      *)
(* outputs of primitives built before and after).                                     *)
(*                                                                                    *)
(* This module steps Ownership with Faults = {} - the library the property demands -   *)
(* next to the log and compares: after a call every caller region must still hold what *)
(* the caller put there (NoForeignWrite), results must be fresh memory, and the         *)
(* object's value must never move once constructed (LibraryValuesStable), in           *)
(* particular not when the caller overwrites a former input or a returned slice.       *)
(*                                                                                    *)
(* Events:  reset                                   new scenario                       *)
(*          call  k = "new" | "use" | "acc"          one library call (or call chain)    *)
(*                new  = regions created by the call: <<[role, val]>>, inputs with the  *)
(*                       content the caller put in BEFORE the call, results as returned *)
(*                alias = pairs <<result region, other region>> whose memory overlaps   *)
(*          scr   R = region indices the caller overwrote                                *)
(*          every event: regs = content of all regions afterwards, obs = object value   *)
EXTENDS Integers, Sequences, FiniteSets, SequencesExt, Json, IOUtils, CSV, TLC

Trace == ndJsonDeserialize(IOEnv.VERIF_TRACE)
Start == IF "VERIF_START" \in DOMAIN IOEnv THEN atoi(IOEnv.VERIF_START) ELSE 1

VARIABLES mem, regs, given, obj, pristine, nsteps, lastObs, skip, l, bad
M == INSTANCE Ownership WITH Faults <- {}

vars == <<mem, regs, given, obj, pristine, nsteps, lastObs, skip, l, bad>>

ValOf(v) == [d |-> v.d, s |-> v.s, g |-> v.g]
Sel(e, role) == SelectSeq(e.new, LAMBDA n : n.role = role)
Vals(ns) == [i \in DOMAIN ns |-> ValOf(ns[i].val)]
SeqToSet(s) == {s[i] : i \in DOMAIN s}
NoObs == [none |-> "-"]

PartName(p) == CASE p = "d" -> "data" [] p = "s" -> "capacity" [] p = "g" -> "guard"

(* the model's step for an event; FALSE guard = the event is impossible in the model *)
Guard(e) ==
  CASE e.ev = "call" /\ e.k = "new" -> ~obj.live /\ Sel(e, "out") = <<>>
    [] e.ev = "call" /\ e.k = "acc" -> obj.live /\ Sel(e, "in") = <<>> /\ Sel(e, "out") # <<>>
    [] e.ev = "call" /\ e.k = "use" -> obj.live /\ e.new # <<>>
    [] e.ev = "scr" -> /\ SeqToSet(e.R) # {} /\ SeqToSet(e.R) \subseteq DOMAIN regs
                       /\ Len(e.regs) = Len(regs)
                       /\ \A i \in SeqToSet(e.R) : ValOf(e.regs[i]) # given[i] /\ e.regs[i].g = given[i].g
    [] OTHER -> FALSE

Step(e) ==
  CASE e.ev = "call" /\ e.k = "new" -> M!New(Vals(Sel(e, "in")), "own")
    [] e.ev = "call" /\ e.k = "acc" -> M!Acc(Vals(Sel(e, "out")))
    [] e.ev = "call" /\ e.k = "use" -> M!Use(Vals(Sel(e, "in")), Vals(Sel(e, "out")), "unused")
    [] e.ev = "scr" -> M!Scribble(SeqToSet(e.R), [i \in DOMAIN given |-> IF i \in SeqToSet(e.R) THEN ValOf(e.regs[i]) ELSE given[i]])

(* first region / part whose logged content differs from what its owner last put there *)
Diff(e, gv) == {<<i, p>> \in (DOMAIN gv) \X {"d", "s", "g"} : e.regs[i][p] # gv[i][p]}
FirstDiff(e, gv) == CHOOSE x \in Diff(e, gv) : \A y \in Diff(e, gv) : x[1] <= y[1]
ObsDiff(e, o) == IF DOMAIN e.obs # DOMAIN o THEN "components" ELSE
                 LET ks == {k \in DOMAIN o : e.obs[k] # o[k]} IN CHOOSE k \in ks : TRUE

(* verdict on the post-state (gv = given', first = this call constructed the object) *)
Judge(e, gv, first) ==
  IF e.panic THEN <<"panic", e.site>>
  ELSE IF Len(e.regs) # Len(gv) THEN <<"driver and model disagree on the number of regions", ToString(Len(gv))>>
  ELSE IF Diff(e, gv) # {} THEN
    LET x == FirstDiff(e, gv) IN
      IF e.ev = "call" THEN <<"writes-caller-" \o PartName(x[2]), ToString(x[1]), gv[x[1]][x[2]]>>
      ELSE <<"shares-memory", ToString(x[1]), gv[x[1]][x[2]]>>
  ELSE IF e.ev = "call" /\ e.alias # <<>> THEN <<"returns-aliased", ToString(e.alias[1][1]), ToString(e.alias[1][2])>>
  ELSE IF ~first /\ (DOMAIN e.obs # DOMAIN lastObs \/ e.obs # lastObs) THEN
      <<IF e.ev = "call" THEN "call-changes-library-value" ELSE "scribble-changes-library-value",
        ObsDiff(e, lastObs), IF ObsDiff(e, lastObs) \in DOMAIN lastObs THEN lastObs[ObsDiff(e, lastObs)] ELSE "-">>
  ELSE <<>>

Init ==
  /\ l = Start /\ bad = <<>> /\ lastObs = NoObs /\ skip = FALSE
  /\ M!Init

Reset ==
  /\ mem' = <<>> /\ regs' = <<>> /\ given' = <<>> /\ obj' = M!NoObj /\ pristine' = <<>> /\ nsteps' = 0
  /\ lastObs' = NoObs /\ bad' = <<>> /\ skip' = FALSE

(* After a mismatch the rest of the scenario says nothing more (the real object has left the     *)
(* model): the events up to the next reset are skipped.  With the invariant Conforms TLC stops at *)
(* the first mismatch anyway; the collecting configuration (Report) goes on and lists them all.   *)
Next ==
  /\ l <= Len(Trace)
  /\ l' = l + 1
  /\ LET e == Trace[l] IN
       IF e.ev = "reset" THEN Reset
       ELSE IF skip THEN UNCHANGED <<mem, regs, given, obj, pristine, nsteps, lastObs, skip>> /\ bad' = <<>>
       ELSE IF ~Guard(e)
         THEN /\ UNCHANGED <<mem, regs, given, obj, pristine, nsteps, lastObs>>
              /\ bad' = <<"step impossible in the specification (guard false)", e.ev>>
              /\ skip' = TRUE
         ELSE /\ Step(e)
              /\ bad' = Judge(e, given', ~obj.live)
              /\ lastObs' = IF ~obj.live THEN e.obs ELSE lastObs
              /\ skip' = (bad' # <<>>)

Report == bad' = <<>> \/ CSVWrite("%1$s", <<ToJson([l |-> l, bad |-> bad'])>>, IOEnv.VERIF_FOUND)

Conforms == bad = <<>>
(* the properties of the design, evaluated on the states the real code reached *)
ModelInv == M!NoForeignWrite /\ M!LibraryValuesStable /\ M!NoSharing
Consumed == TLCGet("stats").diameter = Len(Trace) + 2 - Start
================================================================================
