----------------------------- MODULE Trace_Registry -----------------------------
(* Trace validation for C18 (registries): is the recorded history of concurrent calls   *)
(* on the real global registries linearizable to the map semantics of Registry.tla?     *)
(*                                                                                    *)
(* The log is totally ordered: a goroutine appends START before it invokes the call and  *)
(* END (with the result) after the call returned.  Events:                               *)
(*   {"ev":"reset","len":n}               a new scenario of n lines: fresh type URLs, KMS list cleared *)
(*   {"ev":"start","g":g,"op":kind, ...}  url/mgr | client{id,prefix} | uri{prefix,rest}   *)
(*   {"ev":"end","g":g,"res":r}           "ok" | "exists" | manager id | client id | "none" *)
(*   {"ev":"barrier"}                     all goroutines have returned (no call pending)    *)
(* TLC searches for the linearization points: between two log lines any pending call may   *)
(* take effect atomically (Lin); an END line is consumable only if its call has taken      *)
(* effect and the result Registry!Apply computed is the logged one.  The history conforms  *)
(* iff some path consumes every line: the furthest line reached by any path is kept in a   *)
(* TLC register (high-water mark) and compared with the trace length by the POSTCONDITION  *)
(* (run with -workers 1).  If the search gets stuck, the line at the high-water mark is the *)
(* first END that no linearization explains.                                               *)
EXTENDS Integers, Sequences, FiniteSets, Json, IOUtils, TLC

Trace == ndJsonDeserialize(IOEnv.VERIF_TRACE)
Start == IF "VERIF_START" \in DOMAIN IOEnv THEN atoi(IOEnv.VERIF_START) ELSE 1

\* identities are records with an id: a manager [id], a client [id, prefix], "not found" NoneT
NoneT == [id |-> "none"]
GT == {Trace[i].g : i \in {j \in DOMAIN Trace : Trace[j].ev = "start"}}
\* a real client answers Supported(uri) = HasPrefix(uri, its prefix); the driver's prefixes are pairwise prefix-free
SupportsT(c, uri) == c.prefix = uri.prefix

VARIABLES l, reg, kms, pend, bad
vars == <<l, reg, kms, pend, bad>>

\* the history variable of Registry is not carried along (the log IS the history); the map is kept over the
\* type URLs of the current scenario only (the reset line says how many lines the scenario has)
R == INSTANCE Registry WITH G <- GT, URL <- {}, MGR <- {}, CLIENT <- {}, URI <- {},
                            Supports <- SupportsT, None <- NoneT, hist <- <<>>

ScenarioURLs(at) == {Trace[i].url : i \in {j \in (at + 1)..(at + Trace[at].len) : "url" \in DOMAIN Trace[j]}}

Init == /\ l = Start /\ bad = <<>> /\ TLCSet(1, Start)
        /\ reg = [u \in {} |-> NoneT] /\ kms = <<>> /\ pend = [g \in GT |-> R!Idle]

OpOf(e) ==
  CASE e.op = "Register"    -> [kind |-> "Register", url |-> e.url, mgr |-> [id |-> e.mgr]]
    [] e.op = "Get"         -> [kind |-> "Get", url |-> e.url]
    [] e.op = "Unregister"  -> [kind |-> "Unregister", url |-> e.url]
    [] e.op = "KmsRegister" -> [kind |-> "KmsRegister", client |-> e.client]
    [] e.op = "KmsGet"      -> [kind |-> "KmsGet", uri |-> e.uri]
    [] e.op = "KmsClear"    -> [kind |-> "KmsClear"]

\* results are logged as strings: a manager / client by its id
ResStr(op, res) == IF op.kind \in {"Get", "KmsGet"} THEN res.id ELSE res

Advance == l' = l + 1 /\ TLCSet(1, IF TLCGet(1) > l + 1 THEN TLCGet(1) ELSE l + 1)

Consume ==
  /\ l <= Len(Trace)
  /\ LET e == Trace[l] IN
       CASE e.ev = "reset" ->
              /\ reg' = [u \in ScenarioURLs(l) |-> NoneT] /\ kms' = <<>> /\ pend' = [g \in GT |-> R!Idle]
              /\ bad' = <<>> /\ Advance
         [] e.ev = "start" ->
              /\ UNCHANGED <<reg, kms>> /\ Advance
              /\ IF pend[e.g].st # "idle"
                   THEN pend' = pend /\ bad' = <<"coverage: start of a call while the goroutine's previous call is pending", ToString(e.g)>>
                   ELSE pend' = [pend EXCEPT ![e.g] = [st |-> "called", op |-> OpOf(e)]] /\ UNCHANGED bad
         [] e.ev = "end" ->
              /\ pend[e.g].st = "lin"
              /\ ResStr(pend[e.g].op, pend[e.g].res) = e.res
              /\ pend' = [pend EXCEPT ![e.g] = R!Idle]
              /\ UNCHANGED <<reg, kms, bad>> /\ Advance
         [] e.ev = "barrier" ->
              /\ UNCHANGED <<reg, kms, pend>> /\ Advance
              /\ bad' = IF \A g \in GT : pend[g].st = "idle" THEN bad
                        ELSE <<"coverage: barrier while a call is pending", "">>

\* Registry!Lin without the history variable: the atomic effect of a pending call
Lin(g) ==
  /\ pend[g].st = "called"
  /\ LET a == R!Apply(pend[g].op, reg, kms) IN
       /\ reg' = a[1] /\ kms' = a[2]
       /\ pend' = [pend EXCEPT ![g] = [st |-> "lin", op |-> pend[g].op, res |-> a[3]]]
  /\ UNCHANGED <<l, bad>>

Next == Consume \/ \E g \in GT : Lin(g)

Conforms == bad = <<>>                           \* only coverage problems of the log itself
Accepted == TLCGet(1) = Len(Trace) + 1           \* POSTCONDITION: some path consumed every line
HighWater == PrintT(<<"HWM", TLCGet(1)>>)
AcceptedOrReport == Accepted \/ (HighWater /\ FALSE)
================================================================================
