------------------------------ MODULE Trace_MLDSA ------------------------------
(* Trace validation for C10, algorithm layer: every recorded key generation,     *)
(* signing and verification call of the real code (internal ML-DSA through the   *)
(* verif hook; signature/mldsa, signprehash/mldsa and signature/compositemldsa   *)
(* through the public keyset API) is judged against FIPS 204 as transcribed in   *)
(* module MLDSA.  Known-answer events of the Wycheproof files use the same       *)
(* events (bin/selfspec).                                                        *)
(*                                                                                *)
(*   keygen   encoded keys from a seed are byte-identical to KeyGen_internal     *)
(*   sign     a signature with known randomness (deterministic: rnd = 0^32) is   *)
(*            byte-identical to Sign_internal                                    *)
(*   signmu   the same with an externally computed mu                            *)
(*   verify   the verdict on (pk, M', sigma) equals Verify_internal              *)
(*   verifymu the verdict on (pk, mu, sigma) equals Verify_internal from line 8  *)
(*   pverify  public verifier: prefix check, then ML-DSA.Verify with empty ctx   *)
(*   signed   a signature returned by a (hedged) signer verifies                 *)
(*            (outputs are also logged as retained across later calls: sig0/sig, *)
(*            out/out2 must be equal, the verdict applies to the value in use)   *)
(*   signfail a signer failed, panicked or did not return on a valid key         *)
(*   prehash  ComputePrehash = 0xFF || key id || mu                              *)
(*   composite  composite verifier accepts iff both components verify            *)
EXTENDS MLDSA, ECDSASig, Json, IOUtils

Trace == ndJsonDeserialize(IOEnv.VERIF_TRACE)

VARIABLES l, bad
vars == <<l, bad>>

B(x) == HexToBytes(x)

\* Tink output prefix of ML-DSA keys: TINK = 0x01 || key id; NO_PREFIX and EXTERNAL_MU = empty
Prefix(variant, id) == IF variant = "TINK" THEN <<1>> \o B(id) ELSE <<>>

\* signature/compositemldsa: M' = "CompositeAlgorithmSignatures2025" || label || 0x00 || SHA-512(M);
\* the ML-DSA component signs M' with ctx = label, the classical component signs M'.
CompositePrefix == StrToBytes("CompositeAlgorithmSignatures2025")
CompositeLabel(inst, alg) == StrToBytes("COMPSIG-MLDSA" \o inst \o "-" \o alg \o "-SHA512")
CompositeMPrime(inst, alg, msg) == CompositePrefix \o CompositeLabel(inst, alg) \o <<0>> \o Hash("SHA512", msg)
\* classical components: Ed25519 (RFC 8032, primitive) and ECDSA with DER signatures (module ECDSASig:
\* FIPS 186-5 verification equation over strict DER); public keys as Tink carries them (32-byte
\* Ed25519 key, uncompressed SEC 1 point).
ECDSAVerifyDER(curve, hash, pk, m, sig) ==
  LET rs == DecodeRS("DER", curve, sig)
  IN  rs[1] /\ VerifyDigest(curve, pk, Hash(hash, m), rs[2], rs[3])
ClassicalVerify(alg, pk, m, sig) ==
  CASE alg = "Ed25519"    -> Len(sig) = 64 /\ Ed25519Verify(pk, m, sig)
    [] alg = "ECDSA-P256" -> ECDSAVerifyDER("P256", "SHA256", pk, m, sig)
    [] alg = "ECDSA-P384" -> ECDSAVerifyDER("P384", "SHA384", pk, m, sig)

\* ok2 (where logged) is the verdict of a second call on the same buffers: verification is repeatable
Verdict(what, want, e) ==
  IF e.panic THEN <<what \o " panicked", ToString(want)>>
  ELSE IF e.ok # want THEN <<what \o " verdict differs from FIPS 204", ToString(want)>>
  ELSE IF "ok2" \in DOMAIN e /\ e.ok2 # want THEN <<what \o " verdict of a repeated call differs from FIPS 204", ToString(want)>>
  ELSE <<>>

Judge(e) ==
  CASE e.ev = "note" -> <<>>                          \* coverage only
    [] e.ev = "keygen" ->
         LET kp == KeyGenInternal(B(e.seed), ParamSet(e.set))
         IN  IF e.panic THEN <<"key generation panicked", "">>
             ELSE IF BytesToHex(kp.pk) # e.pk THEN <<"public key differs from KeyGen_internal", BytesToHex(kp.pk)>>
             ELSE IF e.sk # "" /\ BytesToHex(kp.sk) # e.sk THEN <<"private key differs from KeyGen_internal", BytesToHex(kp.sk)>>
             ELSE <<>>
    [] e.ev = "sign" ->
         LET want == BytesToHex(SignInternal(B(e.sk), B(e.mp), B(e.rnd), ParamSet(e.set)))
         IN  IF e.panic THEN <<"signing panicked", want>>
             ELSE IF e.hung THEN <<"signing did not return within the time limit", want>>
             ELSE IF e.sig # want THEN <<"signature differs from Sign_internal", want>> ELSE <<>>
    [] e.ev = "signmu" ->
         LET want == BytesToHex(SignMu(B(e.sk), B(e.mu), B(e.rnd), ParamSet(e.set)))
         IN  IF e.panic THEN <<"signing panicked", want>>
             ELSE IF e.hung THEN <<"signing did not return within the time limit", want>>
             ELSE IF e.sig # want THEN <<"signature differs from Sign_internal (external mu)", want>> ELSE <<>>
    [] e.ev = "verify" ->
         Verdict("Verify_internal", VerifyInternal(B(e.pk), B(e.mp), B(e.sig), ParamSet(e.set)), e)
    [] e.ev = "verifymu" ->
         Verdict("Verify (external mu)", VerifyMu(B(e.pk), B(e.mu), B(e.sig), ParamSet(e.set)), e)
    [] e.ev = "pverify" ->
         LET pre == Prefix(e.variant, e.id)
             sg  == B(e.sig)
         IN  Verdict("Verifier.Verify",
                     IsPrefixOf(pre, sg) /\ Verify(B(e.pk), B(e.msg), Drop(sg, Len(pre)), <<>>, ParamSet(e.set)), e)
    [] e.ev = "signed" ->
         LET pre == Prefix(e.variant, e.id)
             sg  == B(e.sig)
         IN  IF e.panic THEN <<"signing panicked", "">>
             ELSE IF e.hung THEN <<"signing did not return within the time limit", "">>
             ELSE IF e.err THEN <<"signing failed on a valid key", "">>
             \* sig0 (where logged) is the copy taken when the call returned, sig the retained result read later
             ELSE IF "sig0" \in DOMAIN e /\ e.sig0 # e.sig THEN <<"a returned signature was changed by a later call on the same primitive", e.sig0>>
             ELSE IF ~IsPrefixOf(pre, sg) THEN <<"signature lacks the key's output prefix", BytesToHex(pre)>>
             ELSE IF ~Verify(B(e.pk), B(e.msg), Drop(sg, Len(pre)), <<>>, ParamSet(e.set))
                  THEN <<"produced signature does not verify under FIPS 204", "TRUE">>
             ELSE <<>>
    [] e.ev = "signfail" -> <<"signing failed, panicked or did not return on a valid key", e.what>>
    [] e.ev = "prehash" ->
         LET want == BytesToHex(<<255>> \o B(e.id) \o Mu(H(B(e.pk), 64), MPrime(B(e.msg), <<>>)))
         IN  IF e.panic \/ e.err THEN <<"ComputePrehash failed", want>>
             ELSE IF e.out # want THEN <<"prehash differs from 0xFF || id || mu", want>>
             \* out2 (where logged) is the retained result read after later calls on the same primitive
             ELSE IF "out2" \in DOMAIN e /\ e.out2 # want THEN <<"a returned prehash was changed by a later call on the same primitive", want>>
             ELSE <<>>
    [] e.ev = "composite" ->
         LET P   == ParamSet(e.inst)
             pre == Prefix(e.variant, e.id)
             sg  == B(e.sig)
             body == Drop(sg, Len(pre))
             mp  == CompositeMPrime(e.inst, e.alg, B(e.msg))
             okM == Len(body) >= SigLen(P) /\ Verify(B(e.pkM), mp, Take(body, SigLen(P)), CompositeLabel(e.inst, e.alg), P)
             okC == Len(body) >= SigLen(P) /\ ClassicalVerify(e.alg, B(e.pkC), mp, Drop(body, SigLen(P)))
         IN  Verdict("composite Verify (both components must verify)", IsPrefixOf(pre, sg) /\ okM /\ okC, e)
    \* known answers (Wycheproof): ML-DSA.Verify / deterministic ML-DSA.Sign with an explicit context string
    [] e.ev = "xverify" ->
         LET want == Verify(B(e.pk), B(e.msg), B(e.sig), B(e.ctx), ParamSet(e.set))
         IN  IF e.ok = want THEN <<>> ELSE <<"known answer: ML-DSA.Verify differs", ToString(want)>>
    [] e.ev = "xsign" ->
         LET P  == ParamSet(e.set)
             kp == KeyGenInternal(B(e.seed), P)
         IN  IF BytesToHex(kp.pk) # e.pk THEN <<"known answer: public key differs from KeyGen_internal", BytesToHex(kp.pk)>>
             ELSE IF Len(B(e.ctx)) > 255 THEN (IF e.ok THEN <<"known answer: context longer than 255 bytes must be refused", "FALSE">> ELSE <<>>)
             ELSE LET want == BytesToHex(Sign(kp.sk, B(e.msg), B(e.ctx), Zeros(32), P))
                  IN  IF e.ok /\ e.sig = want THEN <<>> ELSE <<"known answer: deterministic signature differs", want>>
    [] e.ev = "pad" -> <<>>
    [] OTHER -> <<"unknown event", e.ev>>

Start == IF "VERIF_START" \in DOMAIN IOEnv THEN atoi(IOEnv.VERIF_START) ELSE 1

Init == l = Start /\ bad = <<>>
Next == /\ l <= Len(Trace)
        /\ bad' = Judge(Trace[l])
        /\ l' = l + 1
Spec == Init /\ [][Next]_vars

Conforms == bad = <<>>
Consumed == TLCGet("stats").diameter = Len(Trace) + 2 - Start
================================================================================
