---------------------------- MODULE Trace_Concurrency ----------------------------
(* Trace validation for C18 (primitives and handles): every call that returned while   *)
(* G goroutines were hammering ONE shared primitive / handle is judged against          *)
(* Concurrency.tla: Return(g) must deliver Alone(op, in).                               *)
(*                                                                                    *)
(* One scenario = one shared object:                                                    *)
(*   {"ev":"reset","target":..,"G":..}                                                   *)
(*   {"ev":"alone","op":..,"in":hex,"out":hex,"err":b,"rand":b}   the call executed ALONE  *)
(*        (single goroutine, before the concurrent phase): defines Alone[op, in]          *)
(*   {"ev":"conc","g":g,"i":i,"op":..,"in":hex,"out":hex,"err":b,"panic":b,"rand":b}     *)
(*        a call that returned in the concurrent phase (per-goroutine sequence number i;  *)
(*        no wall clock).  Deterministic: out must be Alone[op, in].  Randomized: the     *)
(*        value is kept until its alone inverse arrives:                                  *)
(*   {"ev":"inv","of":"g.i","op":..,"in":hex,"out":hex,"err":b}   the inverse operation    *)
(*        (in = the concurrent call's result; a verification's message travels as "msg")   *)
(*        executed ALONE (after the concurrent phase) on the result of conc call g.i:     *)
(*        Decrypt(ct) must give back the plaintext, Verify(sig, msg) must accept           *)
(*   {"ev":"end"}                            every randomized result has been inverted     *)
(*   A call that returns a JWT carries what ITS caller asked for ("jwt":true, "hasTyp",    *)
(*   "typ", "payload"): the returned compact token is decoded here (JWS.tla, RFC 7515       *)
(*   section 7.1): its protected header must carry exactly that type header and its         *)
(*   payload must be that caller's claims - not those of a call running at the same time.   *)
(*   {"ev":"intact","buf":..,"before":hex,"after":hex}   a buffer that ALL goroutines passed as input at   *)
(*        the same time (shared-buffer phase), compared with its content before the phase: the library     *)
(*        may only read its inputs                                                                          *)
(*   {"ev":"race","where":..}                a report of the Go race detector attached to  *)
(*        the same run: the no-data-race clause (decided by the detector, recorded here)   *)
EXTENDS JWS, FiniteSets, Json, IOUtils, TLC

Trace == ndJsonDeserialize(IOEnv.VERIF_TRACE)
Start == IF "VERIF_START" \in DOMAIN IOEnv THEN atoi(IOEnv.VERIF_START) ELSE 1

VARIABLES l, bad, alone, open
tvars == <<l, bad, alone, open>>

Key(e) == e.op \o "(" \o e.in \o ")"
Res(e) == IF e.err THEN "error" ELSE e.out
\* inverse operations that answer accept/reject instead of returning the input
VerifyOps == {"Verify", "VerifyMAC", "VerifyAndDecode", "VerifyMACAndDecode"}
Empty == [x \in {} |-> ""]

\* the shared object is a constant of Concurrency.tla; the Alone table recorded in a scenario is passed to JudgeDeterministic
NoInverts(c, out) == FALSE
C == INSTANCE Concurrency WITH G <- {}, Calls <- {}, Randomized <- {}, Alone <- Empty, Results <- {},
                               Inverts <- NoInverts, pc <- <<>>

Init == l = Start /\ bad = <<>> /\ alone = Empty /\ open = Empty

JudgeAlone(e) ==
  IF e.panic THEN <<"a call executed alone panicked", Key(e)>>
  ELSE IF e.rand THEN <<>>
  ELSE IF Key(e) \in DOMAIN alone /\ alone[Key(e)] # Res(e)
         THEN <<"the same call executed alone twice returned different values", alone[Key(e)]>>
  ELSE <<>>

\* ---- a returned JWT, decoded independently of Tink
Contains(hay, needle) == \E i \in 1..(Len(hay) - Len(needle) + 1) : SubSeq(hay, i, i + Len(needle) - 1) = needle
TypMember(t) == StrToBytes("\"typ\":\"") \o StrToBytes(t) \o <<34>>
JudgeJWT(e) ==
  LET tok == JWSParse(HexToBytes(e.out)) IN
  IF ~tok.ok THEN <<"the returned token is not a JWS compact serialization", e.out>>
  ELSE IF e.hasTyp /\ ~Contains(tok.header, TypMember(e.typ))
         THEN <<"the returned token's header does not carry the caller's type header", e.typ>>
  ELSE IF ~e.hasTyp /\ Contains(tok.header, StrToBytes("\"typ\""))
         THEN <<"the returned token's header carries a type header the caller did not set", "">>
  ELSE IF tok.payload # HexToBytes(e.payload)
         THEN <<"the returned token's payload is not the caller's claims", e.payload>>
  ELSE <<>>
IsJWT(e) == "jwt" \in DOMAIN e /\ ~e.err /\ ~e.panic

JudgeConc0(e) ==
  IF e.panic THEN <<"a concurrent call panicked", Key(e)>>
  ELSE IF e.rand THEN
         IF Key(e) \notin DOMAIN alone THEN <<"coverage: no alone execution of this call was recorded", Key(e)>>
         ELSE IF e.err /\ alone[Key(e)] # "error" THEN <<"a concurrent call failed although the same call succeeds alone", Key(e)>>
         ELSE <<>>
  ELSE C!JudgeDeterministic(alone, Key(e), Res(e))

JudgeConc(e) == IF JudgeConc0(e) # <<>> THEN JudgeConc0(e) ELSE IF IsJWT(e) THEN JudgeJWT(e) ELSE <<>>

\* Inverts(c, out) of Concurrency.tla, decided by the logged alone inverse execution
JudgeInv(e) ==
  IF e.of \notin DOMAIN open THEN <<"coverage: inverse of an unknown concurrent call", e.of>>
  ELSE LET c == open[e.of] IN
       IF e.in # c.out
         THEN <<"coverage: the inverse was not applied to the concurrent call's result", e.of>>
       ELSE IF e.err THEN <<"the result of a concurrent randomized call is rejected by the inverse operation executed alone", c.op \o "(" \o c.inp \o ")">>
       ELSE IF e.op \notin VerifyOps /\ e.out # c.inp
         THEN <<"the inverse operation executed alone maps a concurrent result to a different input", e.out>>
       ELSE <<>>

Next ==
  /\ l <= Len(Trace)
  /\ l' = l + 1
  /\ LET e == Trace[l] IN
       CASE e.ev = "reset" -> alone' = Empty /\ open' = Empty /\ bad' = <<>>
         [] e.ev = "alone" ->
              /\ bad' = JudgeAlone(e)
              /\ alone' = IF e.rand THEN (Key(e) :> (IF e.err THEN "error" ELSE "ok")) @@ alone
                          ELSE IF Key(e) \in DOMAIN alone THEN alone ELSE (Key(e) :> Res(e)) @@ alone
              /\ UNCHANGED open
         [] e.ev = "conc" ->
              /\ bad' = JudgeConc(e)
              /\ open' = IF e.rand /\ ~e.err /\ ~e.panic
                           THEN (ToString(e.g) \o "." \o ToString(e.i) :> [op |-> e.op, inp |-> e.in, out |-> e.out]) @@ open
                           ELSE open
              /\ UNCHANGED alone
         [] e.ev = "inv" ->
              /\ bad' = JudgeInv(e)
              /\ open' = [k \in DOMAIN open \ {e.of} |-> open[k]]
              /\ UNCHANGED alone
         [] e.ev = "end" ->
              /\ bad' = IF DOMAIN open = {} THEN <<>> ELSE <<"coverage: randomized results without alone inverse", ToString(Cardinality(DOMAIN open))>>
              /\ UNCHANGED <<alone, open>>
         [] e.ev = "intact" ->
              /\ bad' = IF e.before = e.after THEN <<>> ELSE <<"an input buffer shared by the goroutines was modified by the library", e.buf>>
              /\ UNCHANGED <<alone, open>>
         [] e.ev = "race" ->
              /\ bad' = <<"data race reported by the Go race detector", e.where>>
              /\ UNCHANGED <<alone, open>>

Conforms == bad = <<>>
Consumed == TLCGet("stats").diameter = Len(Trace) + 2 - Start
View == <<l, bad>>
Alias == [l |-> l, bad |-> bad]
================================================================================
