--------------------------- MODULE Trace_Monitoring ---------------------------
(* Trace validation for X02.  harness/cmd/x02 registers a recording monitoring.Client    *)
(* (through testing/verifhooks.RegisterMonitoringClient) and drives the REAL library:     *)
(* handles (cleartext read with WithAnnotations options, Manager.Handle, Public),         *)
(* managers, every factory, successful and failing calls, accessors.  One event per        *)
(* public step, carrying in `calls` every call the client received during that step:       *)
(*   {"k":"NewLogger","lg":n,"prim":..,"api":..,"info":{"ann":[[k,v]..],"primary":id,        *)
(*    "entries":[{id,status,kt,pfx}]}}  {"k":"Log","lg":n,"id":id,"n":bytes}                 *)
(*   {"k":"Fail","lg":n}  {"k":"Export","lg":n,"id":id}       (lg: loggers numbered in the   *)
(*   order NewLogger returned them since the last reset).                                  *)
(* Every event is replayed through the action of Monitoring.tla with the logged            *)
(* arguments, and the client calls the model delivers (`last`) must EQUAL the recorded     *)
(* ones.  A difference is classified: "DOC: ..." when the recorded calls contradict a       *)
(* documented clause (exactly one Log per success naming the working key and the input      *)
(* size, exactly one LogFailure per failure, never both, nothing without annotations, key   *)
(* exports), "MODEL: ..." when they only differ from an OBSERVATION of Monitoring.tla       *)
(* (names, order and number of NewLogger calls, which entries a context lists, how          *)
(* annotations travel, numBytes of verify / JWT) -- checks/X02.py turns the former into     *)
(* violations and the latter into "model out of date" (exit 2).                             *)
(*  {"ev":"reset"}                                                                          *)
(*  {"ev":"read","h":k,"ks":[{id,status,primary,pt,kt}],"opts":[{nil,pairs}],"err":b,"calls"} *)
(*  {"ev":"mgrNew","m":k} {"ev":"mgrFrom","m":k,"h":j} {"ev":"mgrAnn","m":k,"ann":{nil,pairs}}  *)
(*  {"ev":"mgrOp","m":k,"op":..}  {"ev":"mgrHandle","m":k,"h":j,"ks":[..],"err":b}              *)
(*  {"ev":"public","h":k,"src":j,"ks":[..],"err":b}  {"ev":"prim","p":k,"h":j,"cls":C,"err":b}   *)
(*  {"ev":"call","p":k,"op":..,"ok":b,"by":id|"none","dlen":n,"tlen":n,"how":..}                 *)
(*  {"ev":"access","h":j,"acc":..,"i":n}  {"ev":"aux","what":..}    (all with "calls")            *)
EXTENDS Monitoring, Json, IOUtils, TLC

Trace == ndJsonDeserialize(IOEnv.VERIF_TRACE)
Start == IF "VERIF_START" \in DOMAIN IOEnv THEN atoi(IOEnv.VERIF_START) ELSE 1

VARIABLES l, bad
tvars == <<handles, mgrs, prims, client, did, last, l, bad>>

(* ---- JSON -> the values of Monitoring.tla ---- *)
KsOf(js)    == [i \in DOMAIN js |-> [id |-> js[i].id, status |-> js[i].status, primary |-> js[i].primary, pt |-> js[i].pt, kt |-> js[i].kt]]
PairsOf(ps) == [i \in DOMAIN ps |-> <<ps[i][1], ps[i][2]>>]
AnnVal(a)   == IF a.nil THEN NilAnn ELSE AnnOf(PairsOf(a.pairs))
OptsOf(os)  == [i \in DOMAIN os |-> AnnVal(os[i])]
InfoOf(x)   == [ann |-> PairsOf(x.ann), primary |-> x.primary,
                entries |-> [i \in DOMAIN x.entries |-> [id |-> x.entries[i].id, status |-> x.entries[i].status,
                                                         kt |-> x.entries[i].kt, pfx |-> x.entries[i].pfx]]]
CallOf(c) ==
  CASE c.k = "NewLogger" -> NewLoggerCall(c.lg, c.prim, c.api, InfoOf(c.info))
    [] c.k = "Log"       -> LogCall(c.lg, c.id, c.n)
    [] c.k = "Fail"      -> FailCall(c.lg)
    [] c.k = "Export"    -> ExportCall(c.lg, c.id)
Rec(e) == [i \in DOMAIN e.calls |-> CallOf(e.calls[i])]
OfKind(cs, k) == SelectBy(cs, LAMBDA c : c.k = k)

(* ---- classification of a difference between recorded (rec) and model (want) calls ---- *)
(* documented, independent of any model state: a logger never exists without annotations *)
UnannotatedLogger(rec) == \E i \in DOMAIN rec : rec[i].k = "NewLogger" /\ rec[i].info.ann = <<>>
(* documented ("make sure this access doesn't get logged as key export", "purposely not using entry.Key()"):    *)
(* only the exporting accessors ever log a key export                                                            *)
StrayExport(rec) == \E i \in DOMAIN rec : rec[i].k = "Export"

Differs(kind, want) == <<"MODEL: " \o kind, ToString(want)>>

JudgeSetup(e, rec, want, what) ==
  IF rec = want THEN <<>>
  ELSE IF UnannotatedLogger(rec) THEN <<"DOC: a logger is created for a handle without annotations (" \o what \o ")", ToString(want)>>
  ELSE IF StrayExport(rec) THEN <<"DOC: a key export is logged by a step that hands no key to the caller (" \o what \o ")", ToString(want)>>
  ELSE Differs("the client calls of " \o what \o " differ from Monitoring.tla", want)

JudgeCall(e, p, rec, want) ==
  LET logs  == OfKind(rec, "Log")
      fails == OfKind(rec, "Fail")
      lg    == p.lgs[FnIndex(p.cls, e.op)]
      who   == p.cls \o "." \o e.op
  IN IF rec = want THEN <<>>
     ELSE IF StrayExport(rec) THEN <<"DOC: " \o who \o ": a key export is logged by an operation of a primitive", ToString(want)>>
     ELSE IF p.lgs = <<>> THEN Differs(who \o ": client calls from a primitive the model has no logger for", want)
     ELSE IF e.ok /\ Len(fails) > 0 THEN <<"DOC: " \o who \o ": a successful call logs a failure", ToString(want)>>
     ELSE IF e.ok /\ Len(logs) # 1 THEN <<"DOC: " \o who \o ": a successful call must log exactly one success", ToString(want)>>
     ELSE IF ~e.ok /\ Len(logs) > 0 THEN <<"DOC: " \o who \o ": a failed call logs a success", ToString(want)>>
     ELSE IF ~e.ok /\ Len(fails) # 1 THEN <<"DOC: " \o who \o ": a failed call must log exactly one failure", ToString(want)>>
     ELSE IF Len(rec) # 1 THEN Differs(who \o ": client calls other than Log / LogFailure during an operation", want)
     ELSE IF rec[1].lg # lg THEN <<"DOC: " \o who \o ": logged on the logger of another primitive or API function", ToString(want)>>
     ELSE IF e.ok /\ logs[1].id # e.by THEN <<"DOC: " \o who \o ": the logged success does not name the key that did the work", ToString(want)>>
     ELSE IF e.ok /\ NumBytesDocumented(p.cls, e.op) /\ logs[1].n # InputSize(p.cls, e.op, e.dlen, e.tlen)
       THEN <<"DOC: " \o who \o ": numBytes is not the size of the input", ToString(want)>>
     ELSE Differs(who \o ": the logged call differs from Monitoring.tla", want)

JudgeAccess(e, hd, rec, want) ==
  IF rec = want THEN <<>>
  ELSE IF hd.lgs = <<>> THEN
         (IF UnannotatedLogger(rec) THEN <<"DOC: a logger is created for a handle without annotations (" \o e.acc \o ")", ToString(want)>>
          ELSE Differs(e.acc \o ": client calls from a handle the model has no logger for", want))
  ELSE IF e.acc \in ExportingAccessors
    THEN <<"DOC: " \o e.acc \o ": the key export is not logged as documented (one LogKeyExport naming each exported key)", ToString(want)>>
  ELSE <<"DOC: " \o e.acc \o ": an access that hands no key to the caller must not reach the monitoring client", ToString(want)>>

Infra(msg, x) == <<"INFRA: " \o msg, x>>

ResetModel ==
  /\ handles' = <<>> /\ mgrs' = <<>> /\ prims' = <<>>
  /\ client' = EmptyClient /\ did' = <<>> /\ last' = <<>>
Keep == UNCHANGED <<handles, mgrs, prims, client, did, last>>

TInit == Init /\ l = Start /\ bad = <<>>

Step_reset(e) == ResetModel /\ bad' = <<>>

Step_read(e) ==
  IF ~e.err /\ e.h # Len(handles) + 1 THEN Keep /\ bad' = Infra("handle numbering", ToString(e.h))
  ELSE /\ ReadHandle(KsOf(e.ks), OptsOf(e.opts))
       /\ bad' = IF e.err # OptionsFail(OptsOf(e.opts))
                   THEN Differs("insecurecleartextkeyset.Read with these WithAnnotations options: error/success", ~e.err)
                   ELSE JudgeSetup(e, Rec(e), last', "insecurecleartextkeyset.Read")

Step_mgrNew(e) ==
  IF e.m # Len(mgrs) + 1 THEN Keep /\ bad' = Infra("manager numbering", ToString(e.m))
  ELSE NewManager /\ bad' = JudgeSetup(e, Rec(e), last', "keyset.NewManager")

Step_mgrFrom(e) ==
  IF e.m # Len(mgrs) + 1 \/ e.h \notin DOMAIN handles THEN Keep /\ bad' = Infra("manager numbering", ToString(e.m))
  ELSE ManagerFromHandle(e.h) /\ bad' = JudgeSetup(e, Rec(e), last', "keyset.NewManagerFromHandle")

Step_mgrAnn(e) ==
  IF e.m \notin DOMAIN mgrs THEN Keep /\ bad' = Infra("unknown manager", ToString(e.m))
  ELSE SetAnnotations(e.m, AnnVal(e.ann)) /\ bad' = JudgeSetup(e, Rec(e), last', "Manager.SetAnnotations")

Step_mgrOp(e) ==
  IF e.m \notin DOMAIN mgrs THEN Keep /\ bad' = Infra("unknown manager", ToString(e.m))
  ELSE ManagerOp(e.m) /\ bad' = JudgeSetup(e, Rec(e), last', "Manager." \o e.op)

Step_mgrHandle(e) ==
  IF e.m \notin DOMAIN mgrs \/ (~e.err /\ e.h # Len(handles) + 1) THEN Keep /\ bad' = Infra("handle numbering", ToString(e.h))
  ELSE IF e.err THEN Keep /\ bad' = JudgeSetup(e, Rec(e), <<>>, "a failing Manager.Handle")
  ELSE ManagerHandle(e.m, KsOf(e.ks)) /\ bad' = JudgeSetup(e, Rec(e), last', "Manager.Handle")

Step_public(e) ==
  IF e.src \notin DOMAIN handles \/ (~e.err /\ e.h # Len(handles) + 1) THEN Keep /\ bad' = Infra("handle numbering", ToString(e.h))
  ELSE IF e.err THEN Keep /\ bad' = JudgeSetup(e, Rec(e), <<>>, "a failing Handle.Public")
  ELSE IF Shape(KsOf(e.ks)) # Shape(handles[e.src].ks)
    THEN Keep /\ bad' = Differs("Handle.Public: ids / statuses / primary / prefix types differ from the private handle", Shape(handles[e.src].ks))
  ELSE Public(e.src, KsOf(e.ks)) /\ bad' = JudgeSetup(e, Rec(e), last', "Handle.Public")

Step_prim(e) ==
  IF e.h \notin DOMAIN handles \/ e.p # Len(prims) + 1 \/ e.cls \notin Classes \/ e.err
    THEN Keep /\ bad' = Infra("primitive numbering / unknown class / factory refused the keyset", e.cls)
  ELSE NewPrimitive(e.h, e.cls) /\ bad' = JudgeSetup(e, Rec(e), last', "the " \o e.cls \o " factory")

Step_call(e) ==
  IF e.p \notin DOMAIN prims THEN Keep /\ bad' = Infra("unknown primitive", ToString(e.p))
  ELSE IF e.op \notin OpSet(prims[e.p].cls) THEN Keep /\ bad' = Infra("unknown operation", e.op)
  ELSE IF e.ok /\ ~MayWork(prims[e.p], e.op, e.by)
    THEN Keep /\ bad' = Infra("(C05) a call succeeded with a key that is not the primary / not an ENABLED key of the handle", e.by)
  ELSE /\ Call(e.p, e.op, e.ok, e.by, e.dlen, e.tlen)
       /\ bad' = JudgeCall(e, prims[e.p], Rec(e), last')

Step_access(e) ==
  IF e.h \notin DOMAIN handles \/ e.acc \notin Accessors THEN Keep /\ bad' = Infra("unknown handle / accessor", e.acc)
  ELSE IF e.i \notin DOMAIN handles[e.h].ks THEN Keep /\ bad' = Infra("entry index", ToString(e.i))
  ELSE /\ Access(e.h, e.acc, e.i)
       /\ bad' = JudgeAccess(e, handles[e.h], Rec(e), last')

Step_aux(e) == Keep /\ bad' = JudgeSetup(e, Rec(e), <<>>, "a helper step on handles without annotations (" \o e.what \o ")")

StepOf(e) ==
  CASE e.ev = "reset" -> Step_reset(e)
    [] e.ev = "read" -> Step_read(e)
    [] e.ev = "mgrNew" -> Step_mgrNew(e)
    [] e.ev = "mgrFrom" -> Step_mgrFrom(e)
    [] e.ev = "mgrAnn" -> Step_mgrAnn(e)
    [] e.ev = "mgrOp" -> Step_mgrOp(e)
    [] e.ev = "mgrHandle" -> Step_mgrHandle(e)
    [] e.ev = "public" -> Step_public(e)
    [] e.ev = "prim" -> Step_prim(e)
    [] e.ev = "call" -> Step_call(e)
    [] e.ev = "access" -> Step_access(e)
    [] e.ev = "aux" -> Step_aux(e)
    [] OTHER -> Keep /\ bad' = Infra("unknown event", e.ev)

TNext ==
  /\ l <= Len(Trace)
  /\ l' = l + 1
  /\ StepOf(Trace[l])

Conforms == bad = <<>>
Consumed == TLCGet("stats").diameter = Len(Trace) + 2 - Start
================================================================================
