--------------------------- MODULE Trace_PrimitiveSet ---------------------------
(* Trace validation for C05.  One event = one keyset given to the REAL factory of a  *)
(* primitive class (harness/cmd/c05): the keyset as the handle shows it, what the     *)
(* primitive produced, and what it did with each input made by a single key.  Every   *)
(* verdict is the PROPERTY's rule of PrimitiveSet.tla (PropAccept, PropLoggedOK,      *)
(* Produce, PropPRFSet) evaluated on the logged keyset and on the logged facts about   *)
(* the input: who made it (`by`) and its actual first five bytes / kid (`first5`).     *)
(* The mechanism (MechAccept) is NOT consulted here; MC_PrimitiveSet relates the two.  *)
(*                                                                                     *)
(*  {"ev":"set","cls":C,"mon":bool,"ks":[{id,status,primary,pt,mat,impl}],             *)
(*   "prod":{err,panic,first5,acceptedBy:[id],logged:[id]},                             *)
(*   "toks":[{by:{id,pt,mat},first5,ok,logged:[id],msg,got, panic?}],                   *)
(*   "prf":{primary,n,outs:[{id,present,out,logged}],refs:[{mat,out}],primaryOut,...}}  *)
EXTENDS PrimitiveSet, Json, IOUtils, TLC

Trace == ndJsonDeserialize(IOEnv.VERIF_TRACE)
Start == IF "VERIF_START" \in DOMAIN IOEnv THEN atoi(IOEnv.VERIF_START) ELSE 1

VARIABLES l, bad
vars == <<l, bad>>

Id(h) == HexToBytes(h)
KsOf(e) == [i \in DOMAIN e.ks |-> [id |-> Id(e.ks[i].id), status |-> e.ks[i].status, primary |-> e.ks[i].primary,
                                    pt |-> e.ks[i].pt, mat |-> e.ks[i].mat, impl |-> e.ks[i].impl]]
SeqSet(s) == {s[i] : i \in DOMAIN s}
First(S) == CHOOSE i \in S : \A j \in S : i <= j

\* the input of token record k as PrimitiveSet sees it
TokenOf(c, k) == TokenBy(c, [id |-> Id(k.by.id), pt |-> k.by.pt, mat |-> k.by.mat], HexToBytes(k.first5))

JudgeToken(c, mon, ks, k) ==
  LET t      == TokenOf(c, k)
      expect == PropAccept(c, ks, t)
  IN IF "panic" \in DOMAIN k THEN <<"panic while accepting an input", k.by.pt, k.by.mat>>
     ELSE IF t.pfx # <<>> /\ HexToBytes(k.first5) # t.pfx
       THEN <<"a single key's output does not carry that key's prefix", BytesToHex(t.pfx), k.first5>>
     ELSE IF k.ok # expect
       THEN <<IF expect THEN "rejects an input that is valid under an ENABLED key whose prefix it carries"
                        ELSE "accepts an input that is valid under no ENABLED key whose prefix it carries",
              ToString(expect), k.by.id, k.by.pt, k.by.mat, k.first5>>
     ELSE IF k.ok /\ k.got # k.msg THEN <<"accepted input yields another message", k.msg, k.got>>
     ELSE IF mon /\ k.ok /\ ~(Len(k.logged) = 1 /\ PropLoggedOK(c, ks, t, Id(k.logged[1])))
       THEN <<"monitoring: the logged success does not name the key that did the work",
              ToString({BytesToHex(ks[i].id) : i \in Witnesses(c, ks, t)}), ToString(k.logged)>>
     ELSE IF ~k.ok /\ Len(k.logged) > 0 THEN <<"monitoring: a success is logged for a rejected input", ToString(k.logged)>>
     ELSE <<>>

JudgeProduce(c, mon, ks, p) ==
  LET t  == Produce(c, ks, HexToBytes(p.first5))
      by == {ks[i].id : i \in {j \in DOMAIN ks : ValidUnder(c, t, ks[j])}}
  IN IF p.panic THEN <<"panic while producing">>
     ELSE IF p.err THEN <<"INFRA: the keyset's primitive refuses to produce">>
     ELSE IF t.pfx # <<>> /\ HexToBytes(p.first5) # t.pfx
       THEN <<"the output does not carry the primary key's prefix", BytesToHex(t.pfx), p.first5>>
     ELSE IF {Id(x) : x \in SeqSet(p.acceptedBy)} # by
       THEN <<"the output is not an output of the primary key (and of it only)",
              ToString({BytesToHex(x) : x \in by}), ToString(p.acceptedBy)>>
     ELSE IF mon /\ p.logged # <<BytesToHex(PrimaryOf(ks).id)>>
       THEN <<"monitoring: producing must log the primary key", BytesToHex(PrimaryOf(ks).id), ToString(p.logged)>>
     ELSE <<>>

\* a PRF set: PrimaryID, and PRFs[id] = the PRF of that key for exactly the ENABLED keys
JudgePRF(ks, p) ==
  LET want  == PropPRFSet(ks)
      ref(m) == LET S == {i \in DOMAIN p.refs : p.refs[i].mat = m} IN p.refs[First(S)].out
      o(id)  == LET S == {i \in DOMAIN p.outs : Id(p.outs[i].id) = id} IN p.outs[First(S)]
  IN IF Id(p.primary) # want.primary THEN <<"PRF set: PrimaryID is not the primary key's id", BytesToHex(want.primary), p.primary>>
     ELSE IF \E i \in DOMAIN ks : o(ks[i].id).present # (ks[i].status = "ENABLED")
       THEN <<"PRF set: the ids with a PRF are not exactly the ENABLED keys", ToString({BytesToHex(x[1]) : x \in want.prfs})>>
     ELSE IF p.n # Cardinality(want.prfs) THEN <<"PRF set: number of PRFs differs from the number of ENABLED keys", ToString(Cardinality(want.prfs))>>
     ELSE IF \E x \in want.prfs : o(x[1]).out # ref(x[2])
       THEN <<"PRF set: PRFs[id] is not the PRF of the key with that id">>
     ELSE IF \E x \in want.prfs : o(x[1]).logged # <<BytesToHex(x[1])>>
       THEN <<"monitoring: a PRF computation must log its own key id">>
     ELSE IF p.primaryErr \/ p.primaryOut # o(want.primary).out
       THEN <<"PRF set: ComputePrimaryPRF is not the primary key's PRF">>
     ELSE IF p.primaryLogged # <<BytesToHex(want.primary)>> THEN <<"monitoring: ComputePrimaryPRF must log the primary key">>
     ELSE <<>>

Judge(e) ==
  LET ks == KsOf(e)
      c  == e.cls
  IN IF e.ev # "set" THEN <<"INFRA: unknown event", e.ev>>
     ELSE IF ~(WellFormed(ks) /\ c \in Classes /\ ClassAdmits(c, ks))
       THEN <<"INFRA: the driver built a keyset outside the property's quantifier">>
     ELSE IF "newpanic" \in DOMAIN e THEN <<"panic in the factory", e.newpanic>>
     ELSE IF "prf" \in DOMAIN e THEN JudgePRF(ks, e.prf)
     ELSE LET pb == JudgeProduce(c, e.mon, ks, e.prod)
              B  == {i \in DOMAIN e.toks : JudgeToken(c, e.mon, ks, e.toks[i]) # <<>>}
          IN IF pb # <<>> THEN pb
             ELSE IF B # {} THEN JudgeToken(c, e.mon, ks, e.toks[First(B)]) \o <<"token " \o ToString(First(B))>>
             ELSE <<>>

Init == l = Start /\ bad = <<>>
Next == /\ l <= Len(Trace)
        /\ bad' = Judge(Trace[l])
        /\ l' = l + 1

Conforms == bad = <<>>
Consumed == TLCGet("stats").diameter = Len(Trace) + 2 - Start
================================================================================
