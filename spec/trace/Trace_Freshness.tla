---------------------------- MODULE Trace_Freshness ----------------------------
(* Trace validation for C20.  The trace is a sequence of per-key histories:           *)
(*   {"ev":"reset","key":name,"kind":k,"cfg":{..},"classes":[..]}   a new key: a new      *)
(*                                                family of monitors (whole history +    *)
(*                                                one per input class)                    *)
(*   {"ev":"emit","out":hex,"cls":class,"aux":str,"p":process,"h":handle,"inst":primitive,"k":n} *)
(*                                                one randomized call of the real code  *)
(*        key ids of a manager whose draw loop is scripted also carry "draws": every value the   *)
(*        random source returned during the call (Freshness!DrawVerdict)                           *)
(*   {"ev":"end","n":count}                       the history of the key is complete    *)
(* Every emit is Freshness!Emit with the fields RandomFields cuts out of the logged      *)
(* output; NoRepeat is judged after every call, the uniformity conditions at "end", both  *)
(* on the whole history and on the sub-history of every input class.                      *)
(* The calls of one key come from several primitive instances, several handles and two   *)
(* OS processes (fields p/h/inst; they are provenance only).                             *)
EXTENDS RandomFields, Json, IOUtils

Trace == ndJsonDeserialize(IOEnv.VERIF_TRACE)
Start == IF "VERIF_START" \in DOMAIN IOEnv THEN atoi(IOEnv.VERIF_START) ELSE 1

VARIABLES l, bad, mon, cur        \* cur: [kind, cfg] of the key whose history is being read
vars == <<l, bad, mon, cur>>
F == INSTANCE Freshness

NoKey == [kind |-> "none", cfg |-> [variant |-> "NO_PREFIX"]]

Init == l = Start /\ bad = <<>> /\ mon = F!NewFamily(<<>>, {}) /\ cur = NoKey

Reset(e) ==
  /\ cur' = [kind |-> e.kind, cfg |-> e.cfg]
  /\ F!WellFormedFields(RandomFieldsOf(e.kind, e.cfg))
  /\ mon' = F!NewFamily(RandomFieldsOf(e.kind, e.cfg), {e.classes[i] : i \in DOMAIN e.classes})
  /\ bad' = <<>>

EmitEv(e) ==
  LET out == HexToBytes(e.out)
      aux == IF "aux" \in DOMAIN e THEN StrToBytes(e.aux) ELSE <<>>
  IN /\ UNCHANGED cur
     /\ IF cur.kind = "none" THEN UNCHANGED mon /\ bad' = <<"coverage: emit before reset", "">>
        ELSE IF ~FramingOK(cur.kind, cur.cfg, out)
          THEN UNCHANGED mon /\ bad' = <<"coverage: output does not have the wire-format framing of its key type", e.out>>
        ELSE LET vals == RandomValuesOf(cur.kind, cur.cfg, out, aux)
                 cls  == IF "cls" \in DOMAIN e THEN e.cls ELSE "all"
             IN /\ F!LayoutOK(mon["all"], vals) /\ cls \in DOMAIN mon
                /\ mon' = F!EmitFamily(mon, cls, vals)
                /\ bad' = IF F!FamilyRepeatVerdict(mon') # <<>> \/ "draws" \notin DOMAIN e THEN F!FamilyRepeatVerdict(mon')
                          ELSE \* key ids with observed draws: ids as (manager, id) values, unavailable = handed out before this call
                               LET tag(h) == BytesToHex(aux \o <<0>> \o HexToBytes(h))
                               IN F!DrawVerdict([i \in DOMAIN e.draws |-> tag(e.draws[i])], tag(e.out), mon["all"].fs[2].seen)

EndEv(e) ==
  /\ UNCHANGED <<mon, cur>>
  /\ bad' = IF e.n # mon["all"].n THEN <<"coverage: end event count differs from the calls read", ToString(mon["all"].n)>>
            ELSE F!FamilyEndVerdict(mon)

Next ==
  /\ l <= Len(Trace)
  /\ l' = l + 1
  /\ LET e == Trace[l] IN
       CASE e.ev = "reset" -> Reset(e)
         [] e.ev = "emit"  -> EmitEv(e)
         [] e.ev = "end"   -> EndEv(e)

Conforms == bad = <<>>
Consumed == TLCGet("stats").diameter = Len(Trace) + 2 - Start
View == <<l, bad>>
\* error traces show only the position and the diagnosis (the monitor holds thousands of values)
Alias == [l |-> l, bad |-> bad]
================================================================================
