------------------------------- MODULE Trace_KWP -------------------------------
(* Trace validation for C08 (AES-KWP part): every recorded Wrap / Unwrap call of   *)
(* kwp/subtle is judged against module KWP (RFC 5649 in TLA+ over the JDK AES      *)
(* block).  For inputs longer than DeepMax octets that are not marked "deep" the   *)
(* JDK's whole-algorithm AES/KWP primitive is the oracle; on every input up to     *)
(* DeepMax and on every "deep" event the TLA+ W / W^-1 is evaluated AND must equal *)
(* the JDK primitive (a disagreement there is a defect of the reference, reported  *)
(* as SPEC:, never as a verdict about the code).                                   *)
EXTENDS KWP, Json, IOUtils, TLC

Trace == ndJsonDeserialize(IOEnv.VERIF_TRACE)

VARIABLES l, bad
vars == <<l, bad>>

DeepMax == 520
Deep(e, n) == n <= DeepMax \/ e.deep

\* reference wrap / unwrap restricted to Tink's domain, with the two oracles cross-checked
RefWrap(e, k, p) ==
  IF Len(p) < MinWrap \/ Len(p) > MaxWrap THEN <<TRUE, FALSE, <<>>>>
  ELSE LET j == KWPWrap(k, p)
       IN IF Deep(e, Len(p)) THEN <<RFCWrap(k, p) = j, TRUE, j>> ELSE <<TRUE, TRUE, j>>
RefUnwrap(e, k, c) ==
  IF ~SizeOK(c) THEN <<TRUE, FALSE, <<>>>>
  ELSE LET j == KWPUnwrap(k, c)
       IN IF Deep(e, Len(c)) THEN <<RFCUnwrap(k, c) = j, j[1], j[2]>> ELSE <<TRUE, j[1], j[2]>>

JudgeValue(e) ==
  CASE e.ev = "construct" -> <<>>
    [] e.ev = "wrap" ->
         LET r == RefWrap(e, HexToBytes(e.key), HexToBytes(e.pt))
         IN  IF ~r[1] THEN <<"SPEC: TLA+ W differs from the JDK AES/KWP", e.kind>>
             ELSE IF e.panic THEN <<"Wrap panicked", ToString(r[2])>>
             ELSE IF e.ok # r[2] THEN
                    IF r[2] THEN <<"Wrap refused a key of 16..8192 octets", BytesToHex(r[3])>>
                    ELSE <<"Wrap accepted a key outside 16..8192 octets", "FAIL">>
             ELSE IF e.ok /\ e.out # BytesToHex(r[3]) THEN <<"wrapping differs from RFC 5649", BytesToHex(r[3])>>
             ELSE IF e.ok /\ e.out2 # "=" /\ e.out2 # e.out THEN <<"Wrap not deterministic", BytesToHex(r[3])>>
             ELSE <<>>
    [] e.ev = "unwrap" ->
         LET r == RefUnwrap(e, HexToBytes(e.key), HexToBytes(e.ct))
         IN  IF ~r[1] THEN <<"SPEC: TLA+ W^-1 differs from the JDK AES/KWP", e.kind>>
             ELSE IF e.panic THEN <<"Unwrap panicked", ToString(r[2])>>
             \* RFC-valid wrappings of keys shorter than 16 octets: the property is silent
             \* (Wrap never produces them); recorded as coverage, either verdict passes
             ELSE IF r[2] /\ Len(r[3]) < MinWrap THEN <<>>
             ELSE IF e.ok # r[2] THEN
                    IF r[2] THEN <<"Unwrap rejected a valid wrapping", BytesToHex(r[3])>>
                    ELSE <<"Unwrap accepted a corrupted or mis-sized wrapping", "FAIL">>
             ELSE IF e.ok /\ e.out # BytesToHex(r[3]) THEN <<"Unwrap returned a wrong key", BytesToHex(r[3])>>
             ELSE <<>>
    [] e.ev = "kat" ->                                   \* known-answer vector: judges both references
         LET k == HexToBytes(e.key)
             t == RFCUnwrap(k, HexToBytes(e.ct))
             j == KWPUnwrap(k, HexToBytes(e.ct))
         IN  IF e.valid THEN
               IF BytesToHex(RFCWrap(k, HexToBytes(e.pt))) # e.ct THEN <<"SPEC: TLA+ wrap differs from the vector", e.kind>>
               ELSE IF BytesToHex(KWPWrap(k, HexToBytes(e.pt))) # e.ct THEN <<"SPEC: JDK wrap differs from the vector", e.kind>>
               ELSE IF t # <<TRUE, HexToBytes(e.pt)>> \/ j # t THEN <<"SPEC: unwrap does not invert the vector", e.kind>>
               ELSE <<>>
             ELSE IF t[1] THEN <<"SPEC: TLA+ unwrap accepts an invalid vector", e.kind>>
             ELSE IF j[1] THEN <<"SPEC: JDK unwrap accepts an invalid vector", e.kind>>
             ELSE <<>>
    [] OTHER -> <<"unknown event", e.ev>>

\* Every byte string handed to the real code lives in a driver buffer with sentinel-filled spare capacity and guard
\* zones; inIntact records that input bytes, spare capacity and guards were unchanged after the call(s) of the event.
\* A call that alters its input has not computed the standard value "for the caller's input": judged together with
\* the value.  (Known-answer events of the reference gate carry no inIntact.)
Judge(e) ==
  IF "inIntact" \in DOMAIN e /\ ~e.inIntact
  THEN <<"the call altered a buffer handed in by the caller (input bytes, spare capacity or guard zone)", "unchanged">>
  ELSE JudgeValue(e)

Start == IF "VERIF_START" \in DOMAIN IOEnv THEN atoi(IOEnv.VERIF_START) ELSE 1

Init == l = Start /\ bad = <<>>
Next == /\ l <= Len(Trace)
        /\ bad' = Judge(Trace[l])
        /\ l' = l + 1
Spec == Init /\ [][Next]_vars

Conforms == bad = <<>>
Consumed == TLCGet("stats").diameter = Len(Trace) + 2 - Start
================================================================================
