------------------------------- MODULE Trace_AEAD -------------------------------
(* Trace validation for C01 and C02: every recorded Encrypt / Decrypt call of the   *)
(* real AEAD code is judged against the TLA+ reference of the documented wire       *)
(* format (AEADWire / Envelope over AESGCM, EtM, GCMSIV, ChaChaX, XAES).             *)
(*                                                                                 *)
(*  encrypt : Tink -> spec.  The reference must OPEN Tink's ciphertext to the logged *)
(*            plaintext, the length must be prefix+nonce+|pt|+tag, and Tink's own     *)
(*            Decrypt (nil/empty associated data interchanged) must return pt.        *)
(*  decrypt : spec -> Tink and C02.  Tink's verdict and plaintext must be the         *)
(*            reference's Open; plaintext may only be released for a (ct, ad) pair    *)
(*            in `produced` (pairs emitted by Tink's Encrypt or made by the           *)
(*            reference / another independent implementation under this key).         *)
(*  kat     : known-answer vectors (Wycheproof, RFC) -- gate of the reference itself. *)
(*  polyval, sivctr : internal functions reached through verif hooks.                *)
(* The caller's buffers are part of the contract: every call gets its inputs adjacent in one reused frame    *)
(* (both orders, natural capacity, with/without sentinel spare capacity); inIntact / rtIntact say the frame     *)
(* was unchanged after the call, and every Decrypt is issued twice from the same frame.                        *)
(* Events are self-contained (they carry their key configuration and, for decrypt,   *)
(* the produced pairs), so that a trace can be sharded and resumed.                  *)
EXTENDS Envelope, Json, IOUtils, TLC

Trace == ndJsonDeserialize(IOEnv.VERIF_TRACE)

VARIABLES l, bad
vars == <<l, bad>>

Cfg(j) == [kt |-> j.kt, variant |-> j.variant, id |-> HexToBytes(j.id), key |-> HexToBytes(j.key),
           mkey |-> HexToBytes(j.mkey), ivLen |-> j.ivLen, tagLen |-> j.tagLen, hash |-> j.hash, saltLen |-> j.saltLen]
Cfgs(js) == [i \in 1..Len(js) |-> Cfg(js[i])]

\* mode "keyset": e.keys (first = primary) -- a single key is a keyset of one;
\* mode "envelope": e.keys is the remote's (KEK) keyset, e.rkind / e.padTo the kind of remote, e.dek the DEK key
\* type, e.ep the output prefix of the envelope key itself when it lives in a keyset (empty otherwise).
Remote(e) == [keys |-> Cfgs(e.keys), kind |-> e.rkind, padTo |-> e.padTo]

\* Decrypt of an arbitrary input: Decrypt may refuse what Encrypt never emits (encrypted DEK > EnvelopeMaxEncDEK)
Open(e, ct, ad) ==
  IF e.mode = "envelope" THEN EnvelopeKeyOpen(HexToBytes(e.ep), Remote(e), e.dek, ct, ad)
  ELSE KeysetOpen(Cfgs(e.keys), ct, ad)

\* opening something Encrypt DID emit: the wire format alone, whatever the size of the encrypted DEK
OpenEmitted(e, ct, ad) ==
  IF e.mode = "envelope" THEN EnvelopeKeyOpenMax(HexToBytes(e.ep), Remote(e), e.dek, ct, ad, EnvelopeNoBound)
  ELSE KeysetOpen(Cfgs(e.keys), ct, ad)

\* length the documented format gives a ciphertext of a ptLen-byte plaintext
WantLen(e, ct, ptLen) ==
  IF e.mode = "envelope"
  THEN LET ep == HexToBytes(e.ep)
           f  == EnvelopeParseMax(Drop(ct, Len(ep)), EnvelopeNoBound)
           d  == RemoteOpen(Remote(e), f.encDEK)
       IN Len(ep) + EnvelopeLen(Len(f.encDEK), DEKConfig(e.dek, d[2]), ptLen)
  ELSE AEADCiphertextLen(Cfg(e.keys[1]), ptLen)

\* Encrypt may fail only where it documents a limit: the remote returned more than EnvelopeMaxEncDEK bytes
EncryptMayRefuse(e) == e.mode = "envelope" /\ e.rkind = "padded" /\ e.padTo > EnvelopeMaxEncDEK

JudgeEncrypt(e) ==
  IF e.panic THEN <<"Encrypt panicked">>
  ELSE IF ~e.inIntact THEN <<"Encrypt modified the caller's input buffers (plaintext, associated data or the memory around them)">>
  ELSE IF e.err THEN IF EncryptMayRefuse(e) THEN <<>> ELSE <<"Encrypt failed on a valid key and input">>
  ELSE LET ct == HexToBytes(e.ct)
           pt == HexToBytes(e.pt)
           r  == OpenEmitted(e, ct, HexToBytes(e.ad))
       IN IF ~r[1] THEN <<"an independent implementation of the documented format rejects Tink's ciphertext">>
          ELSE IF r[2] # pt THEN <<"an independent implementation decrypts Tink's ciphertext to a different plaintext", BytesToHex(r[2])>>
          ELSE IF Len(ct) # WantLen(e, ct, Len(pt)) THEN <<"ciphertext length is not prefix + nonce + |pt| + tag", ToString(WantLen(e, ct, Len(pt)))>>
          ELSE IF e.rtpanic THEN <<"Decrypt panicked on Encrypt's output">>
          ELSE IF ~e.rtIntact THEN <<"Decrypt modified the caller's input buffers (ciphertext, associated data or the memory around them)">>
          ELSE IF ~e.rtok THEN <<"Decrypt rejects Encrypt's output (nil and empty associated data interchanged)">>
          ELSE IF e.rtout # e.pt THEN <<"Decrypt(Encrypt(pt)) differs from pt", e.pt>>
          ELSE <<>>

JudgeDecrypt(e) ==
  IF e.panic THEN <<"Decrypt panicked">>
  ELSE IF ~e.inIntact THEN <<"Decrypt modified the caller's input buffers (ciphertext, associated data or the memory around them)">>
  ELSE IF e.ok2 # e.ok \/ e.out2 # e.out THEN <<"a second Decrypt of the same inputs from the same buffer gives a different result", e.out2>>
  ELSE LET r == Open(e, HexToBytes(e.ct), HexToBytes(e.ad))
           inProduced == \E i \in 1..Len(e.produced) : e.produced[i].ct = e.ct /\ e.produced[i].ad = e.ad
       IN IF e.chk /\ (~r[1] \/ BytesToHex(r[2]) # e.want)
               THEN <<"INFRA: the independently made ciphertext of this event is not one the specification opens to the stated plaintext">>
          ELSE IF e.ok /\ ~inProduced
               THEN <<"Decrypt released plaintext for a (ciphertext, associated data) pair never produced under this key", e.out>>
          ELSE IF e.ok /\ ~r[1] THEN <<"Decrypt accepts a ciphertext the documented format rejects", e.out>>
          ELSE IF ~e.ok /\ r[1] THEN <<"Decrypt rejects a ciphertext of the documented format", BytesToHex(r[2])>>
          ELSE IF ~e.ok /\ e.out # "" THEN <<"Decrypt returned an error together with plaintext bytes", e.out>>
          ELSE IF e.ok /\ e.out # BytesToHex(r[2]) THEN <<"Decrypt returned a plaintext different from the reference's", BytesToHex(r[2])>>
          ELSE <<>>

\* known answers: e.keys[1] RAW key; e.nonce, e.pt, e.ad, e.ct (= nonce || body || tag), e.valid
JudgeKAT(e) ==
  LET c  == Cfg(e.keys[1])
      r  == AEADOpen(c, HexToBytes(e.ct), HexToBytes(e.ad))
  IN IF e.valid
     THEN IF BytesToHex(AEADSeal(c, HexToBytes(e.nonce), HexToBytes(e.pt), HexToBytes(e.ad))) # e.ct
               THEN <<"INFRA: reference Seal differs from the known answer", BytesToHex(AEADSeal(c, HexToBytes(e.nonce), HexToBytes(e.pt), HexToBytes(e.ad)))>>
          ELSE IF r # <<TRUE, HexToBytes(e.pt)>> THEN <<"INFRA: reference Open rejects / mis-decrypts a valid known answer">>
          ELSE <<>>
     ELSE IF r[1] THEN <<"INFRA: reference Open accepts an invalid known answer">> ELSE <<>>

\* hooks: internal POLYVAL (Update over chunks, Finish) and the RFC 8452 counter mode with a chosen counter block
JudgeHook(e) ==
  IF e.panic THEN <<e.ev \o " panicked">>
  ELSE IF e.ev = "polyval"
  THEN LET want == BytesToHex(PolyvalOfChunks(HexToBytes(e.key), [i \in 1..Len(e.chunks) |-> HexToBytes(e.chunks[i])]))
       IN IF e.out = want THEN <<>> ELSE <<"POLYVAL differs from RFC 8452 section 3", want>>
  ELSE LET want == BytesToHex(SIVCtr(HexToBytes(e.key), SetTopBit(HexToBytes(e.ctr)), HexToBytes(e.data)))
       IN IF e.out = want THEN <<>> ELSE <<"AES-GCM-SIV counter mode differs from RFC 8452 section 4", want>>

Judge(e) ==
  CASE e.ev = "construct" -> <<>>                       \* coverage only (DESIGN section 4)
    [] e.ev = "encrypt"   -> JudgeEncrypt(e)
    [] e.ev = "decrypt"   -> JudgeDecrypt(e)
    [] e.ev = "kat"       -> JudgeKAT(e)
    [] e.ev \in {"polyval", "sivctr"} -> JudgeHook(e)
    [] OTHER -> <<"INFRA: unknown event", e.ev>>

Start == IF "VERIF_START" \in DOMAIN IOEnv THEN atoi(IOEnv.VERIF_START) ELSE 1

Init == l = Start /\ bad = <<>>
Next == /\ l <= Len(Trace)
        /\ bad' = Judge(Trace[l])
        /\ l' = l + 1
Spec == Init /\ [][Next]_vars

Conforms == bad = <<>>
Consumed == TLCGet("stats").diameter = Len(Trace) + 2 - Start
================================================================================
