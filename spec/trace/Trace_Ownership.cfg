INIT Init
NEXT Next
INVARIANTS Conforms ModelInv
POSTCONDITION Consumed
CHECK_DEADLOCK FALSE
