--------------------------- MODULE Trace_StreamFormat ---------------------------
(* Trace validation for the format clause of C07 (independent events).              *)
(*  enc  Tink encrypted pt (any sequence of Write calls) to ct: re-deriving the     *)
(*       whole ciphertext from (key, aad, salt and nonce prefix read from ct's      *)
(*       header, pt) with StreamFormat must give exactly ct.                        *)
(*  dec  Tink's reader was given ct (made by the specification with a chosen salt   *)
(*       and prefix - Plan_Stream -, or by Tink, possibly manipulated) and returned *)
(*       `out` followed by EOF or an error: StreamFormat's decoder decides.         *)
(* The configuration is the one the KEY DECLARES (hkdf hash, HMAC hash, tag, sizes),  *)
(* whether the primitive came from a subtle constructor or from the key type through *)
(* streamingaead.New(handle) (field via).                                            *)
EXTENDS StreamFormat, Json, IOUtils, TLC

Trace == ndJsonDeserialize(IOEnv.VERIF_TRACE)
Start == IF "VERIF_START" \in DOMAIN IOEnv THEN atoi(IOEnv.VERIF_START) ELSE 1

VARIABLES l, bad

CfgOf(e) == [alg |-> e.alg, key |-> HexToBytes(e.key), hkdf |-> e.hkdf, ks |-> e.ks, tagAlg |-> e.tagAlg, tag |-> e.tag,
             C |-> e.c, off |-> e.off]

JudgeEnc(e) ==
  LET c == CfgOf(e)  ct == HexToBytes(e.ct)  pt == HexToBytes(e.pt)  aad == HexToBytes(e.aad) IN
  IF ~SConfigOK(c) THEN <<"[driver] configuration outside the documented parameter space", e.alg>>
  ELSE IF e.err THEN <<"[property] encryption of a legal configuration failed", "no error">>
  ELSE IF Len(ct) < SHeaderLen(c) \/ ct[1] # SHeaderLen(c)
    THEN <<"[property] ciphertext does not start with header = len || salt || nonce prefix", ToString(SHeaderLen(c))>>
  ELSE LET want == StreamEncrypt(c, SSaltOf(c, ct), SPrefixOf(c, ct), aad, pt) IN
       IF want # ct THEN <<"[property] ciphertext is not header || segments of the documented format", BytesToHex(want)>>
       ELSE <<>>

JudgeDec(e) ==
  LET c == CfgOf(e)  ct == HexToBytes(e.ct)  out == HexToBytes(e.out)  aad == HexToBytes(e.aad)
      d == StreamDecrypt(c, aad, ct)
  IN IF ~SConfigOK(c) THEN <<"[driver] configuration outside the documented parameter space", e.alg>>
     ELSE IF e.panic THEN <<"[property] the decrypting reader panicked", "no panic">>
     ELSE IF e.err \notin {"EOF", "ERR"} THEN <<"[property] the decrypting reader never reports the end of the stream", "EOF or error">>
     ELSE IF d[1] THEN
       IF e.err = "EOF" /\ out = d[2] THEN <<>>
       ELSE <<"[property] a ciphertext of the documented format is not decrypted to its plaintext and EOF", BytesToHex(d[2])>>
     ELSE IF e.err = "EOF" THEN <<"[property] clean end of stream for a ciphertext the format does not accept", "error">>
     ELSE IF ~IsPrefixOf(out, d[2]) THEN <<"[property] bytes returned before the error are not authenticated plaintext", BytesToHex(d[2])>>
     ELSE IF out # d[2] THEN <<"[model] plaintext returned before the error is shorter than the verified segments", BytesToHex(d[2])>>
     ELSE <<>>

Judge(e) == CASE e.ev = "enc" -> JudgeEnc(e)
              [] e.ev = "dec" -> JudgeDec(e)
              [] OTHER -> <<"[driver] unknown event", e.ev>>

Init == l = Start /\ bad = <<>>
Next == l <= Len(Trace) /\ bad' = Judge(Trace[l]) /\ l' = l + 1
Conforms == bad = <<>>
Consumed == TLCGet("stats").diameter = Len(Trace) + 2 - Start
================================================================================
