----------------------------- MODULE Trace_Secrets -----------------------------
(* Trace validation for C13 (harness/cmd/c12 -mode sec).  For every abstract keyset of    *)
(* Plan_KeysetIO (all sequences of <= 3 material types with rotating representatives,      *)
(* every position; singles; pairs; random):                                                *)
(*   handle event: NewHandleWithNoSecrets(keyset) ok <=> NoSecretsOK; String() and          *)
(*                 KeysetInfo() decoded independently: populated fields \subseteq metadata,   *)
(*                 no window of any key's secret bytes (raw / hex / base64) inside;           *)
(*   io event:     WriteWithNoSecrets ok <=> NoSecretsOK; ReadWithNoSecrets on the cleartext   *)
(*                 blob ok <=> NoSecretsOK; an encrypted blob is readable only with the same    *)
(*                 kek and associated data (nil == empty), and shows only                       *)
(*                 encrypted_keyset + keyset info metadata, no key bytes.                       *)
(*   every string-valued output (error texts of refusing / failing APIs, fmt %v %+v %#v of      *)
(*   the handle, its entries, key objects and parameters objects, panic values) is scanned the   *)
(*   same way, additionally with escapes undone and number lists decoded: no leak.               *)
(* Coverage expectations: every artifact decodes; the leak scanner DOES fire on the            *)
(* cleartext blob of a keyset that holds secrets (positive control of the scanner).            *)
EXTENDS KeysetCatalog, Json, TLC
S == INSTANCE Secrets

Trace == ndJsonDeserialize(IOEnv.VERIF_TRACE)
Start == IF "VERIF_START" \in DOMAIN IOEnv THEN atoi(IOEnv.VERIF_START) ELSE 1

H(keys) == [i \in DOMAIN keys |->
              [id |-> keys[i].id, status |-> keys[i].status, prefix |-> PrefixOfName(keys[i].name), url |-> UrlOf(keys[i].name),
               mat |-> MatOf(keys[i].name), primary |-> keys[i].primary,
               secret |-> IF MatOf(keys[i].name) \in {"PUBLIC", "REMOTE"} THEN 0 ELSE i]]
ModeOf(x) == IF x.m = "encrypted" THEN [m |-> "encrypted", kek |-> x.kek, ad |-> x.ad] ELSE [m |-> x.m]
SetOf(seq) == {seq[i] : i \in DOMAIN seq}
\* which material class decides: reported with a violation so that the signature names the input class
MatClass(h) == IF S!NoSecretsOK(h) THEN "public/remote only"
               ELSE IF \E i \in DOMAIN h : h[i].mat = "UNKNOWN" THEN "contains UNKNOWN material"
               ELSE IF \E i \in DOMAIN h : h[i].mat = "SYMMETRIC" THEN "contains SYMMETRIC material" ELSE "contains PRIVATE material"

JudgeArtifact(name, kind, format, mode, a) ==
  IF ~a.decoded THEN <<"COVERAGE: artifact does not decode", name>>
  ELSE IF ~(SetOf(a.fields) \subseteq S!Allowed(kind, format, mode))
         THEN <<"an artifact populates fields beyond type, status, id and prefix-type metadata", name,
                ToString(SetOf(a.fields) \ S!Allowed(kind, format, mode))>>
  ELSE IF a.leak /\ ~S!MayShowKeyBytes(kind, mode) THEN <<"key bytes appear in an artifact", name>>
  ELSE <<>>

JudgeHandle(e) ==
  LET h == H(e.keys) IN
  IF e.panic \/ e.sec.newHandleNoSecrets.panic \/ e.sec.string.panic \/ e.sec.keysetInfo.panic THEN <<"panic", "handle">>
  ELSE IF ~e.built THEN <<"COVERAGE: the driver could not build the plan handle", "built">>
  ELSE IF ~S!GuardConsistent(h) THEN <<"COVERAGE: model guard inconsistent", "model">>
  ELSE IF e.sec.newHandleNoSecrets.ok # S!NoSecretsAPIsSucceed(h)
         THEN <<IF e.sec.newHandleNoSecrets.ok THEN "NewHandleWithNoSecrets accepts a keyset with secret / unknown key material"
                ELSE "NewHandleWithNoSecrets refuses a public / remote-only keyset", MatClass(h)>>
  ELSE LET a == JudgeArtifact("String()", "string", "text", "none", e.sec.string)
           b == JudgeArtifact("KeysetInfo()", "keysetInfo", "proto", "none", e.sec.keysetInfo)
           leaky == {i \in DOMAIN e.sec.texts : ~S!TextArtifactOK(e.sec.texts[i].leak)}
       IN IF a # <<>> THEN a
          ELSE IF b # <<>> THEN b
          ELSE IF leaky # {} THEN <<"key bytes appear in a string-valued output", e.sec.texts[CHOOSE i \in leaky : \A j \in leaky : i <= j].name>>
          ELSE <<>>

JudgeRead(e, h, blob, r) ==
  LET wm == ModeOf(e.w)
      rm == ModeOf(r)
      exp == S!Read(blob, r.f, rm)
      tag == e.w.f \o "/" \o e.w.m \o " -> " \o r.f \o "/" \o r.m
  IN
  IF ~S!TextArtifactOK(r.textleak) THEN <<"key bytes appear in a string-valued output", "error / panic value of a keyset reader", tag>>
  ELSE IF r.panic THEN <<"panic in a keyset reader", tag>>
  ELSE IF e.w.m = "encrypted" /\ r.m = "encrypted" /\ r.f = e.w.f /\ r.ok # ~S!IsFail(exp)
         THEN <<IF r.ok THEN "an encrypted keyset is read with a different key-encryption key or associated data"
                ELSE "an encrypted keyset is not readable with its own key-encryption key and associated data", tag,
                IF r.kek # e.w.kek THEN (IF S!AdNorm(r.ad) # S!AdNorm(e.w.ad) THEN "wrong kek and ad" ELSE "wrong kek") ELSE "ad " \o e.w.ad \o " vs " \o r.ad>>
  ELSE IF e.w.m = "encrypted" /\ r.m # "encrypted" /\ r.ok THEN <<"an encrypted keyset is read without the key-encryption key", tag>>
  ELSE IF r.m = "noSecrets" /\ e.w.m = "cleartext" /\ r.f = e.w.f /\ r.ok # S!NoSecretsAPIsSucceed(h)
         THEN <<IF r.ok THEN "ReadWithNoSecrets accepts a keyset with secret / unknown key material"
                ELSE "ReadWithNoSecrets refuses a public / remote-only keyset", tag, MatClass(h)>>
  ELSE <<>>

RECURSIVE FirstBadRead(_, _, _, _)
FirstBadRead(e, h, blob, i) ==
  IF i > Len(e.reads) THEN <<>>
  ELSE LET b == JudgeRead(e, h, blob, e.reads[i]) IN IF b # <<>> THEN b ELSE FirstBadRead(e, h, blob, i + 1)

JudgeIO(e) ==
  LET h == H(e.keys)
      wm == ModeOf(e.w)
      blob == S!Write(h, e.w.f, wm)
      tag == e.w.f \o "/" \o e.w.m
  IN
  IF ~S!TextArtifactOK(e.wtextleak) THEN <<"key bytes appear in a string-valued output", "error / panic value of a keyset writer", tag>>
  ELSE IF e.wpanic THEN <<"panic in a keyset writer", tag>>
  ELSE IF e.w.m = "noSecrets" /\ e.wok # S!NoSecretsAPIsSucceed(h)
         THEN <<IF e.wok THEN "WriteWithNoSecrets exports a keyset with secret / unknown key material"
                ELSE "WriteWithNoSecrets refuses a public / remote-only keyset", tag, MatClass(h)>>
  ELSE IF e.w.m # "noSecrets" /\ ~e.wok THEN <<"COVERAGE: a writer refuses the keyset", tag>>
  ELSE IF ~e.wok THEN <<>>
  ELSE LET a == JudgeArtifact(tag \o " blob", "blob", e.w.f, e.w.m, e.blob) IN
       IF a # <<>> THEN a
       ELSE IF e.w.m = "cleartext" /\ S!HasSecrets(h) /\ (\E i \in DOMAIN h : h[i].mat # "UNKNOWN" \/ TRUE) /\ ~e.blob.leak
              THEN <<"COVERAGE: the leak scanner does not see the key bytes in a cleartext keyset", tag>>
       ELSE FirstBadRead(e, h, blob, 1)

Judge(e) == IF e.ev = "handle" THEN JudgeHandle(e) ELSE JudgeIO(e)

SigOf(e, b) == <<e.ev, b[1], IF Len(b) > 1 THEN b[2] ELSE "", IF Len(b) > 2 THEN b[3] ELSE "">>
SigsUpTo(n) == {SigOf(Trace[i], Judge(Trace[i])) : i \in {j \in 1..n : Judge(Trace[j]) # <<>>}}

VARIABLES l, bad, seen
Init == l = Start /\ bad = <<>> /\ seen = SigsUpTo(Start - 1)
Next ==
  /\ l <= Len(Trace)
  /\ l' = l + 1
  /\ LET b == Judge(Trace[l]) IN
       IF b = <<>> THEN bad' = <<>> /\ seen' = seen
       ELSE /\ seen' = seen \cup {SigOf(Trace[l], b)}
            /\ bad' = IF SigOf(Trace[l], b) \in seen THEN <<>> ELSE b
Conforms == bad = <<>>
Consumed == TLCGet("stats").diameter = Len(Trace) + 2 - Start
================================================================================
