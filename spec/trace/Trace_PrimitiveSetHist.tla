------------------------- MODULE Trace_PrimitiveSetHist -------------------------
(* Trace validation for C05 over ROTATION HISTORIES: the recorded calls on a real      *)
(* keyset.Manager (start from an externally read handle, Add, SetPrimary, Enable,       *)
(* Disable, Delete, Handle) are replayed step by step through KeysetManager.tla         *)
(* (read-only INSTANCE), and every keyset the real factories were given must be the     *)
(* handle the SPECIFICATION reaches after that history (joined with the prefix type,    *)
(* key material and implementation each key was created with).  The factory's           *)
(* behaviour on it is then judged exactly as in Trace_PrimitiveSet (Judge: PropAccept,   *)
(* PropLoggedOK, Produce, PropPRFSet).                                                   *)
(*  {"ev":"reset","ext":[{id,status,primary,req,pt,mat,impl}]}   new history             *)
(*  {"ev":"FromHandle","h":1,"err":false,"st":[{id,status,primary,req}]}                 *)
(*  {"ev":"Add","id":..,"withReq":bool,"meta":{pt,mat,impl},"err":..,"st":[..]}          *)
(*  {"ev":"SetPrimary"|"Enable"|"Disable"|"Delete","id":..,"err":..,"st":[..]}           *)
(*  {"ev":"Handle","err":..}                                                             *)
(*  {"ev":"set","h":k,...}  the factory event; h = 0: a keyset of its own (collision)    *)
EXTENDS Trace_PrimitiveSet

NoReqT == "none"
IdsIn(es) == {es[i].id : i \in DOMAIN es}
EventIds(e) ==
  (IF "id" \in DOMAIN e THEN {e.id} ELSE {}) \cup (IF "st" \in DOMAIN e THEN IdsIn(e.st) ELSE {})
  \cup (IF "ext" \in DOMAIN e THEN IdsIn(e.ext) ELSE {})
IDT == UNION {EventIds(Trace[i]) : i \in DOMAIN Trace}

VARIABLES mgr, handles, res, meta
KM == INSTANCE KeysetManager WITH ID <- IDT, Mgr <- {1}, NoReq <- NoReqT

hvars == <<mgr, handles, res, meta, l, bad>>

ToEntries(js) == [i \in DOMAIN js |-> [id |-> js[i].id, status |-> js[i].status, primary |-> js[i].primary, req |-> js[i].req]]
MetaOf(x) == [pt |-> x.pt, mat |-> x.mat, impl |-> x.impl]

\* the keyset a factory is given: a handle of the model joined with what each key was created as
Join(es) == [i \in DOMAIN es |-> [id |-> Id(es[i].id), status |-> es[i].status, primary |-> es[i].primary,
                                  pt |-> meta[es[i].id].pt, mat |-> meta[es[i].id].mat, impl |-> meta[es[i].id].impl]]

IsOp(e) == e.ev \in {"FromHandle", "Add", "SetPrimary", "Enable", "Disable", "Delete", "Handle"}

Guard(e) ==
  CASE e.ev = "Add"        -> e.id \in IDT \ mgr[1].unavail /\ e.withReq = (e.meta.pt # "RAW")
    [] e.ev = "FromHandle" -> e.h \in DOMAIN handles
    [] OTHER -> TRUE

Step(e) ==
  CASE e.ev = "FromHandle" -> KM!FromHandle(1, e.h)
    [] e.ev = "Add"        -> KM!AddRandom(1, e.id, e.withReq)
    [] e.ev = "SetPrimary" -> KM!SetPrimary(1, e.id)
    [] e.ev = "Enable"     -> KM!Enable(1, e.id)
    [] e.ev = "Disable"    -> KM!Disable(1, e.id)
    [] e.ev = "Delete"     -> KM!Delete(1, e.id)
    [] e.ev = "Handle"     -> KM!Handle(1)

Compare(e, mgr2, res2) ==
  IF res2.err # e.err THEN <<"INFRA(C11): a manager call's error/success differs from KeysetManager.tla", e.ev, ToString(res2.err)>>
  ELSE IF "st" \in DOMAIN e /\ mgr2[1].entries # ToEntries(e.st)
    THEN <<"INFRA(C11): the manager's entries differ from KeysetManager.tla", e.ev, ToString(mgr2[1].entries)>>
  ELSE <<>>

JudgeOnModel(e) ==
  IF e.h = 0 THEN Judge(e)
  ELSE IF e.h \notin DOMAIN handles THEN <<"INFRA: factory event refers to a handle the specification does not have", ToString(e.h)>>
  ELSE IF Join(handles[e.h]) # KsOf(e)
    THEN <<"INFRA(C11): the keyset the factory was given is not the handle KeysetManager.tla reaches after this history",
           ToString(Join(handles[e.h]))>>
  ELSE Judge(e)

HInit ==
  /\ l = Start /\ bad = <<>>
  /\ mgr = [m \in {1} |-> KM!EmptyMgr] /\ handles = <<>> /\ meta = <<>>
  /\ res = KM!Ok("Init", 1, NoReqT)

HNext ==
  /\ l <= Len(Trace)
  /\ l' = l + 1
  /\ LET e == Trace[l] IN
       IF e.ev = "reset"
         THEN /\ mgr' = [m \in {1} |-> KM!EmptyMgr]
              /\ handles' = <<ToEntries(e.ext)>>
              /\ meta' = [id \in IdsIn(e.ext) |-> MetaOf(e.ext[CHOOSE i \in DOMAIN e.ext : e.ext[i].id = id])]
              /\ res' = KM!Ok("Init", 1, NoReqT)
              /\ bad' = IF \A i \in DOMAIN e.ext : (e.ext[i].req = NoReqT) = (e.ext[i].pt = "RAW") /\ e.ext[i].req \in {NoReqT, e.ext[i].id}
                          THEN <<>> ELSE <<"INFRA(C11): a key's ID requirement does not fit its prefix type">>
       ELSE IF e.ev = "set"
         THEN /\ bad' = JudgeOnModel(e)
              /\ UNCHANGED <<mgr, handles, res, meta>>
       ELSE IF ~IsOp(e) THEN bad' = <<"INFRA: unknown event", e.ev>> /\ UNCHANGED <<mgr, handles, res, meta>>
       ELSE IF ~Guard(e)
         THEN /\ bad' = <<"INFRA(C11): call outcome impossible in KeysetManager.tla (guard false)", e.ev>>
              /\ UNCHANGED <<mgr, handles, res, meta>>
         ELSE /\ Step(e)
              /\ meta' = IF e.ev = "Add" /\ ~e.err THEN [id \in DOMAIN meta \cup {e.id} |-> IF id = e.id THEN MetaOf(e.meta) ELSE meta[id]]
                         ELSE meta
              /\ bad' = Compare(e, mgr', res')
================================================================================
