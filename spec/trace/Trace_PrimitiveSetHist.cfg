INIT HInit
NEXT HNext
INVARIANT Conforms
POSTCONDITION Consumed
CHECK_DEADLOCK FALSE
