------------------------------ MODULE Trace_DAEAD ------------------------------
(* Trace validation for C08 (AES-SIV part): every recorded                        *)
(* EncryptDeterministically / DecryptDeterministically call of the real code, and  *)
(* every call of the CMAC xorend routine S2V relies on, is judged against DAEAD /  *)
(* SIV (RFC 5297 in TLA+ over the JDK AES block).                                  *)
EXTENDS DAEAD, Json, IOUtils, TLC

Trace == ndJsonDeserialize(IOEnv.VERIF_TRACE)

VARIABLES l, bad
vars == <<l, bad>>

KS(e) == [i \in 1..Len(e.ks) |->
           [id |-> HexToBytes(e.ks[i].id), variant |-> e.ks[i].variant, key |-> HexToBytes(e.ks[i].key),
            status |-> e.ks[i].status, primary |-> e.ks[i].primary]]
Ads(e) == [i \in 1..Len(e.ads) |-> HexToBytes(e.ads[i])]

JudgeValue(e) ==
  CASE e.ev = "construct" -> <<>>                       \* coverage only (DESIGN section 4)
    [] e.ev = "enc" ->
         LET want == BytesToHex(Encrypt(KS(e), HexToBytes(e.pt), HexToBytes(e.ad)))
         IN  IF e.panic THEN <<"EncryptDeterministically panicked", want>>
             ELSE IF e.err THEN <<"EncryptDeterministically failed on a valid key", want>>
             ELSE IF e.out # want THEN <<"ciphertext differs from prefix || RFC 5297 SIV-ENCRYPT", want>>
             ELSE IF e.out2 # e.out THEN <<"EncryptDeterministically not deterministic", want>>
             ELSE <<>>
    [] e.ev = "dec" ->
         LET want == Decrypt(KS(e), HexToBytes(e.ct), HexToBytes(e.ad))
         IN  IF e.panic THEN <<"DecryptDeterministically panicked", ToString(want[1])>>
             ELSE IF e.ok # want[1] THEN
                    IF want[1] THEN <<"valid ciphertext rejected", BytesToHex(want[2])>>
                    ELSE <<"accepted a (ciphertext, associated data) pair that RFC 5297 SIV-DECRYPT rejects", "FAIL">>
             ELSE IF e.ok /\ e.out # BytesToHex(want[2]) THEN <<"decryption returned a wrong plaintext", BytesToHex(want[2])>>
             ELSE <<>>
    [] e.ev = "xorend" ->
         LET want == BytesToHex(XorEndAndCompute(HexToBytes(e.key), HexToBytes(e.data), HexToBytes(e.last)))
         IN  IF e.panic THEN <<"XOREndAndCompute panicked", want>>
             ELSE IF e.err THEN <<"XOREndAndCompute failed on len(data) >= 16", want>>
             ELSE IF e.out # want THEN <<"XOREndAndCompute differs from CMAC(data xorend last)", want>>
             ELSE <<>>
    [] e.ev = "kat" ->                                   \* known-answer vector (Wycheproof): judges the reference
         LET key == HexToBytes(e.key)
             got == SIVDecrypt(key, Ads(e), HexToBytes(e.ct))
         IN  IF e.valid THEN
               IF BytesToHex(SIVEncrypt(key, Ads(e), HexToBytes(e.pt))) # e.ct THEN <<"SPEC: SIV-ENCRYPT differs from the vector", e.kind>>
               ELSE IF got # <<TRUE, HexToBytes(e.pt)>> THEN <<"SPEC: SIV-DECRYPT does not invert the vector", e.kind>>
               ELSE <<>>
             ELSE IF got[1] THEN <<"SPEC: SIV-DECRYPT accepts an invalid vector", e.kind>> ELSE <<>>
    [] OTHER -> <<"unknown event", e.ev>>

\* Every byte string handed to the real code lives in a driver buffer with sentinel-filled spare capacity and guard
\* zones; inIntact records that input bytes, spare capacity and guards were unchanged after the call(s) of the event.
\* A call that alters its input has not computed the standard value "for the caller's input": judged together with
\* the value.  (Known-answer events of the reference gate carry no inIntact.)
Judge(e) ==
  IF "inIntact" \in DOMAIN e /\ ~e.inIntact
  THEN <<"the call altered a buffer handed in by the caller (input bytes, spare capacity or guard zone)", "unchanged">>
  ELSE JudgeValue(e)

Start == IF "VERIF_START" \in DOMAIN IOEnv THEN atoi(IOEnv.VERIF_START) ELSE 1

Init == l = Start /\ bad = <<>>
Next == /\ l <= Len(Trace)
        /\ bad' = Judge(Trace[l])
        /\ l' = l + 1
Spec == Init /\ [][Next]_vars

Conforms == bad = <<>>
Consumed == TLCGet("stats").diameter = Len(Trace) + 2 - Start
================================================================================
