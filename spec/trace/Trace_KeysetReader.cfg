INIT TInit
NEXT TNext
INVARIANT Conforms
INVARIANT ModelInv
POSTCONDITION Consumed
CHECK_DEADLOCK FALSE
