INIT Init
NEXT Next
INVARIANT Conforms
POSTCONDITION AcceptedOrReport
CHECK_DEADLOCK FALSE
