---------------------------- MODULE Trace_KeysetReader ----------------------------
(* Trace validation for C07 at the keyset level: streamingaead.New(handle) over      *)
(* several real keys; every recorded Read of the wrapped primitive's reader          *)
(* (decrypt_reader.go) is matched against KeysetReader (sys/).                       *)
(* Events: reset [cands, writer], Stream [N, m, srcFail, len], Read.                 *)
(* Returned bytes are logged by their position in the plaintext (off; -1 = not a     *)
(* piece of the plaintext).  Mismatch classes as in Trace_Streaming.                 *)
EXTENDS KeysetReader, Json, IOUtils, TLC

Trace == ndJsonDeserialize(IOEnv.VERIF_TRACE)
Start == IF "VERIF_START" \in DOMAIN IOEnv THEN atoi(IOEnv.VERIF_START) ELSE 1

VARIABLES l, bad

ToCands(js) == [k \in 1..Len(js) |-> [P |-> js[k].P, T |-> js[k].T, Off |-> js[k].Off, Hdr |-> js[k].hdr, mk |-> k]]
ToManips(js) == [x \in 1..Len(js) |-> Manip(js[x].kind, js[x].at, js[x].n, js[x].i, js[x].j, js[x].perm)]
Script(e)    == Follow([x \in 1..Len(e.calls) |-> [n |-> e.calls[x].n, err |-> e.calls[x].err]])

Guard(e) ==
  CASE e.ev = "Stream" -> outcome = "start"
    [] e.ev = "Read"   -> outcome # "start" /\ KeysetRead(cands, kr, src, raad, e.n, Script(e)) # {}
    [] OTHER -> FALSE

Clean == outcome = "none" /\ src.failFrom = 0 /\ writer # 0 /\ ~KEffective
Data(e) == IF e.ret = 0 THEN <<>> ELSE IF e.off < 0 THEN Junk(0, e.ret) ELSE <<Run(PtSrc, e.off, e.off + e.ret)>>
Wants(log) == [x \in 1..Len(log) |-> log[x].want]
EvWants(e) == [x \in 1..Len(e.calls) |-> e.calls[x].want]

CmpRead(e, r2, gotPre) ==
  LET cls == IF Clean THEN "[property] " ELSE "[model] " IN
  IF e.panic THEN <<"[property] Read panicked", "no panic">>
  ELSE IF outcome # "none" THEN <<>>                       \* after the first non-nil result: not judged
  ELSE IF r2.err # e.err \/ r2.ret # e.ret \/ Data(e) # r2.data
    THEN IF e.err = "EOF" /\ ~Clean
           THEN <<"[property] clean end of stream although no key of the keyset made this ciphertext, it was manipulated, or the source failed", r2.err>>
         ELSE IF e.err = "nil" /\ e.ret > 0 /\ ~(e.off = RLen(gotPre) /\ e.off + e.ret <= plain)
           THEN <<"[property] bytes returned before any error are not the plaintext", ToString(<<r2.ret, r2.err>>)>>
         ELSE <<cls \o "Read result (n, err, data) differs from the specification", ToString(<<r2.ret, r2.err>>)>>
  ELSE IF EvWants(e) # Wants(r2.log)
    THEN <<"[model] sizes requested from the underlying reader differ from the specification", ToString(Wants(r2.log))>>
  ELSE <<>>

TInit ==
  /\ l = Start /\ bad = <<>>
  /\ cands = <<>> /\ writer = 0 /\ plain = 0 /\ manip = <<>> /\ raad = 0 /\ src = NewSource(<<>>, 0, "follow") /\ kr = NewKR
  /\ got = <<>> /\ outcome = "idle" /\ res = KRes("Init", 0, 0, "nil", <<>>, <<>>)

Reset(e) ==
  /\ bad' = <<>>
  /\ cands' = ToCands(e.cands) /\ writer' = e.writer /\ plain' = 0 /\ manip' = <<>> /\ raad' = 0
  /\ src' = NewSource(<<>>, 0, "follow") /\ kr' = NewKR
  /\ got' = <<>> /\ outcome' = "start" /\ res' = KRes("Init", 0, 0, "nil", <<>>, <<>>)

TNext ==
  /\ l <= Len(Trace)
  /\ l' = l + 1
  /\ LET e == Trace[l] IN
       IF e.ev = "reset" THEN Reset(e)
       ELSE IF e.ev = "Stream" /\ Guard(e)
         THEN /\ plain' = e.N
              /\ manip' = ToManips(e.m) /\ raad' = IF HasAad(ToManips(e.m)) THEN 1 ELSE 0
              /\ src' = NewSource(ApplyAll(WriterParams, ToManips(e.m), Canon(WriterParams, Session(WriterParams, 0), PlainText(e.N))),
                                  e.srcFail, "follow")
              /\ outcome' = "none" /\ res' = KRes("Tamper", 0, 0, "nil", <<>>, <<>>)
              /\ UNCHANGED <<cands, writer, kr, got>>
              /\ bad' = IF RLen(src'.rest) # e.len THEN <<"[property] length of the ciphertext differs from the documented format", ToString(RLen(src'.rest))>>
                        ELSE <<>>
       ELSE IF ~Guard(e)
         THEN /\ UNCHANGED kvars
              /\ bad' = IF e.ev = "Read" /\ outcome \notin {"none", "start", "idle"} THEN <<>>
                        ELSE <<"[model] call or its underlying calls impossible in the specification (guard false)", e.ev>>
         ELSE /\ KRead(e.n, Script(e))
              /\ bad' = CmpRead(e, res', got)

Conforms == bad = <<>>
ModelInv == outcome = "idle" \/ (KRoundTrip /\ KTamperDetected /\ KFaultSurfaces)
Consumed == TLCGet("stats").diameter = Len(Trace) + 2 - Start
================================================================================
