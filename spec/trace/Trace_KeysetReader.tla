---------------------------- MODULE Trace_KeysetReader ----------------------------
(* Trace validation for C07 at the keyset level: streamingaead.New(handle) over      *)
(* several real keys; every recorded Read of the wrapped primitive's reader          *)
(* (decrypt_reader.go) is matched against KeysetReader (sys/).                       *)
(* Events: reset [cands, writer], Setup (only when setting up failed), Stream [N, m, *)
(* srcFail, len], Read, end.                                                         *)
(* Returned bytes are logged by their position in the plaintext (off; -1 = not a     *)
(* piece of the plaintext).  Two judgements per event and the mismatch classes as in *)
(* Trace_Streaming: the property on the observed behaviour (obs), and conformance    *)
(* with the model's action ([model] mismatches are reported at the `end` event).     *)
EXTENDS KeysetReader, Json, IOUtils, TLC

Trace == ndJsonDeserialize(IOEnv.VERIF_TRACE)
Start == IF "VERIF_START" \in DOMAIN IOEnv THEN atoi(IOEnv.VERIF_START) ELSE 1

VARIABLES l, bad,
          obs     \* observed in this scenario: [got, out, srcErr, interfered, note]

NoObs == [got |-> 0, out |-> "none", srcErr |-> FALSE, interfered |-> FALSE, note |-> <<>>]
Mis(cls, msg, exp) == <<cls, msg, exp>>
ToBad(c) == IF c = <<>> THEN <<>> ELSE <<c[1] \o " " \o c[2], c[3]>>

ToCands(js) == [k \in 1..Len(js) |-> [P |-> js[k].P, T |-> js[k].T, Off |-> js[k].Off, Hdr |-> js[k].hdr, mk |-> k]]
ToManips(js) == [x \in 1..Len(js) |-> Manip(js[x].kind, js[x].at, js[x].n, js[x].i, js[x].j, js[x].perm)]
Script(e)    == Follow([x \in 1..Len(e.calls) |-> [n |-> e.calls[x].n, err |-> e.calls[x].err]])
SrcErrSeen(calls) == \E x \in 1..Len(calls) : calls[x].err = "ERR"

Guard(e) ==
  CASE e.ev = "Stream" -> outcome = "start"
    [] e.ev = "Read"   -> outcome \notin {"start", "idle"} /\ KeysetRead(cands, kr, src, raad, e.n, Script(e)) # {}
    [] OTHER -> FALSE

(***** (1) the property on the observed behaviour *****)
Prop(e) ==
  IF e.ev # "Read" THEN <<>>
  ELSE IF e.panic THEN Mis("[property]", "Read panicked", "no panic")
  ELSE IF obs.out # "none" THEN <<>>
  ELSE LET interfered == obs.interfered \/ obs.srcErr \/ SrcErrSeen(e.calls) IN
    IF e.err = "EOF" /\ interfered
      THEN Mis("[property]", "clean end of stream although no key of the keyset made this ciphertext, it was manipulated, or the source failed", "ERR")
    ELSE IF e.err = "EOF" /\ obs.got # plain
      THEN Mis("[property]", "end of stream before the whole plaintext was returned", ToString(plain))
    ELSE IF e.err = "ERR" /\ ~interfered
      THEN Mis("[property]", "Read fails although a key of the keyset made this ciphertext, it is untouched and the source did not fail", "nil")
    ELSE IF e.err = "nil" /\ e.ret > 0 /\ ~(e.off = obs.got /\ e.off + e.ret <= plain)
      THEN Mis("[property]", "bytes returned before any error are not the plaintext", ToString(obs.got))
    ELSE <<>>

Observe(e, note) ==
  [got        |-> IF e.ev = "Read" /\ obs.out = "none" /\ e.err = "nil" THEN obs.got + e.ret ELSE obs.got,
   out        |-> IF e.ev = "Read" /\ obs.out = "none" /\ e.err # "nil" THEN e.err ELSE obs.out,
   srcErr     |-> obs.srcErr \/ (e.ev = "Read" /\ SrcErrSeen(e.calls)),
   interfered |-> obs.interfered,
   note       |-> note]

(***** (2) conformance with the model *****)
Clean == outcome = "none" /\ src.failFrom = 0 /\ writer # 0 /\ ~KEffective
Data(e) == IF e.ret = 0 THEN <<>> ELSE IF e.off < 0 THEN Junk(0, e.ret) ELSE <<Run(PtSrc, e.off, e.off + e.ret)>>
Wants(log) == [x \in 1..Len(log) |-> log[x].want]
EvWants(e) == [x \in 1..Len(e.calls) |-> e.calls[x].want]

CmpRead(e, r2) ==
  LET cls == IF Clean THEN "[property]" ELSE "[model]" IN
  IF outcome # "none" THEN <<>>                       \* after the first non-nil result: not judged
  ELSE IF r2.err # e.err \/ r2.ret # e.ret \/ Data(e) # r2.data
    THEN Mis(cls, "Read result (n, err, data) differs from the specification", ToString(<<r2.ret, r2.err>>))
  ELSE IF EvWants(e) # Wants(r2.log)
    THEN Mis("[model]", "sizes requested from the underlying reader differ from the specification", ToString(Wants(r2.log)))
  ELSE <<>>

TInit ==
  /\ l = Start /\ bad = <<>> /\ obs = NoObs
  /\ cands = <<>> /\ writer = 0 /\ plain = 0 /\ manip = <<>> /\ raad = 0 /\ src = NewSource(<<>>, 0, "follow") /\ kr = NewKR
  /\ got = <<>> /\ outcome = "idle" /\ res = KRes("Init", 0, 0, "nil", <<>>, <<>>)

Reset(e) ==
  /\ bad' = <<>> /\ obs' = NoObs
  /\ cands' = ToCands(e.cands) /\ writer' = e.writer /\ plain' = 0 /\ manip' = <<>> /\ raad' = 0
  /\ src' = NewSource(<<>>, 0, "follow") /\ kr' = NewKR
  /\ got' = <<>> /\ outcome' = "start" /\ res' = KRes("Init", 0, 0, "nil", <<>>, <<>>)

\* the Stream event: the ciphertext of e.N bytes made with candidate `writer`, manipulated as logged
StreamStep(e) ==
  LET ms == ToManips(e.m)
      au == Canon(WriterParams, Session(WriterParams, 0), PlainText(e.N))
  IN /\ plain' = e.N /\ manip' = ms /\ raad' = IF HasAad(ms) THEN 1 ELSE 0
     /\ src' = NewSource(ApplyAll(WriterParams, ms, au), e.srcFail, "follow")
     /\ outcome' = "none" /\ res' = KRes("Tamper", 0, 0, "nil", <<>>, <<>>)
     /\ UNCHANGED <<cands, writer, kr, got>>
     /\ bad' = IF RLen(src'.rest) # e.len
                 THEN <<"[property] length of the ciphertext differs from the documented format", ToString(RLen(src'.rest))>> ELSE <<>>
     /\ obs' = [obs EXCEPT !.interfered = writer = 0 \/ HasAad(ms) \/ ApplyAll(WriterParams, ms, au) # au]

TNext ==
  /\ l <= Len(Trace)
  /\ l' = l + 1
  /\ LET e == Trace[l] IN
       IF e.ev = "reset" THEN Reset(e)
       ELSE IF e.ev = "end"
         THEN /\ UNCHANGED kvars /\ bad' = ToBad(obs.note) /\ obs' = [obs EXCEPT !.note = <<>>]
       ELSE IF e.ev = "Setup"       \* building the primitives, encrypting with the primary, or NewDecryptingReader did not
         THEN /\ UNCHANGED kvars     \* go as for legal keys: streamingaead.New / the key type refused, or the constructor did I/O
              /\ bad' = IF e.err THEN <<"[property] a keyset of legal streaming-AEAD keys is refused or cannot encrypt / open a reader", e.what>>
                        ELSE <<"[model] NewDecryptingReader of the wrapped primitive reads from the source", e.what>>
              /\ obs' = obs
       ELSE IF e.ev = "Stream" /\ Guard(e) THEN StreamStep(e)
       ELSE LET g == Guard(e)
                p == Prop(e)
                c == IF p # <<>> THEN p
                     ELSE IF obs.note # <<>> THEN <<>>
                     ELSE IF ~g THEN (IF e.ev = "Read" /\ outcome \notin {"none", "start", "idle"} THEN <<>>
                                      ELSE Mis("[model]", "call or its underlying calls impossible in the specification (guard false)", e.ev))
                     ELSE CmpRead(e, res')
                deferred == c # <<>> /\ c[1] = "[model]"
            IN /\ (IF g THEN KRead(e.n, Script(e)) ELSE UNCHANGED kvars)
               /\ bad' = IF deferred THEN <<>> ELSE ToBad(c)
               /\ obs' = Observe(e, IF deferred THEN c ELSE obs.note)

Conforms == bad = <<>>
ModelInv == outcome = "idle" \/ (KRoundTrip /\ KTamperDetected /\ KFaultSurfaces)
Consumed == TLCGet("stats").diameter = Len(Trace) + 2 - Start
================================================================================
