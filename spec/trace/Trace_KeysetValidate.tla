------------------------- MODULE Trace_KeysetValidate -------------------------
(* Trace validation for C14.  Every recorded event is what REAL handle construction  *)
(* did with one input; the verdicts are KeysetValidate's:                             *)
(*   load  - a structured keyset (described as the wire carries it: enum NUMBERS,     *)
(*           ids) pushed through every entry point: a keyset the rule rejects must    *)
(*           be rejected; an accepted handle must be well-formed; no panic; a         *)
(*           created primitive must be self-consistent.                               *)
(*   key   - one key (proto field values as observed in the submitted message):       *)
(*           the same, plus: below the minimum strengths => never a usable primitive. *)
(*   bytes - arbitrary bytes / text: no specified verdict, only safety (no panic,     *)
(*           an accepted handle is well-formed, primitives self-consistent).          *)
EXTENDS KeysetValidate, KeysetKeyTypes, SequencesExt, Json, IOUtils, TLC

Trace == ndJsonDeserialize(IOEnv.VERIF_TRACE)
Start == IF "VERIF_START" \in DOMAIN IOEnv THEN atoi(IOEnv.VERIF_START) ELSE 1

VARIABLES l, bad
vars == <<l, bad>>

\* the logged keyset -> the abstract keyset of KeysetValidate (ids stay 8-hex-digit strings)
AbsKey(k) == [nil |-> k.nil, id |-> k.id, status |-> StatusOfNumber(k.status), prefix |-> PrefixOfNumber(k.prefix),
              data |-> k.data]
AbsKeyset(c) == [nil |-> c.nil, primary |-> c.primary, keys |-> [i \in DOMAIN c.keys |-> AbsKey(c.keys[i])]]
\* what the real handle showed -> the projection WellFormed talks about
AbsHandle(h) == [i \in DOMAIN h |-> [id |-> h[i].id, status |-> StatusOfNumber(h[i].status),
                                      prefix |-> PrefixOfNumber(h[i].prefix), primary |-> h[i].primary]]

First(s) == LET nz == SelectSeq(s, LAMBDA x : x # <<>>) IN IF nz = <<>> THEN <<>> ELSE nz[1]

PrimBad(p, exempt) ==
  IF p.panic THEN <<"panic while creating or using a primitive from an accepted handle", p.where>>
  ELSE IF ~exempt /\ ~KVSelfConsistent(p) THEN <<"a created primitive is not self-consistent (round trip / verification of its own output failed)", p.kind>>
  ELSE <<>>

\* safety of one outcome, whatever the input was
SafeOutcome(g, exempt) ==
  IF g.out = "panic" THEN <<"panic in handle construction", g.where>>
  ELSE IF g.out = "handle" THEN
    LET h == AbsHandle(g.h) IN
    IF WellFormedWhy(h) # "ok" THEN <<WellFormedWhy(h), ToString(h)>>
    ELSE IF \E i \in DOMAIN h : h[i].primary /\ h[i].id # g.hp THEN <<"Handle.Primary() is not the entry flagged primary", g.hp>>
    ELSE PrimBad(g.prim, exempt)
  ELSE <<>>

JudgeLoadGroup(ks, g) ==
  IF g.out = "handle" /\ \E i \in DOMAIN g.entries : ~Valid(Seen(g.entries[i], ks))
  THEN LET i == CHOOSE i \in DOMAIN g.entries : ~Valid(Seen(g.entries[i], ks))
       IN <<"a keyset the rule rejects was accepted", g.entries[i], ValidAsCoded(Seen(g.entries[i], ks))>>
  ELSE SafeOutcome(g, FALSE)

JudgeKeyGroup(e, g) ==
  LET d == KTDescribe(e.obs) IN
  IF g.out = "handle" /\ KVBelowMinimum(d) /\ g.prim.created /\ g.prim.produced /\ ~g.prim.panic
  THEN <<"a key below the minimum strength yielded a usable primitive", KVBelowWhy(d), ToString(d)>>
  ELSE SafeOutcome(g, KVConsistencyExempt(d))

Judge(e) ==
  CASE e.ev = "load"  -> LET ks == AbsKeyset(e.ks) IN First([i \in DOMAIN e.outs |-> JudgeLoadGroup(ks, e.outs[i])])
    [] e.ev = "key"   -> First([i \in DOMAIN e.outs |-> JudgeKeyGroup(e, e.outs[i])])
    [] e.ev = "bytes" -> First([i \in DOMAIN e.outs |-> SafeOutcome(e.outs[i], FALSE)])
    [] OTHER -> <<"unknown event", e.ev>>

Init == l = Start /\ bad = <<>>
Next == /\ l <= Len(Trace)
        /\ bad' = Judge(Trace[l])
        /\ l' = l + 1
Spec == Init /\ [][Next]_vars

Conforms == bad = <<>>
Consumed == TLCGet("stats").diameter = Len(Trace) + 2 - Start
================================================================================
