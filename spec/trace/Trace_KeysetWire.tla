----------------------------- MODULE Trace_KeysetWire -----------------------------
(* X06: every recorded call of a real keyset writer / reader is judged against module       *)
(* KeysetWire.                                                                            *)
(*                                                                                        *)
(*  write  a real writer was given keyset ks (mode raw: Writer.Write(proto); clear:          *)
(*         insecurecleartextkeyset.Write(handle); nosecrets / refuse: WriteWithNoSecrets;     *)
(*         enc / encad: Handle.Write / WriteWithAssociatedData under the toy AEAD) and         *)
(*         produced out (binary) / the JSON text whose value is tree (the driver's parse).     *)
(*  wenc   WriteEncrypted was given the EncryptedKeyset e.                                    *)
(*  read   a real reader's Read / ReadEncrypted was given the octets in / the JSON text of      *)
(*         value tree in shape shape (the text is recomputed here) and answered err or the      *)
(*         projection ks / e of the proto it returned.                                          *)
(*  hread  the same through insecurecleartextkeyset.Read / keyset.ReadWithAssociatedData.        *)
(*  handle whether a handle could be made of a case's keyset.                                    *)
(*                                                                                        *)
(* Verdict classes.  A reason without prefix contradicts the DOCUMENTED format (tink.proto in    *)
(* the protobuf encoding / the ProtoJSON mapping): violation.  "EXPECTATION: ..." is an           *)
(* as-built choice or a coverage expectation (exit 2, model out of date).  "INSTANTIATION: ..."    *)
(* means the driver did not do what the case says.                                               *)
EXTENDS KeysetWireCases, Json, CSV, IOUtils

Trace == ndJsonDeserialize(IOEnv.VERIF_TRACE)

VARIABLES l, bad
vars == <<l, bad>>

Hex(b) == BytesToHex(b)
\* the octets under the toy AEAD
Opened(ct, ad) == ToyOpen(ct, ad)

\* ------------------------------------------------------------------ writers
\* the documented part: the artifact is in the format and stands for the keyset written, spelled as a serializer spells
\* it; the as-built part: THE canonical artifact (field order, defaults, member order, which optional parts are there)
JudgeWriteBin(e, ks) ==
  LET o == HexToBytes(e.out)
      d == DecodeBin(o)
  IN IF ~d.ok THEN <<"the binary writer's octets are not a protobuf encoding of a Keyset", d.why>>
     ELSE IF d.v # ks THEN <<"the binary writer's octets stand for another keyset", Hex(EncodeBin(ks))>>
     ELSE IF o # EncodeBin(ks) THEN <<"EXPECTATION: the binary writer's octets are the canonical encoding", Hex(EncodeBin(ks))>>
     ELSE <<>>
JudgeWriteJson(e, ks) ==
  IF ~e.parseOK THEN <<"the JSON writer's text is not a JSON text", "JSON">>
  ELSE LET t == JLift(e.tree)
           d == DecodeJson(t)
       IN IF ~d.ok THEN <<"the JSON writer's value is not the ProtoJSON form of a Keyset", d.why>>
          ELSE IF d.v # ks THEN <<"the JSON writer's value stands for another keyset", Hex(JText(EncodeJson(ks), FALSE))>>
          ELSE IF d.notes \ SerializerNotes(UnnamedEnums(ks)) # {} THEN <<"the JSON writer does not spell the value as a ProtoJSON serializer does", ToString(d.notes)>>
          ELSE IF t # EncodeJson(ks) THEN <<"EXPECTATION: the JSON writer writes every member, in field order", Hex(JText(EncodeJson(ks), FALSE))>>
          ELSE <<>>
\* an encrypted keyset: the envelope, what is inside under the toy AEAD, and the KeysetInfo next to it
JudgeEnvelope(x, ks, ad, infoWanted) ==
  LET pt == Opened(x.enc, ad)
      d == IF pt.ok THEN DecodeBin(pt.pt) ELSE Bad("")
  IN IF ~pt.ok THEN <<"encrypted_keyset is not what the key-encryption AEAD returned", "AEAD output">>
     ELSE IF ~d.ok THEN <<"the encrypted octets are not a protobuf encoding of a Keyset", d.why>>
     ELSE IF d.v # ks THEN <<"the encrypted octets stand for another keyset", Hex(EncodeBin(ks))>>
     ELSE IF x.info.has /\ x.info # InfoOf(ks) THEN <<"keyset_info does not describe the keyset (tink.proto: fields copied from Keyset)", ToString(InfoOut(InfoOf(ks)))>>
     ELSE IF pt.pt # EncodeBin(ks) THEN <<"EXPECTATION: the encrypted octets are the canonical encoding", Hex(EncodeBin(ks))>>
     ELSE IF x.info.has # infoWanted THEN <<"EXPECTATION: the JSON writer writes keyset_info, the binary writer drops it", ToString(infoWanted)>>
     ELSE <<>>
JudgeWriteEncBin(e, ks) ==
  LET o == HexToBytes(e.out)
      d == DecodeBinEnc(o)
  IN IF ~d.ok THEN <<"the binary writer's octets are not a protobuf encoding of an EncryptedKeyset", d.why>>
     ELSE LET j == JudgeEnvelope(d.v, ks, HexToBytes(e.ad), FALSE) IN
          IF j # <<>> THEN j
          ELSE IF o # EncodeBinEnc(d.v) THEN <<"EXPECTATION: the binary writer's octets are the canonical encoding", Hex(EncodeBinEnc(d.v))>>
          ELSE <<>>
JudgeWriteEncJson(e, ks) ==
  IF ~e.parseOK THEN <<"the JSON writer's text is not a JSON text", "JSON">>
  ELSE LET t == JLift(e.tree)
           d == DecodeJsonEnc(t)
       IN IF ~d.ok THEN <<"the JSON writer's value is not the ProtoJSON form of an EncryptedKeyset", d.why>>
          ELSE IF d.notes \ SerializerNotes(UnnamedEnumsInfo(d.v.info)) # {} THEN <<"the JSON writer does not spell the value as a ProtoJSON serializer does", ToString(d.notes)>>
          ELSE LET j == JudgeEnvelope(d.v, ks, HexToBytes(e.ad), TRUE) IN
               IF j # <<>> THEN j
               ELSE IF t # EncodeJsonEnc(d.v) THEN <<"EXPECTATION: the JSON writer writes every member, in field order", Hex(JText(EncodeJsonEnc(d.v), FALSE))>>
               ELSE <<>>

JudgeWrite(e) ==
  LET ks == KsIn(e.ks) IN
  IF e.panic THEN <<"a keyset writer panicked", "no panic">>
  ELSE IF e.mode = "refuse"
    THEN IF ~HasSecrets(ks) THEN <<"INSTANTIATION: mode refuse is for keysets with secret key material", e.lab>>
         ELSE IF ~e.err THEN <<"WriteWithNoSecrets wrote secret key material", "error">>
         ELSE IF e.out # "" THEN <<"WriteWithNoSecrets refused but wrote something", "nothing">>
         ELSE <<>>
  ELSE IF e.mode = "nosecrets" /\ HasSecrets(ks) THEN <<"NewHandleWithNoSecrets accepted secret key material", "error">>
  ELSE IF e.err THEN <<"EXPECTATION: writing a keyset does not fail", e.mode>>
  ELSE IF e.mode \in {"enc", "encad"} THEN (IF e.fmt = "bin" THEN JudgeWriteEncBin(e, ks) ELSE JudgeWriteEncJson(e, ks))
  ELSE IF e.fmt = "bin" THEN JudgeWriteBin(e, ks) ELSE JudgeWriteJson(e, ks)

JudgeWenc(e) ==
  LET x == EncIn(e.e) IN
  IF e.panic THEN <<"WriteEncrypted panicked", "no panic">>
  ELSE IF e.err THEN <<"EXPECTATION: writing an EncryptedKeyset does not fail", "">>
  ELSE IF e.fmt = "bin"
    THEN LET o == HexToBytes(e.out)
             d == DecodeBinEnc(o)
         IN IF ~d.ok THEN <<"the binary writer's octets are not a protobuf encoding of an EncryptedKeyset", d.why>>
            ELSE IF d.v.enc # x.enc THEN <<"the binary writer's octets carry another encrypted_keyset", Hex(x.enc)>>
            ELSE IF d.v.info.has /\ d.v.info # x.info THEN <<"the binary writer's octets carry another keyset_info", ToString(InfoOut(x.info))>>
            ELSE IF o # EncodeBinEnc([x EXCEPT !.info = NoInfo]) THEN <<"EXPECTATION: the binary writer drops keyset_info and writes the canonical encoding", Hex(EncodeBinEnc([x EXCEPT !.info = NoInfo]))>>
            ELSE <<>>
    ELSE IF ~e.parseOK THEN <<"the JSON writer's text is not a JSON text", "JSON">>
    ELSE LET t == JLift(e.tree)
             d == DecodeJsonEnc(t)
         IN IF ~d.ok THEN <<"the JSON writer's value is not the ProtoJSON form of an EncryptedKeyset", d.why>>
            ELSE IF d.v # x THEN <<"the JSON writer's value stands for another EncryptedKeyset", Hex(JText(EncodeJsonEnc(x), FALSE))>>
            ELSE IF d.notes \ SerializerNotes(UnnamedEnumsInfo(x.info)) # {} THEN <<"the JSON writer does not spell the value as a ProtoJSON serializer does", ToString(d.notes)>>
            ELSE IF t # EncodeJsonEnc(x) THEN <<"EXPECTATION: the JSON writer writes every member, in field order", Hex(JText(EncodeJsonEnc(x), FALSE))>>
            ELSE <<>>

\* ------------------------------------------------------------------ readers
\* what the format says about an input: [ok, v, notes, why] (v: a Keyset or an EncryptedKeyset)
InputInstantiation(e) ==
  IF e.fmt = "json" /\ JShapeText(e.shape, JLift(e.tree)) # HexToBytes(e.text) THEN <<"INSTANTIATION: the text is not the text of the JSON value", e.lab>> ELSE <<>>
Meaning(e, encrypted) ==
  IF e.fmt = "bin" THEN (IF encrypted THEN DecodeBinEnc(HexToBytes(e.in)) ELSE DecodeBin(HexToBytes(e.in)))
  ELSE (IF encrypted THEN DecodeJsonEncText(e.shape, JLift(e.tree)) ELSE DecodeJsonText(e.shape, JLift(e.tree)))
AsBuiltNotes(e) == IF e.fmt = "bin" THEN BinAsBuiltNotes ELSE JsonParserNotes \cup JsonAsBuiltNotes
DocWhy(e) == IF e.fmt = "bin" THEN {"malformed"} ELSE JsonDocWhy
Class(e, d) == IF d.ok THEN (IF d.notes \cap AsBuiltNotes(e) = {} THEN "accept" ELSE "accept*")
               ELSE (IF d.why \in DocWhy(e) THEN "reject" ELSE "reject*")

JudgeRead(e) ==
  LET encrypted == e.api = "ReadEncrypted"
      d == Meaning(e, encrypted)
      c == Class(e, d)
      got == IF encrypted THEN EncIn(e.e) ELSE KsIn(e.ks)
      inst == InputInstantiation(e)
  IN IF inst # <<>> THEN inst
     ELSE IF e.panic THEN <<"a keyset reader panicked", c>>
     ELSE CASE c = "accept" -> IF e.err THEN <<"the reader refused an input of the documented format", "accept">>
                               ELSE IF got # d.v THEN <<"the reader returned another value than the input stands for", ToString(IF encrypted THEN EncOut(d.v) ELSE KsOut(d.v))>>
                               ELSE <<>>
            [] c = "accept*" -> IF e.err THEN <<"EXPECTATION: as-built leniency", ToString(d.notes)>>
                                ELSE IF got # d.v THEN <<"EXPECTATION: as-built reading of a lenient spelling", ToString(IF encrypted THEN EncOut(d.v) ELSE KsOut(d.v))>>
                                ELSE <<>>
            [] c = "reject" -> IF e.err THEN <<>> ELSE <<"the reader accepted an input that stands for no value of the format", d.why>>
            [] c = "reject*" -> IF e.err THEN <<>> ELSE <<"EXPECTATION: as-built refusal", d.why>>

\* through a handle: the cases are keysets a handle can be made of, so the format decides
JudgeHread(e) ==
  LET d == Meaning(e, e.enc)
      inst == InputInstantiation(e)
      pt == IF e.enc /\ d.ok THEN Opened(d.v.enc, HexToBytes(e.ad)) ELSE [ok |-> FALSE, pt |-> <<>>]
      inner == IF ~e.enc THEN d ELSE IF pt.ok THEN DecodeBin(pt.pt) ELSE Bad("aead")
      c == IF ~d.ok THEN Class(e, d)
           ELSE IF ~inner.ok THEN "reject"
           ELSE IF (d.notes \cap AsBuiltNotes(e)) \cup (inner.notes \cap BinAsBuiltNotes) # {} THEN "accept*" ELSE "accept"
  IN IF inst # <<>> THEN inst
     ELSE IF e.panic THEN <<"reading a keyset handle panicked", c>>
     ELSE IF c \in {"reject", "reject*"}
       THEN IF e.err THEN <<>>
            ELSE IF c = "reject" THEN <<"a handle was made of an input that stands for no keyset", IF d.ok THEN inner.why ELSE d.why>>
            ELSE <<"EXPECTATION: as-built refusal", d.why>>
     ELSE IF ~HandleOK(inner.v) THEN (IF e.err THEN <<>> ELSE <<"EXPECTATION: keyset.Validate refuses the keyset (C14)", "error">>)
     ELSE IF e.err THEN (IF c = "accept" THEN <<"a keyset of the documented format was refused", "accept">> ELSE <<"EXPECTATION: as-built leniency", ToString(d.notes \cup inner.notes)>>)
     ELSE IF KsIn(e.ks) # inner.v
       THEN (IF c = "accept" THEN <<"the handle holds another keyset than the input stands for", ToString(KsOut(inner.v))>>
             ELSE <<"EXPECTATION: as-built reading of a lenient spelling", ToString(KsOut(inner.v))>>)
     ELSE <<>>

JudgeHandle(e) ==
  IF HandleOK(KsIn(e.ks)) = ~e.err THEN <<>>
  ELSE <<"EXPECTATION: a handle can be made of exactly the keysets the cases say (keyset.Validate, C14)", ToString(HandleOK(KsIn(e.ks)))>>

Judge(e) ==
  CASE e.ev = "write" -> JudgeWrite(e)
    [] e.ev = "wenc" -> JudgeWenc(e)
    [] e.ev = "read" -> JudgeRead(e)
    [] e.ev = "hread" -> JudgeHread(e)
    [] e.ev = "handle" -> JudgeHandle(e)
    [] OTHER -> <<"unknown event", e.ev>>

\* With VERIF_STATS set: the class the specification puts every read in, with what it used (for the observations of the evidence)
Stat(e) ==
  IF e.ev \in {"read", "hread"}
  THEN LET d == Meaning(e, IF e.ev = "read" THEN e.api = "ReadEncrypted" ELSE e.enc) IN
       [ev |-> e.ev, fmt |-> e.fmt, lab |-> e.lab, class |-> Class(e, d), notes |-> SetToSeq(d.notes), why |-> d.why, err |-> e.err]
  ELSE [ev |-> e.ev, fmt |-> IF e.ev = "handle" THEN "" ELSE e.fmt, lab |-> e.lab, class |-> IF e.ev = "handle" THEN "" ELSE IF e.ev = "wenc" THEN "wenc" ELSE e.mode,
        notes |-> <<>>, why |-> "", err |-> e.err]
Stats == "VERIF_STATS" \in DOMAIN IOEnv

Start == IF "VERIF_START" \in DOMAIN IOEnv THEN atoi(IOEnv.VERIF_START) ELSE 1
Init == l = Start /\ bad = <<>>
Next == /\ l <= Len(Trace)
        /\ bad' = Judge(Trace[l])
        /\ Stats => CSVWrite("%1$s", <<ToJson([i |-> l, s |-> Stat(Trace[l])])>>, IOEnv.VERIF_TRACE \o ".stats")
        /\ l' = l + 1
Spec == Init /\ [][Next]_vars

Conforms == bad = <<>>
Consumed == TLCGet("stats").diameter = Len(Trace) + 2 - Start
================================================================================
