----------------------------- MODULE Trace_SLHDSA -----------------------------
(* Trace validation for C16: every recorded call of Tink's SLH-DSA code (internal *)
(* package through the verif hooks, public keyset API) is judged against the      *)
(* FIPS 205 reference in spec/pq (SLHDSA.tla and the modules it extends).  Events *)
(* are independent.  Known-answer events (route "kat": vectors embedded in the    *)
(* repository's tests, read as data) go through the same Judge (bin/selfspec).    *)
EXTENDS SLHDSA, OutputPrefix, Json, IOUtils, TLC

Trace == ndJsonDeserialize(IOEnv.VERIF_TRACE)

VARIABLES l, bad
vars == <<l, bad>>

\* ---------------------------------------------------------------- helpers
Hex(b) == BytesToHex(b)
Lesser(a, b) == IF a < b THEN a ELSE b
U16(ds) == Cat([i \in 1..Len(ds) |-> toByte(ds[i], 2)])          \* digits as 2-byte big-endian values
FirstDiff(a, b) == FoldLeft(LAMBDA acc, i : IF acc = 0 /\ a[i] # b[i] THEN i ELSE acc, 0,
                            [i \in 1..Lesser(Len(a), Len(b)) |-> i])
\* <<reason, where, expected block>> for two byte strings that should be equal
Differ(reason, got, want, blk) ==
  IF Len(got) # Len(want) THEN <<reason, "length", ToString(Len(want))>>
  ELSE LET i == FirstDiff(got, want)
           o == ((i - 1) \div blk) * blk
       IN  <<reason, "first differing byte offset " \o ToString(i - 1) \o "; expected block at offset " \o ToString(o),
             Hex(SubSeq(want, o + 1, Lesser(o + blk, Len(want))))>>

\* ---------------------------------------------------------------- keys
JudgeKeygen(e) ==
  LET p     == ParamSet(e.ps)
      n     == p.n
      sk    == HexToBytes(e.sk)
      pk    == HexToBytes(e.pk)
      seeds == IF e.seeds = "" THEN SubSeq(sk, 1, 3 * n) ELSE HexToBytes(e.seeds)
  IN  IF e.panic THEN <<"key generation panicked">>
      ELSE IF Len(sk) # SkLen(p) \/ Len(pk) # PkLen(p) THEN <<"key length", ToString(SkLen(p)), ToString(PkLen(p))>>
      ELSE IF SubSeq(sk, 1, 3 * n) # seeds THEN <<"secret key is not SK.seed || SK.prf || PK.seed || PK.root of the given seeds", Hex(seeds)>>
      ELSE IF pk # SubSeq(sk, 2 * n + 1, 4 * n) THEN <<"public key is not the PK.seed || PK.root of the secret key", Hex(SubSeq(sk, 2 * n + 1, 4 * n))>>
      ELSE IF ~e.full THEN <<>>
      ELSE LET kp == slh_keygen_internal(p, SubSeq(seeds, 1, n), SubSeq(seeds, n + 1, 2 * n), SubSeq(seeds, 2 * n + 1, 3 * n))
           IN  IF sk # EncodeSK(kp.sk) \/ pk # EncodePK(kp.pk)
               THEN <<"PK.root differs from slh_keygen_internal: xmss_node(SK.seed, 0, h', PK.seed, layer d-1)", Hex(kp.pk.root)>>
               ELSE <<>>

\* ---------------------------------------------------------------- signing
JudgeSign(e) ==
  LET p    == ParamSet(e.ps)
      SK   == DecodeSK(p, HexToBytes(e.sk))
      PK   == PKofSK(SK)
      M    == HexToBytes(e.msg)
      ctx  == HexToBytes(e.ctx)
      full == HexToBytes(e.sig)
      pre  == Prefix(e.variant, HexToBytes(e.id))
      sig  == Drop(full, Len(pre))
      Mp   == PureMsg(ctx, M)
  IN  IF e.panic THEN <<"Sign panicked">>
      ELSE IF e.err THEN (IF Len(ctx) > 255 THEN <<>> ELSE <<"Sign failed on a valid key, message and context">>)
      ELSE IF Len(ctx) > 255 THEN <<"Sign accepted a context longer than 255 bytes">>
      ELSE IF HexToBytes(e.pk) # EncodePK(PK) THEN <<"public key of the signing key is not its PK.seed || PK.root", Hex(EncodePK(PK))>>
      ELSE IF ~IsPrefixOf(pre, full) THEN <<"signature does not start with the output prefix", Hex(pre)>>
      ELSE IF Len(sig) # SigLen(p) THEN <<"signature length", ToString(SigLen(p))>>
      ELSE IF ~e.same THEN <<"SignDeterministic returned two different signatures">>
      ELSE IF e.det /\ e.mode = "full" THEN
             LET want == slh_sign_deterministic(p, M, ctx, SK)
             IN  IF sig = want THEN <<>> ELSE Differ("deterministic signature differs from slh_sign(M, ctx, SK) with opt_rand = PK.seed", sig, want, p.n)
      ELSE IF e.det /\ e.mode = "piece" THEN
             IF PieceOK(p, Mp, SK, SK.pkseed, sig, e.piece) THEN <<>>
             ELSE <<"deterministic signature differs from the reference in piece (0: R || SIG_FORS, j+1: XMSS layer j)", ToString(e.piece)>>
      ELSE IF e.det /\ SigR(p, sig) # PRF_msg(p, SK.prf, SK.pkseed, Mp) THEN
             <<"R differs from PRF_msg(SK.prf, PK.seed, M')", Hex(PRF_msg(p, SK.prf, SK.pkseed, Mp))>>
      ELSE IF ~CheapPartsOK(p, H_msg(p, SigR(p, sig), PK.seed, PK.root, Mp), SK, sig) THEN
             (IF slh_verify(p, M, sig, ctx, PK)
              THEN <<"signature verifies but a FORS secret value or a WOTS+ signature in it is not the one of SK.seed">>
              ELSE <<"a signature produced by Sign does not verify under FIPS 205 slh_verify">>)
      ELSE <<>>

JudgeSignInternal(e) ==
  LET p   == ParamSet(e.ps)
      SK  == DecodeSK(p, HexToBytes(e.sk))
      M   == HexToBytes(e.msg)
      rnd == HexToBytes(e.addrnd)
      sig == HexToBytes(e.sig)
  IN  IF e.panic THEN <<"signInternal panicked">>
      ELSE IF e.err THEN <<"signInternal failed">>
      ELSE IF Len(sig) # SigLen(p) THEN <<"signature length", ToString(SigLen(p))>>
      ELSE IF SigR(p, sig) # PRF_msg(p, SK.prf, rnd, M) THEN <<"R differs from PRF_msg(SK.prf, addrnd, M)", Hex(PRF_msg(p, SK.prf, rnd, M))>>
      ELSE IF e.full THEN
             LET want == slh_sign_internal(p, M, SK, rnd)
             IN  IF sig = want THEN <<>> ELSE Differ("signature differs from slh_sign_internal(M, SK, addrnd)", sig, want, p.n)
      ELSE IF ~CheapPartsOK(p, H_msg(p, SigR(p, sig), SK.pkseed, SK.pkroot, M), SK, sig) THEN
             <<"slh_sign_internal output does not verify under slh_verify_internal, or a FORS secret value / WOTS+ signature is not the one of SK.seed">>
      ELSE <<>>

\* Signing / verifying with a forced digest (hook: H_msg returns e.digest, PRF_msg returns e.r; F, H, T_l, PRF real):
\* the part of Algorithms 19 / 20 after the digest is computed.
JudgeSignDigest(e) ==
  LET p   == ParamSet(e.ps)
      SK  == DecodeSK(p, HexToBytes(e.sk))
      dg  == HexToBytes(e.digest)
      sig == HexToBytes(e.sig)
  IN  IF e.panic THEN <<"signInternal panicked on a chosen digest", e.what>>
      ELSE IF e.err THEN <<"signInternal failed on a chosen digest", e.what>>
      ELSE IF Len(sig) # SigLen(p) THEN <<"signature length", ToString(SigLen(p))>>
      ELSE IF SigR(p, sig) # HexToBytes(e.r) THEN <<"R is not the output of PRF_msg", e.r>>
      ELSE IF e.mode = "full" THEN
             LET want == HexToBytes(e.r) \o SignDigest(p, dg, SK)
             IN  IF sig = want THEN <<>> ELSE Differ("signature differs from Algorithm 19 lines 6-18 for this digest: " \o e.what, sig, want, p.n)
      ELSE IF e.mode = "fors" /\ ~PieceOfDigestOK(p, dg, HexToBytes(e.r), SK, sig, 0) THEN
             <<"SIG_FORS differs from fors_sign(md, SK.seed, PK.seed, ADRS) for this digest", e.what>>
      ELSE IF ~CheapPartsOK(p, dg, SK, sig) THEN
             <<"signature for a chosen digest does not verify (Algorithm 20 lines 7-18), or a FORS secret value / WOTS+ signature is not the one of SK.seed", e.what>>
      ELSE <<>>

JudgeVerifyDigest(e) ==
  LET p    == ParamSet(e.ps)
      pk   == HexToBytes(e.pk)
      sig  == HexToBytes(e.sig)
      want == /\ Len(pk) = PkLen(p)
              /\ Len(sig) = SigLen(p)
              /\ VerifyDigest(p, HexToBytes(e.digest), SigFORS(p, sig), SigHT(p, sig), DecodePK(p, pk))
  IN  IF e.panic THEN <<"verifyInternal panicked on a chosen digest", e.what>>
      ELSE IF e.ok = want THEN <<>>
      ELSE <<"verifyInternal verdict for a chosen digest differs from Algorithm 20 lines 7-18", ToString(want), e.what, e.mut>>

\* ---------------------------------------------------------------- verification
WantVerify(e) ==
  LET p   == ParamSet(e.ps)
      pk  == HexToBytes(e.pk)
      M   == HexToBytes(e.msg)
      ctx == HexToBytes(e.ctx)
      sig == HexToBytes(e.sig)
      pre == Prefix(e.variant, HexToBytes(e.id))
  IN  /\ Len(pk) = PkLen(p)
      /\ CASE e.route = "internal-raw" -> slh_verify_internal(p, M, sig, DecodePK(p, pk))
           [] e.route = "api"          -> IsPrefixOf(pre, sig) /\ slh_verify(p, M, Drop(sig, Len(pre)), <<>>, DecodePK(p, pk))
           [] OTHER                    -> slh_verify(p, M, sig, ctx, DecodePK(p, pk))          \* internal, kat, plan

JudgeVerify(e) ==
  IF e.panic THEN <<"Verify panicked", e.mut>>
  ELSE LET want == WantVerify(e)
       IN  IF e.ok = want THEN <<>>
           ELSE <<"Verify verdict differs from FIPS 205 slh_verify", ToString(want), e.mut>>

\* ---------------------------------------------------------------- hook domains (support.go, wots.go, address.go, digest split)
JudgeDerived(e) ==
  LET p == ParamSet(e.ps)
      want == <<p.n, p.h, p.d, p.hp, p.a, p.k, p.lgw, p.m, p.w, p.len1, p.len2, p.len>>
  IN  IF ~WellFormed(p) THEN <<"reference parameter set is not well formed">>
      ELSE IF e.vals = want THEN <<>> ELSE <<"parameter constants differ from FIPS 205 Table 2 / equations 5.1-5.4", ToString(want)>>

JudgeBase2b(e) ==
  LET want == U16(base_2b(HexToBytes(e.x), e.b, e.outLen))
  IN  IF HexToBytes(e.out) = want THEN <<>> ELSE <<"base_2b differs from Algorithm 4", Hex(want)>>

JudgeBase2bRange(e) ==                   \* all two-byte inputs start .. start+count-1
  LET out  == HexToBytes(e.out)
      w    == 2 * e.outLen
      Want(i) == U16(base_2b(toByte(e.start + i - 1, 2), e.b, e.outLen))
      badI == FoldLeft(LAMBDA acc, i : IF acc = 0 /\ SubSeq(out, (i - 1) * w + 1, i * w) # Want(i) THEN i ELSE acc, 0,
                       [i \in 1..e.count |-> i])
  IN  IF Len(out) # e.count * w THEN <<"base_2b output length">>
      ELSE IF badI = 0 THEN <<>>
      ELSE <<"base_2b differs from Algorithm 4 on two-byte input", Hex(toByte(e.start + badI - 1, 2)), Hex(Want(badI))>>

JudgeToInt(e) ==
  LET want == NumToByte(toNum(SubSeq(HexToBytes(e.x), 1, e.n)), 8)
  IN  IF HexToBytes(e.out) = want THEN <<>> ELSE <<"toInt differs from Algorithm 2", Hex(want)>>

JudgeToByte(e) ==
  LET want == NumToByte(toNum(HexToBytes(e.x)), e.n)
  IN  IF HexToBytes(e.out) = want THEN <<>> ELSE <<"toByte differs from Algorithm 3", Hex(want)>>

JudgeChecksum(e) ==
  LET want == U16(WotsDigits(ParamSet(e.ps), HexToBytes(e.msg)))
  IN  IF HexToBytes(e.out) = want THEN <<>> ELSE <<"WOTS+ digits / checksum differ from Algorithm 7 lines 1-7", Hex(want)>>

OpNum(op) == toNum(HexToBytes(op[2]))                              \* 64-bit operand as a numeral
OpVal(op) == NumVal(OpNum(op))                                     \* < 2^31 for the 32-bit fields (driver's domain)
ApplyOp(A, op) ==
  CASE op[1] = "layer"   -> setLayerAddress(A, OpVal(op))
    [] op[1] = "tree"    -> setTreeAddress(A, OpNum(op))
    [] op[1] = "type"    -> setTypeAndClear(A, OpVal(op))
    [] op[1] = "keypair" -> setKeyPairAddress(A, OpVal(op))
    [] op[1] = "chain"   -> setChainAddress(A, OpVal(op))
    [] op[1] = "height"  -> setTreeHeight(A, OpVal(op))
    [] op[1] = "hash"    -> setHashAddress(A, OpVal(op))
    [] op[1] = "index"   -> setTreeIndex(A, OpVal(op))
    [] op[1] = "copy"    -> A
JudgeAdrs(e) ==
  LET A == FoldLeft(ApplyOp, NewADRS, e.ops)
  IN  IF HexToBytes(e.full) # A THEN <<"ADRS bytes differ from FIPS 205 Table 1", Hex(A)>>
      ELSE IF HexToBytes(e.comp) # Compress(A) THEN <<"compressed ADRS differs from ADRS[3] || ADRS[8:16] || ADRS[19] || ADRS[20:32]", Hex(Compress(A))>>
      ELSE IF HexToBytes(e.kp) # toByte(getKeyPairAddress(A), 4) THEN <<"getKeyPairAddress", Hex(toByte(getKeyPairAddress(A), 4))>>
      ELSE IF HexToBytes(e.ti) # toByte(getTreeIndex(A), 4) THEN <<"getTreeIndex", Hex(toByte(getTreeIndex(A), 4))>>
      ELSE <<>>

\* The addresses the verification path must derive from a digest: the k FORS leaf addresses, and per hypertree layer the
\* address of the first WOTS+ chain hash (chain 0, hash 0).
SplitFors(p, dg) ==
  LET A == ForsADRS(p, dg)
      ix == ForsIndices(p, Md(p, dg))
  IN  [i \in 1..p.k |-> Hex(setTreeIndex(setTreeHeight(A, 0), (i - 1) * Pow2(p.a) + ix[i]))]
SplitLayers(p, dg) ==
  LET WotsA(j, tree, leaf) == setKeyPairAddress(setTypeAndClear(setTreeAddress(setLayerAddress(NewADRS, j), tree), WOTS_HASH), leaf)
      Step(s, j) == LET leaf == NextLeaf(p, s.tree)
                        tree == NextTree(p, s.tree)
                    IN  [tree |-> tree, out |-> Append(s.out, Hex(WotsA(j, tree, leaf)))]
  IN  FoldLeft(Step, [tree |-> IdxTree(p, dg), out |-> <<Hex(WotsA(0, IdxTree(p, dg), IdxLeaf(p, dg)))>>],
               [j \in 1..(p.d - 1) |-> j]).out
JudgeSplit(e) ==
  LET p == ParamSet(e.ps)
      dg == HexToBytes(e.digest)
  IN  IF e.fors # SplitFors(p, dg) THEN <<"FORS leaf addresses (idx_tree, idx_leaf, base_2b(md, a, k)) differ from Algorithm 20 lines 7-15 / Algorithm 17", ToString(SplitFors(p, dg))>>
      ELSE IF e.layers # SplitLayers(p, dg) THEN <<"per-layer tree/leaf addresses differ from Algorithm 13", ToString(SplitLayers(p, dg))>>
      ELSE <<>>

\* The final root comparison, probed with stubbed hashes (every node is the zero string): the reference with the ZERO family,
\* the given digest, an all-zero signature and the given PK.root.
JudgeRootCmp(e) ==
  LET p    == [ParamSet(e.ps) EXCEPT !.fam = "ZERO"]
      want == VerifyDigest(p, HexToBytes(e.digest), ZeroBytes(p.k * (1 + p.a) * p.n), ZeroBytes((p.h + p.d * p.len) * p.n),
                           [seed |-> ZeroBytes(p.n), root |-> HexToBytes(e.pkroot)])
  IN  IF e.ok = want THEN <<>> ELSE <<"root comparison (ht_verify line 'node = PK.root') differs from FIPS 205 on stubbed hashes", ToString(want)>>

\* ---------------------------------------------------------------- dispatcher
Judge(e) ==
  CASE e.ev = "verify"        -> JudgeVerify(e)
    [] e.ev = "sign"          -> JudgeSign(e)
    [] e.ev = "sign_internal" -> JudgeSignInternal(e)
    [] e.ev = "sign_digest"   -> JudgeSignDigest(e)
    [] e.ev = "verify_digest" -> JudgeVerifyDigest(e)
    [] e.ev = "keygen"        -> JudgeKeygen(e)
    [] e.ev = "derived"       -> JudgeDerived(e)
    [] e.ev = "base2b"        -> JudgeBase2b(e)
    [] e.ev = "base2b_range"  -> JudgeBase2bRange(e)
    [] e.ev = "toint"         -> JudgeToInt(e)
    [] e.ev = "tobyte"        -> JudgeToByte(e)
    [] e.ev = "checksum"      -> JudgeChecksum(e)
    [] e.ev = "adrs"          -> JudgeAdrs(e)
    [] e.ev = "split"         -> JudgeSplit(e)
    [] e.ev = "rootcmp"       -> JudgeRootCmp(e)
    [] OTHER -> <<"unknown event", e.ev>>

Start == IF "VERIF_START" \in DOMAIN IOEnv THEN atoi(IOEnv.VERIF_START) ELSE 1

Init == l = Start /\ bad = <<>>
Next == /\ l <= Len(Trace)
        /\ bad' = Judge(Trace[l])
        /\ l' = l + 1
Spec == Init /\ [][Next]_vars

Conforms == bad = <<>>
Consumed == TLCGet("stats").diameter = Len(Trace) + 2 - Start
================================================================================
