-------------------------- MODULE Trace_KeyManagerAPI --------------------------
(* X03 (T): judges what harness/cmd/x03 recorded on the real registries of tink-go against  *)
(* KeyManagerAPI.tla.  One event per plan case (Plan_KeyManagerAPI.tla); every event carries  *)
(* its case, and is judged from the event's OWN fields (key type, parameter record, URL,       *)
(* operations) -- never from the expectations the plan copied into the case.                   *)
(*                                                                                            *)
(* A reason starting with "COVERAGE" is a coverage expectation (undocumented, as-built        *)
(* behaviour the model describes: which formats the key generators refuse beyond invalid       *)
(* parameters, which URLs have managers, which key types a V0 configuration holds): the check   *)
(* turns it into exit 2, never into a violation.  Everything else contradicts the documented    *)
(* contract of core/registry, the key template godoc, or the map semantics of the registries.   *)
EXTENDS KeyManagerAPI, Json, TLC

Trace == ndJsonDeserialize(IOEnv.VERIF_TRACE)
Start == IF "VERIF_START" \in DOMAIN IOEnv THEN atoi(IOEnv.VERIF_START) ELSE 1

Cov(s) == "COVERAGE: " \o s
ERR == "ERR"

\* ------------------------------------------------------------------ mgr / unknown
SeqToSet(s) == {s[i] : i \in DOMAIN s}
JudgeMgr(e) ==
  IF ~e.found THEN <<Cov("no key manager is registered under a type URL of the manager table"), e.url>>
  ELSE IF e.typeURL # e.url THEN <<"TypeURL() of the manager registered under a type URL", e.url>>
  ELSE IF SeqToSet(e.supports) # {v \in SeqToSet(e.supports) \cup {e.url} : ManagerSupports(e.url, v)}
         THEN <<"DoesSupport(u) must hold iff u = TypeURL()", e.url>>
  ELSE IF ~e.same THEN <<"two GetKeyManager calls for one type URL return different managers", e.url>>
  ELSE IF e.isPrivate # ManagerIsPrivate(e.url) THEN <<Cov("PrivateKeyManager implemented exactly by the managers of private key types"), ToString(ManagerIsPrivate(e.url))>>
  ELSE <<>>

JudgeUnknown(e) ==
  LET bad == {f \in {"get", "nkd", "nk", "prim", "pfkd", "handle"} : e[f] # "refused"} IN
  IF bad = {} THEN <<>>
  ELSE <<"a call for a type URL nothing is registered under must return an error", CHOOSE f \in bad : TRUE, e[CHOOSE f \in bad : TRUE]>>
JudgeNilArgs(e) ==
  LET bad == {f \in {"nkd", "nk", "pfkd", "empty"} : e[f] # "refused"} IN
  IF bad # {} THEN <<Cov("nil template / nil key data / empty serialized key are refused"), CHOOSE f \in bad : TRUE>>
  ELSE IF e.good # "accepted" THEN <<Cov("registry.Primitive makes a primitive of a valid AES-GCM key"), e.good>>
  ELSE <<>>

\* ------------------------------------------------------------------ key data a manager returned
\* kd: [err, panic, url, material, parse, eqTpl, eqTplRev, eqWant, eqWantRev, fresh, ...]
KeyDataBad(via, url, material, kd, checkParams) ==
  IF kd.url # url THEN <<via \o ": KeyData.type_url is not the manager's type URL", url>>
  ELSE IF kd.material # material THEN <<via \o ": KeyData.key_material_type", material>>
  ELSE IF ~checkParams THEN <<>>
  ELSE IF ~kd.parse THEN <<via \o ": KeyData.value does not parse as a key of the manager's type", "parses">>
  ELSE IF ~kd.eqTpl \/ ~kd.eqTplRev THEN <<via \o ": the key's parameters differ from ParseParameters(template)", "Equal">>
  ELSE IF ~kd.eqWant \/ ~kd.eqWantRev THEN <<via \o ": the key's parameters differ from the parameters the format describes", "Equal">>
  ELSE <<>>

\* ------------------------------------------------------------------ primitives
InteropOK(r) == IF r.rel = "same" THEN r.fk = r.kf /\ r.fk # ERR /\ r.fk # "" ELSE r.fk = r.msg /\ r.kf = r.msg
ViolationStages == {"registry.Primitive", "registry.PrimitiveFromKeyData(public)", "keyset handle (RAW)", "keyset factory (RAW)",
                    "registry.Primitive panicked", "factory", "keyset handle", "factory panicked"}
StageOf(s) == LET idx == {i \in 1..Len(s) : SubSeq(s, i, i) = ":"} IN
              IF idx = {} THEN s ELSE SubSeq(s, 1, (CHOOSE i \in idx : \A j \in idx : i <= j) - 1)
JudgePrim(T, p, kind, r) ==
  LET class == PrimClass(T, kind) IN
  IF ~PrimitiveOK(T, p) THEN (IF r.done THEN <<Cov("the library has no primitive for such keys (PrimitiveOK)"), T>> ELSE <<>>)
  ELSE IF ~r.done THEN (IF StageOf(r.stage) \in ViolationStages
                   THEN <<"no working primitive for a key the manager itself generated", r.stage>>
                   ELSE <<Cov("the driver could exercise the primitive"), r.stage>>)
  ELSE IF class = "NONE" THEN (IF r.refused THEN <<>> ELSE <<Cov("the managers of JWT keys and of the PRF-based deriver refuse Primitive()"), "refused">>)
  ELSE IF ~InteropOK(r) THEN <<"registry.Primitive and the keyset factory do not interoperate on the same key", class, r.msg>>
  ELSE IF class \in {"PRF", "STREAM"} THEN <<>>
  ELSE IF ~r.tink.done THEN <<Cov("the same key under output prefix TINK gives a primitive"), r.tink.ctPrefix>>
  ELSE IF r.tink.ctPrefix # "01" \o r.tink.id THEN <<"the factory's output under prefix type TINK must start with 0x01 || key id", "01" \o r.tink.id>>
  ELSE IF r.tink.fk # r.msg \/ r.tink.kf # r.msg
         THEN <<"registry.Primitive must neither add nor remove the output prefix (interoperation with a TINK-prefixed keyset)", class, r.msg>>
  ELSE <<>>

JudgePub(T, r) ==
  IF ~r.isPrivate THEN <<Cov("the manager of a private key type implements registry.PrivateKeyManager"), T>>
  ELSE IF r.panic THEN <<"PublicKeyData panicked", "no panic">>
  ELSE IF r.err THEN <<"PublicKeyData refuses a private key the manager itself generated", "public key data">>
  ELSE IF r.url # TypeURL(T, "public") THEN <<"PublicKeyData: type_url", TypeURL(T, "public")>>
  ELSE IF r.material # "ASYMMETRIC_PUBLIC" THEN <<"PublicKeyData: key_material_type", "ASYMMETRIC_PUBLIC">>
  ELSE IF r.hErr THEN <<Cov("handle.Public() of the generated private key"), T>>
  ELSE IF <<r.url, r.material, r.value>> # <<r.hurl, r.hmaterial, r.hvalue>>
         THEN <<"PublicKeyData(private key) differs from the public key data of handle.Public()", r.hvalue>>
  ELSE IF ~r.parse \/ ~r.eqWant THEN <<"the public key data does not parse to a key with the private key's parameters", "Equal parameters">>
  ELSE <<>>

\* ------------------------------------------------------------------ fmt / pubfmt
ProtoFullName(url) == "google.crypto.tink." \o SubSeq(url, Len(TinkPrefix) + 1, Len(url))
First(s) == IF s = <<>> THEN <<>> ELSE LET idx == {i \in DOMAIN s : s[i] # <<>>} IN
            IF idx = {} THEN <<>> ELSE s[CHOOSE i \in idx : \A j \in idx : i <= j]

JudgeFmt(e) ==
  LET T == e.kt
      p == Denoted(e.kt, e.p)          \* the parameters the format denotes
      kind == e.kind
      url == TypeURL(T, kind)
  IN
  IF e.dp # p THEN <<Cov("the driver builds the expected parameters from the denoted record"), T>>
  ELSE IF ~e.fmtBuilt THEN <<Cov("the driver can write the key format"), T>>
  ELSE IF ~e.found THEN <<Cov("a manager is registered for the key type"), url>>
  ELSE IF e.km.panic \/ e.reg.panic \/ e.nk.panic THEN <<"panic in NewKeyData / NewKey", "no panic">>
  ELSE IF ~e.km.err /\ ~ParamsOK(T, p) THEN <<"NewKeyData accepts a key format with invalid parameters", "refused">>
  ELSE IF ~e.reg.err /\ ~ParamsOK(T, p) THEN <<"registry.NewKeyData accepts a template with invalid parameters", "refused">>
  ELSE IF e.km.err # e.reg.err THEN <<"the manager's NewKeyData and registry.NewKeyData(template of the same type URL and format) disagree", ToString(e.km.err)>>
  ELSE IF e.km.err = NewKeyAccepts(T, p)
         THEN <<Cov("NewKeyData accepts exactly the formats of the decision table (NewKeyAccepts)"), ToString(NewKeyAccepts(T, p))>>
  ELSE IF e.km.err THEN (IF ~e.lite /\ ~e.nk.err THEN <<"NewKey accepts a key format NewKeyData refuses", "refused">> ELSE <<>>)
  ELSE IF ~e.tplParse THEN <<"NewKeyData accepts a format that ParseParameters(template) refuses", "parses">>
  ELSE IF ~e.wantBuilt THEN <<Cov("the parameters constructor accepts what ParamsOK accepts"), T>>
  ELSE First(<<
    KeyDataBad("NewKeyData", url, Material(T, kind), e.km, TRUE),
    KeyDataBad("registry.NewKeyData", url, Material(T, kind), e.reg, TRUE),
    IF ~e.reg.fresh THEN <<"two NewKeyData calls return the same key material", "fresh randomness">> ELSE <<>>,
    IF e.lite THEN <<>>
    ELSE IF ~e.km.fresh THEN <<"two NewKeyData calls of the manager return the same key material", "fresh randomness">>
    ELSE IF e.nk.err THEN <<Cov("NewKey is implemented by the library's managers"), T>>
    ELSE IF e.nk.name # ProtoFullName(url) THEN <<"NewKey returns a message of another type than the manager's key type", ProtoFullName(url)>>
    ELSE IF ~e.nk.parse \/ ~e.nk.eqWant THEN <<"NewKey's key does not carry the parameters the format describes", "Equal parameters">>
    ELSE <<>>,
    IF kind = "private" THEN JudgePub(T, e.pub) ELSE <<>>,
    IF e.junk.done /\ "panic" \in {e.junk.trunc, e.junk.flip, e.junk.pubTrunc, e.junk.fmtTrunc}
      THEN <<"a manager panicked on a damaged serialized key / key format", "an error">> ELSE <<>>,
    IF e.case.interop THEN JudgePrim(T, p, kind, e.prim) ELSE <<>> >>)

JudgePubFmt(e) ==
  IF ~e.fmtBuilt \/ ~e.found THEN <<Cov("the driver can ask the manager of the public key type"), e.kt>>
  ELSE IF e.km.panic \/ e.reg.panic \/ e.nk.panic THEN <<"panic in NewKeyData / NewKey", "no panic">>
  ELSE IF ~e.km.err \/ ~e.reg.err \/ ~e.nk.err THEN <<Cov("the manager of a public key type refuses to generate keys"), e.kt>>
  ELSE <<>>

\* ------------------------------------------------------------------ tpl
TripOK(r) == r.done /\ InteropOK(r)
JudgeTpl(e) ==
  LET T == e.kt
      p == e.p
      inv == T \in KeyTypes           \* (the KMS envelope AEAD key type is not in the parameter inventory)
      v == VariantOfP(T, p)
  IN
  IF ~e.found THEN <<Cov("the library has the template function the table names"), e.name>>
  ELSE IF e.panic THEN <<"a key template function panicked", "no panic">>
  ELSE IF e.url # TemplateURL(T) THEN <<"key template: type URL", TemplateURL(T)>>
  ELSE IF e.prefix # TemplatePrefix(T, p) THEN <<"key template: output prefix type", TemplatePrefix(T, p)>>
  ELSE IF inv /\ W!TemplateMismatch(T, p, e.value) # <<>>
         THEN <<"key template: a documented parameter is not at its place in the key format", "field " \o W!TemplateMismatch(T, p, e.value)[1],
                W!TemplateMismatch(T, p, e.value)[2]>>
  ELSE IF inv /\ ~e.wantBuilt THEN <<Cov("the parameters constructor accepts the parameters the table names"), e.name>>
  ELSE IF inv /\ ~e.parse THEN <<"key template does not parse as parameters", "parses">>
  ELSE IF inv /\ (~e.eq \/ ~e.eqRev) THEN <<"key template: the parsed parameters are not the documented ones", "Equal">>
  ELSE IF e.reg.panic \/ e.nk.panic \/ e.h.panic THEN <<"panic while generating a key from a library template", "no panic">>
  ELSE IF e.reg.err THEN <<"registry.NewKeyData refuses a key template of the library", "key data">>
  ELSE IF e.h.err THEN <<"keyset.NewHandle refuses a key template of the library", "handle">>
  ELSE First(<<
    KeyDataBad("registry.NewKeyData(template)", TemplateURL(T), TemplateMaterial(T), e.reg, inv),
    IF e.lite \/ ~inv THEN <<>>
    ELSE IF ~e.reg.fresh THEN <<"two registry.NewKeyData(template) calls return the same key material", "fresh randomness">>
    ELSE IF e.nk.err THEN <<Cov("registry.NewKey works for the library's templates"), e.name>>
    ELSE IF e.nk.name # ProtoFullName(TemplateURL(T)) THEN <<"registry.NewKey returns a message of another type", ProtoFullName(TemplateURL(T))>>
    ELSE <<>>,
    IF e.h.n # 1 \/ ~e.h.primary \/ e.h.status # "Enabled" THEN <<"keyset.NewHandle(template): one enabled primary key", "1 / primary / Enabled">>
    ELSE IF e.h.prefix # TemplatePrefix(T, p) \/ e.h.url # TemplateURL(T) \/ e.h.material # TemplateMaterial(T)
           THEN <<"keyset.NewHandle(template): key of the template's type and prefix", TemplateURL(T), TemplatePrefix(T, p)>>
    ELSE IF e.h.idreq # (IF HasIdRequirement(v) THEN e.h.keyId ELSE "none")
           THEN <<"keyset.NewHandle(template): id requirement of the generated key", IF HasIdRequirement(v) THEN e.h.keyId ELSE "none">>
    ELSE IF inv /\ (~e.h.eq \/ ~e.h.eqRev) THEN <<"keyset.NewHandle(template): the key's parameters are not the documented ones", "Equal">>
    ELSE <<>>,
    IF ~TripOK(e.rk) THEN <<"the key of registry.NewKeyData(template) does not give a working primitive through the keyset factory", e.rk.stage>> ELSE <<>>,
    IF ~TripOK(e.nh) THEN <<"the keyset of keyset.NewHandle(template) does not give a working primitive", e.nh.stage>> ELSE <<>> >>)

\* ------------------------------------------------------------------ hist
Reg0 == [u \in {"u1", "u2", "lib"} |-> IF u = "lib" THEN [id |-> "lib", url |-> "lib"] ELSE NoMgr]
Cfg0 == [b |-> [k \in {"k1", "k2"} |-> "none"], cfgs |-> <<>>]
G0 == [k \in {"k1"} |-> "none"]
Expected(e) ==
  CASE e.part = "reg" -> Run(RegStep, e.ops, Reg0)
    [] e.part = "kms" -> Run(KmsStep, e.ops, <<>>)
    [] e.part = "cfg" -> Run(CfgStep, e.ops, Cfg0)
    [] OTHER -> Run(LAMBDA op, m : GStep(e.part, op, m), e.ops, G0)
PartName(part) ==
  CASE part = "reg" -> "key manager registry (RegisterKeyManager: first registration of a type URL wins; lookups delegate to it)"
    [] part = "kms" -> "KMS clients (GetKMSClient: the first registered client whose Supported(uri) is true)"
    [] part = "cfg" -> "configuration builder (duplicate registration refused; Build() is a snapshot)"
    [] part = "prim" -> "primitive constructor registry (same constructor twice accepted, a different one refused)"
    [] OTHER -> "internal registry " \o part \o " (a second registration is refused; unbound lookups fail / fall back)"
JudgeHist(e) ==
  IF e.panic THEN <<"panic in a registry operation", "no panic">>
  ELSE IF e.res # Expected(e) THEN <<PartName(e.part), ToString(Expected(e))>>
  ELSE <<>>

\* ------------------------------------------------------------------ cfgres / custom
JudgeCfgRes(e) ==
  LET want == IF ConfigResolves(e.class, e.kt) THEN "resolved" ELSE "refused" IN
  IF ~e.keyBuilt THEN <<Cov("the driver can build a key of the type"), e.kt>>
  ELSE IF "panic" \in {e.res, e.glob, e.fac} THEN <<"PrimitiveFromKey / a WithConfig factory panicked", "no panic">>
  ELSE IF e.res # want THEN <<Cov("V0 of the class resolves exactly the key types of the class table"), want>>
  ELSE IF e.glob # "resolved" THEN <<Cov("the global registry configuration resolves every key type"), "resolved">>
  ELSE IF e.fac # want THEN <<Cov("the class factory with V0 accepts exactly the key types of the class table"), want>>
  ELSE <<>>

PrefixHex(pt, id) == CASE pt = "TINK" -> "01" \o id [] pt = "CRUNCHY" -> "00" \o id [] pt = "LEGACY" -> "00" \o id [] OTHER -> ""
JudgeCustom(e) ==
  IF ~e.registered THEN <<"RegisterKeyManager refuses a manager for a fresh type URL", "registered">>
  ELSE IF e.handleErr THEN <<"keyset.NewHandle(template of a registered custom key manager) fails", "handle">>
  ELSE IF e.formats # <<e.format>> THEN <<"keyset.NewHandle must ask the registered manager's NewKeyData once, with the template's value", e.format>>
  ELSE IF e.aeadErr THEN <<"the factory refuses the keyset of a custom key manager", "primitive">>
  ELSE IF e.primitiveFor = <<>> \/ SeqToSet(e.primitiveFor) # {e.keyValue}
         THEN <<"the factory must ask the registered manager's Primitive with the key value NewKeyData returned", e.keyValue>>
  ELSE IF e.ct # PrefixHex(e.prefix, e.keyId) \o e.inner THEN <<"ciphertext = output prefix || the custom primitive's ciphertext", PrefixHex(e.prefix, e.keyId) \o e.inner>>
  ELSE IF e.pt # e.msg THEN <<"decryption through the custom primitive", e.msg>>
  ELSE <<>>

\* ------------------------------------------------------------------ the trace
Judge(e) ==
  CASE e.ev = "mgr" -> JudgeMgr(e)
    [] e.ev = "unknown" -> JudgeUnknown(e)
    [] e.ev = "nilargs" -> JudgeNilArgs(e)
    [] e.ev = "fmt" -> JudgeFmt(e)
    [] e.ev = "pubfmt" -> JudgePubFmt(e)
    [] e.ev = "tpl" -> JudgeTpl(e)
    [] e.ev = "hist" -> JudgeHist(e)
    [] e.ev = "cfgres" -> JudgeCfgRes(e)
    [] e.ev = "custom" -> JudgeCustom(e)
    [] OTHER -> <<Cov("known event kind"), e.ev>>

\* A disagreement is reported once per signature (event kind, key type / part / template, reason, failing stage) and
\* shard: repetitions do not stop the run again (the check de-duplicates by signature anyway); after a restart behind a
\* mismatch the signatures of the prefix are recomputed.
IsCov(b) == b # <<>> /\ Len(b[1]) >= 8 /\ SubSeq(b[1], 1, 8) = "COVERAGE"
Who(e) == IF e.ev = "tpl" THEN e.name ELSE IF "kt" \in DOMAIN e THEN e.kt ELSE IF "part" \in DOMAIN e THEN e.part ELSE ""
Detail(b) == IF Len(b) >= 2 /\ b[1] = "no working primitive for a key the manager itself generated" THEN b[2] ELSE ""
SigOf(e, b) == <<e.ev, Who(e), b[1], Detail(b)>>
SigsUpTo(n) == {SigOf(Trace[i], Judge(Trace[i])) : i \in {j \in 1..n : Judge(Trace[j]) # <<>>}}

VARIABLES l, bad, seen
Init == l = Start /\ bad = <<>> /\ seen = SigsUpTo(Start - 1)
Next ==
  /\ l <= Len(Trace)
  /\ l' = l + 1
  /\ LET b == Judge(Trace[l]) IN
       IF b = <<>> THEN bad' = <<>> /\ seen' = seen
       ELSE /\ seen' = seen \cup {SigOf(Trace[l], b)}
            /\ bad' = IF SigOf(Trace[l], b) \in seen THEN <<>> ELSE b
Conforms == bad = <<>>
Consumed == TLCGet("stats").diameter = Len(Trace) + 2 - Start
================================================================================
