------------------------------ MODULE Trace_Hybrid ------------------------------
(* Trace validation for C06: every recorded HybridEncrypt.Encrypt /              *)
(* HybridDecrypt.Decrypt call of the real code is judged against HPKE.tla         *)
(* (RFC 9180 base mode, X-Wing, ML-KEM KEMs) and ECIES.tla.                    *)
(*                                                                               *)
(*  encrypt : Tink produced e.ct for (e.pt, e.info) under the public key of e.skR. *)
(*            The reference DECRYPTS it with e.skR (randomized output is never    *)
(*            compared for equality) and must recover exactly e.pt.               *)
(*  decrypt : Tink was given (e.ct, e.info) and returned e.pt / e.err.  Verdict   *)
(*            and plaintext must equal the reference's.  class = "ref": the       *)
(*            ciphertext was made by the reference (Plan_Hybrid) for plaintext    *)
(*            e.want; class = "mut": a mutated input, the reference must reject.  *)
(*                                                                               *)
(* Inputs (pt, info, ct) are logged from copies the implementation never had      *)
(* access to.  A caller may reuse his buffers: e.pre = "same" marks a call that     *)
(* follows an identical call on the SAME buffers, e.pre = "wrongctx" one that       *)
(* follows a failing attempt with context e.pre_info on the same ciphertext buffer. *)
(* e.pre = "prev" marks a call of a session: the preceding call on the same         *)
(* primitive instance took its arguments (e.pre_arg, e.pre_info) from the same      *)
(* buffers, which the caller then overwrote in place (class "seq").                 *)
(* Events with out_at_return / out_retained belong to a sequence (e.seq, e.seq_i) in *)
(* which the caller RETAINED the returned slices across later calls: an output must *)
(* not change after it was returned, and what a retained ciphertext slice holds     *)
(* afterwards (class "retained") must still decrypt to its own plaintext e.want.    *)
(* Such a call is judged like any other: with the right key and context the        *)
(* plaintext must come back (round-trip clause), and with another context it must   *)
(* be rejected (context binding), whatever happened before.                         *)
(*                                                                               *)
(* ML-KEM decapsulation is an assumed primitive: the event carries the answer      *)
(* (ml_ok, ml_ss) of Go's crypto/mlkem for the query (ml_param, ml_seed, ml_ct);   *)
(* the specification itself decides WHICH query it makes (which bytes are the     *)
(* encapsulated key, how the X-Wing seed is expanded) and an event whose oracle    *)
(* answers another query is an infrastructure error, not a verdict.               *)
EXTENDS HPKE, ECIES, Json, IOUtils, TLC

Trace == ndJsonDeserialize(IOEnv.VERIF_TRACE)

VARIABLES l, bad
vars == <<l, bad>>

H(x) == HexToBytes(x)
Suite(e) == [kem |-> e.kem, kdf |-> e.kdf, aead |-> e.aead]
ECfg(e) == [curve |-> e.curve, hash |-> e.hash, fmt |-> e.fmt, dem |-> e.dem, salt |-> H(e.salt)]

MLKems == {"MLKEM768", "MLKEM1024", "XWING"}

\* The ML-KEM query the specification makes for event e, or <<>> when it makes none.
MLQuery(e) ==
  IF e.scheme # "HPKE" \/ e.kem \notin MLKems THEN <<>>
  ELSE LET p   == Prefix(e.variant, H(e.id))
           ct  == H(e.ct)
           raw == Drop(ct, Len(p))
       IN IF ~IsPrefixOf(p, ct) \/ Len(raw) < Nenc(e.kem) THEN <<>>
          ELSE CASE e.kem = "MLKEM768"  -> <<"768", H(e.skR), Take(raw, Nenc(e.kem))>>
                 [] e.kem = "MLKEM1024" -> <<"1024", H(e.skR), Take(raw, Nenc(e.kem))>>
                 [] e.kem = "XWING"     -> IF Len(H(e.skR)) # XWingNsk THEN <<>>
                                           ELSE <<"768", XWingSeedM(H(e.skR)), Take(raw, MLKEM768Nct)>>

OracleAnswers(e) ==
  LET q == MLQuery(e)
  IN q = <<>> \/ (e.ml_param = q[1] /\ H(e.ml_seed) = q[2] /\ H(e.ml_ct) = q[3])

Oracle(e, param, seed, ct) ==
  IF e.ml_param = param /\ H(e.ml_seed) = seed /\ H(e.ml_ct) = ct THEN <<e.ml_ok, H(e.ml_ss)>> ELSE <<FALSE, <<>>>>

\* Retained outputs: the caller kept the returned slice across later calls on the same primitive;
\* out_at_return is its content when it was returned, out_retained its content afterwards.
OutputChanged(e) == "out_retained" \in DOMAIN e /\ e.out_retained # e.out_at_return

RefDecrypt(e) ==
  IF e.scheme = "HPKE"
  THEN HpkeTinkDecrypt(Suite(e), e.variant, H(e.id), H(e.skR), H(e.ct), H(e.info), LAMBDA p, s, c : Oracle(e, p, s, c))
  ELSE EciesTinkDecrypt(ECfg(e), e.variant, H(e.id), H(e.skR), H(e.ct), H(e.info))

Judge(e) ==
  CASE e.ev = "construct" -> <<>>                         \* coverage only (which constructor refuses what)
    [] e.ev = "encrypt" ->
         IF e.panic THEN <<"Encrypt panicked">>
         ELSE IF e.err THEN <<"Encrypt failed with a valid public key">>
         ELSE IF OutputChanged(e) THEN <<"a ciphertext returned by Encrypt changed while the caller kept it across later calls", e.out_at_return>>
         ELSE IF ~OracleAnswers(e) THEN <<"INFRA: ML-KEM oracle of the driver does not answer the specification's query">>
         ELSE LET r == RefDecrypt(e)
              IN IF ~r[1] THEN <<"the reference (RFC 9180 / ECIES) cannot decrypt Tink's ciphertext with the recipient key">>
                 ELSE IF r[2] # H(e.pt) THEN <<"the reference decrypts Tink's ciphertext to another plaintext", BytesToHex(r[2])>>
                 ELSE <<>>
    [] e.ev = "decrypt" ->
         IF e.panic THEN <<"Decrypt panicked">>
         ELSE IF ~OracleAnswers(e) THEN <<"INFRA: ML-KEM oracle of the driver does not answer the specification's query">>
         ELSE LET want == RefDecrypt(e)
              IN IF e.class = "mut" /\ want[1] THEN <<"INFRA: the reference accepts an input the driver calls mutated">>
                 ELSE IF e.class = "ref" /\ want # <<TRUE, H(e.want)>> THEN <<"INFRA: the reference does not decrypt its own ciphertext">>
                 ELSE IF e.class = "retained" /\ want # <<TRUE, H(e.want)>>
                      THEN <<"the content of a retained ciphertext slice no longer decrypts to its plaintext", e.want>>
                 ELSE IF OutputChanged(e) THEN <<"a plaintext returned by Decrypt changed while the caller kept it across later calls", e.out_at_return>>
                 ELSE IF want[1] # (~e.err)
                      THEN <<IF want[1] THEN "Decrypt rejected a ciphertext the reference decrypts"
                                        ELSE "Decrypt accepted an input the reference rejects", BytesToHex(want[2])>>
                 ELSE IF want[1] /\ want[2] # H(e.pt) THEN <<"Decrypt returned another plaintext than the reference", BytesToHex(want[2])>>
                 ELSE <<>>
    [] OTHER -> <<"unknown event", e.ev>>

Start == IF "VERIF_START" \in DOMAIN IOEnv THEN atoi(IOEnv.VERIF_START) ELSE 1

Init == l = Start /\ bad = <<>>
Next == /\ l <= Len(Trace)
        /\ bad' = Judge(Trace[l])
        /\ l' = l + 1
Spec == Init /\ [][Next]_vars

Conforms == bad = <<>>
Consumed == TLCGet("stats").diameter = Len(Trace) + 2 - Start
================================================================================
