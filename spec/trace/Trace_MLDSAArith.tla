--------------------------- MODULE Trace_MLDSAArith ---------------------------
(* Trace validation for C10, scalar / polynomial / packing / sampling layers:    *)
(* every recorded evaluation of the real code's unexported ML-DSA building       *)
(* blocks (reached through the verif hook) is judged against the FIPS 204        *)
(* definitions of MLDSAArith / MLDSAEncode / MLDSASample.                         *)
(*                                                                                *)
(* The real code keeps every ring element as its representative in 0..q-1; the   *)
(* standard's signed values (r0 of Power2Round/Decompose, coefficients of s, y,  *)
(* z, c) are compared modulo q.                                                   *)
(*                                                                                *)
(* "run" events are the lossless run-length form of a unary function's table:    *)
(* for every x in lo..lo+n-1 the code returned the tuple (v[k] + s[k]*(x-lo))    *)
(* mod q (for "mulc": v + p*(x-lo) mod q).  The definition is evaluated at EVERY *)
(* x of the run.                                                                  *)
EXTENDS MLDSASample, Json, IOUtils

Trace == ndJsonDeserialize(IOEnv.VERIF_TRACE)

VARIABLES l, bad
vars == <<l, bad>>

PolyOf(s)  == Fn([i \in Idx |-> s[i + 1]])                 \* JSON array of 256 numbers -> polynomial
PolySeq(p)   == [i \in 1 .. 256 |-> p[i - 1]]
PolyQ(p)   == [i \in 1 .. 256 |-> p[i - 1] % Q]            \* polynomial -> JSON array form, mod q
VecOf(ss)  == Fn([i \in 0 .. Len(ss) - 1 |-> PolyOf(ss[i + 1])])
OnesAt(pos) == Fn([j \in Idx |-> IF \E k \in 1 .. Len(pos) : pos[k] = j THEN 1 ELSE 0])

-----------------------------------------------------------------------------
(* run events                                                                     *)
Logged(e, x) ==
  IF e.fn = "mulc" THEN <<(e.v[1] + MulQ(e.p, x - e.lo)) % Q>>
  ELSE [k \in 1 .. Len(e.v) |-> (e.v[k] + e.s[k] * (x - e.lo)) % Q]

Def(e, x) ==
  CASE e.fn = "reduceOnce"  -> <<x % Q>>                               \* x in 0..2q-1
    [] e.fn = "neg"         -> <<NegQ(x)>>
    [] e.fn = "power2round" -> LET p == Power2Round(x) IN <<p[1], p[2] % Q>>
    [] e.fn = "decompose"   -> LET p == Decompose(x, e.g) IN <<p[1], p[2] % Q>>
    [] e.fn = "highBits"    -> <<HighBits(x, e.g)>>
    [] e.fn = "lowBits"     -> <<LowBits(x, e.g) % Q>>
    [] e.fn = "useHint"     -> <<UseHint(e.p, x, e.g)>>
    [] e.fn = "makeHint"    -> <<MakeHint(e.p, x, e.g)>>               \* MakeHint(z = p, r = x)
    [] e.fn = "centeredAbs" -> <<NormQ(x)>>
    [] e.fn = "scalePower2" -> <<x * (2 ^ D)>>                         \* x in 0..1023
    [] e.fn = "addc"        -> <<AddQ(x, e.p)>>
    [] e.fn = "subc"        -> <<SubQ(x, e.p)>>
    [] e.fn = "csub"        -> <<SubQ(e.p, x)>>
    [] e.fn = "mulc"        -> <<MulQ(x, e.p)>>

KnownFn == {"reduceOnce", "neg", "power2round", "decompose", "highBits", "lowBits", "useHint", "makeHint",
            "centeredAbs", "scalePower2", "addc", "subc", "csub", "mulc"}

\* The same comparison with the dispatch on the function name outside the quantifier (what TLC evaluates
\* on the 8.4 million points of a complete table); Def/Logged above are used to locate a disagreement.
V(e, k, x) == (e.v[k] + e.s[k] * (x - e.lo)) % Q
RunAgrees(e) ==
  LET xs == e.lo .. e.lo + e.n - 1 IN
  CASE e.fn = "reduceOnce"  -> \A x \in xs : x % Q = V(e, 1, x)
    [] e.fn = "neg"         -> \A x \in xs : NegQ(x) = V(e, 1, x)
    [] e.fn = "power2round" -> \A x \in xs : LET p == Power2Round(x) IN p[1] = V(e, 1, x) /\ p[2] % Q = V(e, 2, x)
    [] e.fn = "decompose"   -> \A x \in xs : LET p == Decompose(x, e.g) IN p[1] = V(e, 1, x) /\ p[2] % Q = V(e, 2, x)
    [] e.fn = "highBits"    -> \A x \in xs : HighBits(x, e.g) = V(e, 1, x)
    [] e.fn = "lowBits"     -> \A x \in xs : LowBits(x, e.g) % Q = V(e, 1, x)
    [] e.fn = "useHint"     -> \A x \in xs : UseHint(e.p, x, e.g) = V(e, 1, x)
    [] e.fn = "makeHint"    -> \A x \in xs : MakeHint(e.p, x, e.g) = V(e, 1, x)
    [] e.fn = "centeredAbs" -> \A x \in xs : NormQ(x) = V(e, 1, x)
    [] e.fn = "scalePower2" -> \A x \in xs : x * (2 ^ D) = V(e, 1, x)
    [] e.fn = "addc"        -> \A x \in xs : AddQ(x, e.p) = V(e, 1, x)
    [] e.fn = "subc"        -> \A x \in xs : SubQ(x, e.p) = V(e, 1, x)
    [] e.fn = "csub"        -> \A x \in xs : SubQ(e.p, x) = V(e, 1, x)
    [] e.fn = "mulc"        -> \A x \in xs : MulQ(x, e.p) = (e.v[1] + MulQ(e.p, x - e.lo)) % Q

JudgeRun(e) ==
  IF e.fn \notin KnownFn THEN <<"unknown function", e.fn>>
  ELSE IF RunAgrees(e) THEN <<>>
  ELSE LET x == CHOOSE y \in e.lo .. e.lo + e.n - 1 :
                   /\ Def(e, y) # Logged(e, y)
                   /\ \A w \in e.lo .. y - 1 : Def(e, w) = Logged(e, w)
       IN  <<e.fn \o " differs from the FIPS 204 definition", "x=" \o ToString(x),
             "definition=" \o ToString(Def(e, x)), "code=" \o ToString(Logged(e, x))>>

-----------------------------------------------------------------------------
(* binary functions on a row a x {b_1..b_n}                                       *)
BinOK(e, i) ==
  LET a == e.a  b == e.b[i]  o == e.out[i] IN
  CASE e.fn = "mul" -> o = MulQ(a, b)
    [] e.fn = "add" -> o = AddQ(a, b)
    [] e.fn = "sub" -> o = SubQ(a, b)
    [] e.fn = "makeHint" -> o = MakeHint(a, b, e.g)                    \* MakeHint(z = a, r = b)
    [] e.fn = "useHint" -> o = UseHint(a, b, e.g)                      \* UseHint(h = a, r = b)
    \* centeredMax is the comparison step of the infinity norm: the operand of larger |. mod+- q|
    [] e.fn = "centeredMax" -> o \in {a, b} /\ NormQ(o) = MaxNat(NormQ(a), NormQ(b))

JudgeBin(e) ==
  IF \A i \in 1 .. Len(e.b) : BinOK(e, i) THEN <<>>
  ELSE LET i == CHOOSE j \in 1 .. Len(e.b) : ~BinOK(e, j)
       IN  <<e.fn \o " differs from the FIPS 204 definition", "a=" \o ToString(e.a), "b=" \o ToString(e.b[i]),
             "code=" \o ToString(e.out[i])>>

-----------------------------------------------------------------------------
Cmp(what, want, got) == IF want = got THEN <<>> ELSE <<what \o " differs from the FIPS 204 definition", ToString(want)>>

Judge(e) ==
  CASE e.ev = "run" -> JudgeRun(e)
    [] e.ev = "bin" -> JudgeBin(e)
    [] e.ev = "halfbyte" ->
         Cmp("CoeffFromHalfByte",
             [b \in 1 .. 16 |-> LET c == CoeffFromHalfByte(b - 1, e.eta) IN IF c = Bot THEN -1 ELSE c % Q],
             [b \in 1 .. 16 |-> IF e.acc[b] THEN e.out[b] ELSE -1])
    [] e.ev = "zetas" -> Cmp("zetas table", [i \in 1 .. 255 |-> Zetas[i]], [i \in 1 .. 255 |-> e.out[i + 1]])
    \* ---- polynomial layer
    [] e.ev = "ntt"    -> Cmp("NTT", PolySeq(NTT(PolyOf(e.in))), e.out)
    [] e.ev = "intt"   -> Cmp("NTT^-1", PolySeq(InvNTT(PolyOf(e.in))), e.out)
    [] e.ev = "mulntt" -> Cmp("MultiplyNTT", PolySeq(MultiplyNTT(PolyOf(e.in), PolyOf(e.in2))), e.out)
    [] e.ev = "polyadd" -> Cmp("polynomial addition", PolySeq(PolyAdd(PolyOf(e.in), PolyOf(e.in2))), e.out)
    [] e.ev = "polysub" -> Cmp("polynomial subtraction", PolySeq(PolySub(PolyOf(e.in), PolyOf(e.in2))), e.out)
    [] e.ev = "norm"   -> Cmp("infinity norm", PolyNorm(PolyOf(e.in)), e.out)
    [] e.ev = "matmul" ->
         LET M == Fn([r \in 0 .. Len(e.m) - 1 |-> VecOf(e.m[r + 1])])
             r == MatrixVectorNTT(M, VecOf(e.v))
         IN  Cmp("MatrixVectorNTT", [i \in 1 .. Len(e.m) |-> PolySeq(r[i - 1])], e.out)
    \* ---- packing (inputs of the pack direction are given with signed coefficients)
    [] e.ev = "simplebitpack"   -> Cmp("SimpleBitPack", BytesToHex(SimpleBitPack(PolyOf(e.in), e.b)), e.out)
    [] e.ev = "bitpack"         -> Cmp("BitPack", BytesToHex(BitPack(PolyOf(e.in), e.a, e.b)), e.out)
    [] e.ev = "simplebitunpack" -> Cmp("SimpleBitUnpack", PolySeq(SimpleBitUnpack(HexToBytes(e.in), e.b)), e.out)
    [] e.ev = "bitunpack"       -> Cmp("BitUnpack", PolyQ(BitUnpack(HexToBytes(e.in), e.a, e.b)), e.out)
    [] e.ev = "hintpack" ->
         Cmp("HintBitPack", BytesToHex(HintBitPack(Fn([i \in 0 .. Len(e.h) - 1 |-> OnesAt(e.h[i + 1])]), ParamSet(e.set))), e.out)
    [] e.ev = "hintunpack" ->
         LET P == ParamSet(e.set)
             r == HintBitUnpack(HexToBytes(e.in), P)
         IN  IF r.ok # e.ok THEN <<"HintBitUnpack accepts/rejects differently from FIPS 204 Algorithm 21", ToString(r.ok)>>
             ELSE IF ~r.ok THEN <<>>
             ELSE Cmp("HintBitUnpack", [i \in 1 .. P.k |-> NonZeroPositions(r.h[i - 1])], e.h)
    \* ---- sampling
    [] e.ev = "rejntt"       -> Cmp("RejNTTPoly", PolySeq(RejNTTPoly(HexToBytes(e.rho))), e.out)
    [] e.ev = "rejbounded"   -> Cmp("RejBoundedPoly", PolyQ(RejBoundedPoly(HexToBytes(e.rho), e.eta)), e.out)
    [] e.ev = "sampleinball" -> Cmp("SampleInBall", PolyQ(SampleInBall(HexToBytes(e.rho), e.tau)), e.out)
    [] e.ev = "expandmask"   ->
         LET P == ParamSet(e.set)
             y == ExpandMask(HexToBytes(e.rho), e.mu, P)
         IN  Cmp("ExpandMask", [i \in 1 .. P.l |-> PolyQ(y[i - 1])], e.out)
    \* ---- composite encodings of keys and signatures (Algorithms 22-27)
    [] e.ev = "sigencode" ->
         LET P == ParamSet(e.set)
             hv == Fn([i \in 0 .. P.k - 1 |-> OnesAt(e.h[i + 1])])
         IN  Cmp("sigEncode", BytesToHex(SigEncode(HexToBytes(e.c), VecOf(e.z), hv, P)), e.out)
    [] e.ev = "sigdecode" ->
         LET P == ParamSet(e.set)
             d == SigDecode(HexToBytes(e.in), P)
         IN  IF d.ok # e.ok THEN <<"sigDecode accepts/rejects differently from FIPS 204 Algorithm 27", ToString(d.ok)>>
             ELSE IF ~d.ok THEN <<>>
             ELSE Cmp("sigDecode",
                      <<BytesToHex(d.ct), [i \in 1 .. P.l |-> PolyQ(d.z[i - 1])], [i \in 1 .. P.k |-> NonZeroPositions(d.h[i - 1])]>>,
                      <<e.c, e.z, e.h>>)
    [] e.ev = "pkdecode" ->
         LET P  == ParamSet(e.set)
             pk == HexToBytes(e.in)
             d  == PKDecode(pk, P)
         IN  Cmp("pkDecode / pkEncode / tr",
                 <<BytesToHex(d.rho), [i \in 1 .. P.k |-> PolySeq(d.t1[i - 1])], BytesToHex(H(pk, 64)), BytesToHex(PKEncode(d.rho, d.t1, P))>>,
                 <<e.rho, e.t1, e.tr, e.re>>)
    [] e.ev = "skdecode" ->
         LET P  == ParamSet(e.set)
             sk == HexToBytes(e.in)
             d  == SKDecode(sk, P)
         IN  Cmp("skDecode / skEncode",
                 <<BytesToHex(d.rho), BytesToHex(d.K), BytesToHex(d.tr), [i \in 1 .. P.l |-> PolyQ(d.s1[i - 1])],
                   [i \in 1 .. P.k |-> PolyQ(d.s2[i - 1])], [i \in 1 .. P.k |-> PolyQ(d.t0[i - 1])],
                   BytesToHex(SKEncode(d.rho, d.K, d.tr, d.s1, d.s2, d.t0, P))>>,
                 <<e.rho, e.K, e.tr, e.s1, e.s2, e.t0, e.re>>)
    [] OTHER -> <<"unknown event", e.ev>>

Start == IF "VERIF_START" \in DOMAIN IOEnv THEN atoi(IOEnv.VERIF_START) ELSE 1

Init == l = Start /\ bad = <<>>
Next == /\ l <= Len(Trace)
        /\ bad' = Judge(Trace[l])
        /\ l' = l + 1
Spec == Init /\ [][Next]_vars

Conforms == bad = <<>>
Consumed == TLCGet("stats").diameter = Len(Trace) + 2 - Start
================================================================================
