------------------------------ MODULE Trace_Derive ------------------------------
(* Trace validation for C17: every recorded DeriveKeyset call of the real code     *)
(* (derived handle projected with its key material), every use of a derived key     *)
(* through the ordinary primitive of its type, and the calls of the internal        *)
(* stream / per-type rule are judged against module Derivation (RFC 5869 in TLA+     *)
(* over the JDK HMAC; GCM, ChaCha20-Poly1305, Ed25519, AES of the JDK).              *)
EXTENDS Derivation, Json, IOUtils, TLC

Trace == ndJsonDeserialize(IOEnv.VERIF_TRACE)

VARIABLES l, bad
vars == <<l, bad>>

D(d) == [type |-> d.type, variant |-> d.variant, keySize |-> d.keySize, hash |-> d.hash, tagSize |-> d.tagSize,
         salt |-> HexToBytes(d.salt)]
KS(e) == [i \in 1..Len(e.ks) |->
           [id |-> e.ks[i].id, status |-> e.ks[i].status, primary |-> e.ks[i].primary,
            prfHash |-> e.ks[i].prfHash, prfSalt |-> HexToBytes(e.ks[i].prfSalt), prfKey |-> HexToBytes(e.ks[i].prfKey),
            d |-> D(e.ks[i].d)]]
\* the projection of one key of the derived handle as logged by the driver
Got(o) == [id |-> o.id, status |-> o.status, primary |-> o.primary, type |-> o.type, variant |-> o.variant,
           keySize |-> o.keySize, hash |-> o.hash, tagSize |-> o.tagSize, salt |-> HexToBytes(o.salt),
           material |-> HexToBytes(o.material)]
GotSeq(os) == [i \in 1..Len(os) |-> Got(os[i])]

\* first difference between the derived handle and the specification's keyset, as a reason
Diff(got, want) ==
  IF Len(got) # Len(want) THEN "derived keyset does not hold one key per enabled deriver key"
  ELSE LET badIdx == {i \in DOMAIN want : got[i] # want[i]}
       IN IF badIdx = {} THEN ""
          ELSE LET i == CHOOSE j \in badIdx : \A k \in badIdx : j <= k
                   g == got[i] w == want[i]
               IN IF g.id # w.id THEN "derived key does not carry the deriver key's id"
                  ELSE IF g.status # w.status THEN "derived key is not ENABLED"
                  ELSE IF g.primary # w.primary THEN "primary designation not mirrored"
                  ELSE IF g.variant # w.variant THEN "prefix type not preserved"
                  ELSE IF g.material # w.material THEN "key material differs from the leading bytes of HKDF(prfKey, prfSalt, info = salt) mapped by the type's rule"
                  ELSE "derived key type or parameters differ from the deriver key's derived-key parameters"

Hex(b) == BytesToHex(b)
WantStr(w) == IF w[1] THEN Hex(Concat([i \in DOMAIN w[2] |-> w[2][i].material])) ELSE "FAIL"

\* the derived keyset a use event refers to (the driver only uses keysets whose derivation succeeded)
DK(e) == Derive(KS(e), HexToBytes(e.salt))[2]
PK(e) == DerivedPrimary(DK(e))

JudgeValue(e) ==
  CASE e.ev = "construct" -> <<>>                       \* coverage only (DESIGN section 4)
    [] e.ev = "derive" ->
         LET want == Derive(KS(e), HexToBytes(e.salt))
             got  == GotSeq(e.out)
         IN  IF e.panic THEN <<"DeriveKeyset panicked", WantStr(want)>>
             ELSE IF e.ok # want[1] THEN
                    IF want[1] THEN <<"DeriveKeyset failed on a derivable keyset", WantStr(want)>>
                    ELSE <<"DeriveKeyset produced a key needing more bytes than HKDF provides", "FAIL">>
             ELSE IF ~e.ok THEN <<>>
             ELSE IF Diff(got, want[2]) # "" THEN <<Diff(got, want[2]), WantStr(want)>>
             ELSE IF GotSeq(e.out2) # got THEN <<"equal salts gave different keysets", WantStr(want)>>
             ELSE IF ~e.tinkEqual THEN <<"keysets derived from equal salts are not Equal", WantStr(want)>>
             ELSE <<>>
    [] e.ev = "distinct" ->                              \* different salts / PRF keys / PRF salts: different material
         IF Len(e.a) # Len(e.b) \/ \E i \in DOMAIN e.a : e.a[i] = e.b[i] /\ e.a[i] # ""
         THEN <<"different " \o e.why \o " gave equal key material", "">> ELSE <<>>
    [] e.ev = "maprule" ->                               \* keyderivers.DeriveKey on an arbitrary stream
         LET want == MapRule(D(e.d), HexToBytes(e.stream))
         IN  IF e.panic THEN <<"key deriver panicked", Hex(want[2])>>
             ELSE IF e.ok # want[1] THEN
                    IF want[1] THEN <<"key deriver failed although the stream is long enough", Hex(want[2])>>
                    ELSE <<"key deriver produced a key from a stream that is too short", "FAIL">>
             ELSE IF e.ok /\ e.material # Hex(want[2]) THEN <<"derived key is not the leading bytes of the stream", Hex(want[2])>>
             ELSE <<>>
    [] e.ev = "stream" ->                                \* the HKDF streaming PRF read sequentially in chunks
         LET s   == HKDFStream(e.hash, HexToBytes(e.key), HexToBytes(e.prfSalt), HexToBytes(e.input))
             out == HexToBytes(e.out)
         IN  IF e.panic THEN <<"streaming PRF panicked", "">>
             ELSE IF ~IsPrefixOf(out, s) THEN <<"stream is not RFC 5869 output read from its start", Hex(Take(s, Len(out)))>>
             ELSE IF e.asked <= Len(s) /\ (e.err \/ Len(out) # e.asked) THEN <<"stream ended before 255 * HashLen bytes", Hex(Take(s, e.asked))>>
             ELSE <<>>
    [] e.ev = "use_aead" ->
         LET r == AeadOpen(PK(e), HexToBytes(e.ct), HexToBytes(e.ad))
         IN  IF e.panic \/ ~e.ok THEN <<"derived AEAD key is not usable", "">>
             ELSE IF r # <<TRUE, HexToBytes(e.pt)>> THEN <<"reference key does not decrypt the derived key's ciphertext", Hex(PK(e).material)>>
             ELSE <<>>
    [] e.ev = "use_sign" ->
         IF e.panic \/ ~e.ok THEN <<"derived Ed25519 key is not usable", "">>
         ELSE IF e.pub # Hex(EdPublic(PK(e))) THEN <<"public key is not the RFC 8032 public key of the derived seed", Hex(EdPublic(PK(e)))>>
         ELSE IF ~EdVerify(PK(e), HexToBytes(e.msg), HexToBytes(e.sig)) THEN <<"signature does not verify under the reference public key", Hex(EdPublic(PK(e)))>>
         ELSE IF ~e.verified THEN <<"Tink verifier of the derived public key rejects the signature", "">>
         ELSE <<>>
    [] e.ev = "use_mac" ->
         IF e.panic \/ ~e.ok THEN <<"derived HMAC key is not usable", "">>
         ELSE IF e.tag # Hex(MacTagOf(PK(e), HexToBytes(e.msg))) THEN <<"tag differs from HMAC under the reference key", Hex(MacTagOf(PK(e), HexToBytes(e.msg)))>>
         ELSE IF ~e.verified THEN <<"VerifyMAC of the derived key rejects its own tag", "">>
         ELSE <<>>
    [] e.ev = "use_daead" ->
         IF e.panic \/ ~e.ok THEN <<"derived AES-SIV key is not usable", "">>
         ELSE IF e.ct # Hex(DaeadCt(PK(e), HexToBytes(e.pt), HexToBytes(e.ad))) THEN <<"ciphertext differs from AES-SIV under the reference key", Hex(PK(e).material)>>
         ELSE IF e.pt2 # e.pt THEN <<"derived AES-SIV key does not decrypt its own ciphertext", e.pt>>
         ELSE <<>>
    [] e.ev = "use_prf" ->
         LET r == PrfOut(PK(e), HexToBytes(e.input), e.n)
         IN  IF e.panic \/ ~e.ok THEN <<"derived PRF key is not usable", "">>
             ELSE IF ~r[1] \/ e.out # Hex(r[2]) THEN <<"PRF output differs from the PRF under the reference key", Hex(r[2])>>
             ELSE <<>>
    [] e.ev = "use_stream" ->                            \* no streaming reference here: derived key vs an ordinary key of the same bytes
         IF e.panic \/ ~e.ok THEN <<"derived streaming AEAD key is not usable", "">>
         ELSE IF e.material # Hex(PK(e).material) THEN <<"key material differs from the reference", Hex(PK(e).material)>>
         ELSE IF e.pt2 # e.pt THEN <<"an ordinary key with the derived bytes does not decrypt the derived key's ciphertext", e.pt>>
         ELSE <<>>
    [] OTHER -> <<"unknown event", e.ev>>

\* Every byte string handed to the real code lives in a driver buffer with sentinel-filled spare capacity and guard
\* zones; inIntact records that input bytes, spare capacity and guards were unchanged after the call(s) of the event.
\* A call that alters its input has not computed the standard value "for the caller's input": judged together with
\* the value.  (Known-answer events of the reference gate carry no inIntact.)
Judge(e) ==
  IF "inIntact" \in DOMAIN e /\ ~e.inIntact
  THEN <<"the call altered a buffer handed in by the caller (input bytes, spare capacity or guard zone)", "unchanged">>
  ELSE JudgeValue(e)

Start == IF "VERIF_START" \in DOMAIN IOEnv THEN atoi(IOEnv.VERIF_START) ELSE 1

Init == l = Start /\ bad = <<>>
Next == /\ l <= Len(Trace)
        /\ bad' = Judge(Trace[l])
        /\ l' = l + 1
Spec == Init /\ [][Next]_vars

Conforms == bad = <<>>
Consumed == TLCGet("stats").diameter = Len(Trace) + 2 - Start
================================================================================
