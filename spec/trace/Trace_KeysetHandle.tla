-------------------------- MODULE Trace_KeysetHandle --------------------------
(* Trace validation for X04: every recorded call on real keyset.Manager / keyset.Handle *)
(* objects is matched against the action of KeysetHandle (and, through it, of           *)
(* KeysetManager) with the logged arguments.  After every call the driver logs the      *)
(* projection of EVERY manager and of EVERY live handle; the model's post-state must    *)
(* equal it (so a pure accessor that changed anything, or a handle that changed after    *)
(* it was handed out, is seen at the call that did it).                                  *)
(*                                                                                       *)
(* A mismatch reason starts with "doc:" when the real behaviour contradicts what the     *)
(* library documents (godoc of keyset / insecurecleartextkeyset / testkeyset, the         *)
(* well-formedness of keysets stated by keyset.Validate) and with "obs:" when it only     *)
(* differs from undocumented behaviour that the model copies from the code (error          *)
(* conditions of the internal AddKeyWithOpts, nil receivers, what happens to annotations   *)
(* in derived handles): the check turns the first kind into a VIOLATION and the second     *)
(* into a failed coverage expectation.                                                     *)
EXTENDS Integers, Sequences, FiniteSets, SequencesExt, Json, IOUtils, TLC

Trace == ndJsonDeserialize(IOEnv.VERIF_TRACE)
Start == IF "VERIF_START" \in DOMAIN IOEnv THEN atoi(IOEnv.VERIF_START) ELSE 1

NoReqT == "none"
MgrT == 1..3
SeqToSet(s) == {s[i] : i \in DOMAIN s}
IdsOfEntries(es) == {es[i].id : i \in DOMAIN es}
EventIds(e) ==
  (IF "id" \in DOMAIN e /\ e.id # NoReqT THEN {e.id} ELSE {})
  \cup (IF "r" \in DOMAIN e /\ e.r # NoReqT THEN {e.r} ELSE {})
  \cup (IF "draws" \in DOMAIN e THEN SeqToSet(e.draws) ELSE {})
  \cup (IF "burn" \in DOMAIN e THEN SeqToSet(e.burn) ELSE {})
  \cup (IF "opts" \in DOMAIN e THEN {e.opts[i].id : i \in DOMAIN e.opts} \ {NoReqT} ELSE {})
  \cup (IF "ms" \in DOMAIN e THEN UNION {IdsOfEntries(e.ms[m].entries) \cup SeqToSet(e.ms[m].unavail) : m \in DOMAIN e.ms} ELSE {})
  \cup (IF "hs" \in DOMAIN e THEN UNION {IdsOfEntries(e.hs[h].entries) : h \in DOMAIN e.hs} ELSE {})
IDT == UNION {EventIds(Trace[i]) : i \in DOMAIN Trace}
EventAnns(e) ==
  (IF "a" \in DOMAIN e THEN {e.a} ELSE {})
  \cup (IF "anns" \in DOMAIN e THEN SeqToSet(e.anns) ELSE {})
  \cup (IF "ms" \in DOMAIN e THEN {e.ms[m].ann : m \in DOMAIN e.ms} ELSE {})
  \cup (IF "hs" \in DOMAIN e THEN {e.hs[h].ann : h \in DOMAIN e.hs} ELSE {})
AnnT == UNION {EventAnns(Trace[i]) : i \in DOMAIN Trace}

VARIABLES mgr, handles, res, kx, hx, io, l, bad
K == INSTANCE KeysetHandle WITH ID <- IDT, Mgr <- MgrT, NoReq <- NoReqT, AnnVals <- AnnT,
                                MatIn <- {"PRIVATE", "PUBLIC", "SYMMETRIC"}

vars == <<mgr, handles, res, kx, hx, io, l, bad>>

\* the five fields the model knows of a logged entry
Ent(j) == [id |-> j.id, status |-> j.status, primary |-> j.primary, req |-> j.req, mat |-> j.mat]
Ents(js) == [i \in DOMAIN js |-> Ent(js[i])]

(************************* which action, with which arguments *************************)
IsAddOptsOk(e) == K!Verdict(e.m, e.r, e.opts) = "ok"
Guard(e) ==
  CASE e.ev = "AddRandom"  -> e.id \in IDT \ mgr[e.m].unavail
    [] e.ev = "AddFail"    -> SeqToSet(e.burn) \subseteq IDT \ mgr[e.m].unavail /\ Len(e.burn) <= 1
    [] e.ev = "AddOpts"    -> IsAddOptsOk(e) => /\ e.id \in IDT \ mgr[e.m].unavail
                                                /\ K!Folded(e.r, e.opts).hasFixed => e.id = K!Folded(e.r, e.opts).fixed
    [] e.ev = "NewHandle"  -> e.id \in IDT
    [] e.ev = "Abandoned"  -> FALSE     \* the driver could not continue a planned scenario (a handle is missing)
    [] e.ev \in {"FromHandle", "HLen", "HEntry", "HPrimary", "HInfo", "HString", "HPublic", "Import", "ImportAnn"}
                           -> e.h \in DOMAIN handles
    [] OTHER -> TRUE

Step(e) ==
  CASE e.ev = "AddRandom"  -> K!AddRandom(e.m, e.id, e.withReq, e.mat)
    [] e.ev = "AddFail"    -> K!AddFail(e.m, SeqToSet(e.burn))
    [] e.ev = "AddKeyReq"  -> K!AddKeyReq(e.m, e.id, e.mat)
    [] e.ev \in {"SetPrimary", "Enable", "Disable", "Delete"} -> K!IdOp(e.ev, e.m, e.id)
    [] e.ev = "Handle"     -> K!Handle(e.m)
    [] e.ev = "FromHandle" -> K!FromHandle(e.m, e.h)
    [] e.ev = "SetAnnotations"       -> K!SetAnnotations(e.m, e.a)
    [] e.ev = "SetAnnotationsNilMgr" -> K!SetAnnotationsNilMgr(e.a)
    [] e.ev = "AddOpts"    -> \/ K!AddOptsRefused(e.m, e.r, e.opts)
                              \/ K!AddOptsCollision(e.m, e.r, e.opts)
                              \/ K!AddOptsCollisionClearsPrimary(e.m, e.r, e.opts)
                              \/ K!AddOptsOk(e.m, e.r, e.mat, e.opts, e.id)
    [] e.ev = "AddOptsNilKey" -> K!AddOptsNilKey(e.m, e.opts)
    [] e.ev = "HLen"       -> K!HLen(e.h)
    [] e.ev = "HEntry"     -> K!HEntry(e.h, e.i)
    [] e.ev = "HPrimary"   -> K!HPrimary(e.h)
    [] e.ev = "HInfo"      -> K!HInfo(e.h)
    [] e.ev = "HString"    -> K!HString(e.h)
    [] e.ev = "HPublic"    -> K!HPublic(e.h)
    [] e.ev = "HNil"       -> K!HNil(e.op)
    [] e.ev = "NewHandle"  -> K!NewHandle(e.id, e.withReq, e.mat)
    [] e.ev = "NewHandleFail" -> K!NewHandleFail
    [] e.ev = "Import"     -> K!Import(e.h, e.ctor)
    [] e.ev = "ImportAnn"  -> K!ImportAnn(e.h, e.anns)

(************************* documented vs. copied-from-the-code *************************)
ObsOps == {"AddOpts", "AddOptsNilKey", "HNil", "SetAnnotationsNilMgr", "NewHandleFail", "ImportAnn", "Abandoned"}
ClassErr(e)       == IF e.ev \in ObsOps THEN "obs: " ELSE "doc: "
ClassState(e, me) == IF e.ev \in {"AddOpts", "AddOptsNilKey"} /\ (e.err \/ me) THEN "obs: " ELSE "doc: "
ClassMgrAnn(e)    == IF e.ev = "SetAnnotations" THEN "doc: " ELSE "obs: "
ClassNewAnn(e)    == IF e.ev = "Handle" THEN "doc: " ELSE "obs: "

(************************* the real objects alone: well-formedness *************************)
RealEntryOK(j) == /\ j.status \in {"ENABLED", "DISABLED", "DESTROYED"}
                  /\ j.req \in {NoReqT, j.id}
                  /\ j.raw <=> (j.req = NoReqT)
                  /\ j.mat \in {"PRIVATE", "PUBLIC", "SYMMETRIC"}
RealKeysetOK(js, needPrimary) ==
  /\ \A i, j \in DOMAIN js : i # j => js[i].id # js[j].id
  /\ Cardinality({i \in DOMAIN js : js[i].primary}) \in (IF needPrimary THEN {1} ELSE {0, 1})
  /\ \A i \in DOMAIN js : js[i].primary => js[i].status = "ENABLED"
  /\ \A i \in DOMAIN js : RealEntryOK(js[i])

RealState(e) ==
  IF \E m \in DOMAIN e.ms : ~RealKeysetOK(e.ms[m].entries, FALSE)
    THEN <<"doc: a manager holds an ill-formed keyset (duplicate ids, several primaries, a primary that is not ENABLED, or an id that differs from the key's ID requirement)", ToString(e.ms)>>
  ELSE IF \E m \in DOMAIN e.ms : ~(IdsOfEntries(e.ms[m].entries) \subseteq SeqToSet(e.ms[m].unavail))
    THEN <<"doc: a manager could hand out the id of one of its own keys again", ToString(e.ms)>>
  ELSE IF \E h \in DOMAIN e.hs : Len(e.hs[h].entries) = 0 \/ ~RealKeysetOK(e.hs[h].entries, TRUE)
    THEN <<"doc: a handle is not a well-formed keyset", ToString(e.hs)>>
  ELSE <<>>

(************************* outputs *************************)
InfoAgrees(o, model, real) ==   \* o: logged KeysetInfo-like projection; model: K!InfoOf(...); real: the logged entries of that handle
  /\ "primary" \in DOMAIN o /\ o.primary = model.primary
  /\ Len(o.keys) = Len(model.keys)
  /\ \A i \in DOMAIN o.keys : /\ o.keys[i].id = model.keys[i].id
                              /\ o.keys[i].status = model.keys[i].status
                              /\ o.keys[i].raw = model.keys[i].raw
                              /\ o.keys[i].url = real[i].url

EntryAgrees(o, model) == "id" \in DOMAIN o /\ Ent(o) = model /\ (o.raw <=> (o.req = NoReqT))

DrawsOK(e, unavailPre) ==
  /\ Len(e.draws) >= 1 /\ e.draws[Len(e.draws)] = e.id
  /\ \A i \in 1..(Len(e.draws) - 1) : e.draws[i] \in unavailPre

Output(e, io2, res2, handles2, unavailPre) ==
  CASE e.ev = "AddRandom" /\ ~e.err ->
         IF DrawsOK(e, unavailPre) THEN <<>>
         ELSE <<"doc: random id draws: a draw was discarded although available, or the id is not the last draw", e.id>>
    [] e.ev = "AddKeyReq" /\ ~e.err ->
         IF e.returned = e.id THEN <<>> ELSE <<"doc: AddKey returned an id that is not the key's ID requirement", e.id>>
    [] e.ev = "AddOpts" /\ ~e.err ->
         IF e.id # res2.id THEN <<"doc: AddKeyWithOpts returned an id other than the fixed / required one", ToString(res2.id)>>
         ELSE IF ~K!Folded(e.r, e.opts).hasFixed /\ ~DrawsOK(e, unavailPre)
           THEN <<"doc: random id draws: a draw was discarded although available, or the id is not the last draw", e.id>>
         ELSE <<>>
    [] e.ev = "HLen" -> IF e.out = io2.out THEN <<>> ELSE <<"doc: Len() is not the number of keys", ToString(io2.out)>>
    [] e.ev \in {"HEntry", "HPrimary"} /\ ~e.err ->
         IF EntryAgrees(e.out, io2.out) THEN <<>>
         ELSE <<"doc: " \o e.ev \o ": the entry returned is not the entry of the keyset at that place", ToString(io2.out)>>
    [] e.ev \in {"HInfo", "HString"} /\ ~e.err ->
         IF InfoAgrees(e.out, io2.out, e.hs[e.h].entries) THEN <<>>
         ELSE <<"doc: " \o e.ev \o ": not the projection of the handle's keys (ids, statuses, prefix types, type URLs, primary id)", ToString(io2.out)>>
    [] e.ev = "HPublic" /\ ~e.err ->
         IF e.eq THEN <<>> ELSE <<"doc: Public(): a key of the result is not the public key of the private key at the same place", "TRUE">>
    [] e.ev = "Import" ->
         IF ~(InfoAgrees(e.m1, io2.out, e.hs[e.h].entries) /\ InfoAgrees(e.m2, io2.out, e.hs[e.h].entries) /\ e.same)
           THEN <<"doc: KeysetMaterial (insecurecleartextkeyset / testkeyset) is not the handle's keyset, or the two differ", ToString(io2.out)>>
         ELSE IF ~e.err /\ ~e.eq THEN <<"doc: a key of the re-imported handle is not Equal to the key it was written from", e.ctor>>
         ELSE <<>>
    [] e.ev = "ImportAnn" /\ ~e.err ->
         IF e.eq THEN <<>> ELSE <<"doc: a key of the re-imported handle is not Equal to the key it was written from", "annotations">>
    [] e.ev = "NewHandle" /\ ~e.err ->
         IF ~DrawsOK(e, {}) THEN <<"doc: NewHandle: the key id is not the (first) random draw", e.id>>
         ELSE IF ~("entries" \in DOMAIN e.alt /\ Ents(e.alt.entries) = K!HView(handles2[Len(handles2)], [mat |-> [i \in {e.id} |-> e.mat]]))
           THEN <<"doc: NewHandle(template) differs from NewManager().Add(template); SetPrimary(id); Handle()", ToString(handles2[Len(handles2)])>>
         ELSE <<>>
    [] OTHER -> <<>>

(************************* model post-state vs. logged projection *************************)
ModelMgr(g, k, m) == K!HView(g[m].entries, k[m])

Compare(e, mgr2, handles2, res2, kx2, hx2, io2, nOld, unavailPre) ==
  IF e.panic THEN <<"doc: the call panicked", e.ev>>
  ELSE IF RealState(e) # <<>> THEN RealState(e)
  ELSE IF res2.err # e.err
    THEN <<ClassErr(e) \o "error/success differs from the specification", ToString(res2.err), ToString(io2.out)>>
  ELSE IF \E m \in MgrT : ModelMgr(mgr2, kx2, m) # Ents(e.ms[m].entries)
    THEN <<ClassState(e, res2.err) \o (IF e.err THEN "a call that returned an error changed the keyset, or the keyset differs from the specification"
                                         ELSE "manager entries differ from the specification"),
           ToString([m \in MgrT |-> ModelMgr(mgr2, kx2, m)])>>
  ELSE IF \E m \in MgrT : mgr2[m].unavail # SeqToSet(e.ms[m].unavail)
    THEN <<ClassState(e, res2.err) \o "set of unavailable ids differs from the specification", ToString([m \in MgrT |-> mgr2[m].unavail])>>
  ELSE IF \E m \in MgrT : kx2[m].ann # e.ms[m].ann
    THEN <<ClassMgrAnn(e) \o "manager annotations differ from the specification (SetAnnotations keeps a copy of the caller's map)",
           ToString([m \in MgrT |-> kx2[m].ann])>>
  ELSE IF Len(handles2) # Len(e.hs)
    THEN <<"doc: number of live handles differs from the specification", ToString(Len(handles2))>>
  ELSE IF \E h \in DOMAIN handles2 : K!HView(handles2[h], hx2[h]) # Ents(e.hs[h].entries)
    THEN <<"doc: a handle differs from the keyset it stands for in the specification (handles are immutable values; derived handles keep ids, statuses, the primary and the order)",
           ToString([h \in DOMAIN handles2 |-> K!HView(handles2[h], hx2[h])])>>
  ELSE IF \E h \in 1..nOld : hx2[h].ann # e.hs[h].ann
    THEN <<"doc: the annotations of a live handle changed", ToString([h \in DOMAIN hx2 |-> hx2[h].ann])>>
  ELSE IF \E h \in (nOld + 1)..Len(handles2) : hx2[h].ann # e.hs[h].ann
    THEN <<ClassNewAnn(e) \o "annotations of the new handle differ from the specification", ToString([h \in DOMAIN hx2 |-> hx2[h].ann])>>
  ELSE Output(e, io2, res2, handles2, unavailPre)

Init ==
  /\ l = Start /\ bad = <<>>
  /\ K!Init

Reset(e) ==
  /\ mgr' = [m \in MgrT |-> K!M!EmptyMgr] /\ handles' = <<>>
  /\ res' = K!Ok("Init", 1, NoReqT)
  /\ kx' = [m \in MgrT |-> K!EmptyX] /\ hx' = <<>>
  /\ io' = K!Call(K!None, K!None)
  /\ bad' = <<>>

Next ==
  /\ l <= Len(Trace)
  /\ l' = l + 1
  /\ LET e == Trace[l] IN
       IF e.ev = "reset" THEN Reset(e)
       ELSE IF ~Guard(e)
         THEN /\ UNCHANGED <<mgr, handles, res, kx, hx, io>>
              /\ bad' = IF e.panic THEN <<"doc: the call panicked", e.ev>>
                        ELSE <<ClassErr(e) \o "call outcome impossible in the specification (guard false)", e.ev>>
         ELSE /\ Step(e)
              /\ bad' = Compare(e, mgr', handles', res', kx', hx', io', Len(handles),
                                IF e.ev \in {"AddRandom", "AddOpts"} THEN mgr[e.m].unavail ELSE {})

Conforms == bad = <<>>
Consumed == TLCGet("stats").diameter = Len(Trace) + 2 - Start
================================================================================
