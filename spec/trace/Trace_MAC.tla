------------------------------- MODULE Trace_MAC -------------------------------
(* Trace validation for C04: every recorded ComputeMAC / VerifyMAC call of the   *)
(* real code is judged against MACTag (RFC 4493 in TLA+, RFC 2104 via the JDK).  *)
EXTENDS MACTag, Json, IOUtils, TLC

Trace == ndJsonDeserialize(IOEnv.VERIF_TRACE)

VARIABLES l, bad
vars == <<l, bad>>

Cfg(e) == [alg |-> e.alg, hash |-> e.hash, tagSize |-> e.tagSize, variant |-> e.variant,
           id |-> HexToBytes(e.id)]

Judge(e) ==
  CASE e.ev = "construct" -> <<>>                       \* coverage only (DESIGN section 4)
    [] e.ev = "compute" ->
         LET want == BytesToHex(Tag(Cfg(e), HexToBytes(e.key), HexToBytes(e.msg)))
         IN  IF e.panic THEN <<"ComputeMAC panicked", want>>
             ELSE IF e.err THEN <<"ComputeMAC failed on a valid key", want>>
             ELSE IF e.out # want THEN <<"tag differs from prefix || Trunc(F(key, msg))", want>>
             ELSE IF e.out2 # e.out THEN <<"ComputeMAC not deterministic (or an earlier returned tag was changed by a later call)", want>>
             ELSE IF "inIntact" \in DOMAIN e /\ ~e.inIntact THEN <<"ComputeMAC changed the caller's message buffer", want>>
             ELSE <<>>
    [] e.ev = "verify" ->
         LET want == Verify(Cfg(e), HexToBytes(e.key), HexToBytes(e.tag), HexToBytes(e.msg))
         IN  IF "panic" \in DOMAIN e /\ e.panic THEN <<"VerifyMAC panicked", ToString(want)>>
             ELSE IF e.ok = want THEN <<>>
             ELSE <<"VerifyMAC verdict differs from (tag = ComputeMAC(msg))", ToString(want)>>
    [] OTHER -> <<"unknown event", e.ev>>

Start == IF "VERIF_START" \in DOMAIN IOEnv THEN atoi(IOEnv.VERIF_START) ELSE 1

Init == l = Start /\ bad = <<>>
Next == /\ l <= Len(Trace)
        /\ bad' = Judge(Trace[l])
        /\ l' = l + 1
Spec == Init /\ [][Next]_vars

Conforms == bad = <<>>
Consumed == TLCGet("stats").diameter = Len(Trace) + 2 - Start
================================================================================
