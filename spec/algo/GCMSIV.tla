--------------------------------- MODULE GCMSIV ---------------------------------
(* AES-GCM-SIV, RFC 8452, over the uninterpreted AES block (Prim.AESEnc).         *)
(*                                                                               *)
(* Everything of the RFC is TLA+ here: the field GF(2^128) of POLYVAL (section   *)
(* 3), POLYVAL itself, derive_keys (section 4), the tag, and the counter mode     *)
(* with a little-endian 32-bit counter that wraps without carrying (section 4).   *)
(*                                                                               *)
(* A field element is a 16-byte string in the RFC's convention: "the first byte   *)
(* holds the coefficients of x^0..x^7, least significant bit first", i.e. the     *)
(* string read as a little-endian 128-bit integer has bit i = coefficient of x^i. *)
(* The field is GF(2)[x] / (x^128 + x^127 + x^126 + x^121 + 1).                   *)
EXTENDS Bytes, SequencesExt

GCMSIVNonceLen == 12
GCMSIVTagLen   == 16

\* ------------------------------------------------------------------ the field
\* coefficient of x^i (0 <= i < 128) of element e
Coeff(e, i) == (e[(i \div 8) + 1] \div (2 ^ (i % 8))) % 2

\* The 128-bit little-endian integer shifted right by one bit: (e - e_0) / x.
ShiftDownLE(e) ==
  [j \in 1..16 |-> (e[j] \div 2) + (IF j < 16 /\ e[j + 1] % 2 = 1 THEN 128 ELSE 0)]

\* x^-1 = x^127 + x^126 + x^125 + x^120   (x * x^-1 = x^128 + x^127 + x^126 + x^121 = 1 mod p)
XInv == Zeros(15) \o <<225>>

\* e * x^-1 : if the constant coefficient is set, (e - 1)/x + x^-1, otherwise e / x.
MulXInv(e) == IF e[1] % 2 = 1 THEN Xor(ShiftDownLE(e), XInv) ELSE ShiftDownLE(e)

\* dot(a, b) = a * b * x^-128  (RFC 8452 section 3).  Horner over the coefficients of a from
\* x^0 upwards: the term a_i * b is multiplied by x^-1 exactly 128 - i times.
Dot(a, b) ==
  FoldLeft(LAMBDA z, i : MulXInv(IF Coeff(a, i) = 1 THEN Xor(z, b) ELSE z),
           Zeros(16), [k \in 1..128 |-> k - 1])

\* POLYVAL(H, X_1, ..., X_s): S_0 = 0, S_j = dot(S_{j-1} + X_j, H); data is a multiple of 16 bytes.
POLYVAL(h, data) ==
  FoldLeft(LAMBDA s, j : Dot(Xor(s, Slice(data, 16 * (j - 1), 16)), h),
           Zeros(16), [j \in 1..(Len(data) \div 16) |-> j])

\* Incremental interface of implementations ("Update" zero-pads every chunk to a block multiple).
PadBlock(s) == s \o Zeros((16 - (Len(s) % 16)) % 16)
PolyvalOfChunks(h, chunks) == POLYVAL(h, Concat([i \in 1..Len(chunks) |-> PadBlock(chunks[i])]))

\* ------------------------------------------------------------------ derive_keys (section 4)
\* message-authentication key (16 bytes) and message-encryption key (16 or 32 bytes) from the
\* key-generating key and the 96-bit nonce: the first 8 bytes of AES(K, LE32(i) || nonce).
DeriveBlock(key, nonce, i) == Take(AESEnc(key, LE(i, 4) \o nonce), 8)
DeriveKeys(key, nonce) ==
  [auth |-> DeriveBlock(key, nonce, 0) \o DeriveBlock(key, nonce, 1),
   enc  |-> IF Len(key) = 16
            THEN DeriveBlock(key, nonce, 2) \o DeriveBlock(key, nonce, 3)
            ELSE DeriveBlock(key, nonce, 2) \o DeriveBlock(key, nonce, 3) \o
                 DeriveBlock(key, nonce, 4) \o DeriveBlock(key, nonce, 5)]

\* ------------------------------------------------------------------ tag
ClearTopBit(b) == [b EXCEPT ![16] = b[16] % 128]
SetTopBit(b)   == [b EXCEPT ![16] = (b[16] % 128) + 128]

SIVTag(keys, nonce, pt, ad) ==
  LET lengthBlock == BitLenLE64(Len(ad)) \o BitLenLE64(Len(pt))
      s == POLYVAL(keys.auth, PadBlock(ad) \o PadBlock(pt) \o lengthBlock)
  IN AESEnc(keys.enc, ClearTopBit(Xor(s, nonce \o Zeros(4))))

\* ------------------------------------------------------------------ counter mode (section 4)
\* initial counter block = tag with the most significant bit of the last byte set; the first four
\* bytes are a little-endian uint32 incremented per block, wrapping at 2^32, bytes 5..16 fixed.
NextCounter(cb) == IncLE(Take(cb, 4)) \o Drop(cb, 4)

SIVCtr(encKey, counterBlock, in) ==
  LET n  == (Len(in) + 15) \div 16
      st == FoldLeft(LAMBDA s, j : [cb |-> NextCounter(s.cb), ks |-> s.ks \o AESEnc(encKey, s.cb)],
                     [cb |-> counterBlock, ks |-> <<>>], [j \in 1..n |-> j])
  IN Xor(in, Take(st.ks, Len(in)))

\* ------------------------------------------------------------------ AEAD (raw: nonce || ct || tag)
GCMSIVSeal(key, nonce, pt, ad) ==
  LET keys == DeriveKeys(key, nonce)
      tag  == SIVTag(keys, nonce, pt, ad)
  IN nonce \o SIVCtr(keys.enc, SetTopBit(tag), pt) \o tag

\* <<ok, plaintext>>
GCMSIVOpen(key, c, ad) ==
  IF Len(c) < GCMSIVNonceLen + GCMSIVTagLen THEN <<FALSE, <<>>>>
  ELSE LET nonce == Take(c, GCMSIVNonceLen)
           tag   == LastN(c, GCMSIVTagLen)
           body  == SubSeq(c, GCMSIVNonceLen + 1, Len(c) - GCMSIVTagLen)
           keys  == DeriveKeys(key, nonce)
           pt    == SIVCtr(keys.enc, SetTopBit(tag), body)
       IN IF SIVTag(keys, nonce, pt, ad) = tag THEN <<TRUE, pt>> ELSE <<FALSE, <<>>>>
================================================================================
