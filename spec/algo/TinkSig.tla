--------------------------------- MODULE TinkSig ---------------------------------
(* Tink's signature wire format over the four classical schemes:                   *)
(*                                                                                *)
(*     signature = output-prefix || RawSig(message [|| 0x00 if LEGACY])           *)
(*                                                                                *)
(* and the property's verification rule: a byte string verifies iff it carries the *)
(* key's exact prefix and the rest is a strictly encoded signature of the standard *)
(* algorithm over the (suffixed) message under the public key.                     *)
(*                                                                                *)
(* cfg: [alg     |-> "ECDSA" | "ED25519" | "RSA_PKCS1" | "RSA_PSS",                *)
(*       curve   |-> "P256" | "P384" | "P521"        (ECDSA; "" otherwise)         *)
(*       hash    |-> "SHA256" | "SHA384" | "SHA512"  (not ED25519)                 *)
(*       mgf     |-> MGF1 hash                       (RSA_PSS; Tink: = hash)       *)
(*       enc     |-> "DER" | "IEEE_P1363"            (ECDSA)                       *)
(*       saltLen |-> n                               (RSA_PSS)                     *)
(*       variant |-> "TINK" | "CRUNCHY" | "LEGACY" | "NO_PREFIX",  id |-> 4 bytes] *)
(* pk : ECDSA 04||X||Y ; ED25519 32 bytes ; RSA [n, e].                             *)
EXTENDS OutputPrefix, ECDSASig, EdSig, RSASig

RawVerify(cfg, pk, raw, m) ==
  CASE cfg.alg = "ECDSA"     -> ECDSAVerify(cfg.curve, cfg.hash, cfg.enc, pk, raw, m)
    [] cfg.alg = "ED25519"   -> EdVerify(pk, raw, m)
    [] cfg.alg = "RSA_PKCS1" -> PKCS1Verify(pk, cfg.hash, raw, m)
    [] cfg.alg = "RSA_PSS"   -> PSSVerify(pk, cfg.hash, cfg.mgf, cfg.saltLen, raw, m)

SigVerify(cfg, pk, sig, msg) ==
  LET p == Prefix(cfg.variant, cfg.id)
  IN /\ IsPrefixOf(p, sig)
     /\ RawVerify(cfg, pk, Drop(sig, Len(p)), LegacyMsg(cfg.variant, msg))

\* Second opinions, where another implementation of the whole algorithm exists (the JDK's ECDSA,
\* RSASSA-PKCS1-v1_5 and RSASSA-PSS providers).  agree = FALSE means the two references disagree in a
\* way that is not a documented deviation of the provider: an infrastructure alarm, never a verdict.
\* RawJudge(...).ok is RawVerify(...) (the same definitions; the ECDSA equation is evaluated once).
RawJudge(cfg, pk, raw, m) ==
  CASE cfg.alg = "ECDSA" ->
         LET d == DecodeRS(cfg.enc, cfg.curve, raw) IN
         IF ~d[1] THEN [ok |-> FALSE, agree |-> TRUE]
         ELSE LET dg == Hash(cfg.hash, m)
                  v  == Evaluate(cfg.curve, pk, dg, d[2], d[3])
              IN [ok |-> v.ok, agree |-> ProviderAgrees(v, cfg.curve, pk, dg, d[2], d[3])]
    [] cfg.alg = "RSA_PKCS1" ->
         [ok |-> PKCS1Verify(pk, cfg.hash, raw, m), agree |-> PKCS1ProviderAgrees(pk, cfg.hash, raw, m)]
    [] cfg.alg = "RSA_PSS" ->
         LET std == PSSVerify(pk, cfg.hash, cfg.mgf, cfg.saltLen, raw, m)
         IN [ok |-> std,
             agree |-> \/ cfg.mgf # cfg.hash \/ cfg.hash \notin {"SHA256", "SHA384", "SHA512"}
                       \/ RSAVerifyPSS(pk.n, pk.e, cfg.hash, cfg.saltLen, m, raw) = std]
    [] OTHER -> [ok |-> RawVerify(cfg, pk, raw, m), agree |-> TRUE]

\* SigJudge(...).ok = SigVerify(...).
SigJudge(cfg, pk, sig, msg) ==
  LET p == Prefix(cfg.variant, cfg.id)
  IN IF ~IsPrefixOf(p, sig) THEN [ok |-> FALSE, agree |-> TRUE]
     ELSE RawJudge(cfg, pk, Drop(sig, Len(p)), LegacyMsg(cfg.variant, msg))

\* Reference signer (randomized for ECDSA; PSS salt supplied).  sk: ECDSA scalar bytes;
\* ED25519 seed; RSA [n, d].  Returns the complete Tink-format signature.
RawSign(cfg, sk, salt, m) ==
  CASE cfg.alg = "ECDSA"     -> LET rs == ECDSASignDigestRS(cfg.curve, sk, Hash(cfg.hash, m))
                                IN EncodeRS(cfg.enc, cfg.curve, rs[1], rs[2])
    [] cfg.alg = "ED25519"   -> EdSign(sk, m)
    [] cfg.alg = "RSA_PKCS1" -> PKCS1Sign(sk, cfg.hash, m)
    [] cfg.alg = "RSA_PSS"   -> PSSSign(sk, cfg.hash, cfg.mgf, salt, m)

SigSign(cfg, sk, salt, msg) ==
  Prefix(cfg.variant, cfg.id) \o RawSign(cfg, sk, salt, LegacyMsg(cfg.variant, msg))
================================================================================
