------------------------------ MODULE HKDFLabeled ------------------------------
(* HKDF (RFC 5869) over the HMAC primitive, and the labeled variants of RFC 9180  *)
(* section 4.  Everything here is TLA+; only HMAC itself is the primitive layer's. *)
(*                                                                                *)
(* RFC 5869 2.2   HKDF-Extract(salt, IKM) -> PRK = HMAC-Hash(salt, IKM)           *)
(*                (salt optional; if not provided, HashLen zero octets)           *)
(* RFC 5869 2.3   HKDF-Expand(PRK, info, L) -> OKM:                               *)
(*                N = ceil(L/HashLen); T(0) = empty;                              *)
(*                T(i) = HMAC-Hash(PRK, T(i-1) | info | i)  (i one octet);        *)
(*                OKM = first L octets of T(1) | ... | T(N);  L <= 255*HashLen    *)
EXTENDS Bytes, SequencesExt

HashLen(alg) ==
  CASE alg = "SHA1" -> 20 [] alg = "SHA224" -> 28 [] alg = "SHA256" -> 32
    [] alg = "SHA384" -> 48 [] alg = "SHA512" -> 64

HKDFExtract(alg, salt, ikm) ==
  HMAC(alg, IF Len(salt) = 0 THEN Zeros(HashLen(alg)) ELSE salt, ikm)

\* The sequence <<T(1), ..., T(N)>> built left to right (FoldLeft is iterative in TLC).
HKDFBlocks(alg, prk, info, n) ==
  FoldLeft(LAMBDA ts, i : Append(ts, HMAC(alg, prk, (IF i = 1 THEN <<>> ELSE ts[i - 1]) \o info \o <<i>>)),
           <<>>, [i \in 1..n |-> i])

HKDFExpandOK(alg, L) == L >= 0 /\ L <= 255 * HashLen(alg)

HKDFExpand(alg, prk, info, L) ==
  LET n == (L + HashLen(alg) - 1) \div HashLen(alg)
      ts == HKDFBlocks(alg, prk, info, n)
  IN Take(FoldLeft(LAMBDA acc, t : acc \o t, <<>>, ts), L)

\* RFC 5869 2.1: HKDF = Expand(Extract(salt, IKM), info, L)
HKDF(alg, ikm, salt, info, L) == HKDFExpand(alg, HKDFExtract(alg, salt, ikm), info, L)

(* RFC 9180 section 4:                                                            *)
(*   def LabeledExtract(salt, label, ikm):                                        *)
(*     labeled_ikm = concat("HPKE-v1", suite_id, label, ikm)                      *)
(*     return Extract(salt, labeled_ikm)                                          *)
(*   def LabeledExpand(prk, label, info, L):                                      *)
(*     labeled_info = concat(I2OSP(L, 2), "HPKE-v1", suite_id, label, info)       *)
(*     return Expand(prk, labeled_info, L)                                        *)
I2OSP(n, w) == BE(n, w)
HPKEv1 == StrToBytes("HPKE-v1")

LabeledExtract(alg, suiteId, salt, label, ikm) ==
  HKDFExtract(alg, salt, HPKEv1 \o suiteId \o StrToBytes(label) \o ikm)

LabeledExpand(alg, suiteId, prk, label, info, L) ==
  HKDFExpand(alg, prk, I2OSP(L, 2) \o HPKEv1 \o suiteId \o StrToBytes(label) \o info, L)
================================================================================
