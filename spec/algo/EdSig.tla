--------------------------------- MODULE EdSig ---------------------------------
(* Ed25519 (RFC 8032 section 5.1, pure EdDSA, no context): a signature is the    *)
(* 64 octets R || S; the public key 32 octets.  The curve computation and the    *)
(* range check S < L of RFC 8032 5.1.7 are the primitive Ed25519Verify.          *)
EXTENDS Bytes

EdSigLen == 64
EdPkLen  == 32

EdVerify(pk, raw, msg) ==
  /\ Len(pk) = EdPkLen
  /\ Len(raw) = EdSigLen
  /\ Ed25519Verify(pk, msg, raw)

\* Reference signer from the 32-byte seed (RFC 8032 5.1.5 / 5.1.6; deterministic).
EdSign(seed, msg) == Ed25519Sign(seed, msg)
================================================================================
