---------------------------------- MODULE XWing ----------------------------------
(* X-Wing KEM, draft-connolly-cfrg-xwing-kem (general-purpose hybrid of ML-KEM-768 *)
(* and X25519).  TLA+ over the primitives X25519, SHA3-256, SHAKE256; ML-KEM-768    *)
(* decapsulation / encapsulation is an ASSUMED primitive (the JDK has none): it is  *)
(* passed in as an operator  MLD(param, seed64, ct) -> <<ok, ss>>.                  *)
(*                                                                                *)
(*   XWingLabel = concat("\./", "/^\")        (6 octets 5c 2e 2f 2f 5e 5c)          *)
(*   def expandDecapsulationKey(sk):                                              *)
(*     expanded = SHAKE256(sk, 96)                                                *)
(*     (pk_M, sk_M) = ML-KEM-768.KeyGen_internal(expanded[0:32], expanded[32:64]) *)
(*     sk_X = expanded[64:96];  pk_X = X25519(sk_X, X25519_BASE)                  *)
(*   def Combiner(ss_M, ss_X, ct_X, pk_X):                                        *)
(*     return SHA3-256(concat(ss_M, ss_X, ct_X, pk_X, XWingLabel))                *)
(*   def Decapsulate(ct, sk):                                                     *)
(*     ct_M = ct[0:1088]; ct_X = ct[1088:1120]                                    *)
(*     ss_M = ML-KEM-768.Decaps(ct_M, sk_M); ss_X = X25519(sk_X, ct_X)            *)
(*     return Combiner(ss_M, ss_X, ct_X, pk_X)                                    *)
(*   def EncapsulateDerand(pk, eseed):  pk_M = pk[0:1184]; pk_X = pk[1184:1216]   *)
(*     ek_X = eseed[32:64]; ct_X = X25519(ek_X, BASE); ss_X = X25519(ek_X, pk_X)  *)
(*     (ss_M, ct_M) = ML-KEM-768.EncapsDerand(pk_M, eseed[0:32])                  *)
(*     return Combiner(ss_M, ss_X, ct_X, pk_X), concat(ct_M, ct_X)                *)
EXTENDS Bytes

XWingLabel == <<92, 46, 47, 47, 94, 92>>
XWingNsk == 32
XWingNpk == 1216
XWingNct == 1120
MLKEM768Nct == 1088
MLKEM768Npk == 1184

XWingExpand(sk) == SHAKE256(sk, 96)
XWingSeedM(sk) == Take(XWingExpand(sk), 64)      \* (d, z) of ML-KEM-768.KeyGen_internal
XWingSkX(sk) == Drop(XWingExpand(sk), 64)

XWingCombiner(ssM, ssX, ctX, pkX) == Hash("SHA3-256", ssM \o ssX \o ctX \o pkX \o XWingLabel)

\* X25519 as the total function of RFC 7748 (the draft does not ask for an all-zero check: ct_X and
\* pk_X are hashed into the combiner).  The primitive layer reports a small-order input as failure,
\* which for 32-byte inputs is exactly "the output is all zero".
XWingX25519(k, u) == LET x == X25519(k, u) IN IF x[1] THEN x[2] ELSE Zeros(32)

\* Decapsulate -> <<ok, ss>>; fails only on wrong lengths or when ML-KEM decapsulation fails.
XWingDecap(ct, sk, MLD(_, _, _)) ==
  IF Len(ct) # XWingNct \/ Len(sk) # XWingNsk THEN <<FALSE, <<>>>>
  ELSE LET ctM == Take(ct, MLKEM768Nct)
           ctX == Drop(ct, MLKEM768Nct)
           skX == XWingSkX(sk)
           m   == MLD("768", XWingSeedM(sk), ctM)
       IN IF ~m[1] THEN <<FALSE, <<>>>>
          ELSE <<TRUE, XWingCombiner(m[2], XWingX25519(skX, ctX), ctX, X25519Public(skX))>>

\* Encapsulation with a chosen X25519 ephemeral key and a given ML-KEM encapsulation (ctM, ssM) to pk_M.
XWingEncap(pk, ekX, ctM, ssM) ==
  LET pkX == Drop(pk, MLKEM768Npk)
      ctX == X25519Public(ekX)
  IN IF Len(pk) # XWingNpk THEN <<FALSE, <<>>, <<>>>>
     ELSE <<TRUE, XWingCombiner(ssM, XWingX25519(ekX, pkX), ctX, pkX), ctM \o ctX>>
================================================================================
