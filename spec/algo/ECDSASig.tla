------------------------------- MODULE ECDSASig -------------------------------
(* ECDSA signature verification (FIPS 186-5 section 6.4.2 / SEC 1 section 4.1.4) *)
(* over the NIST curves, for the two signature encodings Tink supports:          *)
(*   DER        ECDSA-Sig-Value, strict DER (module DER)                         *)
(*   IEEE_P1363 r || s, each exactly the byte length of the group order          *)
(* The verification equation is written out below; its arithmetic (integers mod  *)
(* n, the curve point u1*G + u2*Q) is the primitive layer PrimSig.  The JDK's    *)
(* ECDSA provider, fed the RAW integers r and s (never its own DER parser), is   *)
(* kept as a second opinion (ProviderAgrees).                                    *)
EXTENDS DER, PrimSig

Curves == {"P256", "P384", "P521"}

\* Byte length of the group order n (= of the field, for these curves).
OrderLen(curve) == CASE curve = "P256" -> 32 [] curve = "P384" -> 48 [] curve = "P521" -> 66

\* Decoding of the signature bytes to <<ok, r, s>> (magnitudes).
DecodeRS(enc, curve, raw) ==
  IF enc = "DER" THEN ParseSig(raw)
  ELSE IF Len(raw) = 2 * OrderLen(curve)
       THEN <<TRUE, Take(raw, OrderLen(curve)), Drop(raw, OrderLen(curve))>>
       ELSE <<FALSE, <<>>, <<>>>>

\* The inverse, used by the reference signer (Plan_Sig) and in self tests.
EncodeRS(enc, curve, r, s) ==
  IF enc = "DER" THEN EncodeSig(r, s)
  ELSE LET n == OrderLen(curve)
           Fix(x) == LET m == StripZeros(x) IN Zeros(n - Len(m)) \o m
       IN Fix(r) \o Fix(s)

\* ------------------------------------------------------------------ FIPS 186-5 section 6.4.2
OrderBits(curve) == CASE curve = "P256" -> 256 [] curve = "P384" -> 384 [] curve = "P521" -> 521

\* Step 1: r and s are integers in [1, n-1].
InRange(curve, x) ==
  LET n == ECOrderBytes(curve)
      m == StripZeros(x)
  IN m # <<>> /\ BytesLess(m, n)

\* Step 2-3: e = the leftmost min(N, outlen) bits of the digest, N = bitlen(n).
ShiftRightN(b, k) ==
  LET RECURSIVE S(_, _)
      S(x, i) == IF i = 0 THEN x ELSE S(ShiftRight1(x), i - 1)
  IN S(b, k)
Bits2Int(curve, digest) ==
  LET N == OrderBits(curve) IN
  IF 8 * Len(digest) <= N THEN digest
  ELSE LET t == Take(digest, (N + 7) \div 8) IN ShiftRightN(t, 8 * Len(t) - N)

\* Steps 4-7: w = s^-1 mod n; u1 = e*w mod n; u2 = r*w mod n; R = u1*G + u2*Q as <<ok, x_R>>,
\* not ok when R is the point at infinity (or pk is not a point of the curve).
\* pk: uncompressed point 04 || X || Y.
PointR(curve, pk, digest, r, s) ==
  LET n  == ECOrderBytes(curve)
      e  == Bits2Int(curve, digest)
      w  == BigInvMod(s, n)
      u1 == BigMulMod(e, w, n)
      u2 == BigMulMod(r, w, n)
  IN ECMulAdd(curve, u1, u2, pk)

\* Step 8: accept iff x_R mod n = r.  The outcome of the algorithm, with x_R kept for the
\* second opinion below: [ok |-> verdict, xR |-> x-coordinate of R (<<>> if none)].
Evaluate(curve, pk, digest, r, s) ==
  IF ~(InRange(curve, r) /\ InRange(curve, s)) THEN [ok |-> FALSE, xR |-> <<>>]
  ELSE LET n == ECOrderBytes(curve)
           R == PointR(curve, pk, digest, r, s)
       IN IF ~R[1] THEN [ok |-> FALSE, xR |-> <<>>]
          ELSE [ok |-> BigMod(R[2], n) = BigMod(r, n), xR |-> R[2]]

VerifyDigest(curve, pk, digest, r, s) == Evaluate(curve, pk, digest, r, s).ok

\* Second opinion: the JDK's own ECDSA provider on the same raw (r, s).  It must agree with the
\* equation above except where it is known to deviate from the standard: it compares r with
\* x_R, not x_R mod n, so a valid signature with x_R >= n is rejected (Wycheproof flag
\* ArithmeticError, "k*G has a large x-coordinate"; probability ~ 2^-128 for honest signers).
\* v is Evaluate(...) of the same arguments.
ProviderAgrees(v, curve, pk, digest, r, s) ==
  LET jdk == ECDSAVerifyRS(curve, pk, digest, r, s)
  IN \/ jdk = v.ok
     \/ v.ok /\ ~jdk /\ ~BytesLess(v.xR, ECOrderBytes(curve))

\* Raw (un-prefixed) signature over msg.
ECDSAVerify(curve, hash, enc, pk, raw, msg) ==
  LET d == DecodeRS(enc, curve, raw)
  IN d[1] /\ VerifyDigest(curve, pk, Hash(hash, msg), d[2], d[3])

\* Reference signer: <<r, s>> as fixed-length byte strings, made by the primitive.
ECDSASignDigestRS(curve, sk, digest) ==
  LET p == ECDSASignRS(curve, sk, digest)
  IN <<Take(p, OrderLen(curve)), Drop(p, OrderLen(curve))>>
================================================================================
