----------------------------------- MODULE EtM -----------------------------------
(* Tink AES-CTR-HMAC: generic encrypt-then-MAC composition                          *)
(* (draft-mcgrew-aead-aes-cbc-hmac-sha2 style associated-data length suffix):       *)
(*     c   = IV || AES-CTR(encKey, IV, plaintext)                                   *)
(*     tag = first t bytes of HMAC(hash, macKey, ad || c || be64(8 * |ad|))         *)
(*     ciphertext = c || tag                                                        *)
(* cfg: [ivLen, tagLen, hash]                                                       *)
EXTENDS AESCTR

EtMTag(cfg, macKey, c, ad) == Take(HMAC(cfg.hash, macKey, ad \o c \o BitLenBE64(Len(ad))), cfg.tagLen)

EtMSealRaw(cfg, encKey, macKey, iv, pt, ad) ==
  LET c == AESCTREncrypt(encKey, iv, pt) IN c \o EtMTag(cfg, macKey, c, ad)

\* <<ok, plaintext>>
EtMOpenRaw(cfg, encKey, macKey, ct, ad) ==
  IF Len(ct) < cfg.ivLen + cfg.tagLen THEN <<FALSE, <<>>>>
  ELSE LET c   == Take(ct, Len(ct) - cfg.tagLen)
           tag == LastN(ct, cfg.tagLen)
       IN IF tag = EtMTag(cfg, macKey, c, ad) THEN <<TRUE, AESCTRDecrypt(encKey, cfg.ivLen, c)>>
          ELSE <<FALSE, <<>>>>
================================================================================
