------------------------------ MODULE OutputPrefix ------------------------------
(* Tink output prefix (documented wire format):                                  *)
(*   TINK    : 0x01 || big-endian 32-bit key id                                  *)
(*   CRUNCHY : 0x00 || big-endian 32-bit key id                                  *)
(*   LEGACY  : 0x00 || big-endian 32-bit key id  (and message || 0x00 for MAC/signatures) *)
(*   RAW / NO_PREFIX : empty                                                     *)
(* A key id is carried as its 4 big-endian bytes (a uint32 does not fit a TLC integer). *)
EXTENDS Bytes

Variants == {"TINK", "CRUNCHY", "LEGACY", "NO_PREFIX"}

Prefix(variant, idBytes) ==
  CASE variant = "TINK"      -> <<1>> \o idBytes
    [] variant = "CRUNCHY"   -> <<0>> \o idBytes
    [] variant = "LEGACY"    -> <<0>> \o idBytes
    [] variant = "NO_PREFIX" -> <<>>

PrefixLen(variant) == IF variant = "NO_PREFIX" THEN 0 ELSE 5

\* Message actually authenticated/signed: LEGACY appends one zero byte.
LegacyMsg(variant, msg) == IF variant = "LEGACY" THEN msg \o <<0>> ELSE msg
================================================================================
