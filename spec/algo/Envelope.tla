--------------------------------- MODULE Envelope ---------------------------------
(* KMS envelope encryption (Tink wire format):                                      *)
(*     be32(|encDEK|) || encDEK || payload                                          *)
(*   encDEK  = remoteAEAD.Encrypt(serialized DEK, associated data = empty)          *)
(*   payload = DEK-AEAD.Encrypt(plaintext, associated data), RAW (no output prefix)  *)
(* The DEK travels as the serialized protobuf key message of its key type; the part  *)
(* of the protobuf wire format that those messages use (varint and length-delimited  *)
(* fields) is specified here.  0 < |encDEK|; Encrypt emits at most 4096.             *)
EXTENDS AEADWire

EnvelopeMaxEncDEK == 4096
EnvFail == <<FALSE, <<>>>>

\* ------------------------------------------------------------------ protobuf wire format (subset)
\* varint at 1-based position p of b: [ok, val, next]; values >= 2^28 are outside what key messages hold
RECURSIVE PBVarint(_, _, _, _)
PBVarint(b, p, shift, acc) ==
  IF p > Len(b) \/ shift > 21 THEN [ok |-> FALSE, val |-> 0, next |-> p]
  ELSE LET v == acc + (b[p] % 128) * (2 ^ shift)
       IN IF b[p] < 128 THEN [ok |-> TRUE, val |-> v, next |-> p + 1]
          ELSE PBVarint(b, p + 1, shift + 7, v)

\* sequence of fields [num, wt, int, bytes] of message b, or <<[num |-> -1]>> when malformed
RECURSIVE PBFields(_, _)
PBFields(b, p) ==
  IF p > Len(b) THEN <<>>
  ELSE LET t == PBVarint(b, p, 0, 0)
       IN IF ~t.ok THEN <<[num |-> -1]>>
          ELSE LET num == t.val \div 8
                   wt  == t.val % 8
               IN IF wt = 0 THEN
                       LET v == PBVarint(b, t.next, 0, 0)
                       IN IF ~v.ok THEN <<[num |-> -1]>>
                          ELSE <<[num |-> num, wt |-> 0, int |-> v.val, bytes |-> <<>>]>> \o PBFields(b, v.next)
                  ELSE IF wt = 2 THEN
                       LET n == PBVarint(b, t.next, 0, 0)
                       IN IF ~n.ok \/ n.next + n.val - 1 > Len(b) THEN <<[num |-> -1]>>
                          ELSE <<[num |-> num, wt |-> 2, int |-> 0, bytes |-> SubSeq(b, n.next, n.next + n.val - 1)]>>
                               \o PBFields(b, n.next + n.val)
                  ELSE <<[num |-> -1]>>

PBParse(b) == PBFields(b, 1)
PBOk(fs) == \A i \in 1..Len(fs) : fs[i].num # -1
\* proto3: last occurrence wins; absent scalar = 0, absent bytes/message = empty
PBInt(fs, num) ==
  LET hit == SelectSeq(fs, LAMBDA f : f.num = num /\ f.wt = 0) IN IF hit = <<>> THEN 0 ELSE hit[Len(hit)].int
PBBytes(fs, num) ==
  LET hit == SelectSeq(fs, LAMBDA f : f.num = num /\ f.wt = 2) IN IF hit = <<>> THEN <<>> ELSE hit[Len(hit)].bytes

\* google.crypto.tink.HashType
PBHash(n) == CASE n = 1 -> "SHA1" [] n = 2 -> "SHA384" [] n = 3 -> "SHA256" [] n = 4 -> "SHA512" [] n = 5 -> "SHA224"
               [] OTHER -> "UNKNOWN"

\* ------------------------------------------------------------------ DEK key message -> RAW key configuration
\*   AesGcmKey{1 version, 3 key_value}            AesGcmSivKey{1 version, 3 key_value}
\*   ChaCha20Poly1305Key{1 version, 2 key_value}  XChaCha20Poly1305Key{1 version, 3 key_value}
\*   AesCtrHmacAeadKey{1 version, 2 AesCtrKey{1 version, 2 AesCtrParams{1 iv_size}, 3 key_value},
\*                     3 HmacKey{1 version, 2 HmacParams{1 hash, 2 tag_size}, 3 key_value}}
RawCfg(kt, key, mkey, ivLen, tagLen, hash) ==
  [kt |-> kt, variant |-> "NO_PREFIX", id |-> <<>>, key |-> key, mkey |-> mkey, ivLen |-> ivLen, tagLen |-> tagLen,
   hash |-> hash, saltLen |-> 0]

DEKConfig(kt, dek) ==
  LET fs == PBParse(dek)
  IN IF ~PBOk(fs) \/ PBInt(fs, 1) # 0 THEN [kt |-> "INVALID"]
     ELSE CASE kt \in {"AESGCM", "AESGCMSIV", "XCHACHA"} -> RawCfg(kt, PBBytes(fs, 3), <<>>, 0, 0, "")
            [] kt = "CHACHA" -> RawCfg(kt, PBBytes(fs, 2), <<>>, 0, 0, "")
            [] kt = "AESCTRHMAC" ->
                 LET ctr  == PBParse(PBBytes(fs, 2))
                     mac  == PBParse(PBBytes(fs, 3))
                 IN IF ~PBOk(ctr) \/ ~PBOk(mac) THEN [kt |-> "INVALID"]
                    ELSE LET cp == PBParse(PBBytes(ctr, 2))
                             mp == PBParse(PBBytes(mac, 2))
                         IN IF ~PBOk(cp) \/ ~PBOk(mp) THEN [kt |-> "INVALID"]
                            ELSE RawCfg(kt, PBBytes(ctr, 3), PBBytes(mac, 3), PBInt(cp, 1), PBInt(mp, 2), PBHash(PBInt(mp, 1)))

\* ------------------------------------------------------------------ the remote (key-encryption) AEAD
\* The remote AEAD is outside Tink; the envelope only requires it to be an AEAD.  Two remotes are modelled:
\*   kind "tink"   : an in-process Tink keyset AEAD over rm.keys (first = primary)
\*   kind "padded" : the harness's size-controlled remote: be16(|inner|) || inner || 0^(padTo - 2 - |inner|) with
\*                   inner = the Tink keyset AEAD's ciphertext; it opens only strings of exactly padTo bytes
\*                   with all-zero padding (so every modification is refused, like a real AEAD).
\* rm = [keys, kind, padTo]
RemoteSeal(rm, nonce, dek) ==
  LET inner == KeysetSeal(rm.keys, 1, nonce, dek, <<>>)
  IN IF rm.kind = "padded" THEN BE(Len(inner), 2) \o inner \o Zeros(rm.padTo - 2 - Len(inner)) ELSE inner

RemoteOpen(rm, c) ==
  IF rm.kind = "padded"
  THEN IF Len(c) # rm.padTo \/ Len(c) < 2 THEN EnvFail
       ELSE LET n == c[1] * 256 + c[2]
            IN IF 2 + n > Len(c) \/ Drop(c, 2 + n) # Zeros(Len(c) - 2 - n) THEN EnvFail
               ELSE KeysetOpen(rm.keys, Slice(c, 2, n), <<>>)
  ELSE KeysetOpen(rm.keys, c, <<>>)

\* ------------------------------------------------------------------ framing
\* The wire format is be32(|encDEK|) || encDEK || payload with 0 < |encDEK| <= |ct| - 4.  Encrypt itself refuses
\* to emit an encrypted DEK longer than EnvelopeMaxEncDEK, so Decrypt may refuse those -- and nothing else:
\* everything Encrypt emits (|encDEK| = EnvelopeMaxEncDEK included) must decrypt.
EnvelopeFrame(encDEK, payload) == BE(Len(encDEK), 4) \o encDEK \o payload
EnvelopeNoBound == 65535

\* [ok, encDEK, payload]; max = largest encrypted-DEK length accepted
EnvelopeParseMax(ct, max) ==
  IF Len(ct) <= 4 THEN [ok |-> FALSE]
  ELSE IF ct[1] # 0 \/ ct[2] # 0 THEN [ok |-> FALSE]          \* >= 65536 (also keeps the value a TLC integer)
  ELSE LET n == ct[3] * 256 + ct[4]
       IN IF n = 0 \/ n > max \/ n > Len(ct) - 4 THEN [ok |-> FALSE]
          ELSE [ok |-> TRUE, encDEK |-> Slice(ct, 4, n), payload |-> Drop(ct, 4 + n)]
EnvelopeParse(ct) == EnvelopeParseMax(ct, EnvelopeMaxEncDEK)

EnvelopeSeal(rm, kekNonce, dekKt, dek, dekNonce, pt, ad) ==
  EnvelopeFrame(RemoteSeal(rm, kekNonce, dek), AEADSeal(DEKConfig(dekKt, dek), dekNonce, pt, ad))

EnvelopeOpenMax(rm, dekKt, ct, ad, max) ==
  LET f == EnvelopeParseMax(ct, max)
  IN IF ~f.ok THEN EnvFail
     ELSE LET d == RemoteOpen(rm, f.encDEK)
          IN IF ~d[1] THEN EnvFail
             ELSE LET c == DEKConfig(dekKt, d[2])
                  IN IF c.kt = "INVALID" THEN EnvFail ELSE AEADOpen(c, f.payload, ad)
EnvelopeOpen(rm, dekKt, ct, ad) == EnvelopeOpenMax(rm, dekKt, ct, ad, EnvelopeMaxEncDEK)

\* A KmsEnvelopeAeadKey inside a keyset (aead.New): output-prefix of that keyset key || envelope.
\* prefix is the 5-byte output prefix of the envelope key, or empty (RAW, the template default).
EnvelopeKeySeal(prefix, rm, kekNonce, dekKt, dek, dekNonce, pt, ad) ==
  prefix \o EnvelopeSeal(rm, kekNonce, dekKt, dek, dekNonce, pt, ad)
EnvelopeKeyOpenMax(prefix, rm, dekKt, ct, ad, max) ==
  IF ~IsPrefixOf(prefix, ct) THEN EnvFail ELSE EnvelopeOpenMax(rm, dekKt, Drop(ct, Len(prefix)), ad, max)
EnvelopeKeyOpen(prefix, rm, dekKt, ct, ad) == EnvelopeKeyOpenMax(prefix, rm, dekKt, ct, ad, EnvelopeMaxEncDEK)

\* length of an envelope ciphertext given the lengths of its parts
EnvelopeLen(encDEKLen, dekCfg, ptLen) == 4 + encDEKLen + AEADCiphertextLen(dekCfg, ptLen)
================================================================================
