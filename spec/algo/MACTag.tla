--------------------------------- MODULE MACTag ---------------------------------
(* Tink MAC wire format over HMAC (RFC 2104, primitive) and AES-CMAC (RFC 4493, *)
(* module CMAC):  tag = output-prefix || first tagSize bytes of F(key, msg [|| 0x00 if LEGACY]). *)
EXTENDS OutputPrefix, CMAC

\* cfg: [alg |-> "HMAC"|"CMAC", hash |-> ..., tagSize |-> n, variant |-> ..., id |-> 4 bytes]
RawMAC(cfg, key, msg) ==
  IF cfg.alg = "HMAC" THEN HMAC(cfg.hash, key, msg) ELSE CMAC(key, msg)

Tag(cfg, key, msg) ==
  Prefix(cfg.variant, cfg.id) \o Take(RawMAC(cfg, key, LegacyMsg(cfg.variant, msg)), cfg.tagSize)

\* The property's verification rule: accept iff the tag equals the computed one.
Verify(cfg, key, tag, msg) == tag = Tag(cfg, key, msg)
================================================================================
