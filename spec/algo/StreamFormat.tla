------------------------------- MODULE StreamFormat -------------------------------
(* Tink's streaming AEAD wire format (AES-GCM-HKDF and AES-CTR-HMAC streaming),     *)
(* https://developers.google.com/tink/streaming-aead :                              *)
(*                                                                                 *)
(*   ciphertext = header || segment_0 || segment_1 || ... || segment_k              *)
(*   header     = len (1 byte = header length) || salt (derived-key size) ||        *)
(*                nonce prefix (7 bytes)                                            *)
(*   session keys = HKDF(hash, ikm = main key, salt, info = associated data):       *)
(*                GCM: an AES key;  CTR-HMAC: AES key || 32-byte HMAC key            *)
(*   nonce_i    = prefix || be32(i) || (1 if segment i is the last else 0)          *)
(*                (|| 0^4 as the 16-byte CTR IV)                                    *)
(*   segment_i  = AES-GCM(key, nonce_i, no ad, pt_i) = ct || 16-byte tag            *)
(*              | AES-CTR(key, nonce_i, pt_i) || HMAC(tagAlg, mac key, nonce_i || ct)[:tag] *)
(*   every ciphertext segment but the last is C bytes long, except that the first   *)
(*   is shorter by the header and the first-segment offset; the last segment holds  *)
(*   the rest: at least one plaintext byte unless the plaintext is empty.           *)
(*                                                                                 *)
(* A configuration c = [alg, key, hkdf, ks, tagAlg, tag, C, off].  HKDF (RFC 5869), *)
(* AES-CTR (SP 800-38A) are the modules of algo/; GCMSeal/GCMOpen/HMAC are           *)
(* primitives (JDK binding).  This decoder/encoder is the "independent              *)
(* implementation" of the property's format clause.                                 *)
EXTENDS HKDF, AESCTR

SNoncePrefixLen == 7
SMacKeyLen      == 32
SIsGCM(c)       == c.alg = "GCM"
SHeaderLen(c)   == 1 + c.ks + SNoncePrefixLen
STagLen(c)      == IF SIsGCM(c) THEN 16 ELSE c.tag
SPlainSeg(c)    == c.C - STagLen(c)                            \* plaintext bytes of a full segment
SFirstPlain(c)  == SPlainSeg(c) - c.off - SHeaderLen(c)        \* ... of the first segment
SConfigOK(c)    == /\ c.alg \in {"GCM", "CTR"} /\ c.ks \in {16, 32} /\ Len(c.key) >= c.ks /\ Len(c.key) >= 16
                   /\ c.off >= 0 /\ SFirstPlain(c) >= 1
                   /\ (~SIsGCM(c) => c.tag >= 10 /\ c.tag <= HashLen(c.tagAlg))

SHeader(c, salt, prefix) == <<SHeaderLen(c)>> \o salt \o prefix

SKeys(c, salt, aad) ==
  LET km == HKDF(c.hkdf, c.key, salt, aad, IF SIsGCM(c) THEN c.ks ELSE c.ks + SMacKeyLen)[2]
  IN [aes |-> Take(km, c.ks), mac |-> Drop(km, c.ks)]

SNonce(c, prefix, i, last) ==
  prefix \o BE(i, 4) \o <<IF last THEN 1 ELSE 0>> \o (IF SIsGCM(c) THEN <<>> ELSE Zeros(4))

SSegSeal(c, keys, nonce, pt) ==
  IF SIsGCM(c) THEN GCMSeal(keys.aes, nonce, <<>>, pt)
  ELSE LET ct == CTRXor(keys.aes, nonce, pt) IN ct \o Take(HMAC(c.tagAlg, keys.mac, nonce \o ct), c.tag)

\* <<ok, plaintext>>
SSegOpen(c, keys, nonce, seg) ==
  IF Len(seg) < STagLen(c) THEN <<FALSE, <<>>>>
  ELSE IF SIsGCM(c) THEN GCMOpen(keys.aes, nonce, <<>>, seg)
  ELSE LET n == Len(seg) - c.tag  ct == Take(seg, n) IN
       IF Drop(seg, n) = Take(HMAC(c.tagAlg, keys.mac, nonce \o ct), c.tag) THEN <<TRUE, CTRXor(keys.aes, nonce, ct)>>
       ELSE <<FALSE, <<>>>>

(***** encoder: the ciphertext of pt with the given salt and nonce prefix *****)
RECURSIVE SSegments(_, _, _, _, _)
SSegments(c, keys, prefix, i, rest) ==
  LET cap == IF i = 0 THEN SFirstPlain(c) ELSE SPlainSeg(c) IN
  IF Len(rest) <= cap THEN SSegSeal(c, keys, SNonce(c, prefix, i, TRUE), rest)
  ELSE SSegSeal(c, keys, SNonce(c, prefix, i, FALSE), Take(rest, cap)) \o SSegments(c, keys, prefix, i + 1, Drop(rest, cap))

StreamEncrypt(c, salt, prefix, aad, pt) ==
  SHeader(c, salt, prefix) \o SSegments(c, SKeys(c, salt, aad), prefix, 0, pt)

(***** decoder: <<ok, plaintext of the segments that verified>> *****)
RECURSIVE SOpenFrom(_, _, _, _, _, _)
SOpenFrom(c, keys, prefix, i, rest, acc) ==
  LET size == IF i = 0 THEN c.C - c.off - SHeaderLen(c) ELSE c.C
      last == Len(rest) <= size
      o    == SSegOpen(c, keys, SNonce(c, prefix, i, last), Take(rest, size))
  IN IF ~o[1] THEN <<FALSE, acc>>
     ELSE IF last THEN <<TRUE, acc \o o[2]>>
     ELSE SOpenFrom(c, keys, prefix, i + 1, Drop(rest, size), acc \o o[2])

StreamDecrypt(c, aad, ct) ==
  LET h == SHeaderLen(c) IN
  IF Len(ct) < h \/ ct[1] # h THEN <<FALSE, <<>>>>
  ELSE LET salt == Slice(ct, 1, c.ks)  prefix == Slice(ct, 1 + c.ks, SNoncePrefixLen) IN
       SOpenFrom(c, SKeys(c, salt, aad), prefix, 0, Drop(ct, h), <<>>)

\* the header fields of a ciphertext (Len(ct) >= header length)
SSaltOf(c, ct)   == Slice(ct, 1, c.ks)
SPrefixOf(c, ct) == Slice(ct, 1 + c.ks, SNoncePrefixLen)
================================================================================
