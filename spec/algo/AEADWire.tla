--------------------------------- MODULE AEADWire ---------------------------------
(* The documented Tink AEAD wire format, uniformly for every key type:              *)
(*     ciphertext = output-prefix || nonce/salt || body || tag                      *)
(* of the underlying standard algorithm.  A key configuration is a record           *)
(*   [kt, variant, id (4 bytes), key, mkey, ivLen, tagLen, hash, saltLen]           *)
(* (fields that a key type does not have are ignored).  AEADSeal is Encrypt with a  *)
(* chosen nonce; AEADOpen is Decrypt: <<TRUE, plaintext>> or <<FALSE, <<>>>>.        *)
(* A keyset AEAD (aead.New) encrypts with the primary and decrypts with the keys     *)
(* whose prefix matches, then with the RAW keys.                                      *)
EXTENDS AESGCM, EtM, GCMSIV, ChaChaX, XAES

KeyTypes == {"AESGCM", "AESCTRHMAC", "AESGCMSIV", "CHACHA", "XCHACHA", "XAES"}

EtMCfg(c) == [ivLen |-> c.ivLen, tagLen |-> c.tagLen, hash |-> c.hash]

\* bytes of fresh randomness at the front of the raw ciphertext (nonce / IV / salt||IV)
AEADNonceLen(c) ==
  CASE c.kt = "AESGCM"     -> AESGCMIVLen
    [] c.kt = "AESCTRHMAC" -> c.ivLen
    [] c.kt = "AESGCMSIV"  -> GCMSIVNonceLen
    [] c.kt = "CHACHA"     -> ChaChaNonceLen
    [] c.kt = "XCHACHA"    -> XChaChaNonceLen
    [] c.kt = "XAES"       -> c.saltLen + XAESIVLen

AEADTagLen(c) ==
  CASE c.kt = "AESGCM"     -> AESGCMTagLen
    [] c.kt = "AESCTRHMAC" -> c.tagLen
    [] c.kt = "AESGCMSIV"  -> GCMSIVTagLen
    [] c.kt = "CHACHA"     -> PolyTagLen
    [] c.kt = "XCHACHA"    -> PolyTagLen
    [] c.kt = "XAES"       -> XAESTagLen

AEADSealRaw(c, nonce, pt, ad) ==
  CASE c.kt = "AESGCM"     -> AESGCMSealRaw(c.key, nonce, pt, ad)
    [] c.kt = "AESCTRHMAC" -> EtMSealRaw(EtMCfg(c), c.key, c.mkey, nonce, pt, ad)
    [] c.kt = "AESGCMSIV"  -> GCMSIVSeal(c.key, nonce, pt, ad)
    [] c.kt = "CHACHA"     -> ChaChaSealRaw(c.key, nonce, pt, ad)
    [] c.kt = "XCHACHA"    -> XChaChaSealRaw(c.key, nonce, pt, ad)
    [] c.kt = "XAES"       -> XAESSealRaw(c.key, Take(nonce, c.saltLen), Drop(nonce, c.saltLen), pt, ad)

AEADOpenRaw(c, ct, ad) ==
  CASE c.kt = "AESGCM"     -> AESGCMOpenRaw(c.key, ct, ad)
    [] c.kt = "AESCTRHMAC" -> EtMOpenRaw(EtMCfg(c), c.key, c.mkey, ct, ad)
    [] c.kt = "AESGCMSIV"  -> GCMSIVOpen(c.key, ct, ad)
    [] c.kt = "CHACHA"     -> ChaChaOpenRaw(c.key, ct, ad)
    [] c.kt = "XCHACHA"    -> XChaChaOpenRaw(c.key, ct, ad)
    [] c.kt = "XAES"       -> XAESOpenRaw(c.key, c.saltLen, ct, ad)

AEADPrefix(c) == Prefix(c.variant, c.id)

AEADSeal(c, nonce, pt, ad) == AEADPrefix(c) \o AEADSealRaw(c, nonce, pt, ad)

AEADOpen(c, ct, ad) ==
  IF ~IsPrefixOf(AEADPrefix(c), ct) THEN <<FALSE, <<>>>>
  ELSE AEADOpenRaw(c, Drop(ct, Len(AEADPrefix(c))), ad)

AEADCiphertextLen(c, ptLen) == PrefixLen(c.variant) + AEADNonceLen(c) + ptLen + AEADTagLen(c)

\* ------------------------------------------------------------------ keyset AEAD
KeysetSeal(ks, primary, nonce, pt, ad) == AEADSeal(ks[primary], nonce, pt, ad)

\* keys with a non-empty matching prefix first, RAW keys afterwards; first success wins
KeysetOpen(ks, ct, ad) ==
  LET order == SelectSeq([i \in 1..Len(ks) |-> i], LAMBDA i : ks[i].variant # "NO_PREFIX") \o
               SelectSeq([i \in 1..Len(ks) |-> i], LAMBDA i : ks[i].variant = "NO_PREFIX")
      hits  == SelectSeq(order, LAMBDA i : AEADOpen(ks[i], ct, ad)[1])
  IN IF hits = <<>> THEN <<FALSE, <<>>>> ELSE AEADOpen(ks[hits[1]], ct, ad)
================================================================================
