---------------------------------- MODULE HKDF ----------------------------------
(* HKDF, RFC 5869, over the uninterpreted HMAC (RFC 2104) of the primitive layer.  *)
EXTENDS Bytes, SequencesExt

HashLen(alg) == CASE alg = "SHA1" -> 20 [] alg = "SHA224" -> 28 [] alg = "SHA256" -> 32
                  [] alg = "SHA384" -> 48 [] alg = "SHA512" -> 64

\* ---- 2.2 Extract: PRK = HMAC-Hash(salt, IKM); salt "if not provided, it is set to a string of
\*      HashLen zeros" (an empty salt is "not provided") ----
HKDFExtract(alg, salt, ikm) ==
  HMAC(alg, IF salt = <<>> THEN Zeros(HashLen(alg)) ELSE salt, ikm)

\* ---- 2.3 Expand: T(0) = "", T(i) = HMAC-Hash(PRK, T(i-1) | info | i), OKM = first L octets of
\*      T(1) | T(2) | ... | T(N), N = ceil(L / HashLen), L <= 255 * HashLen ----
HKDFMaxLen(alg) == 255 * HashLen(alg)
HKDFExpand(alg, prk, info, l) ==
  LET n  == (l + HashLen(alg) - 1) \div HashLen(alg)
      st == FoldLeft(LAMBDA s, i : LET t == HMAC(alg, prk, s[1] \o info \o <<i>>) IN <<t, s[2] \o t>>,
                     <<<<>>, <<>>>>, [i \in 1..n |-> i])
  IN Take(st[2], l)

\* <<TRUE, OKM>>, or <<FALSE, <<>>>> when more than 255 * HashLen octets are requested
HKDF(alg, ikm, salt, info, l) ==
  IF l > HKDFMaxLen(alg) THEN <<FALSE, <<>>>>
  ELSE <<TRUE, HKDFExpand(alg, HKDFExtract(alg, salt, ikm), info, l)>>

\* The output stream read sequentially (key derivation reads leading bytes of it)
HKDFStream(alg, ikm, salt, info) == HKDF(alg, ikm, salt, info, HKDFMaxLen(alg))[2]
================================================================================
