---------------------------------- MODULE PRF ----------------------------------
(* Tink's three PRFs as functions (key, input, n) -> first n output bytes:        *)
(*   HMAC-PRF     HMAC-Hash(key, input)                 (RFC 2104), n <= HashLen   *)
(*   AES-CMAC-PRF AES-CMAC(key, input)                  (RFC 4493), n <= 16        *)
(*   HKDF-PRF     HKDF-Hash(IKM = key, salt = the key's salt, info = input, L = n) *)
(*                                                      (RFC 5869), n <= 255 HashLen *)
(* A request beyond the maximum fails.  cfg = [alg |-> "HMAC"|"CMAC"|"HKDF",       *)
(* hash |-> ..., salt |-> bytes].                                                  *)
EXTENDS HKDF, CMAC

PRFMaxLen(c) == CASE c.alg = "HMAC" -> HashLen(c.hash)
                  [] c.alg = "CMAC" -> BlockLen
                  [] c.alg = "HKDF" -> HKDFMaxLen(c.hash)

\* the whole output of the fixed-width PRFs
PRFFull(c, key, x) == IF c.alg = "HMAC" THEN HMAC(c.hash, key, x) ELSE CMAC(key, x)

\* <<TRUE, output>> or <<FALSE, <<>>>>
PRFCompute(c, key, x, n) ==
  IF n > PRFMaxLen(c) THEN <<FALSE, <<>>>>
  ELSE IF c.alg = "HKDF" THEN HKDF(c.hash, key, c.salt, x, n)
  ELSE <<TRUE, Take(PRFFull(c, key, x), n)>>

\* the prefix law of the property, stated on two outputs
PrefixLaw(outN, n, outM) == Len(outN) = n /\ n <= Len(outM) /\ outN = Take(outM, n)
================================================================================
