---------------------------------- MODULE KWP ----------------------------------
(* AES Key Wrap with Padding, RFC 5649 (= KWP-AE / KWP-AD of NIST SP 800-38F),    *)
(* over the uninterpreted block cipher AESEnc / AESDec.  The wrapping function W  *)
(* and its inverse are those of RFC 3394 section 2.2 (index-based description)    *)
(* with the alternative initial value of RFC 5649 section 3.                      *)
EXTENDS Bytes, SequencesExt

Semi == 8                                          \* a semiblock: 64 bits
KwpIcv2 == <<166, 89, 89, 166>>                    \* A65959A6
AIV(mli) == KwpIcv2 \o BE(mli, 4)                  \* A65959A6 || 32-bit big-endian octet length

SemiBlocks(b) == [i \in 1..(Len(b) \div Semi) |-> Slice(b, (i - 1) * Semi, Semi)]
Join(rs) == FoldLeft(LAMBDA acc, r : acc \o r, <<>>, rs)

\* 64-bit big-endian encoding of the step counter t = n*j + i (t < 2^31 here)
T64(t) == Zeros(4) \o BE(t, 4)

\* ---- RFC 3394 2.2.1: W(K, A0, R1..Rn), n >= 2 ----
\*   for j = 0..5, i = 1..n:  B = AES(K, A | R[i]); A = MSB64(B) xor t, t = n*j + i; R[i] = LSB64(B)
\*   output A | R[1] | ... | R[n]
W(k, a0, rs) ==
  LET n  == Len(rs)
      st == FoldLeft(LAMBDA s, t :
                       LET i == ((t - 1) % n) + 1
                           b == AESEnc(k, s[1] \o s[2][i])
                       IN <<Xor(Take(b, Semi), T64(t)), [s[2] EXCEPT ![i] = Drop(b, Semi)]>>,
                     <<a0, rs>>, [t \in 1..(6 * n) |-> t])
  IN st[1] \o Join(st[2])

\* ---- RFC 3394 2.2.2: W^-1(K, C0..Cn) = <<A, R1..Rn>> ----
\*   for j = 5..0, i = n..1:  B = AES^-1(K, (A xor t) | R[i]), t = n*j + i; A = MSB64(B); R[i] = LSB64(B)
WInv(k, c) ==
  LET cs == SemiBlocks(c)
      n  == Len(cs) - 1
      st == FoldLeft(LAMBDA s, u :
                       LET t == 6 * n + 1 - u
                           i == ((t - 1) % n) + 1
                           b == AESDec(k, Xor(s[1], T64(t)) \o s[2][i])
                       IN <<Take(b, Semi), [s[2] EXCEPT ![i] = Drop(b, Semi)]>>,
                     <<cs[1], Tail(cs)>>, [u \in 1..(6 * n) |-> u])
  IN <<st[1], Join(st[2])>>

PadLen(m) == (Semi - (m % Semi)) % Semi
WrapLen(m) == m + PadLen(m) + Semi                 \* length of the wrapping of an m-octet key

\* ---- RFC 5649 4.1: extended key wrapping ----
RFCWrap(k, p) ==
  LET padded == p \o Zeros(PadLen(Len(p)))
  IN IF Len(padded) = Semi THEN AESEnc(k, AIV(Len(p)) \o padded)
     ELSE W(k, AIV(Len(p)), SemiBlocks(padded))

\* ---- RFC 5649 4.2: extended key unwrapping, <<TRUE, P>> or <<FALSE, <<>>>> ----
\*   1) n = 1: A | P[1] = AES^-1(K, C0 | C1)   else W^-1
\*   2) MSB32(A) = A65959A6
\*   3) MLI = LSB32(A) with 8(n-1) < MLI <= 8n
\*   4) the rightmost 8n - MLI octets of the output are zero
RFCUnwrap(k, c) ==
  IF Len(c) < 2 * Semi \/ Len(c) % Semi # 0 THEN <<FALSE, <<>>>>
  ELSE LET n   == (Len(c) \div Semi) - 1
           ap  == IF n = 1 THEN LET b == AESDec(k, c) IN <<Take(b, Semi), Drop(b, Semi)>>
                  ELSE WInv(k, c)
           a   == ap[1]
           p   == ap[2]
           mliB == Drop(a, 4)                      \* 32-bit MLI, compared as bytes (may exceed a TLC integer)
           inRange == BytesLess(BE(Semi * (n - 1), 4), mliB) /\ ~BytesLess(BE(Semi * n, 4), mliB)
           mli == BEToNat(mliB)                    \* only evaluated when inRange
       IN IF Take(a, 4) # KwpIcv2 THEN <<FALSE, <<>>>>
          ELSE IF ~inRange THEN <<FALSE, <<>>>>
          ELSE IF Drop(p, mli) # Zeros(Semi * n - mli) THEN <<FALSE, <<>>>>
          ELSE <<TRUE, Take(p, mli)>>

\* ---- Tink's domain (kwp/subtle): keys of 16..8192 octets ----
MinWrap == 16
MaxWrap == 8192
TinkWrap(k, p) == IF Len(p) < MinWrap \/ Len(p) > MaxWrap THEN <<FALSE, <<>>>> ELSE <<TRUE, RFCWrap(k, p)>>
\* a wrapping is mis-sized when no key of 16..8192 octets wraps to that length
SizeOK(c) == Len(c) >= WrapLen(MinWrap) /\ Len(c) <= WrapLen(MaxWrap) /\ Len(c) % Semi = 0
TinkUnwrap(k, c) == IF ~SizeOK(c) THEN <<FALSE, <<>>>> ELSE RFCUnwrap(k, c)
================================================================================
