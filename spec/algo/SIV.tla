---------------------------------- MODULE SIV ----------------------------------
(* AES-SIV-CMAC, RFC 5297, over the uninterpreted block cipher AESEnc and the    *)
(* RFC 4493 transcription of module CMAC (dbl is CMAC!Dbl: RFC 5297 2.3 defines  *)
(* it as the same doubling in GF(2^128)).                                         *)
(*                                                                               *)
(* A key is K1 || K2 (two equal halves: K1 keys S2V, K2 keys CTR).  Associated    *)
(* data is a VECTOR of strings (RFC 5297 2.6); Tink's deterministic AEAD uses a   *)
(* vector of exactly one component, the nonce-based AEAD of RFC 5297 section 3    *)
(* uses <<AD, nonce>>.                                                            *)
EXTENDS CMAC

\* ---- RFC 5297 section 2.1: notation ----
\* pad(X): 10^* padding up to the block length (Len(X) < BlockLen)
SivPad(x) == Pad(x)
\* A xorend B (Len(A) >= Len(B)): xor B into the rightmost Len(B) bytes of A
XorEnd(a, b) == Take(a, Len(a) - Len(b)) \o Xor(LastN(a, Len(b)), b)

SivZero == Zeros(BlockLen)
SivOne  == Zeros(BlockLen - 1) \o <<1>>

\* ---- RFC 5297 section 2.4: S2V(K, S1, ..., Sn) ----
\*   if n = 0 return V = AES-CMAC(K, <one>)
\*   D = AES-CMAC(K, <zero>)
\*   for i = 1 to n-1:  D = dbl(D) xor AES-CMAC(K, Si)
\*   if len(Sn) >= 128: T = Sn xorend D   else  T = dbl(D) xor pad(Sn)
\*   return V = AES-CMAC(K, T)
S2V(k, ss) ==
  IF ss = <<>> THEN CMAC(k, SivOne)
  ELSE LET n  == Len(ss)
           d  == FoldLeft(LAMBDA acc, i : Xor(Dbl(acc), CMAC(k, ss[i])),
                          CMAC(k, SivZero), [i \in 1..(n - 1) |-> i])
           sn == ss[n]
           t  == IF Len(sn) >= BlockLen THEN XorEnd(sn, d) ELSE Xor(Dbl(d), SivPad(sn))
       IN  CMAC(k, t)

\* ---- RFC 5297 section 2.5: the counter ----
\* Q = V bitand (1^64 || 0 || 1^31 || 0 || 1^31): bits 31 and 63 (counted from the right) are
\* cleared, i.e. the top bit of byte 9 and of byte 13 (1-based) of the 16-byte block.
ClearTop(x) == x % 128
SivQ(v) == [i \in 1..Len(v) |-> IF i = 9 \/ i = 13 THEN ClearTop(v[i]) ELSE v[i]]

\* CTR (SP 800-38A) key stream of n bytes from the initial counter block q, incrementing
\* the whole block as a big-endian integer.
CTRStream(k, q, n) ==
  LET m  == (n + BlockLen - 1) \div BlockLen
      st == FoldLeft(LAMBDA s, i : <<IncBE(s[1]), s[2] \o AESEnc(k, s[1])>>,
                     <<q, <<>>>>, [i \in 1..m |-> i])
  IN Take(st[2], n)

SivK1(key) == Take(key, Len(key) \div 2)
SivK2(key) == Drop(key, Len(key) \div 2)

\* ---- RFC 5297 section 2.6: SIV-ENCRYPT(K, P, AD1..ADn) = V || C ----
SIVEncrypt(key, ads, pt) ==
  LET v == S2V(SivK1(key), Append(ads, pt))
      c == Xor(pt, CTRStream(SivK2(key), SivQ(v), Len(pt)))
  IN v \o c

\* ---- RFC 5297 section 2.7: SIV-DECRYPT(K, Z, AD1..ADn) = P or FAIL ----
\* The plaintext is recovered first and only then authenticated (compare-after-decrypt).
SIVDecrypt(key, ads, z) ==
  IF Len(z) < BlockLen THEN <<FALSE, <<>>>>
  ELSE LET v == Take(z, BlockLen)
           c == Drop(z, BlockLen)
           p == Xor(c, CTRStream(SivK2(key), SivQ(v), Len(c)))
           t == S2V(SivK1(key), Append(ads, p))
       IN IF t = v THEN <<TRUE, p>> ELSE <<FALSE, <<>>>>

\* ---- the streaming form of CMAC(K, data xorend last) used by the implementation ----
\* internal/mac/aescmac XOREndAndCompute never materialises data xorend last: it runs the CBC chain of
\* RFC 4493 over the blocks of data and xors the bytes of `last` into whatever part of the current block lies
\* within the final BlockLen bytes of data.  With n full blocks before the last one and r = Len(data) - n*BlockLen
\* bytes in the last block, the first BlockLen - r bytes of `last` fall into the tail of block n and the remaining
\* r bytes into the last block.  Its SPECIFICATION is simply CMAC of the xorend string (XorEndAndCompute below);
\* XorEndStream transcribes the routine, and Self_SIV checks the identity of the two for every length (the
\* conformance check validates the real routine against XorEndAndCompute).
XorEndStream(k, data, last) ==
  LET len   == Len(data)
      n     == IF len % BlockLen = 0 THEN (len \div BlockLen) - 1 ELSE len \div BlockLen
      r     == len - n * BlockLen                          \* 1..BlockLen bytes in the last block
      head  == BlockLen - r                                \* bytes of `last` that belong to block n
      Blk(i) == Slice(data, (i - 1) * BlockLen, BlockLen)
      XBlk(i) == IF i = n /\ head > 0
                 THEN Take(Blk(i), r) \o Xor(Drop(Blk(i), r), Take(last, head))
                 ELSE Blk(i)
      chain == FoldLeft(LAMBDA x, i : AESEnc(k, Xor(x, XBlk(i))), Zeros(BlockLen), [i \in 1..n |-> i])
      lastB == Xor(Drop(data, n * BlockLen), Drop(last, head))
      mLast == IF r = BlockLen THEN Xor(lastB, K1(k)) ELSE Xor(Pad(lastB), K2(k))
  IN AESEnc(k, Xor(chain, mLast))

XorEndAndCompute(k, data, last) == CMAC(k, XorEnd(data, last))
================================================================================
