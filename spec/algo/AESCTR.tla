--------------------------------- MODULE AESCTR ---------------------------------
(* AES-CTR (NIST SP 800-38A section 6.5) over the uninterpreted AES block.          *)
(* Tink's IND-CPA cipher: the IV of 12..16 bytes is zero-padded ON THE RIGHT to the *)
(* block size and is the initial counter block; the whole block is one big-endian   *)
(* 128-bit counter incremented by one per block (standard incrementing function     *)
(* with m = 128).  Output: IV || (plaintext XOR key stream).                         *)
EXTENDS Bytes, SequencesExt

CTRInitialCounter(iv) == iv \o Zeros(BlockLen - Len(iv))

\* key stream of nBlocks blocks starting at counter block cb
CTRKeyStream(key, cb, nBlocks) ==
  FoldLeft(LAMBDA s, j : [cb |-> IncBE(s.cb), ks |-> s.ks \o AESEnc(key, s.cb)],
           [cb |-> cb, ks |-> <<>>], [j \in 1..nBlocks |-> j]).ks

CTRXor(key, iv, in) ==
  IF in = <<>> THEN <<>>
  ELSE Xor(in, Take(CTRKeyStream(key, CTRInitialCounter(iv), (Len(in) + BlockLen - 1) \div BlockLen), Len(in)))

AESCTREncrypt(key, iv, pt) == iv \o CTRXor(key, iv, pt)

\* c = IV || body, Len(c) >= ivLen
AESCTRDecrypt(key, ivLen, c) == CTRXor(key, Take(c, ivLen), Drop(c, ivLen))
================================================================================
