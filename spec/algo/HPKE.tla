---------------------------------- MODULE HPKE ----------------------------------
(* Hybrid Public Key Encryption, RFC 9180, base mode, single-shot, as a function. *)
(* Transcribed from sections 4 (DHKEM), 5.1 (KeySchedule), 5.2 (nonce), 6.1        *)
(* (single-shot), 7.1-7.3 (identifiers and lengths); the ML-KEM KEMs (0x0041,      *)
(* 0x0042: the shared secret is the ML-KEM shared secret, enc the ML-KEM           *)
(* ciphertext) and X-Wing (0x647a) from the IANA HPKE registry.                    *)
(* Primitives: HMAC (under HKDF), ECDH/ECPublic, X25519, AES-GCM,                  *)
(* ChaCha20-Poly1305.  ML-KEM decapsulation is an assumed primitive passed as the  *)
(* operator MLD(param, seed, ct) -> <<ok, ss>>.                                    *)
(* A suite is a record [kem, kdf, aead] of names.                                  *)
EXTENDS HKDFLabeled, XWing, OutputPrefix

HpkeKEMs  == {"P256", "P384", "P521", "X25519", "MLKEM768", "MLKEM1024", "XWING"}
HpkeKDFs  == {"SHA256", "SHA384", "SHA512"}
HpkeAEADs == {"AES128GCM", "AES256GCM", "CHACHA20POLY1305"}
DHKEMs == {"P256", "P384", "P521", "X25519"}

\* RFC 9180 7.1 table 2 (+ IANA registry for 0x0041, 0x0042, 0x647a)
KemId(kem) == CASE kem = "P256" -> 16 [] kem = "P384" -> 17 [] kem = "P521" -> 18 [] kem = "X25519" -> 32
                [] kem = "MLKEM768" -> 65 [] kem = "MLKEM1024" -> 66 [] kem = "XWING" -> 25722
KemHash(kem) == CASE kem = "P256" -> "SHA256" [] kem = "P384" -> "SHA384" [] kem = "P521" -> "SHA512"
                  [] kem = "X25519" -> "SHA256"
Nsecret(kem) == CASE kem = "P256" -> 32 [] kem = "P384" -> 48 [] kem = "P521" -> 64 [] OTHER -> 32
Nenc(kem) == CASE kem = "P256" -> 65 [] kem = "P384" -> 97 [] kem = "P521" -> 133 [] kem = "X25519" -> 32
               [] kem = "MLKEM768" -> 1088 [] kem = "MLKEM1024" -> 1568 [] kem = "XWING" -> 1120
Npk(kem) == CASE kem = "P256" -> 65 [] kem = "P384" -> 97 [] kem = "P521" -> 133 [] kem = "X25519" -> 32
              [] kem = "MLKEM768" -> 1184 [] kem = "MLKEM1024" -> 1568 [] kem = "XWING" -> 1216
Nsk(kem) == CASE kem = "P256" -> 32 [] kem = "P384" -> 48 [] kem = "P521" -> 66 [] kem = "X25519" -> 32
              [] kem = "MLKEM768" -> 64 [] kem = "MLKEM1024" -> 64 [] kem = "XWING" -> 32
\* 7.2 table 3, 7.3 table 5
KdfId(kdf) == CASE kdf = "SHA256" -> 1 [] kdf = "SHA384" -> 2 [] kdf = "SHA512" -> 3
AeadId(a) == CASE a = "AES128GCM" -> 1 [] a = "AES256GCM" -> 2 [] a = "CHACHA20POLY1305" -> 3
Nk(a) == IF a = "AES128GCM" THEN 16 ELSE 32
Nn(a) == 12
Nt(a) == 16

\* 4.1: suite_id = concat("KEM", I2OSP(kem_id, 2));  5.1: concat("HPKE", I2OSP(kem_id,2), I2OSP(kdf_id,2), I2OSP(aead_id,2))
KemSuiteId(kem) == StrToBytes("KEM") \o I2OSP(KemId(kem), 2)
HpkeSuiteId(s) == StrToBytes("HPKE") \o I2OSP(KemId(s.kem), 2) \o I2OSP(KdfId(s.kdf), 2) \o I2OSP(AeadId(s.aead), 2)

------------------------------------------------------------------------------------
(* 4.1 DHKEM.   DH(skX, pkY): for P-256/384/521 the x-coordinate (SEC 1 2.3.5) after *)
(* validating pkY (uncompressed point on the curve, 7.1.4); for X25519 the RFC 7748  *)
(* function, aborting when the result is all-zero (7.1.4).                           *)
DH(kem, sk, pk) ==
  IF Len(pk) # Npk(kem) \/ Len(sk) # Nsk(kem) THEN <<FALSE, <<>>>>
  ELSE IF kem = "X25519"
       THEN LET x == X25519(sk, pk) IN IF x[1] /\ x[2] # Zeros(32) THEN x ELSE <<FALSE, <<>>>>
       ELSE ECDH(kem, sk, pk)
\* SerializePublicKey(pk(skX))
PK(kem, sk) == IF kem = "X25519" THEN X25519Public(sk) ELSE ECPublic(kem, sk)

(*   def ExtractAndExpand(dh, kem_context):                                          *)
(*     eae_prk = LabeledExtract("", "eae_prk", dh)                                   *)
(*     shared_secret = LabeledExpand(eae_prk, "shared_secret", kem_context, Nsecret) *)
ExtractAndExpand(kem, dh, kemContext) ==
  LET eaePrk == LabeledExtract(KemHash(kem), KemSuiteId(kem), <<>>, "eae_prk", dh)
  IN LabeledExpand(KemHash(kem), KemSuiteId(kem), eaePrk, "shared_secret", kemContext, Nsecret(kem))

(*   def Encap(pkR):  skE, pkE = GenerateKeyPair(); dh = DH(skE, pkR); enc = Serialize(pkE) *)
(*     kem_context = concat(enc, SerializePublicKey(pkR)); return ExtractAndExpand(..), enc *)
\* with the ephemeral key chosen: -> <<ok, shared_secret, enc>>
DHEncap(kem, pkR, skE) ==
  LET dh == DH(kem, skE, pkR)
      enc == PK(kem, skE)
  IN IF ~dh[1] THEN <<FALSE, <<>>, <<>>>> ELSE <<TRUE, ExtractAndExpand(kem, dh[2], enc \o pkR), enc>>

(*   def Decap(enc, skR):  pkE = Deserialize(enc); dh = DH(skR, pkE)                  *)
(*     kem_context = concat(enc, SerializePublicKey(pk(skR))); return ExtractAndExpand *)
DHDecap(kem, enc, skR) ==
  LET dh == DH(kem, skR, enc)
  IN IF ~dh[1] THEN <<FALSE, <<>>>> ELSE <<TRUE, ExtractAndExpand(kem, dh[2], enc \o PK(kem, skR))>>

\* Every KEM: Decap(enc, skR) -> <<ok, shared_secret>>
Decap(kem, enc, skR, MLD(_, _, _)) ==
  IF Len(enc) # Nenc(kem) THEN <<FALSE, <<>>>>
  ELSE CASE kem \in DHKEMs -> DHDecap(kem, enc, skR)
         [] kem = "MLKEM768" -> MLD("768", skR, enc)
         [] kem = "MLKEM1024" -> MLD("1024", skR, enc)
         [] kem = "XWING" -> XWingDecap(enc, skR, MLD)

------------------------------------------------------------------------------------
(* 5.1 KeySchedule, mode_base = 0x00, default psk = psk_id = "":                     *)
(*   psk_id_hash = LabeledExtract("", "psk_id_hash", psk_id)                         *)
(*   info_hash = LabeledExtract("", "info_hash", info)                               *)
(*   key_schedule_context = concat(mode, psk_id_hash, info_hash)                     *)
(*   secret = LabeledExtract(shared_secret, "secret", psk)                           *)
(*   key = LabeledExpand(secret, "key", key_schedule_context, Nk)                    *)
(*   base_nonce = LabeledExpand(secret, "base_nonce", key_schedule_context, Nn)      *)
(*   exporter_secret = LabeledExpand(secret, "exp", key_schedule_context, Nh)        *)
ModeBase == 0
KeyScheduleContext(s, info) ==
  LET id == HpkeSuiteId(s)
  IN <<ModeBase>> \o LabeledExtract(s.kdf, id, <<>>, "psk_id_hash", <<>>)
                  \o LabeledExtract(s.kdf, id, <<>>, "info_hash", info)
KsSecret(s, sharedSecret) == LabeledExtract(s.kdf, HpkeSuiteId(s), sharedSecret, "secret", <<>>)
KeySchedule(s, sharedSecret, info) ==
  LET id  == HpkeSuiteId(s)
      ksc == KeyScheduleContext(s, info)
      sec == KsSecret(s, sharedSecret)
  IN [key |-> LabeledExpand(s.kdf, id, sec, "key", ksc, Nk(s.aead)),
      base_nonce |-> LabeledExpand(s.kdf, id, sec, "base_nonce", ksc, Nn(s.aead)),
      exporter_secret |-> LabeledExpand(s.kdf, id, sec, "exp", ksc, HashLen(s.kdf))]

\* 5.2  ComputeNonce(seq) = xor(base_nonce, I2OSP(seq, Nn))      (seq < 2^31 here)
ComputeNonce(s, baseNonce, seq) == Xor(baseNonce, Zeros(Nn(s.aead) - 4) \o I2OSP(seq, 4))

AeadSeal(a, key, nonce, aad, pt) ==
  IF a = "CHACHA20POLY1305" THEN ChaChaPolySeal(key, nonce, aad, pt) ELSE GCMSeal(key, nonce, aad, pt)
AeadOpen(a, key, nonce, aad, ct) ==
  IF Len(ct) < Nt(a) THEN <<FALSE, <<>>>>
  ELSE IF a = "CHACHA20POLY1305" THEN ChaChaPolyOpen(key, nonce, aad, ct) ELSE GCMOpen(key, nonce, aad, ct)

\* ContextS.Seal / ContextR.Open at sequence number seq
ContextSeal(s, ctx, seq, aad, pt) == AeadSeal(s.aead, ctx.key, ComputeNonce(s, ctx.base_nonce, seq), aad, pt)
ContextOpen(s, ctx, seq, aad, ct) == AeadOpen(s.aead, ctx.key, ComputeNonce(s, ctx.base_nonce, seq), aad, ct)

------------------------------------------------------------------------------------
(* 6.1 single-shot:  Seal(pkR, info, aad, pt) = enc, ContextS.Seal(aad, pt)          *)
(*                   Open(enc, skR, info, aad, ct) = ContextR.Open(aad, ct)          *)
\* from a finished encapsulation (sharedSecret, enc): the message  enc || ct
HpkeSealWith(s, sharedSecret, enc, info, aad, pt) ==
  enc \o ContextSeal(s, KeySchedule(s, sharedSecret, info), 0, aad, pt)

\* DHKEM with a chosen ephemeral key -> <<ok, enc || ct>>
HpkeSealDH(s, pkR, skE, info, aad, pt) ==
  LET e == DHEncap(s.kem, pkR, skE)
  IN IF ~e[1] THEN <<FALSE, <<>>>> ELSE <<TRUE, HpkeSealWith(s, e[2], e[3], info, aad, pt)>>

\* message = enc || ct  -> <<ok, pt>>
HpkeOpen(s, skR, msg, info, aad, MLD(_, _, _)) ==
  IF Len(msg) < Nenc(s.kem) THEN <<FALSE, <<>>>>
  ELSE LET enc == Take(msg, Nenc(s.kem))
           ss  == Decap(s.kem, enc, skR, MLD)
       IN IF ~ss[1] THEN <<FALSE, <<>>>>
          ELSE ContextOpen(s, KeySchedule(s, ss[2], info), 0, aad, Drop(msg, Nenc(s.kem)))

------------------------------------------------------------------------------------
(* Tink wire format (documented): ciphertext = output prefix || enc || ct, empty aad, *)
(* context info = HPKE info.  Variants TINK, CRUNCHY, NO_PREFIX.                      *)
HpkeTinkDecrypt(s, variant, id, skR, ciphertext, info, MLD(_, _, _)) ==
  LET p == Prefix(variant, id)
  IN IF ~IsPrefixOf(p, ciphertext) THEN <<FALSE, <<>>>>
     ELSE HpkeOpen(s, skR, Drop(ciphertext, Len(p)), info, <<>>, MLD)

HybridFrame(variant, id, msg) == Prefix(variant, id) \o msg
================================================================================
